import ScrapliModel.Interactive
import ScrapliModel.Lemmas.Channel
/-!
Helper lemmas and specification vocabulary for C12 (`Props/C12.lean`).
-/
namespace Scrapli.Inter
open Scrapli Scrapli.Chan

/-! ## specification vocabulary -/

/-- the echo read for `input` completed on exactly the dequeued chunks `echo`: the echo predicate
(exact or fuzzy, on its search window) holds of their concatenation and held after none of the
earlier chunks — or the read was the no-op `ReadUntilFuzzy` performs for an empty input -/
def EchoSeen (cfg : Cfg) (input : Bytes) (echo : List Bytes) : Prop :=
  (echoImmediate cfg input = true ∧ echo = []) ∨
  (echo ≠ [] ∧ echoPred cfg input echo.flatten = true ∧
    ∀ k, 0 < k → k < echo.length → echoPred cfg input (echo.take k).flatten = false)

/-- what the read after event `e`'s return waits for, evaluated as the code does (search window of
the bytes `D` delivered since the return): a complete pattern, or the event's expected response,
or the prompt when the event has none -/
def RespMatched (cfg : Cfg) (complete : List (Bytes → Bool)) (e : Event) (D : Bytes) : Prop :=
  anyPred (complete ++ [e.resp.getD cfg.promptP]) cfg D = true

/-- the early-completion test of the loop: a complete pattern matches everything that read returned -/
def Completed (complete : List (Bytes → Bool)) (D : Bytes) : Prop :=
  complete.any (fun p => p D) = true

/-- a pattern that matches the search window of a buffer also matches the buffer (true of
line-anchored patterns whenever the window starts at a line boundary, i.e. no line is longer than
the search depth) -/
def WindowSound (cfg : Cfg) (ps : List (Bytes → Bool)) : Prop :=
  ∀ p ∈ ps, ∀ rb, p (window rb cfg.depth) = true → p rb = true


/-- the search window is a suffix of the buffer (same statement as C01's `window_suffix`) -/
theorem window_is_suffix (rb : Bytes) (d : Nat) : ∃ pre, rb = pre ++ window rb d := by
  unfold window
  split
  · exact ⟨[], rfl⟩
  · simp only
    split
    · split
      · rename_i i _ _
        refine ⟨rb.take (rb.length - d) ++ (rb.drop (rb.length - d)).take i, ?_⟩
        rw [List.append_assoc, List.take_append_drop, List.take_append_drop]
      · exact ⟨rb.take (rb.length - d), (List.take_append_drop _ _).symm⟩
    · exact ⟨rb.take (rb.length - d), (List.take_append_drop _ _).symm⟩

/-- "contains this text" is sound on the window -/
theorem windowSound_isInfix (cfg : Cfg) (needle : Bytes) : WindowSound cfg [isInfix needle] := by
  intro p hp rb h
  simp only [List.mem_singleton] at hp
  subst hp
  obtain ⟨pre, hpre⟩ := window_is_suffix rb cfg.depth
  obtain ⟨a, b, hab⟩ := (isInfix_iff _ _).mp h
  rw [hpre, hab]
  exact (isInfix_iff _ _).mpr ⟨pre ++ a, b, by simp⟩

/-! ## the read loop -/

theorem readC_split (P : Bytes → Bool) (q : List Bytes) (rb : Bytes) :
    (readC P q rb).2.1 ++ (readC P q rb).2.2 = q := by
  induction q generalizing rb with
  | nil => simp [readC]
  | cons c q ih =>
    simp only [readC]
    split
    · simp
    · simp [ih]

theorem readC_found (P : Bytes → Bool) (q : List Bytes) (rb : Bytes)
    (h : (readC P q rb).1 = true) :
    (readC P q rb).2.1 ≠ [] ∧ P (rb ++ (readC P q rb).2.1.flatten) = true ∧
    ∀ k, 0 < k → k < (readC P q rb).2.1.length →
      P (rb ++ ((readC P q rb).2.1.take k).flatten) = false := by
  induction q generalizing rb with
  | nil => simp [readC] at h
  | cons c q ih =>
    simp only [readC] at h ⊢
    split
    · rename_i hP
      refine ⟨by simp, by simpa using hP, ?_⟩
      intro k h0 hk
      simp at hk
      omega
    · rename_i hP
      simp only [hP, Bool.false_eq_true, if_false] at h
      obtain ⟨_, h2, h3⟩ := ih (rb ++ c) h
      refine ⟨by simp, ?_, ?_⟩
      · simpa [List.append_assoc] using h2
      · intro k h0 hk
        cases k with
        | zero => omega
        | succ k =>
          simp only [List.take_succ_cons, List.flatten_cons]
          cases k with
          | zero => simpa using hP
          | succ k =>
            have := h3 (k + 1) (by omega) (by simp at hk; omega)
            simpa [List.append_assoc] using this

theorem readC_dry (P : Bytes → Bool) (q : List Bytes) (rb : Bytes)
    (h : (readC P q rb).1 = false) :
    (readC P q rb).2.1 = q ∧ (readC P q rb).2.2 = [] := by
  induction q generalizing rb with
  | nil => simp [readC]
  | cons c q ih =>
    simp only [readC] at h ⊢
    split
    · rename_i hP; simp [hP] at h
    · rename_i hP
      simp only [hP, Bool.false_eq_true, if_false] at h
      obtain ⟨h1, h2⟩ := ih (rb ++ c) h
      simp [h1, h2]

/-- `readC` is `Chan.readUntil` plus the list of dequeued chunks -/
theorem readC_eq_readUntil (P : Bytes → Bool) (q : List Bytes) (rb : Bytes) :
    readUntil P q rb =
      if (readC P q rb).1 then some (rb ++ (readC P q rb).2.1.flatten, (readC P q rb).2.2)
      else none := by
  induction q generalizing rb with
  | nil => simp [readC, readUntil]
  | cons c q ih =>
    simp only [readC, readUntil]
    split
    · simp
    · rw [ih]
      split <;> simp [List.append_assoc]

/-! ## deliveries and writes of traces -/

@[simp] theorem writesOf_append (a b : List Ev) : writesOf (a ++ b) = writesOf a ++ writesOf b := by
  induction a with
  | nil => rfl
  | cons x t ih => cases x <;> simp [writesOf, ih]

@[simp] theorem deliveredOf_append (a b : List Ev) :
    deliveredOf (a ++ b) = deliveredOf a ++ deliveredOf b := by
  induction a with
  | nil => rfl
  | cons x t ih => cases x <;> simp [deliveredOf, ih]

@[simp] theorem writesOf_dels (cs : List Bytes) : writesOf (dels cs) = [] := by
  induction cs with
  | nil => rfl
  | cons c t ih => simpa [dels, writesOf] using ih

@[simp] theorem deliveredOf_dels (cs : List Bytes) : deliveredOf (dels cs) = cs.flatten := by
  induction cs with
  | nil => rfl
  | cons c t ih => simpa [dels, deliveredOf] using ih

theorem write_not_mem_dels (x : Bytes) (r : Bool) (cs : List Bytes) : Ev.write x r ∉ dels cs := by
  simp [dels]

/-! ## one loop iteration -/

theorem echoRead_seen (cfg : Cfg) (input : Bytes) (q : List Bytes)
    (h : (echoRead cfg input q).1 = true) : EchoSeen cfg input (echoRead cfg input q).2.1 := by
  unfold echoRead at h ⊢
  split
  · rename_i hi; exact Or.inl ⟨hi, rfl⟩
  · rename_i hi
    simp only [hi, Bool.false_eq_true, if_false] at h
    obtain ⟨h1, h2, h3⟩ := readC_found _ _ _ h
    exact Or.inr ⟨h1, by simpa using h2, by simpa using h3⟩

theorem echoRead_split (cfg : Cfg) (input : Bytes) (q : List Bytes) :
    (echoRead cfg input q).2.1 ++ (echoRead cfg input q).2.2 = q := by
  unfold echoRead
  split
  · simp
  · exact readC_split _ _ _

section step
variable {σ : Type} (cfg : Cfg) (complete : List (Bytes → Bool)) (dev : Dev σ)
    (last : Bool) (e : Event) (s : St σ)

theorem step_input : (stepEvent cfg complete dev last e s).seg.input = e.input := by
  unfold stepEvent
  dsimp only
  repeat' split
  all_goals rfl

theorem step_hidden : (stepEvent cfg complete dev last e s).seg.hidden = e.hidden := by
  unfold stepEvent
  dsimp only
  repeat' split
  all_goals rfl

theorem step_unawaited (h : echoAwaited e = false) :
    (stepEvent cfg complete dev last e s).seg.echo = [] ∧
    (stepEvent cfg complete dev last e s).seg.ret = some cfg.ret := by
  unfold stepEvent eventEcho
  simp only [h]
  repeat' split
  all_goals simp_all

theorem step_ret_cases :
    (stepEvent cfg complete dev last e s).seg.ret = none ∨
    (stepEvent cfg complete dev last e s).seg.ret = some cfg.ret := by
  unfold stepEvent
  dsimp only
  repeat' split
  all_goals simp

theorem step_ret_none (h : (stepEvent cfg complete dev last e s).seg.ret = none) :
    (stepEvent cfg complete dev last e s).seg.resp = [] ∧
    (stepEvent cfg complete dev last e s).out = .fail := by
  unfold stepEvent at h ⊢
  dsimp only at h ⊢
  repeat' split
  all_goals simp_all

theorem step_echo (h : echoAwaited e = true)
    (hr : (stepEvent cfg complete dev last e s).seg.ret = some cfg.ret) :
    EchoSeen cfg e.input (stepEvent cfg complete dev last e s).seg.echo := by
  unfold stepEvent eventEcho at hr ⊢
  simp only [h, if_true] at hr ⊢
  split
  · rename_i h1; simp [h1] at hr
  · rename_i h1
    have := echoRead_seen cfg e.input (s.write dev e.input).q (by simpa using h1)
    repeat' split
    all_goals exact this

theorem step_ok (h : (stepEvent cfg complete dev last e s).out ≠ .fail) :
    (stepEvent cfg complete dev last e s).seg.ret = some cfg.ret ∧
    RespMatched cfg complete e (stepEvent cfg complete dev last e s).seg.resp.flatten ∧
    (stepEvent cfg complete dev last e s).b =
      (stepEvent cfg complete dev last e s).seg.echo.flatten ++
      (stepEvent cfg complete dev last e s).seg.resp.flatten := by
  unfold stepEvent at h ⊢
  dsimp only at h ⊢
  split
  · rename_i h1; simp [h1] at h
  · rename_i h1
    split
    · rename_i h2; simp [h1, h2] at h
    · rename_i h2
      have hf := (readC_found _ _ _ (by simpa using h2)).2.1
      simp only [List.nil_append] at hf
      split <;> exact ⟨rfl, hf, rfl⟩

theorem step_cont (h : (stepEvent cfg complete dev last e s).out = .cont) (hl : last = false) :
    ¬ Completed complete (stepEvent cfg complete dev last e s).seg.resp.flatten := by
  unfold stepEvent at h ⊢
  dsimp only at h ⊢
  split
  · rename_i h1; simp [h1] at h
  · rename_i h1
    split
    · rename_i h2; simp [h1, h2] at h
    · rename_i h2
      split
      · rename_i h3; simp [h1, h2, h3] at h
      · rename_i h3
        dsimp only
        intro hc
        apply h3
        simp only [Completed] at hc
        simp only [hl, Bool.not_false, Bool.true_and, Bool.and_eq_true, Bool.not_eq_true']
        refine ⟨?_, hc⟩
        cases complete with
        | nil => simp at hc
        | cons _ _ => rfl

theorem step_done (h : (stepEvent cfg complete dev last e s).out = .done) :
    last = false ∧ Completed complete (stepEvent cfg complete dev last e s).seg.resp.flatten := by
  unfold stepEvent at h ⊢
  dsimp only at h ⊢
  split
  · rename_i h1; simp [h1] at h
  · rename_i h1
    split
    · rename_i h2; simp [h1, h2] at h
    · rename_i h2
      split
      · rename_i h3
        simp only [Bool.and_eq_true, Bool.not_eq_true'] at h3
        exact ⟨h3.1.1, h3.2⟩
      · rename_i h3; simp [h1, h2, h3] at h

end step

section loopl
variable {σ : Type} (cfg : Cfg) (complete : List (Bytes → Bool)) (dev : Dev σ)

/-- every segment of a run is the record of one loop iteration on the event at its position, with
the `last` flag of that position; an iteration that is followed by another one ended in `cont` -/
theorem loop_seg_at (evs : List Event) (s : St σ) (b : Bytes) (pre : List Seg) (g : Seg)
    (post : List Seg) (h : (loop cfg complete dev evs s b).segs = pre ++ g :: post) :
    ∃ e s' last, evs[pre.length]? = some e ∧
      (last = false ↔ pre.length + 1 < evs.length) ∧
      g = (stepEvent cfg complete dev last e s').seg ∧
      (post ≠ [] → (stepEvent cfg complete dev last e s').out = .cont) := by
  induction evs generalizing s b pre with
  | nil => simp [loop] at h
  | cons e es ih =>
    simp only [loop] at h
    have hlast : (es.isEmpty = false ↔ 0 + 1 < (e :: es).length) := by
      cases es <;> simp
    split at h
    · -- fail
      cases pre with
      | nil =>
        simp only [List.nil_append, List.cons.injEq] at h
        exact ⟨e, s, es.isEmpty, rfl, hlast, h.1.symm, by simp [h.2.symm]⟩
      | cons p pre' =>
        simp only [List.cons_append, List.cons.injEq] at h
        have := congrArg List.length h.2
        simp at this
    · cases pre with
      | nil =>
        simp only [List.nil_append, List.cons.injEq] at h
        exact ⟨e, s, es.isEmpty, rfl, hlast, h.1.symm, by simp [h.2.symm]⟩
      | cons p pre' =>
        simp only [List.cons_append, List.cons.injEq] at h
        have := congrArg List.length h.2
        simp at this
    · rename_i hc
      cases pre with
      | nil =>
        simp only [List.nil_append, List.cons.injEq] at h
        exact ⟨e, s, es.isEmpty, rfl, hlast, h.1.symm, fun _ => hc⟩
      | cons p pre' =>
        simp only [List.cons_append, List.cons.injEq] at h
        obtain ⟨e', s', last, h1, h2, h3, h4⟩ := ih _ _ pre' h.2
        refine ⟨e', s', last, by simpa using h1, ?_, h3, h4⟩
        rw [h2]
        simp only [List.length_cons]
        omega

end loopl

/-! ## redacted writes -/

/-- a redacted write -/
def isRed : Ev → Bool
  | .write _ true => true
  | _ => false

theorem split_unique {α : Type} (P : α → Bool) (pre post l1 l2 : List α) (a a' : α)
    (h : pre ++ a :: post = l1 ++ a' :: l2) (ha : P a = true)
    (h1 : ∀ y ∈ l1, P y = false) (h2 : ∀ y ∈ l2, P y = false) :
    pre = l1 ∧ a = a' ∧ post = l2 := by
  induction pre generalizing l1 with
  | nil =>
    cases l1 with
    | nil => simpa using h
    | cons y l1' =>
      simp only [List.nil_append, List.cons_append, List.cons.injEq] at h
      have := h1 y (by simp)
      rw [← h.1, ha] at this
      exact absurd this (by simp)
  | cons p pre' ih =>
    cases l1 with
    | nil =>
      simp only [List.cons_append, List.nil_append, List.cons.injEq] at h
      have := h2 a (by rw [← h.2]; simp)
      rw [ha] at this
      exact absurd this (by simp)
    | cons y l1' =>
      simp only [List.cons_append, List.cons.injEq] at h
      obtain ⟨e1, e2, e3⟩ := ih l1' h.2 (fun z hz => h1 z (by simp [hz]))
      exact ⟨by rw [h.1, e1], e2, e3⟩

theorem isRed_dels (cs : List Bytes) : ∀ y ∈ dels cs, isRed y = false := by
  intro y hy
  simp only [dels, List.mem_map] at hy
  obtain ⟨c, _, rfl⟩ := hy
  rfl

/-- after its first event (the input write) a segment's trace has no redacted write -/
theorem isRed_seg_tail (g : Seg) :
    ∃ t, g.trace = Ev.write g.input g.hidden :: t ∧ ∀ y ∈ t, isRed y = false := by
  refine ⟨_, rfl, ?_⟩
  intro y hy
  simp only [List.mem_append] at hy
  rcases hy with hy | hy
  · exact isRed_dels _ y hy
  · split at hy
    · simp at hy
    · simp only [List.mem_cons] at hy
      rcases hy with rfl | hy
      · rfl
      · exact isRed_dels _ y hy

theorem isRed_seg_visible (g : Seg) (h : g.hidden = false) : ∀ y ∈ g.trace, isRed y = false := by
  obtain ⟨t, ht, htn⟩ := isRed_seg_tail g
  intro y hy
  rw [ht] at hy
  simp only [List.mem_cons] at hy
  rcases hy with rfl | hy
  · simp [isRed, h]
  · exact htn y hy

theorem loop_segs_length {σ : Type} (cfg : Cfg) (complete : List (Bytes → Bool)) (dev : Dev σ)
    (evs : List Event) (s : St σ) (b : Bytes) :
    (loop cfg complete dev evs s b).segs.length ≤ evs.length := by
  induction evs generalizing s b with
  | nil => simp [loop]
  | cons e es ih =>
    simp only [loop]
    split <;> simp
    exact ih _ _

theorem loop_segs_ne_nil {σ : Type} (cfg : Cfg) (complete : List (Bytes → Bool)) (dev : Dev σ)
    (e : Event) (es : List Event) (s : St σ) (b : Bytes) :
    (loop cfg complete dev (e :: es) s b).segs ≠ [] := by
  simp only [loop]
  split <;> simp


/-! ## splitting flat traces -/

/-- an element of a `flatMap` lies in the image of one of the list's members -/
theorem flatMap_split {α β : Type} (f : α → List β) (l : List α) (pre post : List β) (a : β)
    (h : l.flatMap f = pre ++ a :: post) :
    ∃ lp g ls p0 s0, l = lp ++ g :: ls ∧ f g = p0 ++ a :: s0 ∧
      pre = lp.flatMap f ++ p0 ∧ post = s0 ++ ls.flatMap f := by
  induction l generalizing pre with
  | nil => simp at h
  | cons g l' ih =>
    simp only [List.flatMap_cons] at h
    rcases List.append_eq_append_iff.mp h with ⟨a', h1, h2⟩ | ⟨c', h1, h2⟩
    · obtain ⟨lp, g', ls, p0, s0, e1, e2, e3, e4⟩ := ih a' h2
      exact ⟨g :: lp, g', ls, p0, s0, by simp [e1], e2, by simp [h1, e3], e4⟩
    · cases c' with
      | nil =>
        simp only [List.nil_append] at h2
        simp only [List.append_nil] at h1
        obtain ⟨lp, g', ls, p0, s0, e1, e2, e3, e4⟩ := ih [] (by simpa using h2.symm)
        refine ⟨g :: lp, g', ls, p0, s0, by simp [e1], e2, ?_, e4⟩
        simp only [List.flatMap_cons, List.append_assoc, ← e3, List.append_nil]
        exact h1.symm
      | cons c c'' =>
        simp only [List.cons_append, List.cons.injEq] at h2
        exact ⟨[], g, l', pre, c'', rfl, by rw [h1, h2.1], by simp, h2.2⟩

def isWrite : Ev → Bool
  | .write _ _ => true
  | .deliver _ => false

theorem isWrite_dels (cs : List Bytes) : ∀ y ∈ dels cs, isWrite y = false := by
  intro y hy
  simp only [dels, List.mem_map] at hy
  obtain ⟨c, _, rfl⟩ := hy
  rfl

/-- where a write can sit inside one segment's trace -/
theorem seg_trace_split (g : Seg) (pre post : List Ev) (x : Bytes) (r : Bool)
    (h : g.trace = pre ++ Ev.write x r :: post) :
    (pre = [] ∧ x = g.input ∧ r = g.hidden) ∨
    (∃ rt, g.ret = some rt ∧ pre = Ev.write g.input g.hidden :: dels g.echo ∧ x = rt ∧ r = false ∧
      post = dels g.resp) := by
  cases pre with
  | nil =>
    left
    simp only [Seg.trace, List.nil_append, List.cons.injEq, Ev.write.injEq] at h
    exact ⟨rfl, h.1.1.symm, h.1.2.symm⟩
  | cons p pre' =>
    right
    simp only [Seg.trace, List.cons_append, List.cons.injEq] at h
    obtain ⟨hp, h⟩ := h
    cases hr : g.ret with
    | none =>
      simp only [hr, List.append_nil] at h
      have : Ev.write x r ∈ dels g.echo := by rw [h]; simp
      exact absurd this (write_not_mem_dels x r g.echo)
    | some rt =>
      simp only [hr] at h
      obtain ⟨e1, e2, e3⟩ := split_unique isWrite pre' post (dels g.echo) (dels g.resp) _ _ h.symm rfl
        (isWrite_dels _) (isWrite_dels _)
      simp only [Ev.write.injEq] at e2
      exact ⟨rt, rfl, by rw [← hp, e1], e2.1, e2.2, e3⟩


/-! ## well-formed scripted dialogues -/

theorem readC_exact (P : Bytes → Bool) (pre chunks rest : List Bytes)
    (hpre : pre.flatten = []) (hne : chunks.flatten ≠ []) (h : ExactAt P chunks.flatten) :
    (readC P (pre ++ chunks ++ rest) []).1 = true ∧
    (readC P (pre ++ chunks ++ rest) []).2.1.flatten = chunks.flatten ∧
    ∃ tail, (readC P (pre ++ chunks ++ rest) []).2.2 = tail ++ rest ∧ tail.flatten = [] := by
  obtain ⟨tail, ht, htf⟩ := readUntil_exact P pre chunks rest hpre hne h
  rw [readC_eq_readUntil] at ht
  split at ht
  · rename_i h1
    simp only [List.nil_append, Option.some.injEq, Prod.mk.injEq] at ht
    exact ⟨h1, ht.1, tail, ht.2, htf⟩
  · simp at ht

/-- one turn of a scripted dialogue: what the device emits in reaction to the input and to the
return, each already cut into reads -/
structure Turn where
  echo : List Bytes
  resp : List Bytes

/-- the bytes the read after the return has to consume: the response, preceded by the echo when
no echo read is performed -/
def Turn.stream (cfg : Cfg) (e : Event) (t : Turn) : List Bytes :=
  if echoAwaited e && !echoImmediate cfg e.input then t.resp else t.echo ++ t.resp

/-- a turn is well formed for event `e`: each read's predicate first holds exactly at the end of
what the device emits for it (C01's `ExactAt`, on the very predicates the code evaluates), and the
turn does not show a complete pattern unless it is the last one -/
def TurnOK (cfg : Cfg) (complete : List (Bytes → Bool)) (last : Bool) (e : Event) (t : Turn) : Prop :=
  ((echoAwaited e && !echoImmediate cfg e.input) = true →
    t.echo.flatten ≠ [] ∧ ExactAt (echoPred cfg e.input) t.echo.flatten) ∧
  (t.stream cfg e).flatten ≠ [] ∧
  ExactAt (anyPred (complete ++ [e.resp.getD cfg.promptP]) cfg) (t.stream cfg e).flatten ∧
  (last = false → ¬ Completed complete (t.stream cfg e).flatten)

theorem stepEvent_exact (cfg : Cfg) (complete : List (Bytes → Bool)) (last : Bool) (e : Event)
    (t : Turn) (q0 : List Bytes) (rest : List (List Bytes)) (hq : q0.flatten = [])
    (h : TurnOK cfg complete last e t) :
    let o := stepEvent cfg complete scriptDev last e { q := q0, d := t.echo :: t.resp :: rest }
    o.out = .cont ∧ o.st.q.flatten = [] ∧ o.st.d = rest ∧
    o.b = t.echo.flatten ++ t.resp.flatten ∧ o.seg.ret = some cfg.ret := by
  obtain ⟨hecho, hne, hex, hnc⟩ := h
  by_cases haw : (echoAwaited e && !echoImmediate cfg e.input) = true
  · -- echo read, then response read
    obtain ⟨hne1, hex1⟩ := hecho haw
    have hs : t.stream cfg e = t.resp := by simp [Turn.stream, haw]
    rw [hs] at hne hex hnc
    simp only [Bool.and_eq_true, Bool.not_eq_true'] at haw
    obtain ⟨e1, e2, tail1, e3, e4⟩ := readC_exact (echoPred cfg e.input) q0 t.echo [] hq hne1 hex1
    simp only [List.append_nil] at e1 e2 e3
    obtain ⟨r1, r2, tail2, r3, r4⟩ :=
      readC_exact (anyPred (complete ++ [e.resp.getD cfg.promptP]) cfg) tail1 t.resp [] e4 hne hex
    simp only [List.append_nil] at r1 r2 r3
    have hcond : ∀ x : Bytes, x = t.resp.flatten →
        (!last && !complete.isEmpty && complete.any fun p => p x) = false := by
      intro x hx
      subst hx
      cases last with
      | true => simp
      | false =>
        have := hnc rfl
        simp only [Completed, Bool.not_eq_true] at this
        rw [this]
        simp
    intro o
    have ho : o = stepEvent cfg complete scriptDev last e { q := q0, d := t.echo :: t.resp :: rest } := rfl
    simp only [stepEvent, St.write, scriptDev, eventEcho, echoRead, haw.1, haw.2, if_true,
      Bool.false_eq_true, if_false, e1, e3, r1, r3, Bool.not_true, hcond _ r2] at ho
    rw [ho]
    exact ⟨rfl, r4, rfl, by simp only [e2, r2], rfl⟩
  · -- no echo read: the read after the return consumes echo and response
    have hs : t.stream cfg e = t.echo ++ t.resp := by simp [Turn.stream, haw]
    rw [hs] at hne hex hnc
    obtain ⟨r1, r2, tail2, r3, r4⟩ :=
      readC_exact (anyPred (complete ++ [e.resp.getD cfg.promptP]) cfg) q0 (t.echo ++ t.resp) [] hq hne hex
    simp only [List.append_nil] at r1 r2 r3
    have hcond : ∀ x : Bytes, x = (t.echo ++ t.resp).flatten →
        (!last && !complete.isEmpty && complete.any fun p => p x) = false := by
      intro x hx
      subst hx
      cases last with
      | true => simp
      | false =>
        have := hnc rfl
        simp only [Completed, Bool.not_eq_true] at this
        rw [this]
        simp
    intro o
    have ho : o = stepEvent cfg complete scriptDev last e { q := q0, d := t.echo :: t.resp :: rest } := rfl
    by_cases ha : echoAwaited e = true
    · have hi : echoImmediate cfg e.input = true := by
        simp only [ha, Bool.true_and, Bool.not_eq_true', Bool.not_eq_false] at haw
        exact haw
      simp only [stepEvent, St.write, scriptDev, eventEcho, echoRead, ha, hi, if_true,
        Bool.false_eq_true, if_false, r1, r3, Bool.not_true, hcond _ r2, List.append_assoc] at ho
      rw [ho]
      refine ⟨rfl, r4, rfl, ?_, rfl⟩
      simp only [r2]
      simp
    · simp only [stepEvent, St.write, scriptDev, eventEcho, ha,
        Bool.false_eq_true, if_false, r1, r3, Bool.not_true, hcond _ r2, List.append_assoc] at ho
      rw [ho]
      refine ⟨rfl, r4, rfl, ?_, rfl⟩
      simp only [r2]
      simp

/-- a scripted dialogue is well formed for an event list: turn by turn -/
def DialogueOK (cfg : Cfg) (complete : List (Bytes → Bool)) : List Event → List Turn → Prop
  | [], [] => True
  | e :: es, t :: ts => TurnOK cfg complete es.isEmpty e t ∧ DialogueOK cfg complete es ts
  | _, _ => False

/-- the reactions of the scripted device: per turn, one to the input and one to the return -/
def script (ts : List Turn) : List (List Bytes) := ts.flatMap fun t => [t.echo, t.resp]


end Scrapli.Inter
