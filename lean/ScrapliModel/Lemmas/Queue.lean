import ScrapliModel.Queue
/-!
# Lemmas for the queue model (C20)
-/
namespace Scrapli.Queue

/-! ## sequential refinement -/

/-- abstraction relation between calls: the slice is the abstract list, `depth` and the published
token both equal its length, the lock is free. -/
def Abs (q : Q) (l : List Bytes) : Prop :=
  q.queue = l ∧ q.depth = (l.length : Int) ∧ q.token = some (l.length : Int) ∧ q.locked = false

theorem abs_new : Abs new [] := by simp [Abs, new]

theorem apply_refines (o : Op) (q : Q) (l : List Bytes) (h : Abs q l) :
    ∃ q', Seq.apply o q = .ok ((Spec.apply o l).1, q') ∧ Abs q' (Spec.apply o l).2 := by
  obtain ⟨qq, d, t, lk⟩ := q
  obtain ⟨h1, h2, h3, h4⟩ := h
  simp only at h1 h2 h3 h4
  subst h1 h2 h3 h4
  cases o with
  | enq b =>
    simp [Seq.apply, Seq.enqueue, Seq.lock, Seq.republish, Seq.recvTok, Seq.sendTok, Seq.unlock,
      Spec.apply, Abs, bind, Except.bind, pure, Except.pure]
  | req b =>
    simp [Seq.apply, Seq.requeue, Seq.lock, Seq.republish, Seq.recvTok, Seq.sendTok, Seq.unlock,
      Spec.apply, Abs, bind, Except.bind, pure, Except.pure]
  | deq =>
    cases qq with
    | nil =>
      simp [Seq.apply, Seq.dequeue, Seq.getDepthTok, Seq.recvTok, Seq.sendTok,
        Spec.apply, Abs, bind, Except.bind, pure, Except.pure]
    | cons x xs =>
      have hne : ((xs.length : Int) + 1 = 0) = False := by
        apply propext; constructor
        · intro h; omega
        · intro h; exact h.elim
      simp [Seq.apply, Seq.dequeue, Seq.getDepthTok, Seq.lock, Seq.republish, Seq.recvTok, Seq.sendTok,
        Seq.unlock, Spec.apply, Abs, bind, Except.bind, pure, Except.pure, hne]
  | deqAll =>
    cases qq with
    | nil =>
      simp [Seq.apply, Seq.dequeueAll, Seq.getDepthTok, Seq.recvTok, Seq.sendTok,
        Spec.apply, Abs, bind, Except.bind, pure, Except.pure]
    | cons x xs =>
      have hne : ((xs.length : Int) + 1 = 0) = False := by
        apply propext; constructor
        · intro h; omega
        · intro h; exact h.elim
      simp [Seq.apply, Seq.dequeueAll, Seq.getDepthTok, Seq.lock, Seq.republish, Seq.recvTok, Seq.sendTok,
        Seq.unlock, Spec.apply, Abs, bind, Except.bind, pure, Except.pure, hne]
  | depth =>
    simp [Seq.apply, Seq.getDepth, Seq.lock, Seq.unlock, Spec.apply, Abs, bind, Except.bind, pure, Except.pure]

theorem run_refines (ops : List Op) : ∀ (q : Q) (l : List Bytes), Abs q l →
    ∃ q', Seq.run ops q = .ok ((Spec.run ops l).1, q') ∧ Abs q' (Spec.run ops l).2 := by
  induction ops with
  | nil => intro q l h; exact ⟨q, rfl, h⟩
  | cons o os ih =>
    intro q l h
    obtain ⟨q1, e1, a1⟩ := apply_refines o q l h
    obtain ⟨q2, e2, a2⟩ := ih q1 _ a1
    refine ⟨q2, ?_, ?_⟩
    · simp [Seq.run, Spec.run, e1, e2, bind, Except.bind, pure, Except.pure]
    · simpa [Spec.run] using a2

end Scrapli.Queue

namespace Scrapli.Queue.Conc

/-! ## concurrent system: classifiers and the inductive invariant -/

/-- producer holds the write lock -/
def PPc.crit : PPc → Bool
  | .app _ | .inc | .recv | .send | .unlock => true
  | _ => false

/-- producer holds the depth token (the channel is empty because of it) -/
def PPc.tok : PPc → Bool
  | .send => true
  | _ => false

/-- chunks the producer has appended to the slice but not yet published through the token -/
def PPc.lag : PPc → Int
  | .inc | .recv | .send => 1
  | _ => 0

/-- chunks the producer has appended to the slice but not yet counted in `depth` -/
def PPc.dlag : PPc → Int
  | .inc => 1
  | _ => 0

/-- consumer holds the lock (write lock, or the read lock in `GetDepth`) -/
def CPc.crit : CPc → Bool
  | .dqChk | .dqIdx | .dqSlice _ | .dqDec _ | .daTake | .daNil _ | .daZero _ | .rqPrep _ | .rqInc _
  | .pubRecv _ | .pubSend _ | .unlock _ | .gdRead | .gdRUnlock _ => true
  | _ => false

/-- consumer holds the depth token -/
def CPc.tok : CPc → Bool
  | .gSend _ _ | .pubSend _ => true
  | _ => false

/-- facts tied to the consumer's program counter -/
def CInv (s : St) : Prop :=
  match s.cpc with
  | .gSend _ d => d + s.ppc.lag = s.queue.length
  | .gTest _ d => 0 ≤ d ∧ d ≤ s.queue.length
  | .lock _ => (1 : Int) ≤ s.queue.length
  | .dqChk => s.depth = s.queue.length ∧ (1 : Int) ≤ s.queue.length
  | .dqIdx => s.depth = s.queue.length ∧ (1 : Int) ≤ s.queue.length
  | .dqSlice b => s.depth = s.queue.length ∧ s.queue.head? = some b
  | .dqDec _ => s.depth = s.queue.length + 1
  | .daTake => s.depth = s.queue.length
  | .daNil bs => s.queue = bs
  | .daZero _ => s.queue = []
  | .rqPrep _ => s.depth = s.queue.length
  | .rqInc _ => s.depth + 1 = s.queue.length
  | .pubRecv _ => s.depth = s.queue.length
  | .pubSend _ => s.depth = s.queue.length
  | .unlock _ => s.depth = s.queue.length ∧ s.token = some s.depth
  | .gdRead => s.depth = s.queue.length ∧ s.token = some s.depth
  | .gdRUnlock d => s.depth = s.queue.length ∧ s.token = some s.depth ∧ d = s.depth
  | .panicked => False
  | _ => True

structure Inv (s : St) : Prop where
  /-- the lock is held by the producer exactly in its critical section -/
  lockP : s.lock = some .prod ↔ s.ppc.crit = true
  /-- … and by the consumer exactly in its critical sections -/
  lockC : s.lock = some .cons ↔ s.cpc.crit = true
  /-- the depth channel is empty exactly when one goroutine holds the token -/
  tokHeld : s.token = none ↔ (s.ppc.tok = true ∨ s.cpc.tok = true)
  /-- … and never both -/
  tokExcl : ¬ (s.ppc.tok = true ∧ s.cpc.tok = true)
  /-- an unpublished chunk is in the slice -/
  lagLe : s.ppc.lag ≤ s.queue.length
  /-- outside the consumer's critical sections `depth` counts the slice (up to the producer's step in progress) -/
  depthOk : s.cpc.crit = false → s.depth + s.ppc.dlag = s.queue.length
  /-- outside the consumer's critical sections the published depth counts the slice (up to the
      producer's unpublished chunk): it is never larger than the number of chunks held -/
  tokOk : s.cpc.crit = false → ∀ d, s.token = some d → d + s.ppc.lag = s.queue.length
  cinv : CInv s
  /-- FIFO: the consumer's slice mutations read the produced stream in order, put-backs first,
      and what is left is exactly the slice -/
  fifo : consume s.clog s.produced = some s.queue
  /-- completed calls plus the call in progress account for exactly the logged mutations -/
  retsOk : s.rets.flatMap Ret.events ++ s.cpc.pending = s.clog

theorem consume_append_log (l1 l2 : List CEv) : ∀ (S : List Bytes),
    consume (l1 ++ l2) S = (consume l1 S).bind (consume l2) := by
  induction l1 with
  | nil => intro S; simp [consume]
  | cons e es ih =>
    intro S
    cases e with
    | got c =>
      cases S with
      | nil => simp [consume]
      | cons h t =>
        by_cases hc : h = c
        · simp [consume, hc, ih]
        · simp [consume, hc]
    | back b => simp [consume, ih]

theorem consume_append_stream (l : List CEv) : ∀ (S Q X : List Bytes),
    consume l S = some Q → consume l (S ++ X) = some (Q ++ X) := by
  induction l with
  | nil => intro S Q X h; simp [consume] at h ⊢; simp [h]
  | cons e es ih =>
    intro S Q X h
    cases e with
    | got c =>
      cases S with
      | nil => simp [consume] at h
      | cons hd t =>
        by_cases hc : hd = c
        · simp [consume, hc] at h ⊢; exact ih _ _ _ h
        · simp [consume, hc] at h
    | back b =>
      simp [consume] at h ⊢
      exact ih (b :: S) Q X h

theorem consume_gots (bs : List Bytes) : ∀ (rest : List Bytes),
    consume (bs.map .got) (bs ++ rest) = some rest := by
  induction bs with
  | nil => intro r; simp [consume]
  | cons b bs ih => intro r; simp [consume, ih]

theorem consume_gots_nil (bs : List Bytes) : consume (bs.map .got) bs = some [] := by
  simpa using consume_gots bs []

theorem inv_init : Inv init := by
  constructor <;> simp [init, PPc.crit, CPc.crit, PPc.tok, CPc.tok, PPc.lag, PPc.dlag, CInv, consume, CPc.pending]

/-! ## the invariant is inductive
Case analysis on the program counter of the goroutine that moves, then on the other one's. -/

macro "inv_close" : tactic =>
  `(tactic| ((constructor <;> simp_all [PPc.crit, CPc.crit, PPc.tok, CPc.tok, PPc.lag, PPc.dlag, CInv,
      CPc.pending, Ret.events]) <;> omega))

macro "inv_close_l" : tactic =>
  `(tactic| ((constructor <;> simp_all [PPc.crit, CPc.crit, PPc.tok, CPc.tok, PPc.lag, PPc.dlag, CInv,
      CPc.pending, Ret.events, consume_append_log, consume, consume_gots, consume_gots_nil]) <;> omega))

theorem stepC_gRecv {s s' : St} {call : Call} (h : Inv s) (hs : stepC s call = some s') :
    ∀ (k : Kind), s.cpc = .gRecv k → Inv s' := by
  intro k hc
  obtain ⟨queue, depth, token, lock, ppc, cpc, produced, clog, rets⟩ := s
  simp only at hc
  subst hc
  obtain ⟨h1, h2, h3, h4, h5, h6, h7, h8, h9, h10⟩ := h
  simp only [stepC] at hs
  split at hs
  · cases hs
    cases ppc <;> inv_close
  · cases hs

theorem stepC_gSend {s s' : St} {call : Call} (h : Inv s) (hs : stepC s call = some s') :
    ∀ (k : Kind) (d : Int), s.cpc = .gSend k d → Inv s' := by
  intro k d hc
  obtain ⟨queue, depth, token, lock, ppc, cpc, produced, clog, rets⟩ := s
  simp only at hc
  subst hc
  obtain ⟨h1, h2, h3, h4, h5, h6, h7, h8, h9, h10⟩ := h
  simp only [stepC] at hs
  split at hs
  · cases hs
    cases ppc <;> inv_close
  · cases hs

theorem stepC_gTest {s s' : St} {call : Call} (h : Inv s) (hs : stepC s call = some s') :
    ∀ (k : Kind) (d : Int), s.cpc = .gTest k d → Inv s' := by
  intro k d hc
  obtain ⟨queue, depth, token, lock, ppc, cpc, produced, clog, rets⟩ := s
  simp only at hc
  subst hc
  obtain ⟨h1, h2, h3, h4, h5, h6, h7, h8, h9, h10⟩ := h
  simp only [stepC] at hs
  split at hs
  · cases hs
    cases k <;> cases ppc <;> inv_close
  · cases hs
    cases ppc <;> inv_close

theorem stepC_lock {s s' : St} {call : Call} (h : Inv s) (hs : stepC s call = some s') :
    ∀ (k : Kind), s.cpc = .lock k → Inv s' := by
  intro k hc
  obtain ⟨queue, depth, token, lock, ppc, cpc, produced, clog, rets⟩ := s
  simp only at hc
  subst hc
  obtain ⟨h1, h2, h3, h4, h5, h6, h7, h8, h9, h10⟩ := h
  simp only [stepC] at hs
  split at hs
  · cases hs
    rename_i hl
    subst hl
    cases k <;> cases ppc <;> inv_close
  · cases hs

theorem stepC_dqChk {s s' : St} {call : Call} (h : Inv s) (hs : stepC s call = some s') :
    ∀ (_ : Unit), s.cpc = .dqChk → Inv s' := by
  intro _ hc
  obtain ⟨queue, depth, token, lock, ppc, cpc, produced, clog, rets⟩ := s
  simp only at hc
  subst hc
  obtain ⟨h1, h2, h3, h4, h5, h6, h7, h8, h9, h10⟩ := h
  simp only [stepC] at hs
  split at hs
  · cases hs
    cases ppc <;> inv_close
  · cases hs
    cases ppc <;> inv_close

theorem stepC_dqIdx {s s' : St} {call : Call} (h : Inv s) (hs : stepC s call = some s') :
    ∀ (_ : Unit), s.cpc = .dqIdx → Inv s' := by
  intro _ hc
  obtain ⟨queue, depth, token, lock, ppc, cpc, produced, clog, rets⟩ := s
  simp only at hc
  subst hc
  obtain ⟨h1, h2, h3, h4, h5, h6, h7, h8, h9, h10⟩ := h
  simp only [stepC] at hs
  split at hs
  · cases hs
    cases ppc <;> inv_close
  · cases hs
    cases ppc <;> inv_close

theorem stepC_dqSlice {s s' : St} {call : Call} (h : Inv s) (hs : stepC s call = some s') :
    ∀ (b : Bytes), s.cpc = .dqSlice b → Inv s' := by
  intro b hc
  obtain ⟨queue, depth, token, lock, ppc, cpc, produced, clog, rets⟩ := s
  simp only at hc
  subst hc
  obtain ⟨h1, h2, h3, h4, h5, h6, h7, h8, h9, h10⟩ := h
  simp only [stepC] at hs
  cases hs
  cases queue <;> cases ppc <;> inv_close_l

theorem stepC_dqDec {s s' : St} {call : Call} (h : Inv s) (hs : stepC s call = some s') :
    ∀ (b : Bytes), s.cpc = .dqDec b → Inv s' := by
  intro b hc
  obtain ⟨queue, depth, token, lock, ppc, cpc, produced, clog, rets⟩ := s
  simp only at hc
  subst hc
  obtain ⟨h1, h2, h3, h4, h5, h6, h7, h8, h9, h10⟩ := h
  simp only [stepC] at hs
  cases hs
  cases ppc <;> inv_close

theorem stepC_daTake {s s' : St} {call : Call} (h : Inv s) (hs : stepC s call = some s') :
    ∀ (_ : Unit), s.cpc = .daTake → Inv s' := by
  intro _ hc
  obtain ⟨queue, depth, token, lock, ppc, cpc, produced, clog, rets⟩ := s
  simp only at hc
  subst hc
  obtain ⟨h1, h2, h3, h4, h5, h6, h7, h8, h9, h10⟩ := h
  simp only [stepC] at hs
  cases hs
  cases ppc <;> inv_close

theorem stepC_daNil {s s' : St} {call : Call} (h : Inv s) (hs : stepC s call = some s') :
    ∀ (bs : List Bytes), s.cpc = .daNil bs → Inv s' := by
  intro bs hc
  obtain ⟨queue, depth, token, lock, ppc, cpc, produced, clog, rets⟩ := s
  simp only at hc
  subst hc
  obtain ⟨h1, h2, h3, h4, h5, h6, h7, h8, h9, h10⟩ := h
  simp only [stepC] at hs
  cases hs
  cases ppc <;> inv_close_l

theorem stepC_daZero {s s' : St} {call : Call} (h : Inv s) (hs : stepC s call = some s') :
    ∀ (bs : List Bytes), s.cpc = .daZero bs → Inv s' := by
  intro bs hc
  obtain ⟨queue, depth, token, lock, ppc, cpc, produced, clog, rets⟩ := s
  simp only at hc
  subst hc
  obtain ⟨h1, h2, h3, h4, h5, h6, h7, h8, h9, h10⟩ := h
  simp only [stepC] at hs
  cases hs
  cases ppc <;> inv_close

theorem stepC_rqLock {s s' : St} {call : Call} (h : Inv s) (hs : stepC s call = some s') :
    ∀ (b : Bytes), s.cpc = .rqLock b → Inv s' := by
  intro b hc
  obtain ⟨queue, depth, token, lock, ppc, cpc, produced, clog, rets⟩ := s
  simp only at hc
  subst hc
  obtain ⟨h1, h2, h3, h4, h5, h6, h7, h8, h9, h10⟩ := h
  simp only [stepC] at hs
  split at hs
  · cases hs
    rename_i hl
    subst hl
    cases ppc <;> inv_close
  · cases hs

theorem stepC_rqPrep {s s' : St} {call : Call} (h : Inv s) (hs : stepC s call = some s') :
    ∀ (b : Bytes), s.cpc = .rqPrep b → Inv s' := by
  intro b hc
  obtain ⟨queue, depth, token, lock, ppc, cpc, produced, clog, rets⟩ := s
  simp only at hc
  subst hc
  obtain ⟨h1, h2, h3, h4, h5, h6, h7, h8, h9, h10⟩ := h
  simp only [stepC] at hs
  cases hs
  cases ppc <;> inv_close_l

theorem stepC_rqInc {s s' : St} {call : Call} (h : Inv s) (hs : stepC s call = some s') :
    ∀ (b : Bytes), s.cpc = .rqInc b → Inv s' := by
  intro b hc
  obtain ⟨queue, depth, token, lock, ppc, cpc, produced, clog, rets⟩ := s
  simp only at hc
  subst hc
  obtain ⟨h1, h2, h3, h4, h5, h6, h7, h8, h9, h10⟩ := h
  simp only [stepC] at hs
  cases hs
  cases ppc <;> inv_close

theorem stepC_pubRecv {s s' : St} {call : Call} (h : Inv s) (hs : stepC s call = some s') :
    ∀ (r : Ret), s.cpc = .pubRecv r → Inv s' := by
  intro r hc
  obtain ⟨queue, depth, token, lock, ppc, cpc, produced, clog, rets⟩ := s
  simp only at hc
  subst hc
  obtain ⟨h1, h2, h3, h4, h5, h6, h7, h8, h9, h10⟩ := h
  simp only [stepC] at hs
  split at hs
  · cases hs
    cases ppc <;> inv_close
  · cases hs

theorem stepC_pubSend {s s' : St} {call : Call} (h : Inv s) (hs : stepC s call = some s') :
    ∀ (r : Ret), s.cpc = .pubSend r → Inv s' := by
  intro r hc
  obtain ⟨queue, depth, token, lock, ppc, cpc, produced, clog, rets⟩ := s
  simp only at hc
  subst hc
  obtain ⟨h1, h2, h3, h4, h5, h6, h7, h8, h9, h10⟩ := h
  simp only [stepC] at hs
  split at hs
  · cases hs
    cases ppc <;> inv_close
  · cases hs

theorem stepC_unlock {s s' : St} {call : Call} (h : Inv s) (hs : stepC s call = some s') :
    ∀ (r : Ret), s.cpc = .unlock r → Inv s' := by
  intro r hc
  obtain ⟨queue, depth, token, lock, ppc, cpc, produced, clog, rets⟩ := s
  simp only at hc
  subst hc
  obtain ⟨h1, h2, h3, h4, h5, h6, h7, h8, h9, h10⟩ := h
  simp only [stepC] at hs
  cases hs
  cases ppc <;> inv_close

theorem stepC_gdRLock {s s' : St} {call : Call} (h : Inv s) (hs : stepC s call = some s') :
    ∀ (_ : Unit), s.cpc = .gdRLock → Inv s' := by
  intro _ hc
  obtain ⟨queue, depth, token, lock, ppc, cpc, produced, clog, rets⟩ := s
  simp only at hc
  subst hc
  obtain ⟨h1, h2, h3, h4, h5, h6, h7, h8, h9, h10⟩ := h
  simp only [stepC] at hs
  split at hs
  · cases hs
    rename_i hl
    subst hl
    cases token <;> cases ppc <;> inv_close
  · cases hs

theorem stepC_gdRead {s s' : St} {call : Call} (h : Inv s) (hs : stepC s call = some s') :
    ∀ (_ : Unit), s.cpc = .gdRead → Inv s' := by
  intro _ hc
  obtain ⟨queue, depth, token, lock, ppc, cpc, produced, clog, rets⟩ := s
  simp only at hc
  subst hc
  obtain ⟨h1, h2, h3, h4, h5, h6, h7, h8, h9, h10⟩ := h
  simp only [stepC] at hs
  cases hs
  cases ppc <;> inv_close

theorem stepC_gdRUnlock {s s' : St} {call : Call} (h : Inv s) (hs : stepC s call = some s') :
    ∀ (d : Int), s.cpc = .gdRUnlock d → Inv s' := by
  intro d hc
  obtain ⟨queue, depth, token, lock, ppc, cpc, produced, clog, rets⟩ := s
  simp only at hc
  subst hc
  obtain ⟨h1, h2, h3, h4, h5, h6, h7, h8, h9, h10⟩ := h
  simp only [stepC] at hs
  cases hs
  cases ppc <;> inv_close

set_option maxHeartbeats 400000 in
theorem inv_stepP {s s' : St} {b : Bytes} (h : Inv s) (hs : stepP s b = some s') : Inv s' := by
  obtain ⟨queue, depth, token, lock, ppc, cpc, produced, clog, rets⟩ := s
  obtain ⟨h1, h2, h3, h4, h5, h6, h7, h8, h9, h10⟩ := h
  cases ppc <;> simp only [stepP] at hs
  case idle =>
    cases hs
    constructor <;> simp_all [PPc.crit, PPc.tok, PPc.lag, PPc.dlag, CInv]
  case lock c =>
    split at hs
    · cases hs
      rename_i hl
      subst hl
      cases cpc <;> inv_close
    · cases hs
  case app c =>
    cases hs
    cases cpc <;> ((constructor <;> simp_all [PPc.crit, CPc.crit, PPc.tok, CPc.tok, PPc.lag, PPc.dlag, CInv,
      CPc.pending, consume_append_stream]) <;> omega)
  case inc =>
    cases hs
    cases cpc <;> inv_close
  case recv =>
    split at hs
    · cases hs
      cases cpc <;> inv_close
    · cases hs
  case send =>
    split at hs
    · cases hs
      cases cpc <;> inv_close
    · cases hs
  case unlock =>
    cases hs
    cases cpc <;> inv_close


theorem stepC_idle {s s' : St} {call : Call} (h : Inv s) (hs : stepC s call = some s') :
    s.cpc = .idle → Inv s' := by
  intro hc
  obtain ⟨queue, depth, token, lock, ppc, cpc, produced, clog, rets⟩ := s
  simp only at hc
  subst hc
  obtain ⟨h1, h2, h3, h4, h5, h6, h7, h8, h9, h10⟩ := h
  simp only [stepC] at hs
  cases call <;> cases hs <;> inv_close

theorem inv_stepC {s s' : St} {call : Call} (h : Inv s) (hs : stepC s call = some s') : Inv s' := by
  cases hc : s.cpc with
  | idle => exact stepC_idle h hs hc
  | gRecv k => exact stepC_gRecv h hs k hc
  | gSend k d => exact stepC_gSend h hs k d hc
  | gTest k d => exact stepC_gTest h hs k d hc
  | lock k => exact stepC_lock h hs k hc
  | dqChk => exact stepC_dqChk h hs () hc
  | dqIdx => exact stepC_dqIdx h hs () hc
  | dqSlice b => exact stepC_dqSlice h hs b hc
  | dqDec b => exact stepC_dqDec h hs b hc
  | daTake => exact stepC_daTake h hs () hc
  | daNil bs => exact stepC_daNil h hs bs hc
  | daZero bs => exact stepC_daZero h hs bs hc
  | rqLock b => exact stepC_rqLock h hs b hc
  | rqPrep b => exact stepC_rqPrep h hs b hc
  | rqInc b => exact stepC_rqInc h hs b hc
  | pubRecv r => exact stepC_pubRecv h hs r hc
  | pubSend r => exact stepC_pubSend h hs r hc
  | unlock r => exact stepC_unlock h hs r hc
  | gdRLock => exact stepC_gdRLock h hs () hc
  | gdRead => exact stepC_gdRead h hs () hc
  | gdRUnlock d => exact stepC_gdRUnlock h hs d hc
  | panicked => simp [stepC, hc] at hs

theorem inv_step {s s' : St} (h : Inv s) (hs : Step s s') : Inv s' := by
  cases hs with
  | p b hp => exact inv_stepP h hp
  | c call hc => exact inv_stepC h hc

/-- every reachable state (every schedule, every argument, any number of operations) -/
theorem inv_reach {s : St} (h : Reach s) : Inv s := by
  induction h with
  | init => exact inv_init
  | step _ hs ih => exact inv_step ih hs

/-! ## progress: busy steps decrease a measure, and a blocked goroutine always waits for one that can move -/

theorem busyP_decreases {s s' : St} {b : Bytes} (hb : s.ppc.busy = true) (hs : stepP s b = some s') :
    s'.rem < s.rem ∧ s'.cpc = s.cpc := by
  obtain ⟨queue, depth, token, lock, ppc, cpc, produced, clog, rets⟩ := s
  cases ppc <;> simp only [stepP] at hs <;> (try split at hs) <;> cases hs <;>
    simp_all [St.rem, PPc.rem, PPc.busy]

theorem busyC_decreases {s s' : St} {call : Call} (hb : s.cpc.busy = true) (hs : stepC s call = some s') :
    s'.rem < s.rem ∧ s'.ppc = s.ppc := by
  obtain ⟨queue, depth, token, lock, ppc, cpc, produced, clog, rets⟩ := s
  cases cpc
  case lock k =>
    cases k <;> simp only [stepC] at hs <;> split at hs <;> cases hs <;> simp_all [St.rem, CPc.rem]
  all_goals
    simp only [stepC] at hs <;> (try split at hs) <;> (try cases hs) <;>
      simp_all [St.rem, CPc.rem, CPc.busy]

theorem busy_step_decreases {s s' : St} (hs : BusyStep s s') : s'.rem < s.rem := by
  cases hs with
  | p b hb hp => exact (busyP_decreases hb hp).1
  | c call hb hc => exact (busyC_decreases hb hc).1

macro "dl_close" : tactic =>
  `(tactic| ((simp_all [stepP, stepC, PPc.crit, CPc.crit, PPc.tok, CPc.tok, PPc.busy, CPc.busy, CInv]) <;>
      (try split) <;> (try simp_all)))

/-- if the producer is inside `Enqueue` and cannot move, the consumer is inside a call and can -/
theorem blockedP_enabledC {s : St} (h : Inv s) (b : Bytes) (call : Call) (hb : s.ppc.busy = true)
    (hblk : stepP s b = none) : s.cpc.busy = true ∧ (stepC s call).isSome = true := by
  obtain ⟨queue, depth, token, lock, ppc, cpc, produced, clog, rets⟩ := s
  obtain ⟨h1, h2, h3, h4, h5, h6, h7, h8, h9, h10⟩ := h
  rcases lock with _ | (_ | _) <;> cases token <;> cases ppc <;> simp [stepP] at hblk <;>
    cases cpc <;> dl_close

/-- if the consumer is inside a call and cannot move, the producer is inside `Enqueue` and can -/
theorem blockedC_enabledP {s : St} (h : Inv s) (b : Bytes) (call : Call) (hb : s.cpc.busy = true)
    (hblk : stepC s call = none) : s.ppc.busy = true ∧ (stepP s b).isSome = true := by
  obtain ⟨queue, depth, token, lock, ppc, cpc, produced, clog, rets⟩ := s
  obtain ⟨h1, h2, h3, h4, h5, h6, h7, h8, h9, h10⟩ := h
  rcases lock with _ | (_ | _) <;> cases token <;> cases cpc <;> simp [stepC] at hblk <;>
    (try (split at hblk <;> simp at hblk)) <;> cases ppc <;> dl_close


theorem no_deadlock {s : St} (h : Inv s) (hb : s.ppc.busy = true ∨ s.cpc.busy = true) :
    ∃ s', BusyStep s s' := by
  rcases hb with hb | hb
  · cases hp : stepP s [] with
    | some s' => exact ⟨s', .p [] hb hp⟩
    | none =>
      obtain ⟨hcb, hc⟩ := blockedP_enabledC h [] .dequeue hb hp
      obtain ⟨s', hs'⟩ := Option.isSome_iff_exists.mp hc
      exact ⟨s', .c .dequeue hcb hs'⟩
  · cases hc : stepC s .dequeue with
    | some s' => exact ⟨s', .c .dequeue hb hc⟩
    | none =>
      obtain ⟨hpb, hp⟩ := blockedC_enabledP h [] .dequeue hb hc
      obtain ⟨s', hs'⟩ := Option.isSome_iff_exists.mp hp
      exact ⟨s', .p [] hpb hs'⟩

/-! ## reading the FIFO statement: what `consume l S = some Q` says -/

theorem gotsOf_append (a b : List CEv) : gotsOf (a ++ b) = gotsOf a ++ gotsOf b := by
  induction a with
  | nil => rfl
  | cons e es ih => cases e <;> simp [gotsOf, ih]

theorem backsOf_append (a b : List CEv) : backsOf (a ++ b) = backsOf a ++ backsOf b := by
  induction a with
  | nil => rfl
  | cons e es ih => cases e <;> simp [backsOf, ih]

theorem gotsOf_map_got (bs : List Bytes) : gotsOf (bs.map .got) = bs := by
  induction bs with
  | nil => rfl
  | cons b bs ih => simp [gotsOf, ih]

theorem backsOf_map_got (bs : List Bytes) : backsOf (bs.map .got) = [] := by
  induction bs with
  | nil => rfl
  | cons b bs ih => simp [backsOf, ih]

/-- without put-backs the chunks taken are a prefix of the stream and the rest is what is left -/
theorem consume_only_gots (l : List CEv) : ∀ (S Q : List Bytes), backsOf l = [] →
    consume l S = some Q → S = gotsOf l ++ Q := by
  induction l with
  | nil => intro S Q _ h; simp [consume] at h; simp [gotsOf, h]
  | cons e es ih =>
    intro S Q hb h
    cases e with
    | got c =>
      cases S with
      | nil => simp [consume] at h
      | cons hd t =>
        by_cases hc : hd = c
        · simp [consume, hc] at h
          simp [gotsOf, hc]
          exact ih t Q (by simpa [backsOf] using hb) h
        · simp [consume, hc] at h
    | back b => simp [backsOf] at hb

/-- nothing is lost or duplicated: chunks taken plus chunks left are, as a multiset, the stream
plus the put-backs -/
theorem consume_perm (l : List CEv) : ∀ (S Q : List Bytes),
    consume l S = some Q → (gotsOf l ++ Q).Perm (backsOf l ++ S) := by
  induction l with
  | nil => intro S Q h; simp [consume] at h; simp [gotsOf, backsOf, h]
  | cons e es ih =>
    intro S Q h
    cases e with
    | got c =>
      cases S with
      | nil => simp [consume] at h
      | cons hd t =>
        by_cases hc : hd = c
        · simp [consume, hc] at h
          have := ih t Q h
          simp only [gotsOf, backsOf, List.cons_append]
          subst hc
          exact (List.Perm.cons hd this).trans List.perm_middle.symm
        · simp [consume, hc] at h
    | back b =>
      simp [consume] at h
      have := ih (b :: S) Q h
      simp only [gotsOf, backsOf, List.cons_append]
      exact this.trans List.perm_middle

/-- a put-back chunk is the very next chunk taken, and the pair cancels -/
theorem consume_putback_first (l l' : List CEv) (b c : Bytes) (S Q : List Bytes)
    (h : consume (l ++ .back b :: .got c :: l') S = some Q) :
    c = b ∧ consume (l ++ l') S = some Q := by
  rw [consume_append_log] at h
  rw [consume_append_log]
  cases h1 : consume l S with
  | none => simp [h1] at h
  | some Q1 =>
    simp [h1, consume] at h
    simp
    exact ⟨h.1.symm, h.2⟩

theorem events_gots (r : Ret) : gotsOf r.events = r.chunks := by
  cases r with
  | deq r => cases r <;> simp [Ret.events, Ret.chunks, gotsOf]
  | deqAll r => cases r <;> simp [Ret.events, Ret.chunks, gotsOf, gotsOf_map_got]
  | req b => simp [Ret.events, Ret.chunks, gotsOf]
  | depth d => simp [Ret.events, Ret.chunks, gotsOf]

theorem events_backs (r : Ret) (h : r.isReq = false) : backsOf r.events = [] := by
  cases r with
  | deq r => cases r <;> simp [Ret.events, backsOf]
  | deqAll r => cases r <;> simp [Ret.events, backsOf, backsOf_map_got]
  | req b => simp [Ret.isReq] at h
  | depth d => simp [Ret.events, backsOf]

theorem rets_gots (rets : List Ret) : gotsOf (rets.flatMap Ret.events) = (rets.map Ret.chunks).flatten := by
  induction rets with
  | nil => rfl
  | cons r rs ih => simp [List.flatMap_cons, gotsOf_append, events_gots, ih]

theorem rets_backs (rets : List Ret) (h : ∀ r ∈ rets, r.isReq = false) :
    backsOf (rets.flatMap Ret.events) = [] := by
  induction rets with
  | nil => rfl
  | cons r rs ih =>
    simp only [List.flatMap_cons, backsOf_append]
    rw [events_backs r (h r (by simp)), ih (fun x hx => h x (by simp [hx]))]
    rfl

theorem bytes_chunks (r : Ret) : r.bytes = r.chunks.flatten := by
  cases r with
  | deq r => cases r <;> simp [Ret.bytes, Ret.chunks]
  | deqAll r => cases r <;> simp [Ret.bytes, Ret.chunks]
  | req b => simp [Ret.bytes, Ret.chunks]
  | depth d => simp [Ret.bytes, Ret.chunks]

theorem outBytes_chunks (rets : List Ret) : outBytes rets = (rets.map Ret.chunks).flatten.flatten := by
  induction rets with
  | nil => rfl
  | cons r rs ih =>
    simp only [outBytes, List.map_cons, List.flatten_cons, List.flatten_append] at ih ⊢
    rw [ih, bytes_chunks]

end Scrapli.Queue.Conc
