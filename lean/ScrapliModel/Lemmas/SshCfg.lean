import ScrapliModel.SshCfg
import ScrapliModel.Lemmas.Bytes
/-! Helper lemmas for the C14 theorems (decimal rendering, infix/marker reasoning, the ssh
command-line reading). -/
namespace Scrapli.SshCfg
open Scrapli

/-! ## decimal rendering -/

theorem decDigits_head (n : Nat) : ∃ b t, decDigits n = b :: t ∧ isDigit b = true := by
  cases h : decDigits n with
  | nil => exact absurd h (decDigits_ne_nil n)
  | cons b t => exact ⟨b, t, rfl, decDigits_all_digits n b (by simp [h])⟩

theorem fmtInt_bytes (i : Int) : ∀ b ∈ fmtInt i, isOptionByte b = true := by
  intro b hb
  cases i with
  | ofNat n =>
    have := decDigits_all_digits n b hb
    simp [isOptionByte, this]
  | negSucc n =>
    simp only [fmtInt, List.mem_cons] at hb
    rcases hb with rfl | hb
    · decide
    · have := decDigits_all_digits (n + 1) b hb
      simp [isOptionByte, this]

/-- the first byte of a rendered integer is a digit or `-` -/
theorem fmtInt_head (i : Int) : ∃ b t, fmtInt i = b :: t ∧ (isDigit b = true ∨ b = 45) := by
  cases i with
  | ofNat n =>
    obtain ⟨b, t, h, hd⟩ := decDigits_head n
    exact ⟨b, t, h, .inl hd⟩
  | negSucc n => exact ⟨45, _, rfl, .inr rfl⟩

theorem fmtInt_ne_cons (i : Int) (c : UInt8) (t : Bytes) (h1 : isDigit c = false) (h2 : c ≠ 45) :
    fmtInt i ≠ c :: t := by
  obtain ⟨b, t', h, hb⟩ := fmtInt_head i
  rw [h]
  intro heq
  injection heq with hbc _
  subst hbc
  rcases hb with hb | hb
  · rw [hb] at h1; cases h1
  · exact h2 hb

/-! ## markers and infixes -/

theorem notin_of_all {m : UInt8} (l : Bytes) (hall : l.all isOptionByte = true)
    (hm : isOptionByte m = false) : m ∉ l := by
  intro h
  have := List.all_eq_true.mp hall m h
  rw [hm] at this; cases this

theorem hasPrefix_mem {s p : Bytes} (h : hasPrefix s p = true) : ∀ m ∈ p, m ∈ s := by
  induction p generalizing s with
  | nil => intro m hm; cases hm
  | cons b p ih =>
    cases s with
    | nil => simp [hasPrefix] at h
    | cons a s =>
      simp only [hasPrefix, Bool.and_eq_true, beq_iff_eq] at h
      intro m hm
      rcases List.mem_cons.mp hm with rfl | hm
      · simp [h.1]
      · exact List.mem_cons_of_mem _ (ih h.2 m hm)

theorem isInfix_mem {n h : Bytes} (hi : isInfix n h = true) : ∀ m ∈ n, m ∈ h := by
  induction h with
  | nil =>
    simp only [isInfix, List.isEmpty_iff] at hi
    subst hi; intro m hm; cases hm
  | cons b t ih =>
    simp only [isInfix, Bool.or_eq_true] at hi
    rcases hi with hi | hi
    · exact hasPrefix_mem hi
    · intro m hm; exact List.mem_cons_of_mem _ (ih hi m hm)

/-- a needle containing a byte that the haystack lacks is not an infix of it -/
theorem not_isInfix_of_marker {n h : Bytes} {m : UInt8} (hm : m ∈ n) (hh : m ∉ h) :
    isInfix n h = false := by
  cases hi : isInfix n h with
  | false => rfl
  | true => exact absurd (isInfix_mem hi m hm) hh

/-! ## the ssh command-line reading (`sshParse`) -/

/-- parser state between two arguments: not inside the remote command, no option waiting for its
argument, no `--` seen -/
def Ready (e : Eff) : Prop := e.inCmd = false ∧ e.pending = none ∧ e.noOpts = false

theorem applyOpt_ready {e : Eff} (c : UInt8) (arg : Bytes) (h : Ready e) : Ready (applyOpt e c arg) := by
  obtain ⟨h1, h2, h3⟩ := h
  unfold applyOpt
  repeat' split
  all_goals exact ⟨h1, h2, h3⟩

theorem step_host {e : Eff} {h : Bytes} (hr : Ready e) (hn : e.host = none) (hh : hostOk h = true) :
    step e h = { e with host := some h } ∧ Ready { e with host := some h } := by
  obtain ⟨h1, h2, h3⟩ := hr
  simp only [hostOk, Bool.and_eq_true, Bool.not_eq_true', bne_iff_ne, ne_eq] at hh
  refine ⟨?_, h1, h2, h3⟩
  have hdd : (h == b!"--") = false := by simp [hh.2]
  simp [step, h1, h2, h3, hh.1, hdd, nonOpt, hn]

/-- `-c arg` (two arguments) for an option letter that takes an argument -/
theorem step_pair {e : Eff} (c : UInt8) (arg : Bytes) (rest : List Bytes) (hr : Ready e)
    (hc : takesArg c = true) (h45 : c ≠ 45) :
    List.foldl step e ([45, c] :: arg :: rest) = List.foldl step (applyOpt e c arg) rest := by
  obtain ⟨h1, h2, h3⟩ := hr
  have hdd : (([45, c] : Bytes) == b!"--") = false := by
    simp [h45]
  have hopt : isOptTok [45, c] = true := by simp [isOptTok, h45]
  cases e with
  | mk host port user strict kh cfg ids sub cmd pending noOpts inCmd =>
    simp only at h1 h2 h3
    subst h1 h2 h3
    simp [step, hdd, hopt, cluster, hc]

theorem splitOpt_lit (k v : Bytes) (hk : k.all (fun b => !isSep b) = true) :
    splitOpt (k ++ 61 :: v) = (k.map lowerB, v) := by
  have h61 : isSep 61 = true := by decide
  have ht : ∀ k : Bytes, k.all (fun b => !isSep b) = true →
      (k ++ 61 :: v).takeWhile (fun b => !isSep b) = k ∧
      (k ++ 61 :: v).dropWhile (fun b => !isSep b) = 61 :: v := by
    intro k
    induction k with
    | nil => intro _; simp [List.takeWhile, List.dropWhile, h61]
    | cons b t ih =>
      intro hk
      simp only [List.all_cons, Bool.and_eq_true] at hk
      obtain ⟨i1, i2⟩ := ih hk.2
      simp [List.takeWhile, List.dropWhile, hk.1, i1, i2]
  obtain ⟨t1, t2⟩ := ht k hk
  simp [splitOpt, t1, t2]

theorem applyOpt_o_other (e : Eff) (k v : Bytes) (hk : k.all (fun b => !isSep b) = true)
    (h1 : (k.map lowerB == kwStrict) = false) (h2 : (k.map lowerB == kwKnownHosts) = false) :
    applyOpt e 111 (k ++ 61 :: v) = e := by
  simp [applyOpt, splitOpt_lit k v hk, h1, h2]

theorem applyOpt_o_strict (e : Eff) (v : Bytes) :
    applyOpt e 111 (b!"StrictHostKeyChecking" ++ 61 :: v) =
      if e.strict.isNone then { e with strict := some v } else e := by
  have hk : (b!"StrictHostKeyChecking").all (fun b => !isSep b) = true := by decide
  have h1 : ((b!"StrictHostKeyChecking").map lowerB == kwStrict) = true := by decide
  simp only [applyOpt, splitOpt_lit _ v hk, h1]
  simp

theorem applyOpt_o_kh (e : Eff) (v : Bytes) :
    applyOpt e 111 (b!"UserKnownHostsFile" ++ 61 :: v) =
      if e.knownHosts.isNone then { e with knownHosts := some v } else e := by
  have hk : (b!"UserKnownHostsFile").all (fun b => !isSep b) = true := by decide
  have h1 : ((b!"UserKnownHostsFile").map lowerB == kwStrict) = false := by decide
  have h2 : ((b!"UserKnownHostsFile").map lowerB == kwKnownHosts) = true := by decide
  simp only [applyOpt, splitOpt_lit _ v hk, h1, h2]
  simp

/-! ### what later arguments cannot undo -/

/-- the first-wins settings and the destination, once set, and the identities, once added -/
def Keeps (e e' : Eff) : Prop :=
  (∀ v, e.host = some v → e'.host = some v) ∧ (∀ v, e.port = some v → e'.port = some v) ∧
  (∀ v, e.user = some v → e'.user = some v) ∧ (∀ v, e.strict = some v → e'.strict = some v) ∧
  (∀ v, e.knownHosts = some v → e'.knownHosts = some v) ∧ (∀ k, k ∈ e.ids → k ∈ e'.ids)

theorem Keeps.refl (e : Eff) : Keeps e e := ⟨fun _ h => h, fun _ h => h, fun _ h => h, fun _ h => h, fun _ h => h, fun _ h => h⟩

theorem Keeps.trans {a b c : Eff} (h1 : Keeps a b) (h2 : Keeps b c) : Keeps a c :=
  ⟨fun v h => h2.1 v (h1.1 v h), fun v h => h2.2.1 v (h1.2.1 v h), fun v h => h2.2.2.1 v (h1.2.2.1 v h),
   fun v h => h2.2.2.2.1 v (h1.2.2.2.1 v h), fun v h => h2.2.2.2.2.1 v (h1.2.2.2.2.1 v h),
   fun k h => h2.2.2.2.2.2 k (h1.2.2.2.2.2 k h)⟩

theorem applyOpt_keeps (e : Eff) (c : UInt8) (arg : Bytes) : Keeps e (applyOpt e c arg) := by
  unfold applyOpt
  repeat' split
  all_goals
    refine ⟨?_, ?_, ?_, ?_, ?_, ?_⟩ <;> intro v hv <;> simp_all

theorem cluster_keeps (e : Eff) (cs : List UInt8) : Keeps e (cluster e cs) := by
  induction cs generalizing e with
  | nil => exact Keeps.refl e
  | cons c cs ih =>
    unfold cluster
    split
    · split
      · exact ⟨fun _ h => h, fun _ h => h, fun _ h => h, fun _ h => h, fun _ h => h, fun _ h => h⟩
      · exact applyOpt_keeps e c cs
    · split
      · exact Keeps.trans (b := { e with subsystem := true })
          ⟨fun _ h => h, fun _ h => h, fun _ h => h, fun _ h => h, fun _ h => h, fun _ h => h⟩ (ih _)
      · exact ih e

theorem nonOpt_keeps (e : Eff) (t : Bytes) : Keeps e (nonOpt e t) := by
  unfold nonOpt
  split
  · rename_i h
    refine ⟨?_, fun _ h => h, fun _ h => h, fun _ h => h, fun _ h => h, fun _ h => h⟩
    intro v hv; simp [hv] at h
  · exact ⟨fun _ h => h, fun _ h => h, fun _ h => h, fun _ h => h, fun _ h => h, fun _ h => h⟩

theorem step_keeps (e : Eff) (t : Bytes) : Keeps e (step e t) := by
  unfold step
  split
  · exact ⟨fun _ h => h, fun _ h => h, fun _ h => h, fun _ h => h, fun _ h => h, fun _ h => h⟩
  · split
    · exact Keeps.trans (b := { e with pending := none })
        ⟨fun _ h => h, fun _ h => h, fun _ h => h, fun _ h => h, fun _ h => h, fun _ h => h⟩
        (applyOpt_keeps _ _ _)
    · split
      · exact nonOpt_keeps e t
      · split
        · exact ⟨fun _ h => h, fun _ h => h, fun _ h => h, fun _ h => h, fun _ h => h, fun _ h => h⟩
        · split
          · exact cluster_keeps e _
          · exact nonOpt_keeps e t

theorem foldl_step_keeps (l : List Bytes) (e : Eff) : Keeps e (l.foldl step e) := by
  induction l generalizing e with
  | nil => exact Keeps.refl e
  | cons t l ih => exact Keeps.trans (step_keeps e t) (ih _)

/-! ### meaning of the arguments scrapligo itself puts on the command line -/

theorem applyOpt_p (e : Eff) (v : Bytes) (h : e.port = none) :
    applyOpt e 112 v = { e with port := some v } := by simp [applyOpt, h]

theorem applyOpt_l (e : Eff) (v : Bytes) (h : e.user = none) :
    applyOpt e 108 v = { e with user := some v } := by simp [applyOpt, h]

theorem applyOpt_F (e : Eff) (v : Bytes) : applyOpt e 70 v = { e with cfg := some v } := by
  simp [applyOpt]

theorem applyOpt_i (e : Eff) (v : Bytes) : applyOpt e 105 v = { e with ids := e.ids ++ [v] } := by
  simp [applyOpt]

theorem applyOpt_connectTimeout (e : Eff) (v : Bytes) :
    applyOpt e 111 (b!"ConnectTimeout=" ++ v) = e :=
  applyOpt_o_other e (b!"ConnectTimeout") v (by decide) (by decide) (by decide)

theorem applyOpt_serverAlive (e : Eff) (v : Bytes) :
    applyOpt e 111 (b!"ServerAliveInterval=" ++ v) = e :=
  applyOpt_o_other e (b!"ServerAliveInterval") v (by decide) (by decide) (by decide)

theorem applyOpt_escapeChar (e : Eff) : applyOpt e 111 (b!"EscapeChar=none") = e :=
  applyOpt_o_other e (b!"EscapeChar") (b!"none") (by decide) (by decide) (by decide)

theorem applyOpt_strict (e : Eff) (v : Bytes) (h : e.strict = none) :
    applyOpt e 111 (b!"StrictHostKeyChecking=" ++ v) = { e with strict := some v } := by
  have := applyOpt_o_strict e v
  simp only [h, Option.isNone_none, if_true] at this
  exact this

theorem applyOpt_knownHosts (e : Eff) (v : Bytes) (h : e.knownHosts = none) :
    applyOpt e 111 (b!"UserKnownHostsFile=" ++ v) = { e with knownHosts := some v } := by
  have := applyOpt_o_kh e v
  simp only [h, Option.isNone_none, if_true] at this
  exact this

theorem pair_p {e : Eff} (v : Bytes) (rest : List Bytes) (hr : Ready e) :
    List.foldl step e (b!"-p" :: v :: rest) = List.foldl step (applyOpt e 112 v) rest :=
  step_pair 112 v rest hr (by decide) (by decide)

theorem pair_l {e : Eff} (v : Bytes) (rest : List Bytes) (hr : Ready e) :
    List.foldl step e (b!"-l" :: v :: rest) = List.foldl step (applyOpt e 108 v) rest :=
  step_pair 108 v rest hr (by decide) (by decide)

theorem pair_F {e : Eff} (v : Bytes) (rest : List Bytes) (hr : Ready e) :
    List.foldl step e (b!"-F" :: v :: rest) = List.foldl step (applyOpt e 70 v) rest :=
  step_pair 70 v rest hr (by decide) (by decide)

theorem pair_i {e : Eff} (v : Bytes) (rest : List Bytes) (hr : Ready e) :
    List.foldl step e (b!"-i" :: v :: rest) = List.foldl step (applyOpt e 105 v) rest :=
  step_pair 105 v rest hr (by decide) (by decide)

theorem pair_o {e : Eff} (v : Bytes) (rest : List Bytes) (hr : Ready e) :
    List.foldl step e (b!"-o" :: v :: rest) = List.foldl step (applyOpt e 111 v) rest :=
  step_pair 111 v rest hr (by decide) (by decide)

theorem ready_upd_port {e : Eff} (v) (h : Ready e) : Ready { e with port := v } := h
theorem ready_upd_user {e : Eff} (v) (h : Ready e) : Ready { e with user := v } := h
theorem ready_upd_strict {e : Eff} (v) (h : Ready e) : Ready { e with strict := v } := h
theorem ready_upd_kh {e : Eff} (v) (h : Ready e) : Ready { e with knownHosts := v } := h
theorem ready_upd_cfg {e : Eff} (v) (h : Ready e) : Ready { e with cfg := v } := h
theorem ready_upd_ids {e : Eff} (v) (h : Ready e) : Ready { e with ids := v } := h

end Scrapli.SshCfg
