import ScrapliModel.SshCfg
import ScrapliModel.Lemmas.Bytes
/-! Helper lemmas for the C14 theorems (decimal rendering, infix/marker reasoning, the ssh
command-line reading). -/
namespace Scrapli.SshCfg
open Scrapli

/-! ## decimal rendering -/

theorem decDigits_head (n : Nat) : ∃ b t, decDigits n = b :: t ∧ isDigit b = true := by
  cases h : decDigits n with
  | nil => exact absurd h (decDigits_ne_nil n)
  | cons b t => exact ⟨b, t, rfl, decDigits_all_digits n b (by simp [h])⟩

theorem fmtInt_bytes (i : Int) : ∀ b ∈ fmtInt i, isOptionByte b = true := by
  intro b hb
  cases i with
  | ofNat n =>
    have := decDigits_all_digits n b hb
    simp [isOptionByte, this]
  | negSucc n =>
    simp only [fmtInt, List.mem_cons] at hb
    rcases hb with rfl | hb
    · decide
    · have := decDigits_all_digits (n + 1) b hb
      simp [isOptionByte, this]

/-- the first byte of a rendered integer is a digit or `-` -/
theorem fmtInt_head (i : Int) : ∃ b t, fmtInt i = b :: t ∧ (isDigit b = true ∨ b = 45) := by
  cases i with
  | ofNat n =>
    obtain ⟨b, t, h, hd⟩ := decDigits_head n
    exact ⟨b, t, h, .inl hd⟩
  | negSucc n => exact ⟨45, _, rfl, .inr rfl⟩

theorem fmtInt_ne_cons (i : Int) (c : UInt8) (t : Bytes) (h1 : isDigit c = false) (h2 : c ≠ 45) :
    fmtInt i ≠ c :: t := by
  obtain ⟨b, t', h, hb⟩ := fmtInt_head i
  rw [h]
  intro heq
  injection heq with hbc _
  subst hbc
  rcases hb with hb | hb
  · rw [hb] at h1; cases h1
  · exact h2 hb

/-! ## markers and infixes -/

theorem notin_of_all {m : UInt8} (l : Bytes) (hall : l.all isOptionByte = true)
    (hm : isOptionByte m = false) : m ∉ l := by
  intro h
  have := List.all_eq_true.mp hall m h
  rw [hm] at this; cases this

theorem hasPrefix_mem {s p : Bytes} (h : hasPrefix s p = true) : ∀ m ∈ p, m ∈ s := by
  induction p generalizing s with
  | nil => intro m hm; cases hm
  | cons b p ih =>
    cases s with
    | nil => simp [hasPrefix] at h
    | cons a s =>
      simp only [hasPrefix, Bool.and_eq_true, beq_iff_eq] at h
      intro m hm
      rcases List.mem_cons.mp hm with rfl | hm
      · simp [h.1]
      · exact List.mem_cons_of_mem _ (ih h.2 m hm)

theorem isInfix_mem {n h : Bytes} (hi : isInfix n h = true) : ∀ m ∈ n, m ∈ h := by
  induction h with
  | nil =>
    simp only [isInfix, List.isEmpty_iff] at hi
    subst hi; intro m hm; cases hm
  | cons b t ih =>
    simp only [isInfix, Bool.or_eq_true] at hi
    rcases hi with hi | hi
    · exact hasPrefix_mem hi
    · intro m hm; exact List.mem_cons_of_mem _ (ih hi m hm)

/-- a needle containing a byte that the haystack lacks is not an infix of it -/
theorem not_isInfix_of_marker {n h : Bytes} {m : UInt8} (hm : m ∈ n) (hh : m ∉ h) :
    isInfix n h = false := by
  cases hi : isInfix n h with
  | false => rfl
  | true => exact absurd (isInfix_mem hi m hm) hh

end Scrapli.SshCfg
