import ScrapliModel.OptionsSpec
/-!
Helper lemmas for C19: permutation invariance of a monadic fold over pairwise-commuting steps,
pointwise reading of option application, table facts lifted from `decide` over the generated table.
-/
namespace Scrapli.Options
open Scrapli Scrapli.Gen.Options

/-! ## generic: folding pairwise-commuting steps is permutation invariant -/

theorem foldlM_perm {α β ε : Type} (f : β → α → Except ε β) (R : α → α → Prop)
    (hsym : ∀ {x y}, R x y → R y x)
    (hcomm : ∀ x y, R x y → ∀ b, (f b x >>= fun b' => f b' y) = (f b y >>= fun b' => f b' x))
    {l₁ l₂ : List α} (p : l₁.Perm l₂) :
    l₁.Pairwise R → ∀ b, l₁.foldlM f b = l₂.foldlM f b := by
  induction p with
  | nil => intro _ _; rfl
  | cons x _ ih =>
    intro hp b
    rw [List.pairwise_cons] at hp
    simp only [List.foldlM_cons]
    cases f b x with
    | error e => rfl
    | ok b' => exact ih hp.2 b'
  | swap x y l =>
    intro hp b
    rw [List.pairwise_cons] at hp
    have hyx : R y x := hp.1 x (by simp)
    simp only [List.foldlM_cons]
    have h := hcomm y x hyx b
    -- reassociate: (f b y >>= f · x) >>= foldlM l
    have e1 : (f b y >>= fun b' => f b' x >>= fun b'' => l.foldlM f b'')
        = ((f b y >>= fun b' => f b' x) >>= fun b'' => l.foldlM f b'') := by
      cases f b y <;> rfl
    have e2 : (f b x >>= fun b' => f b' y >>= fun b'' => l.foldlM f b'')
        = ((f b x >>= fun b' => f b' y) >>= fun b'' => l.foldlM f b'') := by
      cases f b x <;> rfl
    rw [e1, e2, h]
  | trans p₁ _ ih₁ ih₂ =>
    intro hp b
    rw [ih₁ hp b]
    exact ih₂ ((p₁.pairwise_iff hsym).1 hp) b

/-! ## pointwise reading of writes -/

theorem applyWrites_apply (o : OptInst) (ws : List Write) (c : Config) (f : Field) :
    applyWrites o ws c f =
      ((ws.filter (·.field = f)).map (fun w => (w.mode, valueOf o w))).foldl stepVal (c f) := by
  induction ws generalizing c with
  | nil => rfl
  | cons w ws ih =>
    unfold applyWrites
    rw [List.foldl_cons]
    have := ih (applyWrite o c w)
    unfold applyWrites at this
    rw [this]
    by_cases h : w.field = f
    · have hf : f = w.field := h.symm
      simp only [List.filter_cons, h, decide_true, if_true, List.map_cons, List.foldl_cons]
      congr 1
      simp only [applyWrite, hf, if_true, stepVal]
    · have hf : ¬ f = w.field := fun e => h e.symm
      simp [List.filter_cons, h, applyWrite, hf]

/-- what one option closure does to one field of one object -/
theorem applyOpt_ok {T : Target} {o : OptInst} (c : Config) (h : failsOn T o = none) :
    applyOpt T c o = .ok (fun f => (writesTo T f o).foldl stepVal (c f)) := by
  unfold applyOpt
  rw [h]
  by_cases ha : applies T o = true
  · simp only [ha, if_true]
    congr 1
    funext f
    rw [applyWrites_apply]
    simp [writesTo, ha]
  · have ha' : applies T o = false := by simpa using ha
    simp only [ha']
    show Except.ok c = _
    congr 1
    funext f
    simp [writesTo, ha']

theorem fieldAfter_cons (T : Target) (o : OptInst) (opts : List OptInst) (f : Field) (v0 : Val) :
    fieldAfter T (o :: opts) f v0 = fieldAfter T opts f ((writesTo T f o).foldl stepVal v0) := by
  simp [fieldAfter, List.flatMap_cons, List.foldl_append]

theorem fieldAfter_append (T : Target) (l₁ l₂ : List OptInst) (f : Field) (v0 : Val) :
    fieldAfter T (l₁ ++ l₂) f v0 = fieldAfter T l₂ f (fieldAfter T l₁ f v0) := by
  simp [fieldAfter, List.flatMap_append, List.foldl_append]

/-- a pass over options none of which fails computes every field independently -/
theorem pass_ok {T : Target} {opts : List OptInst} (c : Config)
    (h : ∀ o ∈ opts, failsOn T o = none) :
    pass T opts c = .ok (fun f => fieldAfter T opts f (c f)) := by
  induction opts generalizing c with
  | nil => rfl
  | cons o opts ih =>
    unfold pass
    rw [List.foldlM_cons, applyOpt_ok c (h o (by simp))]
    have := ih (fun f => (writesTo T f o).foldl stepVal (c f)) (fun o' ho' => h o' (by simp [ho']))
    unfold pass at this
    show List.foldlM (applyOpt T) _ opts = _
    rw [this]
    congr 1
    funext f
    rw [fieldAfter_cons]

/-- a failing option makes the pass fail; the first failing one determines the error -/
theorem pass_error {T : Target} (l₁ : List OptInst) (o : OptInst) (l₂ : List OptInst) (c : Config) (e : Err)
    (h₁ : ∀ o' ∈ l₁, failsOn T o' = none) (ho : failsOn T o = some e) :
    pass T (l₁ ++ o :: l₂) c = .error e := by
  unfold pass
  rw [List.foldlM_append]
  have := pass_ok c h₁
  unfold pass at this
  rw [this]
  show List.foldlM (applyOpt T) _ (o :: l₂) = _
  rw [List.foldlM_cons]
  unfold applyOpt
  rw [ho]
  rfl

/-! ## keys and disjointness -/

theorem disjointKeys_iff (a b : OptInst) :
    disjointKeys a b = true ↔ ∀ f, f ∈ keys a → f ∉ keys b := by
  simp [disjointKeys, List.all_eq_true]

theorem disjointKeys_symm {a b : OptInst} (h : disjointKeys a b = true) : disjointKeys b a = true := by
  rw [disjointKeys_iff] at *
  intro f hb ha
  exact h f ha hb

theorem writesTo_nil_of_not_key {T : Target} {f : Field} {o : OptInst} (h : f ∉ keys o) :
    writesTo T f o = [] := by
  unfold writesTo
  split
  · have : (spec o.opt).writes.filter (·.field = f) = [] := by
      rw [List.filter_eq_nil_iff]
      intro w hw hwf
      apply h
      simp only [keys, List.mem_map]
      exact ⟨w, hw, by simpa using hwf⟩
    rw [this]; rfl
  · rfl

/-- two options that write disjoint sets of fields, and do not fail with different errors, commute -/
def Compat (a b : OptInst) : Prop :=
  disjointKeys a b = true ∧
    ∀ ea eb, errOf (spec a.opt) a = some ea → errOf (spec b.opt) b = some eb → ea = eb

theorem Compat.symm {a b : OptInst} (h : Compat a b) : Compat b a :=
  ⟨disjointKeys_symm h.1, fun ea eb ha hb => (h.2 eb ea hb ha).symm⟩

theorem failsOn_some {T : Target} {o : OptInst} {e : Err} (h : failsOn T o = some e) :
    errOf (spec o.opt) o = some e := by
  unfold failsOn at h
  simp only at h
  split at h
  · exact h
  · cases h

theorem applyOpt_comm (T : Target) (a b : OptInst) (h : Compat a b) (c : Config) :
    (applyOpt T c a >>= fun c' => applyOpt T c' b) = (applyOpt T c b >>= fun c' => applyOpt T c' a) := by
  cases ha : failsOn T a with
  | some ea =>
    cases hb : failsOn T b with
    | some eb =>
      have : ea = eb := h.2 ea eb (failsOn_some ha) (failsOn_some hb)
      subst this
      simp [applyOpt, ha, hb]
    | none =>
      rw [applyOpt_ok c hb]
      simp [applyOpt, ha]
      rfl
  | none =>
    cases hb : failsOn T b with
    | some eb =>
      rw [applyOpt_ok c ha]
      simp [applyOpt, hb]
      rfl
    | none =>
      rw [applyOpt_ok c ha, applyOpt_ok c hb]
      show applyOpt T _ b = applyOpt T _ a
      rw [applyOpt_ok _ ha, applyOpt_ok _ hb]
      congr 1
      funext f
      have hd := (disjointKeys_iff a b).1 h.1
      by_cases hfa : f ∈ keys a
      · have hfb := hd f hfa
        simp [writesTo_nil_of_not_key (T := T) hfb]
      · simp [writesTo_nil_of_not_key (T := T) hfa]

/-- a pass is invariant under permutation of pairwise compatible options -/
theorem pass_perm (T : Target) {l₁ l₂ : List OptInst} (p : l₁.Perm l₂) (hp : l₁.Pairwise Compat)
    (c : Config) : pass T l₁ c = pass T l₂ c :=
  foldlM_perm (fun c o => applyOpt T c o) Compat Compat.symm (fun a b h c => applyOpt_comm T a b h c) p hp c

theorem passes_perm (ts : List Target) {l₁ l₂ : List OptInst} (p : l₁.Perm l₂) (hp : l₁.Pairwise Compat)
    (c : Config) : passes ts l₁ c = passes ts l₂ c := by
  have : (fun c T => pass T l₁ c) = (fun c T => pass T l₂ c) := by
    funext c T; exact pass_perm T p hp c
  unfold passes
  rw [this]

/-! ## reading a fold of writes -/

theorem foldl_stepVal_last_set (ws : List (Mode × Val)) (v : Val) (v0 : Val) :
    (ws ++ [(Mode.set, v)]).foldl stepVal v0 = v := by
  simp [List.foldl_append, stepVal]

theorem foldl_stepVal_append_only (ws : List (Mode × Val)) (h : ∀ mv ∈ ws, mv.1 = Mode.append) (v0 : Val) :
    ws.foldl stepVal v0 = v0 ++ (ws.map (·.2)).flatten := by
  induction ws generalizing v0 with
  | nil => simp
  | cons mv ws ih =>
    have hm : mv.1 = Mode.append := h mv (by simp)
    rw [List.foldl_cons, ih (fun x hx => h x (by simp [hx]))]
    simp [stepVal, hm]

end Scrapli.Options

namespace Scrapli.Options
open Scrapli Scrapli.Gen.Options

/-! ## facts about the generated table, lifted from `decide` over `allOpts` -/

theorem mem_allOpts (o : Opt) : o ∈ allOpts := by
  cases o <;> simp [allOpts]

theorem forall_opt_of_all {p : Opt → Bool} (h : allOpts.all p = true) (o : Opt) : p o = true :=
  List.all_eq_true.1 h o (mem_allOpts o)

theorem failsOn_none_of_valid {T : Target} {o : OptInst} (h : errOf (spec o.opt) o = none) :
    failsOn T o = none := by
  unfold failsOn
  simp only
  split
  · exact h
  · rfl

theorem pass_valid {T : Target} {opts : List OptInst} (c : Config) (hv : AllValid opts) :
    pass T opts c = .ok (afterPass T opts c) :=
  pass_ok c (fun o ho => failsOn_none_of_valid (hv o ho))

theorem pass_validOn {T : Target} {opts : List OptInst} (c : Config)
    (h : ∀ o ∈ opts, failsOn T o = none) : pass T opts c = .ok (afterPass T opts c) :=
  pass_ok c h

theorem passes_valid {ts : List Target} {opts : List OptInst} (c : Config) (hv : ValidOn ts opts) :
    passes ts opts c = .ok (afterPasses ts opts c) := by
  induction ts generalizing c with
  | nil => rfl
  | cons T ts ih =>
    unfold passes
    rw [List.foldlM_cons, pass_validOn c (hv T (by simp))]
    exact ih (afterPass T opts c) (fun T' hT' => hv T' (by simp [hT']))

theorem validOn_of_allValid {opts : List OptInst} (ts : List Target) (hv : AllValid opts) : ValidOn ts opts :=
  fun _ _ o ho => failsOn_none_of_valid (hv o ho)

theorem validOnB_iff (ts : List Target) (opts : List OptInst) : validOnB ts opts = true ↔ ValidOn ts opts := by
  simp [validOnB, ValidOn, List.all_eq_true, Option.isNone_iff_eq_none]

end Scrapli.Options

namespace Scrapli.Options
open Scrapli Scrapli.Gen.Options

/-- table fact: every field an option assigns belongs to the one object type the option asserts -/
theorem table_lands_on_target :
    allOpts.all (fun o => (spec o).writes.all fun w => (spec o).targets == [w.field.target]) = true := by
  decide

theorem targets_of_write {o : Opt} {w : Write} (hw : w ∈ (spec o).writes) :
    (spec o).targets = [w.field.target] := by
  have h := forall_opt_of_all table_lands_on_target o
  have := List.all_eq_true.1 h w hw
  simpa using this

theorem writesTo_nil_of_target_ne {T : Target} {f : Field} (o : OptInst) (h : f.target ≠ T) :
    writesTo T f o = [] := by
  unfold writesTo
  split
  · rename_i ha
    have : (spec o.opt).writes.filter (·.field = f) = [] := by
      rw [List.filter_eq_nil_iff]
      intro w hw hwf
      have hf : w.field = f := by simpa using hwf
      have ht := targets_of_write hw
      unfold applies at ha
      rw [ht, hf] at ha
      simp at ha
      exact h ha.symm
    rw [this]; rfl
  · rfl

theorem fieldAfter_of_no_writes {T : Target} {opts : List OptInst} {f : Field} (v0 : Val)
    (h : ∀ o ∈ opts, writesTo T f o = []) : fieldAfter T opts f v0 = v0 := by
  induction opts generalizing v0 with
  | nil => rfl
  | cons o opts ih =>
    rw [fieldAfter_cons, h o (by simp)]
    exact ih _ (fun o' ho' => h o' (by simp [ho']))

theorem afterPass_other {T : Target} {f : Field} (opts : List OptInst) (c : Config) (h : f.target ≠ T) :
    afterPass T opts c f = c f :=
  fieldAfter_of_no_writes _ (fun o _ => writesTo_nil_of_target_ne o h)

/-- `afterPasses` is pointwise in the configuration -/
theorem afterPasses_congr (ts : List Target) (opts : List OptInst) {c d : Config} {f : Field}
    (h : c f = d f) : afterPasses ts opts c f = afterPasses ts opts d f := by
  induction ts generalizing c d with
  | nil => exact h
  | cons T ts ih =>
    unfold afterPasses
    rw [List.foldl_cons, List.foldl_cons]
    exact ih (by simp [afterPass, h])

theorem afterPasses_cons (T : Target) (ts : List Target) (opts : List OptInst) (c : Config) :
    afterPasses (T :: ts) opts c = afterPasses ts opts (afterPass T opts c) := rfl

theorem afterPasses_append (ts₁ ts₂ : List Target) (opts : List OptInst) (c : Config) :
    afterPasses (ts₁ ++ ts₂) opts c = afterPasses ts₂ opts (afterPasses ts₁ opts c) := by
  simp [afterPasses, List.foldl_append]

/-- every field is computed by the one pass over the object it belongs to -/
theorem afterPasses_field {ts : List Target} (hnd : ts.Nodup) (opts : List OptInst) (c : Config) (f : Field) :
    afterPasses ts opts c f = if f.target ∈ ts then fieldAfter f.target opts f (c f) else c f := by
  induction ts generalizing c with
  | nil => simp [afterPasses]
  | cons T ts ih =>
    rw [List.nodup_cons] at hnd
    rw [afterPasses_cons, ih hnd.2]
    by_cases hT : f.target = T
    · subst hT
      have hn : f.target ∉ ts := hnd.1
      simp [hn, afterPass]
    · have hT' : ¬ T = f.target := fun e => hT e.symm
      rw [afterPass_other opts c hT]
      simp [List.mem_cons, hT]

theorem transportTargets_mem {c : Config} {T : Target} (h : T ∈ transportTargets c) :
    T = .transport_SSHArgs ∨ T = .transport_System ∨ T = .transport_Standard ∨
      T = .transport_TelnetArgs ∨ T = .transport_Telnet ∨ T = .transport_File := by
  unfold transportTargets at h
  simp only at h
  repeat' split at h
  all_goals simp at h
  all_goals (first | (rcases h with h | h <;> simp [h]) | simp [h])

theorem transportTargets_nodup (c : Config) : (transportTargets c).Nodup := by
  unfold transportTargets
  simp only
  repeat' split
  all_goals decide

theorem fillLogger_other {L f : Field} (c : Config) (h : f ≠ L) : fillLogger L c f = c f := by
  unfold fillLogger
  split
  · simp [setField, h]
  · rfl

theorem setField_other {L f : Field} (c : Config) (v : Val) (h : f ≠ L) : setField c L v f = c f := by
  simp [setField, h]

theorem setField_same (L : Field) (c : Config) (v : Val) : setField c L v L = v := by
  simp [setField]

theorem genericReached_nodup (opts : List OptInst) (c : Config) : (genericReached opts c).Nodup := by
  unfold genericReached
  generalize (afterPass .transport_Args opts (fillLogger .generic_Driver_Logger (afterPass .generic_Driver opts c))) = c2
  have hm := @transportTargets_mem c2
  have hn := transportTargets_nodup c2
  simp only [List.cons_append, List.nil_append, List.nodup_cons, List.mem_cons, List.mem_append,
    List.mem_singleton, List.nodup_append, List.nodup_nil, and_true, List.not_mem_nil, or_false]
  refine ⟨?_, ?_, hn, not_false, ?_⟩
  · intro h
    rcases h with h | h | h
    · cases h
    · rcases hm h with h | h | h | h | h | h <;> cases h
    · cases h
  · intro h
    rcases h with h | h
    · rcases hm h with h | h | h | h | h | h <;> cases h
    · cases h
  · intro a ha b hb
    subst hb
    rcases hm ha with h | h | h | h | h | h <;> simp [h]

/-- `generic.NewDriver` with no failing option: explicit result -/
theorem constructGeneric_valid {opts : List OptInst} (c : Config) (hv : ValidOn (genericReached opts c) opts) :
    constructGeneric opts c = .ok
      (afterPasses ([.transport_Args] ++
          transportTargets (afterPass .transport_Args opts
            (fillLogger .generic_Driver_Logger (afterPass .generic_Driver opts c))) ++ [.channel_Channel]) opts
        (fillLogger .generic_Driver_Logger (afterPass .generic_Driver opts c))) := by
  unfold constructGeneric
  rw [pass_validOn c (hv .generic_Driver (by simp [genericReached]))]
  show (pass .transport_Args opts _ >>= _) = _
  rw [pass_validOn _ (hv .transport_Args (by simp [genericReached]))]
  show (passes _ opts _ >>= _) = _
  rw [passes_valid _ (fun T hT => hv T (by
    unfold genericReached
    simp only [List.mem_append]
    exact Or.inl (Or.inr hT)))]
  show pass .channel_Channel opts _ = _
  rw [pass_validOn _ (hv .channel_Channel (by simp [genericReached]))]
  congr 1
  simp only [afterPasses_append]
  rfl

end Scrapli.Options

namespace Scrapli.Options
open Scrapli Scrapli.Gen.Options

/-- `generic.NewDriver` with no failing option, field by field: every setting of every object that
is built is what the options naming it leave there, in list order, starting from the default; all
other settings keep their default. The logger additionally defaults to a no-op instance. -/
theorem constructGeneric_field {opts : List OptInst} (c : Config) (hv : ValidOn (genericReached opts c) opts) :
    ∃ c', constructGeneric opts c = .ok c' ∧
      (∀ f, f ≠ .generic_Driver_Logger →
        c' f = if f.target ∈ genericReached opts c then fieldAfter f.target opts f (c f) else c f) ∧
      c' .generic_Driver_Logger =
        fillLogger .generic_Driver_Logger (afterPass .generic_Driver opts c) .generic_Driver_Logger := by
  refine ⟨_, constructGeneric_valid c hv, ?_, ?_⟩
  · intro f hf
    have hnd := genericReached_nodup opts c
    have e1 := afterPasses_congr ([.transport_Args] ++
          transportTargets (afterPass .transport_Args opts
            (fillLogger .generic_Driver_Logger (afterPass .generic_Driver opts c))) ++ [.channel_Channel]) opts
        (fillLogger_other (L := .generic_Driver_Logger) (afterPass .generic_Driver opts c) hf)
    rw [e1, ← afterPasses_cons]
    exact afterPasses_field hnd opts c f
  · have hnd := genericReached_nodup opts c
    unfold genericReached at hnd
    have hnd' : ¬ Target.generic_Driver ∈ ([Target.transport_Args] ++
          transportTargets (afterPass .transport_Args opts
            (fillLogger .generic_Driver_Logger (afterPass .generic_Driver opts c))) ++ [Target.channel_Channel]) ∧
        ([Target.transport_Args] ++
          transportTargets (afterPass .transport_Args opts
            (fillLogger .generic_Driver_Logger (afterPass .generic_Driver opts c))) ++ [Target.channel_Channel]).Nodup :=
      List.nodup_cons.1 hnd
    rw [afterPasses_field hnd'.2]
    have : Field.generic_Driver_Logger.target = Target.generic_Driver := rfl
    rw [this, if_neg hnd'.1]

end Scrapli.Options

namespace Scrapli.Options
open Scrapli Scrapli.Gen.Options

/-! ## declarative reading of the constructors (`spec*`) -/

theorem compatB_iff (a b : OptInst) : compatB a b = true ↔ Compat a b := by
  unfold compatB Compat
  cases ha : errOf (spec a.opt) a <;> cases hb : errOf (spec b.opt) b <;> simp

theorem pairwiseB_iff {α : Type} (r : α → α → Bool) (l : List α) :
    pairwiseB r l = true ↔ l.Pairwise (fun a b => r a b = true) := by
  induction l with
  | nil => simp [pairwiseB]
  | cons a l ih => simp [pairwiseB, List.pairwise_cons, ih, List.all_eq_true]

theorem allValidB_iff (opts : List OptInst) : allValidB opts = true ↔ AllValid opts := by
  simp [allValidB, AllValid, List.all_eq_true, Option.isNone_iff_eq_none]

theorem constructGeneric_eq_spec {opts : List OptInst} (c : Config) (hv : ValidOn (genericReached opts c) opts) :
    constructGeneric opts c = .ok (specGeneric opts c) := by
  obtain ⟨c', h, h1, h2⟩ := constructGeneric_field c hv
  rw [h]
  congr 1
  funext f
  unfold specGeneric
  by_cases hf : f = .generic_Driver_Logger
  · subst hf; simp [h2]
  · simp [hf, h1 f hf]

theorem genericReached_mem {opts : List OptInst} {c : Config} {T : Target} (h : T ∈ genericReached opts c) :
    T ≠ .network_Driver ∧ T ≠ .netconf_Driver ∧ T ≠ .logging_Instance := by
  unfold genericReached at h
  simp only [List.cons_append, List.nil_append, List.mem_cons, List.mem_append, List.mem_singleton,
    List.not_mem_nil, or_false] at h
  rcases h with h | h | h | h
  · subst h; decide
  · subst h; decide
  · rcases transportTargets_mem h with h | h | h | h | h | h <;> (subst h; decide)
  · subst h; decide

theorem specGeneric_unreached {opts : List OptInst} {c : Config} {f : Field}
    (h : f.target = .network_Driver ∨ f.target = .netconf_Driver ∨ f.target = .logging_Instance) :
    specGeneric opts c f = c f := by
  unfold specGeneric
  have hl : f ≠ .generic_Driver_Logger := by
    intro e; subst e
    rcases h with h | h | h <;> cases h
  have hn : f.target ∉ genericReached opts c := by
    intro hm
    have := genericReached_mem hm
    rcases h with h | h | h
    · exact this.1 h
    · exact this.2.1 h
    · exact this.2.2 h
  simp [hl, hn]

theorem constructNetwork_eq_spec {opts : List OptInst} (c : Config)
    (hv : ValidOn (genericReached opts c ++ [.network_Driver]) opts) :
    constructNetwork opts c = specNetwork opts c := by
  unfold constructNetwork
  rw [constructGeneric_eq_spec c (fun T hT => hv T (List.mem_append_left _ hT))]
  show (pass .network_Driver opts _ >>= _) = _
  rw [pass_validOn _ (hv .network_Driver (by simp))]
  have e1 : afterPass .network_Driver opts (specGeneric opts c) .network_Driver_DefaultDesiredPriv =
      fieldAfter .network_Driver opts .network_Driver_DefaultDesiredPriv (c .network_Driver_DefaultDesiredPriv) := by
    unfold afterPass
    rw [specGeneric_unreached (Or.inl rfl)]
  have e2 : afterPass .network_Driver opts (specGeneric opts c) .network_Driver_PrivilegeLevels =
      fieldAfter .network_Driver opts .network_Driver_PrivilegeLevels (c .network_Driver_PrivilegeLevels) := by
    unfold afterPass
    rw [specGeneric_unreached (Or.inl rfl)]
  show (if (afterPass .network_Driver opts (specGeneric opts c) .network_Driver_DefaultDesiredPriv == [[]] ||
      (afterPass .network_Driver opts (specGeneric opts c) .network_Driver_PrivilegeLevels).isEmpty) = true then _ else _) = _
  unfold specNetwork
  simp only [e1, e2]
  split
  · rfl
  · congr 1
    funext f
    by_cases hp : f = .channel_Channel_PromptPattern
    · simp [hp, setField]
    · rw [setField_other _ _ hp]
      simp only [hp, if_false]
      by_cases ht : f.target = .network_Driver
      · simp only [ht, if_true]
        unfold afterPass
        rw [specGeneric_unreached (Or.inl ht)]
      · simp only [ht, if_false]
        exact afterPass_other opts _ ht

theorem constructNetconf_eq_spec {opts : List OptInst} (c : Config)
    (hv : ValidOn (genericReached (opts ++ [netconfConnectionOpt]) c ++ [.netconf_Driver]) (opts ++ [netconfConnectionOpt])) :
    constructNetconf opts c = .ok (specNetconf opts c) := by
  unfold constructNetconf
  simp only []
  rw [constructGeneric_eq_spec c (fun T hT => hv T (List.mem_append_left _ hT))]
  show (pass .netconf_Driver _ _ >>= _) = _
  rw [pass_validOn _ (hv .netconf_Driver (by simp))]
  show Except.ok _ = _
  congr 1
  funext f
  unfold specNetconf
  simp only []
  by_cases hp : f = .channel_Channel_PromptPattern
  · simp [hp, setField]
  · rw [setField_other _ _ hp]
    simp only [hp, if_false]
    by_cases h1 : f = .netconf_Driver_TransportType
    · subst h1
      rw [fillLogger_other _ (by decide)]
      simp [afterPass, setField]
    · simp only [h1, if_false]
      by_cases h2 : f = .netconf_Driver_Logger
      · subst h2
        simp only [if_true]
        have e : setField (specGeneric (opts ++ [netconfConnectionOpt]) c) .netconf_Driver_TransportType
            (specGeneric (opts ++ [netconfConnectionOpt]) c .generic_Driver_TransportType) .generic_Driver_Logger =
            specGeneric (opts ++ [netconfConnectionOpt]) c .generic_Driver_Logger :=
          setField_other _ _ (by decide)
        unfold fillLogger
        simp only [afterPass, setField_same, e]
        split
        · rename_i h
          have h' := h
          simp only [beq_iff_eq] at h'
          simp [setField, h']
        · rename_i h
          have h' := h
          simp only [beq_iff_eq] at h'
          simp [h', afterPass, setField_same, e]
      · simp only [h2, if_false]
        rw [fillLogger_other _ h2]
        by_cases ht : f.target = .netconf_Driver
        · simp only [ht, if_true]
          unfold afterPass
          rw [setField_other _ _ h2, setField_other _ _ h1, specGeneric_unreached (Or.inr (Or.inl ht))]
        · simp only [ht, if_false]
          rw [afterPass_other _ _ ht, setField_other _ _ h2, setField_other _ _ h1]

end Scrapli.Options
