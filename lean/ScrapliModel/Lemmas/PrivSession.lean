import ScrapliModel.Lemmas.Priv
/-!
# Session-level lemmas of the privilege model: one `processAcquirePriv` decision, one device
transition, the acquire loop along a simple path, payload lines
-/
namespace Scrapli.Priv
open Scrapli Scrapli.Forest

/-- the property's hypotheses about one scenario. Prompts need NOT distinguish the levels: every
level recognises its own prompt, and levels with an ambiguous prompt are leaves of the graph. -/
structure Dom (c : Cfg) : Prop where
  tree : Tree c.L
  noUnknown : unknownPriv ∉ names c.L
  recog : recognises c = true
  leaves : ambigLeaf c = true
  cmds : cmdsOK c.L = true
  asks : asksOK c = true
  ord : ∀ t, (c.orc t).Valid

/-! ## `determineCurrentPriv` / `processAcquirePriv` -/

theorem mem_names_iff {L : Levels} {a : Bytes} : a ∈ names L ↔ ∃ l ∈ L, l.name = a := by
  simp [names]

theorem unamb_iff {c : Cfg} {m : Bytes} :
    unambB c m = true ↔ ∀ l ∈ c.L, c.matchP l (c.promptOf m) = true → l.name = m := by
  simp only [unambB, List.all_eq_true, Bool.or_eq_true, Bool.not_eq_true', beq_iff_eq]
  constructor
  · intro h l hl hm
    rcases h l hl with h1 | h1
    · rw [hm] at h1; cases h1
    · exact h1
  · intro h l hl
    cases hm : c.matchP l (c.promptOf m) with
    | false => exact Or.inl rfl
    | true => exact Or.inr (h l hl hm)

/-- distinguishing prompts are the special case in which every prompt is unambiguous -/
theorem unamb_of_distinguishes {c : Cfg} (h : distinguishes c = true) {m : Bytes}
    (hm : m ∈ names c.L) : unambB c m = true := by
  simp only [distinguishes, List.all_eq_true, beq_iff_eq] at h
  obtain ⟨lm, hlm, hlmn⟩ := mem_names_iff.1 hm
  rw [unamb_iff]
  intro l hl hmatch
  have := h l hl lm hlm
  rw [hlmn, hmatch] at this
  exact beq_iff_eq.1 this.symm

theorem recognises_of_distinguishes {c : Cfg} (h : distinguishes c = true) : recognises c = true := by
  simp only [distinguishes, List.all_eq_true, beq_iff_eq] at h
  simp only [recognises, List.all_eq_true]
  intro l hl
  have := h l hl l hl
  rw [this]; simp

theorem ambigLeaf_of_distinguishes {c : Cfg} (h : distinguishes c = true) : ambigLeaf c = true := by
  simp only [ambigLeaf, List.all_eq_true, Bool.or_eq_true]
  intro m hm
  exact Or.inl (unamb_of_distinguishes h (mem_names_iff.2 ⟨m, hm, rfl⟩))

/-- the candidate set of `determineCurrentPriv` on the prompt of level `m`: it is not empty, it
contains `m`, all candidates are levels, and when the prompt is unambiguous all candidates are `m` -/
theorem determineCurrent_at {c : Cfg} (hd : Dom c) {o : Orders} (ho : o.Valid) {m : Bytes}
    (hm : m ∈ names c.L) :
    ∃ p0 ps, determineCurrent c.matchP o c.L (c.promptOf m) = p0 :: ps ∧ m ∈ p0 :: ps ∧
      (∀ x ∈ p0 :: ps, x ∈ names c.L) ∧ (unambB c m = true → ∀ x ∈ p0 :: ps, x = m) := by
  obtain ⟨lm, hlm, hlmn⟩ := mem_names_iff.1 hm
  have hrec := hd.recog
  simp only [recognises, List.all_eq_true] at hrec
  have hnames : ∀ x ∈ determineCurrent c.matchP o c.L (c.promptOf m), x ∈ names c.L := by
    intro x hx
    simp only [determineCurrent, List.mem_map, List.mem_filter] at hx
    obtain ⟨l, ⟨hl, _⟩, rfl⟩ := hx
    exact mem_names_iff.2 ⟨l, (ho.2 _ _).1 hl, rfl⟩
  have hall : unambB c m = true → ∀ x ∈ determineCurrent c.matchP o c.L (c.promptOf m), x = m := by
    intro hu x hx
    simp only [determineCurrent, List.mem_map, List.mem_filter] at hx
    obtain ⟨l, ⟨hl, hmatch⟩, rfl⟩ := hx
    exact unamb_iff.1 hu l ((ho.2 _ _).1 hl) hmatch
  have hmem : m ∈ determineCurrent c.matchP o c.L (c.promptOf m) := by
    simp only [determineCurrent, List.mem_map, List.mem_filter]
    refine ⟨lm, ⟨(ho.2 _ _).2 hlm, ?_⟩, hlmn⟩
    have := hrec lm hlm
    rw [hlmn] at this
    exact this
  cases hdc : determineCurrent c.matchP o c.L (c.promptOf m) with
  | nil => rw [hdc] at hmem; cases hmem
  | cons p0 ps => exact ⟨p0, ps, rfl, by rw [← hdc]; exact hmem, by rw [← hdc]; exact hnames,
      by rw [← hdc]; exact hall⟩

/-- what `processAcquirePriv` needs to know to resolve the candidates to the device's level `m`:
the prompt is unambiguous, or the tracked level is accurate, or the tracked level is not a level at
all (`UNKNOWN`, `""`) and `m` is the target -/
def Resolves (c : Cfg) (cache tgt m : Bytes) : Prop :=
  unambB c m = true ∨ cache = m ∨ (m = tgt ∧ cache ∉ names c.L)

/-- tracked level first, then the target, then the first candidate -/
theorem current_eq {c : Cfg} {cache tgt p0 m : Bytes} {ps : List Bytes} (hmem : m ∈ p0 :: ps)
    (hnames : ∀ x ∈ p0 :: ps, x ∈ names c.L) (hall : unambB c m = true → ∀ x ∈ p0 :: ps, x = m)
    (hr : Resolves c cache tgt m) :
    (if cache ∈ p0 :: ps then cache else if tgt ∈ p0 :: ps then tgt else p0) = m := by
  rcases hr with hu | hc | ⟨ht, hc⟩
  · have h := hall hu
    split
    · rename_i h1; exact h _ h1
    · split
      · rename_i h2; exact h _ h2
      · exact h p0 (by simp)
  · subst hc; rw [if_pos hmem]
  · subst ht
    rw [if_neg (fun h => hc (hnames _ h)), if_pos hmem]

/-- at the target: no action, the cache is set to the level read from the prompt -/
theorem processAcquire_same {c : Cfg} (hd : Dom c) {o : Orders} (ho : o.Valid) {m : Bytes}
    (hm : m ∈ names c.L) (cache : Bytes) (hr : Resolves c cache m m) :
    processAcquire c.matchP o c.L cache m (c.promptOf m) = .ok ⟨.noAction, m, m⟩ := by
  obtain ⟨p0, ps, hdc, hmem, hnames, hall⟩ := determineCurrent_at hd ho hm
  simp only [processAcquire, hdc, current_eq hmem hnames hall hr, if_true]

/-- away from the target: the decision follows the second node of the simple path -/
theorem processAcquire_step {c : Cfg} (hd : Dom c) {o : Orders} (ho : o.Valid) {m tgt x : Bytes}
    {rest : List Bytes} (hp : SimplePath (par c.L) m tgt (m :: x :: rest))
    (hV : ∀ v ∈ m :: x :: rest, v ∈ names c.L) (cache : Bytes) (hr : Resolves c cache tgt m) :
    processAcquire c.matchP o c.L cache tgt (c.promptOf m) =
      .ok (if par c.L m = some x then ⟨.deescalate, m, unknownPriv⟩
           else ⟨.escalate, x, unknownPriv⟩) := by
  have hm : m ∈ names c.L := hV m (by simp)
  have hx : x ∈ names c.L := hV x (by simp)
  obtain ⟨p0, ps, hdc, hmem, hnames, hall⟩ := determineCurrent_at hd ho hm
  have hne : m ≠ tgt := by
    intro h
    have hl := hp.2.1
    rw [List.getLast?_cons_cons] at hl
    have : tgt ∈ x :: rest := List.mem_of_getLast? hl
    exact (List.nodup_cons.1 hp.2.2.2).1 (h ▸ this)
  obtain ⟨lx, hlx⟩ := find?_isSome_of_mem hx
  obtain ⟨d, hdep⟩ := hd.tree.depth
  have hmne : m ≠ [] := fun h => hd.tree.nonempty (h ▸ hm)
  simp only [processAcquire, hdc, current_eq hmem hnames hall hr, hne, if_false,
    pathDFS_eq hd.tree ho hp hV, hlx]
  have hadj : Adj (par c.L) m x := hp.2.2.1.1
  rcases hadj with h | h
  · -- x is the parent of m
    have hprev : lx.previous ≠ m := by
      intro hc
      have := par_of_find hlx (by rw [hc]; exact hmne)
      rw [hc] at this
      have h1 := hdep _ _ h
      have h2 := hdep _ _ this
      omega
    simp [hprev, h]
  · obtain ⟨l', hl', hpr, _⟩ := par_some h
    rw [hlx] at hl'; cases hl'
    have hnot : par c.L m ≠ some x := by
      intro hc
      have h1 := hdep _ _ h
      have h2 := hdep _ _ hc
      omega
    simp [hpr, hnot, (find?_some hlx).2]

/-- an interior node of a simple path has two different neighbours, so (`ambigLeaf`) its prompt is
unambiguous -/
theorem interior_unamb {c : Cfg} (hd : Dom c) : ∀ (t : List Bytes) (a tgt : Bytes),
    Walk (par c.L) (a :: t) → (a :: t).Nodup → (a :: t).getLast? = some tgt →
    (∀ v ∈ a :: t, v ∈ names c.L) → ∀ v ∈ t, v ≠ tgt → unambB c v = true := by
  intro t
  induction t with
  | nil => intro a tgt _ _ _ _ v hv; cases hv
  | cons x rest ih =>
    intro a tgt hw hn hl hV v hv hne
    rw [List.getLast?_cons_cons] at hl
    rcases List.mem_cons.1 hv with rfl | hv'
    · cases rest with
      | nil => simp at hl; exact absurd hl hne
      | cons w rest' =>
        have hleaf := hd.leaves
        simp only [ambigLeaf, List.all_eq_true, Bool.or_eq_true, beq_iff_eq] at hleaf
        obtain ⟨lv, hlv, hlvn⟩ := mem_names_iff.1 (hV v (by simp))
        rcases hleaf lv hlv with h | h
        · rw [hlvn] at h; exact h
        · exfalso
          rw [hlvn] at h
          have h1 : a ∈ neighbours c.L v := mem_neighbours_of_adj hw.1.symm
          have h2 : w ∈ neighbours c.L v := mem_neighbours_of_adj hw.2.1
          have := h a h1 w h2
          have hn' := (List.nodup_cons.1 hn).1
          exact hn' (by rw [this]; simp)
    · exact ih x tgt hw.2 (List.nodup_cons.1 hn).2 hl (fun u hu => hV u (List.mem_cons_of_mem _ hu))
        v hv' hne

/-! ## the device -/

theorem cmdsOK_unfold {L : Levels} (h : cmdsOK L = true) {l : Level} (hl : l ∈ L)
    (hne : l.previous ≠ []) :
    l.escalate ≠ [] ∧ l.deescalate ≠ [] ∧
    (∀ m ∈ L, m.previous = l.previous → m.escalate = l.escalate → m.name = l.name) ∧
    (∀ m ∈ L, l.previous = m.name → m.previous ≠ [] → l.escalate ≠ m.deescalate) := by
  simp only [cmdsOK, List.all_eq_true, Bool.and_eq_true, Bool.or_eq_true, beq_iff_eq, bne_iff_ne] at h
  obtain ⟨h1, h2⟩ := h l hl
  rcases h1 with h1 | h1
  · exact absurd h1 hne
  refine ⟨h1.1, h1.2, ?_, ?_⟩
  · intro m hm hp he
    rcases (h2 m hm).1 with ((h3 | h3) | h3) | h3
    · exact absurd h3 hne
    · exact absurd hp.symm h3
    · exact absurd he.symm h3
    · exact h3.symm
  · intro m hm hp hmp
    rcases (h2 m hm).2 with ((h3 | h3) | h3) | h3
    · exact absurd h3 hne
    · exact absurd hp h3
    · exact absurd h3 hmp
    · exact h3

theorem dev_bare (c : Cfg) (d : Dev) (h : d.awaiting = none) :
    devStep c d [] = { d with log := d.log ++ [(d.mode, [])] } := by
  simp [devStep, h]

/-- the deescalate command of the current level moves the device to the parent -/
theorem dev_deescalate {c : Cfg} (hd : Dom c) (d : Dev) (h : d.awaiting = none) {p : Bytes}
    (hp : par c.L d.mode = some p) :
    devStep c d (deescCmd c.L d.mode) =
      { mode := p, awaiting := none, log := d.log ++ [(d.mode, deescCmd c.L d.mode)] } := by
  obtain ⟨lm, hlm, hprev, hpne⟩ := par_some hp
  obtain ⟨hlmL, hlmn⟩ := find?_some hlm
  have hprevne : lm.previous ≠ [] := by rw [hprev]; exact hpne
  obtain ⟨_, hde, _, _⟩ := cmdsOK_unfold hd.cmds hlmL hprevne
  have hnochild : c.L.find? (fun l => l.previous == d.mode && l.escalate == lm.deescalate) = none := by
    rw [List.find?_eq_none]
    intro l hl hc
    simp only [Bool.and_eq_true, beq_iff_eq] at hc
    have hlne : l.previous ≠ [] := by
      rw [hc.1]; intro h0; exact hd.tree.nonempty (h0 ▸ mem_names_of_find? hlm)
    obtain ⟨_, _, _, h4⟩ := cmdsOK_unfold hd.cmds hl hlne
    exact h4 lm hlmL (by rw [hc.1, hlmn]) hprevne hc.2
  simp only [deescCmd, hlm, devStep, h, hde, if_false, hnochild, hprev]
  simp [hpne]

/-- the escalate command of a child moves the device into it, or makes it ask for the password -/
theorem dev_escalate {c : Cfg} (hd : Dom c) (d : Dev) (h : d.awaiting = none) {x : Bytes}
    (hp : par c.L x = some d.mode) :
    devStep c d (escCmd c.L x) =
      if c.asks x then { d with awaiting := some x, log := d.log ++ [(d.mode, escCmd c.L x)] }
      else { d with mode := x, log := d.log ++ [(d.mode, escCmd c.L x)] } := by
  obtain ⟨lx, hlx, hprev, hpne⟩ := par_some hp
  obtain ⟨hlxL, hlxn⟩ := find?_some hlx
  have hprevne : lx.previous ≠ [] := by rw [hprev]; exact hpne
  obtain ⟨hesc, _, hsib, _⟩ := cmdsOK_unfold hd.cmds hlxL hprevne
  have hfind : c.L.find? (fun l => l.previous == d.mode && l.escalate == lx.escalate) = some lx := by
    cases hf : c.L.find? (fun l => l.previous == d.mode && l.escalate == lx.escalate) with
    | none =>
      rw [List.find?_eq_none] at hf
      exact absurd (by simp [hprev]) (hf lx hlxL)
    | some ch =>
      have h1 := List.mem_of_find?_eq_some hf
      have h2 := List.find?_some hf
      simp only [Bool.and_eq_true, beq_iff_eq] at h2
      have := hsib ch h1 (by rw [h2.1, hprev]) h2.2
      rw [same_name_eq hd.tree.nodup h1 hlxL this]
  simp only [escCmd, hlx, devStep, h, hesc, if_false, hfind, hlxn]

theorem dev_secret (c : Cfg) (d : Dev) {x : Bytes} (h : d.awaiting = some x) :
    devStep c d c.secret = { mode := x, awaiting := none, log := d.log ++ [(d.mode, c.secret)] } := by
  simp [devStep, h]

/-- a payload line (empty, or no level's transition command) is logged and changes nothing else -/
theorem dev_payload (c : Cfg) (d : Dev) (h : d.awaiting = none) {line : Bytes}
    (hl : line = [] ∨ isPayload c.L line = true) :
    devStep c d line = { d with log := d.log ++ [(d.mode, line)] } := by
  rcases hl with rfl | hl
  · exact dev_bare c d h
  · by_cases h0 : line = []
    · subst h0; exact dev_bare c d h
    · simp only [isPayload, List.all_eq_true, Bool.and_eq_true, bne_iff_ne] at hl
      have hnochild : c.L.find? (fun l => l.previous == d.mode && l.escalate == line) = none := by
        rw [List.find?_eq_none]
        intro l hlL hc
        simp only [Bool.and_eq_true, beq_iff_eq] at hc
        exact (hl l hlL).1 hc.2.symm
      simp only [devStep, h, h0, if_false, hnochild]
      cases hf : find? c.L d.mode with
      | none => rfl
      | some m =>
        have := (hl m (find?_some hf).1).2
        have hne : ¬ (m.deescalate = line ∧ m.previous ≠ []) := fun hc => this hc.1.symm
        simp only [hne, if_false]

/-! ## client steps -/

theorem escalate_ok {c : Cfg} (hd : Dom c) (s : Sess) (h : s.dev.awaiting = none) {x : Bytes}
    (hp : par c.L x = some s.dev.mode) :
    escalate c s x = (none, { s with dev :=
      { mode := x, awaiting := none,
        log := s.dev.log ++ ((s.dev.mode, escCmd c.L x) ::
          (if c.asks x then [(s.dev.mode, c.secret)] else [])) } }) := by
  obtain ⟨lx, hlx, _, _⟩ := par_some hp
  obtain ⟨hlxL, hlxn⟩ := find?_some hlx
  have hesc : lx.escalate = escCmd c.L x := by simp [escCmd, hlx]
  have hstep := dev_escalate hd s.dev h hp
  have hasks := hd.asks
  simp only [asksOK, List.all_eq_true, Bool.or_eq_true, Bool.not_eq_true', Bool.and_eq_true,
    bne_iff_ne] at hasks
  have hax := hasks lx hlxL
  rw [hlxn] at hax
  unfold escalate
  rw [hlx]
  simp only [hesc]
  by_cases ha : c.asks x = true
  · rcases hax with hax | hax
    · rw [ha] at hax; cases hax
    · have hbr : (!lx.escalateAuth || decide (c.secret = [])) = false := by simp [hax.1, hax.2]
      rw [hbr]
      simp only [Bool.false_eq_true, if_false]
      rw [hstep]
      simp only [ha, if_true, Option.isSome_some]
      rw [dev_secret c _ (x := x) rfl]
      simp
  · have ha' : c.asks x = false := by simpa using ha
    by_cases hbr : (!lx.escalateAuth || decide (c.secret = [])) = true
    · rw [hbr]
      simp only [if_true, sendInput]
      rw [hstep]
      simp [ha', h]
    · have hbr' : (!lx.escalateAuth || decide (c.secret = [])) = false := by simpa using hbr
      rw [hbr']
      simp only [Bool.false_eq_true, if_false]
      rw [hstep]
      simp [ha', h]

theorem deescalate_ok {c : Cfg} (hd : Dom c) (s : Sess) (h : s.dev.awaiting = none) {p : Bytes}
    (hp : par c.L s.dev.mode = some p) :
    deescalate c s s.dev.mode = (none, { s with dev :=
      { mode := p, awaiting := none,
        log := s.dev.log ++ [(s.dev.mode, deescCmd c.L s.dev.mode)] } }) := by
  obtain ⟨lm, hlm, _, _⟩ := par_some hp
  have hde : lm.deescalate = deescCmd c.L s.dev.mode := by simp [deescCmd, hlm]
  unfold deescalate
  rw [hlm]
  simp only [sendInput, hde]
  rw [dev_deescalate hd s.dev h hp]
  simp

/-! ## the acquire loop along a simple path -/

/-- THE LOOP. From any state whose device sits (at a prompt) in a level `a`, for any simple path
`p` from `a` to the target: the loop succeeds after `|p|` iterations, the device is at the target,
the cache names the target, and the device received exactly `expectedLog p`. -/
theorem acquireLoop_path {c : Cfg} (hd : Dom c) (tgt : Bytes) :
    ∀ (p : List Bytes) (s : Sess) (fuel count : Nat),
      SimplePath (par c.L) s.dev.mode tgt p → (∀ v ∈ p, v ∈ names c.L) →
      s.dev.awaiting = none → Resolves c s.cache tgt s.dev.mode →
      p.length ≤ fuel → count + p.length ≤ 2 * c.L.length + 1 →
      acquireLoop c tgt fuel count s =
        (none, { dev := { mode := tgt, awaiting := none, log := s.dev.log ++ expectedLog c p },
                 cache := tgt, tick := s.tick + p.length }) := by
  intro p
  induction p with
  | nil => intro s fuel count hp; simp [SimplePath] at hp
  | cons a t ih =>
    intro s fuel count hp hV haw hres hfuel hcount
    have ha : s.dev.mode = a := by
      have := hp.1; simp at this; exact this.symm
    cases fuel with
    | zero => simp at hfuel
    | succ fuel =>
      cases t with
      | nil =>
        have hat : a = tgt := by have := hp.2.1; simpa using this
        subst hat
        have hm : s.dev.mode ∈ names c.L := ha ▸ hV a (by simp)
        simp only [acquireLoop, getPrompt, dev_bare c s.dev haw]
        rw [ha] at hm ⊢
        rw [processAcquire_same hd (hd.ord _) hm _ (ha ▸ hres)]
        simp [expectedLog, haw]
      | cons x rest =>
        have hp' : SimplePath (par c.L) a tgt (a :: x :: rest) := ha ▸ hp
        have hstep := processAcquire_step hd (hd.ord s.tick) hp' hV s.cache (ha ▸ hres)
        have hresx : Resolves c unknownPriv tgt x := by
          by_cases hxt : x = tgt
          · exact Or.inr (Or.inr ⟨hxt, hd.noUnknown⟩)
          · exact Or.inl (interior_unamb hd (x :: rest) a tgt hp'.2.2.1 hp'.2.2.2 hp'.2.1 hV x (by simp) hxt)
        have hadj : Adj (par c.L) a x := hp.2.2.1.1
        have hrest : SimplePath (par c.L) x tgt (x :: rest) :=
          ⟨rfl, by have := hp.2.1; rw [List.getLast?_cons_cons] at this; exact this,
            hp.2.2.1.2, (List.nodup_cons.1 hp.2.2.2).2⟩
        have hVrest : ∀ v ∈ x :: rest, v ∈ names c.L := fun v hv => hV v (List.mem_cons_of_mem _ hv)
        have hcnt : ¬ (count + 1 > 2 * c.L.length) := by simp at hcount ⊢; omega
        simp only [acquireLoop, getPrompt, dev_bare c s.dev haw]
        rw [ha, hstep]
        by_cases hpar : par c.L a = some x
        · -- up: deescalate the current level
          simp only [hpar, if_true]
          have := deescalate_ok hd
            (s := { dev := { s.dev with log := s.dev.log ++ [(a, [])] }, cache := unknownPriv,
                    tick := s.tick + 1 }) haw (p := x) (by simpa [ha] using hpar)
          simp only [ha] at this
          simp only [this, hcnt, if_false]
          rw [ih _ fuel (count + 1) hrest hVrest rfl hresx (by simp at hfuel ⊢; omega)
            (by simp at hcount ⊢; omega)]
          simp [expectedLog, stepEntries, hpar, Nat.add_assoc, Nat.add_comm]
        · -- down: escalate into the child
          have hpar' : par c.L x = some a := by
            rcases hadj with h | h
            · exact absurd h hpar
            · exact h
          simp only [hpar, if_false]
          have := escalate_ok hd
            (s := { dev := { s.dev with log := s.dev.log ++ [(a, [])] }, cache := unknownPriv,
                    tick := s.tick + 1 }) haw (x := x) (by simpa [ha] using hpar')
          simp only [ha] at this
          simp only [this, hcnt, if_false]
          rw [ih _ fuel (count + 1) hrest hVrest rfl hresx (by simp at hfuel ⊢; omega)
            (by simp at hcount ⊢; omega)]
          simp [expectedLog, stepEntries, hpar, Nat.add_assoc, Nat.add_comm]

/-- one more unit of fuel changes nothing once the fuel exceeds what the Go counter allows -/
theorem acquireLoop_fuel (c : Cfg) (tgt : Bytes) : ∀ (fuel count : Nat) (s : Sess),
    2 * c.L.length + 1 - count < fuel →
    acquireLoop c tgt (fuel + 1) count s = acquireLoop c tgt fuel count s := by
  intro fuel
  induction fuel with
  | zero => intro count s h; omega
  | succ fuel ih =>
    intro count s h
    rw [acquireLoop.eq_def c tgt (fuel + 1 + 1), acquireLoop.eq_def c tgt (fuel + 1)]
    simp only
    split
    · rfl
    · split
      · rfl
      · split
        · rfl
        · split
          · rfl
          · exact ih _ _ (by omega)
      · split
        · rfl
        · split
          · rfl
          · exact ih _ _ (by omega)

/-! ## payload lines -/

theorem sendLines_payload (c : Cfg) : ∀ (ls : List Bytes) (s : Sess), s.dev.awaiting = none →
    (∀ l ∈ ls, l = [] ∨ isPayload c.L l = true) →
    sendLines c ls s = (none, { s with dev :=
      { s.dev with log := s.dev.log ++ ls.map fun l => (s.dev.mode, l) } }) := by
  intro ls
  induction ls with
  | nil => intro s _ _; simp [sendLines]
  | cons l t ih =>
    intro s haw hpl
    simp only [sendLines, sendInput, dev_payload c s.dev haw (hpl l (by simp)), haw]
    simp only [Option.isSome_none, Bool.false_eq_true, if_false]
    rw [ih _ rfl (fun l' hl' => hpl l' (List.mem_cons_of_mem _ hl'))]
    simp

end Scrapli.Priv

/-! ## whole operations -/
namespace Scrapli.Priv
open Scrapli Scrapli.Forest

theorem acquirePriv_ok {c : Cfg} (hd : Dom c) (s : Sess) {tgt : Bytes} (haw : s.dev.awaiting = none)
    (hres : Resolves c s.cache tgt s.dev.mode) (ht : tgt ∈ names c.L) {p : List Bytes} (hp : SimplePath (par c.L) s.dev.mode tgt p)
    (hV : ∀ v ∈ p, v ∈ names c.L) :
    acquirePriv c tgt s =
      (none, { dev := { mode := tgt, awaiting := none, log := s.dev.log ++ expectedLog c p },
               cache := tgt, tick := s.tick + p.length }) := by
  obtain ⟨l, hl⟩ := find?_isSome_of_mem ht
  have hlen := path_length_le hp hV
  unfold acquirePriv
  rw [hl]
  exact acquireLoop_path hd tgt p s _ 0 hp hV haw hres (by omega) (by omega)

theorem acquirePriv_unknown (c : Cfg) (s : Sess) {tgt : Bytes} (ht : tgt ∉ names c.L) :
    acquirePriv c tgt s = (some .privilege, s) := by
  unfold acquirePriv
  rw [find?_none_iff.2 ht]

/-- the invariant: the device sits at a prompt in some level, a cache that names a level names the
device's level, and the cache is accurate whenever the device's prompt is ambiguous -/
structure Inv (c : Cfg) (s : Sess) : Prop where
  atPrompt : s.dev.awaiting = none
  inLevel : s.dev.mode ∈ names c.L
  coherent : s.cache ∈ names c.L → s.dev.mode = s.cache
  tracked : unambB c s.dev.mode = false → s.cache = s.dev.mode

theorem Inv.resolves {c : Cfg} {s : Sess} (hi : Inv c s) (tgt : Bytes) :
    Resolves c s.cache tgt s.dev.mode := by
  cases hu : unambB c s.dev.mode with
  | true => exact Or.inl hu
  | false => exact Or.inr (Or.inl (hi.tracked hu))

/-- level an operation must run at -/
def opLevel (c : Cfg) : Op → Bytes
  | .sendCommand _ => c.default
  | .sendCommands _ => c.default
  | .sendConfigs _ priv => if priv = [] then Gen.Network.defaultConfigurationPrivLevel else priv
  | .sendConfig _ priv => if priv = [] then Gen.Network.defaultConfigurationPrivLevel else priv
  | .acquirePriv t => t
  | .sendInteractive _ priv => if priv = [] then c.default else priv

/-- payload lines of an operation -/
def opLines : Op → List Bytes
  | .sendCommand cmd => [cmd]
  | .sendCommands cmds => cmds
  | .sendConfigs lines _ => lines
  | .sendConfig cfg _ => splitLF cfg
  | .acquirePriv _ => []
  | .sendInteractive inputs _ => inputs

/-- `SendCommand(s)` skip the acquisition when the cache already names the default level -/
def opSkips (c : Cfg) (s : Sess) : Op → Bool
  | .sendCommand _ => s.cache == c.default
  | .sendCommands _ => s.cache == c.default
  | _ => false

/-- an empty command list is refused by `generic.SendCommands` (after the acquisition) -/
def opErr : Op → Option Err
  | .sendCommands cmds => if cmds = [] then some .noop else none
  | .sendConfigs lines _ => if lines = [] then some .noop else none
  | .sendConfig cfg _ => if splitLF cfg = [] then some .noop else none
  | _ => none

theorem genericSendCommands_payload (c : Cfg) (ls : List Bytes) (s : Sess)
    (haw : s.dev.awaiting = none) (hpl : ∀ l ∈ ls, l = [] ∨ isPayload c.L l = true) :
    genericSendCommands c ls s = (if ls = [] then some .noop else none, { s with dev :=
      { s.dev with log := s.dev.log ++ ls.map fun l => (s.dev.mode, l) } }) := by
  unfold genericSendCommands
  split
  · rename_i h; subst h; simp
  · rw [sendLines_payload c ls s haw hpl]

theorem sendInput_payload (c : Cfg) (s : Sess) (haw : s.dev.awaiting = none) {line : Bytes}
    (hl : line = [] ∨ isPayload c.L line = true) :
    sendInput c s line = (none, { s with dev :=
      { s.dev with log := s.dev.log ++ [(s.dev.mode, line)] } }) := by
  simp [sendInput, dev_payload c s.dev haw hl, haw]

/-- one operation, from any coherent state: the acquisition (unless skipped) walks the simple path
to the operation's level, then every payload line arrives in that level -/
theorem runOp_spec {c : Cfg} (hd : Dom c) {s : Sess} (hi : Inv c s) (op : Op)
    (hpl : ∀ l ∈ opLines op, l = [] ∨ isPayload c.L l = true) (hlv : opLevel c op ∈ names c.L) :
    ∃ p, SimplePath (par c.L) s.dev.mode (opLevel c op) p ∧ (∀ v ∈ p, v ∈ names c.L) ∧
      runOp c s op = (opErr op,
        { dev := { mode := opLevel c op, awaiting := none,
                   log := s.dev.log ++ (if opSkips c s op then [] else expectedLog c p) ++
                     (opLines op).map fun l => (opLevel c op, l) },
          cache := opLevel c op,
          tick := s.tick + (if opSkips c s op then 0 else p.length) }) := by
  obtain ⟨p, hp, hV⟩ := path_exists hd.tree hi.inLevel hlv
  refine ⟨p, hp, hV, ?_⟩
  have hacq := acquirePriv_ok hd s hi.atPrompt (hi.resolves _) hlv hp hV
  have haw := hi.atPrompt
  cases op with
  | sendCommand cmd =>
    simp only [opLevel, opLines, opSkips, opErr] at *
    simp only [runOp, withDefault]
    by_cases hc : s.cache = c.default
    · have hmode : s.dev.mode = c.default := by rw [← hc]; exact hi.coherent (hc ▸ hlv)
      simp only [hc, ne_eq, not_true_eq_false, if_false, beq_self_eq_true, if_true]
      rw [sendInput_payload c s haw (hpl cmd (by simp))]
      cases s; simp_all
    · simp only [ne_eq, hc, not_false_eq_true, if_true, hacq]
      rw [sendInput_payload c _ rfl (hpl cmd (by simp))]
      simp [hc]
  | sendCommands cmds =>
    simp only [opLevel, opLines, opSkips, opErr] at *
    simp only [runOp, withDefault]
    by_cases hc : s.cache = c.default
    · have hmode : s.dev.mode = c.default := by rw [← hc]; exact hi.coherent (hc ▸ hlv)
      simp only [hc, ne_eq, not_true_eq_false, if_false, beq_self_eq_true, if_true]
      rw [genericSendCommands_payload c cmds s haw hpl]
      cases s; simp_all
    · simp only [ne_eq, hc, not_false_eq_true, if_true, hacq]
      rw [genericSendCommands_payload c cmds _ rfl hpl]
      simp [hc]
  | sendConfigs lines priv =>
    simp only [opLevel, opLines, opSkips, opErr] at *
    simp only [runOp, withTarget, hacq]
    rw [genericSendCommands_payload c lines _ rfl hpl]
    simp
  | sendConfig cfg priv =>
    simp only [opLevel, opLines, opSkips, opErr] at *
    simp only [runOp, withTarget, hacq]
    rw [genericSendCommands_payload c (splitLF cfg) _ rfl hpl]
    simp
  | acquirePriv t =>
    simp only [opLevel, opLines, opSkips, opErr] at *
    simp only [runOp, hacq]
    simp
  | sendInteractive inputs priv =>
    simp only [opLevel, opLines, opSkips, opErr] at *
    simp only [runOp, withTarget, hacq]
    rw [sendLines_payload c inputs _ rfl hpl]
    simp

/-- an operation whose level is not in the map is refused with a privilege error before anything
is sent -/
theorem runOp_unknown (c : Cfg) (s : Sess) (op : Op) (hsk : opSkips c s op = false)
    (hlv : opLevel c op ∉ names c.L) : runOp c s op = (some .privilege, s) := by
  cases op with
  | sendCommand cmd =>
    simp only [opLevel, opSkips, beq_eq_false_iff_ne] at *
    simp [runOp, withDefault, hsk, acquirePriv_unknown c s hlv]
  | sendCommands cmds =>
    simp only [opLevel, opSkips, beq_eq_false_iff_ne] at *
    simp [runOp, withDefault, hsk, acquirePriv_unknown c s hlv]
  | sendConfigs lines priv =>
    simp only [opLevel] at hlv
    simp [runOp, withTarget, acquirePriv_unknown c s hlv]
  | sendConfig cfg priv =>
    simp only [opLevel] at hlv
    simp [runOp, withTarget, acquirePriv_unknown c s hlv]
  | acquirePriv t =>
    simp only [opLevel] at hlv
    simp [runOp, acquirePriv_unknown c s hlv]
  | sendInteractive inputs priv =>
    simp only [opLevel] at hlv
    simp [runOp, withTarget, acquirePriv_unknown c s hlv]

end Scrapli.Priv
