import ScrapliModel.Lemmas.GoSem
import ScrapliModel.Lemmas.Decode
import ScrapliModel.Generated.BodiesResponse
/-!
# The cursor loops of `record1dot1Chunks`, as translated from the source
(`Generated/BodiesResponse.lean`), against `takeHeader` / `parseSize` / `decodeLoop`

These lemmas are about the *generated* definitions: a change of the loops in `response/netconf.go`
that changes their meaning breaks this file (and with it `Props/C02`).
Assumption carried by the library table: `strconv.Atoi` is `Go.atoi` (no overflow: the header has at
most `maxChunkSizeCharLen` = 10 characters).
-/
namespace Scrapli.Netconf
open Scrapli Gen.Bodies.Response

theorem takeHeader_spec (n : Nat) (t h rest : Bytes) (hh : takeHeader n t = some (h, rest)) :
    t = h ++ LF :: rest ∧ h.length ≤ n := by
  induction n generalizing t h rest with
  | zero =>
    cases t with
    | nil => simp [takeHeader] at hh
    | cons b t =>
      simp only [takeHeader] at hh
      split at hh
      · rename_i hb; simp at hh; obtain ⟨rfl, rfl⟩ := hh; simp at hb; simp [hb]
      · simp at hh
  | succ n ih =>
    cases t with
    | nil => simp [takeHeader] at hh
    | cons b t =>
      simp only [takeHeader] at hh
      split at hh
      · rename_i hb; simp at hh; obtain ⟨rfl, rfl⟩ := hh; simp at hb; simp [hb]
      · simp only [Option.map_eq_some_iff] at hh
        obtain ⟨⟨h', r'⟩, hh', he⟩ := hh
        simp at he; obtain ⟨rfl, rfl⟩ := he
        obtain ⟨e, hl⟩ := ih t h' r' hh'
        simp [e]; omega

theorem parseDec_minus (ds : Bytes) : parseDec (45 :: ds) = none := by
  simp [parseDec, parseDecAux, isDigit]

theorem parseSize_other (b : UInt8) (ds : Bytes) (h : b ≠ 43) :
    parseSize (b :: ds) = (parseDec (b :: ds)).bind fun n => if n = 0 then none else some n := by
  unfold parseSize
  split
  · rename_i heq; simp at heq
  · rename_i ds' heq; simp at heq; exact absurd heq.1 h
  · rfl

theorem atoi_other (b : UInt8) (ds : Bytes) (h : b ≠ 43) (h2 : b ≠ 45) :
    Go.atoi (b :: ds) = match parseDec (b :: ds) with
      | some n => if n ≤ Go.maxInt64 then ((n : Nat), none) else ((Go.maxInt64 : Nat), some "strconv.ErrRange")
      | none => (0, some "strconv.ErrSyntax") := by
  unfold Go.atoi
  split
  · rename_i ds' heq; simp at heq; exact absurd heq.1 h
  · rename_i ds' heq; simp at heq; exact absurd heq.1 h2
  · rfl

theorem digitVal_le (b : UInt8) : digitVal b ≤ 9 := by
  unfold digitVal; split <;> omega

theorem parseDecAux_lt (ds : Bytes) : ∀ (acc n : Nat), parseDecAux acc ds = some n → n < (acc + 1) * 10 ^ ds.length := by
  induction ds with
  | nil => intro acc n h; simp [parseDecAux] at h; subst h; simp
  | cons b t ih =>
    intro acc n h
    simp only [parseDecAux] at h
    split at h
    · have := ih _ _ h
      have hd := digitVal_le b
      have h2 : (acc * 10 + digitVal b + 1) * 10 ^ t.length ≤ ((acc + 1) * 10) * 10 ^ t.length :=
        Nat.mul_le_mul_right _ (by omega)
      simp only [List.length_cons, Nat.pow_succ]
      calc n < (acc * 10 + digitVal b + 1) * 10 ^ t.length := this
        _ ≤ ((acc + 1) * 10) * 10 ^ t.length := h2
        _ = (acc + 1) * (10 ^ t.length * 10) := by rw [Nat.mul_assoc, Nat.mul_comm 10]
    · simp at h

theorem parseDec_lt (ds : Bytes) (n : Nat) (h : parseDec ds = some n) : n < 10 ^ ds.length := by
  cases ds with
  | nil => simp [parseDec] at h
  | cons b t =>
    have := parseDecAux_lt (b :: t) 0 n (by simpa [parseDec] using h)
    simpa using this

theorem parseDec_small (ds : Bytes) (n : Nat) (h : parseDec ds = some n) (hl : ds.length ≤ 18) :
    n ≤ Go.maxInt64 := by
  have h1 := parseDec_lt ds n h
  have h2 : 10 ^ ds.length ≤ 10 ^ 18 := Nat.pow_le_pow_right (by decide) hl
  have h3 : 10 ^ 18 ≤ Go.maxInt64 := by decide
  omega

/-- `strconv.Atoi` followed by the `> 0` guard is `parseSize`, on a header short enough not to
    overflow (the code reads at most `maxChunkSizeCharLen` = 10 characters) -/
theorem atoi_parseSize (h : Bytes) (hl : h.length ≤ 18) :
    match parseSize h with
    | some n => Go.atoi h = (((n : Nat) : Int), none) ∧ 0 < n
    | none => (Go.atoi h).2 ≠ none ∨ (Go.atoi h).1 ≤ 0 := by
  cases h with
  | nil => simp [parseSize, Go.atoi, parseDec]
  | cons b ds =>
    by_cases h1 : b = 43
    · subst h1
      simp only [parseSize, Go.atoi]
      cases hp : parseDec ds with
      | none => simp
      | some n =>
        have hs := parseDec_small ds n hp (by simp at hl; omega)
        by_cases hn : n = 0 <;> simp [hn, hs] <;> omega
    · by_cases h2 : b = 45
      · subst h2
        rw [parseSize_other _ _ h1, parseDec_minus]
        simp only [Go.atoi]
        cases hp : parseDec ds with
        | none => simp
        | some n =>
          have hs := parseDec_small ds n hp (by simp at hl; omega)
          have hs' : n ≤ Go.maxInt64 + 1 := by omega
          simp [hs']
      · rw [parseSize_other _ _ h1, atoi_other _ _ h1 h2]
        cases hp : parseDec (b :: ds) with
        | none => simp
        | some n =>
          have hs := parseDec_small (b :: ds) n hp hl
          by_cases hn : n = 0 <;> simp [hn, hs] <;> omega

theorem inner_loop (fuel : Nat) (raw result d joined : Bytes) (term : Bool) (c : Nat) :
    ∀ (j k g : Nat), k + j = Gen.Response.maxChunkSizeCharLen + 1 → j + 1 ≤ g →
    ∃ k' : Int, Go.forLoop (record1dot1Chunks_loop2_step fuel raw result d joined term)
        (record1dot1Chunks_loop2_post fuel raw result d joined term) g (([] : Bytes), (c : Int), (k : Int)) =
      match (match j with | 0 => none | j' + 1 => takeHeader j' (d.drop (c + k))) with
      | some (h, _) => .fin ((d.take (c + k + h.length)).drop c, ((c + k + h.length + 1 : Nat) : Int),
          ((k + h.length : Nat) : Int))
      | none => .fin ([], (c : Int), k') := by
  intro j
  induction j with
  | zero =>
    intro k g hk hg
    obtain ⟨g, rfl⟩ : ∃ g', g = g' + 1 := ⟨g - 1, by omega⟩
    refine ⟨k, ?_⟩
    have hc : ¬ ((k : Int) ≤ (Gen.Response.maxChunkSizeCharLen : Int)) := by
      have : Gen.Response.maxChunkSizeCharLen + 1 ≤ k := by omega
      omega
    simp [Go.forLoop, record1dot1Chunks_loop2_step, hc]
  | succ j ih =>
    intro k g hk hg
    obtain ⟨g, rfl⟩ : ∃ g', g = g' + 1 := ⟨g - 1, by omega⟩
    have hc : ((k : Int) ≤ (Gen.Response.maxChunkSizeCharLen : Int)) := by
      have : k ≤ Gen.Response.maxChunkSizeCharLen := by omega
      exact_mod_cast this
    have ecast : (c : Int) + (k : Int) = ((c + k : Nat) : Int) := by omega
    cases hdrop : d.drop (c + k) with
    | nil =>
      have hlen : d.length ≤ c + k := by simpa using hdrop
      have hlt : ¬ ((c + k : Nat) : Int) < Go.len d := by simp only [Go.len]; omega
      refine ⟨k, ?_⟩
      simp only [Go.forLoop, record1dot1Chunks_loop2_step, hc, ecast, hlt, decide_true, decide_false,
        Bool.and_false, Bool.not_false, if_true]
      cases j <;> simp only [takeHeader]
    | cons b t =>
      have hlen : c + k < d.length := by
        have := congrArg List.length hdrop
        simp at this; omega
      have hlt : ((c + k : Nat) : Int) < Go.len d := by simp only [Go.len]; omega
      have hat : Go.at d ((c + k : Nat) : Int) = b := Go.at_of_drop d _ b t hdrop
      have hidx : Go.idxOK (Go.len d) ((c + k : Nat) : Int) = true := by
        rw [Go.idxOK_nat]; simpa using hlen
      by_cases hb : b = LF
      · refine ⟨0, ?_⟩
        have hsl : Go.sliceOK (Go.len d) (c : Int) ((c + k : Nat) : Int) = true := by
          rw [Go.sliceOK_nat]; simp; omega
        have e2 : (c : Int) + ((k : Int) + 1) = ((c + k + 1 : Nat) : Int) := by omega
        have hb10 : ((10 : UInt8) == 10) = true := rfl
        subst hb
        simp only [Go.forLoop, record1dot1Chunks_loop2_step, hc, ecast, hlt, hat, hidx, hsl, Go.slice_nat, e2]
        cases j <;> simp [takeHeader, LF]
      · have hb' : (b == (10 : UInt8)) = false := by simpa [LF] using hb
        have e3 : (k : Int) + 1 = ((k + 1 : Nat) : Int) := by omega
        obtain ⟨k', hk'⟩ := ih (k + 1) g (by omega) (by omega)
        have hd2 : d.drop (c + (k + 1)) = t := by
          have : d.drop (c + k + 1) = (d.drop (c + k)).drop 1 := by simp [List.drop_drop]
          rw [show c + (k + 1) = c + k + 1 by omega, this, hdrop]; rfl
        rw [hd2] at hk'
        refine ⟨k', ?_⟩
        simp only [Go.forLoop, record1dot1Chunks_loop2_step, record1dot1Chunks_loop2_post, hc, ecast, hlt, hat, hidx, hb', e3]
        simp only [decide_true, Bool.and_self, Bool.not_true, Bool.false_eq_true, if_false]
        rw [e3, hk']
        cases j with
        | zero => simp [takeHeader, hb', LF]
        | succ j' =>
          simp only [takeHeader]
          have : (b == LF) = false := by simpa using hb
          simp only [this, Bool.false_eq_true, if_false]
          cases takeHeader j' t with
          | none => simp
          | some p => 
            obtain ⟨h', r'⟩ := p
            simp
            refine ⟨?_, ?_, ?_⟩ <;> (try omega) <;> congr 2 <;> omega

set_option linter.unusedSimpArgs false

/-- what the outer loop must end in, given what the model's loop returns -/
def Expect (result : Bytes) (R : Except DErr Bytes)
    (L : Go.Loop (Int × Bool × Bytes) (Option (Go.Error × Bytes))) : Prop :=
  match R with
  | .ok acc => ∃ c' : Int, L = .fin (c', true, acc)
  | .error e => if e = .truncated then ∃ (c' : Int) (j' : Bytes), L = .fin (c', false, j')
                else L = .ret (some (some "errNetconf1Dot1Error", result))

theorem outer_loop (fuel : Nat) (raw result d : Bytes)
    (hf : Gen.Response.maxChunkSizeCharLen + 2 ≤ fuel) :
    ∀ (n c g m : Nat) (joined : Bytes), c ≤ d.length → d.length - c ≤ n → n + 1 ≤ g → n + 1 ≤ m →
      Expect result (decodeLoop Gen.Response.maxChunkSizeCharLen m (d.drop c) joined)
        (Go.forLoop (record1dot1Chunks_loop1_step fuel raw result d) id g ((c : Int), false, joined)) := by
  intro n
  induction n using Nat.strongRecOn with
  | _ n ih =>
  intro c g m joined hc hn hg hm
  obtain ⟨g, rfl⟩ : ∃ g', g = g' + 1 := ⟨g - 1, by omega⟩
  obtain ⟨m, rfl⟩ : ∃ m', m = m' + 1 := ⟨m - 1, by omega⟩
  cases hdrop : d.drop c with
  | nil =>
    have hlen : d.length ≤ c := by simpa using hdrop
    have hlt : ¬ ((c : Nat) : Int) < Go.len d := by simp only [Go.len]; omega
    simp only [decodeLoop, Expect, Go.forLoop, record1dot1Chunks_loop1_step, hlt, decide_false,
      Bool.not_false, if_true]
    simp
  | cons b t =>
    have hlen : c < d.length := by
      have := congrArg List.length hdrop
      simp at this; omega
    have hlt : ((c : Nat) : Int) < Go.len d := by simp only [Go.len]; omega
    have hat : Go.at d ((c : Nat) : Int) = b := Go.at_of_drop d _ b t hdrop
    have hidx : Go.idxOK (Go.len d) ((c : Nat) : Int) = true := by
      rw [Go.idxOK_nat]; simpa using hlen
    have e1 : (c : Int) + 1 = ((c + 1 : Nat) : Int) := by omega
    have hd1 : d.drop (c + 1) = t := by
      have : d.drop (c + 1) = (d.drop c).drop 1 := by simp [List.drop_drop]
      rw [this, hdrop]; rfl
    by_cases hLF : b = LF
    · -- skip a newline
      subst hLF
      obtain ⟨n', rfl⟩ : ∃ n', n = n' + 1 := ⟨n - 1, by omega⟩
      have := ih n' (by omega) (c + 1) g m joined (by omega) (by omega) (by omega) (by omega)
      rw [hd1] at this
      have hb10 : (LF == (10 : UInt8)) = true := rfl
      simp only [decodeLoop, Go.forLoop, record1dot1Chunks_loop1_step, hlt, hat, hidx, hb10, e1, decide_true,
        Bool.not_true, Bool.false_eq_true, if_false, if_true, id, beq_self_eq_true]
      exact this
    · have hb10 : (b == (10 : UInt8)) = false := by simpa [LF] using hLF
      have hbLF : (b == LF) = false := by simpa using hLF
      by_cases hH : b = HASH
      · subst hH
        have hb35 : (HASH != (35 : UInt8)) = false := rfl
        have hbH : (HASH != HASH) = false := by simp
        cases t with
        | nil =>
          -- `#` was the last byte
          have hl2 : d.length = c + 1 := by
            have := congrArg List.length hd1; simp at this; omega
          have hge : ((c + 1 : Nat) : Int) ≥ Go.len d := by simp only [Go.len]; omega
          simp only [decodeLoop, Expect, Go.forLoop, record1dot1Chunks_loop1_step, hlt, hat, hidx, hb10, hbLF,
            hb35, hbH, e1, hge, decide_true, Bool.not_true, Bool.false_eq_true, if_false, if_true]
          simp
        | cons b2 t2 =>
          have hlen2 : c + 1 < d.length := by
            have := congrArg List.length hd1; simp at this; omega
          have hge : ¬ ((c + 1 : Nat) : Int) ≥ Go.len d := by simp only [Go.len]; omega
          have hat2 : Go.at d ((c + 1 : Nat) : Int) = b2 := Go.at_of_drop d _ b2 t2 hd1
          have hidx2 : Go.idxOK (Go.len d) ((c + 1 : Nat) : Int) = true := by
            rw [Go.idxOK_nat]; simpa using hlen2
          by_cases hH2 : b2 = HASH
          · subst hH2
            have hb35' : (HASH == (35 : UInt8)) = true := rfl
            simp only [decodeLoop, Expect, Go.forLoop, record1dot1Chunks_loop1_step, hlt, hat, hidx, hb10, hbLF,
              hb35, hbH, e1, hge, hat2, hidx2, hb35', decide_true, decide_false, Bool.not_true, Bool.false_eq_true,
              if_false, if_true, beq_self_eq_true]
            simp
          · have hb35' : (b2 == (35 : UInt8)) = false := by simpa [HASH] using hH2
            have hb2H : (b2 == HASH) = false := by simpa using hH2
            obtain ⟨k', hin⟩ := inner_loop fuel raw result d joined false (c + 1)
              (Gen.Response.maxChunkSizeCharLen + 1) 0 fuel (by omega) (by omega)
            simp only [Nat.add_zero, Int.natCast_zero, hd1] at hin
            simp only [decodeLoop, Go.forLoop, record1dot1Chunks_loop1_step, hlt, hat, hidx, hb10, hbLF,
              hb35, hbH, e1, hge, hat2, hidx2, hb35', hb2H, decide_true, decide_false, Bool.not_true,
              Bool.false_eq_true, if_false, if_true, hin]
            cases hth : takeHeader Gen.Response.maxChunkSizeCharLen (b2 :: t2) with
            | none =>
              simp [Expect]
            | some p =>
              obtain ⟨h, rest⟩ := p
              obtain ⟨hsplit, hhl⟩ := takeHeader_spec _ _ _ _ hth
              have hd1' : d.drop (c + 1) = h ++ LF :: rest := by rw [hd1, hsplit]
              have hstr : List.drop (c + 1) (List.take (c + 1 + h.length) d) = h := by
                rw [List.drop_take, hd1']; simp
              have hrest : d.drop (c + 1 + h.length + 1) = rest := by
                have : d.drop (c + 1 + h.length + 1) = (d.drop (c + 1)).drop (h.length + 1) := by
                  rw [List.drop_drop]; congr 1 <;> omega
                rw [this, hd1']; simp
              have hlenr : Go.len d - ((c + 1 + h.length + 1 : Nat) : Int) = ((rest.length : Nat) : Int) := by
                have := congrArg List.length hrest
                simp only [List.length_drop] at this
                have h2 := congrArg List.length hd1'
                simp only [List.length_drop, List.length_append, List.length_cons] at h2
                simp only [Go.len]; omega
              simp only [hstr, hlenr]
              by_cases hh0 : h = []
              · subst hh0
                simp [Expect, parseSize]
              · have hne : (h == ([] : Bytes)) = false := by simpa using hh0
                simp only [hne, Bool.false_eq_true, if_false]
                have hps := atoi_parseSize h (by have : Gen.Response.maxChunkSizeCharLen = 10 := rfl; omega)
                cases hp : parseSize h with
                | none =>
                  rw [hp] at hps
                  simp only [Expect]
                  rcases hps with he | hle
                  · have : ((Go.atoi h).snd != none) = true := by simpa using he
                    simp [this]
                  · by_cases he : ((Go.atoi h).snd != none) = true
                    · simp [he]
                    · have he' : ((Go.atoi h).snd != none) = false := by simpa using he
                      simp [he', hle]
                | some nn =>
                  rw [hp] at hps
                  obtain ⟨hat', hpos⟩ := hps
                  simp only [hat']
                  have hdl : d.length = c + 1 + h.length + 1 + rest.length := by
                    have h2 := congrArg List.length hd1'
                    simp only [List.length_drop, List.length_append, List.length_cons] at h2
                    omega
                  by_cases hshort : rest.length < nn
                  · have : ((nn : Nat) : Int) > ((rest.length : Nat) : Int) := by omega
                    simp [Expect, hshort, this]
                  · have hle0 : ¬ ((nn : Nat) : Int) ≤ 0 := by omega
                    have hgt : ¬ ((nn : Nat) : Int) > ((rest.length : Nat) : Int) := by omega
                    have ecn : ((c + 1 + h.length + 1 : Nat) : Int) + ((nn : Nat) : Int)
                        = ((c + 1 + h.length + 1 + nn : Nat) : Int) := by omega
                    have hsl : Go.sliceOK (Go.len d) ((c + 1 + h.length + 1 : Nat) : Int)
                        ((c + 1 + h.length + 1 + nn : Nat) : Int) = true := by
                      rw [Go.sliceOK_nat]; simp; omega
                    have hslice : List.drop (c + 1 + h.length + 1) (List.take (c + 1 + h.length + 1 + nn) d)
                        = rest.take nn := by
                      rw [List.drop_take, hrest]; congr 1; omega
                    have hdrop2 : d.drop (c + 1 + h.length + 1 + nn) = rest.drop nn := by
                      rw [← hrest, List.drop_drop]
                    obtain ⟨n', rfl⟩ : ∃ n', n = n' + 1 := ⟨n - 1, by omega⟩
                    have := ih n' (by omega) (c + 1 + h.length + 1 + nn) g m (joined ++ rest.take nn)
                      (by omega) (by omega) (by omega) (by omega)
                    rw [hdrop2] at this
                    simp only [hshort, if_false, hle0, hgt, ecn, hsl, Go.slice_nat, hslice, decide_false, Bool.or_self,
                      Bool.false_eq_true, Bool.not_true, bne_self_eq_false, id]
                    exact this
      · have hb35 : (b != (35 : UInt8)) = true := by simpa [HASH] using hH
        have hbH : (b != HASH) = true := by simpa using hH
        simp only [decodeLoop, Expect, Go.forLoop, record1dot1Chunks_loop1_step, hlt, hat, hidx, hb10, hbLF, hb35,
          hbH, decide_true, Bool.not_true, Bool.false_eq_true, if_false, if_true]
        simp

theorem trimSpace_length_le (l : Bytes) : (trimSpace l).length ≤ l.length := by
  unfold trimSpace trimRight trimLeft
  have h1 : ∀ (p : UInt8 → Bool) (x : Bytes), (x.dropWhile p).length ≤ x.length := by
    intro p x
    induction x with
    | nil => simp
    | cons a x ih => simp only [List.dropWhile]; split <;> simp <;> omega
  have a := h1 isSpaceB (List.dropWhile isSpaceB l).reverse
  have b := h1 isSpaceB l
  simp only [List.length_reverse] at a ⊢
  omega

end Scrapli.Netconf
