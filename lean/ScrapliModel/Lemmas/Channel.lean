import ScrapliModel.Channel
namespace Scrapli.Chan
open Scrapli

/-- Core of chunking insensitivity. Reading with accumulator `acc`: if `P` first holds exactly when
the accumulated text is `acc ++ chunks.flatten`, then however that text is cut into `chunks`
(empty chunks included) the loop returns exactly it and leaves `rest` (preceded at most by
trailing empty chunks). -/
theorem readUntil_exact_acc (P : Bytes → Bool) (chunks rest : List Bytes) (acc : Bytes)
    (hne : chunks ≠ [])
    (hP : P (acc ++ chunks.flatten) = true)
    (hmin : ∀ k, acc.length ≤ k → k < (acc ++ chunks.flatten).length →
      P ((acc ++ chunks.flatten).take k) = false)
    (hacc : chunks.flatten ≠ [] ∨ True) :
    ∃ tail, readUntil P (chunks ++ rest) acc = some (acc ++ chunks.flatten, tail ++ rest)
      ∧ tail.flatten = [] := by
  induction chunks generalizing acc with
  | nil => exact absurd rfl hne
  | cons c cs ih =>
    simp only [List.cons_append, readUntil]
    by_cases hPc : P (acc ++ c) = true
    · -- stops here: then nothing but empty chunks can follow
      simp only [hPc, if_true]
      have hcs : cs.flatten = [] := by
        by_cases hlen : (acc ++ c).length < (acc ++ (c :: cs).flatten).length
        · have := hmin (acc ++ c).length (by simp) hlen
          have htake : (acc ++ (c :: cs).flatten).take (acc ++ c).length = acc ++ c := by
            simp only [List.flatten_cons, ← List.append_assoc]
            exact List.take_left' rfl
          rw [htake] at this
          rw [hPc] at this
          exact absurd this (by simp)
        · simp only [List.flatten_cons, List.length_append] at hlen
          have : cs.flatten.length = 0 := by omega
          exact List.eq_nil_of_length_eq_zero this
      refine ⟨cs, ?_, hcs⟩
      simp [List.flatten_cons, hcs]
    · simp only [hPc]
      have hcsne : cs ≠ [] := by
        intro h
        subst h
        simp only [List.flatten_cons, List.flatten_nil, List.append_nil] at hP
        exact hPc hP
      have e : acc ++ (c :: cs).flatten = (acc ++ c) ++ cs.flatten := by simp
      obtain ⟨tail, ht, htf⟩ := ih (acc ++ c) hcsne (by rw [← e]; exact hP)
        (by
          intro k hk1 hk2
          rw [← e]
          apply hmin k
          · simp only [List.length_append] at hk1 ⊢; omega
          · rw [e]; exact hk2)
        (Or.inr trivial)
      refine ⟨tail, ?_, htf⟩
      simp only [Bool.false_eq_true, if_false]
      rw [ht, e]

/-- Chunking insensitivity of every `ReadUntil*`: if `P` holds of the stream `S` and of no proper
prefix of it, then for every way of cutting `S` into chunks — preceded by left-over empty chunks,
followed by anything — the read returns exactly `S` and leaves exactly what followed. -/
theorem readUntil_exact (P : Bytes → Bool) (pre chunks rest : List Bytes)
    (hpre : pre.flatten = []) (hne : chunks.flatten ≠ [])
    (h : ExactAt P chunks.flatten) :
    ∃ tail, readUntil P (pre ++ chunks ++ rest) [] = some (chunks.flatten, tail ++ rest)
      ∧ tail.flatten = [] := by
  have hne' : pre ++ chunks ≠ [] := by
    intro hh
    have : chunks = [] := by
      cases pre with
      | nil => simpa using hh
      | cons a b => simp at hh
    subst this; exact hne rfl
  have hfl : (pre ++ chunks).flatten = chunks.flatten := by simp [hpre]
  have := readUntil_exact_acc P (pre ++ chunks) rest [] hne'
    (by simpa [hfl] using h.1)
    (by
      intro k _ hk
      simp only [List.nil_append, hfl] at hk ⊢
      exact h.2 k hk)
    (Or.inr trivial)
  simpa [hfl] using this


/-! ## the fuzzy matcher is the subsequence relation -/

theorem isSubseq_iff_sublist (c s : Bytes) : isSubseq c s = true ↔ c.Sublist s := by
  induction s generalizing c with
  | nil =>
    cases c with
    | nil => simp [isSubseq]
    | cons a as => simp [isSubseq]
  | cons b bs ih =>
    cases c with
    | nil => simp [isSubseq]
    | cons a as =>
      simp only [isSubseq]
      by_cases hab : a = b
      · subst hab
        simp only [beq_self_eq_true, if_true, List.cons_sublist_cons]
        exact ih as
      · have hne : (a == b) = false := by simpa using hab
        simp only [hne, Bool.false_eq_true, if_false]
        rw [ih (a :: as)]
        constructor
        · intro h; exact List.Sublist.cons _ h
        · intro h
          rw [List.sublist_cons_iff] at h
          rcases h with h | ⟨r, hr, _⟩
          · exact h
          · simp only [List.cons.injEq] at hr
            exact absurd hr.1 hab

theorem hasPrefix_iff (s p : Bytes) : hasPrefix s p = true ↔ ∃ r, s = p ++ r := by
  induction p generalizing s with
  | nil => cases s <;> simp [hasPrefix]
  | cons a t ih =>
    cases s with
    | nil => simp [hasPrefix]
    | cons b u =>
      simp only [hasPrefix, Bool.and_eq_true, beq_iff_eq, List.cons_append, List.cons.injEq]
      constructor
      · rintro ⟨rfl, h⟩
        obtain ⟨r, hr⟩ := (ih u).mp h
        exact ⟨r, rfl, hr⟩
      · rintro ⟨r, rfl, hr⟩
        exact ⟨rfl, (ih u).mpr ⟨r, hr⟩⟩

theorem isInfix_iff (n s : Bytes) : isInfix n s = true ↔ ∃ a b, s = a ++ n ++ b := by
  induction s with
  | nil =>
    simp only [isInfix, List.isEmpty_iff]
    constructor
    · intro h; exact ⟨[], [], by simp [h]⟩
    · rintro ⟨a, b, h⟩
      have := congrArg List.length h
      simp at this
      exact List.eq_nil_of_length_eq_zero (by omega)
  | cons x t ih =>
    simp only [isInfix, Bool.or_eq_true]
    constructor
    · rintro (h | h)
      · obtain ⟨r, hr⟩ := (hasPrefix_iff _ _).mp h
        exact ⟨[], r, by simpa using hr⟩
      · obtain ⟨a, b, hab⟩ := ih.mp h
        exact ⟨x :: a, b, by simp [hab]⟩
    · rintro ⟨a, b, h⟩
      cases a with
      | nil => left; exact (hasPrefix_iff _ _).mpr ⟨b, by simpa using h⟩
      | cons y a' =>
        right
        simp only [List.cons_append, List.cons.injEq] at h
        exact ih.mpr ⟨a', b, h.2⟩

theorem isInfix_append (n a b : Bytes) : isInfix n (a ++ n ++ b) = true :=
  (isInfix_iff _ _).mpr ⟨a, b, rfl⟩

theorem roughlyContains_iff_sublist (input output : Bytes) :
    roughlyContains input output = true ↔ input.Sublist output := by
  unfold roughlyContains
  simp only [Bool.or_eq_true]
  constructor
  · rintro (h | h)
    · obtain ⟨a, b, hab⟩ := (isInfix_iff _ _).mp h
      rw [hab]
      exact (List.sublist_append_right a input).trans (List.sublist_append_left _ b)
    · split at h
      · simp at h
      · exact (isSubseq_iff_sublist _ _).mp h
  · intro h
    right
    have hl := h.length_le
    have : ¬ output.length < input.length := by omega
    simp only [this, if_false]
    exact (isSubseq_iff_sublist _ _).mpr h


/-! ## the search window -/

theorem indexLF_none_iff (l : Bytes) : indexLF l = none ↔ LF ∉ l := by
  induction l with
  | nil => simp [indexLF]
  | cons b t ih =>
    simp only [indexLF]
    by_cases hb : b = LF
    · subst hb; simp
    · have : (b == LF) = false := by simpa using hb
      simp only [this, Bool.false_eq_true, if_false, Option.map_eq_none_iff, ih, List.mem_cons]
      constructor
      · intro h hh
        rcases hh with hh | hh
        · exact hb hh.symm
        · exact h hh
      · intro h hh; exact h (Or.inr hh)

theorem indexLF_some (l : Bytes) (i : Nat) (h : indexLF l = some i) :
    ∃ rest, l.drop i = LF :: rest := by
  induction l generalizing i with
  | nil => simp [indexLF] at h
  | cons b t ih =>
    simp only [indexLF] at h
    split at h
    · rename_i hb
      simp only [Option.some.injEq] at h
      subst h
      have : b = LF := by simpa using hb
      exact ⟨t, by simp [this]⟩
    · simp only [Option.map_eq_some_iff] at h
      obtain ⟨j, hj, rfl⟩ := h
      obtain ⟨rest, hr⟩ := ih j hj
      exact ⟨rest, by simpa using hr⟩

end Scrapli.Chan
