import ScrapliModel.Auth
import ScrapliModel.Lemmas.Channel
/-! Helper lemmas for the login model (`ScrapliModel/Auth.lean`). -/
namespace Scrapli.Auth
open Scrapli Scrapli.Chan

/-! ## the scans are `Chan.readUntil` followed by a classification -/

def sshActOf (P : Pats) (b : Bytes) (q : List Bytes) : SshAct :=
  match clsSSH P b with
  | .err => .connErr b q
  | .prompt => .success b q
  | .pass => .askPass b q
  | .phrase => .askPhrase b q
  | _ => .dry

theorem sshScan_eq (P : Pats) (q : List Bytes) (b : Bytes) :
    sshScan P b q =
      match readUntil (sshStop P) q b with
      | none => .dry
      | some (b', q') => sshActOf P b' q' := by
  induction q generalizing b with
  | nil => simp [sshScan, readUntil]
  | cons c q ih =>
    simp only [sshScan, readUntil, sshStop, sshActOf, clsSSH]
    by_cases h1 : P.sshErr (b ++ c) = true
    · simp [h1]
    · by_cases h2 : P.promptP (b ++ c) = true
      · simp [h1, h2]
      · by_cases h3 : P.passP (b ++ c) = true
        · simp [h1, h2, h3]
        · by_cases h4 : P.phraseP (b ++ c) = true
          · simp [h1, h2, h3, h4]
          · simp only [h1, h2, h3, h4, Bool.false_eq_true, if_false]
            rw [ih (b ++ c)]
            simp [sshStop, sshActOf, clsSSH]

def telActOf (P : Pats) (b : Bytes) (q : List Bytes) (cont : TelAct) : TelAct :=
  match clsTel P b with
  | .prompt => .success b q
  | .user => .askUser b q
  | .pass => .askPass b q
  | _ => cont

theorem telScan_eq (P : Pats) (d : Nat) (q : List Bytes) (b rb : Bytes) :
    telScan P d b rb q =
      match readUntil (telStop P d) q rb with
      | none => .dry
      | some (rb', q') => telActOf P (b ++ rb') q' (telScan P d (b ++ rb') [] q') := by
  induction q generalizing rb with
  | nil => simp [telScan, readUntil]
  | cons c q ih =>
    simp only [telScan, readUntil]
    by_cases hs : telStop P d (rb ++ c) = true
    · simp only [hs, if_true, telActOf, clsTel]
      by_cases h1 : P.promptP (b ++ (rb ++ c)) = true
      · simp [h1]
      · by_cases h2 : P.userP (b ++ (rb ++ c)) = true
        · simp [h1, h2]
        · by_cases h3 : P.passP (b ++ (rb ++ c)) = true
          · simp [h1, h2, h3]
          · simp [h1, h2, h3]
    · simp only [hs, Bool.false_eq_true, if_false]
      exact ih (rb ++ c)

/-! ## what an action tells about the buffer it carries -/

theorem sshActOf_cases (P : Pats) (b : Bytes) (q : List Bytes) :
    (sshActOf P b q = .connErr b q ∧ clsSSH P b = .err) ∨
    (sshActOf P b q = .success b q ∧ clsSSH P b = .prompt) ∨
    (sshActOf P b q = .askPass b q ∧ clsSSH P b = .pass) ∨
    (sshActOf P b q = .askPhrase b q ∧ clsSSH P b = .phrase) ∨
    (sshActOf P b q = .dry ∧ (clsSSH P b = .quiet ∨ clsSSH P b = .user)) := by
  unfold sshActOf
  cases h : clsSSH P b <;> simp

theorem clsSSH_pass (P : Pats) (b : Bytes) (h : clsSSH P b = .pass) : P.passP b = true := by
  unfold clsSSH at h
  by_cases h1 : P.sshErr b = true
  · simp [h1] at h
  · by_cases h2 : P.promptP b = true
    · simp [h1, h2] at h
    · by_cases h3 : P.passP b = true
      · exact h3
      · by_cases h4 : P.phraseP b = true <;> simp [h1, h2, h3, h4] at h

theorem clsSSH_phrase (P : Pats) (b : Bytes) (h : clsSSH P b = .phrase) : P.phraseP b = true := by
  unfold clsSSH at h
  by_cases h1 : P.sshErr b = true
  · simp [h1] at h
  · by_cases h2 : P.promptP b = true
    · simp [h1, h2] at h
    · by_cases h3 : P.passP b = true
      · simp [h1, h2, h3] at h
      · by_cases h4 : P.phraseP b = true
        · exact h4
        · simp [h1, h2, h3, h4] at h

theorem clsSSH_prompt (P : Pats) (b : Bytes) (h : clsSSH P b = .prompt) : P.promptP b = true := by
  unfold clsSSH at h
  by_cases h1 : P.sshErr b = true
  · simp [h1] at h
  · by_cases h2 : P.promptP b = true
    · exact h2
    · by_cases h3 : P.passP b = true
      · simp [h1, h2, h3] at h
      · by_cases h4 : P.phraseP b = true <;> simp [h1, h2, h3, h4] at h

theorem clsSSH_ne_user (P : Pats) (b : Bytes) : clsSSH P b ≠ .user := by
  unfold clsSSH
  by_cases h1 : P.sshErr b = true
  · simp [h1]
  · by_cases h2 : P.promptP b = true
    · simp [h1, h2]
    · by_cases h3 : P.passP b = true
      · simp [h1, h2, h3]
      · by_cases h4 : P.phraseP b = true <;> simp [h1, h2, h3, h4]

theorem clsTel_prompt (P : Pats) (b : Bytes) (h : clsTel P b = .prompt) : P.promptP b = true := by
  unfold clsTel at h
  by_cases h1 : P.promptP b = true
  · exact h1
  · by_cases h2 : P.userP b = true
    · simp [h1, h2] at h
    · by_cases h3 : P.passP b = true <;> simp [h1, h2, h3] at h

theorem clsTel_user (P : Pats) (b : Bytes) (h : clsTel P b = .user) : P.userP b = true := by
  unfold clsTel at h
  by_cases h1 : P.promptP b = true
  · simp [h1] at h
  · by_cases h2 : P.userP b = true
    · exact h2
    · by_cases h3 : P.passP b = true <;> simp [h1, h2, h3] at h

theorem clsTel_pass (P : Pats) (b : Bytes) (h : clsTel P b = .pass) : P.passP b = true := by
  unfold clsTel at h
  by_cases h1 : P.promptP b = true
  · simp [h1] at h
  · by_cases h2 : P.userP b = true
    · simp [h1, h2] at h
    · by_cases h3 : P.passP b = true
      · exact h3
      · simp [h1, h2, h3] at h

/-- direct facts about `sshScan` results (any queue, any start buffer) -/
theorem sshScan_askPass (P : Pats) (q : List Bytes) (b b' : Bytes) (q' : List Bytes)
    (h : sshScan P b q = .askPass b' q') : P.passP b' = true := by
  rw [sshScan_eq] at h
  split at h
  · cases h
  · rename_i b1 q1 _
    rcases sshActOf_cases P b1 q1 with ⟨e, _⟩ | ⟨e, _⟩ | ⟨e, c⟩ | ⟨e, _⟩ | ⟨e, _⟩ <;> rw [e] at h <;>
      cases h
    exact clsSSH_pass P _ c

theorem sshScan_askPhrase (P : Pats) (q : List Bytes) (b b' : Bytes) (q' : List Bytes)
    (h : sshScan P b q = .askPhrase b' q') : P.phraseP b' = true := by
  rw [sshScan_eq] at h
  split at h
  · cases h
  · rename_i b1 q1 _
    rcases sshActOf_cases P b1 q1 with ⟨e, _⟩ | ⟨e, _⟩ | ⟨e, _⟩ | ⟨e, c⟩ | ⟨e, _⟩ <;> rw [e] at h <;>
      cases h
    exact clsSSH_phrase P _ c

theorem sshScan_success (P : Pats) (q : List Bytes) (b b' : Bytes) (q' : List Bytes)
    (h : sshScan P b q = .success b' q') : P.promptP b' = true := by
  rw [sshScan_eq] at h
  split at h
  · cases h
  · rename_i b1 q1 _
    rcases sshActOf_cases P b1 q1 with ⟨e, _⟩ | ⟨e, c⟩ | ⟨e, _⟩ | ⟨e, _⟩ | ⟨e, _⟩ <;> rw [e] at h <;>
      cases h
    exact clsSSH_prompt P _ c

/-- the telnet scan: by induction on the queue (the continuation case recurses) -/
theorem telScan_facts (P : Pats) (d : Nat) (q : List Bytes) (b rb : Bytes) :
    match telScan P d b rb q with
    | .dry => True
    | .success b' _ => P.promptP b' = true
    | .askUser b' _ => P.userP b' = true
    | .askPass b' _ => P.passP b' = true := by
  induction q generalizing b rb with
  | nil => simp [telScan]
  | cons c q ih =>
    simp only [telScan]
    by_cases hs : telStop P d (rb ++ c) = true
    · simp only [hs, if_true]
      by_cases h1 : P.promptP (b ++ (rb ++ c)) = true
      · simp [h1]
      · by_cases h2 : P.userP (b ++ (rb ++ c)) = true
        · simp [h1, h2]
        · by_cases h3 : P.passP (b ++ (rb ++ c)) = true
          · simp [h1, h2, h3]
          · simp only [h1, h2, h3, Bool.false_eq_true, if_false]
            exact ih _ _
    · simp only [hs, Bool.false_eq_true, if_false]
      exact ih _ _

/-! ## trace bookkeeping -/

theorem paired_append (P : Pats) (cfg : Cfg) (t ext : List Ev) (p : Option Ev)
    (h : paired P cfg p t = true) (hext : ∀ p', paired P cfg p' ext = true) :
    paired P cfg p (t ++ ext) = true := by
  induction t generalizing p with
  | nil => simpa using hext p
  | cons e t ih =>
    cases e with
    | write w d r =>
      simp only [List.cons_append, paired, Bool.and_eq_true] at h ⊢
      exact ⟨h.1, ih _ h.2⟩
    | deliver b => simp only [List.cons_append, paired] at h ⊢; exact ih _ h
    | requeue b => simp only [List.cons_append, paired] at h ⊢; exact ih _ h
    | close => simp only [List.cons_append, paired] at h ⊢; exact ih _ h

theorem paired_block (P : Pats) (cfg : Cfg) (w : What) (b : Bytes) (hw : w ≠ .ret)
    (hp : patOf P w b = true) (p' : Option Ev) :
    paired P cfg p' (.deliver b :: credWrites cfg w (credOf cfg w)) = true := by
  cases w <;> simp_all [paired, credWrites, credOf]

theorem paired_single_deliver (P : Pats) (cfg : Cfg) (b : Bytes) (p' : Option Ev) :
    paired P cfg p' [.deliver b] = true := by simp [paired]

theorem countWrites_append (w : What) (a b : List Ev) :
    countWrites w (a ++ b) = countWrites w a + countWrites w b := by
  induction a with
  | nil => simp [countWrites]
  | cons e t ih =>
    cases e <;> simp [countWrites, ih]; omega

theorem credLines_append (a b : List Ev) : credLines (a ++ b) = credLines a ++ credLines b := by
  induction a with
  | nil => simp [credLines]
  | cons e t ih =>
    cases e with
    | write w d r =>
      simp only [List.cons_append, credLines]
      split <;> simp [ih]
    | deliver _ => simpa [credLines] using ih
    | requeue _ => simpa [credLines] using ih
    | close => simpa [credLines] using ih

/-! ## one generic outer loop (proof device): both `authSSH` and `authTelnet` are instances -/

inductive Act
  | dry
  | connErr (b : Bytes) (q : List Bytes)
  | success (b : Bytes) (q : List Bytes)
  | ask (w : What) (b : Bytes) (q : List Bytes)

structure Cnt where
  u : Nat
  p : Nat
  pp : Nat

def Cnt.get (c : Cnt) : What → Nat
  | .user => c.u
  | .pass => c.p
  | .phrase => c.pp
  | .ret => 0

def Cnt.bump (c : Cnt) : What → Cnt
  | .user => { c with u := c.u + 1 }
  | .pass => { c with p := c.p + 1 }
  | .phrase => { c with pp := c.pp + 1 }
  | .ret => c

def maxOf (cfg : Cfg) : What → Nat
  | .user => cfg.uMax
  | .pass => cfg.pMax
  | .phrase => cfg.ppMax
  | .ret => 0

def loop {σ : Type} (scan : List Bytes → Act) (cfg : Cfg) (react : σ → Bytes → σ × List Bytes) :
    Nat → σ → Cnt → List Bytes → List Ev → Res σ
  | 0, d, _, q, tr => ⟨.stuck, [], q, tr, d⟩
  | n + 1, d, c, q, tr =>
    match scan q with
    | .dry => ⟨.timeout, [], [], tr, d⟩
    | .connErr b q' => ⟨.connection, [], q', tr ++ [.deliver b], d⟩
    | .success b q' => ⟨.ok, b, q', tr ++ [.deliver b], d⟩
    | .ask w b q' =>
      if c.get w + 1 > maxOf cfg w then ⟨.auth, [], q', tr ++ [.deliver b], d⟩
      else
        let r := react d (credOf cfg w)
        loop scan cfg react n r.1 (c.bump w) (q' ++ r.2)
          (tr ++ .deliver b :: credWrites cfg w (credOf cfg w))

def sshAct (P : Pats) (q : List Bytes) : Act :=
  match sshScan P [] q with
  | .dry => .dry
  | .connErr b q' => .connErr b q'
  | .success b q' => .success b q'
  | .askPass b q' => .ask .pass b q'
  | .askPhrase b q' => .ask .phrase b q'

def telAct (P : Pats) (depth : Nat) (q : List Bytes) : Act :=
  match telScan P depth [] [] q with
  | .dry => .dry
  | .success b q' => .success b q'
  | .askUser b q' => .ask .user b q'
  | .askPass b q' => .ask .pass b q'

theorem authSSH_eq_loop {σ : Type} (P : Pats) (cfg : Cfg) (react : σ → Bytes → σ × List Bytes)
    (n : Nat) (d : σ) (u pc ppc : Nat) (q : List Bytes) (tr : List Ev) :
    authSSH P cfg react n d pc ppc q tr = loop (sshAct P) cfg react n d ⟨u, pc, ppc⟩ q tr := by
  induction n generalizing d pc ppc q tr with
  | zero => rfl
  | succ n ih =>
    simp only [authSSH, loop, sshAct]
    cases sshScan P [] q with
    | dry => rfl
    | connErr b q' => rfl
    | success b q' => rfl
    | askPass b q' =>
      simp only [Cnt.get, maxOf, credOf, Cnt.bump]
      split
      · rename_i h; simp only [h, if_true]
      · rename_i h; simp only [h, if_false, ih]
    | askPhrase b q' =>
      simp only [Cnt.get, maxOf, credOf, Cnt.bump]
      split
      · rename_i h; simp only [h, if_true]
      · rename_i h; simp only [h, if_false, ih]

theorem authTelnet_eq_loop {σ : Type} (P : Pats) (cfg : Cfg) (react : σ → Bytes → σ × List Bytes)
    (n : Nat) (d : σ) (uc pc pp : Nat) (q : List Bytes) (tr : List Ev) :
    authTelnet P cfg react n d uc pc q tr =
      loop (telAct P cfg.depth) cfg react n d ⟨uc, pc, pp⟩ q tr := by
  induction n generalizing d uc pc q tr with
  | zero => rfl
  | succ n ih =>
    simp only [authTelnet, loop, telAct]
    cases telScan P cfg.depth [] [] q with
    | dry => rfl
    | success b q' => rfl
    | askUser b q' =>
      simp only [Cnt.get, maxOf, credOf, Cnt.bump]
      split
      · rename_i h; simp only [h, if_true]
      · rename_i h; simp only [h, if_false, ih]
    | askPass b q' =>
      simp only [Cnt.get, maxOf, credOf, Cnt.bump]
      split
      · rename_i h; simp only [h, if_true]
      · rename_i h; simp only [h, if_false, ih]

/-- what a scan must guarantee about the actions it returns -/
structure ScanSound (P : Pats) (scan : List Bytes → Act) : Prop where
  ask : ∀ q w b q', scan q = .ask w b q' → w ≠ .ret ∧ patOf P w b = true
  success : ∀ q b q', scan q = .success b q' → P.promptP b = true

theorem sshAct_sound (P : Pats) : ScanSound P (sshAct P) where
  ask := by
    intro q w b q' h
    unfold sshAct at h
    cases hs : sshScan P [] q <;> rw [hs] at h <;> cases h
    · exact ⟨by simp, sshScan_askPass P q [] _ _ hs⟩
    · exact ⟨by simp, sshScan_askPhrase P q [] _ _ hs⟩
  success := by
    intro q b q' h
    unfold sshAct at h
    cases hs : sshScan P [] q <;> rw [hs] at h <;> cases h
    exact sshScan_success P q [] _ _ hs

theorem telAct_sound (P : Pats) (depth : Nat) : ScanSound P (telAct P depth) where
  ask := by
    intro q w b q' h
    have hf := telScan_facts P depth q [] []
    unfold telAct at h
    cases hs : telScan P depth [] [] q <;> rw [hs] at h hf <;> cases h
    · exact ⟨by simp, hf⟩
    · exact ⟨by simp, hf⟩
  success := by
    intro q b q' h
    have hf := telScan_facts P depth q [] []
    unfold telAct at h
    cases hs : telScan P depth [] [] q <;> rw [hs] at h hf <;> cases h
    exact hf

def isLoginEv : Ev → Bool
  | .deliver _ => true
  | .write _ _ _ => true
  | _ => false

theorem countWrites_block (cfg : Cfg) (w w' : What) (hw : w ≠ .ret) (b x : Bytes) :
    countWrites w' (.deliver b :: credWrites cfg w x) =
      (if w = w' then 1 else 0) + (if w' = .ret then 1 else 0) := by
  cases w <;> cases w' <;> simp_all [countWrites, credWrites]

/-- all trace invariants of the generic loop in one induction: pairing, per-credential write
    counts, only deliver/write events -/
theorem loop_invariants {σ : Type} (P : Pats) (scan : List Bytes → Act) (hs : ScanSound P scan)
    (cfg : Cfg) (react : σ → Bytes → σ × List Bytes) (n : Nat) (d : σ) (c : Cnt) (q : List Bytes)
    (tr : List Ev) (hp : paired P cfg none tr = true) (hl : tr.all isLoginEv = true)
    (hc : ∀ w, w ≠ .ret → c.get w ≤ maxOf cfg w) :
    let r := loop scan cfg react n d c q tr
    paired P cfg none r.trace = true ∧ r.trace.all isLoginEv = true ∧
    (∀ w, w ≠ .ret → countWrites w r.trace + c.get w ≤ countWrites w tr + maxOf cfg w) ∧
    (r.outcome = .ok → P.promptP r.buf = true) := by
  induction n generalizing d c q tr with
  | zero =>
    simp only [loop]
    exact ⟨hp, hl, fun w hw => by have := hc w hw; omega, by simp⟩
  | succ n ih =>
    simp only [loop]
    cases hsc : scan q with
    | dry =>
      dsimp only
      exact ⟨hp, hl, fun w hw => by have := hc w hw; omega, by simp⟩
    | connErr b q' =>
      dsimp only
      refine ⟨paired_append P cfg _ _ _ hp (paired_single_deliver P cfg b), ?_, ?_, by simp⟩
      · simp [hl, isLoginEv]
      · intro w hw
        have := hc w hw
        simp only [countWrites_append, countWrites]
        omega
    | success b q' =>
      dsimp only
      refine ⟨paired_append P cfg _ _ _ hp (paired_single_deliver P cfg b), ?_, ?_, ?_⟩
      · simp [hl, isLoginEv]
      · intro w hw
        have := hc w hw
        simp only [countWrites_append, countWrites]
        omega
      · intro _; exact hs.success q b q' hsc
    | ask w b q' =>
      dsimp only
      obtain ⟨hw, hpat⟩ := hs.ask q w b q' hsc
      by_cases hx : c.get w + 1 > maxOf cfg w
      · simp only [hx, if_true]
        refine ⟨paired_append P cfg _ _ _ hp (paired_single_deliver P cfg b), ?_, ?_, by simp⟩
        · simp [hl, isLoginEv]
        · intro w' hw'
          have := hc w' hw'
          simp only [countWrites_append, countWrites]
          omega
      · simp only [hx, if_false]
        have hp' : paired P cfg none (tr ++ .deliver b :: credWrites cfg w (credOf cfg w)) = true :=
          paired_append P cfg _ _ _ hp (paired_block P cfg w b hw hpat)
        have hl' : (tr ++ .deliver b :: credWrites cfg w (credOf cfg w)).all isLoginEv = true := by
          simp [hl, isLoginEv, credWrites]
        have hc' : ∀ w', w' ≠ .ret → (c.bump w).get w' ≤ maxOf cfg w' := by
          intro w' hw'
          have := hc w' hw'
          cases w <;> cases w' <;> simp_all [Cnt.bump, Cnt.get] <;> omega
        obtain ⟨i1, i2, i3, i4⟩ := ih (react d (credOf cfg w)).1 (c.bump w)
          (q' ++ (react d (credOf cfg w)).2) _ hp' hl' hc'
        refine ⟨i1, i2, ?_, i4⟩
        intro w' hw'
        have h3 := i3 w' hw'
        rw [countWrites_append, countWrites_block cfg w w' hw] at h3
        have : (c.bump w).get w' = c.get w' + (if w = w' then 1 else 0) := by
          cases w <;> cases w' <;> simp_all [Cnt.bump, Cnt.get]
        rw [this] at h3
        simp only [hw', if_false] at h3
        omega

/-- the fuel the login functions supply is enough: the loop never runs out -/
theorem loop_not_stuck {σ : Type} (scan : List Bytes → Act) (cfg : Cfg)
    (react : σ → Bytes → σ × List Bytes) (n : Nat) (d : σ) (c : Cnt) (q : List Bytes)
    (tr : List Ev) (hu : c.u ≤ cfg.uMax) (hp : c.p ≤ cfg.pMax) (hpp : c.pp ≤ cfg.ppMax)
    (hn : (cfg.uMax - c.u) + (cfg.pMax - c.p) + (cfg.ppMax - c.pp) + 1 ≤ n) :
    (loop scan cfg react n d c q tr).outcome ≠ .stuck := by
  induction n generalizing d c q tr with
  | zero => omega
  | succ n ih =>
    simp only [loop]
    cases scan q with
    | dry => simp
    | connErr b q' => simp
    | success b q' => simp
    | ask w b q' =>
      by_cases hx : c.get w + 1 > maxOf cfg w
      · simp [hx]
      · simp only [hx, if_false]
        cases w with
        | user =>
          simp only [Cnt.get, maxOf] at hx
          exact ih _ _ _ _ (by simp [Cnt.bump]; omega) (by simpa [Cnt.bump] using hp)
            (by simpa [Cnt.bump] using hpp) (by simp [Cnt.bump]; omega)
        | pass =>
          simp only [Cnt.get, maxOf] at hx
          exact ih _ _ _ _ (by simpa [Cnt.bump] using hu) (by simp [Cnt.bump]; omega)
            (by simpa [Cnt.bump] using hpp) (by simp [Cnt.bump]; omega)
        | phrase =>
          simp only [Cnt.get, maxOf] at hx
          exact ih _ _ _ _ (by simpa [Cnt.bump] using hu) (by simpa [Cnt.bump] using hp)
            (by simp [Cnt.bump]; omega) (by simp [Cnt.bump]; omega)
        | ret => simp [Cnt.get, maxOf] at hx

end Scrapli.Auth
