import ScrapliModel.Auth
import ScrapliModel.Lemmas.Channel
/-! Helper lemmas for the login model (`ScrapliModel/Auth.lean`). -/
namespace Scrapli.Auth
open Scrapli Scrapli.Chan

/-! ## the scans are `Chan.readUntil` followed by a classification -/

def sshActOf (P : Pats) (b : Bytes) (q : List Bytes) : SshAct :=
  match clsSSH P b with
  | .err => .connErr b q
  | .prompt => .success b q
  | .pass => .askPass b q
  | .phrase => .askPhrase b q
  | _ => .dry

theorem sshScan_eq (P : Pats) (q : List Bytes) (b : Bytes) :
    sshScan P b q =
      match readUntil (sshStop P) q b with
      | none => .dry
      | some (b', q') => sshActOf P b' q' := by
  induction q generalizing b with
  | nil => simp [sshScan, readUntil]
  | cons c q ih =>
    simp only [sshScan, readUntil, sshStop, sshActOf, clsSSH]
    by_cases h1 : P.sshErr (b ++ c) = true
    · simp [h1]
    · by_cases h2 : P.promptP (b ++ c) = true
      · simp [h1, h2]
      · by_cases h3 : P.passP (b ++ c) = true
        · simp [h1, h2, h3]
        · by_cases h4 : P.phraseP (b ++ c) = true
          · simp [h1, h2, h3, h4]
          · simp only [h1, h2, h3, h4, Bool.false_eq_true, if_false]
            rw [ih (b ++ c)]
            simp [sshStop, sshActOf, clsSSH]

def telActOf (P : Pats) (b : Bytes) (q : List Bytes) (cont : TelAct) : TelAct :=
  match clsTel P b with
  | .prompt => .success b q
  | .user => .askUser b q
  | .pass => .askPass b q
  | _ => cont

theorem telScan_eq (P : Pats) (d : Nat) (q : List Bytes) (b rb : Bytes) :
    telScan P d b rb q =
      match readUntil (telStop P d) q rb with
      | none => .dry
      | some (rb', q') => telActOf P (b ++ rb') q' (telScan P d (b ++ rb') [] q') := by
  induction q generalizing rb with
  | nil => simp [telScan, readUntil]
  | cons c q ih =>
    simp only [telScan, readUntil]
    by_cases hs : telStop P d (rb ++ c) = true
    · simp only [hs, if_true, telActOf, clsTel]
      by_cases h1 : P.promptP (b ++ (rb ++ c)) = true
      · simp [h1]
      · by_cases h2 : P.userP (b ++ (rb ++ c)) = true
        · simp [h1, h2]
        · by_cases h3 : P.passP (b ++ (rb ++ c)) = true
          · simp [h1, h2, h3]
          · simp [h1, h2, h3]
    · simp only [hs, Bool.false_eq_true, if_false]
      exact ih (rb ++ c)

/-! ## what an action tells about the buffer it carries -/

theorem sshActOf_cases (P : Pats) (b : Bytes) (q : List Bytes) :
    (sshActOf P b q = .connErr b q ∧ clsSSH P b = .err) ∨
    (sshActOf P b q = .success b q ∧ clsSSH P b = .prompt) ∨
    (sshActOf P b q = .askPass b q ∧ clsSSH P b = .pass) ∨
    (sshActOf P b q = .askPhrase b q ∧ clsSSH P b = .phrase) ∨
    (sshActOf P b q = .dry ∧ (clsSSH P b = .quiet ∨ clsSSH P b = .user)) := by
  unfold sshActOf
  cases h : clsSSH P b <;> simp

theorem clsSSH_pass (P : Pats) (b : Bytes) (h : clsSSH P b = .pass) : P.passP b = true := by
  unfold clsSSH at h
  by_cases h1 : P.sshErr b = true
  · simp [h1] at h
  · by_cases h2 : P.promptP b = true
    · simp [h1, h2] at h
    · by_cases h3 : P.passP b = true
      · exact h3
      · by_cases h4 : P.phraseP b = true <;> simp [h1, h2, h3, h4] at h

theorem clsSSH_phrase (P : Pats) (b : Bytes) (h : clsSSH P b = .phrase) : P.phraseP b = true := by
  unfold clsSSH at h
  by_cases h1 : P.sshErr b = true
  · simp [h1] at h
  · by_cases h2 : P.promptP b = true
    · simp [h1, h2] at h
    · by_cases h3 : P.passP b = true
      · simp [h1, h2, h3] at h
      · by_cases h4 : P.phraseP b = true
        · exact h4
        · simp [h1, h2, h3, h4] at h

theorem clsSSH_prompt (P : Pats) (b : Bytes) (h : clsSSH P b = .prompt) : P.promptP b = true := by
  unfold clsSSH at h
  by_cases h1 : P.sshErr b = true
  · simp [h1] at h
  · by_cases h2 : P.promptP b = true
    · exact h2
    · by_cases h3 : P.passP b = true
      · simp [h1, h2, h3] at h
      · by_cases h4 : P.phraseP b = true <;> simp [h1, h2, h3, h4] at h

theorem clsSSH_ne_user (P : Pats) (b : Bytes) : clsSSH P b ≠ .user := by
  unfold clsSSH
  by_cases h1 : P.sshErr b = true
  · simp [h1]
  · by_cases h2 : P.promptP b = true
    · simp [h1, h2]
    · by_cases h3 : P.passP b = true
      · simp [h1, h2, h3]
      · by_cases h4 : P.phraseP b = true <;> simp [h1, h2, h3, h4]

theorem clsTel_prompt (P : Pats) (b : Bytes) (h : clsTel P b = .prompt) : P.promptP b = true := by
  unfold clsTel at h
  by_cases h1 : P.promptP b = true
  · exact h1
  · by_cases h2 : P.userP b = true
    · simp [h1, h2] at h
    · by_cases h3 : P.passP b = true <;> simp [h1, h2, h3] at h

theorem clsTel_user (P : Pats) (b : Bytes) (h : clsTel P b = .user) : P.userP b = true := by
  unfold clsTel at h
  by_cases h1 : P.promptP b = true
  · simp [h1] at h
  · by_cases h2 : P.userP b = true
    · exact h2
    · by_cases h3 : P.passP b = true <;> simp [h1, h2, h3] at h

theorem clsTel_pass (P : Pats) (b : Bytes) (h : clsTel P b = .pass) : P.passP b = true := by
  unfold clsTel at h
  by_cases h1 : P.promptP b = true
  · simp [h1] at h
  · by_cases h2 : P.userP b = true
    · simp [h1, h2] at h
    · by_cases h3 : P.passP b = true
      · exact h3
      · simp [h1, h2, h3] at h

/-- direct facts about `sshScan` results (any queue, any start buffer) -/
theorem sshScan_askPass (P : Pats) (q : List Bytes) (b b' : Bytes) (q' : List Bytes)
    (h : sshScan P b q = .askPass b' q') : P.passP b' = true := by
  rw [sshScan_eq] at h
  split at h
  · cases h
  · rename_i b1 q1 _
    rcases sshActOf_cases P b1 q1 with ⟨e, _⟩ | ⟨e, _⟩ | ⟨e, c⟩ | ⟨e, _⟩ | ⟨e, _⟩ <;> rw [e] at h <;>
      cases h
    exact clsSSH_pass P _ c

theorem sshScan_askPhrase (P : Pats) (q : List Bytes) (b b' : Bytes) (q' : List Bytes)
    (h : sshScan P b q = .askPhrase b' q') : P.phraseP b' = true := by
  rw [sshScan_eq] at h
  split at h
  · cases h
  · rename_i b1 q1 _
    rcases sshActOf_cases P b1 q1 with ⟨e, _⟩ | ⟨e, _⟩ | ⟨e, _⟩ | ⟨e, c⟩ | ⟨e, _⟩ <;> rw [e] at h <;>
      cases h
    exact clsSSH_phrase P _ c

theorem sshScan_success (P : Pats) (q : List Bytes) (b b' : Bytes) (q' : List Bytes)
    (h : sshScan P b q = .success b' q') : P.promptP b' = true := by
  rw [sshScan_eq] at h
  split at h
  · cases h
  · rename_i b1 q1 _
    rcases sshActOf_cases P b1 q1 with ⟨e, _⟩ | ⟨e, c⟩ | ⟨e, _⟩ | ⟨e, _⟩ | ⟨e, _⟩ <;> rw [e] at h <;>
      cases h
    exact clsSSH_prompt P _ c

/-- the telnet scan: by induction on the queue (the continuation case recurses) -/
theorem telScan_facts (P : Pats) (d : Nat) (q : List Bytes) (b rb : Bytes) :
    match telScan P d b rb q with
    | .dry => True
    | .success b' _ => P.promptP b' = true
    | .askUser b' _ => P.userP b' = true
    | .askPass b' _ => P.passP b' = true := by
  induction q generalizing b rb with
  | nil => simp [telScan]
  | cons c q ih =>
    simp only [telScan]
    by_cases hs : telStop P d (rb ++ c) = true
    · simp only [hs, if_true]
      by_cases h1 : P.promptP (b ++ (rb ++ c)) = true
      · simp [h1]
      · by_cases h2 : P.userP (b ++ (rb ++ c)) = true
        · simp [h1, h2]
        · by_cases h3 : P.passP (b ++ (rb ++ c)) = true
          · simp [h1, h2, h3]
          · simp only [h1, h2, h3, Bool.false_eq_true, if_false]
            exact ih _ _
    · simp only [hs, Bool.false_eq_true, if_false]
      exact ih _ _

/-! ## trace bookkeeping -/

theorem paired_append (P : Pats) (cfg : Cfg) (t ext : List Ev) (p : Option Ev)
    (h : paired P cfg p t = true) (hext : ∀ p', paired P cfg p' ext = true) :
    paired P cfg p (t ++ ext) = true := by
  induction t generalizing p with
  | nil => simpa using hext p
  | cons e t ih =>
    cases e with
    | write w d r =>
      simp only [List.cons_append, paired, Bool.and_eq_true] at h ⊢
      exact ⟨h.1, ih _ h.2⟩
    | deliver b => simp only [List.cons_append, paired] at h ⊢; exact ih _ h
    | requeue b => simp only [List.cons_append, paired] at h ⊢; exact ih _ h
    | close => simp only [List.cons_append, paired] at h ⊢; exact ih _ h

theorem paired_block (P : Pats) (cfg : Cfg) (w : What) (b : Bytes) (hw : w ≠ .ret)
    (hp : patOf P w b = true) (p' : Option Ev) :
    paired P cfg p' (.deliver b :: credWrites cfg w (credOf cfg w)) = true := by
  cases w <;> simp_all [paired, credWrites, credOf]

theorem paired_single_deliver (P : Pats) (cfg : Cfg) (b : Bytes) (p' : Option Ev) :
    paired P cfg p' [.deliver b] = true := by simp [paired]

theorem countWrites_append (w : What) (a b : List Ev) :
    countWrites w (a ++ b) = countWrites w a + countWrites w b := by
  induction a with
  | nil => simp [countWrites]
  | cons e t ih =>
    cases e <;> simp [countWrites, ih]; omega

theorem credLines_append (a b : List Ev) : credLines (a ++ b) = credLines a ++ credLines b := by
  induction a with
  | nil => simp [credLines]
  | cons e t ih =>
    cases e with
    | write w d r =>
      simp only [List.cons_append, credLines]
      split <;> simp [ih]
    | deliver _ => simpa [credLines] using ih
    | requeue _ => simpa [credLines] using ih
    | close => simpa [credLines] using ih

/-! ## one generic outer loop (proof device): both `authSSH` and `authTelnet` are instances -/

inductive Act
  | dry
  | connErr (b : Bytes) (q : List Bytes)
  | success (b : Bytes) (q : List Bytes)
  | ask (w : What) (b : Bytes) (q : List Bytes)

structure Cnt where
  u : Nat
  p : Nat
  pp : Nat

def Cnt.get (c : Cnt) : What → Nat
  | .user => c.u
  | .pass => c.p
  | .phrase => c.pp
  | .ret => 0

def Cnt.bump (c : Cnt) : What → Cnt
  | .user => { c with u := c.u + 1 }
  | .pass => { c with p := c.p + 1 }
  | .phrase => { c with pp := c.pp + 1 }
  | .ret => c

def maxOf (cfg : Cfg) : What → Nat
  | .user => cfg.uMax
  | .pass => cfg.pMax
  | .phrase => cfg.ppMax
  | .ret => 0

def loop {σ : Type} (scan : List Bytes → Act) (cfg : Cfg) (react : σ → Bytes → σ × List Bytes) :
    Nat → σ → Cnt → List Bytes → List Ev → Res σ
  | 0, d, _, q, tr => ⟨.stuck, [], q, tr, d⟩
  | n + 1, d, c, q, tr =>
    match scan q with
    | .dry => ⟨.timeout, [], [], tr, d⟩
    | .connErr b q' => ⟨.connection, [], q', tr ++ [.deliver b], d⟩
    | .success b q' => ⟨.ok, b, q', tr ++ [.deliver b], d⟩
    | .ask w b q' =>
      if c.get w + 1 > maxOf cfg w then ⟨.auth, [], q', tr ++ [.deliver b], d⟩
      else
        let r := react d (credOf cfg w)
        loop scan cfg react n r.1 (c.bump w) (q' ++ r.2)
          (tr ++ .deliver b :: credWrites cfg w (credOf cfg w))

def sshAct (P : Pats) (q : List Bytes) : Act :=
  match sshScan P [] q with
  | .dry => .dry
  | .connErr b q' => .connErr b q'
  | .success b q' => .success b q'
  | .askPass b q' => .ask .pass b q'
  | .askPhrase b q' => .ask .phrase b q'

def telAct (P : Pats) (depth : Nat) (q : List Bytes) : Act :=
  match telScan P depth [] [] q with
  | .dry => .dry
  | .success b q' => .success b q'
  | .askUser b q' => .ask .user b q'
  | .askPass b q' => .ask .pass b q'

theorem authSSH_eq_loop {σ : Type} (P : Pats) (cfg : Cfg) (react : σ → Bytes → σ × List Bytes)
    (n : Nat) (d : σ) (u pc ppc : Nat) (q : List Bytes) (tr : List Ev) :
    authSSH P cfg react n d pc ppc q tr = loop (sshAct P) cfg react n d ⟨u, pc, ppc⟩ q tr := by
  induction n generalizing d pc ppc q tr with
  | zero => rfl
  | succ n ih =>
    simp only [authSSH, loop, sshAct]
    cases sshScan P [] q with
    | dry => rfl
    | connErr b q' => rfl
    | success b q' => rfl
    | askPass b q' =>
      simp only [Cnt.get, maxOf, credOf, Cnt.bump]
      split
      · rename_i h; simp only [h, if_true]
      · rename_i h; simp only [h, if_false, ih]
    | askPhrase b q' =>
      simp only [Cnt.get, maxOf, credOf, Cnt.bump]
      split
      · rename_i h; simp only [h, if_true]
      · rename_i h; simp only [h, if_false, ih]

theorem authTelnet_eq_loop {σ : Type} (P : Pats) (cfg : Cfg) (react : σ → Bytes → σ × List Bytes)
    (n : Nat) (d : σ) (uc pc pp : Nat) (q : List Bytes) (tr : List Ev) :
    authTelnet P cfg react n d uc pc q tr =
      loop (telAct P cfg.depth) cfg react n d ⟨uc, pc, pp⟩ q tr := by
  induction n generalizing d uc pc q tr with
  | zero => rfl
  | succ n ih =>
    simp only [authTelnet, loop, telAct]
    cases telScan P cfg.depth [] [] q with
    | dry => rfl
    | success b q' => rfl
    | askUser b q' =>
      simp only [Cnt.get, maxOf, credOf, Cnt.bump]
      split
      · rename_i h; simp only [h, if_true]
      · rename_i h; simp only [h, if_false, ih]
    | askPass b q' =>
      simp only [Cnt.get, maxOf, credOf, Cnt.bump]
      split
      · rename_i h; simp only [h, if_true]
      · rename_i h; simp only [h, if_false, ih]

/-- what a scan must guarantee about the actions it returns -/
structure ScanSound (P : Pats) (scan : List Bytes → Act) : Prop where
  ask : ∀ q w b q', scan q = .ask w b q' → w ≠ .ret ∧ patOf P w b = true
  success : ∀ q b q', scan q = .success b q' → P.promptP b = true

theorem sshAct_sound (P : Pats) : ScanSound P (sshAct P) where
  ask := by
    intro q w b q' h
    unfold sshAct at h
    cases hs : sshScan P [] q <;> rw [hs] at h <;> cases h
    · exact ⟨by simp, sshScan_askPass P q [] _ _ hs⟩
    · exact ⟨by simp, sshScan_askPhrase P q [] _ _ hs⟩
  success := by
    intro q b q' h
    unfold sshAct at h
    cases hs : sshScan P [] q <;> rw [hs] at h <;> cases h
    exact sshScan_success P q [] _ _ hs

theorem telAct_sound (P : Pats) (depth : Nat) : ScanSound P (telAct P depth) where
  ask := by
    intro q w b q' h
    have hf := telScan_facts P depth q [] []
    unfold telAct at h
    cases hs : telScan P depth [] [] q <;> rw [hs] at h hf <;> cases h
    · exact ⟨by simp, hf⟩
    · exact ⟨by simp, hf⟩
  success := by
    intro q b q' h
    have hf := telScan_facts P depth q [] []
    unfold telAct at h
    cases hs : telScan P depth [] [] q <;> rw [hs] at h hf <;> cases h
    exact hf

def isLoginEv : Ev → Bool
  | .deliver _ => true
  | .write _ _ _ => true
  | _ => false

theorem countWrites_block (cfg : Cfg) (w w' : What) (hw : w ≠ .ret) (b x : Bytes) :
    countWrites w' (.deliver b :: credWrites cfg w x) =
      (if w = w' then 1 else 0) + (if w' = .ret then 1 else 0) := by
  cases w <;> cases w' <;> simp_all [countWrites, credWrites]

/-- all trace invariants of the generic loop in one induction: pairing, per-credential write
    counts, only deliver/write events -/
theorem loop_invariants {σ : Type} (P : Pats) (scan : List Bytes → Act) (hs : ScanSound P scan)
    (cfg : Cfg) (react : σ → Bytes → σ × List Bytes) (n : Nat) (d : σ) (c : Cnt) (q : List Bytes)
    (tr : List Ev) (hp : paired P cfg none tr = true) (hl : tr.all isLoginEv = true)
    (hc : ∀ w, w ≠ .ret → c.get w ≤ maxOf cfg w) :
    let r := loop scan cfg react n d c q tr
    paired P cfg none r.trace = true ∧ r.trace.all isLoginEv = true ∧
    (∀ w, w ≠ .ret → countWrites w r.trace + c.get w ≤ countWrites w tr + maxOf cfg w) ∧
    (r.outcome = .ok → P.promptP r.buf = true) := by
  induction n generalizing d c q tr with
  | zero =>
    simp only [loop]
    exact ⟨hp, hl, fun w hw => by have := hc w hw; omega, by simp⟩
  | succ n ih =>
    simp only [loop]
    cases hsc : scan q with
    | dry =>
      dsimp only
      exact ⟨hp, hl, fun w hw => by have := hc w hw; omega, by simp⟩
    | connErr b q' =>
      dsimp only
      refine ⟨paired_append P cfg _ _ _ hp (paired_single_deliver P cfg b), ?_, ?_, by simp⟩
      · simp [hl, isLoginEv]
      · intro w hw
        have := hc w hw
        simp only [countWrites_append, countWrites]
        omega
    | success b q' =>
      dsimp only
      refine ⟨paired_append P cfg _ _ _ hp (paired_single_deliver P cfg b), ?_, ?_, ?_⟩
      · simp [hl, isLoginEv]
      · intro w hw
        have := hc w hw
        simp only [countWrites_append, countWrites]
        omega
      · intro _; exact hs.success q b q' hsc
    | ask w b q' =>
      dsimp only
      obtain ⟨hw, hpat⟩ := hs.ask q w b q' hsc
      by_cases hx : c.get w + 1 > maxOf cfg w
      · simp only [hx, if_true]
        refine ⟨paired_append P cfg _ _ _ hp (paired_single_deliver P cfg b), ?_, ?_, by simp⟩
        · simp [hl, isLoginEv]
        · intro w' hw'
          have := hc w' hw'
          simp only [countWrites_append, countWrites]
          omega
      · simp only [hx, if_false]
        have hp' : paired P cfg none (tr ++ .deliver b :: credWrites cfg w (credOf cfg w)) = true :=
          paired_append P cfg _ _ _ hp (paired_block P cfg w b hw hpat)
        have hl' : (tr ++ .deliver b :: credWrites cfg w (credOf cfg w)).all isLoginEv = true := by
          simp [hl, isLoginEv, credWrites]
        have hc' : ∀ w', w' ≠ .ret → (c.bump w).get w' ≤ maxOf cfg w' := by
          intro w' hw'
          have := hc w' hw'
          cases w <;> cases w' <;> simp_all [Cnt.bump, Cnt.get] <;> omega
        obtain ⟨i1, i2, i3, i4⟩ := ih (react d (credOf cfg w)).1 (c.bump w)
          (q' ++ (react d (credOf cfg w)).2) _ hp' hl' hc'
        refine ⟨i1, i2, ?_, i4⟩
        intro w' hw'
        have h3 := i3 w' hw'
        rw [countWrites_append, countWrites_block cfg w w' hw] at h3
        have : (c.bump w).get w' = c.get w' + (if w = w' then 1 else 0) := by
          cases w <;> cases w' <;> simp_all [Cnt.bump, Cnt.get]
        rw [this] at h3
        simp only [hw', if_false] at h3
        omega

/-- the fuel the login functions supply is enough: the loop never runs out -/
theorem loop_not_stuck {σ : Type} (scan : List Bytes → Act) (cfg : Cfg)
    (react : σ → Bytes → σ × List Bytes) (n : Nat) (d : σ) (c : Cnt) (q : List Bytes)
    (tr : List Ev) (hu : c.u ≤ cfg.uMax) (hp : c.p ≤ cfg.pMax) (hpp : c.pp ≤ cfg.ppMax)
    (hn : (cfg.uMax - c.u) + (cfg.pMax - c.p) + (cfg.ppMax - c.pp) + 1 ≤ n) :
    (loop scan cfg react n d c q tr).outcome ≠ .stuck := by
  induction n generalizing d c q tr with
  | zero => omega
  | succ n ih =>
    simp only [loop]
    cases scan q with
    | dry => simp
    | connErr b q' => simp
    | success b q' => simp
    | ask w b q' =>
      by_cases hx : c.get w + 1 > maxOf cfg w
      · simp [hx]
      · simp only [hx, if_false]
        cases w with
        | user =>
          simp only [Cnt.get, maxOf] at hx
          exact ih _ _ _ _ (by simp [Cnt.bump]; omega) (by simpa [Cnt.bump] using hp)
            (by simpa [Cnt.bump] using hpp) (by simp [Cnt.bump]; omega)
        | pass =>
          simp only [Cnt.get, maxOf] at hx
          exact ih _ _ _ _ (by simpa [Cnt.bump] using hu) (by simp [Cnt.bump]; omega)
            (by simpa [Cnt.bump] using hpp) (by simp [Cnt.bump]; omega)
        | phrase =>
          simp only [Cnt.get, maxOf] at hx
          exact ih _ _ _ _ (by simpa [Cnt.bump] using hu) (by simpa [Cnt.bump] using hp)
            (by simp [Cnt.bump]; omega) (by simp [Cnt.bump]; omega)
        | ret => simp [Cnt.get, maxOf] at hx

/-! ## scripted dialogues -/

def actOfKind : Kind → Bytes → List Bytes → Act
  | .err, b, q => .connErr b q
  | .prompt, b, q => .success b q
  | .user, b, q => .ask .user b q
  | .pass, b, q => .ask .pass b q
  | .phrase, b, q => .ask .phrase b q
  | .quiet, _, _ => .dry

/-- the scan is "read until the stop test fires, then act on the classification" (whenever the
    classification is not `quiet`) -/
structure ScanReads (stop : Bytes → Bool) (cls : Bytes → Kind) (scan : List Bytes → Act) : Prop where
  dry : ∀ q, readUntil stop q [] = none → scan q = .dry
  act : ∀ q b q', readUntil stop q [] = some (b, q') → cls b ≠ .quiet →
    scan q = actOfKind (cls b) b q'

theorem sshAct_reads (P : Pats) : ScanReads (sshStop P) (clsSSH P) (sshAct P) where
  dry := by
    intro q h
    simp [sshAct, sshScan_eq, h]
  act := by
    intro q b q' h hq
    simp only [sshAct, sshScan_eq, h, sshActOf]
    cases hk : clsSSH P b <;> simp_all [actOfKind, clsSSH_ne_user]

theorem clsTel_range (P : Pats) (b : Bytes) :
    clsTel P b = .prompt ∨ clsTel P b = .user ∨ clsTel P b = .pass ∨ clsTel P b = .quiet := by
  unfold clsTel
  by_cases h1 : P.promptP b = true
  · simp [h1]
  · by_cases h2 : P.userP b = true
    · simp [h1, h2]
    · by_cases h3 : P.passP b = true <;> simp [h1, h2, h3]

theorem telAct_reads (P : Pats) (depth : Nat) :
    ScanReads (telStop P depth) (clsTel P) (telAct P depth) where
  dry := by
    intro q h
    unfold telAct
    rw [telScan_eq]
    simp [h]
  act := by
    intro q b q' h hq
    unfold telAct
    rw [telScan_eq]
    simp only [h, telActOf, List.nil_append]
    rcases clsTel_range P b with hk | hk | hk | hk
    · simp [hk, actOfKind]
    · simp [hk, actOfKind]
    · simp [hk, actOfKind]
    · exact absurd hk hq

theorem credLines_block (cfg : Cfg) (w : What) (hw : w ≠ .ret) (b x : Bytes) :
    credLines (.deliver b :: credWrites cfg w x) = [(w, x)] := by
  cases w <;> simp_all [credLines, credWrites]

theorem loop_script (stop : Bytes → Bool) (cls : Bytes → Kind) (scan : List Bytes → Act)
    (hr : ScanReads stop cls scan) (cfg : Cfg) (n : Nat) (rest : List Stage) (c : Cnt)
    (q : List Bytes) (k : Kind) (tr : List Ev)
    (hwf : wf stop cls rest q k = true)
    (hu : c.u ≤ cfg.uMax) (hp : c.p ≤ cfg.pMax) (hpp : c.pp ≤ cfg.ppMax)
    (hn : (cfg.uMax - c.u) + (cfg.pMax - c.p) + (cfg.ppMax - c.pp) + 1 ≤ n) :
    let r := loop scan cfg scriptReact n (rest.map (·.chunks)) c q tr
    r.outcome = spec cfg c.u c.p c.pp k (rest.map (·.kind)) ∧
    credLines r.trace = credLines tr ++ specLines cfg c.u c.p c.pp k (rest.map (·.kind)) := by
  induction n generalizing rest c q k tr with
  | zero => omega
  | succ n ih =>
    rw [wf] at hwf
    cases hru : readUntil stop q [] with
    | none =>
      simp only [hru, beq_iff_eq] at hwf
      subst hwf
      simp [loop, hr.dry q hru, spec, specLines]
    | some bq =>
      obtain ⟨b, q'⟩ := bq
      simp only [hru, Bool.and_eq_true, beq_iff_eq, bne_iff_ne, ne_eq] at hwf
      obtain ⟨⟨hk, hnq⟩, hrest⟩ := hwf
      subst hk
      have hscan := hr.act q b q' hru hnq
      cases hk : cls b with
      | quiet => exact absurd hk hnq
      | err =>
        simp [loop, hscan, hk, actOfKind, spec, specLines, credLines_append, credLines]
      | prompt =>
        simp [loop, hscan, hk, actOfKind, spec, specLines, credLines_append, credLines]
      | user =>
        simp only [hk, Kind.isAsk, if_true] at hrest
        simp only [loop, hscan, hk, actOfKind, Cnt.get, maxOf]
        cases rest with
        | nil => simp at hrest
        | cons s rest' =>
          simp only at hrest
          simp only [List.map_cons, spec, specLines]
          by_cases hx : c.u + 1 > cfg.uMax
          · simp [hx, credLines_append, credLines]
          · simp only [hx, if_false]
            have := ih rest' (c.bump .user) (q' ++ s.chunks) s.kind
              (tr ++ .deliver b :: credWrites cfg .user (credOf cfg .user)) hrest
              (by simp [Cnt.bump]; omega) (by simpa [Cnt.bump] using hp)
              (by simpa [Cnt.bump] using hpp) (by simp [Cnt.bump]; omega)
            simp only [scriptReact, Cnt.bump, credOf] at this ⊢
            refine ⟨this.1, ?_⟩
            rw [this.2, credLines_append, credLines_block cfg .user (by simp)]
            simp
      | pass =>
        simp only [hk, Kind.isAsk, if_true] at hrest
        simp only [loop, hscan, hk, actOfKind, Cnt.get, maxOf]
        cases rest with
        | nil => simp at hrest
        | cons s rest' =>
          simp only at hrest
          simp only [List.map_cons, spec, specLines]
          by_cases hx : c.p + 1 > cfg.pMax
          · simp [hx, credLines_append, credLines]
          · simp only [hx, if_false]
            have := ih rest' (c.bump .pass) (q' ++ s.chunks) s.kind
              (tr ++ .deliver b :: credWrites cfg .pass (credOf cfg .pass)) hrest
              (by simpa [Cnt.bump] using hu) (by simp [Cnt.bump]; omega)
              (by simpa [Cnt.bump] using hpp) (by simp [Cnt.bump]; omega)
            simp only [scriptReact, Cnt.bump, credOf] at this ⊢
            refine ⟨this.1, ?_⟩
            rw [this.2, credLines_append, credLines_block cfg .pass (by simp)]
            simp
      | phrase =>
        simp only [hk, Kind.isAsk, if_true] at hrest
        simp only [loop, hscan, hk, actOfKind, Cnt.get, maxOf]
        cases rest with
        | nil => simp at hrest
        | cons s rest' =>
          simp only at hrest
          simp only [List.map_cons, spec, specLines]
          by_cases hx : c.pp + 1 > cfg.ppMax
          · simp [hx, credLines_append, credLines]
          · simp only [hx, if_false]
            have := ih rest' (c.bump .phrase) (q' ++ s.chunks) s.kind
              (tr ++ .deliver b :: credWrites cfg .phrase (credOf cfg .phrase)) hrest
              (by simpa [Cnt.bump] using hu) (by simpa [Cnt.bump] using hp)
              (by simp [Cnt.bump]; omega) (by simp [Cnt.bump]; omega)
            simp only [scriptReact, Cnt.bump, credOf] at this ⊢
            refine ⟨this.1, ?_⟩
            rw [this.2, credLines_append, credLines_block cfg .phrase (by simp)]
            simp

/-! ## segmentation insensitivity of one read (text-level statement) -/

/-- Let `S = acc ++ cs.flatten` be the text the loop will have read, `k0` a position in it.
If the test holds of every prefix of `S` of length ≥ `k0` (the prompt is complete at `k0` and what
follows does not spoil it) and of no read boundary before `k0`, the read stops at the first read
boundary at or after `k0`, whatever the segmentation `cs` and whatever follows in the queue. -/
theorem readUntil_stops (P : Bytes → Bool) (cs rest : List Bytes) (acc : Bytes) (k0 : Nat)
    (hk : acc.length < k0) (hk' : k0 ≤ (acc ++ cs.flatten).length)
    (hearly : ∀ i, 1 ≤ i → i ≤ cs.length → (acc ++ (cs.take i).flatten).length < k0 →
      P (acc ++ (cs.take i).flatten) = false)
    (hlate : ∀ k, k0 ≤ k → k ≤ (acc ++ cs.flatten).length →
      P ((acc ++ cs.flatten).take k) = true) :
    ∃ i, 1 ≤ i ∧ i ≤ cs.length ∧ k0 ≤ (acc ++ (cs.take i).flatten).length ∧
      readUntil P (cs ++ rest) acc = some (acc ++ (cs.take i).flatten, cs.drop i ++ rest) := by
  induction cs generalizing acc with
  | nil => simp at hk'; omega
  | cons c cs ih =>
    simp only [List.cons_append, readUntil]
    by_cases hlen : k0 ≤ (acc ++ c).length
    · have hP : P (acc ++ c) = true := by
        have := hlate (acc ++ c).length hlen (by simp [List.length_append])
        have ht : (acc ++ (c :: cs).flatten).take (acc ++ c).length = acc ++ c := by
          simp only [List.flatten_cons, ← List.append_assoc]
          exact List.take_left' rfl
        rwa [ht] at this
      refine ⟨1, by omega, by simp, by simpa using hlen, ?_⟩
      simp [hP]
    · have hP : P (acc ++ c) = false := by
        have := hearly 1 (by omega) (by simp) (by simpa using Nat.lt_of_not_le hlen)
        simpa using this
      have e : acc ++ (c :: cs).flatten = (acc ++ c) ++ cs.flatten := by simp
      obtain ⟨i, hi1, hi2, hi3, hi4⟩ := ih (acc ++ c) (Nat.lt_of_not_le hlen) (by rw [← e]; exact hk')
        (by
          intro i hi1 hi2 hi3
          have := hearly (i + 1) (by omega) (by simp; omega) (by simpa [List.append_assoc] using hi3)
          simpa [List.append_assoc] using this)
        (by
          intro k hk1 hk2
          rw [← e]
          exact hlate k hk1 (by rw [e]; exact hk2))
      refine ⟨i + 1, by omega, by simp; omega, by simpa [List.append_assoc] using hi3, ?_⟩
      simp only [hP, Bool.false_eq_true, if_false, hi4]
      simp [List.append_assoc]

/-! ## the specification in words -/

/-- the specification on a list of emissions -/
def specL (cfg : Cfg) (u p pp : Nat) : List Kind → Outcome
  | [] => .timeout
  | k :: r => spec cfg u p pp k r

theorem specL_cons (cfg : Cfg) (u p pp : Nat) (k : Kind) (r : List Kind) :
    specL cfg u p pp (k :: r) = spec cfg u p pp k r := rfl

theorem spec_user (cfg : Cfg) (u p pp : Nat) (rest : List Kind) :
    spec cfg u p pp .user rest = if u + 1 > cfg.uMax then .auth else specL cfg (u + 1) p pp rest := by
  cases rest <;> simp [spec, specL]

theorem spec_pass (cfg : Cfg) (u p pp : Nat) (rest : List Kind) :
    spec cfg u p pp .pass rest = if p + 1 > cfg.pMax then .auth else specL cfg u (p + 1) pp rest := by
  cases rest <;> simp [spec, specL]

theorem spec_phrase (cfg : Cfg) (u p pp : Nat) (rest : List Kind) :
    spec cfg u p pp .phrase rest =
      if pp + 1 > cfg.ppMax then .auth else specL cfg u p (pp + 1) rest := by
  cases rest <;> simp [spec, specL]

/-- credential prompts that stay within their bounds are skipped, counting them -/
theorem specL_asks (cfg : Cfg) (asks l : List Kind) (u p pp : Nat)
    (hall : ∀ a ∈ asks, a.isAsk = true)
    (hu : u + asks.count .user ≤ cfg.uMax) (hp : p + asks.count .pass ≤ cfg.pMax)
    (hpp : pp + asks.count .phrase ≤ cfg.ppMax) :
    specL cfg u p pp (asks ++ l) =
      specL cfg (u + asks.count .user) (p + asks.count .pass) (pp + asks.count .phrase) l := by
  induction asks generalizing u p pp with
  | nil => simp
  | cons a asks ih =>
    have ha := hall a (by simp)
    have hall' : ∀ x ∈ asks, x.isAsk = true := fun x hx => hall x (by simp [hx])
    cases a with
    | quiet => simp [Kind.isAsk] at ha
    | err => simp [Kind.isAsk] at ha
    | prompt => simp [Kind.isAsk] at ha
    | user =>
      have c1 : (Kind.user :: asks).count .user = asks.count .user + 1 := by simp
      have c2 : (Kind.user :: asks).count .pass = asks.count .pass := by simp
      have c3 : (Kind.user :: asks).count .phrase = asks.count .phrase := by simp
      simp only [c1, c2, c3] at hu hp hpp ⊢
      simp only [List.cons_append, specL_cons, spec_user]
      have : ¬ u + 1 > cfg.uMax := by omega
      simp only [this, if_false]
      rw [ih (u + 1) p pp hall' (by omega) (by omega) (by omega)]
      simp [Nat.add_assoc, Nat.add_comm 1]
    | pass =>
      have c1 : (Kind.pass :: asks).count .pass = asks.count .pass + 1 := by simp
      have c2 : (Kind.pass :: asks).count .user = asks.count .user := by simp
      have c3 : (Kind.pass :: asks).count .phrase = asks.count .phrase := by simp
      simp only [c1, c2, c3] at hu hp hpp ⊢
      simp only [List.cons_append, specL_cons, spec_pass]
      have : ¬ p + 1 > cfg.pMax := by omega
      simp only [this, if_false]
      rw [ih u (p + 1) pp hall' (by omega) (by omega) (by omega)]
      simp [Nat.add_assoc, Nat.add_comm 1]
    | phrase =>
      have c1 : (Kind.phrase :: asks).count .phrase = asks.count .phrase + 1 := by simp
      have c2 : (Kind.phrase :: asks).count .user = asks.count .user := by simp
      have c3 : (Kind.phrase :: asks).count .pass = asks.count .pass := by simp
      simp only [c1, c2, c3] at hu hp hpp ⊢
      simp only [List.cons_append, specL_cons, spec_phrase]
      have : ¬ pp + 1 > cfg.ppMax := by omega
      simp only [this, if_false]
      rw [ih u p (pp + 1) hall' (by omega) (by omega) (by omega)]
      simp [Nat.add_assoc, Nat.add_comm 1]

/-- success, in words: the dialogue is a run of credential prompts, each credential asked for at
    most its maximum number of times, followed by a shell prompt -/
theorem specL_ok_iff (cfg : Cfg) (l : List Kind) (u p pp : Nat)
    (hu0 : u ≤ cfg.uMax) (hp0 : p ≤ cfg.pMax) (hpp0 : pp ≤ cfg.ppMax) :
    specL cfg u p pp l = .ok ↔
      ∃ asks tail, l = asks ++ .prompt :: tail ∧ (∀ a ∈ asks, a.isAsk = true) ∧
        u + asks.count .user ≤ cfg.uMax ∧ p + asks.count .pass ≤ cfg.pMax ∧
        pp + asks.count .phrase ≤ cfg.ppMax := by
  constructor
  · intro h
    induction l generalizing u p pp with
    | nil => simp [specL] at h
    | cons k r ih =>
      cases k with
      | quiet => simp [specL, spec] at h
      | err => simp [specL, spec] at h
      | prompt => exact ⟨[], r, by simp, by simp, by simpa using hu0, by simpa using hp0, by simpa using hpp0⟩
      | user =>
        simp only [specL_cons, spec_user] at h
        by_cases hx : u + 1 > cfg.uMax
        · simp [hx] at h
        · simp only [hx, if_false] at h
          obtain ⟨asks, tail, e, ha, h1, h2, h3⟩ := ih (u + 1) p pp (by omega) hp0 hpp0 h
          refine ⟨.user :: asks, tail, by simp [e], ?_, ?_, ?_, ?_⟩
          · intro a ha'
            simp only [List.mem_cons] at ha'
            rcases ha' with rfl | ha'
            · rfl
            · exact ha a ha'
          · simp only [List.count_cons, beq_self_eq_true, if_true]; omega
          · simpa using h2
          · simpa using h3
      | pass =>
        simp only [specL_cons, spec_pass] at h
        by_cases hx : p + 1 > cfg.pMax
        · simp [hx] at h
        · simp only [hx, if_false] at h
          obtain ⟨asks, tail, e, ha, h1, h2, h3⟩ := ih u (p + 1) pp hu0 (by omega) hpp0 h
          refine ⟨.pass :: asks, tail, by simp [e], ?_, ?_, ?_, ?_⟩
          · intro a ha'
            simp only [List.mem_cons] at ha'
            rcases ha' with rfl | ha'
            · rfl
            · exact ha a ha'
          · simpa using h1
          · simp only [List.count_cons, beq_self_eq_true, if_true]; omega
          · simpa using h3
      | phrase =>
        simp only [specL_cons, spec_phrase] at h
        by_cases hx : pp + 1 > cfg.ppMax
        · simp [hx] at h
        · simp only [hx, if_false] at h
          obtain ⟨asks, tail, e, ha, h1, h2, h3⟩ := ih u p (pp + 1) hu0 hp0 (by omega) h
          refine ⟨.phrase :: asks, tail, by simp [e], ?_, ?_, ?_, ?_⟩
          · intro a ha'
            simp only [List.mem_cons] at ha'
            rcases ha' with rfl | ha'
            · rfl
            · exact ha a ha'
          · simpa using h1
          · simpa using h2
          · simp only [List.count_cons, beq_self_eq_true, if_true]; omega
  · rintro ⟨asks, tail, rfl, ha, h1, h2, h3⟩
    rw [specL_asks cfg asks _ u p pp ha h1 h2 h3]
    simp [specL, spec]

/-! ## both flavours at once -/

def scanOf (fl : Flavour) (P : Pats) (cfg : Cfg) : List Bytes → Act :=
  match fl with
  | .ssh => sshAct P
  | .telnet => telAct P cfg.depth

def stopOf (fl : Flavour) (P : Pats) (cfg : Cfg) : Bytes → Bool :=
  match fl with
  | .ssh => sshStop P
  | .telnet => telStop P cfg.depth

def clsOf (fl : Flavour) (P : Pats) : Bytes → Kind :=
  match fl with
  | .ssh => clsSSH P
  | .telnet => clsTel P

def fuelOf (cfg : Cfg) : Nat := cfg.uMax + cfg.pMax + cfg.ppMax + 1

theorem login_eq_loop {σ : Type} (fl : Flavour) (P : Pats) (cfg : Cfg)
    (react : σ → Bytes → σ × List Bytes) (d : σ) (q : List Bytes) :
    login fl P cfg react d q = loop (scanOf fl P cfg) cfg react (fuelOf cfg) d ⟨0, 0, 0⟩ q [] := by
  cases fl
  · simp only [login, loginSSH, scanOf, fuelOf]
    exact authSSH_eq_loop P cfg react _ d 0 0 0 q []
  · simp only [login, loginTelnet, scanOf, fuelOf]
    exact authTelnet_eq_loop P cfg react _ d 0 0 0 q []

theorem scanOf_sound (fl : Flavour) (P : Pats) (cfg : Cfg) : ScanSound P (scanOf fl P cfg) := by
  cases fl
  · exact sshAct_sound P
  · exact telAct_sound P cfg.depth

theorem scanOf_reads (fl : Flavour) (P : Pats) (cfg : Cfg) :
    ScanReads (stopOf fl P cfg) (clsOf fl P) (scanOf fl P cfg) := by
  cases fl
  · exact sshAct_reads P
  · exact telAct_reads P cfg.depth

/-- well-formedness of a scripted dialogue for a flavour -/
def wfOf (fl : Flavour) (P : Pats) (cfg : Cfg) (first : Stage) (rest : List Stage) : Bool :=
  wf (stopOf fl P cfg) (clsOf fl P) rest first.chunks first.kind

theorem wfOf_ssh (P : Pats) (cfg : Cfg) (first : Stage) (rest : List Stage) :
    wfOf .ssh P cfg first rest = wfSSH P first rest := rfl

theorem wfOf_telnet (P : Pats) (cfg : Cfg) (first : Stage) (rest : List Stage) :
    wfOf .telnet P cfg first rest = wfTel P cfg.depth first rest := rfl

def countClose : List Ev → Nat
  | [] => 0
  | .close :: t => 1 + countClose t
  | _ :: t => countClose t

theorem countClose_login (t : List Ev) (h : t.all isLoginEv = true) : countClose t = 0 := by
  induction t with
  | nil => rfl
  | cons e t ih =>
    simp only [List.all_cons, Bool.and_eq_true] at h
    cases e <;> simp_all [countClose, isLoginEv]

theorem countClose_append (a b : List Ev) : countClose (a ++ b) = countClose a + countClose b := by
  induction a with
  | nil => simp [countClose]
  | cons e t ih => cases e <;> simp [countClose, ih]; omega

/-- meaning of `paired`: read off the pairing for any write in the trace -/
theorem paired_sound_aux (P : Pats) (cfg : Cfg) (pre : List Ev) (p : Option Ev) (w : What)
    (data : Bytes) (r : Bool) (post : List Ev)
    (h : paired P cfg p (pre ++ .write w data r :: post) = true) (hw : w ≠ .ret) :
    ∃ b, (pre.getLast?.or p) = some (.deliver b) ∧ patOf P w b = true ∧ data = credOf cfg w ∧
      r = true := by
  induction pre generalizing p with
  | nil =>
    simp only [List.nil_append, paired, Bool.and_eq_true] at h
    cases w with
    | ret => exact absurd rfl hw
    | user =>
      cases p with
      | none => simp at h
      | some e => cases e <;> simp_all
    | pass =>
      cases p with
      | none => simp at h
      | some e => cases e <;> simp_all
    | phrase =>
      cases p with
      | none => simp at h
      | some e => cases e <;> simp_all
  | cons e pre ih =>
    have h' : paired P cfg (some e) (pre ++ .write w data r :: post) = true := by
      cases e with
      | write w' d' r' =>
        simp only [List.cons_append, paired, Bool.and_eq_true] at h
        exact h.2
      | deliver _ => simpa [paired] using h
      | requeue _ => simpa [paired] using h
      | close => simpa [paired] using h
    obtain ⟨b, hb, rest⟩ := ih (some e) h'
    refine ⟨b, ?_, rest⟩
    rw [List.getLast?_cons]
    cases hl : pre.getLast? <;> simp_all

end Scrapli.Auth
