import ScrapliModel.Lemmas.RegexSound
/-!
# RegexLine: matching inside one line does not depend on the other lines

`Matches` looks at the text around a position only through `decodeRune` (up to four bytes ahead),
the previous byte and the next byte. A line feed is never part of a multi-byte sequence and is not a
word byte, so for a regex without text anchors a match inside a line is the same match on the line
taken alone. With engine soundness and completeness this makes `isMatch` of a line pattern
`(?m)^body$` (body unable to consume a line feed) *line-local*: it holds of a text iff it holds of
one of its lines.
-/
namespace Scrapli.Rx
open Scrapli

theorem LF_toNat : LF.toNat = 10 := rfl

theorem decodeRune_append_LF (x t : Bytes) (hx : x ≠ []) :
    decodeRune (x ++ LF :: t) = decodeRune x := by
  have e1 : ∀ (c : Prop) [Decidable c], ((if c then 160 else 128) ≤ 10) = False := by
    intro c _; split <;> simp
  have e2 : ∀ (c : Prop) [Decidable c], ((if c then 144 else 128) ≤ 10) = False := by
    intro c _; split <;> simp
  match x, hx with
  | [b0], _ =>
    rcases t with _ | ⟨t0, _ | ⟨t1, t⟩⟩ <;> simp [decodeRune, LF_toNat, e1, e2]
  | [b0, b1], _ =>
    rcases t with _ | ⟨t0, t⟩ <;> simp [decodeRune, LF_toNat]
  | [b0, b1, b2], _ =>
    simp [decodeRune, LF_toNat]
  | b0 :: b1 :: b2 :: b3 :: r, _ =>
    simp only [List.cons_append, decodeRune]

theorem decodeRune_append_LFish {x t : Bytes} (hx : x ≠ []) (ht : LFish t) :
    decodeRune (x ++ t) = decodeRune x := by
  rcases ht with rfl | ⟨t', rfl⟩
  · simp
  · exact decodeRune_append_LF x t' hx

theorem decodeRune_eq_none {s : Bytes} (h : decodeRune s = none) : s = [] := by
  unfold decodeRune at h
  split at h
  · rfl
  · simp only at h
    repeat' split at h
    all_goals cases h

/-- `p` looks like "`y` (reversed) before, `x` after" up to the nearest line boundaries -/
def Ext (x y : Bytes) (p : Pos) : Prop :=
  (∃ t, p.after = x ++ t ∧ LFish t) ∧ (∃ t, p.before = y ++ t ∧ LFish t)

theorem Ext.advance {x y : Bytes} {p : Pos} (h : Ext x y p) {n : Nat} (hn : n ≤ x.length) :
    Ext (x.drop n) ((x.take n).reverse ++ y) (p.advance n) := by
  obtain ⟨⟨t, ha, ht⟩, ⟨t', hb, ht'⟩⟩ := h
  refine ⟨⟨t, ?_, ht⟩, ⟨t', ?_, ht'⟩⟩
  · rw [Pos.advance_after, ha, List.drop_append_of_le_length hn]
  · rw [Pos.advance_before, ha, hb, List.take_append_of_le_length hn, List.append_assoc]

theorem Ext.after_length {x y : Bytes} {p : Pos} (h : Ext x y p) : x.length ≤ p.after.length := by
  obtain ⟨⟨t, ha, _⟩, _⟩ := h
  rw [ha, List.length_append]; omega

theorem Ext.decode {x y : Bytes} {p : Pos} (h : Ext x y p) (hx : x ≠ []) :
    decodeRune p.after = decodeRune x := by
  obtain ⟨⟨t, ha, ht⟩, _⟩ := h
  rw [ha]; exact decodeRune_append_LFish hx ht

theorem Ext.atBol {x y : Bytes} {p : Pos} (h : Ext x y p) : p.atBol = (⟨y, x, 0⟩ : Pos).atBol := by
  obtain ⟨_, ⟨t, hb, ht⟩⟩ := h
  unfold Pos.atBol
  rw [hb]
  cases y with
  | cons b y => rfl
  | nil =>
    rcases ht with rfl | ⟨t', rfl⟩
    · rfl
    · simp

theorem Ext.atEol {x y : Bytes} {p : Pos} (h : Ext x y p) : p.atEol = (⟨y, x, 0⟩ : Pos).atEol := by
  obtain ⟨⟨t, ha, ht⟩, _⟩ := h
  unfold Pos.atEol
  rw [ha]
  cases x with
  | cons b x => rfl
  | nil =>
    rcases ht with rfl | ⟨t', rfl⟩
    · rfl
    · simp

def headWord (l : Bytes) : Bool := match l with | [] => false | b :: _ => isWordByte b

theorem atWordBoundary_eq (p : Pos) : atWordBoundary p = (headWord p.before != headWord p.after) :=
  rfl

theorem headWord_append_LFish (y : Bytes) {t : Bytes} (ht : LFish t) :
    headWord (y ++ t) = headWord y := by
  cases y with
  | cons b y => rfl
  | nil =>
    rcases ht with rfl | ⟨t', rfl⟩
    · rfl
    · simp only [List.nil_append, headWord]; decide

theorem Ext.wordBoundary {x y : Bytes} {p : Pos} (h : Ext x y p) :
    atWordBoundary p = atWordBoundary (⟨y, x, 0⟩ : Pos) := by
  obtain ⟨⟨t, ha, ht⟩, ⟨t', hb, ht'⟩⟩ := h
  rw [atWordBoundary_eq, atWordBoundary_eq, ha, hb, headWord_append_LFish y ht',
    headWord_append_LFish x ht]

theorem Matches.eq_advance {re : Re} {p q : Pos} (h : Matches re p q) :
    q = p.advance (q.off - p.off) ∧ q.off - p.off ≤ p.after.length := by
  obtain ⟨n, hn, rfl⟩ := h.advance
  rw [Pos.advance_off _ _ hn]
  have : p.off + n - p.off = n := by omega
  rw [this]; exact ⟨rfl, hn⟩

/-- **Transport.** A match of a regex without text anchors depends on the text only up to the
nearest line boundaries: two positions that look alike up to there (`Ext x y`) admit the same
matches, as long as the match stays within `x`. -/
theorem Matches.transport {re : Re} {p q : Pos} (h : Matches re p q) :
    re.noTextAnchor = true → ∀ {x y : Bytes} {p' : Pos}, Ext x y p → Ext x y p' →
      q.off - p.off ≤ x.length → Matches re p' (p'.advance (q.off - p.off)) := by
  induction h with
  | empty p => intro _ x y p' _ _ _; rw [Nat.sub_self]; exact .empty p'
  | bol hb =>
    intro _ x y p' e e' _; rw [Nat.sub_self]; exact .bol (by rw [e'.atBol, ← e.atBol]; exact hb)
  | eol hb =>
    intro _ x y p' e e' _; rw [Nat.sub_self]; exact .eol (by rw [e'.atEol, ← e.atEol]; exact hb)
  | bot _ => intro hna; simp [Re.noTextAnchor] at hna
  | eot _ => intro hna; simp [Re.noTextAnchor] at hna
  | wordB hb =>
    intro _ x y p' e e' _; rw [Nat.sub_self]
    exact .wordB (by rw [e'.wordBoundary, ← e.wordBoundary]; exact hb)
  | noWordB hb =>
    intro _ x y p' e e' _; rw [Nat.sub_self]
    exact .noWordB (by rw [e'.wordBoundary, ← e.wordBoundary]; exact hb)
  | starNil p => intro _ x y p' _ _ _; rw [Nat.sub_self]; exact .starNil p'
  | questNil p => intro _ x y p' _ _ _; rw [Nat.sub_self]; exact .questNil p'
  | @lit p r w hd =>
    intro _ x y p' e e' hle
    have hw := decodeRune_width hd
    rw [Pos.advance_off _ _ hw.2] at hle ⊢
    have hwx : w ≤ x.length := by omega
    have hx : x ≠ [] := by intro h0; subst h0; simp at hwx; omega
    have : p.off + w - p.off = w := by omega
    rw [this]
    exact .lit (by rw [e'.decode hx, ← e.decode hx]; exact hd)
  | @cls p rs r w hd hr =>
    intro _ x y p' e e' hle
    have hw := decodeRune_width hd
    rw [Pos.advance_off _ _ hw.2] at hle ⊢
    have hwx : w ≤ x.length := by omega
    have hx : x ≠ [] := by intro h0; subst h0; simp at hwx; omega
    have : p.off + w - p.off = w := by omega
    rw [this]
    exact .cls (by rw [e'.decode hx, ← e.decode hx]; exact hd) hr
  | @anyNL p r w hd =>
    intro _ x y p' e e' hle
    have hw := decodeRune_width hd
    rw [Pos.advance_off _ _ hw.2] at hle ⊢
    have hwx : w ≤ x.length := by omega
    have hx : x ≠ [] := by intro h0; subst h0; simp at hwx; omega
    have : p.off + w - p.off = w := by omega
    rw [this]
    exact .anyNL (by rw [e'.decode hx, ← e.decode hx]; exact hd)
  | @anyNoNL p r w hd hr =>
    intro _ x y p' e e' hle
    have hw := decodeRune_width hd
    rw [Pos.advance_off _ _ hw.2] at hle ⊢
    have hwx : w ≤ x.length := by omega
    have hx : x ≠ [] := by intro h0; subst h0; simp at hwx; omega
    have : p.off + w - p.off = w := by omega
    rw [this]
    exact .anyNoNL (by rw [e'.decode hx, ← e.decode hx]; exact hd) hr
  | altL _ ih =>
    intro hna x y p' e e' hle
    simp only [Re.noTextAnchor, Bool.and_eq_true] at hna
    exact .altL (ih hna.1 e e' hle)
  | altR _ ih =>
    intro hna x y p' e e' hle
    simp only [Re.noTextAnchor, Bool.and_eq_true] at hna
    exact .altR (ih hna.2 e e' hle)
  | questSome _ ih =>
    intro hna x y p' e e' hle
    exact .questSome (ih (by simpa [Re.noTextAnchor] using hna) e e' hle)
  | group _ ih =>
    intro hna x y p' e e' hle
    exact .group (ih (by simpa [Re.noTextAnchor] using hna) e e' hle)
  | @cat a b p q r h1 h2 ih1 ih2 =>
    intro hna x y p' e e' hle
    simp only [Re.noTextAnchor, Bool.and_eq_true] at hna
    have o1 := h1.off_le
    have o2 := h2.off_le
    have hn1 : q.off - p.off ≤ x.length := by omega
    have m1 := ih1 hna.1 e e' hn1
    have eq := h1.eq_advance.1
    have e2 : Ext (x.drop (q.off - p.off)) ((x.take (q.off - p.off)).reverse ++ y) q := by
      rw [eq]; rw [Pos.advance_off _ _ h1.eq_advance.2]
      have : p.off + (q.off - p.off) - p.off = q.off - p.off := by omega
      rw [this]; exact e.advance hn1
    have m2 := ih2 hna.2 e2 (e'.advance hn1) (by rw [List.length_drop]; omega)
    rw [Pos.advance_advance _ _ _ (Nat.le_trans hn1 e'.after_length)] at m2
    have : q.off - p.off + (r.off - q.off) = r.off - p.off := by omega
    rw [this] at m2
    exact .cat m1 m2
  | @starCons a g p q r h1 h2 ih1 ih2 =>
    intro hna x y p' e e' hle
    have o1 := h1.off_le
    have o2 := h2.off_le
    have hn1 : q.off - p.off ≤ x.length := by omega
    have m1 := ih1 (by simpa [Re.noTextAnchor] using hna) e e' hn1
    have eq := h1.eq_advance.1
    have e2 : Ext (x.drop (q.off - p.off)) ((x.take (q.off - p.off)).reverse ++ y) q := by
      rw [eq]; rw [Pos.advance_off _ _ h1.eq_advance.2]
      have : p.off + (q.off - p.off) - p.off = q.off - p.off := by omega
      rw [this]; exact e.advance hn1
    have m2 := ih2 hna e2 (e'.advance hn1) (by rw [List.length_drop]; omega)
    rw [Pos.advance_advance _ _ _ (Nat.le_trans hn1 e'.after_length)] at m2
    have : q.off - p.off + (r.off - q.off) = r.off - p.off := by omega
    rw [this] at m2
    exact .starCons m1 m2
  | @plus a g p q r h1 h2 ih1 ih2 =>
    intro hna x y p' e e' hle
    have o1 := h1.off_le
    have o2 := h2.off_le
    have hn1 : q.off - p.off ≤ x.length := by omega
    have m1 := ih1 (by simpa [Re.noTextAnchor] using hna) e e' hn1
    have eq := h1.eq_advance.1
    have e2 : Ext (x.drop (q.off - p.off)) ((x.take (q.off - p.off)).reverse ++ y) q := by
      rw [eq]; rw [Pos.advance_off _ _ h1.eq_advance.2]
      have : p.off + (q.off - p.off) - p.off = q.off - p.off := by omega
      rw [this]; exact e.advance hn1
    have m2 := ih2 (by simpa [Re.noTextAnchor] using hna) e2 (e'.advance hn1)
      (by rw [List.length_drop]; omega)
    rw [Pos.advance_advance _ _ _ (Nat.le_trans hn1 e'.after_length)] at m2
    have : q.off - p.off + (r.off - q.off) = r.off - p.off := by omega
    rw [this] at m2
    exact .plus m1 m2

end Scrapli.Rx
