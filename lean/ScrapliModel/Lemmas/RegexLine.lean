import ScrapliModel.Lemmas.RegexSound
/-!
# RegexLine: matching inside one line does not depend on the other lines

`Matches` looks at the text around a position only through `decodeRune` (up to four bytes ahead),
the previous byte and the next byte. A line feed is never part of a multi-byte sequence and is not a
word byte, so for a regex without text anchors a match inside a line is the same match on the line
taken alone. With engine soundness and completeness this makes `isMatch` of a line pattern
`(?m)^body$` (body unable to consume a line feed) *line-local*: it holds of a text iff it holds of
one of its lines.
-/
namespace Scrapli.Rx
open Scrapli

theorem LF_toNat : LF.toNat = 10 := rfl

theorem decodeRune_append_LF (x t : Bytes) (hx : x ≠ []) :
    decodeRune (x ++ LF :: t) = decodeRune x := by
  have e1 : ∀ (c : Prop) [Decidable c], ((if c then 160 else 128) ≤ 10) = False := by
    intro c _; split <;> simp
  have e2 : ∀ (c : Prop) [Decidable c], ((if c then 144 else 128) ≤ 10) = False := by
    intro c _; split <;> simp
  match x, hx with
  | [b0], _ =>
    rcases t with _ | ⟨t0, _ | ⟨t1, t⟩⟩ <;> simp [decodeRune, LF_toNat, e1, e2]
  | [b0, b1], _ =>
    rcases t with _ | ⟨t0, t⟩ <;> simp [decodeRune, LF_toNat]
  | [b0, b1, b2], _ =>
    simp [decodeRune, LF_toNat]
  | b0 :: b1 :: b2 :: b3 :: r, _ =>
    simp only [List.cons_append, decodeRune]

theorem decodeRune_append_LFish {x t : Bytes} (hx : x ≠ []) (ht : LFish t) :
    decodeRune (x ++ t) = decodeRune x := by
  rcases ht with rfl | ⟨t', rfl⟩
  · simp
  · exact decodeRune_append_LF x t' hx

theorem decodeRune_eq_none {s : Bytes} (h : decodeRune s = none) : s = [] := by
  unfold decodeRune at h
  split at h
  · rfl
  · simp only at h
    repeat' split at h
    all_goals cases h

/-- `p` looks like "`y` (reversed) before, `x` after" up to the nearest line boundaries -/
def Ext (x y : Bytes) (p : Pos) : Prop :=
  (∃ t, p.after = x ++ t ∧ LFish t) ∧ (∃ t, p.before = y ++ t ∧ LFish t)

theorem Ext.advance {x y : Bytes} {p : Pos} (h : Ext x y p) {n : Nat} (hn : n ≤ x.length) :
    Ext (x.drop n) ((x.take n).reverse ++ y) (p.advance n) := by
  obtain ⟨⟨t, ha, ht⟩, ⟨t', hb, ht'⟩⟩ := h
  refine ⟨⟨t, ?_, ht⟩, ⟨t', ?_, ht'⟩⟩
  · rw [Pos.advance_after, ha, List.drop_append_of_le_length hn]
  · rw [Pos.advance_before, ha, hb, List.take_append_of_le_length hn, List.append_assoc]

theorem Ext.after_length {x y : Bytes} {p : Pos} (h : Ext x y p) : x.length ≤ p.after.length := by
  obtain ⟨⟨t, ha, _⟩, _⟩ := h
  rw [ha, List.length_append]; omega

theorem Ext.decode {x y : Bytes} {p : Pos} (h : Ext x y p) (hx : x ≠ []) :
    decodeRune p.after = decodeRune x := by
  obtain ⟨⟨t, ha, ht⟩, _⟩ := h
  rw [ha]; exact decodeRune_append_LFish hx ht

theorem Ext.atBol {x y : Bytes} {p : Pos} (h : Ext x y p) : p.atBol = (⟨y, x, 0⟩ : Pos).atBol := by
  obtain ⟨_, ⟨t, hb, ht⟩⟩ := h
  unfold Pos.atBol
  rw [hb]
  cases y with
  | cons b y => rfl
  | nil =>
    rcases ht with rfl | ⟨t', rfl⟩
    · rfl
    · simp

theorem Ext.atEol {x y : Bytes} {p : Pos} (h : Ext x y p) : p.atEol = (⟨y, x, 0⟩ : Pos).atEol := by
  obtain ⟨⟨t, ha, ht⟩, _⟩ := h
  unfold Pos.atEol
  rw [ha]
  cases x with
  | cons b x => rfl
  | nil =>
    rcases ht with rfl | ⟨t', rfl⟩
    · rfl
    · simp

def headWord (l : Bytes) : Bool := match l with | [] => false | b :: _ => isWordByte b

theorem atWordBoundary_eq (p : Pos) : atWordBoundary p = (headWord p.before != headWord p.after) :=
  rfl

theorem headWord_append_LFish (y : Bytes) {t : Bytes} (ht : LFish t) :
    headWord (y ++ t) = headWord y := by
  cases y with
  | cons b y => rfl
  | nil =>
    rcases ht with rfl | ⟨t', rfl⟩
    · rfl
    · simp only [List.nil_append, headWord]; decide

theorem Ext.wordBoundary {x y : Bytes} {p : Pos} (h : Ext x y p) :
    atWordBoundary p = atWordBoundary (⟨y, x, 0⟩ : Pos) := by
  obtain ⟨⟨t, ha, ht⟩, ⟨t', hb, ht'⟩⟩ := h
  rw [atWordBoundary_eq, atWordBoundary_eq, ha, hb, headWord_append_LFish y ht',
    headWord_append_LFish x ht]

theorem Matches.eq_advance {re : Re} {p q : Pos} (h : Matches re p q) :
    q = p.advance (q.off - p.off) ∧ q.off - p.off ≤ p.after.length := by
  obtain ⟨n, hn, rfl⟩ := h.advance
  rw [Pos.advance_off _ _ hn]
  have : p.off + n - p.off = n := by omega
  rw [this]; exact ⟨rfl, hn⟩

/-- **Transport.** A match of a regex without text anchors depends on the text only up to the
nearest line boundaries: two positions that look alike up to there (`Ext x y`) allow the same
matches, as long as the match stays within `x`. -/
theorem Matches.transport {re : Re} {p q : Pos} (h : Matches re p q) :
    re.noTextAnchor = true → ∀ {x y : Bytes} {p' : Pos}, Ext x y p → Ext x y p' →
      q.off - p.off ≤ x.length → Matches re p' (p'.advance (q.off - p.off)) := by
  induction h with
  | empty p => intro _ x y p' _ _ _; rw [Nat.sub_self]; exact .empty p'
  | bol hb =>
    intro _ x y p' e e' _; rw [Nat.sub_self]; exact .bol (by rw [e'.atBol, ← e.atBol]; exact hb)
  | eol hb =>
    intro _ x y p' e e' _; rw [Nat.sub_self]; exact .eol (by rw [e'.atEol, ← e.atEol]; exact hb)
  | bot _ => intro hna; simp [Re.noTextAnchor] at hna
  | eot _ => intro hna; simp [Re.noTextAnchor] at hna
  | wordB hb =>
    intro _ x y p' e e' _; rw [Nat.sub_self]
    exact .wordB (by rw [e'.wordBoundary, ← e.wordBoundary]; exact hb)
  | noWordB hb =>
    intro _ x y p' e e' _; rw [Nat.sub_self]
    exact .noWordB (by rw [e'.wordBoundary, ← e.wordBoundary]; exact hb)
  | starNil p => intro _ x y p' _ _ _; rw [Nat.sub_self]; exact .starNil p'
  | questNil p => intro _ x y p' _ _ _; rw [Nat.sub_self]; exact .questNil p'
  | @lit p r w hd =>
    intro _ x y p' e e' hle
    have hw := decodeRune_width hd
    rw [Pos.advance_off _ _ hw.2] at hle ⊢
    have hwx : w ≤ x.length := by omega
    have hx : x ≠ [] := by intro h0; subst h0; simp at hwx; omega
    have : p.off + w - p.off = w := by omega
    rw [this]
    exact .lit (by rw [e'.decode hx, ← e.decode hx]; exact hd)
  | @cls p rs r w hd hr =>
    intro _ x y p' e e' hle
    have hw := decodeRune_width hd
    rw [Pos.advance_off _ _ hw.2] at hle ⊢
    have hwx : w ≤ x.length := by omega
    have hx : x ≠ [] := by intro h0; subst h0; simp at hwx; omega
    have : p.off + w - p.off = w := by omega
    rw [this]
    exact .cls (by rw [e'.decode hx, ← e.decode hx]; exact hd) hr
  | @anyNL p r w hd =>
    intro _ x y p' e e' hle
    have hw := decodeRune_width hd
    rw [Pos.advance_off _ _ hw.2] at hle ⊢
    have hwx : w ≤ x.length := by omega
    have hx : x ≠ [] := by intro h0; subst h0; simp at hwx; omega
    have : p.off + w - p.off = w := by omega
    rw [this]
    exact .anyNL (by rw [e'.decode hx, ← e.decode hx]; exact hd)
  | @anyNoNL p r w hd hr =>
    intro _ x y p' e e' hle
    have hw := decodeRune_width hd
    rw [Pos.advance_off _ _ hw.2] at hle ⊢
    have hwx : w ≤ x.length := by omega
    have hx : x ≠ [] := by intro h0; subst h0; simp at hwx; omega
    have : p.off + w - p.off = w := by omega
    rw [this]
    exact .anyNoNL (by rw [e'.decode hx, ← e.decode hx]; exact hd) hr
  | altL _ ih =>
    intro hna x y p' e e' hle
    simp only [Re.noTextAnchor, Bool.and_eq_true] at hna
    exact .altL (ih hna.1 e e' hle)
  | altR _ ih =>
    intro hna x y p' e e' hle
    simp only [Re.noTextAnchor, Bool.and_eq_true] at hna
    exact .altR (ih hna.2 e e' hle)
  | questSome _ ih =>
    intro hna x y p' e e' hle
    exact .questSome (ih (by simpa [Re.noTextAnchor] using hna) e e' hle)
  | group _ ih =>
    intro hna x y p' e e' hle
    exact .group (ih (by simpa [Re.noTextAnchor] using hna) e e' hle)
  | @cat a b p q r h1 h2 ih1 ih2 =>
    intro hna x y p' e e' hle
    simp only [Re.noTextAnchor, Bool.and_eq_true] at hna
    have o1 := h1.off_le
    have o2 := h2.off_le
    have hn1 : q.off - p.off ≤ x.length := by omega
    have m1 := ih1 hna.1 e e' hn1
    have eq := h1.eq_advance.1
    have e2 : Ext (x.drop (q.off - p.off)) ((x.take (q.off - p.off)).reverse ++ y) q := by
      rw [eq]; rw [Pos.advance_off _ _ h1.eq_advance.2]
      have : p.off + (q.off - p.off) - p.off = q.off - p.off := by omega
      rw [this]; exact e.advance hn1
    have m2 := ih2 hna.2 e2 (e'.advance hn1) (by rw [List.length_drop]; omega)
    rw [Pos.advance_advance _ _ _ (Nat.le_trans hn1 e'.after_length)] at m2
    have : q.off - p.off + (r.off - q.off) = r.off - p.off := by omega
    rw [this] at m2
    exact .cat m1 m2
  | @starCons a g p q r h1 h2 ih1 ih2 =>
    intro hna x y p' e e' hle
    have o1 := h1.off_le
    have o2 := h2.off_le
    have hn1 : q.off - p.off ≤ x.length := by omega
    have m1 := ih1 (by simpa [Re.noTextAnchor] using hna) e e' hn1
    have eq := h1.eq_advance.1
    have e2 : Ext (x.drop (q.off - p.off)) ((x.take (q.off - p.off)).reverse ++ y) q := by
      rw [eq]; rw [Pos.advance_off _ _ h1.eq_advance.2]
      have : p.off + (q.off - p.off) - p.off = q.off - p.off := by omega
      rw [this]; exact e.advance hn1
    have m2 := ih2 hna e2 (e'.advance hn1) (by rw [List.length_drop]; omega)
    rw [Pos.advance_advance _ _ _ (Nat.le_trans hn1 e'.after_length)] at m2
    have : q.off - p.off + (r.off - q.off) = r.off - p.off := by omega
    rw [this] at m2
    exact .starCons m1 m2
  | @plus a g p q r h1 h2 ih1 ih2 =>
    intro hna x y p' e e' hle
    have o1 := h1.off_le
    have o2 := h2.off_le
    have hn1 : q.off - p.off ≤ x.length := by omega
    have m1 := ih1 (by simpa [Re.noTextAnchor] using hna) e e' hn1
    have eq := h1.eq_advance.1
    have e2 : Ext (x.drop (q.off - p.off)) ((x.take (q.off - p.off)).reverse ++ y) q := by
      rw [eq]; rw [Pos.advance_off _ _ h1.eq_advance.2]
      have : p.off + (q.off - p.off) - p.off = q.off - p.off := by omega
      rw [this]; exact e.advance hn1
    have m2 := ih2 (by simpa [Re.noTextAnchor] using hna) e2 (e'.advance hn1)
      (by rw [List.length_drop]; omega)
    rw [Pos.advance_advance _ _ _ (Nat.le_trans hn1 e'.after_length)] at m2
    have : q.off - p.off + (r.off - q.off) = r.off - p.off := by omega
    rw [this] at m2
    exact .plus m1 m2

/-! ## rune boundaries and line feeds -/

/-- the position after a line feed is always a rune boundary: decoding never swallows a line feed
into a multi-byte sequence -/
theorem runeReach_LF : ∀ (k : Nat) (u t : Bytes) (p : Pos), u.length ≤ k → p.after = u ++ LF :: t →
    RuneReach p (p.advance (u.length + 1)) := by
  intro k
  induction k with
  | zero =>
    intro u t p hk h
    have : u = [] := List.length_eq_zero_iff.mp (by omega)
    subst this
    have hd : decodeRune p.after = some (10, 1) := by rw [h]; simp [decodeRune, LF_toNat]
    exact .step hd (.refl _)
  | succ k ih =>
    intro u t p hk h
    by_cases hu : u = []
    · subst hu
      have hd : decodeRune p.after = some (10, 1) := by rw [h]; simp [decodeRune, LF_toNat]
      exact .step hd (.refl _)
    · cases hd : decodeRune u with
      | none => exact absurd (decodeRune_eq_none hd) hu
      | some rw =>
        obtain ⟨r, w⟩ := rw
        have hw := decodeRune_width hd
        have hd' : decodeRune p.after = some (r, w) := by
          rw [h, decodeRune_append_LF u t hu]; exact hd
        have hwp : w ≤ p.after.length := by rw [h, List.length_append]; omega
        have hafter : (p.advance w).after = u.drop w ++ LF :: t := by
          rw [Pos.advance_after, h, List.drop_append_of_le_length hw.2]
        have := ih (u.drop w) t (p.advance w) (by rw [List.length_drop]; omega) hafter
        rw [Pos.advance_advance _ _ _ hwp, List.length_drop] at this
        have e : w + (u.length - w + 1) = u.length + 1 := by omega
        rw [e] at this
        exact .step hd' this

/-! ## lines of a text -/

theorem splitLF_spec (s : Bytes) : ∀ l0 ls, splitLF s = l0 :: ls →
    ((∀ b ∈ l0, b ≠ LF) ∧ ∃ post, s = l0 ++ post ∧ LFish post) ∧
    (∀ l ∈ ls, ∃ pre' post, s = pre' ++ LF :: (l ++ post) ∧ (∀ b ∈ l, b ≠ LF) ∧ LFish post) := by
  induction s with
  | nil =>
    intro l0 ls h
    simp only [splitLF, List.cons.injEq] at h
    obtain ⟨rfl, rfl⟩ := h
    exact ⟨⟨by simp, [], rfl, .inl rfl⟩, by simp⟩
  | cons b t ih =>
    intro l0 ls h
    cases hst : splitLF t with
    | nil => exact absurd hst (splitLF_ne_nil' t)
    | cons m ms =>
      obtain ⟨⟨hm, postm, htm, hpm⟩, htail⟩ := ih m ms hst
      simp only [splitLF, hst] at h
      by_cases hb : b = LF
      · subst hb
        simp only [beq_self_eq_true, if_true, List.cons.injEq] at h
        obtain ⟨rfl, rfl⟩ := h
        refine ⟨⟨by simp, LF :: t, rfl, .inr ⟨t, rfl⟩⟩, ?_⟩
        intro l hl
        rcases List.mem_cons.mp hl with rfl | hl
        · exact ⟨[], postm, by rw [htm]; rfl, hm, hpm⟩
        · obtain ⟨pre', post, hs, hl', hp⟩ := htail l hl
          exact ⟨LF :: pre', post, by rw [hs]; rfl, hl', hp⟩
      · have hb' : (b == LF) = false := by simpa using hb
        simp only [hb', Bool.false_eq_true, if_false, List.cons.injEq] at h
        obtain ⟨rfl, rfl⟩ := h
        refine ⟨⟨?_, postm, by rw [htm]; rfl, hpm⟩, ?_⟩
        · intro x hx
          rcases List.mem_cons.mp hx with rfl | hx
          · exact hb
          · exact hm x hx
        · intro l hl
          obtain ⟨pre', post, hs, hl', hp⟩ := htail l hl
          exact ⟨b :: pre', post, by rw [hs]; rfl, hl', hp⟩

/-- every line of a text is delimited by line feeds / the text ends and contains no line feed -/
theorem splitLF_mem {s l : Bytes} (h : l ∈ splitLF s) :
    ∃ pre post, s = pre ++ l ++ post ∧ (∀ b ∈ l, b ≠ LF) ∧
      (pre = [] ∨ ∃ pre', pre = pre' ++ [LF]) ∧ LFish post := by
  cases hs : splitLF s with
  | nil => exact absurd hs (splitLF_ne_nil' s)
  | cons l0 ls =>
    obtain ⟨⟨h0, post0, hs0, hp0⟩, htail⟩ := splitLF_spec s l0 ls hs
    rw [hs] at h
    rcases List.mem_cons.mp h with rfl | h
    · exact ⟨[], post0, by simpa using hs0, h0, .inl rfl, hp0⟩
    · obtain ⟨pre', post, hs', hl, hp⟩ := htail l h
      exact ⟨pre' ++ [LF], post, by rw [hs']; simp, hl, .inr ⟨pre', rfl⟩, hp⟩

/-! ## line patterns are line-local -/

theorem Pos.atBol_iff (p : Pos) : p.atBol = true ↔ LFish p.before := by
  unfold Pos.atBol LFish
  cases p.before with
  | nil => simp
  | cons b t => simp

theorem Pos.atEol_iff (p : Pos) : p.atEol = true ↔ LFish p.after := by
  unfold Pos.atEol LFish
  cases p.after with
  | nil => simp
  | cons b t => simp

theorem LFish.reverse {l : Bytes} (h : LFish l) : l.reverse = [] ∨ ∃ t, l.reverse = t ++ [LF] := by
  rcases h with rfl | ⟨t, rfl⟩
  · left; rfl
  · right; exact ⟨t.reverse, by simp⟩

theorem LFish.of_reverse {l : Bytes} (h : l = [] ∨ ∃ t, l = t ++ [LF]) : LFish l.reverse := by
  rcases h with rfl | ⟨t, rfl⟩
  · left; rfl
  · right; exact ⟨t.reverse, by simp⟩

/-- **`isMatch` of a line pattern is line-local.** For `(?m)^body$` where `body` cannot consume a
line feed and has no text anchors, the pattern matches a text iff it matches one of its lines
(taken alone). -/
theorem isMatch_line_iff {body : Re} (hn : body.noLF = true) (hna : body.noTextAnchor = true)
    (s : Bytes) :
    isMatch (.cat .bol (.cat body .eol)) s = true ↔
      ∃ l ∈ splitLF s, isMatch (.cat .bol (.cat body .eol)) l = true := by
  have hna' : (Re.cat .bol (.cat body .eol)).noTextAnchor = true := by
    simp [Re.noTextAnchor, hna]
  constructor
  · intro h
    obtain ⟨p, q, _, hp, _, hM⟩ := isMatch_sound h
    obtain ⟨hbol, heol, hlf⟩ := hM.line hn
    obtain ⟨hq, hnle⟩ := hM.eq_advance
    have hspan : p.span q = p.after.take (q.off - p.off) := rfl
    have hlen : (p.span q).length = q.off - p.off := by
      rw [hspan, List.length_take]; omega
    have hqa : q.after = p.after.drop (q.off - p.off) := by
      rw [hq, Pos.advance_after]
      have := hM.off_le
      rw [Pos.advance_off _ _ hnle]
      congr 1; omega
    have e : Ext (p.span q) [] p :=
      ⟨⟨q.after, by rw [hspan, hqa, List.take_append_drop], (Pos.atEol_iff q).mp heol⟩,
       ⟨p.before, by simp, (Pos.atBol_iff p).mp hbol⟩⟩
    have e' : Ext (p.span q) [] (Pos.start (p.span q)) :=
      ⟨⟨[], by simp [Pos.start], .inl rfl⟩, ⟨[], rfl, .inl rfl⟩⟩
    have hM' := hM.transport hna' e e' (by omega)
    refine ⟨p.span q, ?_, isMatch_complete (.refl _) hM'⟩
    have hs : s = p.before.reverse ++ p.span q ++ q.after := by
      rw [hspan, hqa, List.append_assoc, List.take_append_drop]; exact hp.1.symm
    rw [hs]
    exact mem_splitLF_of_delimited hlf ((Pos.atBol_iff p).mp hbol).reverse
      ((Pos.atEol_iff q).mp heol)
  · rintro ⟨l, hmem, h⟩
    obtain ⟨pre, post, hs, hl, hpre, hpost⟩ := splitLF_mem hmem
    obtain ⟨p', q', _, hp', _, hM'⟩ := isMatch_sound h
    obtain ⟨hbol, _, _⟩ := hM'.line hn
    have hb' : p'.before = [] := by
      rcases (Pos.atBol_iff p').mp hbol with h0 | ⟨t, h0⟩
      · exact h0
      · exfalso
        have : LF ∈ l := by rw [← hp'.1, h0]; simp
        exact hl LF this rfl
    have ha' : p'.after = l := by have := hp'.1; rw [hb'] at this; simpa using this
    have e' : Ext l [] p' := ⟨⟨[], by simp [ha'], .inl rfl⟩, ⟨[], by simp [hb'], .inl rfl⟩⟩
    have hpa : ((Pos.start s).advance pre.length).after = l ++ post := by
      rw [Pos.advance_after]
      simp only [Pos.start]
      rw [hs, List.append_assoc, List.drop_left]
    have hpb : ((Pos.start s).advance pre.length).before = pre.reverse := by
      rw [Pos.advance_before]
      simp only [Pos.start, List.append_nil]
      rw [hs, List.append_assoc, List.take_left]
    have e : Ext l [] ((Pos.start s).advance pre.length) :=
      ⟨⟨post, hpa, hpost⟩, ⟨pre.reverse, by simp [hpb], LFish.of_reverse hpre⟩⟩
    have hle : q'.off - p'.off ≤ l.length := by rw [← ha']; exact hM'.eq_advance.2
    have hM := hM'.transport hna' e' e hle
    have hr : RuneReach (Pos.start s) ((Pos.start s).advance pre.length) := by
      rcases hpre with rfl | ⟨pre', rfl⟩
      · exact .refl _
      · have := runeReach_LF pre'.length pre' (l ++ post) (Pos.start s) (Nat.le_refl _)
          (by simp [Pos.start, hs])
        simpa using this
    exact isMatch_complete hr hM

/-! ## whole-line matches, ASCII literals -/

theorem decodeRune_ascii {s : Bytes} {r w : Nat} (h : decodeRune s = some (r, w)) (hr : r < 128) :
    ∃ b t, s = b :: t ∧ b.toNat = r ∧ w = 1 := by
  unfold decodeRune at h
  split at h
  · cases h
  · rename_i b0 t
    refine ⟨b0, t, rfl, ?_⟩
    simp only at h
    repeat' split at h
    all_goals
      simp only [Option.some.injEq, Prod.mk.injEq] at h
      obtain ⟨rfl, rfl⟩ := h
      first
      | (exfalso; omega)
      | (exfalso; simp only [Bool.and_eq_true, decide_eq_true_eq, beq_iff_eq] at *; omega)
      | exact ⟨rfl, rfl⟩

theorem Matches.lit_ascii {r : Nat} {p q : Pos} (h : Matches (.lit r) p q) (hr : r < 128) :
    ∃ b, b.toNat = r ∧ p.after = b :: q.after := by
  cases h with
  | lit hd =>
    obtain ⟨b, t, hs, hb, rfl⟩ := decodeRune_ascii hd hr
    refine ⟨b, hb, ?_⟩
    rw [Pos.advance_after, hs]; rfl

/-- on a single line (no line feed) a line pattern can only match the whole line -/
theorem isMatch_line_whole {body : Re} (hn : body.noLF = true) {l : Bytes}
    (hl : ∀ b ∈ l, b ≠ LF) (h : isMatch (.cat .bol (.cat body .eol)) l = true) :
    ∃ p q, p.before = [] ∧ p.after = l ∧ q.after = [] ∧ Matches body p q := by
  obtain ⟨p, q, _, hp, hq, hM⟩ := isMatch_sound h
  obtain ⟨hbol, heol, _⟩ := hM.line hn
  have hb : p.before = [] := by
    rcases (Pos.atBol_iff p).mp hbol with h0 | ⟨t, h0⟩
    · exact h0
    · exfalso
      have : LF ∈ l := by rw [← hp.1, h0]; simp
      exact hl LF this rfl
  have ha : p.after = l := by have := hp.1; rw [hb] at this; simpa using this
  have hqa : q.after = [] := by
    rcases (Pos.atEol_iff q).mp heol with h0 | ⟨t, h0⟩
    · exact h0
    · exfalso
      have : LF ∈ l := by rw [← hq.1, h0]; simp
      exact hl LF this rfl
  cases hM with
  | cat h1 h2 =>
    cases h1 with
    | bol _ =>
      cases h2 with
      | cat h3 h4 =>
        cases h4 with
        | eol _ => exact ⟨p, _, hb, ha, hqa, h3⟩

end Scrapli.Rx
