import ScrapliModel.Telnet
/-!
# Telnet: the `util.ByteIsAny` sets of `handleControlCharResponse` as the model writes them
-/
namespace Scrapli.Telnet

theorem contains_verbs (c : UInt8) : List.contains [DO, DONT, WILL, WONT] c = isVerb c := by
  simp only [isVerb, List.contains, List.elem]
  cases c == DO <;> cases c == DONT <;> cases c == WILL <;> cases c == WONT <;> rfl

theorem contains_do_dont (c : UInt8) : List.contains [DO, DONT] c = (c == DO || c == DONT) := by
  simp only [List.contains, List.elem]
  cases c == DO <;> cases c == DONT <;> rfl

end Scrapli.Telnet
