import ScrapliModel.Netconf.Request
import ScrapliModel.Lemmas.Bytes
/-! Helper lemmas for the request-framing model (`Netconf/Request.lean`). -/
namespace Scrapli.Netconf.Req
open Scrapli Scrapli.Netconf

/-! ## hasPrefix / splitOn -/

theorem hasPrefix_append_of_le (x y d : Bytes) (h : d.length ≤ x.length) :
    hasPrefix (x ++ y) d = hasPrefix x d := by
  induction d generalizing x with
  | nil => cases x <;> cases y <;> simp [hasPrefix]
  | cons a d ih =>
    cases x with
    | nil => simp at h
    | cons b x =>
      simp only [List.cons_append, hasPrefix]
      rw [ih x (by simpa using h)]

theorem hasPrefix_self_append (d r : Bytes) : hasPrefix (d ++ r) d = true := hasPrefix_append d r

/-- `d` first occurs in `pre ++ d ++ rest` right after `pre`, provided no occurrence starts inside
`pre` (an occurrence starting inside `pre` ends at the latest one byte before the end of `d`). -/
theorem splitOn_first (d pre rest : Bytes) (hd : d ≠ [])
    (h : isInfix d (pre ++ d.dropLast) = false) :
    splitOn d (pre ++ d ++ rest) = some (pre, rest) := by
  induction pre with
  | nil =>
    cases d with
    | nil => exact absurd rfl hd
    | cons a d' =>
      have hp := hasPrefix_self_append (a :: d') rest
      simp only [List.nil_append, List.cons_append] at hp ⊢
      simp only [splitOn, hp, if_true]
      simp
  | cons b t ih =>
    simp only [List.cons_append, isInfix, Bool.or_eq_false_iff] at h
    have hlen : d.length ≤ (b :: (t ++ d.dropLast)).length := by
      simp [List.length_dropLast]; omega
    have hd' : d = d.dropLast ++ [d.getLast hd] := (List.dropLast_concat_getLast hd).symm
    have e : b :: (t ++ d ++ rest) = (b :: (t ++ d.dropLast)) ++ ([d.getLast hd] ++ rest) := by
      conv => lhs; rw [hd']
      simp
    have hnp : hasPrefix (b :: (t ++ d ++ rest)) d = false := by
      rw [e, hasPrefix_append_of_le _ _ _ hlen]; exact h.1
    simp only [List.cons_append, List.append_assoc] at hnp ⊢
    simp only [splitOn, hnp, Bool.false_eq_true, if_false]
    have := ih h.2
    simp only [List.append_assoc] at this
    rw [this]; rfl


/-! ## chunk sizes -/

theorem digitByte_ne_zero (n : Nat) (h0 : 0 < n) (h : n < 10) : digitByte n ≠ 48 := by
  have : n = 1 ∨ n = 2 ∨ n = 3 ∨ n = 4 ∨ n = 5 ∨ n = 6 ∨ n = 7 ∨ n = 8 ∨ n = 9 := by omega
  rcases this with h|h|h|h|h|h|h|h|h <;> subst h <;> decide

theorem decDigits_head_ne_zero (n : Nat) (h : 0 < n) :
    ∃ d ds, decDigits n = d :: ds ∧ d ≠ 48 := by
  induction n using Nat.strongRecOn with
  | _ n ih =>
    unfold decDigits
    split
    · rename_i hlt
      exact ⟨digitByte n, [], rfl, digitByte_ne_zero n h hlt⟩
    · rename_i hge
      obtain ⟨d, ds, he, hne⟩ := ih (n / 10) (by omega) (by omega)
      exact ⟨d, ds ++ [digitByte (n % 10)], by rw [he]; rfl, hne⟩

theorem takeWhile_append_stop {p : UInt8 → Bool} (ds : Bytes) (x : UInt8) (rest : Bytes)
    (h : ∀ b ∈ ds, p b = true) (hx : p x = false) :
    (ds ++ x :: rest).takeWhile p = ds ∧ (ds ++ x :: rest).dropWhile p = x :: rest := by
  induction ds with
  | nil => simp [List.takeWhile, List.dropWhile, hx]
  | cons d t ih =>
    have hd := h d (by simp)
    have := ih (fun b hb => h b (by simp [hb]))
    simp [List.takeWhile, List.dropWhile, hd, this.1, this.2]

/-- a legal RFC 6242 chunk size, printed in decimal, is read back exactly -/
theorem readSize_decDigits (n : Nat) (rest : Bytes) (h0 : 0 < n) (h : n < 2 ^ 32) :
    readSize (decDigits n ++ LF :: rest) = some (n, rest) := by
  obtain ⟨d, ds, he, hne⟩ := decDigits_head_ne_zero n h0
  have htw := takeWhile_append_stop (p := isDigit) (decDigits n) LF rest
    (decDigits_all_digits n) (by decide)
  have hlen : (decDigits n).length ≤ 10 :=
    decDigits_length_le_gen 10 n (by decide) (Nat.lt_of_lt_of_le h (by decide))
  have hp := parseDec_decDigits n
  unfold readSize
  rw [htw.1, htw.2, he]
  rw [he] at hlen hp
  have hn : n ≤ 4294967295 := by
    have : (2:Nat) ^ 32 = 4294967296 := by decide
    omega
  simp [LF, hne, hp, hn]
  simp at hlen; omega


/-! ## RFC 6242 session stream -/

theorem chunks11_one (r rest : Bytes) (f : Nat) (hr : r ≠ []) (hlen : r.length < 2 ^ 32) :
    chunks11 (f + 2) (LF :: HASH :: (decDigits r.length ++ LF :: (r ++ LF :: HASH :: HASH :: LF :: rest)))
      [] false = some (r, rest) := by
  have hpos : 0 < r.length := by cases r with | nil => exact absurd rfl hr | cons _ _ => simp
  obtain ⟨d, ds, he, _⟩ := decDigits_head_ne_zero r.length hpos
  have hd : isDigit d = true := decDigits_all_digits r.length d (by simp [he])
  have hd35 : (d == HASH) = false := isDigit_ne d HASH hd (by decide)
  have hrs := readSize_decDigits r.length (r ++ LF :: HASH :: HASH :: LF :: rest) hpos hlen
  rw [he] at hrs
  rw [he]
  show chunks11 (f + 1 + 1) _ _ _ = _
  simp only [List.cons_append] at hrs ⊢
  have h1 : (LF == LF) = true := by decide
  have h2 : (HASH == HASH) = true := by decide
  simp only [chunks11, h1, h2, hd35, Bool.and_self, if_true, Bool.false_eq_true, if_false, hrs,
    List.length_append, List.length_cons, List.nil_append]
  simp

/-- one request as RFC 6242 frames it when it is sent as a single chunk -/
def frame1 (r : Bytes) : Bytes := LF :: HASH :: (decDigits r.length ++ LF :: (r ++ [LF, HASH, HASH, LF]))

theorem frame1_eq_frame11 (r : Bytes) : frame1 r = frame11 [r] := by
  simp [frame1, frame11, chunk]

def Legal11 (rs : List Bytes) : Prop := ∀ r ∈ rs, r ≠ [] ∧ r.length < 2 ^ 32

theorem msgs11_frames (rs : List Bytes) (f : Nat) (h : Legal11 rs) (hf : rs.length + 1 ≤ f) :
    msgs11 f ((rs.map frame1).flatten ++ [LF]) = some rs := by
  induction rs generalizing f with
  | nil =>
    obtain ⟨f', rfl⟩ : ∃ f', f = f' + 1 := ⟨f - 1, by simp at hf; omega⟩
    simp [msgs11]
  | cons r rs ih =>
    obtain ⟨f', rfl⟩ : ∃ f', f = f' + 1 := ⟨f - 1, by simp at hf; omega⟩
    have hr := h r (by simp)
    have e : ((r :: rs).map frame1).flatten ++ [LF] =
        LF :: HASH :: (decDigits r.length ++ LF :: (r ++ LF :: HASH :: HASH :: LF :: ((rs.map frame1).flatten ++ [LF]))) := by
      simp [frame1]
    rw [e]
    generalize hrest : (rs.map frame1).flatten ++ [LF] = rest
    have hc := fun g => chunks11_one r rest g hr.1 hr.2
    simp only [msgs11]
    have hne : ((LF :: HASH :: (decDigits r.length ++ LF :: (r ++ LF :: HASH :: HASH :: LF :: rest))).isEmpty
        || (LF :: HASH :: (decDigits r.length ++ LF :: (r ++ LF :: HASH :: HASH :: LF :: rest))) == [LF]) = false := by
      simp
    rw [hne]
    simp only [Bool.false_eq_true, if_false, List.length_cons]
    rw [hc]
    simp only
    rw [← hrest, ih f' (fun x hx => h x (by simp [hx])) (by simp at hf; omega)]
    rfl

/-! ## RFC 4742 session stream -/

theorem dropWhile_all_nil {p : UInt8 → Bool} (ws : Bytes) (h : ∀ b ∈ ws, p b = true) :
    ws.dropWhile p = [] := by
  induction ws with
  | nil => rfl
  | cons a t ih =>
    simp only [List.dropWhile, h a (by simp)]
    exact ih (fun b hb => h b (by simp [hb]))

/-- what makes a 1.0 message recoverable from RFC 4742 framing: it does not begin with white space
and the end-of-message marker does not occur early, not even straddling the message's end -/
def Legal10 (d : Bytes) (rs : List Bytes) : Prop :=
  ∀ r ∈ rs, (∃ b t, r = b :: t ∧ isXmlWs b = false) ∧ isInfix d (r ++ d.dropLast) = false

theorem msgs10_frames (d : Bytes) (hd : d ≠ []) (rs : List Bytes) (f : Nat) (ws : Bytes)
    (hws : ∀ b ∈ ws, isXmlWs b = true) (h : Legal10 d rs) (hf : rs.length + 1 ≤ f) :
    msgs10 d f (ws ++ (rs.map (fun r => r ++ (d ++ [LF]))).flatten) = some rs := by
  induction rs generalizing f ws with
  | nil =>
    obtain ⟨f', rfl⟩ : ∃ f', f = f' + 1 := ⟨f - 1, by simp at hf; omega⟩
    have : ws.dropWhile isXmlWs = [] := dropWhile_all_nil ws hws
    simp [msgs10, this]
  | cons r rs ih =>
    obtain ⟨f', rfl⟩ : ∃ f', f = f' + 1 := ⟨f - 1, by simp at hf; omega⟩
    obtain ⟨⟨b, t, hbt, hb⟩, hno⟩ := h r (by simp)
    generalize htail : (rs.map (fun r => r ++ (d ++ [LF]))).flatten = tail at *
    have e : ws ++ ((r :: rs).map (fun r => r ++ (d ++ [LF]))).flatten
        = ws ++ b :: (t ++ d ++ ([LF] ++ tail)) := by
      simp [hbt, htail]
    rw [e, msgs10, dropWhile_all_append ws b _ hws hb]
    have hs : splitOn d (b :: (t ++ d ++ ([LF] ++ tail))) = some (b :: t, [LF] ++ tail) := by
      have := splitOn_first d (b :: t) ([LF] ++ tail) hd (by rw [← hbt]; exact hno)
      simpa using this
    simp only [hs]
    rw [ih f' [LF] (by intro x hx; simp at hx; subst hx; decide)
      (fun x hx => h x (by simp [hx])) (by simp at hf; omega)]
    simp [hbt]

/-! ## regrouping the written stream into frames -/

theorem frames_length (rs : List Bytes) : rs.length ≤ ((rs.map frame1).flatten).length := by
  induction rs with
  | nil => simp
  | cons r rs ih => simp [frame1] at ih ⊢; omega

theorem frames10_length (d : Bytes) (rs : List Bytes) :
    rs.length ≤ ((rs.map (fun r => r ++ (d ++ [LF]))).flatten).length := by
  induction rs with
  | nil => simp
  | cons r rs ih => simp at ih ⊢; omega

/-- The second return written after every 1.1 message is the LF that starts the next chunk header:
return, then `#len LF raw LF ## return return` per request, is the same byte string as one RFC 6242
frame `LF #len LF raw LF ## LF` per request followed by a single LF. -/
theorem regroup11 (rs : List Bytes) :
    LF :: ((rs.map fun r => HASH :: (decDigits r.length ++ LF :: (r ++ [LF, HASH, HASH])) ++ [LF] ++ [LF]).flatten)
      = (rs.map frame1).flatten ++ [LF] := by
  induction rs with
  | nil => rfl
  | cons r rs ih =>
    simp only [List.map_cons, List.flatten_cons]
    have : LF :: (HASH :: (decDigits r.length ++ LF :: (r ++ [LF, HASH, HASH])) ++ [LF] ++ [LF] ++
        ((rs.map fun r => HASH :: (decDigits r.length ++ LF :: (r ++ [LF, HASH, HASH])) ++ [LF] ++ [LF]).flatten))
        = frame1 r ++ (LF :: ((rs.map fun r => HASH :: (decDigits r.length ++ LF :: (r ++ [LF, HASH, HASH])) ++ [LF] ++ [LF]).flatten)) := by
      simp [frame1]
    rw [this, ih]
    simp

end Scrapli.Netconf.Req
