import ScrapliModel.Netconf.Request
import ScrapliModel.Lemmas.Bytes
set_option linter.unusedSimpArgs false
/-! Helper lemmas for the request-framing model (`Netconf/Request.lean`). -/
namespace Scrapli.Netconf.Req
open Scrapli Scrapli.Netconf

/-! ## hasPrefix / splitOn -/

theorem hasPrefix_append_of_le (x y d : Bytes) (h : d.length ≤ x.length) :
    hasPrefix (x ++ y) d = hasPrefix x d := by
  induction d generalizing x with
  | nil => cases x <;> cases y <;> simp [hasPrefix]
  | cons a d ih =>
    cases x with
    | nil => simp at h
    | cons b x =>
      simp only [List.cons_append, hasPrefix]
      rw [ih x (by simpa using h)]

theorem hasPrefix_self_append (d r : Bytes) : hasPrefix (d ++ r) d = true := hasPrefix_append d r

/-- `d` first occurs in `pre ++ d ++ rest` right after `pre`, provided no occurrence starts inside
`pre` (an occurrence starting inside `pre` ends at the latest one byte before the end of `d`). -/
theorem splitOn_first (d pre rest : Bytes) (hd : d ≠ [])
    (h : isInfix d (pre ++ d.dropLast) = false) :
    splitOn d (pre ++ d ++ rest) = some (pre, rest) := by
  induction pre with
  | nil =>
    cases d with
    | nil => exact absurd rfl hd
    | cons a d' =>
      have hp := hasPrefix_self_append (a :: d') rest
      simp only [List.nil_append, List.cons_append] at hp ⊢
      simp only [splitOn, hp, if_true]
      simp
  | cons b t ih =>
    simp only [List.cons_append, isInfix, Bool.or_eq_false_iff] at h
    have hlen : d.length ≤ (b :: (t ++ d.dropLast)).length := by
      simp [List.length_dropLast]; omega
    have hd' : d = d.dropLast ++ [d.getLast hd] := (List.dropLast_concat_getLast hd).symm
    have e : b :: (t ++ d ++ rest) = (b :: (t ++ d.dropLast)) ++ ([d.getLast hd] ++ rest) := by
      conv => lhs; rw [hd']
      simp
    have hnp : hasPrefix (b :: (t ++ d ++ rest)) d = false := by
      rw [e, hasPrefix_append_of_le _ _ _ hlen]; exact h.1
    simp only [List.cons_append, List.append_assoc] at hnp ⊢
    simp only [splitOn, hnp, Bool.false_eq_true, if_false]
    have := ih h.2
    simp only [List.append_assoc] at this
    rw [this]; rfl


/-! ## chunk sizes -/

theorem digitByte_ne_zero (n : Nat) (h0 : 0 < n) (h : n < 10) : digitByte n ≠ 48 := by
  have : n = 1 ∨ n = 2 ∨ n = 3 ∨ n = 4 ∨ n = 5 ∨ n = 6 ∨ n = 7 ∨ n = 8 ∨ n = 9 := by omega
  rcases this with h|h|h|h|h|h|h|h|h <;> subst h <;> decide

theorem decDigits_head_ne_zero (n : Nat) (h : 0 < n) :
    ∃ d ds, decDigits n = d :: ds ∧ d ≠ 48 := by
  induction n using Nat.strongRecOn with
  | _ n ih =>
    unfold decDigits
    split
    · rename_i hlt
      exact ⟨digitByte n, [], rfl, digitByte_ne_zero n h hlt⟩
    · rename_i hge
      obtain ⟨d, ds, he, hne⟩ := ih (n / 10) (by omega) (by omega)
      exact ⟨d, ds ++ [digitByte (n % 10)], by rw [he]; rfl, hne⟩

theorem takeWhile_append_stop {p : UInt8 → Bool} (ds : Bytes) (x : UInt8) (rest : Bytes)
    (h : ∀ b ∈ ds, p b = true) (hx : p x = false) :
    (ds ++ x :: rest).takeWhile p = ds ∧ (ds ++ x :: rest).dropWhile p = x :: rest := by
  induction ds with
  | nil => simp [List.takeWhile, List.dropWhile, hx]
  | cons d t ih =>
    have hd := h d (by simp)
    have := ih (fun b hb => h b (by simp [hb]))
    simp [List.takeWhile, List.dropWhile, hd, this.1, this.2]

/-- a legal RFC 6242 chunk size, printed in decimal, is read back exactly -/
theorem readSize_decDigits (n : Nat) (rest : Bytes) (h0 : 0 < n) (h : n < 2 ^ 32) :
    readSize (decDigits n ++ LF :: rest) = some (n, rest) := by
  obtain ⟨d, ds, he, hne⟩ := decDigits_head_ne_zero n h0
  have htw := takeWhile_append_stop (p := isDigit) (decDigits n) LF rest
    (decDigits_all_digits n) (by decide)
  have hlen : (decDigits n).length ≤ 10 :=
    decDigits_length_le_gen 10 n (by decide) (Nat.lt_of_lt_of_le h (by decide))
  have hp := parseDec_decDigits n
  unfold readSize
  rw [htw.1, htw.2, he]
  rw [he] at hlen hp
  have hn : n ≤ 4294967295 := by
    have : (2:Nat) ^ 32 = 4294967296 := by decide
    omega
  simp [LF, hne, hp, hn]
  simp at hlen; omega


/-! ## RFC 6242 session stream -/

theorem chunks11_one (r rest : Bytes) (f : Nat) (hr : r ≠ []) (hlen : r.length < 2 ^ 32) :
    chunks11 (f + 2) (LF :: HASH :: (decDigits r.length ++ LF :: (r ++ LF :: HASH :: HASH :: LF :: rest)))
      [] false = some (r, rest) := by
  have hpos : 0 < r.length := by cases r with | nil => exact absurd rfl hr | cons _ _ => simp
  obtain ⟨d, ds, he, _⟩ := decDigits_head_ne_zero r.length hpos
  have hd : isDigit d = true := decDigits_all_digits r.length d (by simp [he])
  have hd35 : (d == HASH) = false := isDigit_ne d HASH hd (by decide)
  have hrs := readSize_decDigits r.length (r ++ LF :: HASH :: HASH :: LF :: rest) hpos hlen
  rw [he] at hrs
  rw [he]
  show chunks11 (f + 1 + 1) _ _ _ = _
  simp only [List.cons_append] at hrs ⊢
  have h1 : (LF == LF) = true := by decide
  have h2 : (HASH == HASH) = true := by decide
  simp only [chunks11, h1, h2, hd35, Bool.and_self, if_true, Bool.false_eq_true, if_false, hrs,
    List.length_append, List.length_cons, List.nil_append]
  simp

/-- one request as RFC 6242 frames it when it is sent as a single chunk -/
def frame1 (r : Bytes) : Bytes := LF :: HASH :: (decDigits r.length ++ LF :: (r ++ [LF, HASH, HASH, LF]))

theorem frame1_eq_frame11 (r : Bytes) : frame1 r = frame11 [r] := by
  simp [frame1, frame11, chunk]

def Legal11 (rs : List Bytes) : Prop := ∀ r ∈ rs, r ≠ [] ∧ r.length < 2 ^ 32

theorem msgs11_frames (rs : List Bytes) (f : Nat) (h : Legal11 rs) (hf : rs.length + 1 ≤ f) :
    msgs11 f ((rs.map frame1).flatten ++ [LF]) = some rs := by
  induction rs generalizing f with
  | nil =>
    obtain ⟨f', rfl⟩ : ∃ f', f = f' + 1 := ⟨f - 1, by simp at hf; omega⟩
    simp [msgs11]
  | cons r rs ih =>
    obtain ⟨f', rfl⟩ : ∃ f', f = f' + 1 := ⟨f - 1, by simp at hf; omega⟩
    have hr := h r (by simp)
    have e : ((r :: rs).map frame1).flatten ++ [LF] =
        LF :: HASH :: (decDigits r.length ++ LF :: (r ++ LF :: HASH :: HASH :: LF :: ((rs.map frame1).flatten ++ [LF]))) := by
      simp [frame1]
    rw [e]
    generalize hrest : (rs.map frame1).flatten ++ [LF] = rest
    have hc := fun g => chunks11_one r rest g hr.1 hr.2
    simp only [msgs11]
    have hne : ((LF :: HASH :: (decDigits r.length ++ LF :: (r ++ LF :: HASH :: HASH :: LF :: rest))).isEmpty
        || (LF :: HASH :: (decDigits r.length ++ LF :: (r ++ LF :: HASH :: HASH :: LF :: rest))) == [LF]) = false := by
      simp
    rw [hne]
    simp only [Bool.false_eq_true, if_false, List.length_cons]
    rw [hc]
    simp only
    rw [← hrest, ih f' (fun x hx => h x (by simp [hx])) (by simp at hf; omega)]
    rfl

/-! ## RFC 4742 session stream -/

theorem dropWhile_all_nil {p : UInt8 → Bool} (ws : Bytes) (h : ∀ b ∈ ws, p b = true) :
    ws.dropWhile p = [] := by
  induction ws with
  | nil => rfl
  | cons a t ih =>
    simp only [List.dropWhile, h a (by simp)]
    exact ih (fun b hb => h b (by simp [hb]))

/-- what makes a 1.0 message recoverable from RFC 4742 framing: it does not begin with white space
and the end-of-message marker does not occur early, not even straddling the message's end -/
def startsNonWs : Bytes → Bool
  | [] => false
  | b :: _ => !isXmlWs b

def Legal10 (d : Bytes) (rs : List Bytes) : Prop :=
  ∀ r ∈ rs, startsNonWs r = true ∧ isInfix d (r ++ d.dropLast) = false

theorem startsNonWs_cons {r : Bytes} (h : startsNonWs r = true) :
    ∃ b t, r = b :: t ∧ isXmlWs b = false := by
  cases r with
  | nil => simp [startsNonWs] at h
  | cons b t => exact ⟨b, t, rfl, by simpa [startsNonWs] using h⟩

theorem msgs10_frames (d : Bytes) (hd : d ≠ []) (rs : List Bytes) (f : Nat) (ws : Bytes)
    (hws : ∀ b ∈ ws, isXmlWs b = true) (h : Legal10 d rs) (hf : rs.length + 1 ≤ f) :
    msgs10 d f (ws ++ (rs.map (fun r => r ++ (d ++ [LF]))).flatten) = some rs := by
  induction rs generalizing f ws with
  | nil =>
    obtain ⟨f', rfl⟩ : ∃ f', f = f' + 1 := ⟨f - 1, by simp at hf; omega⟩
    have : ws.dropWhile isXmlWs = [] := dropWhile_all_nil ws hws
    simp [msgs10, this]
  | cons r rs ih =>
    obtain ⟨f', rfl⟩ : ∃ f', f = f' + 1 := ⟨f - 1, by simp at hf; omega⟩
    obtain ⟨hsw, hno⟩ := h r (by simp)
    obtain ⟨b, t, hbt, hb⟩ := startsNonWs_cons hsw
    generalize htail : (rs.map (fun r => r ++ (d ++ [LF]))).flatten = tail at *
    have e : ws ++ ((r :: rs).map (fun r => r ++ (d ++ [LF]))).flatten
        = ws ++ b :: (t ++ d ++ ([LF] ++ tail)) := by
      simp [hbt, htail]
    rw [e, msgs10, dropWhile_all_append ws b _ hws hb]
    have hs : splitOn d (b :: (t ++ d ++ ([LF] ++ tail))) = some (b :: t, [LF] ++ tail) := by
      have := splitOn_first d (b :: t) ([LF] ++ tail) hd (by rw [← hbt]; exact hno)
      simpa using this
    simp only [hs]
    rw [ih f' [LF] (by intro x hx; simp at hx; subst hx; decide)
      (fun x hx => h x (by simp [hx])) (by simp at hf; omega)]
    simp [hbt]

/-! ## regrouping the written stream into frames -/

theorem frames_length (rs : List Bytes) : rs.length ≤ ((rs.map frame1).flatten).length := by
  induction rs with
  | nil => simp
  | cons r rs ih => simp [frame1] at ih ⊢; omega

theorem frames10_length (d : Bytes) (rs : List Bytes) :
    rs.length ≤ ((rs.map (fun r => r ++ (d ++ [LF]))).flatten).length := by
  induction rs with
  | nil => simp
  | cons r rs ih => simp at ih ⊢; omega

/-- The second return written after every 1.1 message is the LF that starts the next chunk header:
return, then `#len LF raw LF ## return return` per request, is the same byte string as one RFC 6242
frame `LF #len LF raw LF ## LF` per request followed by a single LF. -/
theorem regroup11 (rs : List Bytes) :
    LF :: ((rs.map fun r => HASH :: (decDigits r.length ++ LF :: (r ++ [LF, HASH, HASH])) ++ [LF] ++ [LF]).flatten)
      = (rs.map frame1).flatten ++ [LF] := by
  induction rs with
  | nil => rfl
  | cons r rs ih =>
    simp only [List.map_cons, List.flatten_cons]
    have : LF :: (HASH :: (decDigits r.length ++ LF :: (r ++ [LF, HASH, HASH])) ++ [LF] ++ [LF] ++
        ((rs.map fun r => HASH :: (decDigits r.length ++ LF :: (r ++ [LF, HASH, HASH])) ++ [LF] ++ [LF]).flatten))
        = frame1 r ++ (LF :: ((rs.map fun r => HASH :: (decDigits r.length ++ LF :: (r ++ [LF, HASH, HASH])) ++ [LF] ++ [LF]).flatten)) := by
      simp [frame1]
    rw [this, ih]
    simp

/-! ## the self-closing scanner -/

theorem takeWhile_all (p : UInt8 → Bool) (l : Bytes) : ∀ b ∈ l.takeWhile p, p b = true := by
  induction l with
  | nil => simp
  | cons a t ih =>
    intro b hb
    simp only [List.takeWhile] at hb
    split at hb
    · rename_i ha
      simp only [List.mem_cons] at hb
      rcases hb with rfl | hb
      · exact ha
      · exact ih b hb
    · simp at hb

theorem spanTag_eq {s tag r : Bytes} (h : spanTag s = some (tag, r)) :
    s = tag ++ GTc :: r ∧ ∀ b ∈ tag, b ≠ GTc := by
  induction s generalizing tag with
  | nil => simp [spanTag] at h
  | cons b t ih =>
    simp only [spanTag] at h
    split at h
    · rename_i hb
      simp only [Option.some.injEq, Prod.mk.injEq] at h
      obtain ⟨rfl, rfl⟩ := h
      simp at hb
      simp [hb]
    · rename_i hb
      cases hs : spanTag t with
      | none => simp [hs] at h
      | some p =>
        obtain ⟨x, r'⟩ := p
        simp only [hs, Option.map_some, Option.some.injEq, Prod.mk.injEq] at h
        obtain ⟨rfl, rfl⟩ := h
        obtain ⟨e, hx⟩ := ih hs
        refine ⟨by rw [e]; rfl, ?_⟩
        intro c hc
        simp only [List.mem_cons] at hc
        rcases hc with rfl | hc
        · simpa using hb
        · exact hx c hc

/-- shape of the attribute group: absent, or one white-space byte and at least one more byte -/
def AttrShape (a : Bytes) : Prop := a = [] ∨ ∃ w r, a = w :: r ∧ isWs w = true ∧ r ≠ []

theorem splitTag_eq {tag n a : Bytes} (h : splitTag tag = some (n, a)) :
    tag = n ++ a ∧ n ≠ [] ∧ (∀ b ∈ n, b ≠ SLc) ∧ AttrShape a := by
  induction tag generalizing n with
  | nil => simp [splitTag] at h
  | cons b t ih =>
    cases t with
    | nil =>
      simp only [splitTag] at h
      split at h
      · simp at h
      · rename_i hb
        have hb' : b ≠ SLc := by simpa using hb
        simp only [Option.some.injEq, Prod.mk.injEq] at h
        obtain ⟨rfl, rfl⟩ := h
        exact ⟨rfl, by simp, by simpa using hb', Or.inl rfl⟩
    | cons c t' =>
      simp only [splitTag] at h
      split at h
      · simp at h
      · rename_i hb
        have hb' : b ≠ SLc := by simpa using hb
        split at h
        · rename_i hc
          simp only [Option.some.injEq, Prod.mk.injEq] at h
          obtain ⟨rfl, rfl⟩ := h
          simp only [Bool.and_eq_true, Bool.not_eq_true', List.isEmpty_eq_false_iff] at hc
          exact ⟨rfl, by simp, by simpa using hb', Or.inr ⟨c, t', rfl, hc.1, hc.2⟩⟩
        · cases hs : splitTag (c :: t') with
          | none => simp [hs] at h
          | some p =>
            obtain ⟨n', a'⟩ := p
            simp only [hs, Option.map_some, Option.some.injEq, Prod.mk.injEq] at h
            obtain ⟨rfl, rfl⟩ := h
            obtain ⟨e, _, hn, ha⟩ := ih hs
            refine ⟨by rw [e]; rfl, by simp, ?_, ha⟩
            intro x hx
            simp only [List.mem_cons] at hx
            rcases hx with rfl | hx
            · exact hb'
            · exact hn x hx

theorem closeTail_ok {d cn rest : Bytes} (h : closeTail d = some (cn, rest)) :
    d = LTc :: SLc :: (cn ++ GTc :: rest) ∧ cn ≠ [] ∧ (∀ b ∈ cn, isWordDash b = true) := by
  unfold closeTail at h
  split at h
  · rename_i a b r2
    split at h
    · rename_i hab
      simp only [Bool.and_eq_true, beq_iff_eq] at hab
      obtain ⟨rfl, rfl⟩ := hab
      split at h
      · rename_i c cn' g rest' htw hdw2
        split at h
        · rename_i hg
          simp only [beq_iff_eq] at hg
          subst hg
          simp only [Option.some.injEq, Prod.mk.injEq] at h
          obtain ⟨rfl, rfl⟩ := h
          have e2 : r2 = (c :: cn') ++ GTc :: rest' := by
            conv => lhs; rw [← List.takeWhile_append_dropWhile (p := isWordDash) (l := r2)]
            rw [htw, hdw2]
          refine ⟨by rw [e2], by simp, ?_⟩
          intro x hx
          rw [← htw] at hx
          exact takeWhile_all _ _ x hx
        · simp at h
      · simp at h
    · simp at h
  · simp at h

theorem closeAt_ok {r1 ws cn rest : Bytes} (h : closeAt r1 = some (ws, cn, rest)) :
    r1 = ws ++ LTc :: SLc :: (cn ++ GTc :: rest) ∧ (∀ b ∈ ws, isWs b = true)
      ∧ cn ≠ [] ∧ (∀ b ∈ cn, isWordDash b = true) := by
  unfold closeAt at h
  cases ht : closeTail (r1.dropWhile isWs) with
  | none => simp [ht] at h
  | some p =>
    obtain ⟨cn', rest'⟩ := p
    simp only [ht, Option.map_some, Option.some.injEq, Prod.mk.injEq] at h
    obtain ⟨rfl, rfl, rfl⟩ := h
    obtain ⟨e, hcn, hcw⟩ := closeTail_ok ht
    refine ⟨?_, takeWhile_all _ _, hcn, hcw⟩
    conv => lhs; rw [← List.takeWhile_append_dropWhile (p := isWs) (l := r1), e]

/-- everything `matchAt` promises about a match -/
structure MatchOK (s : Bytes) (m : Match) : Prop where
  eq : s = m.name ++ m.attrs ++ GTc :: (m.ws ++ LTc :: SLc :: (m.cname ++ GTc :: m.rest))
  name_ne : m.name ≠ []
  name_noSlash : ∀ b ∈ m.name, b ≠ SLc
  tag_noGT : ∀ b ∈ m.name ++ m.attrs, b ≠ GTc
  attrs_shape : AttrShape m.attrs
  ws_space : ∀ b ∈ m.ws, isWs b = true
  cname_ne : m.cname ≠ []
  cname_word : ∀ b ∈ m.cname, isWordDash b = true
  split : splitTag (m.name ++ m.attrs) = some (m.name, m.attrs)
  close : closeAt (m.ws ++ LTc :: SLc :: (m.cname ++ GTc :: m.rest)) = some (m.ws, m.cname, m.rest)

theorem matchAt_ok {s : Bytes} {m : Match} (h : matchAt s = some m) : MatchOK s m := by
  unfold matchAt at h
  split at h
  · simp at h
  · rename_i tag r1 hsp
    obtain ⟨es, hgt⟩ := spanTag_eq hsp
    split at h
    · simp at h
    · rename_i ws cn rest hc
      obtain ⟨er, hws, hcn, hcw⟩ := closeAt_ok hc
      cases hst : splitTag tag with
      | none => simp [hst] at h
      | some p =>
        obtain ⟨n, at'⟩ := p
        simp only [hst, Option.map_some, Option.some.injEq] at h
        subst h
        obtain ⟨et, hne, hns, hsh⟩ := splitTag_eq hst
        refine ⟨?_, hne, hns, ?_, hsh, hws, hcn, hcw, ?_, ?_⟩
        · simp only; rw [es, et, er]
        · simpa [et] using hgt
        · simp only; rw [← et]; exact hst
        · simp only; rw [← er]; exact hc

theorem Rewrites.refl (s : Bytes) : Rewrites s s := by
  induction s with
  | nil => exact .nil
  | cons b t ih => exact .keep b ih

theorem Rewrites.append_left (p : Bytes) {s t : Bytes} (h : Rewrites s t) :
    Rewrites (p ++ s) (p ++ t) := by
  induction p with
  | nil => exact h
  | cons b p ih => exact .keep b ih

theorem eligible_emptyElem {s : Bytes} {m : Match} (h : MatchOK s m) (he : m.eligible = true) :
    m.cname = m.name ∧ EmptyElem m.name m.attrs m.ws := by
  simp only [Match.eligible, Bool.and_eq_true, beq_iff_eq, bne_iff_ne, ne_eq] at he
  obtain ⟨hn, hl⟩ := he
  refine ⟨hn.symm, h.name_ne, ?_, h.attrs_shape, ?_, hl, h.ws_space⟩
  · rw [hn]; exact h.cname_word
  · intro b hb; exact h.tag_noGT b (by simp [hb])

theorem scan_rewrites (f : Nat) (s : Bytes) : Rewrites s (scan Match.eligible f s) := by
  induction f generalizing s with
  | zero => simp only [scan]; exact Rewrites.refl s
  | succ f ih =>
    cases s with
    | nil => simp only [scan]; exact .nil
    | cons b t =>
      simp only [scan]
      split
      · rename_i hb
        simp only [beq_iff_eq] at hb
        subst hb
        split
        · rename_i m hm
          have ok := matchAt_ok hm
          split
          · rename_i he
            obtain ⟨hcn, hee⟩ := eligible_emptyElem ok he
            have := Rewrites.close m.name m.attrs m.ws hee (ih m.rest)
            have e := ok.eq
            rw [hcn] at e
            rw [e]
            simpa [Match.closed] using this
          · have e : LTc :: t = m.full ++ m.rest := by
              rw [ok.eq]; simp [Match.full]
            rw [e]
            exact Rewrites.append_left _ (ih m.rest)
        · exact .keep _ (ih t)
      · exact .keep _ (ih t)


theorem MatchOK.rest_lt {s : Bytes} {m : Match} (h : MatchOK s m) : m.rest.length + 4 ≤ s.length := by
  have := congrArg List.length h.eq
  simp only [List.length_append, List.length_cons] at this
  omega

/-- enough fuel is as good as more fuel -/
theorem scan_fuel (elig : Match → Bool) (f g : Nat) (s : Bytes) (hf : s.length ≤ f) (hg : s.length ≤ g) :
    scan elig f s = scan elig g s := by
  induction f generalizing g s with
  | zero =>
    have : s = [] := by cases s with | nil => rfl | cons _ _ => simp at hf
    subst this
    cases g <;> simp [scan]
  | succ f ih =>
    cases s with
    | nil => cases g <;> simp [scan]
    | cons b t =>
      obtain ⟨g', rfl⟩ : ∃ g', g = g' + 1 := ⟨g - 1, by simp at hg; omega⟩
      simp only [List.length_cons] at hf hg
      simp only [scan]
      split
      · split
        · rename_i m hm
          have := (matchAt_ok hm).rest_lt
          rw [ih g' m.rest (by omega) (by omega)]
        · rw [ih g' t (by omega) (by omega)]
      · rw [ih g' t (by omega) (by omega)]

theorem fsc_eq_scan (f : Nat) (s : Bytes) (h : s.length ≤ f) :
    scan Match.eligible f s = forceSelfClosing s :=
  scan_fuel _ _ _ _ h (Nat.le_refl _)

theorem fsc_nil : forceSelfClosing [] = [] := rfl

theorem fsc_cons_ne (b : UInt8) (t : Bytes) (hb : b ≠ LTc) :
    forceSelfClosing (b :: t) = b :: forceSelfClosing t := by
  have : (b == LTc) = false := by simpa using hb
  simp only [forceSelfClosing, List.length_cons, scan, this, Bool.false_eq_true, if_false]

theorem fsc_lt_none (t : Bytes) (h : matchAt t = none) :
    forceSelfClosing (LTc :: t) = LTc :: forceSelfClosing t := by
  simp only [forceSelfClosing, List.length_cons, scan, beq_self_eq_true, if_true, h]

theorem fsc_lt_some (t : Bytes) (m : Match) (h : matchAt t = some m) :
    forceSelfClosing (LTc :: t) =
      (if m.eligible then m.closed else m.full) ++ forceSelfClosing m.rest := by
  have := (matchAt_ok h).rest_lt
  simp only [forceSelfClosing, List.length_cons, scan, beq_self_eq_true, if_true, h]
  rw [scan_fuel Match.eligible t.length m.rest.length m.rest (by omega) (Nat.le_refl _)]

/-- text without `<` is copied -/
theorem fsc_append_noLT (pre s : Bytes) (h : ∀ b ∈ pre, b ≠ LTc) :
    forceSelfClosing (pre ++ s) = pre ++ forceSelfClosing s := by
  induction pre with
  | nil => rfl
  | cons b p ih =>
    rw [List.cons_append, fsc_cons_ne b _ (h b (by simp)), ih (fun x hx => h x (by simp [hx]))]
    rfl

theorem spanTag_append (tag r : Bytes) (h : ∀ b ∈ tag, b ≠ GTc) :
    spanTag (tag ++ GTc :: r) = some (tag, r) := by
  induction tag with
  | nil => simp [spanTag]
  | cons b t ih =>
    have hb : (b == GTc) = false := by simpa using h b (by simp)
    simp only [List.cons_append, spanTag, hb, Bool.false_eq_true, if_false,
      ih (fun x hx => h x (by simp [hx]))]
    rfl

theorem isWordDash_ne (b c : UInt8) (h : isWordDash b = true) (hc : isWordDash c = false) : b ≠ c := by
  intro e; subst e; rw [h] at hc; exact absurd hc (by simp)

theorem isWordDash_not_ws (b : UInt8) (h : isWordDash b = true) : isWs b = false := by
  have h9 := isWordDash_ne b 9 h (by decide)
  have h10 := isWordDash_ne b 10 h (by decide)
  have h12 := isWordDash_ne b 12 h (by decide)
  have h13 := isWordDash_ne b 13 h (by decide)
  have h32 := isWordDash_ne b 32 h (by decide)
  simp [isWs, h9, h10, h12, h13, h32]

theorem splitTag_name_attrs (n a : Bytes) (hn : n ≠ []) (hw : ∀ b ∈ n, isWordDash b = true)
    (ha : AttrShape a) : splitTag (n ++ a) = some (n, a) := by
  induction n with
  | nil => exact absurd rfl hn
  | cons b t ih =>
    have hb := hw b (by simp)
    have hbs : (b == SLc) = false := by
      have := isWordDash_ne b SLc hb (by decide); simpa using this
    cases t with
    | nil =>
      rcases ha with rfl | ⟨w, r, rfl, hw', hr⟩
      · simp [splitTag, hbs]
      · have : r.isEmpty = false := by cases r with | nil => exact absurd rfl hr | cons _ _ => rfl
        simp [splitTag, hbs, hw', this]
    | cons c t' =>
      have hc := hw c (by simp)
      have hcw := isWordDash_not_ws c hc
      have := ih (by simp) (fun x hx => hw x (by simp [hx]))
      simp only [List.cons_append] at this ⊢
      simp only [splitTag, hbs, Bool.false_eq_true, if_false, hcw, Bool.false_and, this]
      rfl

theorem closeTail_build (cn rest : Bytes) (hcn : cn ≠ []) (hcw : ∀ b ∈ cn, isWordDash b = true) :
    closeTail (LTc :: SLc :: (cn ++ GTc :: rest)) = some (cn, rest) := by
  have h2 := takeWhile_append_stop (p := isWordDash) cn GTc rest hcw (by decide)
  obtain ⟨c, cn', rfl⟩ : ∃ c cn', cn = c :: cn' := by
    cases cn with | nil => exact absurd rfl hcn | cons c cn' => exact ⟨c, cn', rfl⟩
  unfold closeTail
  simp only [h2.1, h2.2, beq_self_eq_true, Bool.and_self, if_true]

theorem closeAt_build (ws cn rest : Bytes) (hws : ∀ b ∈ ws, isWs b = true)
    (hcn : cn ≠ []) (hcw : ∀ b ∈ cn, isWordDash b = true) :
    closeAt (ws ++ LTc :: SLc :: (cn ++ GTc :: rest)) = some (ws, cn, rest) := by
  have h1 := takeWhile_append_stop (p := isWs) ws LTc (SLc :: (cn ++ GTc :: rest)) hws (by decide)
  unfold closeAt
  rw [h1.1, h1.2, closeTail_build cn rest hcn hcw]
  rfl

/-- `matchAt` after a tag text without `>`: closing part, then the split of the tag text -/
theorem matchAt_append (tag r1 : Bytes) (htag : ∀ b ∈ tag, b ≠ GTc) :
    matchAt (tag ++ GTc :: r1) =
      match closeAt r1 with
      | none => none
      | some (ws, cn, rest) => (splitTag tag).map fun (n, a) => ⟨n, a, ws, cn, rest⟩ := by
  unfold matchAt
  rw [spanTag_append tag r1 htag]
  rfl

/-- a match is rebuilt from its parts, whatever follows it -/
theorem matchAt_build (n a ws cn rest : Bytes) (hsp : splitTag (n ++ a) = some (n, a))
    (hgt : ∀ b ∈ n ++ a, b ≠ GTc) (hws : ∀ b ∈ ws, isWs b = true)
    (hcn : cn ≠ []) (hcw : ∀ b ∈ cn, isWordDash b = true) :
    matchAt (n ++ a ++ GTc :: (ws ++ LTc :: SLc :: (cn ++ GTc :: rest))) = some ⟨n, a, ws, cn, rest⟩ := by
  rw [matchAt_append _ _ hgt, closeAt_build ws cn rest hws hcn hcw]
  simp only [hsp, Option.map_some]

/-- the pattern matches an empty element exactly as written -/
theorem matchAt_emptyElem (n a ws cn rest : Bytes) (hn : n ≠ []) (hw : ∀ b ∈ n, isWordDash b = true)
    (ha : AttrShape a) (hgt : ∀ b ∈ a, b ≠ GTc) (hws : ∀ b ∈ ws, isWs b = true)
    (hcn : cn ≠ []) (hcw : ∀ b ∈ cn, isWordDash b = true) :
    matchAt (n ++ a ++ GTc :: (ws ++ LTc :: SLc :: (cn ++ GTc :: rest))) = some ⟨n, a, ws, cn, rest⟩ := by
  have htag : ∀ b ∈ n ++ a, b ≠ GTc := by
    intro b hb
    simp only [List.mem_append] at hb
    rcases hb with hb | hb
    · exact isWordDash_ne b GTc (hw b hb) (by decide)
    · exact hgt b hb
  exact matchAt_build n a ws cn rest (splitTag_name_attrs n a hn hw ha) htag hws hcn hcw

theorem hasPrefix_eq (s p : Bytes) (h : hasPrefix s p = true) : s = p ++ s.drop p.length := by
  induction p generalizing s with
  | nil => simp
  | cons a p ih =>
    cases s with
    | nil => simp [hasPrefix] at h
    | cons b s =>
      simp only [hasPrefix, Bool.and_eq_true, beq_iff_eq] at h
      obtain ⟨rfl, h⟩ := h
      simp only [List.cons_append, List.length_cons, List.drop_succ_cons]
      rw [← ih s h]

/-- the executable checker only accepts pairs in the `Rewrites` relation -/
theorem checkRewrite_sound (f : Nat) (s t : Bytes) (h : checkRewrite f s t = true) :
    Rewrites s t := by
  induction f generalizing s t with
  | zero =>
    cases s <;> cases t <;> simp [checkRewrite] at h
    exact .nil
  | succ f ih =>
    cases s with
    | nil => cases t with
      | nil => exact .nil
      | cons _ _ => simp [checkRewrite] at h
    | cons b s =>
      cases t with
      | nil => simp [checkRewrite] at h
      | cons c t =>
        simp only [checkRewrite, Bool.or_eq_true, Bool.and_eq_true, beq_iff_eq] at h
        rcases h with ⟨rfl, h⟩ | ⟨⟨rfl, rfl⟩, h⟩
        · exact .keep _ (ih s t h)
        · split at h
          · rename_i m hm
            simp only [Bool.and_eq_true] at h
            obtain ⟨⟨he, hp⟩, hr⟩ := h
            have ok := matchAt_ok hm
            obtain ⟨hcn, hee⟩ := eligible_emptyElem ok he
            have r := Rewrites.close m.name m.attrs m.ws hee (ih _ _ hr)
            have e := ok.eq
            rw [hcn] at e
            rw [e, hasPrefix_eq t _ hp]
            simpa using r
          · simp at h


/-! ## more scanner facts used by the property theorems -/

theorem dropWhile_head_false {p : UInt8 → Bool} {l t : Bytes} {x : UInt8}
    (h : l.dropWhile p = x :: t) : p x = false := by
  induction l with
  | nil => simp at h
  | cons a l ih =>
    simp only [List.dropWhile] at h
    split at h
    · exact ih h
    · rename_i ha
      simp only [List.cons.injEq] at h
      rw [← h.1]; simpa using ha

theorem matchAt_slash (s : Bytes) : matchAt (SLc :: s) = none := by
  unfold matchAt
  have hs : spanTag (SLc :: s) = (spanTag s).map fun (x, r) => (SLc :: x, r) := by
    simp [spanTag, SLc, GTc]
  rw [hs]
  cases h : spanTag s with
  | none => rfl
  | some p =>
    obtain ⟨x, r⟩ := p
    simp only [Option.map_some]
    have hst : splitTag (SLc :: x) = none := by
      cases x <;> simp [splitTag]
    split
    · rfl
    · rw [hst]; rfl

theorem closeAt_none_of_head (r : Bytes) (x y : UInt8) (r' : Bytes)
    (hr : r.dropWhile isWs = x :: y :: r') (hxy : ¬ (x = LTc ∧ y = SLc)) : closeAt r = none := by
  unfold closeAt closeTail
  simp only [hr]
  have : (x == LTc && y == SLc) = false := by
    cases h1 : x == LTc <;> cases h2 : y == SLc <;> simp_all
  simp [this]

/-- a `<tag>` whose following text does not continue with white space and `</` is not a match -/
theorem matchAt_no_close (tag r : Bytes) (x y : UInt8) (r' : Bytes) (htag : ∀ b ∈ tag, b ≠ GTc)
    (hr : r.dropWhile isWs = x :: y :: r') (hxy : ¬ (x = LTc ∧ y = SLc)) :
    matchAt (tag ++ GTc :: r) = none := by
  rw [matchAt_append tag r htag, closeAt_none_of_head r x y r' hr hxy]

theorem matchAt_tag (tag r : Bytes) (m : Match) (htag : ∀ b ∈ tag, b ≠ GTc)
    (h : matchAt (tag ++ GTc :: r) = some m) : m.name ++ m.attrs = tag := by
  have ok := matchAt_ok h
  have h1 := spanTag_append tag r htag
  have h2 := spanTag_append (m.name ++ m.attrs) (m.ws ++ LTc :: SLc :: (m.cname ++ GTc :: m.rest)) ok.tag_noGT
  rw [← ok.eq, h1] at h2
  simp only [Option.some.injEq, Prod.mk.injEq] at h2
  exact h2.1.symm

/-- whatever follows, the text of a tag that contains no `<` survives the rewrite, followed by
`>` or `/>` -/
theorem fsc_tag_prefix (tag r : Bytes) (hgt : ∀ b ∈ tag, b ≠ GTc) (hlt : ∀ b ∈ tag, b ≠ LTc) :
    ∃ tail, forceSelfClosing (LTc :: (tag ++ GTc :: r)) = LTc :: (tag ++ tail) := by
  cases h : matchAt (tag ++ GTc :: r) with
  | none =>
    rw [fsc_lt_none _ h, fsc_append_noLT tag _ hlt]
    exact ⟨_, rfl⟩
  | some m =>
    rw [fsc_lt_some _ m h]
    have ht := matchAt_tag tag r m hgt h
    split
    · exact ⟨SLc :: GTc :: forceSelfClosing m.rest, by simp [Match.closed, ← ht]⟩
    · exact ⟨GTc :: (m.ws ++ LTc :: SLc :: (m.cname ++ [GTc])) ++ forceSelfClosing m.rest, by
        simp [Match.full, ← ht]⟩

theorem matchAt_mem_slash {s : Bytes} {m : Match} (h : matchAt s = some m) : SLc ∈ s := by
  rw [(matchAt_ok h).eq]; simp

theorem fsc_id_of_noSlash (s : Bytes) (h : ∀ b ∈ s, b ≠ SLc) : forceSelfClosing s = s := by
  induction s with
  | nil => rfl
  | cons b t ih =>
    have iht := ih (fun x hx => h x (by simp [hx]))
    by_cases hb : b = LTc
    · subst hb
      cases hm : matchAt t with
      | none => rw [fsc_lt_none _ hm, iht]
      | some m => exact absurd rfl (h SLc (by simp [matchAt_mem_slash hm]))
    · rw [fsc_cons_ne b t hb, iht]

/-! ## reading the message-id back -/

theorem msgIdOf_prefix (pre tail : Bytes) (n : Nat)
    (h : isInfix msgIdKey (pre ++ msgIdKey.dropLast) = false) :
    msgIdOf (pre ++ msgIdKey ++ (decDigits n ++ 34 :: tail)) = some n := by
  unfold msgIdOf
  rw [splitOn_first msgIdKey pre _ (by decide) h]
  have := takeWhile_append_stop (p := isDigit) (decDigits n) 34 tail (decDigits_all_digits n) (by decide)
  simp only [this.1, this.2, beq_self_eq_true, if_true]
  exact parseDec_decDigits n

end Scrapli.Netconf.Req
