import ScrapliModel.FailedFault
import ScrapliModel.Lemmas.Failed
/-! Helper lemmas for the error returns of the send loop (C13). Core Lean only. -/
namespace Scrapli.Failed
open Scrapli

theorem sendCommandE_eq {σ : Type} (dev : DevE σ) (drv : List Bytes) (op : Op) (s : Sess σ) (c : Bytes) :
    sendCommandE dev drv op s c =
      ((dev s.dev c).2.map (mkResp (effective op.fwc drv) c),
       { fwc := effective op.fwc drv, stop := op.stop },
       { dev := (dev s.dev c).1, log := s.log ++ [c] }) := by
  unfold sendCommandE effective mkResp
  rcases hd : dev s.dev c with ⟨d', b⟩
  split <;> cases b <;> rfl

def runE {σ : Type} (dev : DevE σ) : σ → List Bytes → σ
  | d, [] => d
  | d, c :: cs => runE dev (dev d c).1 cs

/-- the loop without the special-cased last element -/
def sendUniformE {σ : Type} (dev : DevE σ) (drv : List Bytes) :
    List Bytes → Op → Multi → Sess σ → SendRes × Sess σ
  | [], _, m, s => (.ok m, s)
  | c :: cs, op, m, s =>
    match sendCommandE dev drv op s c with
    | (none, _, s') => (.chanErr, s')
    | (some r, op', s') =>
      if op'.stop && r.failed.isSome then (.ok (m.append r), s')
      else sendUniformE dev drv cs op' (m.append r) s'

/-- what `SendCommands` does with the loop's outcome -/
def afterLoopE {σ : Type} (dev : DevE σ) (drv : List Bytes) (last : Bytes) : LoopOut σ → SendRes × Sess σ
  | .err s' => (.chanErr, s')
  | .early m s' => (.ok m, s')
  | .cont m op' s' =>
    match sendCommandE dev drv op' s' last with
    | (none, _, s'') => (.chanErr, s'')
    | (some r, _, s'') => (.ok (m.append r), s'')

theorem sendCommandsE_eq {σ : Type} (dev : DevE σ) (drv : List Bytes) (op : Op) (s : Sess σ)
    (cmds : List Bytes) :
    sendCommandsE dev drv op s cmds =
      match cmds.getLast? with
      | none => (.noop, s)
      | some last => afterLoopE dev drv last (sendLoopE dev drv cmds.dropLast op Multi.empty s) := by
  unfold sendCommandsE
  cases cmds.getLast? with
  | none => rfl
  | some last =>
    simp only [afterLoopE]
    cases sendLoopE dev drv cmds.dropLast op Multi.empty s <;> rfl

theorem sendLoopE_then_last {σ : Type} (dev : DevE σ) (drv : List Bytes) (init : List Bytes) (last : Bytes)
    (op : Op) (m : Multi) (s : Sess σ) :
    afterLoopE dev drv last (sendLoopE dev drv init op m s) = sendUniformE dev drv (init ++ [last]) op m s := by
  induction init generalizing op m s with
  | nil =>
    simp only [sendLoopE, afterLoopE, List.nil_append, sendUniformE, sendCommandE_eq]
    cases (dev s.dev last).2 with
    | none => rfl
    | some b =>
      simp only [Option.map_some]
      split <;> rfl
  | cons c cs ih =>
    simp only [sendLoopE, List.cons_append, sendUniformE, sendCommandE_eq]
    cases (dev s.dev c).2 with
    | none => rfl
    | some b =>
      simp only [Option.map_some]
      split
      · rfl
      · exact ih _ _ _

/-- the responses for the answered prefix -/
def respsE (eff : List Bytes) (cs : List Bytes) (a : List (Option Bytes)) : List Resp :=
  List.zipWith (mkResp eff) cs (a.map (·.getD []))

theorem sendUniformE_spec {σ : Type} (dev : DevE σ) (drv : List Bytes) (cs : List Bytes)
    (op : Op) (m : Multi) (s : Sess σ) :
    sendUniformE dev drv cs op m s =
      if firstNone (answersE dev s.dev cs) <
          sentCount op.stop ((answersE dev s.dev cs).map (flagE (effective op.fwc drv))) then
        (.chanErr,
         { dev := runE dev s.dev (cs.take (firstNone (answersE dev s.dev cs) + 1)),
           log := s.log ++ cs.take (firstNone (answersE dev s.dev cs) + 1) })
      else
        (.ok ((respsE (effective op.fwc drv)
            (cs.take (sentCount op.stop ((answersE dev s.dev cs).map (flagE (effective op.fwc drv)))))
            ((answersE dev s.dev cs).take (sentCount op.stop ((answersE dev s.dev cs).map (flagE (effective op.fwc drv)))))).foldl
            Multi.append m),
         { dev := runE dev s.dev (cs.take (sentCount op.stop ((answersE dev s.dev cs).map (flagE (effective op.fwc drv))))),
           log := s.log ++ cs.take (sentCount op.stop ((answersE dev s.dev cs).map (flagE (effective op.fwc drv)))) }) := by
  induction cs generalizing op m s with
  | nil => simp [sendUniformE, answersE, sentCount, runE, firstNone, respsE]
  | cons c cs ih =>
    simp only [sendUniformE, sendCommandE_eq, answersE, List.map_cons]
    cases hb : (dev s.dev c).2 with
    | none =>
      have hpos : 0 < sentCount op.stop (flagE (effective op.fwc drv) none ::
          (answersE dev (dev s.dev c).1 cs).map (flagE (effective op.fwc drv))) :=
        sentCount_pos _ _ (by simp)
      simp [firstNone, hpos, runE]
    | some b =>
      simp only [Option.map_some, mkResp_failed_isSome, firstNone, flagE]
      cases hstop : op.stop
      · simp only [Bool.false_and, Bool.false_eq_true, if_false]
        rw [ih]
        simp only [effective_idem, sentCount, Bool.false_eq_true, if_false, List.length_cons, List.length_map,
          Nat.add_lt_add_iff_right]
        split
        · simp [runE, List.append_assoc]
        · simp [runE, respsE, List.append_assoc]
      · by_cases hmt : marks (effective op.fwc drv) b = true
        · have e : sentCount true (true :: (answersE dev (dev s.dev c).1 cs).map (flagE (effective op.fwc drv))) = 1 := by
            simp only [sentCount, if_true, firstTrue, List.length_cons]
            omega
          simp [hmt, e, runE, respsE]
        · have hm : marks (effective op.fwc drv) b = false := by simpa using hmt
          simp only [hm, Bool.and_false, Bool.false_eq_true, if_false]
          rw [ih]
          have hle := firstTrue_le ((answersE dev (dev s.dev c).1 cs).map (flagE (effective op.fwc drv)))
          have e : sentCount true (false :: (answersE dev (dev s.dev c).1 cs).map (flagE (effective op.fwc drv)))
              = sentCount true ((answersE dev (dev s.dev c).1 cs).map (flagE (effective op.fwc drv))) + 1 := by
            simp only [sentCount, if_true, firstTrue, Bool.false_eq_true, if_false, List.length_cons]
            omega
          simp only [effective_idem, e, Nat.add_lt_add_iff_right]
          split
          · simp [runE, List.append_assoc]
          · simp [runE, respsE, List.append_assoc]

/-- closed form of `SendCommands` over a device that may not answer -/
theorem sendCommandsE_char {σ : Type} (dev : DevE σ) (drv : List Bytes) (op : Op) (s : Sess σ)
    (cmds : List Bytes) (hne : cmds ≠ []) :
    sendCommandsE dev drv op s cmds = sendUniformE dev drv cmds op Multi.empty s := by
  rw [sendCommandsE_eq]
  have hl : cmds.getLast? = some (cmds.getLast hne) := List.getLast?_eq_some_getLast hne
  have hd : cmds.dropLast ++ [cmds.getLast hne] = cmds := List.dropLast_concat_getLast hne
  rw [hl]
  simp only [sendLoopE_then_last, hd]

/-- over a device that always answers, the error-aware loop is the plain one -/
theorem sendUniformE_lift {σ : Type} (dev : Dev σ) (drv : List Bytes) (cs : List Bytes)
    (op : Op) (m : Multi) (s : Sess σ) :
    sendUniformE (liftDev dev) drv cs op m s =
      (.ok (sendUniform dev drv cs op m s).1, (sendUniform dev drv cs op m s).2) := by
  induction cs generalizing op m s with
  | nil => rfl
  | cons c cs ih =>
    simp only [sendUniformE, sendUniform, sendCommandE_eq, sendCommand_eq, liftDev, Option.map_some]
    split
    · rfl
    · exact ih _ _ _

theorem answersE_length {σ : Type} (dev : DevE σ) (d : σ) (cs : List Bytes) :
    (answersE dev d cs).length = cs.length := by
  induction cs generalizing d with
  | nil => rfl
  | cons c cs ih => simp [answersE, ih]

theorem firstNone_spec (a : List (Option Bytes)) :
    (∀ i, i < firstNone a → ∃ b, a[i]? = some (some b)) ∧
    (firstNone a < a.length → a[firstNone a]? = some none) := by
  induction a with
  | nil => simp [firstNone]
  | cons x t ih =>
    cases x with
    | none => simp [firstNone]
    | some b =>
      simp only [firstNone]
      constructor
      · intro i hi
        cases i with
        | zero => exact ⟨b, rfl⟩
        | succ j => simpa using ih.1 j (by omega)
      · intro h
        simpa using ih.2 (by simpa using h)

theorem respsE_input (eff : List Bytes) (cs : List Bytes) (a : List (Option Bytes)) (h : cs.length = a.length) :
    (respsE eff cs a).map (·.input) = cs := by
  induction cs generalizing a with
  | nil => simp [respsE]
  | cons c cs ih =>
    cases a with
    | nil => simp at h
    | cons o a =>
      have := ih a (by simpa using h)
      simp only [respsE] at this ⊢
      simp [mkResp_input, this]

theorem respsE_result (eff : List Bytes) (cs : List Bytes) (a : List (Option Bytes)) (h : cs.length = a.length) :
    (respsE eff cs a).map (·.result) = a.map (·.getD []) := by
  induction cs generalizing a with
  | nil => cases a <;> simp_all [respsE]
  | cons c cs ih =>
    cases a with
    | nil => simp at h
    | cons o a =>
      have := ih a (by simpa using h)
      simp only [respsE] at this ⊢
      simp [mkResp_result, this]

end Scrapli.Failed
