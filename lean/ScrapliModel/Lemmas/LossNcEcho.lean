import ScrapliModel.Lemmas.LossNc
/-! C06, NETCONF over a transport that echoes requests: the invariant "fed what can still be
delivered, `Driver.read` never stores a message" (`feedSafe`), preserved by all three goroutines. -/
namespace Scrapli.Loss
open Scrapli Scrapli.Chan

theorem rstep_deliver (s : St) (R : List Bytes) :
    (rstep s).q ++ cutTo (rstep s).left ((rstep s).pending ++ R) = s.q ++ cutTo s.left (s.pending ++ R) := by
  unfold rstep
  split
  · rfl
  · rfl
  · split
    · split <;> rfl
    · rename_i h0
      split
      · rfl
      · rename_i c cs hp
        split
        · rename_i hle
          simp [hp, cutTo, h0, hle]
        · rename_i hle
          simp [hp, cutTo, h0, hle]

/-- invariant of an RPC whose reply the loss cuts short, echo or not -/
structure NInvF (msgP : Bytes → Bool) (echoRest : Bytes → Option Bytes) (n : NSt) (r : Rpc) : Prop where
  safe : feedSafe msgP echoRest n.nb (deliverable n r) = true
  noreply : n.store.lookup r.mid = none

theorem ninvF_rdr (msgP : Bytes → Bool) (echoRest : Bytes → Option Bytes) (n : NSt) (r : Rpc)
    (h : NInvF msgP echoRest n r) : NInvF msgP echoRest { n with ch := rstep n.ch } r := by
  refine ⟨?_, h.noreply⟩
  have := h.safe
  unfold deliverable at *
  simp only
  rw [rstep_deliver]; exact this

theorem ninvF_fwd (msgP : Bytes → Bool) (idOf : Bytes → Nat) (echoRest : Bytes → Option Bytes) (n : NSt)
    (r : Rpc) (h : NInvF msgP echoRest n r) : NInvF msgP echoRest (nstep msgP idOf echoRest n) r := by
  unfold nstep
  split
  · exact h
  · split
    · rename_i e s' hr
      obtain ⟨h1, h2, h3, _⟩ := chRead_err_state n.ch s' e hr
      refine ⟨?_, h.noreply⟩
      have := h.safe
      simp only [deliverable, h1, h2, h3] at this ⊢
      exact this
    · rename_i s' hr
      obtain ⟨h1, _, _⟩ := chRead_nil n.ch s' hr
      subst h1; exact h
    · rename_i c s' hr
      obtain ⟨_, hq, hs'⟩ := chRead_data n.ch s' c hr
      have hsafe := h.safe
      have hl : s'.left = n.ch.left := by rw [hs']
      have hp : s'.pending = n.ch.pending := by rw [hs']
      simp only [deliverable, hq, List.cons_append, feedSafe] at hsafe
      by_cases hP : msgP (n.nb ++ c) = true
      · simp only [hP, if_true] at hsafe ⊢
        cases hE : echoRest (n.nb ++ c) with
        | none => rw [hE] at hsafe; simp at hsafe
        | some rest =>
          rw [hE] at hsafe
          exact ⟨by simpa [deliverable, hl, hp] using hsafe, h.noreply⟩
      · simp only [hP] at hsafe ⊢
        exact ⟨by simpa [deliverable, hl, hp] using hsafe, h.noreply⟩

theorem ninvF_rpc (msgP : Bytes → Bool) (echoRest : Bytes → Option Bytes) (p : Bool) (n n' : NSt)
    (r r' : Rpc) (h : NInvF msgP echoRest n r) (hs : rpcStep p n r = (n', .inl r')) :
    NInvF msgP echoRest n' r' := by
  rcases rpcStep_inl p n n' r r' hs with ⟨b, react, ws, s', hw, hc, hn, hr⟩ | ⟨_, _, hn, hr⟩
  · obtain ⟨h1, h2, h3, _⟩ := chWrite_ok n.ch s' b react hc
    subst hn; subst hr
    refine ⟨?_, h.noreply⟩
    have := h.safe
    simp only [deliverable, h1, h2, h3, hw, List.map_cons, List.flatten_cons, List.append_assoc] at this ⊢
    exact this
  · subst hn; subst hr; exact h

/-- a run that returns: only an error is possible -/
theorem nrunF_result (msgP : Bytes → Bool) (idOf : Bytes → Nat) (echoRest : Bytes → Option Bytes)
    (sched : List NActor) (n n' : NSt) (r : Rpc) (res : Res) (h : NInvF msgP echoRest n r)
    (hr : nrun msgP idOf echoRest sched n r = (n', .inr res)) : ∃ e, res = .error e := by
  induction sched generalizing n r with
  | nil => simp [nrun] at hr
  | cons a t ih =>
    cases a with
    | rdr => simp only [nrun] at hr; exact ih _ r (ninvF_rdr msgP echoRest n r h) hr
    | fwd => simp only [nrun] at hr; exact ih _ r (ninvF_fwd msgP idOf echoRest n r h) hr
    | rpc p =>
      simp only [nrun] at hr
      rcases hs : rpcStep p n r with ⟨n2, r2 | res2⟩
      · rw [hs] at hr
        simp only at hr
        exact ih n2 r2 (ninvF_rpc msgP echoRest p n n2 r r2 h hs) hr
      · rw [hs] at hr
        simp only at hr
        obtain ⟨_, h2⟩ := Prod.mk.inj hr
        have h3 : res2 = res := Sum.inr.inj h2
        subst h3
        rcases rpcStep_inr p n n2 r res2 hs with he | ⟨_, m, hm⟩
        · exact he
        · rw [h.noreply] at hm; simp at hm

end Scrapli.Loss
