import ScrapliModel.Lemmas.RegexScan
/-!
# RegexCaps: engine soundness with captures

`MatchesC` threads the capture table like the engine does. The engine is sound against it, so the
captures `find` reports are those of some derivation; for patterns whose decomposition is forced
(no alternative way to split the match) this determines the reported groups.
-/
namespace Scrapli.Rx
open Scrapli

/-- Engine soundness, continuation form. -/
theorem m_soundC : ∀ (f : Nat) (re : Re) (p : Pos) (c : Caps)
    (k : Pos → Caps → Option (Pos × Caps)) (x : Pos × Caps),
    m f re p c k = some x → ∃ q c', MatchesC re p c q c' ∧ k q c' = some x := by
  intro f
  induction f with
  | zero => intro re p c k x h; simp [m] at h
  | succ f ih =>
    intro re p c k x h
    cases re with
    | empty => simp only [m] at h; exact ⟨p, c, .empty p c, h⟩
    | fail => simp [m] at h
    | lit r =>
      simp only [m] at h
      split at h
      · rename_i r' w hd
        split at h
        · rename_i hr
          have : r' = r := by simpa using hr
          subst this
          exact ⟨_, c, .lit hd, h⟩
        · cases h
      · cases h
    | cls rs =>
      simp only [m] at h
      split at h
      · rename_i r' w hd
        split at h
        · rename_i hr
          exact ⟨_, c, .cls hd hr, h⟩
        · cases h
      · cases h
    | anyNL =>
      simp only [m] at h
      split at h
      · rename_i r' w hd
        exact ⟨_, c, .anyNL hd, h⟩
      · cases h
    | anyNoNL =>
      simp only [m] at h
      split at h
      · rename_i r' w hd
        split at h
        · cases h
        · rename_i hr
          exact ⟨_, c, .anyNoNL hd (by simpa using hr), h⟩
      · cases h
    | bol =>
      simp only [m] at h
      split at h
      · rename_i hb
        exact ⟨p, c, .bol (by simp [Pos.atBol, hb]), h⟩
      · rename_i b t hb
        split at h
        · rename_i hlf
          exact ⟨p, c, .bol (by simp [Pos.atBol, hb, hlf]), h⟩
        · cases h
    | eol =>
      simp only [m] at h
      split at h
      · rename_i hb
        exact ⟨p, c, .eol (by simp [Pos.atEol, hb]), h⟩
      · rename_i b t hb
        split at h
        · rename_i hlf
          exact ⟨p, c, .eol (by simp [Pos.atEol, hb, hlf]), h⟩
        · cases h
    | bot =>
      simp only [m] at h
      split at h
      · rename_i hb
        exact ⟨p, c, .bot (by simp [Pos.atBot, hb]), h⟩
      · cases h
    | eot =>
      simp only [m] at h
      split at h
      · rename_i hb
        exact ⟨p, c, .eot (by simp [Pos.atEot, hb]), h⟩
      · cases h
    | wordB =>
      simp only [m] at h
      split at h
      · rename_i hw; exact ⟨p, c, .wordB hw, h⟩
      · cases h
    | noWordB =>
      simp only [m] at h
      split at h
      · cases h
      · rename_i hw; exact ⟨p, c, .noWordB (by simpa using hw), h⟩
    | cat a b =>
      simp only [m] at h
      obtain ⟨q, c1, ha, hk⟩ := ih _ _ _ _ _ h
      obtain ⟨q2, c2, hb, hk2⟩ := ih _ _ _ _ _ hk
      exact ⟨q2, c2, .cat ha hb, hk2⟩
    | alt a b =>
      simp only [m] at h
      split at h
      · rename_i r hr
        cases h
        obtain ⟨q, c1, ha, hk⟩ := ih _ _ _ _ _ hr
        exact ⟨q, c1, .altL ha, hk⟩
      · obtain ⟨q, c1, hb, hk⟩ := ih _ _ _ _ _ h
        exact ⟨q, c1, .altR hb, hk⟩
    | group i r =>
      simp only [m] at h
      obtain ⟨q, c1, hr, hk⟩ := ih _ _ _ _ _ h
      exact ⟨q, _, .group hr, hk⟩
    | quest r g =>
      simp only [m] at h
      split at h
      · split at h
        · rename_i y hy
          cases h
          obtain ⟨q, c1, hr, hk⟩ := ih _ _ _ _ _ hy
          exact ⟨q, c1, .questSome hr, hk⟩
        · exact ⟨p, c, .questNil p c, h⟩
      · split at h
        · rename_i y hy
          cases h
          exact ⟨p, c, .questNil p c, hy⟩
        · obtain ⟨q, c1, hr, hk⟩ := ih _ _ _ _ _ h
          exact ⟨q, c1, .questSome hr, hk⟩
    | star r g =>
      simp only [m] at h
      have hloop : ∀ y, m f r p c (fun p' c' => if (p'.off == p.off) = true then none
            else m f (.star r g) p' c' k) = some y →
          ∃ q c', MatchesC (.star r g) p c q c' ∧ k q c' = some y := by
        intro y hy
        obtain ⟨q, c1, hr, hk⟩ := ih _ _ _ _ _ hy
        split at hk
        · cases hk
        · obtain ⟨q2, c2, hs, hk2⟩ := ih _ _ _ _ _ hk
          exact ⟨q2, c2, .starCons hr hs, hk2⟩
      split at h
      · split at h
        · rename_i y hy
          cases h
          exact hloop _ hy
        · exact ⟨p, c, .starNil p c, h⟩
      · split at h
        · rename_i y hy
          cases h
          exact ⟨p, c, .starNil p c, hy⟩
        · exact hloop _ h
    | plus r g =>
      simp only [m] at h
      obtain ⟨q, c1, hc, hk⟩ := ih _ _ _ _ _ h
      cases hc with
      | cat ha hb => exact ⟨q, c1, .plus ha hb, hk⟩


theorem MatchesC.forget {re : Re} {p q : Pos} {c c' : Caps} (h : MatchesC re p c q c') :
    Matches re p q := by
  induction h with
  | empty p c => exact .empty p
  | lit hd => exact .lit hd
  | cls hd hr => exact .cls hd hr
  | anyNL hd => exact .anyNL hd
  | anyNoNL hd hr => exact .anyNoNL hd hr
  | bol h => exact .bol h
  | eol h => exact .eol h
  | bot h => exact .bot h
  | eot h => exact .eot h
  | wordB h => exact .wordB h
  | noWordB h => exact .noWordB h
  | cat _ _ ih1 ih2 => exact .cat ih1 ih2
  | altL _ ih => exact .altL ih
  | altR _ ih => exact .altR ih
  | starNil p c => exact .starNil p
  | starCons _ _ ih1 ih2 => exact .starCons ih1 ih2
  | plus _ _ ih1 ih2 => exact .plus ih1 ih2
  | questNil p c => exact .questNil p
  | questSome _ ih => exact .questSome ih
  | group _ ih => exact .group ih

/-- a regex without groups leaves the capture table alone -/
theorem MatchesC.noGroup_caps {re : Re} {p q : Pos} {c c' : Caps} (h : MatchesC re p c q c') :
    re.noGroup = true → c' = c := by
  induction h with
  | cat _ _ ih1 ih2 =>
    intro hn; simp only [Re.noGroup, Bool.and_eq_true] at hn
    rw [ih2 hn.2, ih1 hn.1]
  | altL _ ih => intro hn; simp only [Re.noGroup, Bool.and_eq_true] at hn; exact ih hn.1
  | altR _ ih => intro hn; simp only [Re.noGroup, Bool.and_eq_true] at hn; exact ih hn.2
  | starCons _ _ ih1 ih2 =>
    intro hn
    rw [ih2 hn, ih1 (by simpa [Re.noGroup] using hn)]
  | plus _ _ ih1 ih2 =>
    intro hn
    rw [ih2 (by simpa [Re.noGroup] using hn), ih1 (by simpa [Re.noGroup] using hn)]
  | questSome _ ih => intro hn; exact ih (by simpa [Re.noGroup] using hn)
  | group _ _ => intro hn; simp [Re.noGroup] at hn
  | _ => intro _; rfl

theorem matchAt_soundC {re : Re} {fuel : Nat} {p q : Pos} {c : Caps}
    (h : matchAt re fuel p = some (q, c)) : MatchesC re p [] q c := by
  obtain ⟨q', c', hm, hk⟩ := m_soundC _ _ _ _ _ _ h
  simp only [Option.some.injEq, Prod.mk.injEq] at hk
  obtain ⟨rfl, rfl⟩ := hk
  exact hm

/-- `find` with captures: the reported capture table is that of a derivation of the reported span -/
theorem find_soundC {re : Re} {s : Bytes} {a e : Nat} {c : Caps} (h : find re s = some (a, e, c)) :
    ∃ p q, RuneReach (Pos.start s) p ∧ p.Of s ∧ q.Of s ∧ p.off = a ∧ q.off = e ∧
      MatchesC re p [] q c := by
  unfold find at h
  simp only [Option.map_eq_some_iff] at h
  obtain ⟨⟨a', q, c'⟩, hs, heq⟩ := h
  simp only [Prod.mk.injEq] at heq
  obtain ⟨rfl, rfl, rfl⟩ := heq
  obtain ⟨p, hr, ha, hm⟩ := searchFrom_sound _ _ hs
  have hM := matchAt_soundC hm
  have hp := hr.posOf (Pos.Of.start s)
  exact ⟨p, q, hr, hp, hM.forget.posOf hp, ha.symm, rfl, hM⟩

end Scrapli.Rx
