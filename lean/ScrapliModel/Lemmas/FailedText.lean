import ScrapliModel.FailedText
import ScrapliModel.Lemmas.Failed
/-! Helper lemmas about `render` (C13 error texts). Core Lean only. -/
namespace Scrapli.Failed
open Scrapli

/-- when verbs and arguments agree, every argument appears in the rendered text -/
theorem render_contains (ps : List FmtPart) (as : List FmtArg) (h : verbsMatch ps as = true) :
    (∀ b, FmtArg.s b ∈ as → b <:+: render ps as) ∧
    (∀ k, FmtArg.n k ∈ as → decDigits k <:+: render ps as) := by
  induction ps generalizing as with
  | nil =>
    cases as with
    | nil => simp
    | cons a as => simp [verbsMatch] at h
  | cons p ps ih =>
    cases p with
    | lit l =>
      have := ih as (by simpa [verbsMatch] using h)
      simp only [render]
      exact ⟨fun b hb => (this.1 b hb).trans (List.suffix_append _ _).isInfix,
             fun k hk => (this.2 k hk).trans (List.suffix_append _ _).isInfix⟩
    | str =>
      cases as with
      | nil => simp [verbsMatch] at h
      | cons a as =>
        cases a with
        | n k => simp [verbsMatch] at h
        | s a =>
          have := ih as (by simpa [verbsMatch] using h)
          simp only [render]
          refine ⟨fun b hb => ?_, fun k hk => ?_⟩
          · simp only [List.mem_cons, FmtArg.s.injEq] at hb
            rcases hb with rfl | hb
            · exact (List.prefix_append _ _).isInfix
            · exact (this.1 b hb).trans (List.suffix_append _ _).isInfix
          · simp only [List.mem_cons, reduceCtorEq, false_or] at hk
            exact (this.2 k hk).trans (List.suffix_append _ _).isInfix
    | int =>
      cases as with
      | nil => simp [verbsMatch] at h
      | cons a as =>
        cases a with
        | s a => simp [verbsMatch] at h
        | n j =>
          have := ih as (by simpa [verbsMatch] using h)
          simp only [render]
          refine ⟨fun b hb => ?_, fun k hk => ?_⟩
          · simp only [List.mem_cons, reduceCtorEq, false_or] at hb
            exact (this.1 b hb).trans (List.suffix_append _ _).isInfix
          · simp only [List.mem_cons, FmtArg.n.injEq] at hk
            rcases hk with rfl | hk
            · exact (List.prefix_append _ _).isInfix
            · exact (this.2 k hk).trans (List.suffix_append _ _).isInfix

theorem opErrArgs_eq (e : OpErr) :
    Gen.C13ErrorText.opErrorArgs.filterMap (opErrArg e) = [.s e.input, .s e.errStr, .s e.output] := by
  simp [Gen.C13ErrorText.opErrorArgs, opErrArg]

theorem multiOneArgs_eq (e : OpErr) (es : List OpErr) :
    Gen.C13ErrorText.multiOneArgs.filterMap (multiErrArg (e :: es)) = [.s e.input, .s e.errStr, .s e.output] := by
  simp [Gen.C13ErrorText.multiOneArgs, multiErrArg]

theorem multiManyArgs_eq (es : List OpErr) :
    Gen.C13ErrorText.multiManyArgs.filterMap (multiErrArg es) = [.n es.length] := by
  simp [Gen.C13ErrorText.multiManyArgs, multiErrArg]

end Scrapli.Failed
