import ScrapliModel.Pipe
/-! Helper lemmas for the pipe model (property C16). Core Lean only. -/
namespace Scrapli.Pipe

theorem take_filled (n : Nat) (d : Bytes) : (filled n d).take d.length = d := by
  simp [filled]

theorem sysWrap_none (n : Nat) (d : Bytes) : sysWrap n d none = (d, none) := by
  simp [sysWrap, take_filled]

theorem sysWrap_some (n : Nat) (d : Bytes) (e : RErr) : sysWrap n d (some e) = ([], some e) := rfl

theorem telWrap_eq (n : Nat) (d : Bytes) (e : Option RErr) : telWrap n d e = (d, e) := by
  simp [telWrap, take_filled]

theorem takeLen_pos (n k : Nat) : 1 ≤ takeLen n k := by
  unfold takeLen; omega

theorem takeLen_le (n k : Nat) (hn : 1 ≤ n) : takeLen n k ≤ n := by
  unfold takeLen; omega

theorem takeLen_exact (n k : Nat) (hk : 1 ≤ k) (hkn : k ≤ n) : takeLen n k = k := by
  unfold takeLen; omega

/-- everything a raw read can do, as one case split -/
theorem rawRead_cases (n k : Nat) (s : Stream) :
    (s.closed = true ∧ rawRead n k s = (.ret [] (some .closed), s)) ∨
    (s.closed = false ∧ n = 0 ∧ rawRead n k s = (.ret [] none, s)) ∨
    (s.closed = false ∧ n ≠ 0 ∧ s.pending = [] ∧ s.peerGone = true ∧ rawRead n k s = (.ret [] (some .eof), s)) ∨
    (s.closed = false ∧ n ≠ 0 ∧ s.pending = [] ∧ s.peerGone = false ∧ rawRead n k s = (.block, s)) ∨
    (s.closed = false ∧ n ≠ 0 ∧ s.pending ≠ [] ∧
      rawRead n k s = (.ret (s.pending.take (takeLen n k)) none,
        { s with pending := s.pending.drop (takeLen n k) })) := by
  rcases s with ⟨p, g, c⟩
  cases c
  · by_cases hn : n = 0
    · right; left; simp [rawRead, hn]
    · cases p with
      | nil =>
        cases g
        · right; right; right; left; simp [rawRead, hn]
        · right; right; left; simp [rawRead, hn]
      | cons x xs =>
        right; right; right; right; simp [rawRead, hn]
  · left; simp [rawRead]

/-- well-formedness: only telnet has an initial buffer -/
def wf (kd : Kind) (t : TState) : Prop := kd = .telnet ∨ t.ib = []

/-- the outcome of an implementation read, classified. `d` is what the caller gets. -/
theorem implRead_cases (kd : Kind) (n k : Nat) (t : TState) (hwf : wf kd t) :
    -- telnet hands out its initial buffer
    (kd = .telnet ∧ t.ib ≠ [] ∧ implRead kd n k t = (.ret t.ib none, { t with ib := [] })) ∨
    (t.ib = [] ∧
      ((t.s.closed = true ∧ implRead kd n k t = (.ret [] (some .closed), t)) ∨
       (t.s.closed = false ∧ n = 0 ∧ implRead kd n k t = (.ret [] none, t)) ∨
       (t.s.closed = false ∧ n ≠ 0 ∧ t.s.pending = [] ∧ t.s.peerGone = true ∧
          implRead kd n k t = (.ret [] (some .eof), t)) ∨
       (t.s.closed = false ∧ n ≠ 0 ∧ t.s.pending = [] ∧ t.s.peerGone = false ∧
          implRead kd n k t = (.block, t)) ∨
       (t.s.closed = false ∧ n ≠ 0 ∧ t.s.pending ≠ [] ∧
          implRead kd n k t = (.ret (t.s.pending.take (takeLen n k)) none,
            { t with s := { t.s with pending := t.s.pending.drop (takeLen n k) } })))) := by
  rcases t with ⟨ib, s, out⟩
  have hsys : ib = [] → sysRead n k ⟨ib, s, out⟩ = telnetRead n k ⟨ib, s, out⟩ ∧
      ((s.closed = true ∧ telnetRead n k ⟨ib, s, out⟩ = (.ret [] (some .closed), ⟨ib, s, out⟩)) ∨
       (s.closed = false ∧ n = 0 ∧ telnetRead n k ⟨ib, s, out⟩ = (.ret [] none, ⟨ib, s, out⟩)) ∨
       (s.closed = false ∧ n ≠ 0 ∧ s.pending = [] ∧ s.peerGone = true ∧
          telnetRead n k ⟨ib, s, out⟩ = (.ret [] (some .eof), ⟨ib, s, out⟩)) ∨
       (s.closed = false ∧ n ≠ 0 ∧ s.pending = [] ∧ s.peerGone = false ∧
          telnetRead n k ⟨ib, s, out⟩ = (.block, ⟨ib, s, out⟩)) ∨
       (s.closed = false ∧ n ≠ 0 ∧ s.pending ≠ [] ∧
          telnetRead n k ⟨ib, s, out⟩ = (.ret (s.pending.take (takeLen n k)) none,
            ⟨ib, { s with pending := s.pending.drop (takeLen n k) }, out⟩))) := by
    intro hib
    subst hib
    rcases rawRead_cases n k s with h | h | h | h | h
    · refine ⟨?_, Or.inl ⟨h.1, ?_⟩⟩ <;> simp [sysRead, telnetRead, h.2, sysWrap, telWrap_eq]
    · refine ⟨?_, Or.inr (Or.inl ⟨h.1, h.2.1, ?_⟩)⟩ <;>
        simp [sysRead, telnetRead, h.2.2, sysWrap_none, telWrap_eq]
    · refine ⟨?_, Or.inr (Or.inr (Or.inl ⟨h.1, h.2.1, h.2.2.1, h.2.2.2.1, ?_⟩))⟩ <;>
        simp [sysRead, telnetRead, h.2.2.2.2, sysWrap, telWrap_eq]
    · refine ⟨?_, Or.inr (Or.inr (Or.inr (Or.inl ⟨h.1, h.2.1, h.2.2.1, h.2.2.2.1, ?_⟩)))⟩ <;>
        simp [sysRead, telnetRead, h.2.2.2.2]
    · refine ⟨?_, Or.inr (Or.inr (Or.inr (Or.inr ⟨h.1, h.2.1, h.2.2.1, ?_⟩)))⟩ <;>
        simp [sysRead, telnetRead, h.2.2.2, sysWrap_none, telWrap_eq]
  cases ib with
  | nil =>
    right
    refine ⟨rfl, ?_⟩
    have h := hsys rfl
    cases kd with
    | telnet => exact h.2
    | system => simp only [implRead]; rw [h.1]; exact h.2
    | standard => simp only [implRead]; rw [h.1]; exact h.2
  | cons x xs =>
    left
    rcases hwf with hk | hk
    · subst hk
      exact ⟨rfl, by simp, by simp [implRead, telnetRead]⟩
    · simp at hk

/-- conservation for one implementation read -/
theorem implRead_spec (kd : Kind) (n k : Nat) (t : TState) (hwf : wf kd t) :
    (implRead kd n k t).1.data ++ (implRead kd n k t).2.left = t.left ∧
    (implRead kd n k t).2.s.peerGone = t.s.peerGone ∧
    (implRead kd n k t).2.s.closed = t.s.closed ∧
    (implRead kd n k t).2.out = t.out ∧
    (implRead kd n k t).2.ib = [] := by
  rcases implRead_cases kd n k t hwf with h | ⟨hib, h | h | h | h | h⟩
  · rw [h.2.2]; simp [Outcome.data, TState.left]
  · rw [h.2]; simp [Outcome.data, hib]
  · rw [h.2.2]; simp [Outcome.data, hib]
  · rw [h.2.2.2.2]; simp [Outcome.data, hib]
  · rw [h.2.2.2.2]; simp [Outcome.data, hib]
  · rw [h.2.2.2]; simp [Outcome.data, TState.left, hib]

theorem wf_step (kd : Kind) (t : TState) (e : Ev) (hwf : wf kd t) : wf kd (step kd t e).1 := by
  rcases hwf with h | h
  · exact Or.inl h
  · right
    cases e with
    | send b => simp only [step]; split <;> simp [h]
    | read n k => exact (implRead_spec kd n k t (Or.inr h)).2.2.2.2
    | write b => simp only [step, implWrite]; split <;> simp [h]
    | peerExit => simp [step, h]
    | close => simp [step, h]

theorem run_cons (kd : Kind) (t : TState) (e : Ev) (es : List Ev) :
    run kd t (e :: es) =
      ((run kd (step kd t e).1 es).1,
        match (step kd t e).2 with
        | some x => x :: (run kd (step kd t e).1 es).2
        | none => (run kd (step kd t e).1 es).2) := by
  simp only [run]
  cases (step kd t e).2 <;> rfl

theorem run_append (kd : Kind) (t : TState) (es fs : List Ev) :
    run kd t (es ++ fs) =
      ((run kd (run kd t es).1 fs).1, (run kd t es).2 ++ (run kd (run kd t es).1 fs).2) := by
  induction es generalizing t with
  | nil => simp [run]
  | cons e es ih =>
    rw [List.cons_append, run_cons, run_cons, ih]
    cases (step kd t e).2 <;> simp

theorem delivered_cons (o : Outcome) (os : List Outcome) :
    delivered (o :: os) = o.data ++ delivered os := by
  simp [delivered]

theorem delivered_append (a b : List Outcome) : delivered (a ++ b) = delivered a ++ delivered b := by
  simp [delivered]

theorem chunks_flatten (os : List Outcome) : (chunks os).flatten = delivered os := by
  induction os with
  | nil => simp [chunks, delivered]
  | cons o os ih =>
    simp only [chunks, delivered, List.map_cons, List.filter_cons, List.flatten_cons] at ih ⊢
    cases hd : o.data with
    | nil => simpa using ih
    | cons x xs => simp [ih]

theorem chunks_nonempty (os : List Outcome) : ∀ c ∈ chunks os, c ≠ [] := by
  intro c hc
  simp only [chunks, List.mem_filter] at hc
  intro h
  simp [h] at hc

/-- a read touches neither `out` nor the closed flag (no well-formedness needed) -/
theorem implRead_out_closed (kd : Kind) (n k : Nat) (t : TState) :
    (implRead kd n k t).2.out = t.out ∧ (implRead kd n k t).2.s.closed = t.s.closed := by
  rcases t with ⟨ib, s, out⟩
  have hsys : (sysRead n k ⟨ib, s, out⟩).2.out = out ∧ (sysRead n k ⟨ib, s, out⟩).2.s.closed = s.closed := by
    unfold sysRead
    rcases rawRead_cases n k s with h | h | h | h | h
    · simp only []; rw [h.2]; exact ⟨rfl, rfl⟩
    · simp only []; rw [h.2.2]; exact ⟨rfl, rfl⟩
    · simp only []; rw [h.2.2.2.2]; exact ⟨rfl, rfl⟩
    · simp only []; rw [h.2.2.2.2]; exact ⟨rfl, rfl⟩
    · simp only []; rw [h.2.2.2]; exact ⟨rfl, rfl⟩
  cases kd with
  | system => exact hsys
  | standard => exact hsys
  | telnet =>
    cases ib with
    | cons x xs => exact ⟨rfl, rfl⟩
    | nil =>
      simp only [implRead]
      unfold telnetRead
      rcases rawRead_cases n k s with h | h | h | h | h
      · simp only []; rw [h.2]; exact ⟨rfl, rfl⟩
      · simp only []; rw [h.2.2]; exact ⟨rfl, rfl⟩
      · simp only []; rw [h.2.2.2.2]; exact ⟨rfl, rfl⟩
      · simp only []; rw [h.2.2.2.2]; exact ⟨rfl, rfl⟩
      · simp only []; rw [h.2.2.2]; exact ⟨rfl, rfl⟩

theorem finv_move (s : LSt) (p : Who) (h : finv s) :
    finv (move true s p) ∧
      cprog (move true s p).c = (if p = .closer then min 2 (cprog s.c + 1) else cprog s.c) ∧
      (rIn s → rIn (move true s p)) ∧ (wIn s → wIn (move true s p)) ∧
      (s.r = .done → (move true s p).r = .done) ∧ (s.w = .done → (move true s p).w = .done) := by
  rcases s with ⟨r, w, c, l, cl, av, dr⟩
  rcases h with ⟨hc, hd⟩
  simp only at hc hd
  cases p with
  | reader =>
    cases r <;> simp [move, readerStep, finv, rIn, wIn] <;> (try split) <;>
      simp_all [finv, rIn, wIn]
  | writer =>
    cases w <;> simp [move, writerStep, finv, rIn, wIn] <;> (try split) <;>
      simp_all [finv, rIn, wIn]
  | closer =>
    cases c <;> simp_all [move, closerStep, finv, rIn, wIn, cprog]

theorem force_sched (s : LSt) (h : finv s) (sched : List Who) :
    finv (runSched true s sched) ∧
      cprog (runSched true s sched).c = min 2 (cprog s.c + nCloser sched) ∧
      (rIn s → rIn (runSched true s sched)) ∧ (wIn s → wIn (runSched true s sched)) ∧
      (s.r = .done → (runSched true s sched).r = .done) ∧
      (s.w = .done → (runSched true s sched).w = .done) := by
  induction sched generalizing s with
  | nil =>
    refine ⟨h, ?_, id, id, id, id⟩
    simp only [runSched, nCloser]
    cases s.c <;> simp [cprog]
  | cons p rest ih =>
    have hm := finv_move s p h
    have := ih _ hm.1
    simp only [runSched]
    refine ⟨this.1, ?_, fun x => this.2.2.1 (hm.2.2.1 x), fun x => this.2.2.2.1 (hm.2.2.2.1 x),
      fun x => this.2.2.2.2.1 (hm.2.2.2.2.1 x), fun x => this.2.2.2.2.2 (hm.2.2.2.2.2 x)⟩
    rw [this.2.1, hm.2.1]
    cases p <;> simp [nCloser] <;> omega

theorem runSched_append (force : Bool) (s : LSt) (a b : List Who) :
    runSched force s (a ++ b) = runSched force (runSched force s a) b := by
  induction a generalizing s with
  | nil => rfl
  | cons x xs ih => simp [runSched, ih]

end Scrapli.Pipe
