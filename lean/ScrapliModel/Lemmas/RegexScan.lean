import ScrapliModel.Lemmas.RegexLine
/-!
# RegexScan: tying byte-walking scanners to the regex engine

Hand-written scanners walk a text byte by byte and test a decidable condition `here k` at every
offset; the engine's `find` walks it rune by rune and runs the backtracking matcher. This file
provides the bridge: `firstFrom here` (the least offset where `here` holds) as the common
intermediate, `find_eq_firstFrom` (engine side, from soundness + completeness + leftmost),
`runeReach_ascii` (an offset whose byte is ASCII is always a rune boundary, so a pattern that starts
with an ASCII atom cannot be missed by the rune-wise search), and characterisations of `Matches` for
ASCII literals, literal sequences and repeated byte classes.
-/
namespace Scrapli.Rx
open Scrapli

/-! ## least offset satisfying a decidable condition -/

/-- the least `k` in `[lo, lo + fuel)` with `P k` -/
def firstFrom (P : Nat → Bool) : Nat → Nat → Option Nat
  | 0, _ => none
  | f + 1, lo => if P lo then some lo else firstFrom P f (lo + 1)

theorem firstFrom_some_iff {P : Nat → Bool} : ∀ {f lo k : Nat},
    firstFrom P f lo = some k ↔
      lo ≤ k ∧ k < lo + f ∧ P k = true ∧ ∀ j, lo ≤ j → j < k → P j = false := by
  intro f
  induction f with
  | zero => intro lo k; simp only [firstFrom]; constructor
            · intro h; cases h
            · rintro ⟨h1, h2, _⟩; omega
  | succ f ih =>
    intro lo k
    simp only [firstFrom]
    by_cases hp : P lo = true
    · rw [if_pos hp]
      constructor
      · intro h
        cases h
        exact ⟨Nat.le_refl _, by omega, hp, fun j h1 h2 => by omega⟩
      · rintro ⟨h1, _, _, h4⟩
        by_cases hk : k = lo
        · rw [hk]
        · have := h4 lo (Nat.le_refl _) (by omega)
          rw [hp] at this; cases this
    · rw [if_neg hp, ih]
      have hp' : P lo = false := by simpa using hp
      constructor
      · rintro ⟨h1, h2, h3, h4⟩
        refine ⟨by omega, by omega, h3, ?_⟩
        intro j hj1 hj2
        by_cases hj : j = lo
        · rw [hj]; exact hp'
        · exact h4 j (by omega) hj2
      · rintro ⟨h1, h2, h3, h4⟩
        have : k ≠ lo := by intro hk; rw [hk, hp'] at h3; cases h3
        exact ⟨by omega, by omega, h3, fun j hj1 hj2 => h4 j (by omega) hj2⟩

theorem firstFrom_none_iff {P : Nat → Bool} : ∀ {f lo : Nat},
    firstFrom P f lo = none ↔ ∀ j, lo ≤ j → j < lo + f → P j = false := by
  intro f
  induction f with
  | zero => intro lo; simp only [firstFrom]; constructor
            · intro _ j h1 h2; omega
            · intro _; trivial
  | succ f ih =>
    intro lo
    simp only [firstFrom]
    by_cases hp : P lo = true
    · rw [if_pos hp]
      constructor
      · intro h; cases h
      · intro h; have := h lo (Nat.le_refl _) (by omega); rw [hp] at this; cases this
    · rw [if_neg hp, ih]
      have hp' : P lo = false := by simpa using hp
      constructor
      · intro h j hj1 hj2
        by_cases hj : j = lo
        · rw [hj]; exact hp'
        · exact h j (by omega) (by omega)
      · intro h j hj1 hj2; exact h j (by omega) (by omega)

theorem firstFrom_congr {P Q : Nat → Bool} : ∀ (f lo : Nat),
    (∀ j, lo ≤ j → j < lo + f → P j = Q j) → firstFrom P f lo = firstFrom Q f lo := by
  intro f
  induction f with
  | zero => intro lo _; rfl
  | succ f ih =>
    intro lo h
    simp only [firstFrom]
    rw [h lo (Nat.le_refl _) (by omega), ih (lo + 1) (fun j h1 h2 => h j (by omega) (by omega))]

/-! ## positions by offset -/

theorem Pos.Of.after_eq {s : Bytes} {p : Pos} (h : p.Of s) : p.after = s.drop p.off := by
  obtain ⟨h1, h2⟩ := h
  rw [← h1, h2]
  have : p.before.length = p.before.reverse.length := by simp
  rw [this, List.drop_left]

theorem Pos.Of.before_eq {s : Bytes} {p : Pos} (h : p.Of s) : p.before = (s.take p.off).reverse := by
  obtain ⟨h1, h2⟩ := h
  rw [← h1, h2]
  have : p.before.length = p.before.reverse.length := by simp
  rw [this, List.take_left]; simp

theorem Pos.Of.off_le {s : Bytes} {p : Pos} (h : p.Of s) : p.off ≤ s.length := by
  obtain ⟨h1, h2⟩ := h
  rw [← h1, h2]; simp

/-- the position of `s` at byte offset `k` -/
def Pos.at (s : Bytes) (k : Nat) : Pos := (Pos.start s).advance k

theorem Pos.at_after (s : Bytes) (k : Nat) : (Pos.at s k).after = s.drop k := by
  simp [Pos.at, Pos.advance_after, Pos.start]

theorem Pos.at_before (s : Bytes) (k : Nat) : (Pos.at s k).before = (s.take k).reverse := by
  simp [Pos.at, Pos.advance_before, Pos.start]

theorem Pos.at_off (s : Bytes) {k : Nat} (h : k ≤ s.length) : (Pos.at s k).off = k := by
  unfold Pos.at
  rw [Pos.advance_off _ _ (show k ≤ (Pos.start s).after.length from h)]
  simp [Pos.start]

theorem Pos.at_of (s : Bytes) (k : Nat) : (Pos.at s k).Of s := (Pos.Of.start s).advance k

theorem Pos.at_advance (s : Bytes) {k : Nat} (n : Nat) (h : k ≤ s.length) :
    (Pos.at s k).advance n = Pos.at s (k + n) :=
  Pos.advance_advance _ _ _ h

theorem Pos.Of.eq_at {s : Bytes} {p : Pos} (h : p.Of s) : p = Pos.at s p.off := by
  obtain ⟨b, a, o⟩ := p
  have h1 := h.after_eq
  have h2 := h.before_eq
  have h3 := Pos.at_off s h.off_le
  simp only at h1 h2 h3
  have e1 := Pos.at_after s o
  have e2 := Pos.at_before s o
  cases hq : Pos.at s o with
  | mk b' a' o' =>
    rw [hq] at e1 e2 h3
    simp only at e1 e2 h3
    simp only [Pos.mk.injEq]
    exact ⟨by rw [h2, e2], by rw [h1, e1], h3.symm⟩

/-! ## ASCII bytes are rune boundaries -/

set_option linter.unusedSimpArgs false in
theorem decodeRune_append_ascii (x : Bytes) (b : UInt8) (t : Bytes) (hx : x ≠ [])
    (hb : b.toNat < 128) : decodeRune (x ++ b :: t) = decodeRune x := by
  have e0 : ¬ (128 ≤ b.toNat) := by omega
  have e1 : ∀ (c : Prop) [Decidable c], ((if c then 160 else 128) ≤ b.toNat) = False := by
    intro c _; split <;> simp <;> omega
  have e2 : ∀ (c : Prop) [Decidable c], ((if c then 144 else 128) ≤ b.toNat) = False := by
    intro c _; split <;> simp <;> omega
  match x, hx with
  | [b0], _ =>
    rcases t with _ | ⟨t0, _ | ⟨t1, t⟩⟩ <;> simp [decodeRune, e0, e1, e2]
  | [b0, b1], _ =>
    rcases t with _ | ⟨t0, t⟩ <;> simp [decodeRune, e0, e1, e2]
  | [b0, b1, b2], _ =>
    simp [decodeRune, e0, e1, e2]
  | b0 :: b1 :: b2 :: b3 :: r, _ =>
    simp only [List.cons_append, decodeRune]

/-- what follows is empty or begins with an ASCII byte -/
def AsciiHead (t : Bytes) : Prop := t = [] ∨ ∃ b t', t = b :: t' ∧ b.toNat < 128

theorem decodeRune_append_asciiHead {x t : Bytes} (hx : x ≠ []) (ht : AsciiHead t) :
    decodeRune (x ++ t) = decodeRune x := by
  rcases ht with rfl | ⟨b, t', rfl, hb⟩
  · simp
  · exact decodeRune_append_ascii x b t' hx hb

/-- decoding whole runes from `p` stops exactly in front of an ASCII byte (or at the end): a
multi-byte sequence never swallows an ASCII byte -/
theorem runeReach_asciiHead : ∀ (n : Nat) (u t : Bytes) (p : Pos), u.length ≤ n → p.after = u ++ t →
    AsciiHead t → RuneReach p (p.advance u.length) := by
  intro n
  induction n with
  | zero =>
    intro u t p hn _ _
    have : u = [] := List.length_eq_zero_iff.mp (by omega)
    subst this
    exact .refl _
  | succ n ih =>
    intro u t p hn h ht
    by_cases hu : u = []
    · subst hu; exact .refl _
    · cases hd : decodeRune u with
      | none => exact absurd (decodeRune_eq_none hd) hu
      | some rw =>
        obtain ⟨r, w⟩ := rw
        have hw := decodeRune_width hd
        have hd' : decodeRune p.after = some (r, w) := by
          rw [h, decodeRune_append_asciiHead hu ht]; exact hd
        have hwp : w ≤ p.after.length := by rw [h, List.length_append]; omega
        have hafter : (p.advance w).after = u.drop w ++ t := by
          rw [Pos.advance_after, h, List.drop_append_of_le_length hw.2]
        have := ih (u.drop w) t (p.advance w) (by rw [List.length_drop]; omega) hafter ht
        rw [Pos.advance_advance _ _ _ hwp, List.length_drop] at this
        have e : w + (u.length - w) = u.length := by omega
        rw [e] at this
        exact .step hd' this

/-- **An offset in front of an ASCII byte (or the end of the text) is a rune boundary.** -/
theorem runeReach_ascii (s : Bytes) {k : Nat} (hk : k ≤ s.length) (h : AsciiHead (s.drop k)) :
    RuneReach (Pos.start s) (Pos.at s k) := by
  have := runeReach_asciiHead k (s.take k) (s.drop k) (Pos.start s)
    (by rw [List.length_take]; omega) (by simp [Pos.start]) h
  rw [List.length_take, Nat.min_eq_left hk] at this
  exact this

/-! ## the engine's `find` as a least-offset search -/

/-- If a decidable condition `here k` captures "some match starts at offset `k`" (on rune
boundaries) and every match starting at `k` has length `len k`, then `find` reports the least
offset satisfying `here`, with end `k + len k`. Uses soundness, completeness and leftmost. -/
theorem find_eq_firstFrom {re : Re} {s : Bytes} (here : Nat → Bool) (len : Nat → Nat)
    (h1 : ∀ p q, RuneReach (Pos.start s) p → Matches re p q →
      here p.off = true ∧ q.off = p.off + len p.off)
    (h2 : ∀ k, k ≤ s.length → here k = true →
      ∃ p q, RuneReach (Pos.start s) p ∧ p.off = k ∧ Matches re p q) :
    (find re s).map (fun x => (x.1, x.2.1)) =
      (firstFrom here (s.length + 1) 0).map (fun k => (k, k + len k)) := by
  cases hf : find re s with
  | none =>
    have hnone := (find_eq_none_iff re s).mp hf
    have : firstFrom here (s.length + 1) 0 = none := by
      rw [firstFrom_none_iff]
      intro j _ hj
      cases hh : here j with
      | false => rfl
      | true =>
        obtain ⟨p, q, hr, _, hM⟩ := h2 j (by omega) hh
        exact absurd ⟨p, q, hr, hM⟩ hnone
    rw [this]; rfl
  | some x =>
    obtain ⟨a, e, c⟩ := x
    obtain ⟨p, q, hr, hp, _, ha, he, hM⟩ := find_sound hf
    obtain ⟨hh, hq⟩ := h1 p q hr hM
    have : firstFrom here (s.length + 1) 0 = some a := by
      rw [firstFrom_some_iff]
      refine ⟨Nat.zero_le _, ?_, by rw [← ha]; exact hh, ?_⟩
      · have := hp.off_le; omega
      · intro j _ hj
        cases hj' : here j with
        | false => rfl
        | true =>
          have := hp.off_le
          obtain ⟨p', q', hr', hp', hM'⟩ := h2 j (by omega) hj'
          have := find_leftmost hf hr' hM'
          omega
    rw [this]
    simp only [Option.map_some, Option.some.injEq, Prod.mk.injEq, true_and]
    rw [← he, hq, ha]

theorem isMatch_eq_firstFrom {re : Re} {s : Bytes} (here : Nat → Bool) (len : Nat → Nat)
    (h : (find re s).map (fun x => (x.1, x.2.1)) =
      (firstFrom here (s.length + 1) 0).map (fun k => (k, k + len k))) :
    isMatch re s = (firstFrom here (s.length + 1) 0).isSome := by
  unfold isMatch
  have := congrArg Option.isSome h
  simpa using this

theorem split2_eq_firstFrom {re : Re} {s : Bytes} (here : Nat → Bool) (len : Nat → Nat)
    (h : (find re s).map (fun x => (x.1, x.2.1)) =
      (firstFrom here (s.length + 1) 0).map (fun k => (k, k + len k))) :
    split2 re s = (firstFrom here (s.length + 1) 0).map (fun k => (s.take k, s.drop (k + len k))) := by
  unfold split2
  cases hf : find re s with
  | none =>
    rw [hf] at h
    cases hk : firstFrom here (s.length + 1) 0 with
    | none => rfl
    | some k => rw [hk] at h; cases h
  | some x =>
    obtain ⟨a, e, c⟩ := x
    rw [hf] at h
    cases hk : firstFrom here (s.length + 1) 0 with
    | none => rw [hk] at h; cases h
    | some k =>
      rw [hk] at h
      simp only [Option.map_some, Option.some.injEq, Prod.mk.injEq] at h
      obtain ⟨rfl, rfl⟩ := h
      rfl

/-! ## atoms that consume exactly one byte -/

theorem decodeRune_of_ascii {b : UInt8} (t : Bytes) (hb : b.toNat < 128) :
    decodeRune (b :: t) = some (b.toNat, 1) := by
  simp [decodeRune, hb]

/-- `a` consumes exactly one byte satisfying `f`, at positions whose rest satisfies `G` -/
def ByteAtom (a : Re) (f : UInt8 → Bool) (G : Bytes → Prop) : Prop :=
  ∀ p q, G p.after → (Matches a p q ↔ ∃ b t, p.after = b :: t ∧ f b = true ∧ q = p.advance 1)

theorem byteAtom_lit {r : Nat} (hr : r < 128) (G : Bytes → Prop) :
    ByteAtom (.lit r) (fun b => b.toNat == r) G := by
  intro p q _
  constructor
  · intro h
    cases h with
    | lit hd =>
      obtain ⟨b, t, hs, hb, rfl⟩ := decodeRune_ascii hd hr
      exact ⟨b, t, hs, by simp [hb], rfl⟩
  · rintro ⟨b, t, hs, hb, rfl⟩
    have hb' : b.toNat = r := by simpa using hb
    have := decodeRune_of_ascii t (b := b) (by omega)
    rw [← hs, hb'] at this
    exact .lit this

theorem byteAtom_cls_ascii {rs : List (Nat × Nat)} (hrs : ∀ r, inRanges r rs = true → r < 128)
    (G : Bytes → Prop) : ByteAtom (.cls rs) (fun b => inRanges b.toNat rs) G := by
  intro p q _
  constructor
  · intro h
    cases h with
    | cls hd hr =>
      obtain ⟨b, t, hs, hb, rfl⟩ := decodeRune_ascii hd (hrs _ hr)
      exact ⟨b, t, hs, by simp only [hb]; exact hr, rfl⟩
  · rintro ⟨b, t, hs, hb, rfl⟩
    have := decodeRune_of_ascii t (b := b) (hrs _ hb)
    rw [← hs] at this
    exact .cls this hb



/-- right-nested concatenation, as the translator emits it -/
def seqRe : List Re → Re
  | [] => .empty
  | a :: t => match t with
    | [] => a
    | _ :: _ => .cat a (seqRe t)

/-- strip one byte per predicate -/
def dropPred : List (UInt8 → Bool) → Bytes → Option Bytes
  | [], b => some b
  | _ :: _, [] => none
  | f :: fs, c :: t => if f c then dropPred fs t else none

/-- `G` is inherited by suffixes -/
def SuffixClosed (G : Bytes → Prop) : Prop := ∀ b t, G (b :: t) → G t

theorem dropPred_length {fs : List (UInt8 → Bool)} {b r : Bytes} (h : dropPred fs b = some r) :
    b.length = fs.length + r.length ∧ r = b.drop fs.length := by
  induction fs generalizing b with
  | nil => simp only [dropPred, Option.some.injEq] at h; subst h; simp
  | cons f fs ih =>
    cases b with
    | nil => simp [dropPred] at h
    | cons c t =>
      simp only [dropPred] at h
      split at h
      · obtain ⟨h1, h2⟩ := ih h
        simp only [List.length_cons, List.drop_succ_cons]
        exact ⟨by omega, h2⟩
      · cases h

theorem matches_seqRe {G : Bytes → Prop} (hG : SuffixClosed G) :
    ∀ (l : List (Re × (UInt8 → Bool))), (∀ x ∈ l, ByteAtom x.1 x.2 G) → ∀ p q, G p.after →
      (Matches (seqRe (l.map (·.1))) p q ↔
        dropPred (l.map (·.2)) p.after = some q.after ∧ q = p.advance l.length) := by
  intro l
  induction l with
  | nil =>
    intro _ p q _
    simp only [List.map_nil, seqRe, dropPred, List.length_nil]
    constructor
    · intro h; cases h; exact ⟨rfl, rfl⟩
    · rintro ⟨_, h⟩; rw [h]; exact .empty _
  | cons x t ih =>
    intro hl p q hg
    have hx := hl x (by simp)
    have ht := ih (fun y hy => hl y (by simp [hy]))
    have step : ∀ q1, (Matches x.1 p q1 ∧ (dropPred (t.map (·.2)) q1.after = some q.after ∧
          q = q1.advance t.length)) ↔
        (∃ c r, p.after = c :: r ∧ x.2 c = true ∧ q1 = p.advance 1 ∧
          dropPred (t.map (·.2)) r = some q.after ∧ q = q1.advance t.length) := by
      intro q1
      rw [hx p q1 hg]
      constructor
      · rintro ⟨⟨c, r, hs, hc, rfl⟩, h2, h3⟩
        refine ⟨c, r, hs, hc, rfl, ?_, h3⟩
        rw [Pos.advance_after, hs] at h2; exact h2
      · rintro ⟨c, r, hs, hc, rfl, h2, h3⟩
        refine ⟨⟨c, r, hs, hc, rfl⟩, ?_, h3⟩
        rw [Pos.advance_after, hs]; exact h2
    have main : (∃ q1, Matches x.1 p q1 ∧ Matches (seqRe (t.map (·.1))) q1 q) ↔
        dropPred ((x :: t).map (·.2)) p.after = some q.after ∧ q = p.advance (x :: t).length := by
      constructor
      · rintro ⟨q1, h1, h2⟩
        have hg1 : G q1.after := by
          obtain ⟨c, r, hs, _, rfl⟩ := (hx p q1 hg).mp h1
          rw [Pos.advance_after, hs]; exact hG c r (hs ▸ hg)
        obtain ⟨c, r, hs, hc, rfl, h3, h4⟩ := (step q1).mp ⟨h1, (ht q1 q hg1).mp h2⟩
        refine ⟨by simp only [List.map_cons, hs, dropPred, hc, if_true]; exact h3, ?_⟩
        rw [h4, Pos.advance_advance _ _ _ (by rw [hs]; simp)]
        simp only [List.length_cons]; congr 1; omega
      · rintro ⟨h1, h2⟩
        cases hs : p.after with
        | nil => rw [hs] at h1; simp [dropPred] at h1
        | cons c r =>
          rw [hs] at h1
          simp only [List.map_cons, dropPred] at h1
          split at h1
          · rename_i hc
            have hg1 : G (p.advance 1).after := by
              rw [Pos.advance_after, hs]; exact hG c r (hs ▸ hg)
            have h4 : q = (p.advance 1).advance t.length := by
              rw [h2, Pos.advance_advance _ _ _ (by rw [hs]; simp)]
              simp only [List.length_cons]; congr 1; omega
            obtain ⟨h5, h6⟩ := (step (p.advance 1)).mpr ⟨c, r, hs, hc, rfl, h1, h4⟩
            exact ⟨p.advance 1, h5, (ht _ q hg1).mpr h6⟩
          · cases h1
    cases t with
    | nil =>
      -- single atom: `seqRe [a] = a`
      refine Iff.trans ?_ main
      simp only [List.map_cons, List.map_nil, seqRe]
      constructor
      · intro h; exact ⟨q, h, .empty q⟩
      · rintro ⟨q1, h1, h2⟩; cases h2; exact h1
    | cons y t' =>
      refine Iff.trans ?_ main
      simp only [List.map_cons, seqRe]
      constructor
      · intro h; cases h with | cat h1 h2 => exact ⟨_, h1, h2⟩
      · rintro ⟨q1, h1, h2⟩; exact .cat h1 h2


/-! ## repetition of a one-byte atom -/

theorem star_byteAtom_fwd {a : Re} {f : UInt8 → Bool} {G : Bytes → Prop} {g : Bool}
    (hG : SuffixClosed G) (ha : ByteAtom a f G) {re : Re} {p q : Pos} (h : Matches re p q) :
    re = .star a g → G p.after →
      ∃ n, n ≤ p.after.length ∧ (∀ b ∈ p.after.take n, f b = true) ∧ q = p.advance n := by
  induction h with
  | starNil p => intro _ _; exact ⟨0, Nat.zero_le _, by simp, rfl⟩
  | @starCons r g' p q s h1 h2 _ ih2 =>
    intro hre hg
    cases hre
    obtain ⟨b, t, hs, hb, rfl⟩ := (ha p q hg).mp h1
    have hg' : G (p.advance 1).after := by rw [Pos.advance_after, hs]; exact hG b t (hs ▸ hg)
    obtain ⟨n, hn, hall, rfl⟩ := ih2 rfl hg'
    rw [Pos.advance_after, hs] at hn hall
    simp only [List.drop_succ_cons, List.drop_zero] at hn hall
    refine ⟨n + 1, by rw [hs]; simp; omega, ?_, ?_⟩
    · rw [hs]; intro x hx
      simp only [List.take_succ_cons, List.mem_cons] at hx
      rcases hx with rfl | hx
      · exact hb
      · exact hall x hx
    · rw [Pos.advance_advance _ _ _ (by rw [hs]; simp)]; congr 1; omega
  | _ => intro hre; cases hre

theorem star_byteAtom_bwd {a : Re} {f : UInt8 → Bool} {G : Bytes → Prop} {g : Bool}
    (hG : SuffixClosed G) (ha : ByteAtom a f G) : ∀ (n : Nat) (p : Pos), G p.after →
      n ≤ p.after.length → (∀ b ∈ p.after.take n, f b = true) → Matches (.star a g) p (p.advance n) := by
  intro n
  induction n with
  | zero => intro p _ _ _; exact .starNil p
  | succ n ih =>
    intro p hg hn hall
    cases hs : p.after with
    | nil => rw [hs] at hn; simp at hn
    | cons b t =>
      rw [hs] at hn hall
      have hb : f b = true := hall b (by simp)
      have h1 : Matches a p (p.advance 1) := (ha p _ hg).mpr ⟨b, t, hs, hb, rfl⟩
      have hg' : G (p.advance 1).after := by rw [Pos.advance_after, hs]; exact hG b t (hs ▸ hg)
      have ha1 : (p.advance 1).after = t := by rw [Pos.advance_after, hs]; rfl
      have h2 := ih (p.advance 1) hg' (by rw [ha1]; simpa using hn)
        (by rw [ha1]; intro x hx; exact hall x (by simp [hx]))
      rw [Pos.advance_advance _ _ _ (by rw [hs]; simp)] at h2
      have : 1 + n = n + 1 := by omega
      rw [this] at h2
      exact .starCons h1 h2

theorem matches_star_byteAtom {a : Re} {f : UInt8 → Bool} {G : Bytes → Prop} (g : Bool)
    (hG : SuffixClosed G) (ha : ByteAtom a f G) (p q : Pos) (hg : G p.after) :
    Matches (.star a g) p q ↔
      ∃ n, n ≤ p.after.length ∧ (∀ b ∈ p.after.take n, f b = true) ∧ q = p.advance n :=
  ⟨fun h => star_byteAtom_fwd hG ha h rfl hg,
   fun ⟨n, hn, hall, hq⟩ => hq ▸ star_byteAtom_bwd hG ha n p hg hn hall⟩

theorem matches_plus_byteAtom {a : Re} {f : UInt8 → Bool} {G : Bytes → Prop} (g : Bool)
    (hG : SuffixClosed G) (ha : ByteAtom a f G) (p q : Pos) (hg : G p.after) :
    Matches (.plus a g) p q ↔
      ∃ n, 1 ≤ n ∧ n ≤ p.after.length ∧ (∀ b ∈ p.after.take n, f b = true) ∧ q = p.advance n := by
  constructor
  · intro h
    cases h with
    | plus h1 h2 =>
      obtain ⟨n, hn, hall, hq⟩ := star_byteAtom_fwd hG ha (.starCons h1 h2 : Matches (.star a g) p q) rfl hg
      obtain ⟨b, t, hs, _, hq1⟩ := (ha p _ hg).mp h1
      refine ⟨n, ?_, hn, hall, hq⟩
      -- n = 0 would mean q = p, but q lies beyond p.advance 1
      have o1 := h1.off_le
      have o2 := h2.off_le
      have := Pos.advance_off 1 p (by rw [hs]; simp)
      rw [← hq1] at this
      have h3 := Pos.advance_off n p hn
      rw [← hq] at h3
      omega
  · rintro ⟨n, h1, hn, hall, rfl⟩
    have hs := star_byteAtom_bwd (g := g) hG ha n p hg hn hall
    cases n with
    | zero => omega
    | succ n =>
      -- peel the first iteration off the star
      cases hsa : p.after with
      | nil => rw [hsa] at hn; simp at hn
      | cons b t =>
        rw [hsa] at hn hall
        have hb : f b = true := hall b (by simp)
        have m1 : Matches a p (p.advance 1) := (ha p _ hg).mpr ⟨b, t, hsa, hb, rfl⟩
        have hg' : G (p.advance 1).after := by rw [Pos.advance_after, hsa]; exact hG b t (hsa ▸ hg)
        have ha1 : (p.advance 1).after = t := by rw [Pos.advance_after, hsa]; rfl
        have m2 := star_byteAtom_bwd (g := g) hG ha n (p.advance 1) hg' (by rw [ha1]; simpa using hn)
          (by rw [ha1]; intro x hx; exact hall x (by simp [hx]))
        rw [Pos.advance_advance _ _ _ (by rw [hsa]; simp)] at m2
        have : 1 + n = n + 1 := by omega
        rw [this] at m2
        exact .plus m1 m2

theorem matches_group_iff {i : Nat} {r : Re} {p q : Pos} :
    Matches (.group i r) p q ↔ Matches r p q :=
  ⟨fun h => by cases h with | group h => exact h, .group⟩

theorem matches_cat_iff {a b : Re} {p q : Pos} :
    Matches (.cat a b) p q ↔ ∃ m, Matches a p m ∧ Matches b m q :=
  ⟨fun h => by cases h with | cat h1 h2 => exact ⟨_, h1, h2⟩, fun ⟨_, h1, h2⟩ => .cat h1 h2⟩


end Scrapli.Rx
