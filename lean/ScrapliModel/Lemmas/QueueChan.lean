import ScrapliModel.QueueChan
import ScrapliModel.Lemmas.Queue
namespace Scrapli.Queue.Chan
open Scrapli Scrapli.Queue.Conc

theorem isPrefixOf_append_self (c r : Bytes) : c.isPrefixOf (c ++ r) = true := by
  induction c with
  | nil => simp
  | cons x xs ih => simp [ih]

/-- erasing chunk boundaries: whatever the chunk-level reader accepts, the byte-level reader
accepts, and it leaves the concatenation of the chunks left -/
theorem consume_bytes (l : List CEv) : ∀ (S Q : List Bytes),
    consume l S = some Q → consumeB l S.flatten = some Q.flatten := by
  induction l with
  | nil => intro S Q h; simp [consume] at h; simp [consumeB, h]
  | cons e es ih =>
    intro S Q h
    cases e with
    | got c =>
      cases S with
      | nil => simp [consume] at h
      | cons hd t =>
        by_cases hc : hd = c
        · subst hc
          simp [consume] at h
          simp only [consumeB, List.flatten_cons, isPrefixOf_append_self, if_true, List.drop_left]
          exact ih t Q h
        · simp [consume, hc] at h
    | back b =>
      simp [consume] at h
      have := ih (b :: S) Q h
      simpa [consumeB] using this

/-- an operation that concatenates the chunks it dequeued reads, at byte level, their concatenation -/
theorem consumeB_gots (cs : List Bytes) : ∀ (es : List CEv) (S : Bytes),
    consumeB (cs.map .got ++ es) S = consumeB (.got cs.flatten :: es) S := by
  induction cs with
  | nil => intro es S; simp [consumeB]
  | cons c cs ih =>
    intro es S
    simp only [List.map_cons, List.cons_append, consumeB, List.flatten_cons]
    by_cases h1 : c.isPrefixOf S = true
    · obtain ⟨r, hr⟩ := List.isPrefixOf_iff_prefix.mp h1
      subst hr
      simp only [h1, if_true, List.drop_left, ih, consumeB]
      by_cases h2 : cs.flatten.isPrefixOf r = true
      · obtain ⟨r2, hr2⟩ := List.isPrefixOf_iff_prefix.mp h2
        subst hr2
        have : (c ++ cs.flatten).isPrefixOf (c ++ (cs.flatten ++ r2)) = true := by
          rw [← List.append_assoc]; exact isPrefixOf_append_self _ _
        simp [h2, ← List.append_assoc]
      · have : (c ++ cs.flatten).isPrefixOf (c ++ r) = false := by
          cases hp : (c ++ cs.flatten).isPrefixOf (c ++ r) with
          | false => rfl
          | true =>
            obtain ⟨r3, hr3⟩ := List.isPrefixOf_iff_prefix.mp hp
            rw [List.append_assoc] at hr3
            have := List.append_cancel_left hr3
            exact absurd (List.isPrefixOf_iff_prefix.mpr ⟨r3, this⟩) h2
        simp [h2, this]
    · have : (c ++ cs.flatten).isPrefixOf S = false := by
        cases hp : (c ++ cs.flatten).isPrefixOf S with
        | false => rfl
        | true =>
          obtain ⟨r3, hr3⟩ := List.isPrefixOf_iff_prefix.mp hp
          rw [List.append_assoc] at hr3
          exact absurd (List.isPrefixOf_iff_prefix.mpr ⟨_, hr3⟩) h1
      simp [h1, this]

/-- reading bytes and putting exactly those bytes back changes nothing (the login code's
`Requeue` of what it read) -/
theorem consumeB_got_back (b : Bytes) (es : List CEv) (S : Bytes) (h : b.isPrefixOf S = true) :
    consumeB (.got b :: .back b :: es) S = consumeB es S := by
  obtain ⟨r, hr⟩ := List.isPrefixOf_iff_prefix.mp h
  subst hr
  simp [consumeB, h]

/-- without put-backs the bytes obtained are a prefix of the stream and the rest is what is left -/
theorem consumeB_only_gots (l : List CEv) : ∀ (S Q : Bytes), backsOf l = [] →
    consumeB l S = some Q → S = (gotsOf l).flatten ++ Q := by
  induction l with
  | nil => intro S Q _ h; simp [consumeB] at h; simp [gotsOf, h]
  | cons e es ih =>
    intro S Q hb h
    cases e with
    | got c =>
      simp only [consumeB] at h
      by_cases hp : c.isPrefixOf S = true
      · obtain ⟨r, hr⟩ := List.isPrefixOf_iff_prefix.mp hp
        subst hr
        simp only [hp, if_true, List.drop_left] at h
        have := ih r Q (by simpa [backsOf] using hb) h
        simp [gotsOf, this]
      · simp [hp] at h
    | back b => simp [backsOf] at hb

end Scrapli.Queue.Chan

namespace Scrapli.Queue.Chan.Aliased
open Scrapli Scrapli.Queue.Chan

/-- a read loop that always copies enqueues values: whatever the transport later does with its
buffer, the consumers see `Chan.enqueued` -/
theorem loop_copying (norm : Bytes → Bytes) (reads : List Bytes) : ∀ (buf later : Bytes),
    ((loop (fun _ => true) norm reads buf).1.map (resolve later)) = enqueued norm reads := by
  induction reads with
  | nil => intro buf later; simp [loop, enqueued]
  | cons r rs ih =>
    intro buf later
    have := ih (overwrite buf r) later
    cases hr : r.isEmpty <;> simp_all [loop, enqueued, resolve, List.filter_cons]

end Scrapli.Queue.Chan.Aliased
