import ScrapliModel.Lemmas.Store
import ScrapliModel.Lemmas.GoSem
/-!
# `strconv.Atoi` on a run of digits is the model's `atoiClamp` (for the tie of `getID`)
-/
namespace Scrapli.Netconf.Store
open Scrapli

theorem parseDecAux_digits (ds : Bytes) (hd : ∀ b ∈ ds, isDigit b = true) (acc : Nat) :
    parseDecAux acc ds = some (decVal acc ds) := by
  induction ds generalizing acc with
  | nil => simp [parseDecAux, decVal]
  | cons b t ih =>
    have hb : isDigit b = true := hd b (by simp)
    simp only [parseDecAux, decVal, hb, if_true]
    exact ih (fun x hx => hd x (by simp [hx])) _

theorem atoi_digits (ds : Bytes) (hne : ds ≠ []) (hd : ∀ b ∈ ds, isDigit b = true) :
    (Go.atoi ds).1 = ((atoiClamp ds : Nat) : Int) := by
  cases ds with
  | nil => exact absurd rfl hne
  | cons b t =>
    have hb : isDigit b = true := hd b (by simp)
    have h43 : b ≠ 43 := by intro h; subst h; simp [isDigit] at hb
    have h45 : b ≠ 45 := by intro h; subst h; simp [isDigit] at hb
    have hp : parseDec (b :: t) = some (decVal 0 (b :: t)) := by
      simpa [parseDec] using parseDecAux_digits (b :: t) hd 0
    have : Go.atoi (b :: t) = match parseDec (b :: t) with
        | some n => if n ≤ Go.maxInt64 then ((n : Nat), none) else ((Go.maxInt64 : Nat), some "strconv.ErrRange")
        | none => (0, some "strconv.ErrSyntax") := by
      unfold Go.atoi
      split
      · rename_i ds' heq; simp at heq; exact absurd heq.1 h43
      · rename_i ds' heq; simp at heq; exact absurd heq.1 h45
      · rfl
    rw [this, hp]
    have hm : Go.maxInt64 = maxInt64 := rfl
    simp only [atoiClamp, hm]
    by_cases hle : decVal 0 (b :: t) ≤ maxInt64
    · simp [hle, Nat.min_eq_left hle]
    · simp [hle]; omega


end Scrapli.Netconf.Store
