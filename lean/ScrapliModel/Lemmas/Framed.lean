import ScrapliModel.Lemmas.Decode
/-!
Characterisation of the inputs the NETCONF 1.1 decode loop accepts: exactly the terminated chunk
streams (`Framed`), and on those it returns exactly the chunk data.
-/
namespace Scrapli.Netconf
open Scrapli

/-- `Framed k d cs`: `d` is a chunk stream (as the decoder tolerates it: any number of LFs before
each `#`) whose chunks are `cs`, ended by `##`; anything may follow the end marker. Each chunk header
is `#` + a size text of at most `k` characters (no LF, not starting with `#`) that `parseSize`
reads as the exact length of the chunk data + LF. -/
inductive Framed (k : Nat) : Bytes → List Bytes → Prop
  | lf {d cs} : Framed k d cs → Framed k (LF :: d) cs
  | done {rest} : Framed k (HASH :: HASH :: rest) []
  | chunk {hd data rest cs} :
      hd ≠ [] → hd.head? ≠ some HASH → LF ∉ hd → hd.length ≤ k →
      parseSize hd = some data.length →
      Framed k rest cs → Framed k (HASH :: (hd ++ LF :: (data ++ rest))) (data :: cs)

theorem takeHeader_some {k : Nat} {t hd rest : Bytes} (h : takeHeader k t = some (hd, rest)) :
    t = hd ++ LF :: rest ∧ LF ∉ hd ∧ hd.length ≤ k := by
  induction k generalizing t hd rest with
  | zero =>
    cases t with
    | nil => simp [takeHeader] at h
    | cons b u =>
      simp only [takeHeader] at h
      split at h
      · rename_i hb
        simp only [Option.some.injEq, Prod.mk.injEq] at h
        obtain ⟨rfl, rfl⟩ := h
        have : b = LF := by simpa using hb
        subst this; simp
      · simp at h
  | succ k ih =>
    cases t with
    | nil => simp [takeHeader] at h
    | cons b u =>
      simp only [takeHeader] at h
      split at h
      · rename_i hb
        simp only [Option.some.injEq, Prod.mk.injEq] at h
        obtain ⟨rfl, rfl⟩ := h
        have : b = LF := by simpa using hb
        subst this; simp
      · rename_i hb
        simp only [Option.map_eq_some_iff] at h
        obtain ⟨⟨h', r'⟩, hh, heq⟩ := h
        simp only [Prod.mk.injEq] at heq
        obtain ⟨rfl, rfl⟩ := heq
        obtain ⟨e, hnl, hlen⟩ := ih hh
        have hbne : b ≠ LF := by simpa using hb
        refine ⟨by simp [e], ?_, by simp; omega⟩
        simp only [List.mem_cons, not_or]
        exact ⟨fun h => hbne h.symm, hnl⟩

theorem takeHeader_of {k : Nat} (hd rest : Bytes) (hnl : LF ∉ hd) (hlen : hd.length ≤ k) :
    takeHeader k (hd ++ LF :: rest) = some (hd, rest) := by
  induction hd generalizing k with
  | nil => cases k <;> simp [takeHeader]
  | cons b t ih =>
    simp only [List.mem_cons, not_or] at hnl
    have hb : (b == LF) = false := by
      simp only [beq_eq_false_iff_ne, ne_eq]; intro h; exact hnl.1 h.symm
    cases k with
    | zero => simp at hlen
    | succ k =>
      simp only [List.cons_append, takeHeader, hb]
      rw [ih hnl.2 (by simpa using hlen)]
      simp

/-- soundness: whatever the loop accepts is a terminated chunk stream, and the result is exactly
the accumulated chunk data -/
theorem decodeLoop_sound (k f : Nat) (d acc r : Bytes) (h : decodeLoop k f d acc = .ok r) :
    ∃ cs, Framed k d cs ∧ r = acc ++ cs.flatten := by
  induction f generalizing d acc with
  | zero => simp [decodeLoop] at h
  | succ f ih =>
    cases d with
    | nil => simp [decodeLoop] at h
    | cons b t =>
      simp only [decodeLoop] at h
      split at h
      · rename_i hb
        have : b = LF := by simpa using hb
        subst this
        obtain ⟨cs, hf, hr⟩ := ih t acc h
        exact ⟨cs, .lf hf, hr⟩
      · split at h
        · simp at h
        · rename_i hb1 hb2
          have hbh : b = HASH := by simpa using hb2
          subst hbh
          split at h
          · simp at h
          · rename_i b2 t2
            split at h
            · rename_i h2
              have : b2 = HASH := by simpa using h2
              subst this
              simp only [Except.ok.injEq] at h
              exact ⟨[], .done, by simp [h]⟩
            · rename_i h2
              split at h
              · simp at h
              · rename_i hd rest hth
                split at h
                · simp at h
                · rename_i n hps
                  split at h
                  · simp at h
                  · rename_i hlen
                    obtain ⟨cs, hf, hr⟩ := ih _ _ h
                    obtain ⟨e, hnl, hl⟩ := takeHeader_some hth
                    have hne : hd ≠ [] := by
                      intro hh; subst hh; simp [parseSize] at hps
                    have hhead : hd.head? ≠ some HASH := by
                      cases hd with
                      | nil => simp
                      | cons x xs =>
                        simp only [List.cons_append, List.cons.injEq] at e
                        simp only [List.head?_cons, ne_eq, Option.some.injEq]
                        intro hx
                        rw [e.1, hx] at h2
                        simp at h2
                    have hn : n = (rest.take n).length := by
                      simp; omega
                    refine ⟨rest.take n :: cs, ?_, by simp [hr]⟩
                    rw [e]
                    have : rest = rest.take n ++ rest.drop n := (List.take_append_drop n rest).symm
                    conv => lhs; rw [this]
                    exact .chunk hne hhead hnl hl (by rw [← hn]; exact hps) hf

/-- completeness: every terminated chunk stream is accepted (given enough fuel) and yields exactly
its chunk data -/
theorem decodeLoop_complete (k : Nat) (d : Bytes) (cs : List Bytes) (hf : Framed k d cs) :
    ∀ (f : Nat) (acc : Bytes), d.length < f → decodeLoop k f d acc = .ok (acc ++ cs.flatten) := by
  induction hf with
  | lf _ ih =>
    intro f acc hlen
    obtain ⟨f', rfl⟩ : ∃ f', f = f' + 1 := ⟨f - 1, by simp at hlen; omega⟩
    simp only [decodeLoop, beq_self_eq_true, if_true]
    exact ih f' acc (by simp at hlen; omega)
  | done =>
    intro f acc hlen
    obtain ⟨f', rfl⟩ : ∃ f', f = f' + 1 := ⟨f - 1, by simp at hlen; omega⟩
    simp [decodeLoop, LF, HASH]
  | @chunk hd data rest cs hne hhead hnl hl hps _ ih =>
    intro f acc hlen
    obtain ⟨f', rfl⟩ : ∃ f', f = f' + 1 := ⟨f - 1, by simp at hlen; omega⟩
    obtain ⟨x, xs, rfl⟩ : ∃ x xs, hd = x :: xs := by
      cases hd with
      | nil => exact absurd rfl hne
      | cons x xs => exact ⟨x, xs, rfl⟩
    have hx : (x == HASH) = false := by
      simp only [List.head?_cons, ne_eq, Option.some.injEq] at hhead
      simpa using hhead
    have hth := takeHeader_of (k := k) (x :: xs) (data ++ rest) hnl hl
    simp only [List.cons_append] at hth ⊢
    have h1 : (HASH == LF) = false := by decide
    have h2 : (HASH != HASH) = false := by decide
    simp only [decodeLoop, h1, h2, hx, hth, hps, Bool.false_eq_true, if_false]
    have hlt : ¬ (data ++ rest).length < data.length := by simp
    simp only [hlt, if_false, List.drop_left, List.take_left]
    have := ih f' (acc ++ data) (by simp at hlen ⊢; omega)
    simpa using this

end Scrapli.Netconf
