import ScrapliModel.ChannelEv
import ScrapliModel.Lemmas.GoSem
/-!
# Lemmas about the event-list reading of the `ReadUntil*` loops

* `readUntilEv_chunks`: on a chunk-only event list `readUntilEv` is `readUntil` (so the C01 theorems
  about `readUntil` transfer);
* `readUntilEv_cancelled` / `_err` / `_ok_prefix` / `readUntilEv_skip`: a cancellation or a read error gives
  exactly that outcome, and a success consumed only `empty` / `chunk` events;
* `forLoop_readUntilEv`: any loop step with the five-case shape of the translated `ReadUntil*`
  bodies, run with enough fuel, is `readUntilEv`.
-/
namespace Scrapli.Chan
open Scrapli

/-- the Go results of a `ReadUntil*` call: bytes, error, and the events left -/
def RRes.encode : RRes × List Ev → Bytes × Go.Error × List Ev
  | (.ok rb, es) => (rb, none, es)
  | (.cancelled, es) => ([], some "ctx.Err()", es)
  | (.err e, es) => ([], some e, es)

theorem readUntilEv_chunks (P : Bytes → Bool) (cs : List Bytes) (rb : Bytes) :
    readUntilEv P (cs.map .chunk) rb = (readUntil P cs rb).map fun r => (.ok r.1, r.2.map .chunk) := by
  induction cs generalizing rb with
  | nil => simp [readUntilEv, readUntil]
  | cons c cs ih =>
    simp only [List.map_cons, readUntilEv, readUntil]
    split <;> simp [ih]

theorem readUntilEv_cancelled (P : Bytes → Bool) (es : List Ev) (rb : Bytes) :
    readUntilEv P (.cancelled :: es) rb = some (.cancelled, es) := rfl

theorem readUntilEv_err (P : Bytes → Bool) (e : String) (es : List Ev) (rb : Bytes) :
    readUntilEv P (.err e :: es) rb = some (.err e, es) := rfl

/-- a success consumed only polls that found nothing and chunks: no cancellation and no read error
    lies before the point where the call returned -/
theorem readUntilEv_ok_prefix (P : Bytes → Bool) (evs : List Ev) (rb r : Bytes) (rest : List Ev)
    (h : readUntilEv P evs rb = some (.ok r, rest)) :
    ∃ pre, evs = pre ++ rest ∧ ∀ e ∈ pre, e = .empty ∨ ∃ c, e = .chunk c := by
  induction evs generalizing rb with
  | nil => simp [readUntilEv] at h
  | cons ev es ih =>
    cases ev with
    | cancelled => simp [readUntilEv] at h
    | err e => simp [readUntilEv] at h
    | empty =>
      simp only [readUntilEv] at h
      obtain ⟨pre, hp, hall⟩ := ih rb h
      exact ⟨.empty :: pre, by simp [hp], by
        intro e he; simp at he; rcases he with rfl | he
        · exact Or.inl rfl
        · exact hall e he⟩
    | chunk c =>
      simp only [readUntilEv] at h
      split at h
      · simp at h; obtain ⟨rfl, rfl⟩ := h
        exact ⟨[.chunk c], by simp, by intro e he; simp at he; exact Or.inr ⟨c, he⟩⟩
      · obtain ⟨pre, hp, hall⟩ := ih _ h
        exact ⟨.chunk c :: pre, by simp [hp], by
          intro e he; simp at he; rcases he with rfl | he
          · exact Or.inr ⟨c, rfl⟩
          · exact hall e he⟩

/-- the bytes a run of `empty` / `chunk` events carries -/
def evBytes : List Ev → Bytes
  | [] => []
  | .chunk c :: es => c ++ evBytes es
  | _ :: es => evBytes es

/-- a call that has not completed on a run of `empty` / `chunk` events goes on with what follows;
    in particular a cancellation or an error right after it is returned as such -/
theorem readUntilEv_skip (P : Bytes → Bool) (pre : List Ev) (rest : List Ev) (rb : Bytes)
    (hpre : ∀ e ∈ pre, e = .empty ∨ ∃ c, e = .chunk c)
    (hno : ∀ k, 0 < k → k ≤ pre.length → P (rb ++ evBytes (pre.take k)) = false) :
    readUntilEv P (pre ++ rest) rb = readUntilEv P rest (rb ++ evBytes pre) := by
  induction pre generalizing rb with
  | nil => simp [evBytes]
  | cons e pre ih =>
    have he := hpre e (by simp)
    have hpre' : ∀ x ∈ pre, x = .empty ∨ ∃ c, x = .chunk c := fun x hx => hpre x (by simp [hx])
    rcases he with rfl | ⟨c, rfl⟩
    · simp only [List.cons_append, readUntilEv, evBytes]
      apply ih rb hpre'
      intro k hk hkl
      have := hno (k + 1) (by omega) (by simp; omega)
      simpa [evBytes] using this
    · have h1 := hno 1 (by omega) (by simp)
      simp only [List.take_succ_cons, List.take_zero, evBytes, List.append_nil] at h1
      simp only [List.cons_append, readUntilEv, h1, evBytes]
      rw [ih (rb ++ c) hpre']
      · simp
      · intro k hk hkl
        have := hno (k + 1) (by omega) (by simp; omega)
        simpa [evBytes, List.append_assoc] using this

/-- the five cases of one iteration of a translated `ReadUntil*` loop with completion predicate `P` -/
structure StepSpec (P : Bytes → Bool)
    (step : List Ev × Bytes → Go.Ctl (List Ev × Bytes) (Option (Bytes × Go.Error × List Ev))) : Prop where
  nil : ∀ rb, step ([], rb) = .ret none
  cancelled : ∀ es rb, step (.cancelled :: es, rb) = .ret (some ([], some "ctx.Err()", es))
  err : ∀ e es rb, step (.err e :: es, rb) = .ret (some ([], some e, es))
  empty : ∀ es rb, step (.empty :: es, rb) = .next (es, rb)
  chunk : ∀ c es rb, step (.chunk c :: es, rb) =
    if P (rb ++ c) then .ret (some (rb ++ c, none, es)) else .next (es, rb ++ c)

theorem forLoop_readUntilEv (P : Bytes → Bool)
    (step : List Ev × Bytes → Go.Ctl (List Ev × Bytes) (Option (Bytes × Go.Error × List Ev)))
    (hs : StepSpec P step) (evs : List Ev) (rb : Bytes) (fuel : Nat) (hf : evs.length + 1 ≤ fuel) :
    (match Go.forLoop step id fuel (evs, rb) with
      | .ret r => r
      | .out => none
      | .fin _ => none) = (readUntilEv P evs rb).map RRes.encode := by
  induction evs generalizing rb fuel with
  | nil =>
    obtain ⟨f, rfl⟩ : ∃ f, fuel = f + 1 := ⟨fuel - 1, by simp at hf; omega⟩
    simp [Go.forLoop, hs.nil, readUntilEv]
  | cons ev es ih =>
    obtain ⟨f, rfl⟩ : ∃ f, fuel = f + 1 := ⟨fuel - 1, by omega⟩
    have hf' : es.length + 1 ≤ f := by simp at hf; omega
    cases ev with
    | cancelled => simp [Go.forLoop, hs.cancelled, readUntilEv, RRes.encode]
    | err e => simp [Go.forLoop, hs.err, readUntilEv, RRes.encode]
    | empty =>
      simp only [Go.forLoop, hs.empty, readUntilEv, id]
      exact ih rb f hf'
    | chunk c =>
      simp only [Go.forLoop, hs.chunk, readUntilEv]
      by_cases hp : P (rb ++ c) = true
      · simp [hp, RRes.encode]
      · simp only [hp, Bool.false_eq_true, if_false, id]
        exact ih (rb ++ c) f hf'

end Scrapli.Chan
