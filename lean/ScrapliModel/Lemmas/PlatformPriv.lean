import ScrapliModel.PlatformPriv
import ScrapliModel.Lemmas.PrivSession
/-!
# Lemmas linking platform definitions to C04's hypotheses
-/
namespace Scrapli.Platform
open Scrapli Scrapli.Priv

/-- for every secret and oracle the device derived from a definition asks for a password only
where the client is prepared to give it -/
theorem asksOK_toCfg (d : Def) (secret : Bytes) (orc : Nat → Orders) (h : authConsistent d = true) :
    asksOK (toCfg d secret orc) = true := by
  unfold authConsistent at h
  rw [List.all_eq_true] at h
  unfold asksOK
  rw [List.all_eq_true]
  intro pl hpl
  obtain ⟨l, hl, rfl⟩ := List.mem_map.1 hpl
  have hl' := h l hl
  simp only [toCfg, toPrivLevel]
  cases hs : (secret != []) with
  | false => simp
  | true =>
    simp only [Bool.true_and, Bool.and_true]
    exact hl'

theorem mem_names_toCfg {d : Def} {secret : Bytes} {orc : Nat → Orders} {l : Level} (hl : l ∈ d.levels) :
    ofStr l.name ∈ names (toCfg d secret orc).L := by
  unfold names toCfg
  simp only [List.map_map]
  exact List.mem_map.2 ⟨l, hl, rfl⟩

/-- C04's hypotheses for the scenario of a definition, for every secret and every valid oracle,
from the decidable checks on the parameter-free scenario -/
theorem dom_toCfg (d : Def) (h : c04Checks d = true) (secret : Bytes) (orc : Nat → Orders)
    (ho : ∀ t, (orc t).Valid) : Dom (toCfg d secret orc) ∧ isTree (toCfg d secret orc).L = true := by
  unfold c04Checks c04Tags at h
  simp only [List.all_cons, List.all_nil, Bool.and_true, Bool.and_eq_true] at h
  obtain ⟨h1, h2, h3, h4, h5⟩ := h
  have t1 : isTree (toCfg d secret orc).L = true := h1
  have t2 : recognises (toCfg d secret orc) = true := h2
  have t3 : ambigLeaf (toCfg d secret orc) = true := h3
  have t4 : cmdsOK (toCfg d secret orc).L = true := h4
  have t5 : authConsistent d = true := h5
  refine ⟨⟨tree_of_isTree t1, ?_, t2, t3, t4, asksOK_toCfg d secret orc t5, ho⟩, t1⟩
  intro hc
  have hm := List.contains_iff_mem.2 hc
  unfold isTree at t1
  simp only [Bool.and_eq_true, Bool.not_eq_true'] at t1
  rw [hm] at t1
  exact absurd t1.1.1.2 (by simp)

theorem dom_toCfgNoAsk (d : Def) (h : c04Checks d = true) (secret : Bytes) (orc : Nat → Orders)
    (ho : ∀ t, (orc t).Valid) : Dom (toCfgNoAsk d secret orc) ∧ isTree (toCfgNoAsk d secret orc).L = true := by
  obtain ⟨hd, ht⟩ := dom_toCfg d h secret orc ho
  have hasks : asksOK (toCfgNoAsk d secret orc) = true := by
    unfold asksOK toCfgNoAsk
    rw [List.all_eq_true]
    intro l _
    simp
  exact ⟨⟨hd.tree, hd.noUnknown, hd.recog, hd.leaves, hd.cmds, hasks, ho⟩, ht⟩

end Scrapli.Platform
