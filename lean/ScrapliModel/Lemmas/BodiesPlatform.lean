import ScrapliModel.Platform
/-!
# `mergeVariant`: each step of the model as a single field update (for the tie to the translated body)
-/
namespace Scrapli.Platform
open Scrapli

section
variable {L S O : Type}
theorem mDriverType_eq (v p : Sections L S O) : mDriverType v p =
    { p with driverType := if v.driverType != "" then v.driverType else p.driverType } := by
  unfold mDriverType; cases p; split <;> simp_all
theorem mFailedWhen_eq (v p : Sections L S O) : mFailedWhen v p =
    { p with failedWhen := if v.failedWhen.length > 0 then v.failedWhen else p.failedWhen } := by
  unfold mFailedWhen; cases p; split <;> simp_all
theorem mOnOpen_eq (v p : Sections L S O) : mOnOpen v p =
    { p with onOpen := if v.onOpen.isSome then v.onOpen else p.onOpen } := by
  unfold mOnOpen; cases p; split <;> simp_all
theorem mOnClose_eq (v p : Sections L S O) : mOnClose v p =
    { p with onClose := if v.onClose.isSome then v.onClose else p.onClose } := by
  unfold mOnClose; cases p; split <;> simp_all
theorem mLevels_eq (v p : Sections L S O) : mLevels v p =
    { p with levels := if v.levels.length > 0 then v.levels else p.levels } := by
  unfold mLevels; cases p; split <;> simp_all
theorem mDefaultLevel_eq (v p : Sections L S O) : mDefaultLevel v p =
    { p with defaultLevel := if v.defaultLevel != "" then v.defaultLevel else p.defaultLevel } := by
  unfold mDefaultLevel; cases p; split <;> simp_all
theorem mNetOnOpen_eq (v p : Sections L S O) : mNetOnOpen v p =
    { p with netOnOpen := if v.netOnOpen.isSome then v.netOnOpen else p.netOnOpen } := by
  unfold mNetOnOpen; cases p; split <;> simp_all
theorem mNetOnClose_eq (v p : Sections L S O) : mNetOnClose v p =
    { p with netOnClose := if v.netOnClose.isSome then v.netOnClose else p.netOnClose } := by
  unfold mNetOnClose; cases p; split <;> simp_all
end


end Scrapli.Platform
