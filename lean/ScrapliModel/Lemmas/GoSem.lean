import ScrapliModel.GoSem
/-!
# Lemmas about the Go run-time notions of `ScrapliModel/GoSem.lean`

Used by the `generated_<fn>_eq` theorems (translated body = hand-written model).
-/
namespace Scrapli.Go

/-- `l[i:]` for an in-range natural `i` is `List.drop` -/
theorem slice_from {α : Type} (l : List α) (i : Nat) :
    slice l (i : Int) (len l) = l.drop i := by
  simp [slice, len]

/-- `l[i:]` is in range when `i ≤ len l` -/
theorem sliceOK_from {α : Type} (l : List α) (i : Nat) (h : i ≤ l.length) :
    sliceOK (len l) (i : Int) (len l) = true := by
  simp [sliceOK, len]; omega

end Scrapli.Go
