import ScrapliModel.GoSem
/-!
# Lemmas about the Go run-time notions of `ScrapliModel/GoSem.lean`

Used by the `generated_<fn>_eq` theorems (translated body = hand-written model).
-/
namespace Scrapli.Go

/-- `l[i:]` for an in-range natural `i` is `List.drop` -/
theorem slice_from {α : Type} (l : List α) (i : Nat) :
    slice l (i : Int) (len l) = l.drop i := by
  simp [slice, len]

/-- `l[i:]` is in range when `i ≤ len l` -/
theorem sliceOK_from {α : Type} (l : List α) (i : Nat) (h : i ≤ l.length) :
    sliceOK (len l) (i : Int) (len l) = true := by
  simp [sliceOK, len]; omega

theorem copy_replicate {α : Type} (s : List α) (z : α) :
    copy (List.replicate (Int.toNat (len s)) z) s = s := by
  simp [copy, len]
theorem fmtInt_len {α : Type} (s : List α) : fmtInt (len s) = decDigits s.length := by
  have h : ¬ ((s.length : Nat) : Int) < 0 := by omega
  simp [fmtInt, len, h]

/-! ### natural-number indices -/
theorem idxOK_nat {α : Type} (l : List α) (i : Nat) : idxOK (len l) (i : Int) = decide (i < l.length) := by
  simp [idxOK, len]
theorem at_of_drop {α : Type} [Inhabited α] (l : List α) (i : Nat) (b : α) (t : List α)
    (h : l.drop i = b :: t) : Go.at l (i : Int) = b := by
  have : l[i]? = some b := by
    rw [← List.head?_drop, h]; rfl
  simp [Go.at, List.getD, this]
theorem slice_nat {α : Type} (l : List α) (a b : Nat) : slice l (a : Int) (b : Int) = (l.take b).drop a := by
  simp [slice]
theorem sliceOK_nat {α : Type} (l : List α) (a b : Nat) :
    sliceOK (len l) (a : Int) (b : Int) = (decide (a ≤ b) && decide (b ≤ l.length)) := by
  simp [sliceOK, len]

theorem idxOK_zero_nil {α : Type} : idxOK (len ([] : List α)) 0 = false := by simp [idxOK, len]
theorem idxOK_zero_cons {α : Type} (a : α) (l : List α) : idxOK (len (a :: l)) 0 = true := by
  simp [idxOK, len]
theorem sliceOK_one_cons {α : Type} (a : α) (l : List α) : sliceOK (len (a :: l)) 1 (len (a :: l)) = true := by
  have := sliceOK_from (a :: l) 1 (by simp)
  simpa using this
theorem at_zero_cons {α : Type} [Inhabited α] (a : α) (l : List α) : Go.at (a :: l) 0 = a := by simp [Go.at]
theorem slice_one_cons {α : Type} (a : α) (l : List α) : slice (a :: l) 1 (len (a :: l)) = l := by
  simp [slice, len]

/-- a `range` loop without state that returns `f x` at the first element satisfying `p` -/
theorem forRangeFrom_find {α ρ : Type} (p : α → Bool) (f : α → ρ) (xs : List α) (i : Int) :
    forRangeFrom (fun _ x () => if p x then Ctl.ret (f x) else Ctl.next ()) i xs ()
      = match xs.find? p with
        | some x => Done.ret (f x)
        | none => Done.fin () := by
  induction xs generalizing i with
  | nil => simp [forRangeFrom]
  | cons x xs ih =>
    simp only [forRangeFrom, List.find?]
    cases h : p x <;> simp [ih]

/-- a `range` loop whose body always falls through ends normally -/
theorem forRangeFrom_total {α σ ρ : Type} (body : Int → α → σ → Ctl σ ρ)
    (h : ∀ i x s, ∃ s', body i x s = .next s') (xs : List α) (i : Int) (s : σ) :
    ∃ s', forRangeFrom body i xs s = .fin s' := by
  induction xs generalizing i s with
  | nil => exact ⟨s, rfl⟩
  | cons x xs ih =>
    obtain ⟨s1, h1⟩ := h i x s
    obtain ⟨s2, h2⟩ := ih (i + 1) s1
    exact ⟨s2, by simp [forRangeFrom, h1, h2]⟩

/-- a `range` loop that stores `f x` at the loop index into a slice of the same length computes
    `map f` and never indexes out of range -/
theorem forRangeFrom_set_map {α β ρ : Type} (f : α → β) (xs : List α) (pre : List β) (rest : List β)
    (h : rest.length = xs.length) :
    forRangeFrom (ρ := Option ρ) (fun i x (s : List β) =>
        if !(idxOK (len s) i) then .ret none else .next (set s i (f x)))
      (pre.length : Nat) xs (pre ++ rest) = .fin (pre ++ xs.map f) := by
  induction xs generalizing pre rest with
  | nil =>
    cases rest with
    | nil => simp [forRangeFrom]
    | cons _ _ => simp at h
  | cons x xs ih =>
    cases rest with
    | nil => simp at h
    | cons r rest =>
      simp only [List.length_cons, Nat.add_right_cancel_iff] at h
      have hok : idxOK (len (pre ++ r :: rest)) ((pre.length : Nat) : Int) = true := by
        simp [idxOK, len]; omega
      have hset : set (pre ++ r :: rest) ((pre.length : Nat) : Int) (f x) = (pre ++ [f x]) ++ rest := by
        simp [set]
      simp only [forRangeFrom, hok, Bool.not_true, Bool.false_eq_true, if_false, hset]
      have := ih (pre ++ [f x]) rest h
      simp only [List.length_append, List.length_singleton, Int.natCast_add, Int.natCast_one] at this
      simpa using this

/-- `out := make([]T, len(xs)); for i, x := range xs { out[i] = f(x) }` is `map f` -/
theorem forRange_set_map {α β ρ : Type} (f : α → β) (xs : List α) (z : β) :
    forRange (ρ := Option ρ) xs (List.replicate (Int.toNat (len xs)) z) (fun i x (s : List β) =>
        if !(idxOK (len s) i) then .ret none else .next (set s i (f x)))
      = .fin (xs.map f) := by
  have := forRangeFrom_set_map (ρ := ρ) f xs [] (List.replicate xs.length z) (by simp)
  simpa [forRange, len] using this

end Scrapli.Go
