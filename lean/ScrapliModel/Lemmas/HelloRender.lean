import ScrapliModel.Lemmas.Hello
/-!
The scanner on rendered hello layouts (`renderCore L ++ tail`): which pieces of the rendering are junk
for which search, and where the searches hit.
-/
namespace Scrapli.Netconf.Hello
open Scrapli Scrapli.Chan

/-! ## facts about the fixed names -/

theorem lower_nmHello : ∀ b ∈ nmHello, toLowerB b = b := by decide
theorem lower_nmHelloGt : ∀ b ∈ nmHelloGt, toLowerB b = b := by decide
theorem lower_nmCap : ∀ b ∈ nmCap, toLowerB b = b := by decide
theorem lower_nmSid : ∀ b ∈ nmSid, toLowerB b = b := by decide

theorem plain_nmCap (r : Bytes) : PlainHead (nmCap ++ r) :=
  ⟨[99,97,112,97,98,105,108,105,116,121], 62, r, rfl, by decide, by decide, by decide⟩
theorem plain_nmCaps (r : Bytes) : PlainHead (nmCaps ++ r) :=
  ⟨[99,97,112,97,98,105,108,105,116,105,101,115], 62, r, rfl, by decide, by decide, by decide⟩
theorem plain_nmSid (r : Bytes) : PlainHead (nmSid ++ r) :=
  ⟨[115,101,115,115,105,111,110], 45, [105,100,62] ++ r, rfl, by decide, by decide, by decide⟩
theorem plain_nmHelloGt (r : Bytes) : PlainHead (nmHelloGt ++ r) :=
  ⟨[104,101,108,108,111], 62, r, rfl, by decide, by decide, by decide⟩

theorem noLT_iff (b : Bytes) : noLT b = true ↔ ∀ x ∈ b, x ≠ 60 := by
  simp [noLT]

/-- the hello start tag: `hello`, attribute text, `>` -/
theorem plain_nmHello (attrs r : Bytes) (ha : attrsOK attrs = true) :
    PlainHead (nmHello ++ (attrs ++ 62 :: r)) := by
  cases attrs with
  | nil => exact ⟨[104,101,108,108,111], 62, r, rfl, by decide, by decide, by decide⟩
  | cons c t =>
    simp only [attrsOK, Bool.and_eq_true, Bool.not_eq_true', bne_iff_ne, ne_eq] at ha
    exact ⟨[104,101,108,108,111], c, t ++ 62 :: r, rfl, by decide, ha.2.1, ha.2.2⟩

theorem noLT_pfxB (p : Bytes) (hp : WordPfx p) : ∀ b ∈ pfxB p, b ≠ 60 := by
  intro b hb
  unfold pfxB at hb
  split at hb
  · simp at hb
  · simp only [List.mem_append, List.mem_singleton] at hb
    rcases hb with hb | hb
    · exact isWord_ne_lt (hp b hb)
    · subst hb; decide

/-! ## scanners reject what does not start with `<` -/

theorem capAt_not_lt (b : UInt8) (t : Bytes) (hb : b ≠ 60) : capAt (b :: t) = none := by
  simp [capAt, openTag_not_lt true nmCap b t hb]

theorem sidAt_not_lt (pf : Bool) (b : UInt8) (t : Bytes) (hb : b ≠ 60) :
    sidAt pf (b :: t) = none := by
  simp [sidAt, openTag_not_lt pf nmSid b t hb]

theorem openHelloAt_not_lt (b : UInt8) (t : Bytes) (hb : b ≠ 60) : openHelloAt (b :: t) = none := by
  simp [openHelloAt, openTag_not_lt _ nmHello b t hb]

theorem capAt_of_open_none {s : Bytes} (h : openTag true nmCap s = none) : capAt s = none := by
  simp [capAt, h]

theorem sidAt_of_open_none {pf : Bool} {s : Bytes} (h : openTag pf nmSid s = none) :
    sidAt pf s = none := by
  simp [sidAt, h]

/-! ## junk pieces -/

/-- `<?…` and `</…` -/
theorem junk_capAt_nonword (c : UInt8) (x : Bytes) (hc : isWord c = false) (hc2 : toLowerB c ≠ 99)
    (hx : ∀ b ∈ c :: x, b ≠ 60) : Junk capAt (60 :: c :: x) :=
  junk_tag capAt_not_lt (c :: x) hx fun tail =>
    capAt_of_open_none (openTag_nonword true nmCap c 99 _ _ rfl hc hc2)

theorem junk_sidAt_nonword (pf : Bool) (c : UInt8) (x : Bytes) (hc : isWord c = false)
    (hc2 : toLowerB c ≠ 115) (hx : ∀ b ∈ c :: x, b ≠ 60) : Junk (sidAt pf) (60 :: c :: x) :=
  junk_tag (sidAt_not_lt pf) (c :: x) hx fun tail =>
    sidAt_of_open_none (openTag_nonword pf nmSid c 115 _ _ rfl hc hc2)

theorem junk_openHello_nonword (c : UInt8) (x : Bytes) (hc : isWord c = false)
    (hc2 : toLowerB c ≠ 104) (hx : ∀ b ∈ c :: x, b ≠ 60) : Junk openHelloAt (60 :: c :: x) :=
  junk_tag openHelloAt_not_lt (c :: x) hx fun tail => by
    simp [openHelloAt, openTag_nonword _ nmHello c 104 _ _ rfl hc hc2]

theorem junk_declB {α : Type} (f : Bytes → Option α) (d : Option Bytes)
    (h : ∀ x, (∀ b ∈ x, b ≠ 60) → Junk f (60 :: 63 :: x))
    (hd : ∀ x, d = some x → noLT x = true) : Junk f (declB d) := by
  cases d with
  | none => exact junk_nil f
  | some x => exact h x ((noLT_iff x).mp (hd x rfl))

/-! ## named tags that a scanner rejects -/

theorem ci_hello_cap (r : Bytes) : hasPrefixCI (nmHello ++ r) nmCap = false := by
  simp [nmHello, nmCap, hasPrefixCI, toLowerB]
theorem ci_caps_cap (r : Bytes) : hasPrefixCI (nmCaps ++ r) nmCap = false := by
  simp [nmCaps, nmCap, hasPrefixCI, toLowerB]
theorem ci_sid_cap (r : Bytes) : hasPrefixCI (nmSid ++ r) nmCap = false := by
  simp [nmSid, nmCap, hasPrefixCI, toLowerB]
theorem ci_hello_sid (r : Bytes) : hasPrefixCI (nmHello ++ r) nmSid = false := by
  simp [nmHello, nmSid, hasPrefixCI, toLowerB]
theorem ci_caps_sid (r : Bytes) : hasPrefixCI (nmCaps ++ r) nmSid = false := by
  simp [nmCaps, nmSid, hasPrefixCI, toLowerB]
theorem ci_cap_sid (r : Bytes) : hasPrefixCI (nmCap ++ r) nmSid = false := by
  simp [nmCap, nmSid, hasPrefixCI, toLowerB]

theorem noLT_names : (∀ b ∈ nmHello, b ≠ 60) ∧ (∀ b ∈ nmHelloGt, b ≠ 60) ∧ (∀ b ∈ nmCap, b ≠ 60) ∧
    (∀ b ∈ nmCaps, b ≠ 60) ∧ (∀ b ∈ nmSid, b ≠ 60) := by decide

/-- a start tag `<p:other` followed by text without `<`, rejected by `f` -/
theorem junk_otag {α : Type} {f : Bytes → Option α} (hf : ∀ b t, b ≠ 60 → f (b :: t) = none)
    (p other extra : Bytes) (hp : WordPfx p) (hother : ∀ b ∈ other, b ≠ 60)
    (hextra : ∀ b ∈ extra, b ≠ 60)
    (hrej : ∀ tail, f (otag p other ++ (extra ++ tail)) = none) :
    Junk f (otag p other ++ extra) := by
  have e : otag p other ++ extra = 60 :: (pfxB p ++ other ++ extra) := by simp [otag]
  rw [e]
  refine junk_tag hf _ ?_ ?_
  · intro b hb
    simp only [List.mem_append] at hb
    rcases hb with (hb | hb) | hb
    · exact noLT_pfxB p hp b hb
    · exact hother b hb
    · exact hextra b hb
  · intro tail
    have := hrej tail
    simpa [otag] using this

/-- an end tag `</p:name` followed by text without `<` is junk for every scanner that wants a start
tag -/
theorem junk_ctag {α : Type} {f : Bytes → Option α}
    (h : ∀ x, (∀ b ∈ (47 : UInt8) :: x, b ≠ 60) → Junk f (60 :: 47 :: x))
    (p name extra : Bytes) (hp : WordPfx p) (hname : ∀ b ∈ name, b ≠ 60)
    (hextra : ∀ b ∈ extra, b ≠ 60) : Junk f (ctag p name ++ extra) := by
  have e : ctag p name ++ extra = 60 :: 47 :: (pfxB p ++ name ++ extra) := by simp [ctag]
  rw [e]
  refine h _ ?_
  intro b hb
  simp only [List.mem_cons, List.mem_append] at hb
  rcases hb with hb | (hb | hb) | hb
  · subst hb; decide
  · exact noLT_pfxB p hp b hb
  · exact hname b hb
  · exact hextra b hb

theorem junk_capAt_slash (x : Bytes) (hx : ∀ b ∈ (47 : UInt8) :: x, b ≠ 60) :
    Junk capAt (60 :: 47 :: x) := junk_capAt_nonword 47 x (by decide) (by decide) hx
theorem junk_sidAt_slash (pf : Bool) (x : Bytes) (hx : ∀ b ∈ (47 : UInt8) :: x, b ≠ 60) :
    Junk (sidAt pf) (60 :: 47 :: x) := junk_sidAt_nonword pf 47 x (by decide) (by decide) hx

/-! ## the capability search -/

theorem capBody_hit (p u rest : Bytes) (hp : WordPfx p) (hu : ∀ b ∈ u, b ≠ 60)
    (hlf : ∀ b ∈ u, b ≠ LF) : capBody (u ++ (ctag p nmCap ++ rest)) = some (u, rest) := by
  induction u with
  | nil =>
    have hc := closeTag_hit p nmCap rest hp (plain_nmCap rest) lower_nmCap
    have e : ctag p nmCap ++ rest = 60 :: 47 :: (pfxB p ++ nmCap ++ rest) := by simp [ctag]
    rw [e] at hc
    simp only [List.nil_append]
    rw [e]
    simp only [capBody, hc]
  | cons b t ih =>
    have hb : b ≠ 60 := hu b (by simp)
    have hb2 : b ≠ LF := hlf b (by simp)
    simp only [List.cons_append, capBody, closeTag_not_lt true nmCap b _ hb]
    have : (b == LF) = false := by simpa using hb2
    simp only [this, Bool.false_eq_true, if_false]
    rw [ih (fun x hx => hu x (by simp [hx])) (fun x hx => hlf x (by simp [hx]))]
    rfl

theorem capAt_hit (p u rest : Bytes) (hp : WordPfx p) (hu : ∀ b ∈ u, b ≠ 60)
    (hlf : ∀ b ∈ u, b ≠ LF) :
    capAt (otag p nmCap ++ (u ++ (ctag p nmCap ++ rest))) = some (u, rest) := by
  unfold capAt
  rw [openTag_hit p nmCap _ hp (plain_nmCap _) lower_nmCap]
  exact capBody_hit p u rest hp hu hlf

def CapsOK (caps : List (Bytes × Bytes)) : Prop :=
  ∀ c ∈ caps, (∀ b ∈ c.1, b ≠ 60) ∧ (∀ b ∈ c.1, b ≠ LF) ∧ (∀ b ∈ c.2, b ≠ 60)

theorem capsScan_capsR (p : Bytes) (caps : List (Bytes × Bytes)) (rest : Bytes) (hp : WordPfx p)
    (hc : CapsOK caps) :
    capsScan (capsR p caps ++ rest) = caps.map Prod.fst ++ capsScan rest := by
  induction caps with
  | nil => simp [capsR]
  | cons c cs ih =>
    obtain ⟨h1, h2, h3⟩ := hc c (by simp)
    have hcs : CapsOK cs := fun x hx => hc x (by simp [hx])
    have e : capsR p (c :: cs) ++ rest
        = otag p nmCap ++ (c.1 ++ (ctag p nmCap ++ (c.2 ++ (capsR p cs ++ rest)))) := by
      simp [capsR, capEl, List.append_assoc]
    rw [e, capsScan_hit _ _ _ (capAt_hit p c.1 _ hp h1 h2)]
    rw [capsScan_junk c.2 _ (junk_noLT capAt_not_lt c.2 h3), ih hcs]
    simp

/-! ## the session-id search -/

theorem sidAt_hit (p ds rest : Bytes) (hp : WordPfx p) (hne : ds ≠ [])
    (hd : ∀ b ∈ ds, isDigit b = true) :
    sidAt true (otag p nmSid ++ (ds ++ (ctag p nmSid ++ rest))) = some ds := by
  unfold sidAt
  rw [openTag_hit p nmSid _ hp (plain_nmSid _) lower_nmSid]
  have e : ctag p nmSid ++ rest = 60 :: (47 :: (pfxB p ++ nmSid ++ rest)) := by simp [ctag]
  have ht : (ds ++ (ctag p nmSid ++ rest)).takeWhile isDigit = ds := by
    rw [e]; exact takeWhile_all_append ds 60 _ hd (by decide)
  have hdw : (ds ++ (ctag p nmSid ++ rest)).dropWhile isDigit = ctag p nmSid ++ rest := by
    rw [e]; exact dropWhile_all_append ds 60 _ hd (by decide)
  simp only [ht, hdw]
  have : ds.isEmpty = false := by cases ds <;> simp_all
  simp only [this, Bool.false_eq_true, if_false]
  rw [closeTag_hit p nmSid rest hp (plain_nmSid rest) lower_nmSid]

/-- without prefix support the unprefixed element is still found -/
theorem sidAt_hit_plain (ds rest : Bytes) (hne : ds ≠ []) (hd : ∀ b ∈ ds, isDigit b = true) :
    sidAt false (otag [] nmSid ++ (ds ++ (ctag [] nmSid ++ rest))) = some ds := by
  have e1 : otag [] nmSid ++ (ds ++ (ctag [] nmSid ++ rest))
      = 60 :: (nmSid ++ (ds ++ (60 :: 47 :: (nmSid ++ rest)))) := by simp [otag, ctag, pfxB]
  rw [e1]
  unfold sidAt openTag
  simp only [Bool.false_eq_true, if_false, hasPrefixCI_self nmSid _ lower_nmSid, if_true,
    drop_length_append]
  have ht : (ds ++ 60 :: 47 :: (nmSid ++ rest)).takeWhile isDigit = ds :=
    takeWhile_all_append ds 60 _ hd (by decide)
  have hdw : (ds ++ 60 :: 47 :: (nmSid ++ rest)).dropWhile isDigit = 60 :: 47 :: (nmSid ++ rest) :=
    dropWhile_all_append ds 60 _ hd (by decide)
  simp only [ht, hdw]
  have : ds.isEmpty = false := by cases ds <;> simp_all
  simp only [this, Bool.false_eq_true, if_false]
  unfold closeTag
  simp only [Bool.false_eq_true, if_false, hasPrefixCI_self nmSid _ lower_nmSid, if_true]

/-- capability elements are junk for the session-id search -/
theorem junk_sid_capsR (pf : Bool) (p : Bytes) (caps : List (Bytes × Bytes)) (hp : WordPfx p)
    (hpf : pf = false → p = []) (hc : CapsOK caps) : Junk (sidAt pf) (capsR p caps) := by
  induction caps with
  | nil => exact junk_nil _
  | cons c cs ih =>
    obtain ⟨h1, _, h3⟩ := hc c (by simp)
    have hcs : CapsOK cs := fun x hx => hc x (by simp [hx])
    have e : capsR p (c :: cs) = (otag p nmCap ++ c.1) ++ ((ctag p nmCap ++ c.2) ++ capsR p cs) := by
      simp [capsR, capEl, List.append_assoc]
    rw [e]
    refine junk_append ?_ (junk_append ?_ (ih hcs))
    · refine junk_otag (sidAt_not_lt pf) p nmCap c.1 hp noLT_names.2.2.1 h1 fun tail => ?_
      exact sidAt_of_open_none (openTag_other pf p nmCap nmSid _ hp (plain_nmCap _) (ci_cap_sid _) hpf)
    · exact junk_ctag (junk_sidAt_slash pf) p nmCap c.2 hp noLT_names.2.2.1 h3

/-! ## the grammar predicate, unpacked -/

structure Layout.OK (L : Layout) : Prop where
  decl : ∀ x, L.decl = some x → noLT x = true
  pfx : WordPfx L.pfx
  attrs : attrsOK L.attrs = true
  pre : ∀ b ∈ L.pre, b ≠ 60
  ws0 : ∀ b ∈ L.ws0, b ≠ 60
  ws1 : ∀ b ∈ L.ws1, b ≠ 60
  ws2 : ∀ b ∈ L.ws2, b ≠ 60
  ws3 : ∀ b ∈ L.ws3, b ≠ 60
  ws4 : ∀ b ∈ L.ws4, b ≠ 60
  caps : CapsOK L.caps
  sid : ∀ ds, L.sid = some ds → ds ≠ [] ∧ ∀ b ∈ ds, isDigit b = true

theorem Layout.ok_OK (L : Layout) (h : L.ok = true) : L.OK := by
  simp only [Layout.ok, Bool.and_eq_true] at h
  obtain ⟨⟨⟨⟨⟨⟨⟨⟨⟨⟨hdecl, hpfx⟩, hattrs⟩, hpre⟩, h0⟩, h1⟩, h2⟩, h3⟩, h4⟩, hcaps⟩, hsid⟩ := h
  refine ⟨?_, ?_, hattrs, (noLT_iff _).mp hpre, (noLT_iff _).mp h0, (noLT_iff _).mp h1, (noLT_iff _).mp h2,
    (noLT_iff _).mp h3, (noLT_iff _).mp h4, ?_, ?_⟩
  · intro x hx; rw [hx] at hdecl; exact hdecl
  · intro b hb; exact List.all_eq_true.mp hpfx b hb
  · intro c hc
    have := List.all_eq_true.mp hcaps c hc
    simp only [Bool.and_eq_true] at this
    refine ⟨(noLT_iff _).mp this.1.1, ?_, (noLT_iff _).mp this.2⟩
    intro b hb
    have := List.all_eq_true.mp this.1.2 b hb
    simpa using this
  · intro ds hds
    rw [hds] at hsid
    simp only [Bool.and_eq_true, Bool.not_eq_true', List.isEmpty_eq_false_iff] at hsid
    exact ⟨hsid.1, fun b hb => List.all_eq_true.mp hsid.2 b hb⟩

theorem isDigit_ne_lt {b : UInt8} (h : isDigit b = true) : b ≠ 60 := by
  intro hb; subst hb; exact absurd h (by decide)

theorem attrs_noLT {a : Bytes} (h : attrsOK a = true) : ∀ b ∈ a ++ [62], b ≠ 60 := by
  simp only [attrsOK, Bool.and_eq_true] at h
  intro b hb
  simp only [List.mem_append, List.mem_singleton] at hb
  rcases hb with hb | hb
  · exact (noLT_iff a).mp h.1 b hb
  · subst hb; decide

/-- the hello start tag with its attributes, for scanners that reject the name `hello` -/
theorem junk_helloOpen {α : Type} {f : Bytes → Option α} (hf : ∀ b t, b ≠ 60 → f (b :: t) = none)
    (p attrs : Bytes) (hp : WordPfx p) (ha : attrsOK attrs = true)
    (hrej : ∀ r, PlainHead (nmHello ++ r) → f (otag p nmHello ++ r) = none) :
    Junk f (otag p nmHello ++ (attrs ++ [62])) := by
  refine junk_otag hf p nmHello (attrs ++ [62]) hp noLT_names.1 (attrs_noLT ha) fun tail => ?_
  have e : attrs ++ [62] ++ tail = attrs ++ 62 :: tail := by simp
  rw [e]
  exact hrej _ (plain_nmHello attrs tail ha)

/-! ## capabilities of a rendered hello -/

theorem junk_capAt_sidR (p : Bytes) (sid : Option Bytes) (w : Bytes) (hp : WordPfx p)
    (hs : ∀ ds, sid = some ds → ds ≠ [] ∧ ∀ b ∈ ds, isDigit b = true) (hw : ∀ b ∈ w, b ≠ 60) :
    Junk capAt (sidR p sid w) := by
  cases sid with
  | none => exact junk_nil _
  | some ds =>
    have e : sidR p (some ds) w = (otag p nmSid ++ ds) ++ (ctag p nmSid ++ w) := by
      simp [sidR, List.append_assoc]
    rw [e]
    refine junk_append ?_ (junk_ctag junk_capAt_slash p nmSid w hp noLT_names.2.2.2.2 hw)
    refine junk_otag capAt_not_lt p nmSid ds hp noLT_names.2.2.2.2
      (fun b hb => isDigit_ne_lt ((hs ds rfl).2 b hb)) fun tail => ?_
    exact capAt_of_open_none (openTag_other true p nmSid nmCap _ hp (plain_nmSid _) (ci_sid_cap _)
      (by simp))

theorem capsScan_render_core (L : Layout) (tail : Bytes) (h : L.OK) (ht : ∀ b ∈ tail, b ≠ 60) :
    capsScan (renderCore L ++ tail) = L.caps.map Prod.fst := by
  have hp := h.pfx
  have e : renderCore L ++ tail =
      (declB L.decl ++ (L.ws0 ++ ((otag L.pfx nmHello ++ (L.attrs ++ [62])) ++ (L.ws1 ++
        ((otag L.pfx nmCaps ++ []) ++ L.ws2))))) ++
      (capsR L.pfx L.caps ++
        (((ctag L.pfx nmCaps ++ L.ws3) ++ (sidR L.pfx L.sid L.ws4 ++ (ctag L.pfx nmHelloGt ++ tail)))
          ++ [])) := by
    simp [renderCore, List.append_assoc]
  rw [e, capsScan_junk, capsScan_capsR _ _ _ hp h.caps, capsScan_junk, capsScan_nil]
  · simp
  · -- after the capability list
    refine junk_append (junk_ctag junk_capAt_slash _ _ _ hp noLT_names.2.2.2.1 h.ws3)
      (junk_append (junk_capAt_sidR _ _ _ hp h.sid h.ws4)
        (junk_ctag junk_capAt_slash _ _ _ hp noLT_names.2.1 ht))
  · -- before the capability list
    refine junk_append (junk_declB _ _ (fun x hx => junk_capAt_nonword 63 x (by decide) (by decide)
        (by intro b hb; simp only [List.mem_cons] at hb; rcases hb with hb | hb
            · subst hb; decide
            · exact hx b hb)) h.decl)
      (junk_append (junk_noLT capAt_not_lt _ h.ws0)
        (junk_append (junk_helloOpen capAt_not_lt _ _ hp h.attrs fun r hr =>
            capAt_of_open_none (openTag_other true _ nmHello nmCap r hp hr (ci_hello_cap r) (by simp)))
          (junk_append (junk_noLT capAt_not_lt _ h.ws1)
            (junk_append (junk_otag capAt_not_lt _ nmCaps [] hp noLT_names.2.2.2.1 (by simp)
                fun tail => capAt_of_open_none (openTag_other true _ nmCaps nmCap _ hp
                  (plain_nmCaps _) (ci_caps_cap _) (by simp)))
              (junk_noLT capAt_not_lt _ h.ws2)))))

/-! ## session-id of a rendered hello -/

theorem junk_sid_pre (pf : Bool) (L : Layout) (h : L.OK) (hpf : pf = false → L.pfx = []) :
    Junk (sidAt pf) (declB L.decl ++ (L.ws0 ++ ((otag L.pfx nmHello ++ (L.attrs ++ [62])) ++ (L.ws1 ++
        ((otag L.pfx nmCaps ++ []) ++ (L.ws2 ++ (capsR L.pfx L.caps ++ (ctag L.pfx nmCaps ++ L.ws3)))))))) := by
  have hp := h.pfx
  refine junk_append (junk_declB _ _ (fun x hx => junk_sidAt_nonword pf 63 x (by decide) (by decide)
        (by intro b hb; simp only [List.mem_cons] at hb; rcases hb with hb | hb
            · subst hb; decide
            · exact hx b hb)) h.decl)
      (junk_append (junk_noLT (sidAt_not_lt pf) _ h.ws0)
        (junk_append (junk_helloOpen (sidAt_not_lt pf) _ _ hp h.attrs fun r hr =>
            sidAt_of_open_none (openTag_other pf _ nmHello nmSid r hp hr (ci_hello_sid r) hpf))
          (junk_append (junk_noLT (sidAt_not_lt pf) _ h.ws1)
            (junk_append (junk_otag (sidAt_not_lt pf) _ nmCaps [] hp noLT_names.2.2.2.1 (by simp)
                fun tail => sidAt_of_open_none (openTag_other pf _ nmCaps nmSid _ hp
                  (plain_nmCaps _) (ci_caps_sid _) hpf))
              (junk_append (junk_noLT (sidAt_not_lt pf) _ h.ws2)
                (junk_append (junk_sid_capsR pf _ _ hp hpf h.caps)
                  (junk_ctag (junk_sidAt_slash pf) _ _ _ hp noLT_names.2.2.2.1 h.ws3)))))))

theorem sidScan_render_core (pf : Bool) (L : Layout) (tail : Bytes) (h : L.OK)
    (ht : ∀ b ∈ tail, b ≠ 60) (hpf : pf = false → L.pfx = []) :
    sidScan pf (renderCore L ++ tail) = L.sid := by
  have hp := h.pfx
  unfold sidScan
  cases hs : L.sid with
  | none =>
    have e : renderCore L ++ tail =
        ((declB L.decl ++ (L.ws0 ++ ((otag L.pfx nmHello ++ (L.attrs ++ [62])) ++ (L.ws1 ++
          ((otag L.pfx nmCaps ++ []) ++ (L.ws2 ++ (capsR L.pfx L.caps ++ (ctag L.pfx nmCaps ++ L.ws3))))))))
          ++ (ctag L.pfx nmHelloGt ++ tail)) ++ [] := by
      simp [renderCore, hs, sidR, List.append_assoc]
    rw [e, firstSome_junk _ _ _ (junk_append (junk_sid_pre pf L h hpf)
      (junk_ctag (junk_sidAt_slash pf) _ _ _ hp noLT_names.2.1 ht))]
    simp [firstSome, sidAt, openTag_nil]
  | some ds =>
    obtain ⟨hne, hd⟩ := h.sid ds hs
    have e : renderCore L ++ tail =
        (declB L.decl ++ (L.ws0 ++ ((otag L.pfx nmHello ++ (L.attrs ++ [62])) ++ (L.ws1 ++
          ((otag L.pfx nmCaps ++ []) ++ (L.ws2 ++ (capsR L.pfx L.caps ++ (ctag L.pfx nmCaps ++ L.ws3))))))))
          ++ (otag L.pfx nmSid ++ (ds ++ (ctag L.pfx nmSid ++ (L.ws4 ++ (ctag L.pfx nmHelloGt ++ tail))))) := by
      simp [renderCore, hs, sidR, List.append_assoc]
    rw [e, firstSome_junk _ _ _ (junk_sid_pre pf L h hpf)]
    apply firstSome_hit
    cases pf with
    | true => exact sidAt_hit _ ds _ hp hne hd
    | false =>
      rw [hpf rfl]
      exact sidAt_hit_plain ds _ hne hd

/-! ## the hello element of a rendered hello -/

theorem hasHelloScan_render_core (L : Layout) (tail : Bytes) (h : L.OK) :
    hasHelloScan (renderCore L ++ tail) = true := by
  have hp := h.pfx
  have e : renderCore L ++ tail =
      (declB L.decl ++ L.ws0) ++ (otag L.pfx nmHello ++ (L.attrs ++ 62 :: ((L.ws1 ++ (otag L.pfx nmCaps ++
        (L.ws2 ++ (capsR L.pfx L.caps ++ (ctag L.pfx nmCaps ++ (L.ws3 ++ sidR L.pfx L.sid L.ws4))))))
        ++ (ctag L.pfx nmHelloGt ++ tail)))) := by
    simp [renderCore, List.append_assoc]
  unfold hasHelloScan
  rw [e, firstSome_junk openHelloAt _ _ (junk_append
    (junk_declB _ _ (fun x hx => junk_openHello_nonword 63 x (by decide) (by decide)
        (by intro b hb; simp only [List.mem_cons] at hb; rcases hb with hb | hb
            · subst hb; decide
            · exact hx b hb)) h.decl)
    (junk_noLT openHelloAt_not_lt _ h.ws0))]
  have hopen : openHelloAt (otag L.pfx nmHello ++ (L.attrs ++ 62 :: ((L.ws1 ++ (otag L.pfx nmCaps ++
        (L.ws2 ++ (capsR L.pfx L.caps ++ (ctag L.pfx nmCaps ++ (L.ws3 ++ sidR L.pfx L.sid L.ws4))))))
        ++ (ctag L.pfx nmHelloGt ++ tail)))) = some (L.attrs ++ 62 :: ((L.ws1 ++ (otag L.pfx nmCaps ++
        (L.ws2 ++ (capsR L.pfx L.caps ++ (ctag L.pfx nmCaps ++ (L.ws3 ++ sidR L.pfx L.sid L.ws4))))))
        ++ (ctag L.pfx nmHelloGt ++ tail))) := by
    unfold openHelloAt
    rw [openTag_hit L.pfx nmHello _ hp (plain_nmHello _ _ h.attrs) lower_nmHello]
  rw [firstSome_hit _ _ _ hopen]
  simp only
  have e2 : L.attrs ++ 62 :: ((L.ws1 ++ (otag L.pfx nmCaps ++
        (L.ws2 ++ (capsR L.pfx L.caps ++ (ctag L.pfx nmCaps ++ (L.ws3 ++ sidR L.pfx L.sid L.ws4))))))
        ++ (ctag L.pfx nmHelloGt ++ tail)) = (L.attrs ++ 62 :: (L.ws1 ++ (otag L.pfx nmCaps ++
        (L.ws2 ++ (capsR L.pfx L.caps ++ (ctag L.pfx nmCaps ++ (L.ws3 ++ sidR L.pfx L.sid L.ws4)))))))
        ++ (ctag L.pfx nmHelloGt ++ tail) := by simp
  rw [e2]
  apply firstSome_isSome_append
  unfold closeHelloAt
  rw [closeTag_hit L.pfx nmHelloGt tail hp (plain_nmHelloGt tail) lower_nmHelloGt]
  rfl

/-! ## the pattern as it stood (no prefix on session-id): every prefixed hello loses its session-id -/

theorem toLowerB_word_ne_dash (b : UInt8) (h : isWord b = true) : (toLowerB b == 45) = false := by
  have : toLowerB b ≠ 45 := by
    unfold toLowerB
    split <;> (try decide)
    intro hb; subst hb; exact absurd h (by decide)
  simpa using this

/-- a prefixed element name is never the bare name `session-id>` -/
theorem ci_prefixed_sid (p X : Bytes) (hne : p ≠ []) (hp : WordPfx p) :
    hasPrefixCI (p ++ 58 :: X) nmSid = false := by
  have hc : ∀ x : UInt8, x ∈ [115,101,115,115,105,111,110,45,105,100,62] → (toLowerB 58 == x) = false := by
    decide
  rcases p with _ | ⟨a0, _ | ⟨a1, _ | ⟨a2, _ | ⟨a3, _ | ⟨a4, _ | ⟨a5, _ | ⟨a6, _ | ⟨a7, t⟩⟩⟩⟩⟩⟩⟩⟩
  · exact absurd rfl hne
  all_goals simp only [nmSid, List.cons_append, List.nil_append, hasPrefixCI]
  all_goals first
    | (have h7 := toLowerB_word_ne_dash a7 (hp a7 (by simp)); simp [h7])
    | simp [hc]

theorem openTag_false_prefixed (p name X : Bytes) (hne : p ≠ []) (hp : WordPfx p) :
    openTag false nmSid (otag p name ++ X) = none := by
  have e : otag p name ++ X = 60 :: (p ++ 58 :: (name ++ X)) := by
    cases p with
    | nil => exact absurd rfl hne
    | cons a t => simp [otag, pfxB]
  rw [e]
  unfold openTag
  simp [ci_prefixed_sid p (name ++ X) hne hp]

theorem junk_sidFalse_otag (p name extra : Bytes) (hne : p ≠ []) (hp : WordPfx p)
    (hname : ∀ b ∈ name, b ≠ 60) (hextra : ∀ b ∈ extra, b ≠ 60) :
    Junk (sidAt false) (otag p name ++ extra) :=
  junk_otag (sidAt_not_lt false) p name extra hp hname hextra fun _ =>
    sidAt_of_open_none (openTag_false_prefixed p name _ hne hp)

theorem noLT_qmark (x : Bytes) (hx : ∀ b ∈ x, b ≠ 60) : ∀ b ∈ (63 : UInt8) :: x, b ≠ 60 := by
  intro b hb
  simp only [List.mem_cons] at hb
  rcases hb with hb | hb
  · subst hb; decide
  · exact hx b hb

theorem sidScan_asIs_prefixed_core (L : Layout) (tail : Bytes) (h : L.OK) (ht : ∀ b ∈ tail, b ≠ 60)
    (hne : L.pfx ≠ []) : sidScan false (renderCore L ++ tail) = none := by
  have hp := h.pfx
  have hcaps : Junk (sidAt false) (capsR L.pfx L.caps) := by
    have hc := h.caps
    generalize L.caps = caps at hc
    induction caps with
    | nil => exact junk_nil _
    | cons c cs ih =>
      obtain ⟨h1, _, h3⟩ := hc c (by simp)
      have e : capsR L.pfx (c :: cs)
          = (otag L.pfx nmCap ++ c.1) ++ ((ctag L.pfx nmCap ++ c.2) ++ capsR L.pfx cs) := by
        simp [capsR, capEl, List.append_assoc]
      rw [e]
      exact junk_append (junk_sidFalse_otag _ _ _ hne hp noLT_names.2.2.1 h1)
        (junk_append (junk_ctag (junk_sidAt_slash false) _ _ _ hp noLT_names.2.2.1 h3)
          (ih (fun x hx => hc x (by simp [hx]))))
  have hsid : Junk (sidAt false) (sidR L.pfx L.sid L.ws4) := by
    cases hs : L.sid with
    | none => exact junk_nil _
    | some ds =>
      have e : sidR L.pfx (some ds) L.ws4 = (otag L.pfx nmSid ++ ds) ++ (ctag L.pfx nmSid ++ L.ws4) := by
        simp [sidR, List.append_assoc]
      rw [e]
      exact junk_append (junk_sidFalse_otag _ _ _ hne hp noLT_names.2.2.2.2
          (fun b hb => isDigit_ne_lt ((h.sid ds hs).2 b hb)))
        (junk_ctag (junk_sidAt_slash false) _ _ _ hp noLT_names.2.2.2.2 h.ws4)
  have e : renderCore L ++ tail =
      (declB L.decl ++ (L.ws0 ++ ((otag L.pfx nmHello ++ (L.attrs ++ [62])) ++ (L.ws1 ++
        ((otag L.pfx nmCaps ++ []) ++ (L.ws2 ++ (capsR L.pfx L.caps ++ ((ctag L.pfx nmCaps ++ L.ws3) ++
          (sidR L.pfx L.sid L.ws4 ++ (ctag L.pfx nmHelloGt ++ tail)))))))))) ++ [] := by
    simp [renderCore, List.append_assoc]
  unfold sidScan
  rw [e, firstSome_junk]
  · simp [firstSome, sidAt, openTag_nil]
  · refine junk_append (junk_declB _ _ (fun x hx => junk_sidAt_nonword false 63 x (by decide) (by decide)
        (noLT_qmark x hx)) h.decl)
      (junk_append (junk_noLT (sidAt_not_lt false) _ h.ws0)
        (junk_append (junk_sidFalse_otag _ _ _ hne hp noLT_names.1 (attrs_noLT h.attrs))
          (junk_append (junk_noLT (sidAt_not_lt false) _ h.ws1)
            (junk_append (junk_sidFalse_otag _ _ _ hne hp noLT_names.2.2.2.1 (by simp))
              (junk_append (junk_noLT (sidAt_not_lt false) _ h.ws2)
                (junk_append hcaps
                  (junk_append (junk_ctag (junk_sidAt_slash false) _ _ _ hp noLT_names.2.2.2.1 h.ws3)
                    (junk_append hsid
                      (junk_ctag (junk_sidAt_slash false) _ _ _ hp noLT_names.2.1 ht)))))))))

/-! ## with leading text (banner / MOTD) before the hello -/

theorem capsScan_render (L : Layout) (tail : Bytes) (h : L.OK) (ht : ∀ b ∈ tail, b ≠ 60) :
    capsScan (render L ++ tail) = L.caps.map Prod.fst := by
  unfold render
  rw [List.append_assoc, capsScan_junk _ _ (junk_noLT capAt_not_lt _ h.pre)]
  exact capsScan_render_core L tail h ht

theorem sidScan_render (pf : Bool) (L : Layout) (tail : Bytes) (h : L.OK)
    (ht : ∀ b ∈ tail, b ≠ 60) (hpf : pf = false → L.pfx = []) :
    sidScan pf (render L ++ tail) = L.sid := by
  have := sidScan_render_core pf L tail h ht hpf
  unfold sidScan at this ⊢
  unfold render
  rw [List.append_assoc, firstSome_junk _ _ _ (junk_noLT (sidAt_not_lt pf) _ h.pre)]
  exact this

theorem sidScan_asIs_prefixed (L : Layout) (tail : Bytes) (h : L.OK) (ht : ∀ b ∈ tail, b ≠ 60)
    (hne : L.pfx ≠ []) : sidScan false (render L ++ tail) = none := by
  have := sidScan_asIs_prefixed_core L tail h ht hne
  unfold sidScan at this ⊢
  unfold render
  rw [List.append_assoc, firstSome_junk _ _ _ (junk_noLT (sidAt_not_lt false) _ h.pre)]
  exact this

theorem hasHelloScan_render (L : Layout) (tail : Bytes) (h : L.OK) :
    hasHelloScan (render L ++ tail) = true := by
  have := hasHelloScan_render_core L tail h
  unfold hasHelloScan at this ⊢
  unfold render
  rw [List.append_assoc, firstSome_junk _ _ _ (junk_noLT openHelloAt_not_lt _ h.pre)]
  exact this

end Scrapli.Netconf.Hello
