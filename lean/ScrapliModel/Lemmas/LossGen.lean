import ScrapliModel.Lemmas.Loss
/-! C06: run-level lemmas parametric in a step invariant, and the general "loss before completion"
invariant `Doomed` (no exactness needed for the read the loss interrupts). -/
namespace Scrapli.Loss
open Scrapli Scrapli.Chan

/-- an invariant of operation states that both goroutines preserve while the operation is in
    flight and that rules out an exhausted program -/
structure StepInv (I : St → Op → Prop) : Prop where
  rdr : ∀ s o, I s o → I (rstep s) o
  op : ∀ s s' o o', I s o → ostep s o = (s', .inl o') → I s' o'
  ne : ∀ s o, I s o → o.prog ≠ []

theorem ostep_left (s s' : St) (o o' : Op) (hs : ostep s o = (s', .inl o')) : s'.left = s.left := by
  rcases ostep_inl s s' o o' hs with ⟨b, react, rest, _, hw, _⟩ | ⟨P, rest, _, hr, _⟩ |
    ⟨P, rest, c, _, hr, _, _⟩ | ⟨P, rest, c, _, hr, _, _⟩
  · exact (chWrite_ok s s' b react hw).2.2.1
  · rw [(chRead_nil s s' hr).1]
  · have := (chRead_data s s' c hr).2.2; rw [this]
  · have := (chRead_data s s' c hr).2.2; rw [this]

theorem ostep_suffix (s s' : St) (o o' : Op) (hs : ostep s o = (s', .inl o')) :
    ∃ pre, o.prog = pre ++ o'.prog := by
  rcases ostep_inl s s' o o' hs with ⟨b, react, rest, hp, _, ho⟩ | ⟨P, rest, hp, _, ho⟩ |
    ⟨P, rest, c, hp, _, _, ho⟩ | ⟨P, rest, c, hp, _, _, ho⟩
  · subst ho; exact ⟨[.write b react], by rw [hp]; rfl⟩
  · subst ho; exact ⟨[], rfl⟩
  · subst ho; exact ⟨[.read P], by rw [hp]; rfl⟩
  · subst ho; exact ⟨[], rfl⟩

/-- what every prefix of a run preserves while the operation is still in flight -/
theorem run_keeps {I : St → Op → Prop} (hI : StepInv I) (sched : List Actor) (s s1 : St) (o o1 : Op)
    (h : I s o) (hr : run sched s o = (s1, .inl o1)) :
    I s1 o1 ∧ (LostArmed s → LostArmed s1) ∧ (s.left = 0 → s1.left = 0) ∧
    (∃ pre, o.prog = pre ++ o1.prog) := by
  induction sched generalizing s o with
  | nil =>
    simp [run] at hr
    obtain ⟨h1, h2⟩ := hr
    subst h1; subst h2
    exact ⟨h, id, id, [], rfl⟩
  | cons a t ih =>
    cases a with
    | rdr =>
      simp only [run] at hr
      obtain ⟨a1, a2, a3, a4⟩ := ih (rstep s) o (hI.rdr s o h) hr
      exact ⟨a1, fun x => a2 (rstep_lostArmed s x), fun x => a3 (rstep_left_zero s x), a4⟩
    | op =>
      simp only [run] at hr
      rcases hs : ostep s o with ⟨s2, o2 | r⟩
      · rw [hs] at hr
        simp only at hr
        obtain ⟨a1, a2, a3, pre, hpre⟩ := ih s2 o2 (hI.op s s2 o o2 h hs) hr
        obtain ⟨pre0, hpre0⟩ := ostep_suffix s s2 o o2 hs
        exact ⟨a1, fun x => a2 (ostep_lostArmed s s2 o o2 hs x),
          fun x => a3 (by rw [ostep_left s s2 o o2 hs]; exact x),
          pre0 ++ pre, by rw [hpre0, hpre, List.append_assoc]⟩
      · rw [hs] at hr
        simp at hr

/-- a run that returns: the invariant held just before the returning step -/
theorem run_returns {I : St → Op → Prop} (hI : StepInv I) (sched : List Actor) (s s' : St) (o : Op)
    (r : Res) (h : I s o) (hr : run sched s o = (s', .inr r)) :
    ∃ s1 o1, I s1 o1 ∧ ostep s1 o1 = (s', .inr r) := by
  induction sched generalizing s o with
  | nil => simp [run] at hr
  | cons a t ih =>
    cases a with
    | rdr => simp only [run] at hr; exact ih (rstep s) o (hI.rdr s o h) hr
    | op =>
      simp only [run] at hr
      rcases hs : ostep s o with ⟨s2, o2 | r2⟩
      · rw [hs] at hr
        simp only at hr
        exact ih s2 o2 (hI.op s s2 o o2 h hs) hr
      · rw [hs] at hr
        simp only at hr
        obtain ⟨h1, h2⟩ := Prod.mk.inj hr
        have h3 : r2 = r := Sum.inr.inj h2
        subst h1; subst h3
        exact ⟨s, o, h, hs⟩

theorem inv_never_ok {I : St → Op → Prop} (hI : StepInv I) (sched : List Actor) (s s' : St) (o : Op)
    (outs : List Bytes) (h : I s o) : run sched s o ≠ (s', .inr (.ok outs)) := by
  intro hr
  obtain ⟨s1, o1, a1, a2⟩ := run_returns hI sched s s' o _ h hr
  rcases ostep_inr s1 s' o1 _ a2 with ⟨hp, _, _⟩ | ⟨_, _, _, _, _, hh⟩ | ⟨_, _, _, _, _, hh⟩
  · exact hI.ne s1 o1 a1 hp
  · simp at hh
  · simp at hh

/-- Once the read goroutine is armed, the operation returns an error within `adjWrites + 1` of
    its own steps, however the two goroutines interleave. -/
theorem inv_armed_returns {I : St → Op → Prop} (hI : StepInv I) (sched : List Actor) (s : St) (o : Op)
    (ha : Armed s) (h : I s o) (hc : adjWrites o.prog < opCount sched) :
    ∃ s' e, run sched s o = (s', .inr (.error e)) := by
  induction sched generalizing s o with
  | nil => simp [opCount] at hc
  | cons a t ih =>
    cases a with
    | rdr =>
      simp only [run, rstep_armed s ha]
      exact ih s o ha h (by simpa [opCount] using hc)
    | op =>
      simp only [run]
      rcases hs : ostep s o with ⟨s2, o2 | r⟩
      · simp only
        rcases ostep_inl s s2 o o2 hs with ⟨b, react, rest, hp, hw, ho⟩ | ⟨P, rest, hp, hr, ho⟩ |
          ⟨P, rest, c, hp, hr, hP, ho⟩ | ⟨P, rest, c, hp, hr, hP, ho⟩
        · obtain ⟨_, _, _, h4, _⟩ := chWrite_ok s s2 b react hw
          apply ih s2 o2 (by unfold Armed at *; rw [h4]; exact ha) (hI.op s s2 o o2 h hs)
          subst ho
          rw [hp] at hc
          simp only [adjWrites, opCount] at hc ⊢
          omega
        · obtain ⟨_, hrd, _⟩ := chRead_nil s s2 hr
          unfold Armed at ha; rw [hrd] at ha; simp at ha
        · obtain ⟨hrd, _, _⟩ := chRead_data s s2 c hr
          unfold Armed at ha; rw [hrd] at ha; simp at ha
        · obtain ⟨hrd, _, _⟩ := chRead_data s s2 c hr
          unfold Armed at ha; rw [hrd] at ha; simp at ha
      · simp only
        rcases ostep_inr s s2 o r hs with ⟨hp, _, _⟩ | ⟨b, react, rest, _, _, hr⟩ | ⟨P, rest, e, _, _, hr⟩
        · exact absurd hp (hI.ne s o h)
        · exact ⟨s2, .write, by rw [hr]⟩
        · exact ⟨s2, e, by rw [hr]⟩

/-! ## the general invariant: the loss strikes before completion -/

theorem doomed_stepInv : StepInv DoomedSt := by
  refine ⟨?_, ?_, ?_⟩
  · intro s o h
    unfold DoomedSt at *
    rw [rstep_unread, rstep_budget']; exact h
  · intro s s' o o' h hs
    unfold DoomedSt at *
    rcases ostep_inl s s' o o' hs with ⟨b, react, rest, hp, hw, ho⟩ | ⟨P, rest, hp, hr, ho⟩ |
      ⟨P, rest, c, hp, hr, hP, ho⟩ | ⟨P, rest, c, hp, hr, hP, ho⟩
    · obtain ⟨h1, h2, h3, _⟩ := chWrite_ok s s' b react hw
      subst ho
      have hu : unread s' { o with prog := rest } = unread s o ++ react.flatten := by
        simp [unread, h1, h2]
      have hb : budget s' { o with prog := rest } = budget s o := by simp [budget, h3, h2]
      rw [hu, hb]
      rw [hp] at h
      simpa [Doomed] using h
    · obtain ⟨h1, _, _⟩ := chRead_nil s s' hr
      subst h1; subst ho; exact h
    · obtain ⟨_, hq, hs'⟩ := chRead_data s s' c hr
      have hu : unread s o = (o.rb ++ c) ++ (s'.q.flatten ++ s'.pending.flatten) := by
        rw [hs']; simp [unread, hq]
      have hl : s'.left = s.left := by rw [hs']
      rw [hp, hu] at h
      simp only [Doomed] at h
      rcases h with hno | ⟨hex, hle, hrest⟩
      · exfalso
        have := hno (o.rb ++ c).length (by
          simp only [budget, hq, List.flatten_cons, List.length_append]; omega)
        rw [List.take_left' rfl, hP] at this
        exact absurd this (by simp)
      · have hnil := exactAt_prefix P _ _ hex hP
        have hq0 : s'.q.flatten = [] := (List.append_eq_nil_iff.mp hnil).1
        have hp0 : s'.pending.flatten = [] := (List.append_eq_nil_iff.mp hnil).2
        subst ho
        have hu' : unread s' { prog := rest, rb := [], outs := o.outs ++ [o.rb ++ c] } = [] := by
          simp [unread, hq0, hp0]
        have hb' : budget s' { prog := rest, rb := [], outs := o.outs ++ [o.rb ++ c] } =
            budget s o - (o.rb ++ c ++ (s'.q.flatten ++ s'.pending.flatten)).length := by
          simp only [budget, hq, hl, hq0, hp0, List.flatten_cons, List.length_append,
            List.length_nil, List.append_nil]
          omega
        rw [hu', hb']
        exact hrest
    · obtain ⟨_, hq, hs'⟩ := chRead_data s s' c hr
      subst ho
      have hu : unread s' { o with rb := o.rb ++ c } = unread s o := by
        rw [hs']; simp [unread, hq]
      have hl : s'.left = s.left := by rw [hs']
      have hb : budget s' { o with rb := o.rb ++ c } = budget s o := by
        simp only [budget, hq, hl, List.flatten_cons, List.length_append]; omega
      rw [hu, hb]; exact h
  · intro s o h hp
    unfold DoomedSt at h
    rw [hp] at h
    exact h

/-- exactness plus too few bytes is a special case -/
theorem doomed_of_exact (U : Bytes) (B : Nat) (prog : List Phase) (hE : Exact U prog)
    (hB : B < need U.length prog) : Doomed U B prog := by
  induction prog generalizing U B with
  | nil => simp [need] at hB
  | cons ph rest ih =>
    cases ph with
    | write b r =>
      simp only [Exact, need, Doomed] at *
      exact ih _ _ hE (by simpa [List.length_append] using hB)
    | read P =>
      simp only [Exact, need, Doomed] at *
      by_cases hle : U.length ≤ B
      · right
        exact ⟨hE.1, hle, ih [] _ hE.2 (by simp; omega)⟩
      · left
        intro j hj
        exact hE.1.2 j (by omega)


/-! ## after the loss the queue content is irrelevant -/

/-- the read goroutine is armed and the program still has to read: no hypothesis on `q` -/
def ArmedRead (s : St) (o : Op) : Prop := Armed s ∧ hasRead o.prog = true

theorem armedRead_stepInv : StepInv ArmedRead := by
  refine ⟨?_, ?_, ?_⟩
  · intro s o h
    rw [ArmedRead, rstep_armed s h.1]; exact h
  · intro s s' o o' h hs
    obtain ⟨ha, hr⟩ := h
    rcases ostep_inl s s' o o' hs with ⟨b, react, rest, hp, hw, ho⟩ | ⟨P, rest, hp, hrd, ho⟩ |
      ⟨P, rest, c, hp, hrd, hP, ho⟩ | ⟨P, rest, c, hp, hrd, hP, ho⟩
    · obtain ⟨_, _, _, h4, _⟩ := chWrite_ok s s' b react hw
      subst ho
      rw [hp] at hr
      exact ⟨by unfold Armed at *; rw [h4]; exact ha, by simpa [hasRead] using hr⟩
    · obtain ⟨_, hrun, _⟩ := chRead_nil s s' hrd
      unfold Armed at ha; rw [hrun] at ha; simp at ha
    · obtain ⟨hrun, _, _⟩ := chRead_data s s' c hrd
      unfold Armed at ha; rw [hrun] at ha; simp at ha
    · obtain ⟨hrun, _, _⟩ := chRead_data s s' c hrd
      unfold Armed at ha; rw [hrun] at ha; simp at ha
  · intro s o h hp
    have := h.2
    rw [hp] at this
    simp [hasRead] at this

/-- after EOF the read goroutine has exited for good: whatever the operation does, and whatever
    it returns, the next operation finds it exited again -/
theorem chWrite_rd (s : St) (b : Bytes) (react : List Bytes) : (chWrite s b react).2.rd = s.rd := by
  unfold chWrite
  split
  · rfl
  · split <;> rfl

theorem chRead_exited (s : St) (h : s.rd = .exited) : chRead s = (.err .connection, s) := by
  unfold chRead
  simp [h]

theorem exited_ostep (s : St) (o : Op) (h : s.rd = .exited) : (ostep s o).1.rd = .exited := by
  rcases hs : ostep s o with ⟨s', o' | r⟩
  · simp only
    rcases ostep_inl s s' o o' hs with ⟨b, react, rest, _, hw, _⟩ | ⟨P, rest, _, hrd, _⟩ |
      ⟨P, rest, c, _, hrd, _, _⟩ | ⟨P, rest, c, _, hrd, _, _⟩
    · have := chWrite_rd s b react
      rw [hw] at this
      simp only at this
      rw [this]; exact h
    · rw [chRead_exited s h] at hrd; simp at hrd
    · rw [chRead_exited s h] at hrd; simp at hrd
    · rw [chRead_exited s h] at hrd; simp at hrd
  · simp only
    rcases ostep_inr s s' o r hs with ⟨_, _, hs'⟩ | ⟨b, react, rest, _, hw, _⟩ | ⟨P, rest, e, _, hrd, _⟩
    · rw [hs']; exact h
    · have := chWrite_rd s b react
      rw [hw] at this
      simp only at this
      rw [this]; exact h
    · rw [chRead_exited s h] at hrd
      simp at hrd
      rw [← hrd.2]; exact h

theorem exited_run (sched : List Actor) (s : St) (o : Op) (h : s.rd = .exited) :
    (run sched s o).1.rd = .exited := by
  induction sched generalizing s o with
  | nil => exact h
  | cons a t ih =>
    cases a with
    | rdr =>
      simp only [run]
      exact ih _ o (by rw [rstep_armed s (Or.inr h)]; exact h)
    | op =>
      simp only [run]
      have := exited_ostep s o h
      rcases hs : ostep s o with ⟨s2, o2 | r⟩
      · rw [hs] at this; simp only; exact ih s2 o2 this
      · rw [hs] at this; exact this

end Scrapli.Loss
