import ScrapliModel.Close.Model
/-!
The hand-written invariant `Sys.inv` of the shutdown skeleton is inductive, and it implies the
per-state obligations of C07. Proofs are symbolic (case split on the program counter of the process
that moves, then `simp`), so their cost does not depend on the size of the state space
(138 560 reachable states).
-/
namespace Scrapli.Close.Sys
open Scrapli.Close

set_option hygiene false in
/-- finish one case of an invariant-preservation lemma: `h` = facts about `s`, `hs` = what `s'` is -/
macro "close_step" : tactic => `(tactic| (
  (repeat' split at hs)
  all_goals (try simp only [List.mem_cons, List.mem_singleton, List.not_mem_nil, List.mem_nil_iff, or_false] at hs)
  all_goals (try (rcases hs with hs | hs))
  all_goals (try (rcases hs with hs | hs))
  all_goals (try (obtain ⟨hc, hs⟩ := hs))
  all_goals (revert h; try simp only [and_imp])
  all_goals intros
  all_goals (try subst hs)
  all_goals (try subst_vars)
  all_goals (try contradiction)
  all_goals simp_all))

theorem inv_init (s : St) (h : isInit s = true) : inv s = true := by
  obtain ⟨nc, mode, twice, r, k, second, o, oSecond, n, w, feed, left, closedFlag, doneClosed, exited,
    rlDone, ncDoneClosed, closeCalls, panic⟩ := s
  cases nc <;> simp [isInit] at h <;> simp [inv, wf, kPastEntry, kPastSignal, kPastNcDone, h]

theorem inv_stepR (s s' : St) (h : inv s = true) (hs : s' ∈ stepR s) : inv s' = true := by
  obtain ⟨nc, mode, twice, r, k, second, o, oSecond, n, w, feed, left, closedFlag, doneClosed, exited,
    rlDone, ncDoneClosed, closeCalls, panic⟩ := s
  cases r <;> simp [stepR, inv, wf, implClosed] at h hs ⊢
  all_goals close_step

theorem inv_stepK (s s' : St) (h : inv s = true) (hs : s' ∈ stepK s) : inv s' = true := by
  obtain ⟨nc, mode, twice, r, k, second, o, oSecond, n, w, feed, left, closedFlag, doneClosed, exited,
    rlDone, ncDoneClosed, closeCalls, panic⟩ := s
  cases k <;> simp [stepK, inv, wf, kPastEntry, kPastSignal, kPastNcDone] at h hs ⊢
  all_goals close_step

theorem inv_stepO (s s' : St) (h : inv s = true) (hs : s' ∈ stepO s) : inv s' = true := by
  obtain ⟨nc, mode, twice, r, k, second, o, oSecond, n, w, feed, left, closedFlag, doneClosed, exited,
    rlDone, ncDoneClosed, closeCalls, panic⟩ := s
  cases o <;> simp [stepO, inv, wf] at h hs ⊢
  all_goals close_step

theorem inv_stepN (s s' : St) (h : inv s = true) (hs : s' ∈ stepN s) : inv s' = true := by
  obtain ⟨nc, mode, twice, r, k, second, o, oSecond, n, w, feed, left, closedFlag, doneClosed, exited,
    rlDone, ncDoneClosed, closeCalls, panic⟩ := s
  cases n <;> simp [stepN, inv, wf] at h hs ⊢
  all_goals close_step

theorem inv_stepW (s s' : St) (h : inv s = true) (hs : s' ∈ stepW s) : inv s' = true := by
  obtain ⟨nc, mode, twice, r, k, second, o, oSecond, n, w, feed, left, closedFlag, doneClosed, exited,
    rlDone, ncDoneClosed, closeCalls, panic⟩ := s
  cases w <;> simp [stepW, inv, wf, implClosed] at h hs ⊢
  all_goals close_step

theorem inv_stepE (s s' : St) (h : inv s = true) (hs : s' ∈ stepE s) : inv s' = true := by
  obtain ⟨nc, mode, twice, r, k, second, o, oSecond, n, w, feed, left, closedFlag, doneClosed, exited,
    rlDone, ncDoneClosed, closeCalls, panic⟩ := s
  simp [stepE, inv, wf] at h hs ⊢
  obtain ⟨_, hs⟩ := hs
  rcases hs with hs | hs | hs <;> close_step

theorem mem_next (s s' : St) (hs : s' ∈ next s) :
    s.panic = .none ∧ (s' ∈ stepR s ∨ s' ∈ stepK s ∨ s' ∈ stepO s ∨ s' ∈ stepN s ∨ s' ∈ stepW s ∨ s' ∈ stepE s) := by
  unfold next at hs
  split at hs
  · simp at hs
  · rename_i hp
    simp only [List.mem_append] at hs
    refine ⟨by simpa using hp, ?_⟩
    rcases hs with ((((h | h) | h) | h) | h) | h
    · exact .inl h
    · exact .inr (.inl h)
    · exact .inr (.inr (.inl h))
    · exact .inr (.inr (.inr (.inl h)))
    · exact .inr (.inr (.inr (.inr (.inl h))))
    · exact .inr (.inr (.inr (.inr (.inr h))))

/-- the invariant is inductive -/
theorem inv_next (s s' : St) (h : inv s = true) (hs : s' ∈ next s) : inv s' = true := by
  rcases (mem_next s s' hs).2 with h' | h' | h' | h' | h' | h'
  · exact inv_stepR s s' h h'
  · exact inv_stepK s s' h h'
  · exact inv_stepO s s' h h'
  · exact inv_stepN s s' h h'
  · exact inv_stepW s s' h h'
  · exact inv_stepE s s' h h'

/-- every reachable state satisfies the invariant -/
theorem reach_inv (s : St) (h : Reach s) : inv s = true := by
  induction h with
  | init s hi => exact inv_init s hi
  | step s s' _ hs ih => exact inv_next s s' ih hs

end Scrapli.Close.Sys
