import ScrapliModel.Close.Model
/-!
The hand-written invariant `Sys.inv` of the shutdown skeleton is inductive, and it implies the
per-state obligations of C07. Proofs are symbolic (case split on the program counter of the process
that moves, then `simp`), so their cost does not depend on the size of the state space
(332 032 reachable states).
-/
namespace Scrapli.Close.Sys
open Scrapli.Close

set_option hygiene false in
/-- finish one case of an invariant-preservation lemma: `h` = facts about `s`, `hs` = what `s'` is -/
macro "close_step" : tactic => `(tactic| (
  (repeat' split at hs)
  all_goals (try simp only [List.mem_cons, List.mem_singleton, List.not_mem_nil, List.mem_nil_iff, or_false] at hs)
  all_goals (try (rcases hs with hs | hs))
  all_goals (try (rcases hs with hs | hs))
  all_goals (try (obtain ⟨hc, hs⟩ := hs))
  all_goals (revert h; try simp only [and_imp])
  all_goals intros
  all_goals (try subst hs)
  all_goals (try subst_vars)
  all_goals (try contradiction)
  all_goals simp_all))

theorem inv_init (s : St) (h : isInit s = true) : inv s = true := by
  obtain ⟨nc, mode, twice, closeErr, r, k, second, o, oSecond, n, w, feed, left, closedFlag, doneClosed, exited,
    rlDone, ncDoneClosed, closeCalls, lastErr, panic⟩ := s
  cases nc <;> cases r <;> simp [isInit] at h <;> simp [inv, wf, kPastEntry, kPastSignal, kPastNcDone, h]

theorem inv_stepR (s s' : St) (h : inv s = true) (hs : s' ∈ stepR s) : inv s' = true := by
  obtain ⟨nc, mode, twice, closeErr, r, k, second, o, oSecond, n, w, feed, left, closedFlag, doneClosed, exited,
    rlDone, ncDoneClosed, closeCalls, lastErr, panic⟩ := s
  cases r <;> simp [stepR, inv, wf, implClosed] at h hs ⊢
  all_goals close_step

theorem inv_stepK (s s' : St) (h : inv s = true) (hs : s' ∈ stepK s) : inv s' = true := by
  obtain ⟨nc, mode, twice, closeErr, r, k, second, o, oSecond, n, w, feed, left, closedFlag, doneClosed, exited,
    rlDone, ncDoneClosed, closeCalls, lastErr, panic⟩ := s
  cases k <;> simp [stepK, inv, wf, kPastEntry, kPastSignal, kPastNcDone] at h hs ⊢
  all_goals close_step

theorem inv_stepO (s s' : St) (h : inv s = true) (hs : s' ∈ stepO s) : inv s' = true := by
  obtain ⟨nc, mode, twice, closeErr, r, k, second, o, oSecond, n, w, feed, left, closedFlag, doneClosed, exited,
    rlDone, ncDoneClosed, closeCalls, lastErr, panic⟩ := s
  cases o <;> simp [stepO, inv, wf] at h hs ⊢
  all_goals close_step

theorem inv_stepN (s s' : St) (h : inv s = true) (hs : s' ∈ stepN s) : inv s' = true := by
  obtain ⟨nc, mode, twice, closeErr, r, k, second, o, oSecond, n, w, feed, left, closedFlag, doneClosed, exited,
    rlDone, ncDoneClosed, closeCalls, lastErr, panic⟩ := s
  cases n <;> simp [stepN, inv, wf] at h hs ⊢
  all_goals close_step

theorem inv_stepW (s s' : St) (h : inv s = true) (hs : s' ∈ stepW s) : inv s' = true := by
  obtain ⟨nc, mode, twice, closeErr, r, k, second, o, oSecond, n, w, feed, left, closedFlag, doneClosed, exited,
    rlDone, ncDoneClosed, closeCalls, lastErr, panic⟩ := s
  cases w <;> simp [stepW, inv, wf, implClosed] at h hs ⊢
  all_goals close_step

theorem inv_stepE (s s' : St) (h : inv s = true) (hs : s' ∈ stepE s) : inv s' = true := by
  obtain ⟨nc, mode, twice, closeErr, r, k, second, o, oSecond, n, w, feed, left, closedFlag, doneClosed, exited,
    rlDone, ncDoneClosed, closeCalls, lastErr, panic⟩ := s
  simp [stepE, inv, wf] at h hs ⊢
  obtain ⟨_, hs⟩ := hs
  rcases hs with hs | hs | hs <;> close_step

theorem mem_next (s s' : St) (hs : s' ∈ next s) :
    s.panic = .none ∧ (s' ∈ stepR s ∨ s' ∈ stepK s ∨ s' ∈ stepO s ∨ s' ∈ stepN s ∨ s' ∈ stepW s ∨ s' ∈ stepE s) := by
  unfold next at hs
  split at hs
  · simp at hs
  · rename_i hp
    simp only [List.mem_append] at hs
    refine ⟨by simpa using hp, ?_⟩
    rcases hs with ((((h | h) | h) | h) | h) | h
    · exact .inl h
    · exact .inr (.inl h)
    · exact .inr (.inr (.inl h))
    · exact .inr (.inr (.inr (.inl h)))
    · exact .inr (.inr (.inr (.inr (.inl h))))
    · exact .inr (.inr (.inr (.inr (.inr h))))

/-- the invariant is inductive -/
theorem inv_next (s s' : St) (h : inv s = true) (hs : s' ∈ next s) : inv s' = true := by
  rcases (mem_next s s' hs).2 with h' | h' | h' | h' | h' | h'
  · exact inv_stepR s s' h h'
  · exact inv_stepK s s' h h'
  · exact inv_stepO s s' h h'
  · exact inv_stepN s s' h h'
  · exact inv_stepW s s' h h'
  · exact inv_stepE s s' h h'

/-- every reachable state satisfies the invariant -/
theorem reach_inv (s : St) (h : Reach s) : inv s = true := by
  induction h with
  | init s hi => exact inv_init s hi
  | step s s' _ hs ih => exact inv_next s s' ih hs

/-! ## consequences of the invariant -/

/-- the invariant, as a structure of propositions -/
structure InvP (s : St) : Prop where
  closedFlag : s.closedFlag = (s.second || kPastEntry s.k)
  doneClosed : s.doneClosed = (s.second || kPastSignal s.k)
  exited : s.exited = decide (s.r = .dead)
  rlDone : s.rlDone = decide (s.r = .dead)
  ncDoneClosed : s.ncDoneClosed = (s.nc && (s.second || kPastNcDone s.k))
  closeCalls : s.closeCalls = (if s.second || decide (s.k = .ret) || decide (s.k = .chanRet) then 1 else 0)
  panic : s.panic = .none
  second : s.second = true → s.k = .ncDone ∨ s.k = .ncChan ∨ s.k = .entry ∨ s.k = .chanRet ∨ s.k = .ret
  nice : s.k = .nice ∨ s.k = .niceLk → s.r = .dead
  lastErr : s.k = .chanRet ∨ s.k = .ret → s.lastErr = (s.closeErr && !s.second)
  rParked : s.r = .parked → s.doneClosed = false
  nParked : s.n = .parked → s.ncDoneClosed = false
  procs : if s.nc = true then s.o = .absent ∧ s.n ≠ .absent
          else s.n = .absent ∧ s.w = .absent ∧ s.k ≠ .ncDone ∧ s.k ≠ .ncChan

theorem inv_invP (s : St) (h : inv s = true) : InvP s := by
  simp only [inv, wf, Bool.and_eq_true, decide_eq_true_eq] at h
  obtain ⟨⟨⟨⟨⟨⟨⟨⟨⟨⟨⟨⟨h1, h2⟩, h3⟩, h4⟩, h5⟩, h6⟩, h7⟩, h8⟩, h9⟩, h13⟩, h11⟩, h12⟩, h10⟩ := h
  refine ⟨h1.symm, h2.symm, h3.symm, h4.symm, h5.symm, h6.symm, h7, ?_, ?_, ?_, ?_, ?_, ?_⟩
  · intro hs; simp [hs] at h8; rcases h8 with (((h | h) | h) | h) | h <;> simp [h]
  · intro hk; rcases hk with hk | hk <;> simp [hk] at h9 <;> exact h9
  · intro hk; rcases hk with hk | hk <;> simpa [hk] using h13
  · intro hr; simpa [hr] using h11
  · intro hn; simpa [hn] using h12
  · cases hn : s.nc <;> simp [hn] at h10 ⊢ <;> simp [h10]

theorem inv_noPanic (s : St) (h : inv s = true) : s.panic = .none := (inv_invP s h).panic

/-- when `Close` has returned, `Impl.Close` has been called exactly once -/
theorem inv_ret_closed (s : St) (h : inv s = true) (hk : s.k = .ret) : s.closeCalls = 1 := by
  have := (inv_invP s h).closeCalls
  simp [hk] at this
  exact this

theorem next_nil (s : St) (h : next s = []) (hp : s.panic = .none) :
    stepR s = [] ∧ stepK s = [] ∧ stepO s = [] ∧ stepN s = [] ∧ stepW s = [] ∧ stepE s = [] := by
  unfold next at h
  simp only [hp, ne_eq, not_true_eq_false, ↓reduceIte, List.append_eq_nil_iff] at h
  obtain ⟨⟨⟨⟨⟨h1, h2⟩, h3⟩, h4⟩, h5⟩, h6⟩ := h
  exact ⟨h1, h2, h3, h4, h5, h6⟩

theorem stepK_nil (s : St) (h : stepK s = []) :
    (s.k = .ret ∧ (s.twice && !s.second) = false) ∨ (s.k = .niceLk ∧ s.r = .inRead) := by
  unfold stepK at h
  split at h <;> (try split at h) <;> simp_all

theorem stepO_nil (s : St) (h : stepO s = []) : s.o = .absent ∨ s.o = .ret := by
  unfold stepO at h
  split at h <;> simp_all

theorem stepW_nil (s : St) (h : stepW s = []) : s.w = .absent ∨ s.w = .ret := by
  unfold stepW at h
  split at h <;> simp_all

theorem stepN_nil (s : St) (h : stepN s = []) :
    s.n = .absent ∨ s.n = .dead ∨ s.n = .parked := by
  unfold stepN at h
  split at h <;> (try split at h) <;> (try split at h) <;> simp_all

theorem stepR_nil (s : St) (h : stepR s = []) :
    s.r = .dead ∨ s.r = .never ∨ s.r = .parked
    ∨ (s.r = .inRead ∧ (if implClosed s then s.mode = .stay else s.feed = .quiet)) := by
  unfold stepR at h
  split at h <;> (try split at h) <;> (try split at h) <;> simp_all

/-- a state in which no process can move satisfies the demands of the property -/
theorem inv_terminal_good (s : St) (h : inv s = true) (ht : next s = []) : good s = true := by
  have I := inv_invP s h
  obtain ⟨hR, hK, hO, hN, hW, _⟩ := next_nil s ht I.panic
  have hk : s.k = .ret ∧ (s.twice && !s.second) = false := by
    rcases stepK_nil s hK with hk | ⟨hk, hr⟩
    · exact hk
    · have := I.nice (.inr hk); simp [this] at hr
  have hdone : s.doneClosed = true := by simp [I.doneClosed, hk.1, kPastSignal]
  have hcalls : s.closeCalls = 1 := inv_ret_closed s h hk.1
  have hr : s.mode = .stay ∨ s.r = .dead ∨ s.r = .never := by
    rcases stepR_nil s hR with hr | hr | hp | ⟨_, hm⟩
    · exact .inr (.inl hr)
    · exact .inr (.inr hr)
    · have hd := I.rParked hp; simp [hdone] at hd
    · simp [implClosed, hcalls] at hm; exact .inl hm
  have hn : s.n = .absent ∨ s.n = .dead := by
    rcases stepN_nil s hN with hn | hn | hn
    · exact .inl hn
    · exact .inr hn
    · have hd := I.nParked hn
      have hp := I.procs
      have hnd := I.ncDoneClosed
      cases hnc : s.nc <;> simp [hnc, hn, hk.1, kPastNcDone, hd] at hp hnd
  have ho := stepO_nil s hO
  have hw := stepW_nil s hW
  have htw : (!s.twice || s.second) = true := by
    have := hk.2; revert this; cases s.twice <;> cases s.second <;> simp
  simp only [good, Bool.and_eq_true, Bool.or_eq_true, decide_eq_true_eq]
  exact ⟨⟨⟨⟨⟨⟨⟨I.panic, hk.1⟩, by simpa using htw⟩, hcalls⟩, ho⟩, hw⟩, hn⟩, by rcases hr with h | h | h <;> simp [h]⟩

/-! ## termination: once `done` is closed every step decreases `rank` -/

set_option hygiene false in
macro "close_rank" : tactic => `(tactic| (
  (repeat' split at hs)
  all_goals (try simp only [List.mem_cons, List.mem_singleton, List.not_mem_nil, List.mem_nil_iff, or_false] at hs)
  all_goals (try (rcases hs with hs | hs))
  all_goals (try (rcases hs with hs | hs))
  all_goals (try (obtain ⟨hc, hs⟩ := hs))
  all_goals (revert h; try simp only [and_imp])
  all_goals intros
  all_goals (try subst hs)
  all_goals (try subst_vars)
  all_goals (try contradiction)
  all_goals (simp_all [rank, RPc.rank, KPc.rank, OPc.rank, NPc.rank, WPc.rank, Left.toNat, Left.pred])
  all_goals (try (repeat' split))
  all_goals (try omega)
  all_goals (try (cases k <;> simp_all [kPastSignal, kPastNcDone, kPastEntry]))))

theorem rank_stepR (s s' : St) (h : inv s = true) (hd : s.doneClosed = true) (hs : s' ∈ stepR s) :
    rank s' < rank s := by
  obtain ⟨nc, mode, twice, closeErr, r, k, second, o, oSecond, n, w, feed, left, closedFlag, doneClosed, exited,
    rlDone, ncDoneClosed, closeCalls, lastErr, panic⟩ := s
  cases r <;> simp [stepR, inv, wf, implClosed] at h hs hd ⊢
  all_goals close_rank

theorem rank_stepK (s s' : St) (h : inv s = true) (hd : s.doneClosed = true) (hs : s' ∈ stepK s) :
    rank s' < rank s := by
  obtain ⟨nc, mode, twice, closeErr, r, k, second, o, oSecond, n, w, feed, left, closedFlag, doneClosed, exited,
    rlDone, ncDoneClosed, closeCalls, lastErr, panic⟩ := s
  cases k <;> simp [stepK, inv, wf, kPastEntry, kPastSignal, kPastNcDone] at h hs hd ⊢
  all_goals close_rank

theorem rank_stepO (s s' : St) (h : inv s = true) (hd : s.doneClosed = true) (hs : s' ∈ stepO s) :
    rank s' < rank s := by
  obtain ⟨nc, mode, twice, closeErr, r, k, second, o, oSecond, n, w, feed, left, closedFlag, doneClosed, exited,
    rlDone, ncDoneClosed, closeCalls, lastErr, panic⟩ := s
  cases o <;> simp [stepO, inv, wf] at h hs hd ⊢
  all_goals close_rank

theorem rank_stepN (s s' : St) (h : inv s = true) (hd : s.doneClosed = true) (hs : s' ∈ stepN s) :
    rank s' < rank s := by
  obtain ⟨nc, mode, twice, closeErr, r, k, second, o, oSecond, n, w, feed, left, closedFlag, doneClosed, exited,
    rlDone, ncDoneClosed, closeCalls, lastErr, panic⟩ := s
  cases n <;> simp [stepN, inv, wf] at h hs hd ⊢
  all_goals close_rank

theorem rank_stepW (s s' : St) (h : inv s = true) (hd : s.doneClosed = true) (hs : s' ∈ stepW s) :
    rank s' < rank s := by
  obtain ⟨nc, mode, twice, closeErr, r, k, second, o, oSecond, n, w, feed, left, closedFlag, doneClosed, exited,
    rlDone, ncDoneClosed, closeCalls, lastErr, panic⟩ := s
  cases w <;> simp [stepW, inv, wf, implClosed] at h hs hd ⊢
  all_goals close_rank

theorem rank_stepE (s s' : St) (h : inv s = true) (hd : s.doneClosed = true) (hs : s' ∈ stepE s) :
    rank s' < rank s := by
  obtain ⟨nc, mode, twice, closeErr, r, k, second, o, oSecond, n, w, feed, left, closedFlag, doneClosed, exited,
    rlDone, ncDoneClosed, closeCalls, lastErr, panic⟩ := s
  simp [stepE] at hs
  obtain ⟨⟨hl, _⟩, hs⟩ := hs
  cases left <;> simp at hl <;> rcases hs with hs | hs | hs <;> subst hs <;>
    simp [rank, Left.toNat, Left.pred]

/-- once `done` is closed, every step of every process strictly decreases `rank` -/
theorem rank_next (s s' : St) (h : inv s = true) (hd : s.doneClosed = true) (hs : s' ∈ next s) :
    rank s' < rank s := by
  rcases (mem_next s s' hs).2 with h' | h' | h' | h' | h' | h'
  · exact rank_stepR s s' h hd h'
  · exact rank_stepK s s' h hd h'
  · exact rank_stepO s s' h hd h'
  · exact rank_stepN s s' h hd h'
  · exact rank_stepW s s' h hd h'
  · exact rank_stepE s s' h hd h'

set_option hygiene false in
macro "close_mono" : tactic => `(tactic| (
  (repeat' split at hs)
  all_goals (try simp only [List.mem_cons, List.mem_singleton, List.not_mem_nil, List.mem_nil_iff, or_false] at hs)
  all_goals (try (rcases hs with hs | hs))
  all_goals (try (rcases hs with hs | hs))
  all_goals (try subst hs)
  all_goals (simp_all)))

/-- `done` stays closed -/
theorem doneClosed_next (s s' : St) (hd : s.doneClosed = true) (hs : s' ∈ next s) :
    s'.doneClosed = true := by
  rcases (mem_next s s' hs).2 with hs | hs | hs | hs | hs | hs
  · unfold stepR at hs; close_mono
  · unfold stepK at hs; close_mono
  · unfold stepO at hs; close_mono
  · unfold stepN at hs; close_mono
  · unfold stepW at hs; close_mono
  · unfold stepE at hs; close_mono

/-- until it has closed `done`, the closer can always take its next step (it never blocks) -/
theorem closer_enabled (s : St) (h : inv s = true) (hd : s.doneClosed = false) : stepK s ≠ [] := by
  intro hk
  have I := (inv_invP s h).doneClosed
  rcases stepK_nil s hk with ⟨hk, _⟩ | ⟨hk, _⟩ <;> simp [hk, kPastSignal, hd] at I

/-- executions after `done` is closed are bounded by `rank` -/
theorem exec_bound (s s' : St) (l : List St) (he : Exec s l s') :
    inv s = true → s.doneClosed = true → l.length + rank s' ≤ rank s := by
  induction he with
  | nil s => intro _ _; simp
  | cons s s₁ s' l hs _ ih =>
    intro h hd
    have h1 := rank_next s s₁ h hd hs
    have h2 := ih (inv_next s s₁ h hs) (doneClosed_next s s₁ hd hs)
    simp only [List.length_cons]
    omega

theorem exec_inv (s s' : St) (l : List St) (he : Exec s l s') : inv s = true → inv s' = true := by
  induction he with
  | nil s => exact id
  | cons s s₁ s' l hs _ ih => exact fun h => ih (inv_next s s₁ h hs)

theorem exec_reach (s s' : St) (l : List St) (he : Exec s l s') : Reach s → Reach s' := by
  induction he with
  | nil s => exact id
  | cons s s₁ s' l hs _ ih => exact fun h => ih (.step s s₁ h hs)

/-! ## races -/

theorem conflict_of_sync (a b : List (Var × Acc)) (h : ∀ x ∈ a, x.2.isPlain = false) :
    conflict a b = false := by
  simp only [conflict, List.any_eq_false]
  intro x hx hy
  simp [h x hx] at hy

theorem conflict_of_sync_right (a b : List (Var × Acc)) (h : ∀ x ∈ b, x.2.isPlain = false) :
    conflict a b = false := by
  simp only [conflict, List.any_eq_false]
  intro x _ hy
  simp only [List.any_eq_true] at hy
  obtain ⟨y, hy, hp⟩ := hy
  simp [h y hy] at hp

theorem accR_sync (pc : RPc) : ∀ x ∈ accR pc, x.2.isPlain = false := by cases pc <;> simp [accR, Acc.isPlain]
theorem accK_sync (pc : KPc) : ∀ x ∈ accK pc, x.2.isPlain = false := by cases pc <;> simp [accK, Acc.isPlain]
theorem accO_sync (pc : OPc) : ∀ x ∈ accO pc, x.2.isPlain = false := by cases pc <;> simp [accO, Acc.isPlain]
theorem accN_sync (pc : NPc) : ∀ x ∈ accN pc, x.2.isPlain = false := by cases pc <;> simp [accN, Acc.isPlain]

/-- no step of the (repaired) skeleton makes a plain access to a shared variable, hence no state
has two conflicting plain accesses pending -/
theorem no_race (s : St) : race s = false := by
  simp only [race, Bool.or_eq_false_iff]
  refine ⟨⟨⟨⟨⟨⟨⟨⟨⟨?_, ?_⟩, ?_⟩, ?_⟩, ?_⟩, ?_⟩, ?_⟩, ?_⟩, ?_⟩, ?_⟩
  · exact conflict_of_sync _ _ (accR_sync _)
  · exact conflict_of_sync _ _ (accR_sync _)
  · exact conflict_of_sync _ _ (accR_sync _)
  · exact conflict_of_sync _ _ (accR_sync _)
  · exact conflict_of_sync _ _ (accK_sync _)
  · exact conflict_of_sync _ _ (accK_sync _)
  · exact conflict_of_sync _ _ (accK_sync _)
  · exact conflict_of_sync _ _ (accO_sync _)
  · exact conflict_of_sync _ _ (accO_sync _)
  · exact conflict_of_sync _ _ (accN_sync _)

/-! ## a canonical execution, for non-vacuity examples -/

/-- follow the first enabled successor `n` times -/
def greedy : Nat → St → St
  | 0, s => s
  | n + 1, s => match next s with
    | [] => s
    | s₁ :: _ => greedy n s₁

def greedyTrace : Nat → St → List St
  | 0, _ => []
  | n + 1, s => match next s with
    | [] => []
    | s₁ :: _ => s₁ :: greedyTrace n s₁

theorem greedy_exec (n : Nat) (s : St) : Exec s (greedyTrace n s) (greedy n s) := by
  induction n generalizing s with
  | zero => exact .nil s
  | succ n ih =>
    unfold greedy greedyTrace
    split
    · exact .nil s
    · rename_i s₁ _ heq
      exact .cons s s₁ _ _ (by rw [heq]; exact List.mem_cons_self) (ih s₁)

end Scrapli.Close.Sys
