import ScrapliModel.Priv
/-!
# Forest: simple paths in a parent-pointer forest are unique; depth-first search with an arbitrary
neighbour order is sound and complete

Generic over the node type. `par` is the parent function, `d` a depth function witnessing
acyclicity (`par a = some p → d a = d p + 1`). No bound on the number of nodes.
-/
namespace Scrapli.Forest

variable {α : Type}

/-- undirected adjacency of the parent-pointer graph -/
def Adj (par : α → Option α) (a b : α) : Prop := par a = some b ∨ par b = some a

theorem Adj.symm {par : α → Option α} {a b : α} (h : Adj par a b) : Adj par b a := Or.symm h

/-- consecutive elements are adjacent -/
def Walk (par : α → Option α) : List α → Prop
  | [] => True
  | [_] => True
  | a :: b :: t => Adj par a b ∧ Walk par (b :: t)

/-- `p` is a simple path from `a` to `b` -/
def SimplePath (par : α → Option α) (a b : α) (p : List α) : Prop :=
  p.head? = some a ∧ p.getLast? = some b ∧ Walk par p ∧ p.Nodup

/-- `x` is an ancestor of (or equal to) `v` -/
inductive Anc (par : α → Option α) : α → α → Prop
  | refl (a : α) : Anc par a a
  | step {x v p : α} : par v = some p → Anc par x p → Anc par x v

section
variable {par : α → Option α} {d : α → Nat} (hd : ∀ a p, par a = some p → d a = d p + 1)
include hd

theorem anc_depth {x v : α} (h : Anc par x v) : d x ≤ d v := by
  induction h with
  | refl => exact Nat.le_refl _
  | step hp _ ih => have := hd _ _ hp; omega

omit hd in
theorem anc_parent_of_ne {x v : α} (h : Anc par x v) (hne : v ≠ x) :
    ∃ p, par v = some p ∧ Anc par x p := by
  cases h with
  | refl => exact absurd rfl hne
  | step hp h' => exact ⟨_, hp, h'⟩

omit hd in
theorem anc_of_parent {x a b : α} (h : Anc par x b) (hx : par x = some a) : Anc par a b := by
  induction h with
  | refl => exact .step hx (.refl a)
  | step hp _ ih => exact .step hp ih

omit hd in
theorem anc_comparable {x y b : α} (hx : Anc par x b) (hy : Anc par y b) :
    Anc par x y ∨ Anc par y x := by
  induction hx with
  | refl => exact Or.inr hy
  | step hp hxp ih =>
    cases hy with
    | refl => exact Or.inl (.step hp hxp)
    | step hp' hyp =>
      rw [hp] at hp'
      cases hp'
      exact ih hyp

/-- the side of neighbour `x` of `a`: the subtree of `x` when `x` is a child of `a`, the
complement of the subtree of `a` when `x` is the parent of `a` -/
def Side (par : α → Option α) (a x v : α) : Prop :=
  (par x = some a ∧ Anc par x v) ∨ (par a = some x ∧ ¬ Anc par a v)

theorem side_self {a x : α} (h : Adj par a x) : Side par a x x := by
  rcases h with h | h
  · right
    refine ⟨h, fun hc => ?_⟩
    have := anc_depth hd hc
    have := hd _ _ h
    omega
  · left; exact ⟨h, .refl x⟩

omit hd in
theorem side_closed {a x v w : α} (hs : Side par a x v) (hvw : Adj par v w) (hw : w ≠ a) :
    Side par a x w := by
  rcases hs with ⟨hx, hv⟩ | ⟨hx, hv⟩
  · left
    refine ⟨hx, ?_⟩
    rcases hvw with h | h
    · -- w is the parent of v
      by_cases hvx : v = x
      · subst hvx; rw [hx] at h; cases h; exact absurd rfl hw
      · obtain ⟨p, hp, hap⟩ := anc_parent_of_ne hv hvx
        rw [h] at hp; cases hp; exact hap
    · exact .step h hv
  · right
    refine ⟨hx, fun hc => ?_⟩
    rcases hvw with h | h
    · exact hv (.step h hc)
    · obtain ⟨p, hp, hap⟩ := anc_parent_of_ne hc hw
      rw [h] at hp; cases hp; exact hv hap

omit hd in
theorem walk_in_side {a x : α} : ∀ (l : List α) (v : α), Walk par (v :: l) → a ∉ v :: l →
    Side par a x v → ∀ w ∈ v :: l, Side par a x w := by
  intro l
  induction l with
  | nil => intro v _ _ hs w hw; simp at hw; subst hw; exact hs
  | cons u t ih =>
    intro v hwalk hna hs w hw
    have hna' : a ∉ u :: t := fun h => hna (List.mem_cons_of_mem _ h)
    have hu : u ≠ a := fun h => hna' (by simp [h])
    rcases List.mem_cons.1 hw with rfl | hw'
    · exact hs
    · exact ih u hwalk.2 hna' (side_closed hs hwalk.1 hu) w hw'

theorem sides_disjoint {a x y b : α} (_hx : Adj par a x) (_hy : Adj par a y)
    (sx : Side par a x b) (sy : Side par a y b) : x = y := by
  rcases sx with ⟨px, ax⟩ | ⟨px, ax⟩ <;> rcases sy with ⟨py, ay⟩ | ⟨py, ay⟩
  · -- both children of a, both ancestors of b
    rcases anc_comparable ax ay with h | h
    · -- x ancestor of y
      by_cases hyx : y = x
      · exact hyx.symm
      · obtain ⟨p, hp, hap⟩ := anc_parent_of_ne h hyx
        rw [py] at hp; cases hp
        have := anc_depth hd hap
        have := hd _ _ px
        omega
    · by_cases hxy : x = y
      · exact hxy
      · obtain ⟨p, hp, hap⟩ := anc_parent_of_ne h hxy
        rw [px] at hp; cases hp
        have := anc_depth hd hap
        have := hd _ _ py
        omega
  · exact absurd (anc_of_parent ax px) ay
  · exact absurd (anc_of_parent ay py) ax
  · rw [px] at py; cases py; rfl

omit hd in
theorem walk_tail {a : α} {l : List α} (h : Walk par (a :: l)) : Walk par l := by
  cases l with
  | nil => trivial
  | cons b t => exact h.2

/-- in a forest there is at most one simple path between two nodes -/
theorem simplePath_unique : ∀ (p q : List α) (a b : α),
    SimplePath par a b p → SimplePath par a b q → p = q := by
  intro p
  induction p with
  | nil => intro q a b hp; simp [SimplePath] at hp
  | cons a' p' ih =>
    intro q a b hp hq
    obtain ⟨hph, hpl, hpw, hpn⟩ := hp
    obtain ⟨hqh, hql, hqw, hqn⟩ := hq
    simp only [List.head?_cons, Option.some.injEq] at hph
    subst a
    cases q with
    | nil => simp at hqh
    | cons a'' q' =>
      simp only [List.head?_cons, Option.some.injEq] at hqh
      subst a''
      cases p' with
      | nil =>
        simp only [List.getLast?_singleton, Option.some.injEq] at hpl
        subst hpl
        cases q' with
        | nil => rfl
        | cons y q'' =>
          exfalso
          rw [List.getLast?_cons_cons] at hql
          have : a' ∈ y :: q'' := List.mem_of_getLast? hql
          exact (List.nodup_cons.1 hqn).1 this
      | cons x p'' =>
        rw [List.getLast?_cons_cons] at hpl
        have hbp : b ∈ x :: p'' := List.mem_of_getLast? hpl
        have hap : a' ∉ x :: p'' := (List.nodup_cons.1 hpn).1
        cases q' with
        | nil =>
          exfalso
          simp only [List.getLast?_singleton, Option.some.injEq] at hql
          subst hql
          exact hap hbp
        | cons y q'' =>
          rw [List.getLast?_cons_cons] at hql
          have hbq : b ∈ y :: q'' := List.mem_of_getLast? hql
          have haq : a' ∉ y :: q'' := (List.nodup_cons.1 hqn).1
          have sx := walk_in_side (x := x) p'' x hpw.2 hap (side_self hd hpw.1) b hbp
          have sy := walk_in_side (x := y) q'' y hqw.2 haq (side_self hd hqw.1) b hbq
          have hxy : x = y := sides_disjoint hd hpw.1 hqw.1 sx sy
          subst hxy
          have := ih (x :: q'') x b ⟨rfl, hpl, hpw.2, (List.nodup_cons.1 hpn).2⟩
            ⟨rfl, hql, hqw.2, (List.nodup_cons.1 hqn).2⟩
          rw [this]

end

/-! ## reversal, suffixes, existence -/

theorem walk_append_singleton {par : α → Option α} : ∀ (l : List α) (y : α),
    Walk par (l ++ [y]) ↔ Walk par l ∧ (∀ x, l.getLast? = some x → Adj par x y) := by
  intro l
  induction l with
  | nil => intro y; simp [Walk]
  | cons a t ih =>
    intro y
    cases t with
    | nil => simp [Walk]
    | cons b t' =>
      have := ih y
      simp only [List.cons_append, Walk, List.getLast?_cons_cons] at this ⊢
      rw [this]
      constructor
      · rintro ⟨h1, h2, h3⟩; exact ⟨⟨h1, h2⟩, h3⟩
      · rintro ⟨⟨h1, h2⟩, h3⟩; exact ⟨h1, h2, h3⟩

theorem walk_reverse {par : α → Option α} : ∀ (l : List α), Walk par l → Walk par l.reverse := by
  intro l
  induction l with
  | nil => intro _; trivial
  | cons a t ih =>
    intro h
    rw [List.reverse_cons, walk_append_singleton]
    refine ⟨ih (walk_tail h), ?_⟩
    intro x hx
    rw [List.getLast?_reverse] at hx
    cases t with
    | nil => simp at hx
    | cons b t' =>
      simp only [List.head?_cons, Option.some.injEq] at hx
      subst hx
      exact h.1.symm

theorem simplePath_reverse {par : α → Option α} {a b : α} {p : List α}
    (h : SimplePath par a b p) : SimplePath par b a p.reverse := by
  obtain ⟨h1, h2, h3, h4⟩ := h
  refine ⟨?_, ?_, walk_reverse p h3, (List.reverse_perm p).nodup_iff.2 h4⟩
  · rw [List.head?_reverse]; exact h2
  · rw [List.getLast?_reverse]; exact h1

theorem walk_suffix {par : α → Option α} : ∀ (s t : List α), Walk par (s ++ t) → Walk par t := by
  intro s
  induction s with
  | nil => intro t h; exact h
  | cons a s' ih => intro t h; exact ih t (walk_tail h)

/-- extend a simple path at the front by a neighbour of its first node (cut back to that
neighbour when it already lies on the path) -/
theorem simplePath_extend {par : α → Option α} {a p b : α} {q : List α}
    (h : SimplePath par p b q) (hadj : Adj par a p) :
    ∃ q', SimplePath par a b q' ∧ ∀ v ∈ q', v = a ∨ v ∈ q := by
  classical
  obtain ⟨h1, h2, h3, h4⟩ := h
  by_cases ha : a ∈ q
  · obtain ⟨s, t, rfl⟩ := List.append_of_mem ha
    refine ⟨a :: t, ⟨rfl, ?_, walk_suffix s _ h3, ?_⟩, ?_⟩
    · rw [List.getLast?_append] at h2
      simpa using h2
    · exact (List.nodup_append.1 h4).2.1
    · intro v hv; right; exact List.mem_append_right _ hv
  · cases q with
    | nil => simp at h1
    | cons p' t =>
      simp only [List.head?_cons, Option.some.injEq] at h1
      subst h1
      refine ⟨a :: p' :: t, ⟨rfl, ?_, ⟨hadj, h3⟩, List.nodup_cons.2 ⟨ha, h4⟩⟩, ?_⟩
      · rw [List.getLast?_cons_cons]; exact h2
      · intro v hv
        rcases List.mem_cons.1 hv with rfl | hv
        · exact Or.inl rfl
        · exact Or.inr hv

/-- in a forest with a single root, any two nodes are joined by a simple path (through nodes of
`V`, a set closed under taking parents) -/
theorem simplePath_exists {par : α → Option α} {d : α → Nat} {V : α → Prop}
    (hd : ∀ a p, par a = some p → d a = d p + 1)
    (hV : ∀ a p, V a → par a = some p → V p)
    (hroot : ∀ a b, V a → V b → par a = none → par b = none → a = b) :
    ∀ (n : Nat) (a b : α), V a → V b → d a + d b ≤ n →
      ∃ q, SimplePath par a b q ∧ ∀ v ∈ q, V v := by
  intro n
  induction n with
  | zero =>
    intro a b ha hb hn
    have hpa : par a = none := by
      cases h : par a with
      | none => rfl
      | some p => have := hd _ _ h; omega
    have hpb : par b = none := by
      cases h : par b with
      | none => rfl
      | some p => have := hd _ _ h; omega
    have := hroot a b ha hb hpa hpb
    subst this
    exact ⟨[a], ⟨rfl, rfl, trivial, by simp⟩, by simp; exact ha⟩
  | succ n ih =>
    intro a b ha hb hn
    cases hpa : par a with
    | some p =>
      have := hd _ _ hpa
      obtain ⟨q, hq, hqV⟩ := ih p b (hV _ _ ha hpa) hb (by omega)
      obtain ⟨q', hq', hsub⟩ := simplePath_extend hq (Or.inl hpa)
      refine ⟨q', hq', fun v hv => ?_⟩
      rcases hsub v hv with rfl | h
      · exact ha
      · exact hqV v h
    | none =>
      cases hpb : par b with
      | some p =>
        have := hd _ _ hpb
        obtain ⟨q, hq, hqV⟩ := ih p a (hV _ _ hb hpb) ha (by omega)
        obtain ⟨q', hq', hsub⟩ := simplePath_extend hq (Or.inl hpb)
        refine ⟨q'.reverse, simplePath_reverse hq', fun v hv => ?_⟩
        rcases hsub v (List.mem_reverse.1 hv) with rfl | h
        · exact hb
        · exact hqV v h
      | none =>
        have := hroot a b ha hb hpa hpb
        subst this
        exact ⟨[a], ⟨rfl, rfl, trivial, by simp⟩, by simp; exact ha⟩

end Scrapli.Forest

/-! ## depth-first search with an arbitrary neighbour order -/
namespace Scrapli.Forest
open Scrapli.Priv

variable {α : Type} [DecidableEq α]

/-- whatever `dfs` returns extends the working steps by a walk from `cur` to `tgt` without
repeated nodes -/
theorem dfs_sound {par : α → Option α} {nb : α → List α} {ord : List α → List α → List α} {tgt : α}
    (hnb : ∀ a b, b ∈ nb a → Adj par a b) (hord : ∀ ws l x, x ∈ ord ws l → x ∈ l) :
    ∀ (fuel : Nat) (cur : α) (steps r : List α), dfs nb ord tgt fuel cur steps = some r →
      (steps ++ [cur]).Nodup →
      ∃ q, r = steps ++ q ∧ q.head? = some cur ∧ q.getLast? = some tgt ∧ Walk par q ∧ r.Nodup := by
  intro fuel
  induction fuel with
  | zero =>
    intro cur steps r h hn
    simp only [dfs] at h
    split at h
    · cases h; rename_i hc; subst hc
      exact ⟨[cur], rfl, rfl, rfl, trivial, hn⟩
    · cases h
  | succ fuel ih =>
    intro cur steps r h hn
    simp only [dfs] at h
    split at h
    · cases h; rename_i hc; subst hc
      exact ⟨[cur], rfl, rfl, rfl, trivial, hn⟩
    · obtain ⟨x, hx, hfx⟩ := List.exists_of_findSome?_eq_some h
      split at hfx
      · cases hfx
      · rename_i hxws
        have hn' : (steps ++ [cur] ++ [x]).Nodup := by
          rw [List.nodup_append]
          refine ⟨hn, by simp, ?_⟩
          intro a ha b hb
          simp at hb; subst hb
          intro hab; subst hab; exact hxws ha
        obtain ⟨q', hr, hh, hl, hw, hrn⟩ := ih x (steps ++ [cur]) r hfx hn'
        refine ⟨cur :: q', by rw [hr]; simp, rfl, ?_, ?_, hrn⟩
        · cases q' with
          | nil => simp at hh
          | cons y t => rw [List.getLast?_cons_cons]; exact hl
        · cases q' with
          | nil => trivial
          | cons y t =>
            simp only [List.head?_cons, Option.some.injEq] at hh
            subst hh
            exact ⟨hnb _ _ (hord _ _ _ hx), hw⟩

/-- if a simple path from `cur` to `tgt` avoids the working steps, `dfs` finds some path, for
every neighbour order, provided the fuel covers the nodes not yet visited -/
theorem dfs_complete {par : α → Option α} {nb : α → List α} {ord : List α → List α → List α} {tgt : α}
    (V : List α) (hnb : ∀ a b, a ∈ V → Adj par a b → b ∈ nb a)
    (hord : ∀ ws l x, x ∈ l → x ∈ ord ws l) :
    ∀ (fuel : Nat) (cur : α) (steps q : List α), SimplePath par cur tgt q →
      (∀ v ∈ q, v ∉ steps) → (∀ v ∈ q, v ∈ V) → (∀ v ∈ steps, v ∈ V) → steps.Nodup →
      V.length ≤ fuel + steps.length + 1 →
      (dfs nb ord tgt fuel cur steps).isSome := by
  intro fuel
  induction fuel with
  | zero =>
    intro cur steps q hq hqs hqV hsV hsn hlen
    simp only [dfs]
    split
    · rfl
    · rename_i hne
      exfalso
      obtain ⟨hh, hl, hw, hn⟩ := hq
      cases q with
      | nil => simp at hh
      | cons c t =>
        simp only [List.head?_cons, Option.some.injEq] at hh; subst hh
        cases t with
        | nil => simp at hl; exact hne hl
        | cons x t' =>
          have hnd : (x :: c :: steps).Nodup := by
            have h1 := List.nodup_cons.1 hn
            refine List.nodup_cons.2 ⟨?_, List.nodup_cons.2 ⟨hqs c (by simp), hsn⟩⟩
            intro hx
            rcases List.mem_cons.1 hx with rfl | hx
            · exact h1.1 (by simp)
            · exact hqs x (by simp) hx
          have hsub : (x :: c :: steps) ⊆ V := by
            intro v hv
            rcases List.mem_cons.1 hv with rfl | hv
            · exact hqV _ (by simp)
            · rcases List.mem_cons.1 hv with rfl | hv
              · exact hqV _ (by simp)
              · exact hsV v hv
          have := List.Nodup.length_le_of_subset hnd hsub
          simp at this
          omega
  | succ fuel ih =>
    intro cur steps q hq hqs hqV hsV hsn hlen
    simp only [dfs]
    split
    · rfl
    · rename_i hne
      obtain ⟨hh, hl, hw, hn⟩ := hq
      cases q with
      | nil => simp at hh
      | cons c t =>
        simp only [List.head?_cons, Option.some.injEq] at hh; subst hh
        cases t with
        | nil => simp at hl; exact absurd hl hne
        | cons x t' =>
          rw [List.findSome?_isSome_iff]
          have h1 := List.nodup_cons.1 hn
          have hxws : x ∉ steps ++ [c] := by
            intro hx
            rcases List.mem_append.1 hx with hx | hx
            · exact hqs x (by simp) hx
            · simp at hx; subst hx; exact h1.1 (by simp)
          refine ⟨x, hord _ _ _ (hnb _ _ (hqV _ (by simp)) hw.1), ?_⟩
          rw [if_neg hxws]
          apply ih x (steps ++ [c]) (x :: t') ⟨rfl, by rw [List.getLast?_cons_cons] at hl; exact hl, hw.2, h1.2⟩
          · intro v hv hvs
            rcases List.mem_append.1 hvs with hvs | hvs
            · exact hqs v (List.mem_cons_of_mem _ hv) hvs
            · simp at hvs; subst hvs; exact h1.1 hv
          · intro v hv; exact hqV v (List.mem_cons_of_mem _ hv)
          · intro v hv
            rcases List.mem_append.1 hv with hv | hv
            · exact hsV v hv
            · simp at hv; subst hv; exact hqV _ (by simp)
          · rw [List.nodup_append]
            refine ⟨hsn, by simp, ?_⟩
            intro a ha b hb
            simp at hb; subst hb
            intro hab; subst hab; exact hqs _ (by simp) ha
          · simp; omega

/-- on a forest, for every neighbour order, `dfs` returns exactly the simple path -/
theorem dfs_unique {par : α → Option α} {d : α → Nat} {nb : α → List α}
    {ord : List α → List α → List α} {cur tgt : α} {q : List α}
    (hd : ∀ a p, par a = some p → d a = d p + 1)
    (V : List α) (hnb : ∀ a b, a ∈ V → (b ∈ nb a ↔ Adj par a b))
    (hnb' : ∀ a b, b ∈ nb a → Adj par a b)
    (hord : ∀ ws l x, x ∈ ord ws l ↔ x ∈ l)
    (hq : SimplePath par cur tgt q) (hqV : ∀ v ∈ q, v ∈ V) :
    dfs nb ord tgt V.length cur [] = some q := by
  have hc := dfs_complete (par := par) (nb := nb) (ord := ord) (tgt := tgt) V
    (fun a b ha h => (hnb a b ha).2 h) (fun ws l x h => (hord ws l x).2 h) V.length cur [] q hq
    (by simp) hqV (by simp) (by simp) (by simp)
  obtain ⟨r, hr⟩ := Option.isSome_iff_exists.1 hc
  obtain ⟨q', hrq, hh, hl, hw, hn⟩ := dfs_sound (par := par) hnb' (fun ws l x h => (hord ws l x).1 h)
    V.length cur [] r hr (by simp)
  simp only [List.nil_append] at hrq
  subst hrq
  rw [hr, simplePath_unique hd r q cur tgt ⟨hh, hl, hw, hn⟩ hq]

end Scrapli.Forest

/-! ## the explicit tree path (`climb`) is the simple path -/
namespace Scrapli.Forest
open Scrapli.Priv

variable {α : Type} [DecidableEq α]

omit [DecidableEq α] in
theorem anc_depth_lt {par : α → Option α} {d : α → Nat}
    (hd : ∀ a p, par a = some p → d a = d p + 1) {x v : α} (h : Anc par x v) (hne : v ≠ x) :
    d x < d v := by
  obtain ⟨p, hp, hap⟩ := anc_parent_of_ne h hne
  have := anc_depth hd hap
  have := hd _ _ hp
  omega

/-- `climb` returns a simple path from `a` to `b` whose nodes are ancestors (or self) of `a` or
of `b`, in a single-rooted forest whose depth function is 0 exactly at roots -/
theorem climb_simple {par : α → Option α} {d : α → Nat} {V : α → Prop}
    (hd : ∀ a p, par a = some p → d a = d p + 1)
    (h0 : ∀ a, V a → par a = none → d a = 0)
    (hV : ∀ a p, V a → par a = some p → V p)
    (hroot : ∀ a b, V a → V b → par a = none → par b = none → a = b) :
    ∀ (f : Nat) (a b : α), V a → V b → d a + d b ≤ f →
      SimplePath par a b (climb par d f a b) ∧
      ∀ v ∈ climb par d f a b, Anc par v a ∨ Anc par v b := by
  intro f
  induction f with
  | zero =>
    intro a b ha hb hf
    have hpa : par a = none := by
      cases h : par a with
      | none => rfl
      | some p => have := hd _ _ h; omega
    have hpb : par b = none := by
      cases h : par b with
      | none => rfl
      | some p => have := hd _ _ h; omega
    have := hroot a b ha hb hpa hpb
    subst this
    simp only [climb]
    exact ⟨⟨rfl, rfl, trivial, by simp⟩, by intro v hv; simp at hv; subst hv; exact Or.inl (.refl _)⟩
  | succ f ih =>
    intro a b ha hb hf
    simp only [climb]
    split
    · rename_i hab; subst hab
      exact ⟨⟨rfl, rfl, trivial, by simp⟩, by intro v hv; simp at hv; subst hv; exact Or.inl (.refl _)⟩
    · rename_i hab
      split
      · rename_i hle
        -- a is at least as deep as b: step from a to its parent
        cases hpa : par a with
        | none =>
          exfalso
          have hda := h0 a ha hpa
          have hpb : par b = none := by
            cases h : par b with
            | none => rfl
            | some q => have := hd _ _ h; omega
          exact hab (hroot a b ha hb hpa hpb)
        | some p =>
          simp only
          have hdp := hd _ _ hpa
          obtain ⟨⟨hh, hl, hw, hn⟩, hanc⟩ := ih p b (hV _ _ ha hpa) hb (by omega)
          have hnotin : a ∉ climb par d f p b := by
            intro hin
            rcases hanc a hin with h | h
            · have := anc_depth hd h; omega
            · have := anc_depth_lt hd h (fun hc => hab hc.symm); omega
          refine ⟨⟨rfl, ?_, ?_, List.nodup_cons.2 ⟨hnotin, hn⟩⟩, ?_⟩
          · cases hc : climb par d f p b with
            | nil => rw [hc] at hh; simp at hh
            | cons y t => rw [List.getLast?_cons_cons, ← hc]; exact hl
          · cases hc : climb par d f p b with
            | nil => trivial
            | cons y t =>
              rw [hc] at hh hw
              simp only [List.head?_cons, Option.some.injEq] at hh
              subst hh
              exact ⟨Or.inl hpa, hw⟩
          · intro v hv
            rcases List.mem_cons.1 hv with rfl | hv
            · exact Or.inl (.refl _)
            · rcases hanc v hv with h | h
              · exact Or.inl (.step hpa h)
              · exact Or.inr h
      · rename_i hlt
        cases hpb : par b with
        | none =>
          exfalso
          have := h0 b hb hpb
          omega
        | some q =>
          simp only
          have hdq := hd _ _ hpb
          obtain ⟨⟨hh, hl, hw, hn⟩, hanc⟩ := ih a q ha (hV _ _ hb hpb) (by omega)
          have hnotin : b ∉ climb par d f a q := by
            intro hin
            rcases hanc b hin with h | h
            · have := anc_depth hd h; omega
            · have := anc_depth hd h; omega
          refine ⟨⟨?_, by simp, ?_, ?_⟩, ?_⟩
          · cases hc : climb par d f a q with
            | nil => rw [hc] at hh; simp at hh
            | cons y t => rw [hc] at hh; simpa using hh
          · rw [walk_append_singleton]
            refine ⟨hw, fun x hx => ?_⟩
            rw [hl] at hx
            cases hx
            exact Or.inr hpb
          · rw [List.nodup_append]
            refine ⟨hn, by simp, ?_⟩
            intro x hx y hy
            simp at hy; subst hy
            intro hxy; subst hxy; exact hnotin hx
          · intro v hv
            rcases List.mem_append.1 hv with hv | hv
            · rcases hanc v hv with h | h
              · exact Or.inl h
              · exact Or.inr (.step hpb h)
            · simp at hv; subst hv; exact Or.inr (.refl _)

end Scrapli.Forest
