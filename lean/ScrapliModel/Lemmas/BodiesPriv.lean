import ScrapliModel.Priv
import ScrapliModel.Lemmas.GoSem
import ScrapliModel.Generated.BodiesPriv
/-!
# Helpers for the tie of `processAcquirePriv` (translated body vs `Priv.processAcquire`)
-/
namespace Scrapli.Priv
open Scrapli

/-- the action strings of `driver/network` -/
def actionStr : Action → Bytes
  | .noAction => Gen.Network.noAction
  | .escalate => Gen.Network.escalateAction
  | .deescalate => Gen.Network.deescalateAction

theorem find?_name (L : Levels) (k : Bytes) (l : Level) (h : find? L k = some l) : l.name = k := by
  have := List.find?_some h
  simpa using this


/-- the prompt matcher `determineCurrentPriv` applies to one level -/
def matchOf (notContains : Level → List Bytes) (patMatch : Level → Bytes → Bool) : Level → Bytes → Bool :=
  fun l p => !(notContains l).any (fun s => isInfix s p) && patMatch l p


end Scrapli.Priv
