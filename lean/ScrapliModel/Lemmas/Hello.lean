import ScrapliModel.Netconf.Hello
import ScrapliModel.Lemmas.Bytes
import ScrapliModel.Lemmas.Channel
/-!
Helper lemmas for C09: the scanner of `Netconf/Hello.lean` on rendered hello layouts, the
read-until-delimiter step over arbitrary segmentations, request framing.
-/
namespace Scrapli.Netconf.Hello
open Scrapli Scrapli.Chan

/-! ## bytes -/

theorem isWord_ne_colon {b : UInt8} (h : isWord b = true) : b ≠ 58 := by
  intro hb; subst hb; exact absurd h (by decide)

theorem isWord_ne_lt {b : UInt8} (h : isWord b = true) : b ≠ 60 := by
  intro hb; subst hb; exact absurd h (by decide)

theorem takeWhile_all_append {p : UInt8 → Bool} (ws : Bytes) (x : UInt8) (r : Bytes)
    (hws : ∀ b ∈ ws, p b = true) (hx : p x = false) :
    (ws ++ x :: r).takeWhile p = ws := by
  induction ws with
  | nil => simp [hx]
  | cons w t ih =>
    have hw := hws w (by simp)
    simp only [List.cons_append, List.takeWhile, hw]
    rw [ih (fun b hb => hws b (by simp [hb]))]

/-! ## names: word run followed by a byte that is neither a word byte nor `:` -/

/-- `name ++ r` begins with a (possibly empty) run of word bytes followed by a byte that ends the
run and is not a colon: the optional-prefix skip leaves such a text alone -/
def PlainHead (s : Bytes) : Prop :=
  ∃ w c r, s = w ++ c :: r ∧ (∀ b ∈ w, isWord b = true) ∧ isWord c = false ∧ c ≠ 58

theorem stripPfx_plain {s : Bytes} (h : PlainHead s) : stripPfx s = s := by
  obtain ⟨w, c, r, rfl, hw, hc, hc2⟩ := h
  cases w with
  | nil => simp [stripPfx, hc]
  | cons b w' =>
    have hb := hw b (by simp)
    have hd : ((b :: w') ++ c :: r).dropWhile isWord = c :: r :=
      dropWhile_all_append (b :: w') c r hw hc
    simp only [List.cons_append] at hd ⊢
    simp only [stripPfx, hb, if_true, hd]
    split
    · rename_i r' heq
      simp only [List.cons.injEq] at heq
      exact absurd heq.1 hc2
    · rfl

theorem stripPfx_prefixed (w r : Bytes) (hne : w ≠ []) (hw : ∀ b ∈ w, isWord b = true) :
    stripPfx (w ++ 58 :: r) = r := by
  cases w with
  | nil => exact absurd rfl hne
  | cons b w' =>
    have hb := hw b (by simp)
    have hd : ((b :: w') ++ 58 :: r).dropWhile isWord = 58 :: r :=
      dropWhile_all_append (b :: w') 58 r hw (by decide)
    simp only [List.cons_append] at hd ⊢
    simp only [stripPfx, hb, if_true, hd]

def WordPfx (p : Bytes) : Prop := ∀ b ∈ p, isWord b = true

theorem stripPfx_pfxB (p s : Bytes) (hp : WordPfx p) (hs : PlainHead s) :
    stripPfx (pfxB p ++ s) = s := by
  unfold pfxB
  cases p with
  | nil => simpa using stripPfx_plain hs
  | cons b t =>
    simp only [List.isEmpty_cons, Bool.false_eq_true, if_false, List.append_assoc,
      List.singleton_append]
    exact stripPfx_prefixed (b :: t) s (by simp) hp

theorem hasPrefixCI_self (n r : Bytes) (hn : ∀ b ∈ n, toLowerB b = b) :
    hasPrefixCI (n ++ r) n = true := by
  induction n with
  | nil => cases r <;> simp [hasPrefixCI]
  | cons a t ih =>
    simp only [List.cons_append, hasPrefixCI, hn a (by simp), beq_self_eq_true, Bool.true_and]
    exact ih (fun b hb => hn b (by simp [hb]))

theorem drop_length_append (n r : Bytes) : (n ++ r).drop n.length = r := by simp

/-! ## tags -/

theorem openTag_hit (p name r : Bytes) (hp : WordPfx p) (hpl : PlainHead (name ++ r))
    (hn : ∀ b ∈ name, toLowerB b = b) :
    openTag true name (otag p name ++ r) = some r := by
  unfold otag openTag
  simp only [List.cons_append, List.append_assoc, if_true]
  rw [stripPfx_pfxB p _ hp hpl, hasPrefixCI_self name r hn, if_pos rfl, drop_length_append]

theorem closeTag_hit (p name r : Bytes) (hp : WordPfx p) (hpl : PlainHead (name ++ r))
    (hn : ∀ b ∈ name, toLowerB b = b) :
    closeTag true name (ctag p name ++ r) = some r := by
  unfold ctag closeTag
  simp only [List.cons_append, List.append_assoc, if_true]
  rw [stripPfx_pfxB p _ hp hpl, hasPrefixCI_self name r hn, if_pos rfl, drop_length_append]

/-- a tag with another name does not open `name` -/
theorem openTag_other (pf : Bool) (p other name r : Bytes) (hp : WordPfx p)
    (hpl : PlainHead (other ++ r)) (hno : hasPrefixCI (other ++ r) name = false)
    (hpf : pf = false → p = []) :
    openTag pf name (otag p other ++ r) = none := by
  unfold otag openTag
  simp only [List.cons_append, List.append_assoc]
  cases pf with
  | true =>
    simp only [if_true]
    rw [stripPfx_pfxB p _ hp hpl, hno]
    simp
  | false =>
    have := hpf rfl
    subst this
    simp [pfxB, hno]

theorem openTag_not_lt (pf : Bool) (name : Bytes) (b : UInt8) (t : Bytes) (hb : b ≠ 60) :
    openTag pf name (b :: t) = none := by
  unfold openTag
  split
  · rename_i t' heq
    simp only [List.cons.injEq] at heq
    exact absurd heq.1 hb
  · rfl

theorem openTag_nil (pf : Bool) (name : Bytes) : openTag pf name [] = none := by
  unfold openTag; rfl

theorem closeTag_not_lt (pf : Bool) (name : Bytes) (b : UInt8) (t : Bytes) (hb : b ≠ 60) :
    closeTag pf name (b :: t) = none := by
  unfold closeTag
  split
  · rename_i t' heq
    simp only [List.cons.injEq] at heq
    exact absurd heq.1 hb
  · rfl

/-- `<` followed by a byte that is not a word byte (`/`, `?`) and is not the first letter of
`name` opens nothing -/
theorem openTag_nonword (pf : Bool) (name : Bytes) (c n0 : UInt8) (nt t : Bytes)
    (hname : name = n0 :: nt) (hc : isWord c = false) (hne : toLowerB c ≠ n0) :
    openTag pf name (60 :: c :: t) = none := by
  subst hname
  unfold openTag
  have hs : stripPfx (c :: t) = c :: t := by simp [stripPfx, hc]
  have hh : hasPrefixCI (c :: t) (n0 :: nt) = false := by
    simp [hasPrefixCI, hne]
  cases pf <;> simp [hs, hh]

/-! ## scanning over text that holds no match start -/

/-- no suffix position inside `j` is a match start for `f`, whatever follows `j` -/
def Junk {α : Type} (f : Bytes → Option α) (j : Bytes) : Prop :=
  ∀ (a : Bytes) (b : UInt8) (c tail : Bytes), j = a ++ b :: c → f (b :: c ++ tail) = none

theorem junk_nil {α : Type} (f : Bytes → Option α) : Junk f [] := by
  intro a b c tail h
  cases a <;> simp at h

theorem junk_cons {α : Type} {f : Bytes → Option α} {x : UInt8} {j : Bytes}
    (hx : ∀ tail, f (x :: j ++ tail) = none) (hj : Junk f j) : Junk f (x :: j) := by
  intro a b c tail h
  cases a with
  | nil =>
    simp only [List.nil_append, List.cons.injEq] at h
    obtain ⟨rfl, rfl⟩ := h
    exact hx tail
  | cons a0 a' =>
    simp only [List.cons_append, List.cons.injEq] at h
    exact hj a' b c tail h.2

theorem junk_append {α : Type} {f : Bytes → Option α} {j1 j2 : Bytes}
    (h1 : Junk f j1) (h2 : Junk f j2) : Junk f (j1 ++ j2) := by
  induction j1 with
  | nil => simpa using h2
  | cons x t ih =>
    have ht : Junk f t := fun a b c tail h => h1 (x :: a) b c tail (by simp [h])
    refine junk_cons (fun tail => ?_) (ih ht)
    have := h1 [] x t (j2 ++ tail) rfl
    simpa using this

/-- bytes other than `<` are never a match start of a scanner that needs `<` first -/
theorem junk_noLT {α : Type} {f : Bytes → Option α} (hf : ∀ b t, b ≠ 60 → f (b :: t) = none)
    (j : Bytes) (hj : ∀ b ∈ j, b ≠ 60) : Junk f j := by
  induction j with
  | nil => exact junk_nil f
  | cons x t ih =>
    exact junk_cons (fun tail => hf x _ (hj x (by simp))) (ih (fun b hb => hj b (by simp [hb])))

/-- a tag that `f` rejects, followed by bytes without `<` -/
theorem junk_tag {α : Type} {f : Bytes → Option α} (hf : ∀ b t, b ≠ 60 → f (b :: t) = none)
    (x : Bytes) (hx : ∀ b ∈ x, b ≠ 60) (hrej : ∀ tail, f (60 :: x ++ tail) = none) :
    Junk f (60 :: x) :=
  junk_cons hrej (junk_noLT hf x hx)

theorem firstSome_junk {α : Type} (f : Bytes → Option α) (j tail : Bytes) (hj : Junk f j) :
    firstSome f (j ++ tail) = firstSome f tail := by
  induction j with
  | nil => rfl
  | cons x t ih =>
    have hx : f (x :: t ++ tail) = none := hj [] x t tail rfl
    have ht : Junk f t := fun a b c tl h => hj (x :: a) b c tl (by simp [h])
    simp only [List.cons_append, firstSome]
    simp only [List.cons_append] at hx
    rw [hx]
    exact ih ht

theorem firstSome_hit {α : Type} (f : Bytes → Option α) (s : Bytes) (x : α) (h : f s = some x) :
    firstSome f s = some x := by
  cases s with
  | nil => simpa [firstSome] using h
  | cons b t => simp [firstSome, h]

/-- some later suffix matches -/
theorem firstSome_isSome_append {α : Type} (f : Bytes → Option α) (a s : Bytes)
    (h : (f s).isSome) : (firstSome f (a ++ s)).isSome := by
  induction a with
  | nil =>
    obtain ⟨x, hx⟩ := Option.isSome_iff_exists.mp h
    simp [firstSome_hit f s x hx]
  | cons b t ih =>
    simp only [List.cons_append, firstSome]
    split
    · simp
    · exact ih

/-! ## the capability scan: fuel is irrelevant, unfolding equations -/

theorem stripPfx_length (s : Bytes) : (stripPfx s).length ≤ s.length := by
  unfold stripPfx
  split
  · simp
  · rename_i b t
    split
    · split
      · rename_i r heq
        have h1 : ((b :: t).dropWhile isWord).length ≤ (b :: t).length :=
          (List.dropWhile_sublist isWord).length_le
        rw [heq] at h1
        simp only [List.length_cons] at h1 ⊢
        omega
      · exact Nat.le_refl _
    · exact Nat.le_refl _

theorem openTag_length {pf : Bool} {name s r : Bytes} (h : openTag pf name s = some r) :
    r.length < s.length := by
  unfold openTag at h
  split at h
  · rename_i t
    have h1 : (if pf = true then stripPfx t else t).length ≤ t.length := by
      split
      · exact stripPfx_length t
      · exact Nat.le_refl _
    generalize (if pf = true then stripPfx t else t) = u at h h1
    simp only at h
    split at h
    · simp only [Option.some.injEq] at h
      subst h
      simp only [List.length_drop, List.length_cons]
      omega
    · simp at h
  · simp at h

theorem closeTag_length {pf : Bool} {name s r : Bytes} (h : closeTag pf name s = some r) :
    r.length < s.length := by
  unfold closeTag at h
  split at h
  · rename_i t
    have h1 : (if pf = true then stripPfx t else t).length ≤ t.length := by
      split
      · exact stripPfx_length t
      · exact Nat.le_refl _
    generalize (if pf = true then stripPfx t else t) = u at h h1
    simp only at h
    split at h
    · simp only [Option.some.injEq] at h
      subst h
      simp only [List.length_drop, List.length_cons]
      omega
    · simp at h
  · simp at h

theorem capBody_length {s u r : Bytes} (h : capBody s = some (u, r)) : r.length < s.length := by
  induction s generalizing u with
  | nil => simp [capBody] at h
  | cons b t ih =>
    simp only [capBody] at h
    split at h
    · rename_i rest hc
      simp only [Option.some.injEq, Prod.mk.injEq] at h
      rw [← h.2]
      exact closeTag_length hc
    · split at h
      · simp at h
      · cases hb : capBody t with
        | none => simp [hb] at h
        | some ur =>
          obtain ⟨u', r'⟩ := ur
          simp only [hb, Option.map_some, Option.some.injEq, Prod.mk.injEq] at h
          obtain ⟨_, rfl⟩ := h
          have := ih hb
          simp only [List.length_cons]
          omega

theorem capAt_length {s u r : Bytes} (h : capAt s = some (u, r)) : r.length < s.length := by
  unfold capAt at h
  split at h
  · rename_i body ho
    have h1 := openTag_length ho
    have h2 := capBody_length h
    omega
  · simp at h

theorem capsScanF_fuel (n : Nat) : ∀ (s : Bytes) (f1 f2 : Nat), s.length ≤ n →
    s.length < f1 → s.length < f2 → capsScanF f1 s = capsScanF f2 s := by
  induction n with
  | zero =>
    intro s f1 f2 hn h1 h2
    have : s = [] := List.eq_nil_of_length_eq_zero (by omega)
    subst this
    cases f1 <;> cases f2 <;> simp [capsScanF]
  | succ n ih =>
    intro s f1 f2 hn h1 h2
    cases s with
    | nil => cases f1 <;> cases f2 <;> simp [capsScanF]
    | cons b t =>
      cases f1 with
      | zero => simp at h1
      | succ f1 =>
        cases f2 with
        | zero => simp at h2
        | succ f2 =>
          simp only [capsScanF]
          simp only [List.length_cons] at hn h1 h2
          cases hc : capAt (b :: t) with
          | none => exact ih t f1 f2 (by omega) (by omega) (by omega)
          | some ur =>
            obtain ⟨u, r⟩ := ur
            have hl := capAt_length hc
            simp only [List.length_cons] at hl
            simp only
            rw [ih r f1 f2 (by omega) (by omega) (by omega)]

theorem capsScan_nil : capsScan [] = [] := by simp [capsScan, capsScanF]

theorem capsScan_miss (b : UInt8) (t : Bytes) (h : capAt (b :: t) = none) :
    capsScan (b :: t) = capsScan t := by
  unfold capsScan
  simp only [List.length_cons, capsScanF, h]
  first
    | exact capsScanF_fuel t.length t _ _ (Nat.le_refl _) (by omega) (by omega)
    | skip

theorem capsScan_hit (s u r : Bytes) (h : capAt s = some (u, r)) :
    capsScan s = u :: capsScan r := by
  have hl := capAt_length h
  cases s with
  | nil => simp at hl
  | cons b t =>
    unfold capsScan
    simp only [List.length_cons] at hl ⊢
    simp only [capsScanF, h]
    rw [capsScanF_fuel r.length r (t.length + 1) (r.length + 1) (Nat.le_refl _) (by omega) (by omega)]

theorem capsScan_junk (j tail : Bytes) (hj : Junk capAt j) :
    capsScan (j ++ tail) = capsScan tail := by
  induction j with
  | nil => rfl
  | cons x t ih =>
    have hx : capAt (x :: t ++ tail) = none := hj [] x t tail rfl
    have ht : Junk capAt t := fun a b c tl h => hj (x :: a) b c tl (by simp [h])
    simp only [List.cons_append] at hx ⊢
    rw [capsScan_miss x _ hx]
    exact ih ht

end Scrapli.Netconf.Hello
