import ScrapliModel.Netconf.StoreTimed
import ScrapliModel.Lemmas.Store
/-! Lemmas for the timed layer of property C08. -/
namespace Scrapli.Netconf.Store
open Scrapli

theorem run_append (v : Ver) (c : Client) (a b : List Ev) : run v c (a ++ b) = run v (run v c a) b := by
  simp [run, List.foldl_append]

theorem tstep_c (v : Ver) (t : TClient) (e : TEv) : (tstep v t e).c = run v t.c (toEv t e) := by
  cases e with
  | call d =>
    simp only [tstep, toEv]
    cases hp : t.c.pending with
    | some id => simp [run, step, hp]
    | none => simp [run]
  | read ch => simp [tstep, toEv, run]
  | poll => simp [tstep, toEv, run]
  | tick =>
    simp only [tstep, toEv]
    cases hp : t.c.pending with
    | some id =>
      by_cases hd : t.deadline ≤ t.now + 1
      · simp [hd, run]
      · simp [hd, run]
    | none => simp [run]

theorem trun_refines (v : Ver) : ∀ (evs : List TEv) (t : TClient),
    (trun v t evs).c = run v t.c (erase v t evs) := by
  intro evs
  induction evs with
  | nil => intro t; simp [trun, erase, run]
  | cons e es ih =>
    intro t
    have := ih (tstep v t e)
    simp only [trun, List.foldl_cons] at this ⊢
    rw [this, erase, run_append, tstep_c]

/-- two timed states that agree on the client and — if a call is in flight — on the time left -/
def SameFuture (t1 t2 : TClient) : Prop :=
  t1.c = t2.c ∧ (t1.c.pending ≠ none → t1.deadline + t2.now = t2.deadline + t1.now)

theorem step_pending_some_eq {v : Ver} {c : Client} {e : Ev} (he : e ≠ .call) {id : Nat}
    (h : (step v c e).pending = some id) : c.pending = some id := by
  cases e with
  | call => exact absurd rfl he
  | read ch => simpa [step] using h
  | poll =>
    simp only [step] at h
    cases hp : c.pending with
    | none => simp [hp] at h
    | some id' =>
      simp only [hp] at h
      cases hf : (fetch c.st id').1 with
      | some m => simp [hf] at h
      | none => simpa [hf] using h
  | expire =>
    simp only [step] at h
    cases hp : c.pending with
    | none => simp [hp] at h
    | some id' => simp [hp] at h

theorem tstep_sameFuture {v : Ver} {t1 t2 : TClient} (e : TEv) (h : SameFuture t1 t2) :
    SameFuture (tstep v t1 e) (tstep v t2 e) := by
  obtain ⟨hc, hd⟩ := h
  cases e with
  | call d =>
    simp only [tstep, ← hc]
    cases hp : t1.c.pending with
    | some id => exact ⟨hc, hd⟩
    | none => exact ⟨by simp [hc], fun _ => by simp only; omega⟩
  | read ch =>
    refine ⟨by simp [tstep, hc], ?_⟩
    intro hne
    simp only [tstep] at hne ⊢
    apply hd
    cases hq : (step v t1.c (.read ch)).pending with
    | none => exact absurd hq hne
    | some id => rw [step_pending_some_eq (by simp) hq]; simp
  | poll =>
    refine ⟨by simp [tstep, hc], ?_⟩
    intro hne
    simp only [tstep] at hne ⊢
    apply hd
    cases hq : (step v t1.c .poll).pending with
    | none => exact absurd hq hne
    | some id => rw [step_pending_some_eq (by simp) hq]; simp
  | tick =>
    cases hp : t1.c.pending with
    | none =>
      have hp2 : t2.c.pending = none := hc ▸ hp
      simp only [tstep, hp, hp2]
      exact ⟨hc, fun hne => absurd hp hne⟩
    | some id =>
      have hp2 : t2.c.pending = some id := hc ▸ hp
      have hd' := hd (by simp [hp])
      by_cases h1 : t1.deadline ≤ t1.now + 1
      · have h2 : t2.deadline ≤ t2.now + 1 := by omega
        simp only [tstep, hp, hp2, h1, h2, if_true]
        refine ⟨by simp [hc], ?_⟩
        intro hne
        exfalso
        apply hne
        simp [step, hp]
      · have h2 : ¬ t2.deadline ≤ t2.now + 1 := by omega
        simp only [tstep, hp, hp2, h1, h2, if_false]
        exact ⟨hc, fun _ => by simp only; omega⟩

theorem trun_sameFuture {v : Ver} : ∀ (evs : List TEv) (t1 t2 : TClient), SameFuture t1 t2 →
    SameFuture (trun v t1 evs) (trun v t2 evs) := by
  intro evs
  induction evs with
  | nil => intro t1 t2 h; simpa [trun] using h
  | cons e es ih =>
    intro t1 t2 h
    have := ih _ _ (tstep_sameFuture (v := v) e h)
    simpa [trun] using this

/-- the calls that ended in a timeout -/
def timeouts (c : Client) : List Nat := (c.results.filter (fun p => p.2.isNone)).map (·.1)

theorem step_read_results (v : Ver) (c : Client) (ch : Bytes) :
    (step v c (.read ch)).results = c.results ∧ (step v c (.read ch)).pending = c.pending := by
  simp [step]

theorem step_poll_timeouts (v : Ver) (c : Client) :
    timeouts (step v c .poll) = timeouts c ∧
      ((step v c .poll).pending = c.pending ∨ (step v c .poll).pending = none) := by
  simp only [step]
  cases hp : c.pending with
  | none => simp [hp]
  | some id =>
    simp only
    cases hf : (fetch c.st id).1 with
    | some m => simp [timeouts, List.filter_append]
    | none => simp [timeouts]

theorem no_timeout_aux {v : Ver} : ∀ (evs : List TEv) (t : TClient), noCalls evs = true →
    (t.c.pending ≠ none → t.now + ticksIn evs < t.deadline) →
    timeouts (trun v t evs).c = timeouts t.c := by
  intro evs
  induction evs with
  | nil => intro t _ _; simp [trun]
  | cons e es ih =>
    intro t hn hd
    simp only [trun, List.foldl_cons]
    cases e with
    | call d => simp [noCalls] at hn
    | read ch =>
      simp only [noCalls] at hn
      have hs := step_read_results v t.c ch
      have := ih (tstep v t (.read ch)) hn (by
        simp only [tstep, hs.2]; intro hne; have := hd hne; simpa [ticksIn] using this)
      simp only [trun] at this
      rw [this]; simp [tstep, timeouts, hs.1]
    | poll =>
      simp only [noCalls] at hn
      have hs := step_poll_timeouts v t.c
      have := ih (tstep v t .poll) hn (by
        simp only [tstep]
        intro hne
        rcases hs.2 with h | h
        · rw [h] at hne; have := hd hne; simpa [ticksIn] using this
        · exact absurd h hne)
      simp only [trun] at this
      rw [this]; simp only [tstep]; exact hs.1
    | tick =>
      simp only [noCalls] at hn
      cases hp : t.c.pending with
      | none =>
        have := ih (tstep v t .tick) hn (by simp [tstep, hp])
        simp only [trun] at this
        rw [this]; simp [tstep, hp]
      | some id =>
        have hlt := hd (by simp [hp])
        simp only [ticksIn] at hlt
        have hnd : ¬ t.deadline ≤ t.now + 1 := by omega
        have := ih (tstep v t .tick) hn (by
          simp only [tstep, hp, hnd, if_false]; intro _; omega)
        simp only [trun] at this
        rw [this]; simp [tstep, hp, hnd]

end Scrapli.Netconf.Store
