import ScrapliModel.RegexSpec
/-!
# RegexSound: the engine `Rx.m` against the declarative relation `Rx.Matches`
-/
namespace Scrapli.Rx
open Scrapli

/-- Engine soundness, continuation form. -/
theorem m_sound : ∀ (f : Nat) (re : Re) (p : Pos) (c : Caps)
    (k : Pos → Caps → Option (Pos × Caps)) (x : Pos × Caps),
    m f re p c k = some x → ∃ q c', Matches re p q ∧ k q c' = some x := by
  intro f
  induction f with
  | zero => intro re p c k x h; simp [m] at h
  | succ f ih =>
    intro re p c k x h
    cases re with
    | empty => simp only [m] at h; exact ⟨p, c, .empty p, h⟩
    | fail => simp [m] at h
    | lit r =>
      simp only [m] at h
      split at h
      · rename_i r' w hd
        split at h
        · rename_i hr
          have : r' = r := by simpa using hr
          subst this
          exact ⟨_, c, .lit hd, h⟩
        · cases h
      · cases h
    | cls rs =>
      simp only [m] at h
      split at h
      · rename_i r' w hd
        split at h
        · rename_i hr
          exact ⟨_, c, .cls hd hr, h⟩
        · cases h
      · cases h
    | anyNL =>
      simp only [m] at h
      split at h
      · rename_i r' w hd
        exact ⟨_, c, .anyNL hd, h⟩
      · cases h
    | anyNoNL =>
      simp only [m] at h
      split at h
      · rename_i r' w hd
        split at h
        · cases h
        · rename_i hr
          exact ⟨_, c, .anyNoNL hd (by simpa using hr), h⟩
      · cases h
    | bol =>
      simp only [m] at h
      split at h
      · rename_i hb
        exact ⟨p, c, .bol (by simp [Pos.atBol, hb]), h⟩
      · rename_i b t hb
        split at h
        · rename_i hlf
          exact ⟨p, c, .bol (by simp [Pos.atBol, hb, hlf]), h⟩
        · cases h
    | eol =>
      simp only [m] at h
      split at h
      · rename_i hb
        exact ⟨p, c, .eol (by simp [Pos.atEol, hb]), h⟩
      · rename_i b t hb
        split at h
        · rename_i hlf
          exact ⟨p, c, .eol (by simp [Pos.atEol, hb, hlf]), h⟩
        · cases h
    | bot =>
      simp only [m] at h
      split at h
      · rename_i hb
        exact ⟨p, c, .bot (by simp [Pos.atBot, hb]), h⟩
      · cases h
    | eot =>
      simp only [m] at h
      split at h
      · rename_i hb
        exact ⟨p, c, .eot (by simp [Pos.atEot, hb]), h⟩
      · cases h
    | wordB =>
      simp only [m] at h
      split at h
      · rename_i hw; exact ⟨p, c, .wordB hw, h⟩
      · cases h
    | noWordB =>
      simp only [m] at h
      split at h
      · cases h
      · rename_i hw; exact ⟨p, c, .noWordB (by simpa using hw), h⟩
    | cat a b =>
      simp only [m] at h
      obtain ⟨q, c1, ha, hk⟩ := ih _ _ _ _ _ h
      obtain ⟨q2, c2, hb, hk2⟩ := ih _ _ _ _ _ hk
      exact ⟨q2, c2, .cat ha hb, hk2⟩
    | alt a b =>
      simp only [m] at h
      split at h
      · rename_i r hr
        cases h
        obtain ⟨q, c1, ha, hk⟩ := ih _ _ _ _ _ hr
        exact ⟨q, c1, .altL ha, hk⟩
      · obtain ⟨q, c1, hb, hk⟩ := ih _ _ _ _ _ h
        exact ⟨q, c1, .altR hb, hk⟩
    | group i r =>
      simp only [m] at h
      obtain ⟨q, c1, hr, hk⟩ := ih _ _ _ _ _ h
      exact ⟨q, _, .group hr, hk⟩
    | quest r g =>
      simp only [m] at h
      split at h
      · split at h
        · rename_i y hy
          cases h
          obtain ⟨q, c1, hr, hk⟩ := ih _ _ _ _ _ hy
          exact ⟨q, c1, .questSome hr, hk⟩
        · exact ⟨p, c, .questNil p, h⟩
      · split at h
        · rename_i y hy
          cases h
          exact ⟨p, c, .questNil p, hy⟩
        · obtain ⟨q, c1, hr, hk⟩ := ih _ _ _ _ _ h
          exact ⟨q, c1, .questSome hr, hk⟩
    | star r g =>
      simp only [m] at h
      have hloop : ∀ y, m f r p c (fun p' c' => if (p'.off == p.off) = true then none
            else m f (.star r g) p' c' k) = some y →
          ∃ q c', Matches (.star r g) p q ∧ k q c' = some y := by
        intro y hy
        obtain ⟨q, c1, hr, hk⟩ := ih _ _ _ _ _ hy
        split at hk
        · cases hk
        · obtain ⟨q2, c2, hs, hk2⟩ := ih _ _ _ _ _ hk
          exact ⟨q2, c2, .starCons hr hs, hk2⟩
      split at h
      · split at h
        · rename_i y hy
          cases h
          exact hloop _ hy
        · exact ⟨p, c, .starNil p, h⟩
      · split at h
        · rename_i y hy
          cases h
          exact ⟨p, c, .starNil p, hy⟩
        · exact hloop _ h
    | plus r g =>
      simp only [m] at h
      obtain ⟨q, c1, hc, hk⟩ := ih _ _ _ _ _ h
      cases hc with
      | cat ha hb => exact ⟨q, c1, .plus ha hb, hk⟩

/-- `matchAt` only reports spans the relation allows. -/
theorem matchAt_sound {re : Re} {fuel : Nat} {p q : Pos} {c : Caps}
    (h : matchAt re fuel p = some (q, c)) : Matches re p q := by
  obtain ⟨q', c', hm, hk⟩ := m_sound _ _ _ _ _ _ h
  simp only [Option.some.injEq, Prod.mk.injEq] at hk
  obtain ⟨rfl, _⟩ := hk
  exact hm

/-! ## positions -/

theorem decodeRune_width {s : Bytes} {r w : Nat} (h : decodeRune s = some (r, w)) :
    1 ≤ w ∧ w ≤ s.length := by
  unfold decodeRune at h
  split at h
  · cases h
  · rename_i b0 t
    simp only at h
    repeat' split at h
    all_goals
      simp only [Option.some.injEq, Prod.mk.injEq] at h
      obtain ⟨_, rfl⟩ := h
      simp only [List.length_cons]
      omega

theorem Pos.advance_zero (p : Pos) : p.advance 0 = p := rfl

theorem Pos.advance_after : ∀ (n : Nat) (p : Pos), (p.advance n).after = p.after.drop n := by
  intro n
  induction n with
  | zero => intro p; rfl
  | succ n ih =>
    intro p
    obtain ⟨b, a, o⟩ := p
    cases a with
    | nil => simp [Pos.advance]
    | cons x t => simp [Pos.advance, ih]

theorem Pos.advance_before : ∀ (n : Nat) (p : Pos),
    (p.advance n).before = (p.after.take n).reverse ++ p.before := by
  intro n
  induction n with
  | zero => intro p; simp [Pos.advance]
  | succ n ih =>
    intro p
    obtain ⟨b, a, o⟩ := p
    cases a with
    | nil => simp [Pos.advance]
    | cons x t => simp [Pos.advance, ih]

theorem Pos.advance_off : ∀ (n : Nat) (p : Pos), n ≤ p.after.length →
    (p.advance n).off = p.off + n := by
  intro n
  induction n with
  | zero => intro p _; rfl
  | succ n ih =>
    intro p h
    obtain ⟨b, a, o⟩ := p
    cases a with
    | nil => simp at h
    | cons x t =>
      simp only [Pos.advance]
      rw [ih]
      · simp only; omega
      · simpa using h

theorem Pos.advance_advance : ∀ (a b : Nat) (p : Pos), a ≤ p.after.length →
    (p.advance a).advance b = p.advance (a + b) := by
  intro a
  induction a with
  | zero => intro b p _; simp [Pos.advance]
  | succ a ih =>
    intro b p h
    obtain ⟨bf, af, o⟩ := p
    cases af with
    | nil => simp at h
    | cons x t =>
      have : a + 1 + b = (a + b) + 1 := by omega
      rw [this]
      simp only [Pos.advance]
      exact ih _ _ (by simpa using h)

theorem Pos.Of.advance {s : Bytes} : ∀ (n : Nat) {p : Pos}, p.Of s → (p.advance n).Of s := by
  intro n
  induction n with
  | zero => intro p h; exact h
  | succ n ih =>
    intro p h
    obtain ⟨b, a, o⟩ := p
    cases a with
    | nil => exact h
    | cons x t =>
      simp only [Pos.advance]
      apply ih
      obtain ⟨h1, h2⟩ := h
      simp only at h1 h2
      exact ⟨by simpa using h1, by simp [h2]⟩

theorem Pos.Of.start (s : Bytes) : (Pos.start s).Of s := by simp [Pos.Of, Pos.start]

/-- a match ends at a position reached from its start by advancing over bytes that exist -/
theorem Matches.advance {re : Re} {p q : Pos} (h : Matches re p q) :
    ∃ n, n ≤ p.after.length ∧ q = p.advance n := by
  induction h with
  | empty p | bol _ | eol _ | bot _ | eot _ | wordB _ | noWordB _ | starNil p | questNil p =>
    exact ⟨0, Nat.zero_le _, rfl⟩
  | lit hd | cls hd _ | anyNL hd | anyNoNL hd _ => exact ⟨_, (decodeRune_width hd).2, rfl⟩
  | altL _ ih | altR _ ih | questSome _ ih | group _ ih => exact ih
  | cat _ _ ih1 ih2 | starCons _ _ ih1 ih2 | plus _ _ ih1 ih2 =>
    obtain ⟨n1, h1, rfl⟩ := ih1
    obtain ⟨n2, h2, rfl⟩ := ih2
    rw [Pos.advance_after, List.length_drop] at h2
    exact ⟨n1 + n2, by omega, Pos.advance_advance _ _ _ h1⟩

theorem Matches.off_le {re : Re} {p q : Pos} (h : Matches re p q) : p.off ≤ q.off := by
  obtain ⟨n, hn, rfl⟩ := h.advance
  rw [Pos.advance_off _ _ hn]; omega

theorem Matches.off_bound {re : Re} {p q : Pos} (h : Matches re p q) :
    q.off ≤ p.off + p.after.length := by
  obtain ⟨n, hn, rfl⟩ := h.advance
  rw [Pos.advance_off _ _ hn]; omega

/-- a match that does not move the offset does not move at all -/
theorem Matches.eq_of_off_eq {re : Re} {p q : Pos} (h : Matches re p q) (ho : q.off = p.off) :
    q = p := by
  obtain ⟨n, hn, rfl⟩ := h.advance
  rw [Pos.advance_off _ _ hn] at ho
  have : n = 0 := by omega
  subst this; rfl

theorem Matches.posOf {re : Re} {p q : Pos} {s : Bytes} (h : Matches re p q) (hp : p.Of s) :
    q.Of s := by
  obtain ⟨n, _, rfl⟩ := h.advance
  exact hp.advance n

theorem RuneReach.trans {p q r : Pos} (h1 : RuneReach p q) (h2 : RuneReach q r) :
    RuneReach p r := by
  induction h1 with
  | refl => exact h2
  | step hd _ ih => exact .step hd (ih h2)

/-- matches begin and end on rune boundaries (relative to their start) -/
theorem Matches.runeReach {re : Re} {p q : Pos} (h : Matches re p q) : RuneReach p q := by
  induction h with
  | empty p | bol _ | eol _ | bot _ | eot _ | wordB _ | noWordB _ | starNil p | questNil p =>
    exact .refl _
  | lit hd | cls hd _ | anyNL hd | anyNoNL hd _ => exact .step hd (.refl _)
  | altL _ ih | altR _ ih | questSome _ ih | group _ ih => exact ih
  | cat _ _ ih1 ih2 | starCons _ _ ih1 ih2 | plus _ _ ih1 ih2 => exact ih1.trans ih2

theorem RuneReach.advance {p q : Pos} (h : RuneReach p q) :
    ∃ n, n ≤ p.after.length ∧ q = p.advance n := by
  induction h with
  | refl p => exact ⟨0, Nat.zero_le _, rfl⟩
  | @step p q r w hd _ ih =>
    obtain ⟨n2, h2, rfl⟩ := ih
    have hw := (decodeRune_width hd).2
    rw [Pos.advance_after, List.length_drop] at h2
    exact ⟨w + n2, by omega, Pos.advance_advance _ _ _ hw⟩

theorem RuneReach.posOf {p q : Pos} {s : Bytes} (h : RuneReach p q) (hp : p.Of s) : q.Of s := by
  obtain ⟨n, _, rfl⟩ := h.advance
  exact hp.advance n

theorem RuneReach.off_le {p q : Pos} (h : RuneReach p q) : p.off ≤ q.off := by
  obtain ⟨n, hn, rfl⟩ := h.advance
  rw [Pos.advance_off _ _ hn]; omega

/-! ## search, find, isMatch: soundness -/

theorem searchFrom_sound {re : Re} {fuel : Nat} : ∀ (n : Nat) (p : Pos) {a : Nat} {e : Pos} {c : Caps},
    searchFrom re fuel n p = some (a, e, c) →
    ∃ p', RuneReach p p' ∧ a = p'.off ∧ matchAt re fuel p' = some (e, c) := by
  intro n
  induction n with
  | zero => intro p a e c h; simp [searchFrom] at h
  | succ n ih =>
    intro p a e c h
    simp only [searchFrom] at h
    split at h
    · rename_i e' c' hm
      simp only [Option.some.injEq, Prod.mk.injEq] at h
      obtain ⟨rfl, rfl, rfl⟩ := h
      exact ⟨p, .refl p, rfl, hm⟩
    · split at h
      · cases h
      · rename_i r w hd
        obtain ⟨p', hr, ha, hm⟩ := ih _ h
        exact ⟨p', .step hd hr, ha, hm⟩

/-- `find` reports `(a, e)` only if the regex matches `s` from a rune-boundary position at offset
`a` to a position at offset `e`. -/
theorem find_sound {re : Re} {s : Bytes} {a e : Nat} {c : Caps} (h : find re s = some (a, e, c)) :
    ∃ p q, RuneReach (Pos.start s) p ∧ p.Of s ∧ q.Of s ∧ p.off = a ∧ q.off = e ∧ Matches re p q := by
  unfold find at h
  simp only [Option.map_eq_some_iff] at h
  obtain ⟨⟨a', q, c'⟩, hs, heq⟩ := h
  simp only [Prod.mk.injEq] at heq
  obtain ⟨rfl, rfl, rfl⟩ := heq
  obtain ⟨p, hr, ha, hm⟩ := searchFrom_sound _ _ hs
  have hM := matchAt_sound hm
  have hp := hr.posOf (Pos.Of.start s)
  exact ⟨p, q, hr, hp, hM.posOf hp, ha.symm, rfl, hM⟩

/-- `isMatch` soundness: a reported match is a real one. -/
theorem isMatch_sound {re : Re} {s : Bytes} (h : isMatch re s = true) :
    ∃ p q, RuneReach (Pos.start s) p ∧ p.Of s ∧ q.Of s ∧ Matches re p q := by
  unfold isMatch at h
  rw [Option.isSome_iff_exists] at h
  obtain ⟨⟨a, e, c⟩, h⟩ := h
  obtain ⟨p, q, hr, hp, hq, _, _, hM⟩ := find_sound h
  exact ⟨p, q, hr, hp, hq, hM⟩

/-! ## findAll spans and replaceAll -/

theorem Pos.advance_total : ∀ (n : Nat) (p : Pos),
    (p.advance n).off + (p.advance n).after.length = p.off + p.after.length := by
  intro n
  induction n with
  | zero => intro p; rfl
  | succ n ih =>
    intro p
    obtain ⟨b, a, o⟩ := p
    cases a with
    | nil => rfl
    | cons x t =>
      simp only [Pos.advance]
      rw [ih]
      simp only [List.length_cons]; omega

theorem SpansIn.mono {B : Nat} {cur cur' : Nat} {ms : List (Nat × Nat × Caps)} (h : cur' ≤ cur)
    (hs : SpansIn B cur ms) : SpansIn B cur' ms := by
  cases ms with
  | nil => trivial
  | cons x t =>
    obtain ⟨a, e, c⟩ := x
    obtain ⟨h1, h2, h3, h4⟩ := hs
    exact ⟨by omega, h2, h3, h4⟩

theorem searchFrom_span {re : Re} {fuel n : Nat} {p : Pos} {a : Nat} {e : Pos} {c : Caps}
    (h : searchFrom re fuel n p = some (a, e, c)) :
    p.off ≤ a ∧ a ≤ e.off ∧ e.off + e.after.length = p.off + p.after.length := by
  obtain ⟨p', hr, ha, hm⟩ := searchFrom_sound _ _ h
  have hM := matchAt_sound hm
  subst ha
  refine ⟨hr.off_le, hM.off_le, ?_⟩
  obtain ⟨n1, _, rfl⟩ := hr.advance
  obtain ⟨n2, _, rfl⟩ := hM.advance
  rw [Pos.advance_total, Pos.advance_total]

theorem findAllAux_spans {re : Re} {fuel B : Nat} : ∀ (n : Nat) (p : Pos) (prev : Option Nat),
    p.off + p.after.length = B → SpansIn B p.off (findAllAux re fuel n p prev) := by
  intro n
  induction n with
  | zero => intro p prev _; simp [findAllAux, SpansIn]
  | succ n ih =>
    intro p prev hB
    simp only [findAllAux]
    split
    · trivial
    · rename_i a e c hs
      obtain ⟨h1, h2, h3⟩ := searchFrom_span hs
      have heB : e.off ≤ B := by omega
      split
      · -- empty match
        have hrest : SpansIn B e.off (match (match decodeRune e.after with
              | none => none
              | some (_, w) => some (e.advance w)) with
            | none => []
            | some np => findAllAux re fuel n np (some e.off)) := by
          split
          · trivial
          · rename_i np hnp
            split at hnp
            · cases hnp
            · rename_i r w hd
              cases hnp
              have hw := (decodeRune_width hd).2
              have := ih (e.advance w) (some e.off) (by rw [Pos.advance_total]; omega)
              exact this.mono (by rw [Pos.advance_off _ _ hw]; omega)
        split
        · exact hrest.mono (by omega)
        · exact ⟨h1, h2, heB, hrest⟩
      · exact ⟨h1, h2, heB, ih e (some e.off) (by omega)⟩

/-- The spans `findAll` reports are in order, non-overlapping and inside the subject. -/
theorem findAll_spans (re : Re) (s : Bytes) : SpansIn s.length 0 (findAll re s) := by
  unfold findAll
  exact findAllAux_spans _ (Pos.start s) none (by simp [Pos.start])

theorem replaceAll_go_sublist (s : Bytes) {B : Nat} : ∀ (ms : List (Nat × Nat × Caps)) (cur : Nat),
    SpansIn B cur ms → (replaceAll.go s [] ms cur).Sublist (s.drop cur) := by
  intro ms
  induction ms with
  | nil => intro cur _; simp [replaceAll.go]
  | cons x t ih =>
    intro cur h
    obtain ⟨a, e, c⟩ := x
    obtain ⟨h1, h2, _, h4⟩ := h
    simp only [replaceAll.go, List.append_nil]
    have hsplit : s.drop cur = (s.drop cur).take (a - cur) ++ s.drop a := by
      have := (List.take_append_drop (a - cur) (s.drop cur)).symm
      rw [List.drop_drop] at this
      have h' : cur + (a - cur) = a := by omega
      rw [h'] at this
      exact this
    have htail : (s.drop e).Sublist (s.drop a) := by
      have : s.drop e = (s.drop a).drop (e - a) := by
        rw [List.drop_drop]; congr 1; omega
      rw [this]; exact List.drop_sublist _ _
    have := List.Sublist.append (List.Sublist.refl ((s.drop cur).take (a - cur)))
      ((ih e h4).trans htail)
    rw [← hsplit] at this
    exact this

/-- Deleting all matches only removes bytes. -/
theorem replaceAll_nil_sublist (re : Re) (s : Bytes) : (replaceAll re s []).Sublist s := by
  unfold replaceAll
  simpa using replaceAll_go_sublist s _ 0 (findAll_spans re s)

/-! ## line patterns -/

theorem decodeRune_noLF {s : Bytes} {r w : Nat} (h : decodeRune s = some (r, w)) (hr : r ≠ 10) :
    ∀ b ∈ s.take w, b ≠ LF := by
  have e : ∀ x : UInt8, LF = x → x.toNat = 10 := by intro x h; subst h; rfl
  unfold decodeRune at h
  split at h
  · cases h
  · rename_i b0 t
    simp only at h
    repeat' split at h
    all_goals
      simp only [Option.some.injEq, Prod.mk.injEq] at h
      obtain ⟨rfl, rfl⟩ := h
      intro b hb hLF
      subst hLF
      simp only [List.take_succ_cons, List.take_zero, List.mem_cons, List.not_mem_nil, or_false] at hb
      try simp only [Bool.and_eq_true, decide_eq_true_eq] at *
      first
      | (have := e _ hb; omega)
      | (rcases hb with hb | hb <;> have := e _ hb <;> omega)
      | (rcases hb with hb | hb | hb <;> have := e _ hb <;> omega)
      | (rcases hb with hb | hb | hb | hb <;> have := e _ hb <;> omega)

theorem Pos.span_self (p : Pos) : p.span p = [] := by simp [Pos.span]

theorem Pos.span_advance {p : Pos} {n : Nat} (h : n ≤ p.after.length) :
    p.span (p.advance n) = p.after.take n := by
  simp [Pos.span, Pos.advance_off _ _ h]

theorem Pos.span_append {p : Pos} {n1 n2 : Nat} (h1 : n1 ≤ p.after.length)
    (h2 : n2 ≤ (p.advance n1).after.length) :
    p.span ((p.advance n1).advance n2) = p.span (p.advance n1) ++ (p.advance n1).span ((p.advance n1).advance n2) := by
  rw [Pos.span_advance h2, Pos.span_advance h1, Pos.advance_advance _ _ _ h1, Pos.span_advance,
    Pos.advance_after, List.take_add]
  rw [Pos.advance_after, List.length_drop] at h2
  omega

theorem Matches.span_append {a b : Re} {p q r : Pos} (h1 : Matches a p q) (h2 : Matches b q r) :
    p.span r = p.span q ++ q.span r := by
  obtain ⟨n1, hn1, rfl⟩ := h1.advance
  obtain ⟨n2, hn2, rfl⟩ := h2.advance
  exact Pos.span_append hn1 hn2

theorem inRanges_noLF {r : Nat} {rs : List (Nat × Nat)} (h : inRanges r rs = true)
    (hn : inRanges 10 rs = false) : r ≠ 10 := by
  intro h10; subst h10; rw [h] at hn; cases hn

/-- A regex without `(?s).`, `\n` literals and classes containing `\n` never consumes a line feed. -/
theorem Matches.noLF_span {re : Re} {p q : Pos} (h : Matches re p q) (hn : re.noLF = true) :
    ∀ b ∈ p.span q, b ≠ LF := by
  induction h with
  | empty p | bol _ | eol _ | bot _ | eot _ | wordB _ | noWordB _ | starNil p | questNil p =>
    simp [Pos.span_self]
  | lit hd =>
    rw [Pos.span_advance (decodeRune_width hd).2]
    exact decodeRune_noLF hd (by simpa [Re.noLF] using hn)
  | cls hd hr =>
    rw [Pos.span_advance (decodeRune_width hd).2]
    exact decodeRune_noLF hd (inRanges_noLF hr (by simpa [Re.noLF] using hn))
  | anyNL hd => simp [Re.noLF] at hn
  | anyNoNL hd hr =>
    rw [Pos.span_advance (decodeRune_width hd).2]
    exact decodeRune_noLF hd hr
  | altL _ ih => simp only [Re.noLF, Bool.and_eq_true] at hn; exact ih hn.1
  | altR _ ih => simp only [Re.noLF, Bool.and_eq_true] at hn; exact ih hn.2
  | questSome _ ih | group _ ih => exact ih (by simpa [Re.noLF] using hn)
  | cat h1 h2 ih1 ih2 =>
    simp only [Re.noLF, Bool.and_eq_true] at hn
    rw [h1.span_append h2]
    intro b hb
    rcases List.mem_append.mp hb with hb | hb
    · exact ih1 hn.1 b hb
    · exact ih2 hn.2 b hb
  | starCons h1 h2 ih1 ih2 =>
    rw [h1.span_append h2]
    intro b hb
    rcases List.mem_append.mp hb with hb | hb
    · exact ih1 (by simpa [Re.noLF] using hn) b hb
    · exact ih2 hn b hb
  | plus h1 h2 ih1 ih2 =>
    rw [h1.span_append h2]
    intro b hb
    rcases List.mem_append.mp hb with hb | hb
    · exact ih1 (by simpa [Re.noLF] using hn) b hb
    · exact ih2 (by simpa [Re.noLF] using hn) b hb

/-- Relation level: a match of `(?m)^body$` whose body cannot consume a line feed is exactly one
whole line: it starts at a line start, ends at a line end and contains no line feed. -/
theorem Matches.line {body : Re} {p q : Pos} (h : Matches (.cat .bol (.cat body .eol)) p q)
    (hn : body.noLF = true) : p.atBol = true ∧ q.atEol = true ∧ ∀ b ∈ p.span q, b ≠ LF := by
  cases h with
  | cat h1 h2 =>
    cases h1 with
    | bol hb =>
      cases h2 with
      | cat h3 h4 =>
        cases h4 with
        | eol he => exact ⟨hb, he, h3.noLF_span hn⟩

/-- the text of a position pair of `s`, cut into before / between / after -/
theorem Pos.Of.split {s : Bytes} {p : Pos} {n : Nat} (hp : p.Of s) (hn : n ≤ p.after.length) :
    s = p.before.reverse ++ p.span (p.advance n) ++ (p.advance n).after := by
  rw [Pos.span_advance hn, Pos.advance_after, List.append_assoc, List.take_append_drop]
  exact hp.1.symm

theorem splitLF_ne_nil' (b : Bytes) : splitLF b ≠ [] := by
  cases b with
  | nil => simp [splitLF]
  | cons x t =>
    simp only [splitLF]
    split
    · simp
    · split <;> simp

theorem splitLF_append_LF (x y : Bytes) : splitLF (x ++ LF :: y) = splitLF x ++ splitLF y := by
  induction x with
  | nil =>
    simp only [List.nil_append, splitLF]
    split
    · rename_i h; exact absurd h (splitLF_ne_nil' y)
    · rename_i l ls h; simp [h]
  | cons b x ih =>
    simp only [List.cons_append, splitLF, ih]
    cases hx : splitLF x with
    | nil => exact absurd hx (splitLF_ne_nil' x)
    | cons l ls =>
      simp only [List.cons_append]
      split <;> simp

theorem splitLF_noLF {l : Bytes} (h : ∀ b ∈ l, b ≠ LF) : splitLF l = [l] := by
  induction l with
  | nil => rfl
  | cons b t ih =>
    have hb : b ≠ LF := h b (by simp)
    simp only [splitLF, ih (fun x hx => h x (by simp [hx]))]
    simp [hb]

/-- a piece of text delimited by line feeds / text ends and free of line feeds is one of the lines -/
theorem mem_splitLF_of_delimited {pre line post : Bytes} (hl : ∀ b ∈ line, b ≠ LF)
    (hpre : pre = [] ∨ ∃ pre', pre = pre' ++ [LF]) (hpost : post = [] ∨ ∃ post', post = LF :: post') :
    line ∈ splitLF (pre ++ line ++ post) := by
  have hmid : line ∈ splitLF (line ++ post) := by
    rcases hpost with rfl | ⟨post', rfl⟩
    · simp [splitLF_noLF hl]
    · simp [splitLF_append_LF, splitLF_noLF hl]
  rcases hpre with rfl | ⟨pre', rfl⟩
  · simpa using hmid
  · have : pre' ++ [LF] ++ line ++ post = pre' ++ LF :: (line ++ post) := by simp
    rw [this, splitLF_append_LF]
    exact List.mem_append_right _ hmid

/-- **Line patterns are line-local.** If `find` reports a match `(a, e)` of `(?m)^body$` where
`body` cannot consume a line feed, then `s[a:e]` is exactly one complete line of `s`. -/
theorem find_line {body : Re} {s : Bytes} {a e : Nat} {c : Caps} (hn : body.noLF = true)
    (h : find (.cat .bol (.cat body .eol)) s = some (a, e, c)) :
    ∃ pre line post, s = pre ++ line ++ post ∧ a = pre.length ∧ e = pre.length + line.length ∧
      (∀ b ∈ line, b ≠ LF) ∧ (pre = [] ∨ ∃ pre', pre = pre' ++ [LF]) ∧
      (post = [] ∨ ∃ post', post = LF :: post') := by
  obtain ⟨p, q, _, hp, _, ha, he, hM⟩ := find_sound h
  obtain ⟨hbol, heol, hlf⟩ := hM.line hn
  obtain ⟨n, hnl, rfl⟩ := hM.advance
  refine ⟨p.before.reverse, p.span (p.advance n), (p.advance n).after, hp.split hnl, ?_, ?_, hlf, ?_, ?_⟩
  · rw [← ha, hp.2]; simp
  · rw [← he, Pos.advance_off _ _ hnl, hp.2, Pos.span_advance hnl]
    simp [Nat.min_eq_left hnl]
  · unfold Pos.atBol at hbol
    split at hbol
    · rename_i hb; left; simp [hb]
    · rename_i b t hb
      right
      have : b = LF := by simpa using hbol
      subst this
      exact ⟨t.reverse, by simp [hb]⟩
  · unfold Pos.atEol at heol
    split at heol
    · rename_i hb; left; exact hb
    · rename_i b t hb
      right
      have : b = LF := by simpa using heol
      subst this
      exact ⟨t, hb⟩

/-! ## completeness -/

theorem Re.need_pos (re : Re) (n : Nat) : 1 ≤ re.need n := by
  cases re <;> simp only [Re.need] <;> omega

theorem Re.need_mono (re : Re) {n n' : Nat} (h : n ≤ n') : re.need n ≤ re.need n' := by
  induction re with
  | cat a b iha ihb | alt a b iha ihb => simp only [Re.need]; omega
  | star r g ih | plus r g ih | quest r g ih => simp only [Re.need]; omega
  | group i r ih => simp only [Re.need]; omega
  | _ => simp [Re.need]

theorem Matches.total {re : Re} {p q : Pos} (h : Matches re p q) :
    q.off + q.after.length = p.off + p.after.length := by
  obtain ⟨n, _, rfl⟩ := h.advance
  exact Pos.advance_total n p

theorem Matches.after_le {re : Re} {p q : Pos} (h : Matches re p q) :
    q.after.length ≤ p.after.length := by
  have := h.total; have := h.off_le; omega

/-- Engine completeness, continuation form: if the relation allows a match from `p` to `q`, the
continuation accepts `q` (whatever the captures) and the fuel covers `Re.need`, the engine finds
some match (not necessarily the one ending at `q`: priorities decide). Empty star iterations, which
the engine refuses (`p'.off == p.off → none`), are dropped from the derivation. -/
theorem m_complete {re : Re} {p q : Pos} (h : Matches re p q) :
    ∀ (f : Nat), re.need p.after.length ≤ f → ∀ (c : Caps) (k : Pos → Caps → Option (Pos × Caps)),
      (∀ c', (k q c').isSome = true) → (m f re p c k).isSome = true := by
  induction h with
  | empty p =>
    intro f hf c k hk
    cases f with
    | zero => simp [Re.need] at hf
    | succ f => simp only [m]; exact hk c
  | lit hd =>
    intro f hf c k hk
    cases f with
    | zero => simp [Re.need] at hf
    | succ f => simp only [m, hd, beq_self_eq_true, if_true]; exact hk c
  | cls hd hr =>
    intro f hf c k hk
    cases f with
    | zero => simp [Re.need] at hf
    | succ f => simp only [m, hd, hr, if_true]; exact hk c
  | anyNL hd =>
    intro f hf c k hk
    cases f with
    | zero => simp [Re.need] at hf
    | succ f => simp only [m, hd]; exact hk c
  | anyNoNL hd hr =>
    intro f hf c k hk
    cases f with
    | zero => simp [Re.need] at hf
    | succ f =>
      simp only [m, hd]
      rw [if_neg (by simpa using hr)]; exact hk c
  | bol hb =>
    intro f hf c k hk
    cases f with
    | zero => simp [Re.need] at hf
    | succ f =>
      simp only [m]
      unfold Pos.atBol at hb
      split
      · exact hk c
      · rename_i b t hbt
        rw [hbt] at hb
        simp only at hb
        rw [if_pos hb]; exact hk c
  | eol hb =>
    intro f hf c k hk
    cases f with
    | zero => simp [Re.need] at hf
    | succ f =>
      simp only [m]
      unfold Pos.atEol at hb
      split
      · exact hk c
      · rename_i b t hbt
        rw [hbt] at hb
        simp only at hb
        rw [if_pos hb]; exact hk c
  | bot hb =>
    intro f hf c k hk
    cases f with
    | zero => simp [Re.need] at hf
    | succ f =>
      simp only [m]
      unfold Pos.atBot at hb
      split
      · exact hk c
      · rename_i b t hbt
        rw [hbt] at hb
        cases hb
  | eot hb =>
    intro f hf c k hk
    cases f with
    | zero => simp [Re.need] at hf
    | succ f =>
      simp only [m]
      unfold Pos.atEot at hb
      split
      · exact hk c
      · rename_i b t hbt
        rw [hbt] at hb
        cases hb
  | wordB hw =>
    intro f hf c k hk
    cases f with
    | zero => simp [Re.need] at hf
    | succ f => simp only [m, hw, if_true]; exact hk c
  | noWordB hw =>
    intro f hf c k hk
    cases f with
    | zero => simp [Re.need] at hf
    | succ f => simp only [m, hw, Bool.false_eq_true, if_false]; exact hk c
  | @cat a b p q r h1 h2 ih1 ih2 =>
    intro f hf c k hk
    cases f with
    | zero => simp [Re.need] at hf
    | succ f =>
      simp only [m]
      simp only [Re.need] at hf
      apply ih1 f (by omega)
      intro c'
      have := b.need_mono h1.after_le
      exact ih2 f (by omega) c' k hk
  | @altL a b p q h ih =>
    intro f hf c k hk
    cases f with
    | zero => simp [Re.need] at hf
    | succ f =>
      simp only [m]
      simp only [Re.need] at hf
      have := ih f (by omega) c k hk
      split
      · rfl
      · rename_i hnone; rw [hnone] at this; cases this
  | @altR a b p q h ih =>
    intro f hf c k hk
    cases f with
    | zero => simp [Re.need] at hf
    | succ f =>
      simp only [m]
      simp only [Re.need] at hf
      split
      · rfl
      · exact ih f (by omega) c k hk
  | @starNil r g p =>
    intro f hf c k hk
    cases f with
    | zero => simp only [Re.need] at hf; omega
    | succ f =>
      simp only [m]
      have hk' := hk c
      cases g
      · simp only [Bool.false_eq_true, if_false]
        split
        · rfl
        · rename_i hnone; rw [hnone] at hk'; cases hk'
      · simp only [if_true]
        split
        · rfl
        · exact hk'
  | @starCons r g p q s h1 h2 ih1 ih2 =>
    intro f hf c k hk
    cases f with
    | zero => simp only [Re.need] at hf; omega
    | succ f =>
      by_cases ho : q.off = p.off
      · have := h1.eq_of_off_eq ho
        subst this
        exact ih2 (f + 1) hf c k hk
      · simp only [m]
        simp only [Re.need] at hf
        have hloop : (m f r p c (fun p' c' => if (p'.off == p.off) = true then none
              else m f (.star r g) p' c' k)).isSome = true := by
          apply ih1 f (by omega)
          intro c'
          rw [if_neg (by simpa using ho)]
          apply ih2 f ?_ c' k hk
          have h3 := h1.total
          have h4 := h1.off_le
          have hlt : q.after.length < p.after.length := by omega
          have := r.need_mono (Nat.le_of_lt hlt)
          simp only [Re.need]; omega
        cases g
        · simp only [Bool.false_eq_true, if_false]
          split
          · rfl
          · exact hloop
        · simp only [if_true]
          split
          · rfl
          · rename_i hnone; rw [hnone] at hloop; cases hloop
  | @plus r g p q s h1 h2 ih1 ih2 =>
    intro f hf c k hk
    simp only [Re.need] at hf
    match f, hf with
    | f + 2, hf =>
      simp only [m]
      apply ih1 f (by omega)
      intro c'
      have := r.need_mono h1.after_le
      have := h1.after_le
      exact ih2 f (by simp only [Re.need]; omega) c' k hk
  | @questNil r g p =>
    intro f hf c k hk
    cases f with
    | zero => simp only [Re.need] at hf; omega
    | succ f =>
      simp only [m]
      have hk' := hk c
      cases g
      · simp only [Bool.false_eq_true, if_false]
        split
        · rfl
        · rename_i hnone; rw [hnone] at hk'; cases hk'
      · simp only [if_true]
        split
        · rfl
        · exact hk'
  | @questSome r g p q h ih =>
    intro f hf c k hk
    cases f with
    | zero => simp only [Re.need] at hf; omega
    | succ f =>
      simp only [m]
      simp only [Re.need] at hf
      have hr := ih f (by omega) c k hk
      cases g
      · simp only [Bool.false_eq_true, if_false]
        split
        · rfl
        · exact hr
      · simp only [if_true]
        split
        · rfl
        · rename_i hnone; rw [hnone] at hr; cases hr
  | @group i r p q h ih =>
    intro f hf c k hk
    cases f with
    | zero => simp only [Re.need] at hf; omega
    | succ f =>
      simp only [m]
      simp only [Re.need] at hf
      exact ih f (by omega) c _ (fun c' => hk _)


/-- `matchAt` completeness: with enough fuel, whenever the relation allows some match from `p`,
the engine reports a match from `p`. -/
theorem matchAt_complete {re : Re} {p q : Pos} {fuel : Nat} (h : Matches re p q)
    (hf : re.need p.after.length ≤ fuel) : (matchAt re fuel p).isSome = true :=
  m_complete h fuel hf [] _ (fun _ => rfl)

/-- `matchAt` is exact on "does some match start here". -/
theorem matchAt_isSome_iff {re : Re} {p : Pos} {fuel : Nat} (hf : re.need p.after.length ≤ fuel) :
    (matchAt re fuel p).isSome = true ↔ ∃ q, Matches re p q := by
  constructor
  · intro h
    rw [Option.isSome_iff_exists] at h
    obtain ⟨⟨q, c⟩, h⟩ := h
    exact ⟨q, matchAt_sound h⟩
  · rintro ⟨q, h⟩
    exact matchAt_complete h hf

theorem RuneReach.after_le {p q : Pos} (h : RuneReach p q) : q.after.length ≤ p.after.length := by
  obtain ⟨n, _, rfl⟩ := h.advance
  rw [Pos.advance_after, List.length_drop]; omega

theorem searchFrom_complete {re : Re} {fuel : Nat} {p p' : Pos} (hr : RuneReach p p')
    (hm : (matchAt re fuel p').isSome = true) :
    ∀ n, p.after.length < n → (searchFrom re fuel n p).isSome = true := by
  induction hr with
  | refl p =>
    intro n hn
    cases n with
    | zero => omega
    | succ n =>
      simp only [searchFrom]
      split
      · rfl
      · rename_i hnone; rw [hnone] at hm; cases hm
  | @step p q r w hd _ ih =>
    intro n hn
    cases n with
    | zero => omega
    | succ n =>
      simp only [searchFrom]
      split
      · rfl
      · simp only [hd]
        apply ih hm
        have := decodeRune_width hd
        rw [Pos.advance_after, List.length_drop]; omega

theorem Re.need_le_size (re : Re) (n : Nat) : re.need n ≤ re.size * (n + 3) := by
  induction re with
  | cat a b iha ihb | alt a b iha ihb =>
    simp only [Re.need, Re.size, Nat.add_mul, Nat.one_mul]; omega
  | star r g ih | plus r g ih | quest r g ih =>
    simp only [Re.need, Re.size, Nat.add_mul, Nat.one_mul]; omega
  | group i r ih => simp only [Re.need, Re.size, Nat.add_mul, Nat.one_mul]; omega
  | _ => simp only [Re.need, Re.size, Nat.one_mul]; omega

/-- the fuel `find` / `findAll` use covers `Re.need` at every position of the subject -/
theorem fuelFor_ge_need (re : Re) (s : Bytes) {n : Nat} (h : n ≤ s.length) :
    re.need n ≤ fuelFor re s := by
  have h1 := re.need_mono h
  have h2 := re.need_le_size s.length
  have h3 : re.size * (s.length + 3) ≤ (re.size + 2) * (s.length + 2) * 4 := by
    rw [Nat.mul_assoc]
    exact Nat.mul_le_mul (by omega) (by omega)
  unfold fuelFor; omega

/-- `isMatch` completeness: a match of the relation starting at a rune-boundary position of `s`
makes `isMatch` true. -/
theorem isMatch_complete {re : Re} {s : Bytes} {p q : Pos} (hr : RuneReach (Pos.start s) p)
    (h : Matches re p q) : isMatch re s = true := by
  unfold isMatch find
  rw [Option.isSome_map]
  have hle : p.after.length ≤ s.length := by simpa [Pos.start] using hr.after_le
  exact searchFrom_complete hr (matchAt_complete h (fuelFor_ge_need re s hle)) _
    (by simp [Pos.start])

/-- **`isMatch` is exactly "some substring (between rune boundaries) matches".** -/
theorem isMatch_iff (re : Re) (s : Bytes) :
    isMatch re s = true ↔ ∃ p q, RuneReach (Pos.start s) p ∧ Matches re p q := by
  constructor
  · intro h
    obtain ⟨p, q, hr, _, _, hM⟩ := isMatch_sound h
    exact ⟨p, q, hr, hM⟩
  · rintro ⟨p, q, hr, hM⟩
    exact isMatch_complete hr hM

/-! ## leftmost -/

theorem searchFrom_skipped {re : Re} {fuel : Nat} : ∀ (n : Nat) (p : Pos) {a : Nat} {e : Pos} {c : Caps},
    searchFrom re fuel n p = some (a, e, c) →
    ∀ p', RuneReach p p' → p'.off < a → matchAt re fuel p' = none := by
  intro n
  induction n with
  | zero => intro p a e c h; simp [searchFrom] at h
  | succ n ih =>
    intro p a e c h p' hr hlt
    simp only [searchFrom] at h
    split at h
    · simp only [Option.some.injEq, Prod.mk.injEq] at h
      obtain ⟨rfl, _, _⟩ := h
      have := hr.off_le
      omega
    · rename_i hnone
      split at h
      · cases h
      · rename_i r w hd
        cases hr with
        | refl => exact hnone
        | step hd' hr' =>
          rw [hd] at hd'
          simp only [Option.some.injEq, Prod.mk.injEq] at hd'
          obtain ⟨_, rfl⟩ := hd'
          exact ih _ h p' hr' hlt

/-- **Leftmost.** The match `find` reports starts at the smallest rune-boundary offset at which
the relation allows any match. -/
theorem find_leftmost {re : Re} {s : Bytes} {a e : Nat} {c : Caps} (h : find re s = some (a, e, c))
    {p q : Pos} (hr : RuneReach (Pos.start s) p) (hM : Matches re p q) : a ≤ p.off := by
  unfold find at h
  simp only [Option.map_eq_some_iff] at h
  obtain ⟨⟨a', q', c'⟩, hs, heq⟩ := h
  simp only [Prod.mk.injEq] at heq
  obtain ⟨rfl, _, _⟩ := heq
  by_cases hlt : p.off < a'
  · have hnone := searchFrom_skipped _ _ hs p hr hlt
    have hle : p.after.length ≤ s.length := by simpa [Pos.start] using hr.after_le
    have := matchAt_complete hM (fuelFor_ge_need re s hle)
    rw [hnone] at this
    cases this
  · omega

/-- `find` fails exactly when no span matches. -/
theorem find_eq_none_iff (re : Re) (s : Bytes) :
    find re s = none ↔ ¬ ∃ p q, RuneReach (Pos.start s) p ∧ Matches re p q := by
  rw [← isMatch_iff]
  unfold isMatch
  cases find re s <;> simp

end Scrapli.Rx
