import ScrapliModel.Lemmas.Queue
/-!
# The small-step programs, run by one goroutine alone, compute the sequential functions

This ties the two presentations of the Go methods in `ScrapliModel/Queue.lean` to each other: the
`Seq` functions (which the differential run executes against the real `util.Queue`) and the
`Conc` step programs (which the concurrency theorems are about).
-/
namespace Scrapli.Queue.Conc

/-- the shared struct inside a global state -/
def St.toQ (s : St) : Q :=
  { queue := s.queue, depth := s.depth, token := s.token, locked := s.lock.isSome }

def Ret.out : Ret → Out
  | .deq r => .bytes r
  | .deqAll r => .bytes (r.map List.flatten)
  | .req _ => .unit
  | .depth d => .num d

def Call.op : Call → Op
  | .dequeue => .deq
  | .dequeueAll => .deqAll
  | .requeue b => .req b
  | .getDepth => .depth

/-- `n` consecutive consumer steps (no producer step in between) -/
def iterC (call : Call) : Nat → St → Option St
  | 0, s => some s
  | n + 1, s => (stepC s call).bind (iterC call n)

/-- `n` consecutive producer steps -/
def iterP (b : Bytes) : Nat → St → Option St
  | 0, s => some s
  | n + 1, s => (stepP s b).bind (iterP b n)

private def holds {α : Type} (o : Option α) (p : α → Prop) : Prop :=
  match o with
  | some a => p a
  | none => False

private theorem holds_elim {α : Type} {o : Option α} {p : α → Prop} (h : holds o p) :
    ∃ a, o = some a ∧ p a := by
  cases o with
  | none => exact h.elim
  | some a => exact ⟨a, rfl, h⟩

/-- what a completed solo call must look like, relative to the sequential function -/
def SoloC (s : St) (call : Call) (s' : St) : Prop :=
  s'.cpc = .idle ∧ s'.ppc = s.ppc ∧ s'.produced = s.produced ∧
    ∃ r, s'.rets = s.rets ++ [r] ∧ Seq.apply call.op s.toQ = .ok (r.out, s'.toQ)

def SoloP (s : St) (b : Bytes) (s' : St) : Prop :=
  s'.ppc = .idle ∧ s'.cpc = s.cpc ∧ s'.rets = s.rets ∧ s'.produced = s.produced ++ [b] ∧
    Seq.apply (.enq b) s.toQ = .ok (.unit, s'.toQ)

/-- From a state between calls (slice = `l`, depth and token = `|l|`, lock free), the consumer
running alone completes any call in finitely many steps, returns what the sequential function
returns and leaves the struct the sequential function leaves. -/
theorem solo_consumer (s : St) (l : List Bytes) (call : Call)
    (hq : Abs s.toQ l) (hc : s.cpc = .idle) :
    ∃ n s', iterC call n s = some s' ∧ SoloC s call s' := by
  suffices h : ∃ n, holds (iterC call n s) (SoloC s call) by
    obtain ⟨n, hn⟩ := h
    exact ⟨n, holds_elim hn⟩
  obtain ⟨queue, depth, token, lock, ppc, cpc, produced, clog, rets⟩ := s
  obtain ⟨h1, h2, h3, h4⟩ := hq
  simp only [St.toQ] at h1 h2 h3 h4
  simp only at hc
  cases lock with
  | some w => simp at h4
  | none =>
  subst h1 h2 h3 hc
  cases call with
  | dequeue =>
    cases queue with
    | nil =>
      refine ⟨4, ?_⟩
      simp [holds, SoloC, iterC, stepC, St.toQ, Call.op, Ret.out, Seq.apply, Seq.dequeue, Seq.getDepthTok,
          Seq.recvTok, Seq.sendTok, bind, Except.bind, pure, Except.pure]
    | cons x xs =>
      have hne : ((xs.length : Int) + 1 = 0) = False := by
        apply propext; constructor
        · intro h; omega
        · intro h; exact h.elim
      refine ⟨12, ?_⟩
      simp [holds, SoloC, iterC, stepC, St.toQ, Call.op, Ret.out, Seq.apply, Seq.dequeue, Seq.getDepthTok, Seq.lock,
          Seq.unlock, Seq.republish, Seq.recvTok, Seq.sendTok, bind, Except.bind, pure, Except.pure, hne]
  | dequeueAll =>
    cases queue with
    | nil =>
      refine ⟨4, ?_⟩
      simp [holds, SoloC, iterC, stepC, St.toQ, Call.op, Ret.out, Seq.apply, Seq.dequeueAll, Seq.getDepthTok,
          Seq.recvTok, Seq.sendTok, bind, Except.bind, pure, Except.pure]
    | cons x xs =>
      have hne : ((xs.length : Int) + 1 = 0) = False := by
        apply propext; constructor
        · intro h; omega
        · intro h; exact h.elim
      refine ⟨11, ?_⟩
      simp [holds, SoloC, iterC, stepC, St.toQ, Call.op, Ret.out, Seq.apply, Seq.dequeueAll, Seq.getDepthTok, Seq.lock,
          Seq.unlock, Seq.republish, Seq.recvTok, Seq.sendTok, bind, Except.bind, pure, Except.pure, hne]
  | requeue b =>
    refine ⟨7, ?_⟩
    simp [holds, SoloC, iterC, stepC, St.toQ, Call.op, Ret.out, Seq.apply, Seq.requeue, Seq.lock,
        Seq.unlock, Seq.republish, Seq.recvTok, Seq.sendTok, bind, Except.bind, pure, Except.pure]
  | getDepth =>
    refine ⟨4, ?_⟩
    simp [holds, SoloC, iterC, stepC, St.toQ, Call.op, Ret.out, Seq.apply, Seq.getDepth, Seq.lock,
        Seq.unlock, bind, Except.bind, pure, Except.pure]

/-- the same for the producer and `Enqueue(b)` -/
theorem solo_producer (s : St) (l : List Bytes) (b : Bytes)
    (hq : Abs s.toQ l) (hp : s.ppc = .idle) :
    ∃ s', iterP b 7 s = some s' ∧ SoloP s b s' := by
  suffices h : holds (iterP b 7 s) (SoloP s b) from holds_elim h
  obtain ⟨queue, depth, token, lock, ppc, cpc, produced, clog, rets⟩ := s
  obtain ⟨h1, h2, h3, h4⟩ := hq
  simp only [St.toQ] at h1 h2 h3 h4
  simp only at hp
  cases lock with
  | some w => simp at h4
  | none =>
  subst h1 h2 h3 hp
  simp [holds, SoloP, iterP, stepP, St.toQ, Seq.apply, Seq.enqueue, Seq.lock,
      Seq.unlock, Seq.republish, Seq.recvTok, Seq.sendTok, bind, Except.bind, pure, Except.pure]

/-! ## witness states for the non-vacuity examples in `Props/C20.lean` -/

/-- helper for the non-vacuity examples: run a schedule (`inl b` = a producer step, with `b` the
argument if it is a new call; `inr c` = a consumer step) -/
def sched : List (Bytes ⊕ Call) → St → Option St
  | [], s => some s
  | .inl b :: r, s => (stepP s b).bind (sched r)
  | .inr c :: r, s => (stepC s c).bind (sched r)

theorem reach_sched : ∀ (l : List (Bytes ⊕ Call)) (s s' : St), Reach s → sched l s = some s' → Reach s' := by
  intro l
  induction l with
  | nil => intro s s' h e; simp [sched] at e; exact e ▸ h
  | cons x xs ih =>
    intro s s' h e
    cases x with
    | inl b =>
      simp only [sched] at e
      cases hp : stepP s b with
      | none => simp [hp] at e
      | some s1 => simp [hp] at e; exact ih s1 s' (.step h (.p b hp)) e
    | inr c =>
      simp only [sched] at e
      cases hc : stepC s c with
      | none => simp [hc] at e
      | some s1 => simp [hc] at e; exact ih s1 s' (.step h (.c c hc)) e

/-- a reachable state in the middle of things: the producer has enqueued `[1]`, is inside
`Enqueue([2])` holding the lock with the chunk appended but the depth not yet republished, while
the consumer has read the (stale) depth token and is about to put it back. -/
def midState : St :=
  { queue := [[1], [2]], depth := 2, token := none, lock := some .prod, ppc := .recv,
    cpc := .gSend .dq 1, produced := [[1], [2]], clog := [], rets := [] }

theorem midState_reach : Reach midState := by
  refine reach_sched
    ((List.replicate 7 (.inl [1])) ++ [.inl [2], .inl [2], .inr .dequeue, .inr .dequeue, .inl [2], .inl [2]])
    init _ .init ?_
  decide

/-- a reachable state with the consumer idle after a `Dequeue` that returned the first chunk, no
put-backs, the producer between calls -/
def afterState : St :=
  { queue := [[2]], depth := 1, token := some 1, lock := none, ppc := .idle, cpc := .idle,
    produced := [[1], [2]], clog := [.got [1]], rets := [.deq (some [1])] }

theorem afterState_reach : Reach afterState := by
  refine reach_sched
    ((List.replicate 7 (.inl [1])) ++ (List.replicate 7 (.inl [2])) ++ List.replicate 12 (.inr .dequeue))
    init _ .init ?_
  decide

end Scrapli.Queue.Conc
