import ScrapliModel.Lemmas.Forest
/-!
# Lemmas about the privilege model: lookup, the tree predicate, graph ↔ parent pointers,
`pathDFS` on trees, the device's reaction to transition and payload lines
-/
namespace Scrapli.Priv
open Scrapli Scrapli.Forest

/-! ## lookup -/

theorem find?_some {L : Levels} {a : Bytes} {l : Level} (h : find? L a = some l) :
    l ∈ L ∧ l.name = a := by
  unfold find? at h
  have h1 := List.mem_of_find?_eq_some h
  have h2 := List.find?_some h
  exact ⟨h1, by simpa using h2⟩

theorem same_name_eq {L : Levels} (hn : (names L).Nodup) {l m : Level} (hl : l ∈ L) (hm : m ∈ L)
    (h : l.name = m.name) : l = m := by
  induction L with
  | nil => cases hl
  | cons x t ih =>
    simp only [names, List.map_cons, List.nodup_cons, List.mem_map, not_exists, not_and] at hn
    rcases List.mem_cons.1 hl with rfl | hl' <;> rcases List.mem_cons.1 hm with rfl | hm'
    · rfl
    · exact absurd h.symm (hn.1 m hm')
    · exact absurd h (hn.1 l hl')
    · exact ih hn.2 hl' hm'

theorem find?_of_mem {L : Levels} (hn : (names L).Nodup) {l : Level} (hl : l ∈ L) :
    find? L l.name = some l := by
  cases h : find? L l.name with
  | none =>
    unfold find? at h
    rw [List.find?_eq_none] at h
    exact absurd (by simp) (h l hl)
  | some m =>
    obtain ⟨hm, hmn⟩ := find?_some h
    rw [same_name_eq hn hm hl hmn]

theorem find?_isSome_of_mem {L : Levels} {a : Bytes} (ha : a ∈ names L) : ∃ l, find? L a = some l := by
  simp only [names, List.mem_map] at ha
  obtain ⟨l, hl, rfl⟩ := ha
  cases h : find? L l.name with
  | none =>
    unfold find? at h
    rw [List.find?_eq_none] at h
    exact absurd (by simp) (h l hl)
  | some m => exact ⟨m, rfl⟩

theorem mem_names_of_find? {L : Levels} {a : Bytes} {l : Level} (h : find? L a = some l) :
    a ∈ names L := by
  obtain ⟨h1, h2⟩ := find?_some h
  simp only [names, List.mem_map]
  exact ⟨l, h1, h2⟩

theorem find?_none_iff {L : Levels} {a : Bytes} : find? L a = none ↔ a ∉ names L := by
  constructor
  · intro h ha
    obtain ⟨l, hl⟩ := find?_isSome_of_mem ha
    rw [h] at hl; cases hl
  · intro h
    cases hf : find? L a with
    | none => rfl
    | some l => exact absurd (mem_names_of_find? hf) h

theorem par_some {L : Levels} {a p : Bytes} (h : par L a = some p) :
    ∃ l, find? L a = some l ∧ l.previous = p ∧ p ≠ [] := by
  unfold par at h
  split at h
  · rename_i l hl
    split at h
    · cases h
    · rename_i hne
      cases h
      exact ⟨l, hl, rfl, hne⟩
  · cases h

theorem par_of_find {L : Levels} {a : Bytes} {l : Level} (h : find? L a = some l)
    (hne : l.previous ≠ []) : par L a = some l.previous := by
  unfold par; rw [h]; simp [hne]

/-! ## the tree predicate -/

/-- the levels form a rooted tree (no bound on the number of levels): distinct names, the empty
string is not a name, a depth function decreasing along previous links (no cycle), every previous
is a level, and one root -/
structure Tree (L : Levels) : Prop where
  nodup : (names L).Nodup
  nonempty : [] ∉ names L
  depth : ∃ d : Bytes → Nat, ∀ a p, par L a = some p → d a = d p + 1
  closed : ∀ a p, par L a = some p → p ∈ names L
  root : ∀ a b, a ∈ names L → b ∈ names L → par L a = none → par L b = none → a = b

theorem rootDist_mono (L : Levels) : ∀ (f : Nat) (a : Bytes) (k : Nat),
    rootDist L f a = some k → rootDist L (f + 1) a = some k := by
  intro f
  induction f with
  | zero => intro a k h; simp [rootDist] at h
  | succ f ih =>
    intro a k h
    rw [rootDist] at h ⊢
    split at h
    · cases h
    · rename_i l hl
      split at h
      · rename_i hp; simp [hp]; simpa using h
      · rename_i hp
        simp only [hp, if_false]
        cases hr : rootDist L f l.previous with
        | none => rw [hr] at h; cases h
        | some j =>
          rw [hr] at h
          rw [ih _ _ hr]
          exact h

theorem rootDist_par {L : Levels} (hall : ∀ l ∈ L, (rootDist L L.length l.name).isSome)
    {a p : Bytes} (h : par L a = some p) :
    p ∈ names L ∧ (rootDist L L.length a).getD 0 = (rootDist L L.length p).getD 0 + 1 := by
  obtain ⟨l, hl, hp, hne⟩ := par_some h
  obtain ⟨hlL, hla⟩ := find?_some hl
  have hs := hall l hlL
  rw [hla] at hs
  cases hn : L.length with
  | zero => rw [hn] at hs; simp [rootDist] at hs
  | succ f =>
    rw [hn] at hs
    rw [rootDist, hl] at hs
    simp only [hp, hne, if_false] at hs
    cases hr : rootDist L f p with
    | none => rw [hr] at hs; simp at hs
    | some k =>
      have hm := rootDist_mono L f p k hr
      have ha : rootDist L (f + 1) a = some (k + 1) := by
        rw [rootDist, hl]; simp [hp, hne, hr]
      refine ⟨?_, by rw [ha, hm]; rfl⟩
      cases f with
      | zero => simp [rootDist] at hr
      | succ f' =>
        rw [rootDist] at hr
        split at hr
        · cases hr
        · rename_i l' hl'; exact mem_names_of_find? hl'

theorem tree_of_isTree {L : Levels} (h : isTree L = true) : Tree L := by
  unfold isTree at h
  simp only [Bool.and_eq_true, decide_eq_true_eq, Bool.not_eq_true', List.all_eq_true,
    beq_iff_eq] at h
  obtain ⟨⟨⟨⟨hnd, hne⟩, _⟩, hroot⟩, hall⟩ := h
  refine ⟨hnd, ?_, ⟨fun a => (rootDist L L.length a).getD 0, fun a p hp => (rootDist_par hall hp).2⟩,
    fun a p hp => (rootDist_par hall hp).1, ?_⟩
  · intro hc
    have := List.contains_iff_mem.2 hc
    rw [this] at hne; cases hne
  · intro a b ha hb hpa hpb
    obtain ⟨la, hla⟩ := find?_isSome_of_mem ha
    obtain ⟨lb, hlb⟩ := find?_isSome_of_mem hb
    have hap : la.previous = [] := by
      unfold par at hpa; rw [hla] at hpa
      by_cases hq : la.previous = []
      · exact hq
      · simp [hq] at hpa
    have hbp : lb.previous = [] := by
      unfold par at hpb; rw [hlb] at hpb
      by_cases hq : lb.previous = []
      · exact hq
      · simp [hq] at hpb
    obtain ⟨z, hz⟩ := List.length_eq_one_iff.1 hroot
    have h1 : la ∈ L.filter fun l => l.previous == [] := by
      simp [(find?_some hla).1, hap]
    have h2 : lb ∈ L.filter fun l => l.previous == [] := by
      simp [(find?_some hlb).1, hbp]
    rw [hz] at h1 h2
    simp only [List.mem_singleton] at h1 h2
    rw [← (find?_some hla).2, ← (find?_some hlb).2, h1, h2]

/-! ## graph ↔ parent pointers -/

theorem adj_of_mem_neighbours {L : Levels} (hn : (names L).Nodup) {a b : Bytes}
    (h : b ∈ neighbours L a) : Adj (par L) a b := by
  unfold neighbours at h
  rcases List.mem_append.1 h with h | h
  · left
    cases hp : par L a with
    | none => rw [hp] at h; simp at h
    | some p => rw [hp] at h; simp at h; rw [h]
  · right
    unfold children at h
    simp only [List.mem_map, List.mem_filter, Bool.and_eq_true, beq_iff_eq, bne_iff_ne] at h
    obtain ⟨l, ⟨hl, hpa, hne⟩, rfl⟩ := h
    rw [← hpa]
    exact par_of_find (find?_of_mem hn hl) hne

theorem mem_neighbours_of_adj {L : Levels} {a b : Bytes} (h : Adj (par L) a b) :
    b ∈ neighbours L a := by
  unfold neighbours
  rcases h with h | h
  · rw [h]; simp
  · apply List.mem_append_right
    obtain ⟨l, hl, hp, hne⟩ := par_some h
    obtain ⟨hlL, hlb⟩ := find?_some hl
    unfold children
    simp only [List.mem_map, List.mem_filter, Bool.and_eq_true, beq_iff_eq, bne_iff_ne]
    exact ⟨l, ⟨hlL, hp, by rw [hp]; exact hne⟩, hlb⟩

/-- the map-iteration oracle returns the members it was given (any order, any multiplicity) -/
def Orders.Valid (o : Orders) : Prop :=
  (∀ ws l x, x ∈ o.nbr ws l ↔ x ∈ l) ∧ (∀ (l : Levels) x, x ∈ o.lv l ↔ x ∈ l)

theorem names_length (L : Levels) : (names L).length = L.length := by simp [names]

/-- on a tree `pathDFS` returns the simple path, whatever the iteration order -/
theorem pathDFS_eq {L : Levels} (ht : Tree L) {o : Orders} (ho : o.Valid) {cur tgt : Bytes}
    {q : List Bytes} (hq : SimplePath (par L) cur tgt q) (hqV : ∀ v ∈ q, v ∈ names L) :
    pathDFS L o cur tgt = some q := by
  obtain ⟨d, hd⟩ := ht.depth
  unfold pathDFS
  rw [← names_length L]
  exact dfs_unique hd (names L)
    (fun a b _ => ⟨adj_of_mem_neighbours ht.nodup, mem_neighbours_of_adj⟩)
    (fun a b => adj_of_mem_neighbours ht.nodup) ho.1 hq hqV

/-- any two levels of a tree are joined by a simple path through levels -/
theorem path_exists {L : Levels} (ht : Tree L) {a b : Bytes} (ha : a ∈ names L) (hb : b ∈ names L) :
    ∃ q, SimplePath (par L) a b q ∧ ∀ v ∈ q, v ∈ names L := by
  obtain ⟨d, hd⟩ := ht.depth
  exact simplePath_exists (V := fun v => v ∈ names L) hd (fun a p _ h => ht.closed a p h) ht.root (d a + d b) a b ha hb
    (Nat.le_refl _)

theorem path_length_le {L : Levels} {a b : Bytes} {q : List Bytes}
    (hq : SimplePath (par L) a b q) (hqV : ∀ v ∈ q, v ∈ names L) : q.length ≤ L.length := by
  rw [← names_length L]
  exact List.Nodup.length_le_of_subset hq.2.2.2 hqV

end Scrapli.Priv

/-! ## the explicit tree path -/
namespace Scrapli.Priv
open Scrapli Scrapli.Forest

theorem rootDist_lt (L : Levels) : ∀ (f : Nat) (a : Bytes) (k : Nat), rootDist L f a = some k → k < f := by
  intro f
  induction f with
  | zero => intro a k h; simp [rootDist] at h
  | succ f ih =>
    intro a k h
    rw [rootDist] at h
    split at h
    · cases h
    · rename_i l hl
      split at h
      · cases h; omega
      · cases hr : rootDist L f l.previous with
        | none => rw [hr] at h; cases h
        | some j =>
          rw [hr] at h
          simp at h
          have := ih _ _ hr
          omega

theorem depthOf_le (L : Levels) (a : Bytes) : depthOf L a ≤ L.length := by
  unfold depthOf
  cases h : rootDist L L.length a with
  | none => simp
  | some k => have := rootDist_lt L _ _ _ h; simp; omega

/-- for levels that pass the decidable tree check, `treePath` (up to the lowest common ancestor,
then down) is the simple path between two levels -/
theorem treePath_simple {L : Levels} (h : isTree L = true) {a b : Bytes} (ha : a ∈ names L)
    (hb : b ∈ names L) :
    SimplePath (par L) a b (treePath L a b) ∧ ∀ v ∈ treePath L a b, v ∈ names L := by
  have ht := tree_of_isTree h
  have h' := h
  unfold isTree at h'
  simp only [Bool.and_eq_true, List.all_eq_true] at h'
  have hall := h'.2
  have hd : ∀ x p, par L x = some p → depthOf L x = depthOf L p + 1 :=
    fun x p hp => (rootDist_par hall hp).2
  have h0 : ∀ x, x ∈ names L → par L x = none → depthOf L x = 0 := by
    intro x hx hp
    obtain ⟨l, hl⟩ := find?_isSome_of_mem hx
    have hprev : l.previous = [] := by
      unfold par at hp; rw [hl] at hp
      by_cases hq : l.previous = []
      · exact hq
      · simp [hq] at hp
    unfold depthOf
    cases hn : L.length with
    | zero => simp [rootDist]
    | succ f => rw [rootDist, hl]; simp [hprev]
  have hc := climb_simple (V := fun v => v ∈ names L) hd h0 (fun x p _ hp => ht.closed x p hp) ht.root
    (2 * L.length) a b ha hb (by have := depthOf_le L a; have := depthOf_le L b; omega)
  refine ⟨hc.1, fun v hv => ?_⟩
  have anc_mem : ∀ {x y : Bytes}, Anc (par L) x y → y ∈ names L → x ∈ names L := by
    intro x y hxy
    induction hxy with
    | refl => exact id
    | step hp _ ih => intro _; exact ih (ht.closed _ _ hp)
  rcases hc.2 v hv with hva | hvb
  · exact anc_mem hva ha
  · exact anc_mem hvb hb

end Scrapli.Priv
