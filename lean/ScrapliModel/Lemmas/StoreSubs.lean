import ScrapliModel.Netconf.StoreSubs
import ScrapliModel.Lemmas.Store
/-! Lemmas for notification routing (property C08): the read loop as "cut, then key", the walk of
the cut over one server message, line-feed insensitivity of the subscription-id scanner, and the
subscription store bookkeeping. -/
namespace Scrapli.Netconf.Store
open Scrapli

/-! ## `bufStep` = `bufCut` then `keyOf` -/

theorem bufStep_eq_cut (v : Ver) (buf c : Bytes) :
    bufStep v buf c = ((bufCut v buf c).1, (bufCut v buf c).2.bind keyOf) := by
  unfold bufStep bufCut keyOf
  by_cases hd : delimMatch v (buf ++ c) = true
  · by_cases hc : containsRpcClose (buf ++ c) = true
    · simp [hd, hc]
    · cases hf : firstId (buf ++ c) with
      | none => simp [hd, hc, hf]
      | some n => by_cases hn : n = 0 <;> simp [hd, hc, hf, hn]
  · simp [hd]

theorem cuts_cons (v : Ver) (buf c : Bytes) (cs : List Bytes) :
    cuts v buf (c :: cs) =
      ((bufCut v buf c).2.toList ++ (cuts v (bufCut v buf c).1 cs).1, (cuts v (bufCut v buf c).1 cs).2) := rfl

theorem cuts_append (v : Ver) (buf : Bytes) (a b : List Bytes) :
    cuts v buf (a ++ b) =
      ((cuts v buf a).1 ++ (cuts v (cuts v buf a).2 b).1, (cuts v (cuts v buf a).2 b).2) := by
  induction a generalizing buf with
  | nil => simp [cuts]
  | cons c cs ih => simp only [List.cons_append, cuts_cons, ih, List.append_assoc]

theorem filings_eq_cuts (v : Ver) : ∀ (cs : List Bytes) (buf : Bytes),
    filings v buf cs = ((cuts v buf cs).1.filterMap keyOf, (cuts v buf cs).2) := by
  intro cs
  induction cs with
  | nil => intro buf; simp [filings, cuts]
  | cons c cs ih =>
    intro buf
    rw [filings_cons, cuts_cons, bufStep_eq_cut, ih]
    cases h : (bufCut v buf c).2 with
    | none => simp
    | some m => cases hk : keyOf m <;> simp [hk]

theorem bufCut_nofire {v : Ver} {buf c : Bytes} (h : delimMatch v (buf ++ c) = false) :
    bufCut v buf c = (buf ++ c, none) := by
  simp [bufCut, h]

theorem cuts_tail (v : Ver) {buf : Bytes} {cs : List Bytes} (hb : allLF buf = true)
    (hcs : ∀ c ∈ cs, allLF c = true) : cuts v buf cs = ([], buf ++ cs.flatten) := by
  induction cs generalizing buf with
  | nil => simp [cuts]
  | cons c cs ih =>
    have hbc : allLF (buf ++ c) = true := by
      rw [allLF_append, hb, hcs c (by simp)]; rfl
    rw [cuts_cons, bufCut_nofire (delimMatch_allLF v hbc)]
    simp only [Option.toList, List.nil_append]
    rw [ih hbc (fun c' hc' => hcs c' (by simp [hc']))]
    simp

/-! ## the cut walking over one message -/

/-- the framing facts about a message the walk needs (shared by replies and notifications) -/
structure Framed (v : Ver) (body tail : Bytes) : Prop where
  tailLF : allLF tail = true
  noRpc : containsRpcClose (body ++ tail) = false
  noEarly : NoEarly v body
  fires : delimMatch v body = true
  starts : v = .v10 ∨ startsLFOrEmpty body = true

theorem goodMsg_framed {v : Ver} {m : Msg} (h : goodMsg v m = true) : Framed v m.body m.tail := by
  simp only [goodMsg, Bool.and_eq_true, Bool.not_eq_true', beq_iff_eq, Bool.or_eq_true] at h
  obtain ⟨⟨⟨⟨⟨⟨h1, h2⟩, h3⟩, h4⟩, _⟩, _⟩, h7⟩ := h
  exact ⟨h1, h2, noEarly_of_bool h3, h4, h7⟩

theorem Framed.body_ne {v : Ver} {body tail : Bytes} (h : Framed v body tail) : body ≠ [] := by
  intro hb
  have := h.fires
  rw [hb, delimMatch_nil] at this
  exact absurd this (by decide)

theorem Framed.starts' {v : Ver} {body tail : Bytes} (h : Framed v body tail) :
    v = .v10 ∨ startsLFOrEmpty (body ++ tail) = true := by
  rcases h.starts with h1 | h1
  · exact Or.inl h1
  · right
    cases hb : body with
    | nil => exact absurd hb h.body_ne
    | cons c t => rw [hb] at h1; simpa [startsLFOrEmpty] using h1

theorem bufCut_msg {v : Ver} {body tail lf a : Bytes} (hm : Framed v body tail)
    (hlf : allLF lf = true) (y : Bytes) (ht : tail = a ++ y) (buf c : Bytes)
    (hb : buf ++ c = (lf ++ body) ++ a) :
    bufCut v buf c = ([], some (lf ++ body ++ a)) := by
  have ha : allLF a = true := by
    have := hm.tailLF
    rw [ht, allLF_append, Bool.and_eq_true] at this; exact this.1
  have hfire' : delimMatch v ((lf ++ body) ++ a) = true := by
    rw [List.append_assoc, delimMatch_lfs v _ hlf]
    exact delimMatch_append a (Or.inr (allLF_startsLF ha)) hm.fires
  have hnc' : containsRpcClose ((lf ++ body) ++ a) = false := by
    rw [List.append_assoc, containsRpcClose_lfs _ hlf]
    apply containsRpcClose_prefix (b := y)
    rw [List.append_assoc, ← ht]; exact hm.noRpc
  simp only [bufCut, hb, hfire', hnc', if_true, Bool.false_eq_true, if_false]

theorem walk_msg {v : Ver} {body tail lf : Bytes} (hm : Framed v body tail) (hlf : allLF lf = true) :
    ∀ (cs : List Bytes) (x0 : Bytes), x0 ++ cs.flatten = (lf ++ body) ++ tail →
      ((∃ s, s ≠ [] ∧ lf ++ body = x0 ++ s) ∨ cs ≠ []) →
      ∃ j, cuts v x0 cs = ([lf ++ body ++ tail.take j], tail.drop j) := by
  have htl := hm.tailLF
  have hNE : NoEarly v (lf ++ body) := noEarly_lfs hlf hm.noEarly
  intro cs
  induction cs with
  | nil =>
    intro x0 hx hs
    rcases hs with ⟨s, hs, hsplit⟩ | hs
    · exfalso
      simp only [List.flatten_nil, List.append_nil] at hx
      have e1 := congrArg List.length hsplit
      have e2 := congrArg List.length hx
      simp only [List.length_append] at e1 e2
      have e3 : 0 < s.length := List.length_pos_iff.mpr hs
      omega
    · exact absurd rfl hs
  | cons c cs ih =>
    intro x0 hx _
    simp only [List.flatten_cons] at hx
    rw [← List.append_assoc] at hx
    rcases List.append_eq_append_iff.mp hx with ⟨a', h1, h2⟩ | ⟨c', h1, h2⟩
    · by_cases ha' : a' = []
      · subst ha'
        simp only [List.append_nil] at h1 h2
        have := bufCut_msg hm hlf tail (a := []) (by simp) x0 c (by simpa using h1.symm)
        refine ⟨0, ?_⟩
        rw [cuts_cons, this]
        simp only [Option.toList, List.take_zero, List.append_nil, List.drop_zero]
        have hcs : ∀ c ∈ cs, allLF c = true := allLF_of_flatten (by rw [h2]; exact htl)
        rw [cuts_tail v (by rfl) hcs]
        simp [h2]
      · have hnf : delimMatch v (x0 ++ c) = false := hNE (x0 ++ c) a' h1 ha'
        rw [cuts_cons, bufCut_nofire hnf]
        simp only [Option.toList, List.nil_append]
        exact ih (x0 ++ c) (by rw [h2, ← List.append_assoc, ← h1]) (Or.inl ⟨a', ha', h1⟩)
    · have := bufCut_msg hm hlf cs.flatten (a := c') h2 x0 c h1
      refine ⟨c'.length, ?_⟩
      rw [cuts_cons, this]
      have htl' := htl
      rw [h2, allLF_append, Bool.and_eq_true] at htl'
      have hcs : ∀ c ∈ cs, allLF c = true := allLF_of_flatten htl'.2
      rw [cuts_tail v (by rfl) hcs]
      simp [h2]

theorem bufCut_echo {v : Ver} {e : Echo} {lf a : Bytes} (he : goodEcho v e = true)
    (hlf : allLF lf = true) (ha : v = .v10 ∨ startsLFOrEmpty a = true) (buf c : Bytes)
    (hb : buf ++ c = (lf ++ e.body) ++ a) : bufCut v buf c = (a, none) := by
  simp only [goodEcho, Bool.and_eq_true, beq_iff_eq] at he
  obtain ⟨⟨⟨⟨_, hc⟩, _⟩, hfire⟩, hafter⟩ := he
  have hfire' : delimMatch v ((lf ++ e.body) ++ a) = true := by
    rw [List.append_assoc, delimMatch_lfs v _ hlf]
    exact delimMatch_append a ha hfire
  have hc' : containsRpcClose ((lf ++ e.body) ++ a) = true := by
    rw [List.append_assoc, containsRpcClose_lfs _ hlf]
    exact containsRpcClose_append a hc
  have haf : afterFirstDelim v ((lf ++ e.body) ++ a) = a := by
    unfold afterFirstDelim
    rw [List.append_assoc, afterFirstOpt_lfs v _ hlf, afterFirstOpt_append a ha hafter]
    simp
  simp only [bufCut, hb, hfire', hc', haf, if_true]

theorem walk_echo_cut {v : Ver} {e : Echo} {lf : Bytes} (he : goodEcho v e = true)
    (hlf : allLF lf = true) (rest : Bytes) (hrest : v = .v10 ∨ startsLFOrEmpty rest = true) :
    ∀ (cs : List Bytes) (x0 : Bytes), x0 ++ cs.flatten = (lf ++ e.body) ++ rest →
      (∃ s, s ≠ [] ∧ lf ++ e.body = x0 ++ s) →
      ∃ x pre c cs2, cs = pre ++ c :: cs2 ∧ c ≠ [] ∧ x ++ cs2.flatten = rest ∧
        cuts v x0 cs = cuts v x cs2 := by
  have he' := he
  simp only [goodEcho, Bool.and_eq_true, beq_iff_eq] at he'
  obtain ⟨⟨⟨⟨_, _⟩, hne0⟩, _⟩, _⟩ := he'
  have hNE : NoEarly v (lf ++ e.body) := noEarly_lfs hlf (noEarly_of_bool hne0)
  intro cs
  induction cs with
  | nil =>
    intro x0 hx ⟨s, hs, hsplit⟩
    exfalso
    simp only [List.flatten_nil, List.append_nil] at hx
    have e1 := congrArg List.length hsplit
    have e2 := congrArg List.length hx
    simp only [List.length_append] at e1 e2
    have e3 : 0 < s.length := List.length_pos_iff.mpr hs
    omega
  | cons c cs ih =>
    intro x0 hx ⟨s, hs, hsplit⟩
    simp only [List.flatten_cons] at hx
    rw [← List.append_assoc] at hx
    have hfireCase : ∀ c', x0 ++ c = (lf ++ e.body) ++ c' → rest = c' ++ cs.flatten →
        ∃ x pre c1 cs2, c :: cs = pre ++ c1 :: cs2 ∧ c1 ≠ [] ∧ x ++ cs2.flatten = rest ∧
          cuts v x0 (c :: cs) = cuts v x cs2 := by
      intro c' h1 h2
      have hc' : v = .v10 ∨ startsLFOrEmpty c' = true := by
        rcases hrest with h | h
        · exact Or.inl h
        · rw [h2] at h; exact Or.inr (startsLF_of_append h)
      have hstep := bufCut_echo he hlf hc' x0 c h1
      refine ⟨c', [], c, cs, rfl, ?_, h2.symm, ?_⟩
      · intro hcn
        subst hcn
        have e1 := congrArg List.length hsplit
        have e2 := congrArg List.length h1
        simp only [List.length_append, List.length_nil] at e1 e2
        have e3 : 0 < s.length := List.length_pos_iff.mpr hs
        omega
      · rw [cuts_cons, hstep]; simp
    rcases List.append_eq_append_iff.mp hx with ⟨a', h1, h2⟩ | ⟨c', h1, h2⟩
    · by_cases ha' : a' = []
      · subst ha'
        simp only [List.append_nil] at h1
        exact hfireCase [] (by simpa using h1.symm) (by simpa using h2.symm)
      · have hnf : delimMatch v (x0 ++ c) = false := hNE (x0 ++ c) a' h1 ha'
        obtain ⟨x, pre, c1, cs2, hcs, hc1, hxr, hf⟩ :=
          ih (x0 ++ c) (by rw [h2, ← List.append_assoc, ← h1]) ⟨a', ha', h1⟩
        refine ⟨x, c :: pre, c1, cs2, by rw [hcs]; rfl, hc1, hxr, ?_⟩
        rw [cuts_cons, bufCut_nofire hnf]
        simp only [Option.toList, List.nil_append]
        exact hf
    · exact hfireCase c' h1 h2

/-! ## deliveries of echoes, replies and notifications -/

/-- `c` is the message `m` as the server framed it (after left-over line feeds, up to some point
of its trailing line feeds) -/
def CutFor (c : Bytes) (m : Msg) : Prop :=
  ∃ lf j, allLF lf = true ∧ c = lf ++ m.body ++ m.tail.take j

inductive AllCut : List Bytes → List Msg → Prop
  | nil : AllCut [] []
  | cons {c m cs ms} : CutFor c m → AllCut cs ms → AllCut (c :: cs) (m :: ms)

theorem AllCut.append {c1 c2 m1 m2} (h1 : AllCut c1 m1) (h2 : AllCut c2 m2) :
    AllCut (c1 ++ c2) (m1 ++ m2) := by
  induction h1 with
  | nil => exact h2
  | cons h _ ih => exact AllCut.cons h ih

theorem goodEcho_tailLF {v : Ver} {e : Echo} (h : goodEcho v e = true) : allLF e.tail = true := by
  simp only [goodEcho, Bool.and_eq_true] at h; exact h.1.1.1.1

theorem allLF_drop {a : Bytes} (k : Nat) (h : allLF a = true) : allLF (a.drop k) = true := by
  simp only [allLF, List.all_eq_true] at h ⊢
  exact fun x hx => h x (List.mem_of_mem_drop hx)

theorem walk_delivery2 {v : Ver} {d : Delivery2} {lf0 : Bytes} (hd : d.valid v = true)
    (hlf : allLF lf0 = true) :
    ∃ cs lf', cuts v lf0 d.chunks = (cs, lf') ∧ allLF lf' = true ∧ AllCut cs d.burst.msgs := by
  obtain ⟨u, chunks⟩ := d
  simp only [Delivery2.valid, Bool.and_eq_true, beq_iff_eq] at hd
  obtain ⟨⟨hgood, hflat⟩, hlast⟩ := hd
  cases u with
  | msgOnly m =>
    simp only [Burst2.good] at hgood
    simp only [Burst2.bytes] at hflat
    have hm := goodMsg_framed hgood
    obtain ⟨j, hj⟩ := walk_msg hm hlf chunks lf0
      (by rw [hflat, List.append_assoc]) (Or.inl ⟨m.body, hm.body_ne, rfl⟩)
    exact ⟨_, _, hj, allLF_drop j hm.tailLF, AllCut.cons ⟨lf0, j, hlf, rfl⟩ AllCut.nil⟩
  | echoOnly e =>
    simp only [Burst2.good] at hgood
    simp only [Burst2.bytes] at hflat
    have htl := goodEcho_tailLF hgood
    obtain ⟨x, pre, c, cs2, _, _, hxr, hf⟩ := walk_echo_cut hgood hlf e.tail (Or.inr (allLF_startsLF htl))
      chunks lf0 (by rw [hflat, List.append_assoc]) ⟨e.body, goodEcho_body_ne hgood, rfl⟩
    have hall : allLF (x ++ cs2.flatten) = true := by rw [hxr]; exact htl
    rw [allLF_append, Bool.and_eq_true] at hall
    refine ⟨[], e.tail, ?_, htl, AllCut.nil⟩
    rw [hf, cuts_tail v hall.1 (allLF_of_flatten hall.2), hxr]
  | echoMsg e m =>
    simp only [Burst2.good, Bool.and_eq_true] at hgood
    simp only [Burst2.bytes] at hflat
    obtain ⟨hge, hgm⟩ := hgood
    have hm := goodMsg_framed hgm
    have htle := goodEcho_tailLF hge
    have hrest : v = .v10 ∨ startsLFOrEmpty (e.tail ++ (m.body ++ m.tail)) = true := by
      rcases hm.starts' with h | h
      · exact Or.inl h
      · exact Or.inr (startsLF_append htle h)
    obtain ⟨x, pre, c, cs2, hcs, hc, hxr, hf⟩ := walk_echo_cut hge hlf (e.tail ++ (m.body ++ m.tail)) hrest
      chunks lf0 (by rw [hflat]; simp only [List.append_assoc])
      ⟨e.body, goodEcho_body_ne hge, rfl⟩
    have hcs2 : cs2 ≠ [] := by
      intro h
      subst h
      simp only at hlast
      rw [hcs, List.getLast?_append] at hlast
      simp at hlast
      exact hc hlast
    obtain ⟨j, hj⟩ := walk_msg hm htle cs2 x (by rw [hxr]; simp only [List.append_assoc])
      (Or.inr hcs2)
    exact ⟨_, _, hf.trans hj, allLF_drop j hm.tailLF, AllCut.cons ⟨e.tail, j, htle, rfl⟩ AllCut.nil⟩

/-- framing, cut level: over any list of valid deliveries the read loop cuts out exactly the
server's messages (replies and notifications alike), one cut per message, in order -/
theorem cut_framing {v : Ver} : ∀ (ds : List Delivery2) (lf0 : Bytes),
    (∀ d ∈ ds, d.valid v = true) → allLF lf0 = true →
    ∃ cs lf', cuts v lf0 (ds.flatMap (·.chunks)) = (cs, lf') ∧ allLF lf' = true ∧
      AllCut cs (ds.flatMap (·.burst.msgs)) := by
  intro ds
  induction ds with
  | nil => intro lf0 _ hlf; exact ⟨[], lf0, rfl, hlf, AllCut.nil⟩
  | cons d ds ih =>
    intro lf0 hv hlf
    obtain ⟨c1, lf1, h1, hlf1, hA1⟩ := walk_delivery2 (hv d (by simp)) hlf
    obtain ⟨c2, lf2, h2, hlf2, hA2⟩ := ih lf1 (fun d' hd' => hv d' (by simp [hd'])) hlf1
    refine ⟨c1 ++ c2, lf2, ?_, hlf2, ?_⟩
    · simp only [List.flatMap_cons, cuts_append, h1, h2]
    · simp only [List.flatMap_cons]
      exact AllCut.append hA1 hA2

/-! ## the two keys do not see line feeds around a message -/

theorem hasPrefix_append_lf {s p : Bytes} (hp : ∀ b ∈ p, (b == LF) = false) :
    hasPrefix (s ++ [LF]) p = hasPrefix s p := by
  induction s generalizing p with
  | nil =>
    cases p with
    | nil => simp [hasPrefix]
    | cons b p' =>
      have h2 : (LF == b) = false := by
        have h := hp b (by simp)
        rw [beq_eq_false_iff_ne] at h ⊢
        exact fun e => h e.symm
      simp [hasPrefix, h2]
  | cons a s ih =>
    cases p with
    | nil => simp [hasPrefix]
    | cons b p' =>
      simp only [List.cons_append, hasPrefix]
      rw [ih (fun x hx => hp x (by simp [hx]))]

theorem isInfix_append_lf {n x : Bytes} (hn : n ≠ []) (hp : ∀ b ∈ n, (b == LF) = false) :
    isInfix n (x ++ [LF]) = isInfix n x := by
  induction x with
  | nil =>
    cases n with
    | nil => exact absurd rfl hn
    | cons b n' =>
      have h2 : (LF == b) = false := by
        have h := hp b (by simp)
        rw [beq_eq_false_iff_ne] at h ⊢
        exact fun e => h e.symm
      simp [isInfix, hasPrefix, h2]
  | cons c t ih =>
    have h := hasPrefix_append_lf (s := c :: t) hp
    rw [List.cons_append] at h
    simp only [List.cons_append, isInfix, h, ih]

theorem isInfix_append_lfs {n x lf : Bytes} (hn : n ≠ []) (hp : ∀ b ∈ n, (b == LF) = false)
    (hlf : allLF lf = true) : isInfix n (x ++ lf) = isInfix n x := by
  induction lf generalizing x with
  | nil => simp
  | cons c t ih =>
    simp only [allLF_cons, Bool.and_eq_true, beq_iff_eq] at hlf
    rw [hlf.1]
    have : x ++ LF :: t = (x ++ [LF]) ++ t := by simp
    rw [this, ih hlf.2, isInfix_append_lf hn hp]

theorem containsSubClose_lf (x : Bytes) : containsSubClose (LF :: x) = containsSubClose x := by
  simp [containsSubClose, isInfix, subCloseTag, hasPrefix, LF]

theorem containsSubClose_around {lf a : Bytes} (x : Bytes) (hlf : allLF lf = true) (ha : allLF a = true) :
    containsSubClose (lf ++ x ++ a) = containsSubClose x := by
  have h1 : containsSubClose (lf ++ x ++ a) = containsSubClose (lf ++ x) :=
    isInfix_append_lfs (by decide) (by decide) ha
  rw [h1]
  clear h1
  induction lf with
  | nil => rfl
  | cons c t ih =>
    simp only [allLF_cons, Bool.and_eq_true, beq_iff_eq] at hlf
    rw [hlf.1, List.cons_append, containsSubClose_lf, ih hlf.2]

theorem subIdHere_lf (x : Bytes) : subIdHere (LF :: x) = none := by
  simp [subIdHere, subOpenFold, dropFold, LF]

theorem firstSubId_lf (x : Bytes) : firstSubId (LF :: x) = firstSubId x := by
  simp [firstSubId, subIdHere_lf]

theorem takeWhile_append_stop {p : UInt8 → Bool} (l : Bytes) (a : UInt8) (ha : p a = false) :
    (l ++ [a]).takeWhile p = l.takeWhile p := by
  induction l with
  | nil => simp [ha]
  | cons b t ih =>
    by_cases hb : p b = true
    · simp [hb, ih]
    · simp [hb]

theorem subIdHere_append_lf (b : Bytes) : subIdHere (b ++ [LF]) = subIdHere b := by
  unfold subIdHere
  cases hd : dropFold subOpenFold b with
  | none => rw [dropFold_none_append_lf (by decide) hd]
  | some rest =>
    rw [dropFold_append [LF] hd]
    simp only
    rw [takeWhile_append_stop rest LF (by simp)]

theorem firstSubId_append_lf (b : Bytes) : firstSubId (b ++ [LF]) = firstSubId b := by
  induction b with
  | nil => simp [firstSubId, subIdHere_lf]
  | cons c t ih =>
    have := subIdHere_append_lf (c :: t)
    rw [List.cons_append] at this
    simp only [firstSubId, List.cons_append, this, ih]

theorem firstSubId_around {lf a : Bytes} (x : Bytes) (hlf : allLF lf = true) (ha : allLF a = true) :
    firstSubId (lf ++ x ++ a) = firstSubId x := by
  have h1 : ∀ (y : Bytes), firstSubId (y ++ a) = firstSubId y := by
    induction a with
    | nil => intro y; simp
    | cons c t ih =>
      intro y
      simp only [allLF_cons, Bool.and_eq_true, beq_iff_eq] at ha
      rw [ha.1]
      have : y ++ LF :: t = (y ++ [LF]) ++ t := by simp
      rw [this, ih ha.2, firstSubId_append_lf]
  rw [h1]
  induction lf with
  | nil => rfl
  | cons c t ih =>
    simp only [allLF_cons, Bool.and_eq_true, beq_iff_eq] at hlf
    rw [hlf.1, List.cons_append, firstSubId_lf, ih hlf.2]

theorem subKey_around {lf a : Bytes} (x : Bytes) (hlf : allLF lf = true) (ha : allLF a = true) :
    subKey (lf ++ x ++ a) = subKey x := by
  unfold subKey
  rw [containsSubClose_around x hlf ha, firstSubId_around x hlf ha]

theorem firstId_around {lf a : Bytes} (x : Bytes) (hlf : allLF lf = true) (ha : allLF a = true) :
    firstId (lf ++ x ++ a) = firstId x := by
  rw [firstId_append_lfs _ ha, firstId_lfs _ hlf]

/-- under which message-id a cut-out message is filed: the server's `to` (`0`: under none) -/
theorem keyOf_cut {v : Ver} {m : Msg} {c : Bytes} (hm : goodMsg v m = true) (hc : CutFor c m) :
    keyOf c = if m.to != 0 then some (m.to, c) else none := by
  obtain ⟨lf, j, hlf, rfl⟩ := hc
  have htl := (goodMsg_framed hm).tailLF
  simp only [goodMsg, Bool.and_eq_true, beq_iff_eq] at hm
  have hto : msgKey m.body = m.to := hm.1.1.2
  unfold keyOf
  rw [firstId_around _ hlf (allLF_take j htl)]
  unfold msgKey at hto
  cases hf : firstId m.body with
  | none => rw [hf] at hto; simp at hto; simp [← hto]
  | some n =>
    rw [hf] at hto
    simp only [Option.getD_some] at hto
    rw [← hto]

/-- under which subscription a cut-out message is filed: the server's `sub` (`0`: under none) -/
theorem subOf_cut {v : Ver} {m : Msg} {c : Bytes} (hm : goodMsg v m = true) (hc : CutFor c m) :
    subOf c = if m.sub != 0 then some (m.sub, c) else none := by
  obtain ⟨lf, j, hlf, rfl⟩ := hc
  have htl := (goodMsg_framed hm).tailLF
  simp only [goodMsg, Bool.and_eq_true, beq_iff_eq] at hm
  have hsub : subKey m.body = m.sub := hm.1.2
  unfold subOf
  rw [subKey_around _ hlf (allLF_take j htl), hsub]

/-! ## the subscription store: every filed message comes out once, in order -/

theorem subFilings_cons (v : Ver) (buf c : Bytes) (cs : List Bytes) :
    subFilings v buf (c :: cs) =
      ((bufCut v buf c).2.bind subOf).toList ++ subFilings v (bufCut v buf c).1 cs := by
  unfold subFilings
  rw [cuts_cons]
  simp only [List.filterMap_append]
  congr 1
  cases (bufCut v buf c).2 with
  | none => rfl
  | some m => cases h : subOf m <;> simp [h]

theorem sget_delivered (s : SubClient) (id' id : Nat) :
    ({ s with subs := s.subs.filter (fun p => p.1 != id'),
              got := s.got ++ [(id', (s.subs.filter (fun p => p.1 == id')).map (·.2))] } : SubClient).delivered id ++
    ({ s with subs := s.subs.filter (fun p => p.1 != id'),
              got := s.got ++ [(id', (s.subs.filter (fun p => p.1 == id')).map (·.2))] } : SubClient).waiting id
      = s.delivered id ++ s.waiting id := by
  simp only [SubClient.delivered, SubClient.waiting, List.filter_append, List.flatMap_append, List.filter_filter]
  by_cases h : id' = id
  · subst h
    have hz : (s.subs.filter fun p => (p.1 == id' && p.1 != id')) = [] := by
      apply List.filter_eq_nil_iff.mpr
      intro p _; simp
    simp [hz]
  · have h1 : (id' == id) = false := by simpa using h
    have hz : (s.subs.filter fun p => (p.1 == id && p.1 != id')) = s.subs.filter fun p => p.1 == id := by
      apply List.filter_congr
      intro p _
      by_cases hp : p.1 = id
      · simp [hp]; exact fun e => h e.symm
      · simp [hp]
    simp [h1, hz]

theorem srun_accounts (v : Ver) : ∀ (evs : List SEv) (s : SubClient) (id : Nat),
    (srun v s evs).delivered id ++ (srun v s evs).waiting id =
      (s.delivered id ++ s.waiting id) ++
        ((subFilings v s.buf (sreadsOf evs)).filter (fun p => p.1 == id)).map (·.2) := by
  intro evs
  induction evs with
  | nil => intro s id; simp [srun, sreadsOf, subFilings, cuts]
  | cons e es ih =>
    intro s id
    have hrun : srun v s (e :: es) = srun v (sstep v s e) es := by simp [srun]
    rw [hrun, ih]
    cases e with
    | read ch =>
      simp only [sstep, sreadsOf, subFilings_cons, SubClient.delivered, SubClient.waiting,
        List.filter_append, List.map_append, List.append_assoc]
    | get id' =>
      simp only [sreadsOf]
      have := sget_delivered s id' id
      simp only [sstep]
      rw [this]

theorem AllCut.mem {cs ms} (h : AllCut cs ms) {c} (hc : c ∈ cs) : ∃ m ∈ ms, CutFor c m := by
  induction h with
  | nil => simp at hc
  | cons h _ ih =>
    simp only [List.mem_cons] at hc
    rcases hc with hc | hc
    · subst hc; exact ⟨_, by simp, h⟩
    · obtain ⟨m, hm, hcm⟩ := ih hc
      exact ⟨m, by simp [hm], hcm⟩

theorem AllCut.mem_right {cs ms} (h : AllCut cs ms) {m} (hm : m ∈ ms) : ∃ c ∈ cs, CutFor c m := by
  induction h with
  | nil => simp at hm
  | cons h _ ih =>
    simp only [List.mem_cons] at hm
    rcases hm with hm | hm
    · subst hm; exact ⟨_, by simp, h⟩
    · obtain ⟨c, hc, hcm⟩ := ih hm
      exact ⟨c, by simp [hc], hcm⟩

theorem msgs_good {v : Ver} {ds : List Delivery2} (hv : ∀ d ∈ ds, d.valid v = true) :
    ∀ m ∈ ds.flatMap (·.burst.msgs), goodMsg v m = true := by
  intro m hm
  simp only [List.mem_flatMap] at hm
  obtain ⟨d, hd, hmd⟩ := hm
  have := hv d hd
  simp only [Delivery2.valid, Bool.and_eq_true] at this
  have hg := this.1.1
  cases hb : d.burst with
  | echoOnly e => rw [hb] at hmd; simp [Burst2.msgs] at hmd
  | msgOnly m' =>
    rw [hb] at hmd hg
    simp only [Burst2.msgs, List.mem_singleton] at hmd
    subst hmd; simpa [Burst2.good] using hg
  | echoMsg e m' =>
    rw [hb] at hmd hg
    simp only [Burst2.msgs, List.mem_singleton] at hmd
    subst hmd
    simp only [Burst2.good, Bool.and_eq_true] at hg
    exact hg.2

/-- the messages of one subscription among the cuts are exactly the server's messages of that
subscription, in order -/
theorem AllCut.sub_filter {v : Ver} {cs ms} (h : AllCut cs ms) (hg : ∀ m ∈ ms, goodMsg v m = true)
    (id : Nat) (hid : id ≠ 0) :
    AllCut (((cs.filterMap subOf).filter (fun p => p.1 == id)).map (·.2))
      (ms.filter (fun m => m.sub == id)) := by
  induction h with
  | nil => exact AllCut.nil
  | @cons c m cs' ms' hc _ ih =>
    have hm := hg m (by simp)
    have ih' := ih (fun m' hm' => hg m' (by simp [hm']))
    have hs := subOf_cut hm hc
    have hfm : (c :: cs').filterMap subOf = (subOf c).toList ++ cs'.filterMap subOf := by
      cases h : subOf c <;> simp [h]
    rw [hfm, hs]
    by_cases h0 : m.sub = 0
    · have e1 : (m.sub != 0) = false := by simp [h0]
      have e2 : (m.sub == id) = false := by rw [h0]; simpa using fun e => hid e.symm
      simp only [e1, Bool.false_eq_true, if_false, Option.toList, List.nil_append, List.filter_cons, e2]
      exact ih'
    · have e1 : (m.sub != 0) = true := by simpa using h0
      simp only [e1, if_true, Option.toList, List.singleton_append, List.filter_cons]
      by_cases he : (m.sub == id) = true
      · simp only [he, if_true, List.map_cons]; exact AllCut.cons hc ih'
      · simp only [he, Bool.false_eq_true, if_false]; exact ih'

end Scrapli.Netconf.Store
