import ScrapliModel.Lemmas.Request
set_option linter.unusedSimpArgs false
set_option linter.unusedVariables false
/-! Idempotence of the self-closing scanner (`forceSelfClosing`). -/
namespace Scrapli.Netconf.Req
open Scrapli Scrapli.Netconf
/-! ## idempotence of the scanner -/

local notation "F" => forceSelfClosing

theorem fsc_head (c : UInt8) (x : Bytes) : ∃ y, F (c :: x) = c :: y := by
  by_cases hc : c = LTc
  · subst hc
    cases hm : matchAt x with
    | none => exact ⟨_, fsc_lt_none x hm⟩
    | some m =>
      rw [fsc_lt_some x m hm]
      split
      · exact ⟨_, by simp [Match.closed]; rfl⟩
      · exact ⟨_, by simp [Match.full]; rfl⟩
  · exact ⟨_, fsc_cons_ne c x hc⟩

theorem matchAt_mem_gt {s : Bytes} {m : Match} (h : matchAt s = some m) : GTc ∈ s := by
  rw [(matchAt_ok h).eq]; simp

theorem fsc_id_of_noGT (s : Bytes) (h : ∀ b ∈ s, b ≠ GTc) : F s = s := by
  induction s with
  | nil => rfl
  | cons b t ih =>
    have iht := ih (fun x hx => h x (by simp [hx]))
    by_cases hb : b = LTc
    · subst hb
      cases hm : matchAt t with
      | none => rw [fsc_lt_none _ hm, iht]
      | some m => exact absurd rfl (h GTc (by simp [matchAt_mem_gt hm]))
    · rw [fsc_cons_ne b t hb, iht]

theorem spanTag_none {s : Bytes} (h : spanTag s = none) : ∀ b ∈ s, b ≠ GTc := by
  induction s with
  | nil => simp
  | cons a t ih =>
    simp only [spanTag] at h
    split at h
    · simp at h
    · rename_i ha
      have ht : spanTag t = none := by
        cases hs : spanTag t with
        | none => rfl
        | some p => simp [hs] at h
      intro b hb
      simp only [List.mem_cons] at hb
      rcases hb with rfl | hb
      · simpa using ha
      · exact ih ht b hb

theorem splitTag_none_snoc_slash (t : Bytes) (h : splitTag t = none) : splitTag (t ++ [SLc]) = none := by
  induction t with
  | nil => simp [splitTag]
  | cons b t ih =>
    cases t with
    | nil =>
      simp only [splitTag] at h
      split at h
      · rename_i hb; simp [splitTag, hb]
      · simp at h
    | cons c t' =>
      simp only [splitTag] at h
      split at h
      · rename_i hb; simp [splitTag, hb]
      · rename_i hb
        split at h
        · simp at h
        · rename_i hc
          have hs : splitTag (c :: t') = none := by
            cases hs : splitTag (c :: t') with
            | none => rfl
            | some p => simp [hs] at h
          have ih' := ih hs
          simp only [List.cons_append] at ih' ⊢
          simp only [splitTag, hb, if_false]
          by_cases hcw : isWs c = true
          · -- then t' = [] and splitTag [c] would be some
            have : t' = [] := by
              cases t' with
              | nil => rfl
              | cons _ _ => simp [hcw] at hc
            subst this
            have hcs : (c == SLc) = false := by
              cases hcs : c == SLc with
              | false => rfl
              | true =>
                simp only [beq_iff_eq] at hcs; subst hcs; revert hcw; decide
            simp [splitTag, hcs] at hs
          · have hcw' : isWs c = false := by simpa using hcw
            simp only [hcw', Bool.false_and, Bool.false_eq_true, if_false, ih']
            rfl

theorem splitTag_word_slash (n : Bytes) (hn : n ≠ []) (hw : ∀ b ∈ n, isWordDash b = true) :
    splitTag (n ++ [SLc]) = none := by
  induction n with
  | nil => exact absurd rfl hn
  | cons b t ih =>
    have hb := hw b (by simp)
    have hbs : (b == SLc) = false := by
      have := isWordDash_ne b SLc hb (by decide); simpa using this
    cases t with
    | nil =>
      have : isWs SLc = false := by decide
      simp [splitTag, hbs, this]
    | cons c t' =>
      have hc := hw c (by simp)
      have hcw := isWordDash_not_ws c hc
      have := ih (by simp) (fun x hx => hw x (by simp [hx]))
      simp only [List.cons_append] at this ⊢
      simp only [splitTag, hbs, Bool.false_eq_true, if_false, hcw, Bool.false_and, this]
      rfl

theorem matchAt_split_none (tag r : Bytes) (hgt : ∀ b ∈ tag, b ≠ GTc) (hs : splitTag tag = none) :
    matchAt (tag ++ GTc :: r) = none := by
  rw [matchAt_append tag r hgt]
  cases closeAt r with
  | none => rfl
  | some p => obtain ⟨ws, cn, rest⟩ := p; simp [hs]

theorem matchAt_close_none (tag r : Bytes) (hgt : ∀ b ∈ tag, b ≠ GTc) (hc : closeAt r = none) :
    matchAt (tag ++ GTc :: r) = none := by
  rw [matchAt_append tag r hgt, hc]

/-- through a tag text whose `>` is not followed by a closing tag nothing is rewritten -/
theorem fsc_tag_noclose (pre X : Bytes) (hgt : ∀ b ∈ pre, b ≠ GTc) (hc : closeAt X = none) :
    F (pre ++ GTc :: X) = pre ++ GTc :: F X := by
  induction pre with
  | nil => exact fsc_cons_ne GTc X (by decide)
  | cons b p ih =>
    have ihp := ih (fun x hx => hgt x (by simp [hx]))
    by_cases hb : b = LTc
    · subst hb
      rw [List.cons_append, fsc_lt_none _ (matchAt_close_none p X (fun x hx => hgt x (by simp [hx])) hc), ihp]
      rfl
    · rw [List.cons_append, fsc_cons_ne b _ hb, ihp]; rfl

theorem isWs_ne_lt (b : UInt8) (h : isWs b = true) : b ≠ LTc := by
  intro e; subst e; revert h; decide

/-- a closing tag is copied -/
theorem fsc_close_seq (ws cn rest : Bytes) (hws : ∀ b ∈ ws, isWs b = true)
    (hcw : ∀ b ∈ cn, isWordDash b = true) :
    F (ws ++ LTc :: SLc :: (cn ++ GTc :: rest)) = ws ++ LTc :: SLc :: (cn ++ GTc :: F rest) := by
  rw [fsc_append_noLT ws _ (fun b hb => isWs_ne_lt b (hws b hb)), fsc_lt_none _ (matchAt_slash _)]
  have e : SLc :: (cn ++ GTc :: rest) = (SLc :: (cn ++ [GTc])) ++ rest := by simp
  rw [e, fsc_append_noLT _ _ (by
    intro b hb
    simp only [List.mem_cons, List.mem_append, List.mem_nil_iff, or_false] at hb
    rcases hb with rfl | hb | rfl
    · decide
    · exact isWordDash_ne b LTc (hcw b hb) (by decide)
    · decide)]
  simp

theorem closeTail_head_ne (a : UInt8) (x : Bytes) (h : a ≠ LTc) : closeTail (a :: x) = none := by
  have : (a == LTc) = false := by simpa using h
  cases x <;> simp [closeTail, this]

theorem closeTail_second_ne (b : UInt8) (x : Bytes) (h : b ≠ SLc) : closeTail (LTc :: b :: x) = none := by
  have : (b == SLc) = false := by simpa using h
  simp [closeTail, this]

theorem closeAt_none_iff (r : Bytes) : closeAt r = none ↔ closeTail (r.dropWhile isWs) = none := by
  unfold closeAt
  cases closeTail (r.dropWhile isWs) <;> simp

theorem dropWhile_append_all {p : UInt8 → Bool} (ws z : Bytes) (h : ∀ b ∈ ws, p b = true) :
    (ws ++ z).dropWhile p = z.dropWhile p := by
  induction ws with
  | nil => rfl
  | cons a t ih =>
    simp only [List.cons_append, List.dropWhile, h a (by simp)]
    exact ih (fun b hb => h b (by simp [hb]))

theorem takeWhile_self {p : UInt8 → Bool} (l : Bytes) (h : ∀ b ∈ l, p b = true) :
    l.takeWhile p = l := by
  induction l with
  | nil => rfl
  | cons a t ih =>
    simp only [List.takeWhile, h a (by simp)]
    rw [ih (fun b hb => h b (by simp [hb]))]

theorem dropWhile_head_id {p : UInt8 → Bool} (a : UInt8) (t : Bytes) (h : p a = false) :
    (a :: t).dropWhile p = a :: t := by
  simp [List.dropWhile, h]

/-- if no closing tag follows, none follows after the rewrite either -/
theorem closeTail_fsc_none (d : Bytes) (hd : ∀ a t, d = a :: t → isWs a = false)
    (h : closeTail d = none) : closeTail ((F d).dropWhile isWs) = none := by
  cases d with
  | nil => simp [fsc_nil, closeTail]
  | cons a t =>
    have ha := hd a t rfl
    obtain ⟨y, hy⟩ := fsc_head a t
    rw [hy, dropWhile_head_id a y ha]
    by_cases hal : a = LTc
    · subst hal
      cases t with
      | nil =>
        have : F [LTc] = [LTc] := by rw [fsc_lt_none [] (by simp [matchAt, spanTag]), fsc_nil]
        rw [this] at hy
        simp only [List.cons.injEq, true_and] at hy
        subst hy
        simp [closeTail]
      | cons b r2 =>
        cases hm : matchAt (b :: r2) with
        | some m =>
          have ok := matchAt_ok hm
          rw [fsc_lt_some _ m hm] at hy
          obtain ⟨n0, nt, hn⟩ : ∃ n0 nt, m.name = n0 :: nt := by
            cases hn : m.name with
            | nil => exact absurd hn ok.name_ne
            | cons n0 nt => exact ⟨n0, nt, rfl⟩
          have hn0 : n0 ≠ SLc := ok.name_noSlash n0 (by simp [hn])
          have : ∃ z, y = n0 :: z := by
            split at hy
            · simp only [Match.closed, hn, List.cons_append, List.cons.injEq, true_and] at hy
              exact ⟨_, hy.symm⟩
            · simp only [Match.full, hn, List.cons_append, List.cons.injEq, true_and] at hy
              exact ⟨_, hy.symm⟩
          obtain ⟨z, rfl⟩ := this
          exact closeTail_second_ne n0 z hn0
        | none =>
          rw [fsc_lt_none _ hm] at hy
          simp only [List.cons.injEq, true_and] at hy
          subst hy
          by_cases hb : b = SLc
          · subst hb
            rw [fsc_cons_ne SLc r2 (by decide)]
            -- closing name and what follows it
            have e : r2 = r2.takeWhile isWordDash ++ r2.dropWhile isWordDash :=
              (List.takeWhile_append_dropWhile (p := isWordDash) (l := r2)).symm
            have hcnw := takeWhile_all isWordDash r2
            have hF : F r2 = r2.takeWhile isWordDash ++ F (r2.dropWhile isWordDash) := by
              conv => lhs; rw [e]
              exact fsc_append_noLT _ _ (fun b hb => isWordDash_ne b LTc (hcnw b hb) (by decide))
            rw [hF]
            generalize hcn : r2.takeWhile isWordDash = cn at *
            cases hrr : r2.dropWhile isWordDash with
            | nil =>
              simp only [fsc_nil, List.append_nil]
              unfold closeTail
              have h1 : cn.takeWhile isWordDash = cn := takeWhile_self cn hcnw
              have h2 : cn.dropWhile isWordDash = [] := dropWhile_all_nil cn hcnw
              simp only [beq_self_eq_true, Bool.and_self, if_true, h1, h2]
            | cons g rr' =>
              have hg : isWordDash g = false := dropWhile_head_false hrr
              obtain ⟨y2, hy2⟩ := fsc_head g rr'
              rw [hy2]
              have h2 := takeWhile_append_stop (p := isWordDash) cn g y2 hcnw hg
              have h0 : closeTail (LTc :: SLc :: r2) = none := h
              unfold closeTail at h0 ⊢
              simp only [beq_self_eq_true, Bool.and_self, if_true, h2.1, h2.2] at h0 ⊢
              rw [hcn, hrr] at h0
              cases cn with
              | nil => rfl
              | cons c cn' =>
                simp only at h0 ⊢
                split at h0
                · simp at h0
                · rename_i hgg; simp [hgg]
          · obtain ⟨y3, hy3⟩ := fsc_head b r2
            rw [hy3]
            exact closeTail_second_ne b y3 hb
    · exact closeTail_head_ne a y hal

theorem closeAt_fsc_none (r : Bytes) (h : closeAt r = none) : closeAt (F r) = none := by
  rw [closeAt_none_iff] at h ⊢
  have e : r = r.takeWhile isWs ++ r.dropWhile isWs :=
    (List.takeWhile_append_dropWhile (p := isWs) (l := r)).symm
  have hw := takeWhile_all isWs r
  have hF : F r = r.takeWhile isWs ++ F (r.dropWhile isWs) := by
    conv => lhs; rw [e]
    exact fsc_append_noLT _ _ (fun b hb => isWs_ne_lt b (hw b hb))
  rw [hF, dropWhile_append_all _ _ hw]
  apply closeTail_fsc_none _ _ h
  intro a t hat
  exact dropWhile_head_false hat

/-- through a tag text whose `>` IS followed by a closing tag: either nothing changes up to and
including that closing tag, or the tag text gets `/>` appended (an inner `<` matched and was
eligible) -/
theorem fsc_tag_close (q ws cn rest : Bytes) (hgt : ∀ b ∈ q, b ≠ GTc)
    (hws : ∀ b ∈ ws, isWs b = true) (hcn : cn ≠ []) (hcw : ∀ b ∈ cn, isWordDash b = true) :
    F (q ++ GTc :: (ws ++ LTc :: SLc :: (cn ++ GTc :: rest)))
        = q ++ GTc :: (ws ++ LTc :: SLc :: (cn ++ GTc :: F rest))
    ∨ ∃ Y, F (q ++ GTc :: (ws ++ LTc :: SLc :: (cn ++ GTc :: rest))) = q ++ SLc :: GTc :: Y := by
  induction q with
  | nil =>
    left
    rw [List.nil_append, fsc_cons_ne GTc _ (by decide), fsc_close_seq ws cn rest hws hcw]
    rfl
  | cons b q ih =>
    have ihq := ih (fun x hx => hgt x (by simp [hx]))
    have step : ∀ Z, F (q ++ GTc :: (ws ++ LTc :: SLc :: (cn ++ GTc :: rest))) = Z →
        (Z = q ++ GTc :: (ws ++ LTc :: SLc :: (cn ++ GTc :: F rest)) ∨ ∃ Y, Z = q ++ SLc :: GTc :: Y) →
        (b :: Z = (b :: q) ++ GTc :: (ws ++ LTc :: SLc :: (cn ++ GTc :: F rest))
          ∨ ∃ Y, b :: Z = (b :: q) ++ SLc :: GTc :: Y) := by
      intro Z _ hZ
      rcases hZ with hZ | ⟨Y, hZ⟩
      · left; rw [hZ]; rfl
      · right; exact ⟨Y, by rw [hZ]; rfl⟩
    by_cases hb : b = LTc
    · subst hb
      cases hm : matchAt (q ++ GTc :: (ws ++ LTc :: SLc :: (cn ++ GTc :: rest))) with
      | none =>
        rw [List.cons_append, fsc_lt_none _ hm]
        exact step _ rfl ihq
      | some m =>
        have hq : ∀ x ∈ q, x ≠ GTc := fun x hx => hgt x (by simp [hx])
        have hma := matchAt_append q (ws ++ LTc :: SLc :: (cn ++ GTc :: rest)) hq
        rw [closeAt_build ws cn rest hws hcn hcw, hm] at hma
        cases hst : splitTag q with
        | none => simp [hst] at hma
        | some p =>
          obtain ⟨n, a⟩ := p
          simp only [hst, Option.map_some, Option.some.injEq] at hma
          subst hma
          obtain ⟨et, _, _, _⟩ := splitTag_eq hst
          rw [List.cons_append, fsc_lt_some _ _ hm]
          split
          · right
            exact ⟨F rest, by simp [Match.closed, et]⟩
          · left
            simp [Match.full, et]
    · rw [List.cons_append, fsc_cons_ne b _ hb]
      exact step _ rfl ihq

/-- where the pattern does not match before the rewrite it does not match after it -/
theorem matchAt_fsc_none (t : Bytes) (h : matchAt t = none) : matchAt (F t) = none := by
  cases hs : spanTag t with
  | none => rw [fsc_id_of_noGT t (spanTag_none hs)]; exact h
  | some p =>
    obtain ⟨tag, r1⟩ := p
    obtain ⟨et, hgt⟩ := spanTag_eq hs
    subst et
    have hma := matchAt_append tag r1 hgt
    rw [h] at hma
    cases hc : closeAt r1 with
    | none =>
      rw [fsc_tag_noclose tag r1 hgt hc]
      exact matchAt_close_none tag _ hgt (closeAt_fsc_none r1 hc)
    | some c =>
      obtain ⟨ws, cn, rest⟩ := c
      rw [hc] at hma
      have hst : splitTag tag = none := by
        cases hst : splitTag tag with
        | none => rfl
        | some p => simp [hst] at hma
      obtain ⟨er, hws, hcn, hcw⟩ := closeAt_ok hc
      subst er
      rcases fsc_tag_close tag ws cn rest hgt hws hcn hcw with e | ⟨Y, e⟩
      · rw [e]; exact matchAt_split_none tag _ hgt hst
      · rw [e]
        have e2 : tag ++ SLc :: GTc :: Y = (tag ++ [SLc]) ++ GTc :: Y := by simp
        rw [e2]
        apply matchAt_split_none _ _ _ (splitTag_none_snoc_slash tag hst)
        intro b hb
        simp only [List.mem_append, List.mem_singleton] at hb
        rcases hb with hb | rfl
        · exact hgt b hb
        · decide

theorem fsc_idem_aux (n : Nat) : ∀ s : Bytes, s.length ≤ n → F (F s) = F s := by
  induction n with
  | zero =>
    intro s hs
    have : s = [] := by cases s with | nil => rfl | cons _ _ => simp at hs
    subst this; rfl
  | succ n ih =>
    intro s hs
    cases s with
    | nil => rfl
    | cons b t =>
      simp only [List.length_cons] at hs
      by_cases hb : b = LTc
      · subst hb
        cases hm : matchAt t with
        | none =>
          rw [fsc_lt_none t hm, fsc_lt_none _ (matchAt_fsc_none t hm), ih t (by omega)]
        | some m =>
          have ok := matchAt_ok hm
          have hrl := ok.rest_lt
          have ihr := ih m.rest (by omega)
          rw [fsc_lt_some t m hm]
          generalize hX : F m.rest = X at ihr ⊢
          cases he : m.eligible with
          | false =>
            simp only [Bool.false_eq_true, if_false]
            have hm2 := matchAt_build m.name m.attrs m.ws m.cname X ok.split ok.tag_noGT ok.ws_space
              ok.cname_ne ok.cname_word
            have e : m.full ++ X
                = LTc :: (m.name ++ m.attrs ++ GTc :: (m.ws ++ LTc :: SLc :: (m.cname ++ GTc :: X))) := by
              simp [Match.full]
            rw [e, fsc_lt_some _ _ hm2]
            have he2 : Match.eligible ⟨m.name, m.attrs, m.ws, m.cname, X⟩ = false := he
            simp only [he2, Bool.false_eq_true, if_false, ihr]
            simp [Match.full]
          | true =>
            simp only [if_true]
            obtain ⟨hcn, hee⟩ := eligible_emptyElem ok he
            have hnlt : ∀ b ∈ m.name, b ≠ LTc := fun b hb =>
              isWordDash_ne b LTc (hee.name_word b hb) (by decide)
            have hngt : ∀ b ∈ m.name, b ≠ GTc := fun b hb =>
              isWordDash_ne b GTc (hee.name_word b hb) (by decide)
            rcases hee.attrs_shape with ha | ⟨w, r, ha, hw, hr⟩
            · -- no attributes: `<name/>` is never matched again
              have e : m.closed ++ X = LTc :: ((m.name ++ [SLc]) ++ GTc :: X) := by
                simp [Match.closed, ha]
              have hmn : matchAt ((m.name ++ [SLc]) ++ GTc :: X) = none := by
                apply matchAt_split_none _ _ _ (splitTag_word_slash m.name hee.name_ne hee.name_word)
                intro b hb
                simp only [List.mem_append, List.mem_singleton] at hb
                rcases hb with hb | rfl
                · exact hngt b hb
                · decide
              rw [e, fsc_lt_none _ hmn]
              have e2 : (m.name ++ [SLc]) ++ GTc :: X = (m.name ++ [SLc, GTc]) ++ X := by simp
              rw [e2, fsc_append_noLT _ _ (by
                intro b hb
                simp only [List.mem_append, List.mem_cons, List.mem_nil_iff, or_false] at hb
                rcases hb with hb | rfl | rfl
                · exact hnlt b hb
                · decide
                · decide), ihr]
            · -- attributes: `<name attrs/>` can only be matched as an ineligible match
              have hgt2 : ∀ b ∈ m.name ++ (m.attrs ++ [SLc]), b ≠ GTc := by
                intro b hb
                simp only [List.mem_append, List.mem_singleton] at hb
                rcases hb with hb | hb | rfl
                · exact hngt b hb
                · exact hee.attrs_noGT b hb
                · decide
              have hsp : splitTag (m.name ++ (m.attrs ++ [SLc])) = some (m.name, m.attrs ++ [SLc]) :=
                splitTag_name_attrs m.name _ hee.name_ne hee.name_word
                  (Or.inr ⟨w, r ++ [SLc], by rw [ha]; rfl, hw, by simp⟩)
              have e : m.closed ++ X = LTc :: ((m.name ++ (m.attrs ++ [SLc])) ++ GTc :: X) := by
                simp [Match.closed]
              rw [e]
              cases hc : closeAt X with
              | none =>
                rw [fsc_lt_none _ (matchAt_close_none _ X hgt2 hc), fsc_tag_noclose _ X hgt2 hc, ihr]
              | some c =>
                obtain ⟨ws2, cn2, rest2⟩ := c
                obtain ⟨eX, hws2, hcn2, hcw2⟩ := closeAt_ok hc
                have hm2 : matchAt ((m.name ++ (m.attrs ++ [SLc])) ++ GTc :: X)
                    = some ⟨m.name, m.attrs ++ [SLc], ws2, cn2, rest2⟩ := by
                  rw [matchAt_append _ _ hgt2, hc]
                  simp only [hsp, Option.map_some]
                have hne : Match.eligible ⟨m.name, m.attrs ++ [SLc], ws2, cn2, rest2⟩ = false := by
                  have hl : (m.attrs ++ [SLc]).getLast? = some SLc := List.getLast?_concat ..
                  simp only [Match.eligible, hl, bne_self_eq_false, Bool.and_false]
                rw [fsc_lt_some _ _ hm2]
                simp only [hne, Bool.false_eq_true, if_false]
                -- the rest after the closing tag is already a fixed point
                have hfx : F rest2 = rest2 := by
                  have h1 := fsc_close_seq ws2 cn2 rest2 hws2 hcw2
                  rw [← eX, ihr] at h1
                  rw [eX] at h1
                  have h2 := List.append_cancel_left h1
                  simp only [List.cons.injEq, true_and] at h2
                  have h3 := List.append_cancel_left h2
                  simp only [List.cons.injEq, true_and] at h3
                  exact h3.symm
                rw [hfx, eX]
                simp [Match.full]
      · rw [fsc_cons_ne b t hb, fsc_cons_ne b _ hb, ih t (by omega)]

/-- applying the rewrite twice is the same as applying it once -/
theorem fsc_idem (s : Bytes) : F (F s) = F s := fsc_idem_aux s.length s (Nat.le_refl _)

end Scrapli.Netconf.Req
