import ScrapliModel.Lemmas.Channel
import ScrapliModel.Lemmas.GoSem
import ScrapliModel.Generated.BodiesUtil
/-!
# The two `range` loops of `util.BytesRoughlyContains`, as translated from the source
(`Generated/BodiesUtil.lean`), against the recursive `isSubseq` of the model

These lemmas are about the *generated* definitions: a change of the loops in `util/bytes.go` that
changes their meaning breaks this file (and with it `Props/C01`).
-/
set_option linter.unusedVariables false
namespace Scrapli.Chan
/-- what is left of `out` after the first occurrence of `c` (`none` = `c` does not occur) -/
def afterFirst (c : UInt8) : Bytes → Option Bytes
  | [] => none
  | b :: t => if c == b then some t else afterFirst c t

theorem isSubseq_cons (a : UInt8) (as out : Bytes) :
    isSubseq (a :: as) out = match afterFirst a out with
      | some r => isSubseq as r
      | none => false := by
  induction out with
  | nil => simp [isSubseq, afterFirst]
  | cons b t ih =>
    simp only [isSubseq, afterFirst]
    by_cases h : a = b
    · simp [h]
    · simp [h, ih]

theorem iter_loop (c : UInt8) (pre xs : Bytes) :
    Go.forRangeFrom (ρ := Option (Bool × Bytes)) (fun idx outputChar () =>
      if (c == outputChar) then (
        if !(Go.sliceOK (Go.len (pre ++ xs)) (idx + (1 : Int)) (Go.len (pre ++ xs))) then .ret none else
        .ret (some (true, (Go.slice (pre ++ xs) (idx + (1 : Int)) (Go.len (pre ++ xs))))))
      else (.next ())) (pre.length : Nat) xs ()
    = match afterFirst c xs with
      | some r => .ret (some (true, r))
      | none => .fin () := by
  induction xs generalizing pre with
  | nil => simp [Go.forRangeFrom, afterFirst]
  | cons b t ih =>
    simp only [Go.forRangeFrom, afterFirst]
    by_cases h : c = b
    · subst h
      have e : ((pre.length : Nat) : Int) + 1 = ((pre.length + 1 : Nat) : Int) := by omega
      have hok : Go.sliceOK (Go.len (pre ++ c :: t)) ((pre.length + 1 : Nat) : Int) (Go.len (pre ++ c :: t)) = true :=
        Go.sliceOK_from _ _ (by simp)
      simp only [beq_self_eq_true, if_true, e, hok, Go.slice_from]
      simp
    · have := ih (pre ++ [b])
      simp only [List.append_assoc, List.singleton_append, List.length_append, List.length_singleton,
        Int.natCast_add, Int.natCast_one] at this
      have hb : (c == b) = false := by simpa using h
      simp only [hb, Bool.false_eq_true, if_false]
      exact this

theorem iter_eq (c : UInt8) (out : Bytes) :
    Gen.Bodies.Util.bytesRoughlyContainsIterOutputForInputChar c out
      = some (match afterFirst c out with | some r => (true, r) | none => (false, out)) := by
  unfold Gen.Bodies.Util.bytesRoughlyContainsIterOutputForInputChar Go.forRange
  have := iter_loop c [] out
  simp only [List.nil_append, List.length_nil] at this
  rw [show ((0 : Nat) : Int) = 0 from rfl] at this
  rw [this]
  cases afterFirst c out <;> rfl

theorem outer_loop (input out : Bytes) (i : Int) :
    (match Go.forRangeFrom (ρ := Option Bool) (fun _ inputChar output => (
          let shouldContinue : Bool := false
          match (Gen.Bodies.Util.bytesRoughlyContainsIterOutputForInputChar inputChar output) with
          | none => .ret none
          | some (shouldContinue, output) => (
            if shouldContinue then (
              .next output)
            else (
              .ret (some false))))) i input out with
      | .ret r => r
      | .fin _ => some true) = some (isSubseq input out) := by
  simp only [iter_eq]
  induction input generalizing out i with
  | nil => cases out <;> simp [Go.forRangeFrom, isSubseq]
  | cons a as ih =>
    simp only [Go.forRangeFrom, isSubseq_cons]
    cases h : afterFirst a out with
    | none => simp
    | some r => simpa using ih r (i + 1)


end Scrapli.Chan
