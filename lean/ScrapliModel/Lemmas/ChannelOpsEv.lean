import ScrapliModel.ChannelOpsEv
import ScrapliModel.Lemmas.ChannelEv
/-!
# Lemmas about the phase-indexed event semantics of the channel operations
-/
namespace Scrapli.Chan
open Scrapli

/-- number of events still to come -/
def totalEv (phases : List (List Ev)) : Nat := (phases.map List.length).sum

theorem popPhase_len (phases : List (List Ev)) :
    (popPhase phases).1.length + totalEv (popPhase phases).2 = totalEv phases := by
  cases phases <;> simp [popPhase, totalEv]

theorem readUntilEv_rest_le (P : Bytes → Bool) (evs : List Ev) (rb : Bytes) (r : RRes) (rest : List Ev)
    (h : readUntilEv P evs rb = some (r, rest)) : rest.length ≤ evs.length := by
  induction evs generalizing rb with
  | nil => simp [readUntilEv] at h
  | cons ev es ih =>
    cases ev with
    | cancelled => simp [readUntilEv] at h; obtain ⟨_, rfl⟩ := h; simp
    | err e => simp [readUntilEv] at h; obtain ⟨_, rfl⟩ := h; simp
    | empty => simp only [readUntilEv] at h; have := ih rb h; simp; omega
    | chunk c =>
      simp only [readUntilEv] at h
      split at h
      · simp at h; obtain ⟨_, rfl⟩ := h; simp
      · have := ih _ h; simp; omega

theorem totalEv_pushBack (rest : List Ev) (ps : List (List Ev)) :
    totalEv (pushBack rest ps) = rest.length + totalEv ps := by
  cases ps <;> simp [pushBack, totalEv]; omega
theorem popPhase_fst_le (phases : List (List Ev)) : (popPhase phases).1.length ≤ totalEv phases := by
  have := popPhase_len phases; omega

/-- the four ways one read phase can go, for a translated reader `G` known to be `readUntilEv` -/
theorem read_cases (st : OpSt) (skip : Bool) (P : Bytes → Bool) (G : Option (Bytes × Go.Error × List Ev))
    (hG : G = if skip = true then some ([], none, (popPhase st.phases).1)
              else (readUntilEv P (popPhase st.phases).1 []).map RRes.encode) :
    (G = none ∧ st.read skip P = none) ∨
    (∃ rest, G = some ([], some cancelErr, rest) ∧
      st.read skip P = some (.cancelled, { st with phases := pushBack rest (popPhase st.phases).2 })) ∨
    (∃ e rest, G = some ([], some e, rest) ∧
      st.read skip P = some (.err e, { st with phases := pushBack rest (popPhase st.phases).2 })) ∨
    (∃ b rest, rest.length ≤ (popPhase st.phases).1.length ∧ G = some (b, none, rest) ∧
      st.read skip P = some (.ok b, { st with phases := pushBack rest (popPhase st.phases).2 })) := by
  subst hG
  unfold OpSt.read
  cases skip with
  | true => exact Or.inr (Or.inr (Or.inr ⟨[], _, Nat.le_refl _, by simp, by simp⟩))
  | false =>
    simp only [Bool.false_eq_true, if_false]
    cases hr : readUntilEv P (popPhase st.phases).1 [] with
    | none => exact Or.inl ⟨rfl, rfl⟩
    | some p =>
      obtain ⟨r, rest⟩ := p
      cases r with
      | ok rb =>
        exact Or.inr (Or.inr (Or.inr ⟨rb, rest, readUntilEv_rest_le _ _ _ _ _ hr, by simp [RRes.encode], rfl⟩))
      | cancelled => exact Or.inr (Or.inl ⟨rest, by simp [RRes.encode, cancelErr], rfl⟩)
      | err e => exact Or.inr (Or.inr (Or.inl ⟨e, rest, by simp [RRes.encode], rfl⟩))

end Scrapli.Chan
