import ScrapliModel.PrivFault
import ScrapliModel.Lemmas.PrivSession
/-!
# Lemmas about navigation steps that fail after the device has moved (`PrivFault.lean`)
-/
namespace Scrapli.Priv
open Scrapli Scrapli.Forest

theorem unamb_of_all {c : Cfg} (h : allUnamb c = true) {m : Bytes} (hm : m ∈ names c.L) :
    unambB c m = true := by
  simp only [allUnamb, List.all_eq_true] at h
  obtain ⟨l, hl, rfl⟩ := mem_names_iff.1 hm
  exact h l hl

/-- a state whose cache is the `UNKNOWN` sentinel satisfies the invariant wherever the device is -/
theorem inv_unknown {c : Cfg} (hd : Dom c) (hu : allUnamb c = true) {x : Bytes} (hx : x ∈ names c.L)
    (lg : List (Bytes × Bytes)) (t : Nat) :
    Inv c { dev := { mode := x, awaiting := none, log := lg }, cache := unknownPriv, tick := t } :=
  ⟨rfl, hx, fun h => absurd h hd.noUnknown, fun h => by simp [unamb_of_all hu hx] at h⟩

/-- without faults the fault-aware loop is the loop -/
theorem acquireLoopF_nofault (c : Cfg) (tgt : Bytes) : ∀ (fuel count : Nat) (s : Sess),
    acquireLoopF c true (fun _ => false) tgt fuel count s = acquireLoop c tgt fuel count s := by
  intro fuel
  induction fuel with
  | zero => intro count s; rfl
  | succ fuel ih =>
    intro count s
    rw [acquireLoopF.eq_def c true (fun _ => false) tgt (fuel + 1), acquireLoop.eq_def c tgt (fuel + 1)]
    simp only [Bool.false_eq_true, if_false, if_true]
    cases hp : processAcquire c.matchP (c.orc s.tick) c.L (getPrompt c s).snd.cache tgt
        (getPrompt c s).fst with
    | error e => rfl
    | ok st =>
      simp only
      cases ha : st.action with
      | noAction => rfl
      | escalate =>
        simp only
        generalize escalate c _ st.next = r
        obtain ⟨e, s3⟩ := r
        cases e with
        | some e => rfl
        | none =>
          simp only
          split
          · rfl
          · exact ih _ _
      | deescalate =>
        simp only
        generalize deescalate c _ st.next = r
        obtain ⟨e, s3⟩ := r
        cases e with
        | some e => rfl
        | none =>
          simp only
          split
          · rfl
          · exact ih _ _

/-- THE FAULT THEOREM (loop). With the reset BEFORE the command is sent, whatever steps fail after
the device moved, the loop ends in a state that satisfies the invariant (cache = the device's level,
or cache names no level), and when it reports success device and cache are at the target. -/
theorem acquireLoopF_inv {c : Cfg} (hd : Dom c) (hu : allUnamb c = true) (faults : Nat → Bool)
    {tgt : Bytes} (ht : tgt ∈ names c.L) : ∀ (fuel count : Nat) (s : Sess), Inv c s →
    Inv c (acquireLoopF c true faults tgt fuel count s).2 ∧
    ((acquireLoopF c true faults tgt fuel count s).1 = none →
      (acquireLoopF c true faults tgt fuel count s).2.dev.mode = tgt ∧
      (acquireLoopF c true faults tgt fuel count s).2.cache = tgt) := by
  intro fuel
  induction fuel with
  | zero => intro count s hi; exact ⟨hi, fun h => by simp [acquireLoopF] at h⟩
  | succ fuel ih =>
    intro count s hi
    have haw := hi.atPrompt
    obtain ⟨q, hq, hV⟩ := path_exists hd.tree hi.inLevel ht
    have hres : Resolves c s.cache tgt s.dev.mode := Or.inl (unamb_of_all hu hi.inLevel)
    cases q with
    | nil => simp [SimplePath] at hq
    | cons a t =>
      have ha : s.dev.mode = a := by have := hq.1; simp at this; exact this.symm
      cases t with
      | nil =>
        have hat : a = tgt := by have := hq.2.1; simpa using this
        subst hat
        simp only [acquireLoopF, getPrompt, dev_bare c s.dev haw]
        rw [ha]
        rw [processAcquire_same hd (hd.ord _) (ha ▸ hi.inLevel) _ (ha ▸ hres)]
        dsimp only
        exact ⟨⟨haw, ha ▸ hi.inLevel, fun _ => rfl, fun _ => rfl⟩, fun _ => ⟨rfl, rfl⟩⟩
      | cons x rest =>
        have hq' : SimplePath (par c.L) a tgt (a :: x :: rest) := ha ▸ hq
        have hstep := processAcquire_step hd (hd.ord s.tick) hq' hV s.cache (ha ▸ hres)
        have hx : x ∈ names c.L := hV x (by simp)
        simp only [acquireLoopF, getPrompt, dev_bare c s.dev haw, ↓reduceIte]
        rw [ha, hstep]
        by_cases hpar : par c.L a = some x
        · simp only [hpar, if_true]
          have := deescalate_ok hd
            (s := { dev := { s.dev with log := s.dev.log ++ [(a, [])] }, cache := unknownPriv,
                    tick := s.tick + 1 }) haw (p := x) (by simpa [ha] using hpar)
          simp only [ha] at this
          simp only [this]
          split
          · exact ⟨inv_unknown hd hu hx _ _, fun h => by cases h⟩
          · split
            · exact ⟨inv_unknown hd hu hx _ _, fun h => by cases h⟩
            · exact ih _ _ (inv_unknown hd hu hx _ _)
        · have hpar' : par c.L x = some a := by
            rcases hq'.2.2.1.1 with h | h
            · exact absurd h hpar
            · exact h
          simp only [hpar, if_false]
          have := escalate_ok hd
            (s := { dev := { s.dev with log := s.dev.log ++ [(a, [])] }, cache := unknownPriv,
                    tick := s.tick + 1 }) haw (x := x) (by simpa [ha] using hpar')
          simp only [ha] at this
          simp only [this]
          split
          · exact ⟨inv_unknown hd hu hx _ _, fun h => by cases h⟩
          · split
            · exact ⟨inv_unknown hd hu hx _ _, fun h => by cases h⟩
            · exact ih _ _ (inv_unknown hd hu hx _ _)

theorem acquirePrivF_inv {c : Cfg} (hd : Dom c) (hu : allUnamb c = true) (faults : Nat → Bool)
    (tgt : Bytes) (s : Sess) (hi : Inv c s) :
    Inv c (acquirePrivF c true faults tgt s).2 ∧
    ((acquirePrivF c true faults tgt s).1 = none →
      (acquirePrivF c true faults tgt s).2.dev.mode = tgt ∧
      (acquirePrivF c true faults tgt s).2.cache = tgt) := by
  unfold acquirePrivF
  cases hf : find? c.L tgt with
  | none => exact ⟨hi, fun h => by cases h⟩
  | some l => exact acquireLoopF_inv hd hu faults (mem_names_of_find? hf) _ _ s hi

/-- payload lines keep the invariant and are logged in the device's mode -/
theorem payload_keeps_inv {c : Cfg} {s : Sess} (hi : Inv c s) (ls : List Bytes)
    (hpl : ∀ l ∈ ls, l = [] ∨ isPayload c.L l = true) :
    Inv c (sendLines c ls s).2 ∧
    (sendLines c ls s).2.dev.log = s.dev.log ++ ls.map fun l => (s.dev.mode, l) := by
  rw [sendLines_payload c ls s hi.atPrompt hpl]
  exact ⟨⟨hi.atPrompt, hi.inLevel, hi.coherent, hi.tracked⟩, rfl⟩

/-- where an operation's payload goes, and which lines those are, given the state `s1` the
acquisition left (or the state itself when the acquisition is skipped) -/
def PayloadAt (c : Cfg) (op : Op) (s1 : Sess) (r : Option Err × Sess) : Prop :=
  s1.dev.mode = opLevel c op ∧ r.1 = opErr op ∧ Inv c r.2 ∧
  r.2.dev.log = s1.dev.log ++ (opLines op).map fun l => (opLevel c op, l)

theorem generic_payload {c : Cfg} {s : Sess} (hi : Inv c s) (ls : List Bytes)
    (hpl : ∀ l ∈ ls, l = [] ∨ isPayload c.L l = true) :
    (genericSendCommands c ls s).1 = (if ls = [] then some Err.noop else none) ∧
    Inv c (genericSendCommands c ls s).2 ∧
    (genericSendCommands c ls s).2.dev.log = s.dev.log ++ ls.map fun l => (s.dev.mode, l) := by
  rw [genericSendCommands_payload c ls s hi.atPrompt hpl]
  exact ⟨rfl, ⟨hi.atPrompt, hi.inLevel, hi.coherent, hi.tracked⟩, rfl⟩

/-- THE FAULT THEOREM (operations). From a state satisfying the invariant, for ANY fault pattern:
either the operation's acquisition failed — the operation returns an error, sent no payload line,
and the invariant holds again — or the acquisition left the device IN the operation's level, every
payload line is logged in that level, and the invariant holds. -/
theorem runOpF_spec {c : Cfg} (hd : Dom c) (hu : allUnamb c = true) (faults : Nat → Bool) {s : Sess}
    (hi : Inv c s) (op : Op) (hpl : ∀ l ∈ opLines op, l = [] ∨ isPayload c.L l = true)
    (hdef : c.default ∈ names c.L) :
    ∃ s1, Inv c s1 ∧
      (((runOpF c true faults s op).1 ≠ none ∧ (runOpF c true faults s op).2 = s1) ∨
       PayloadAt c op s1 (runOpF c true faults s op)) := by
  have hsend : ∀ (s1 : Sess) (cmd : Bytes), Inv c s1 → (cmd = [] ∨ isPayload c.L cmd = true) →
      (sendInput c s1 cmd).1 = none ∧ Inv c (sendInput c s1 cmd).2 ∧
      (sendInput c s1 cmd).2.dev.log = s1.dev.log ++ [(s1.dev.mode, cmd)] := by
    intro s1 cmd h1 hc
    rw [sendInput_payload c s1 h1.atPrompt hc]
    exact ⟨rfl, ⟨h1.atPrompt, h1.inLevel, h1.coherent, h1.tracked⟩, rfl⟩
  -- the two wrappers
  have wd : ∀ (k : Sess → Option Err × Sess) (e0 : Option Err) (ls : List Bytes),
      opLevel c op = c.default → opErr op = e0 → opLines op = ls →
      (∀ s1, Inv c s1 → (k s1).1 = e0 ∧ Inv c (k s1).2 ∧
        (k s1).2.dev.log = s1.dev.log ++ ls.map fun l => (s1.dev.mode, l)) →
      ∃ s1, Inv c s1 ∧
        (((withDefaultF c true faults s k).1 ≠ none ∧ (withDefaultF c true faults s k).2 = s1) ∨
         PayloadAt c op s1 (withDefaultF c true faults s k)) := by
    intro k e0 ls hlv he hl hk
    unfold withDefaultF
    by_cases hc : s.cache = c.default
    · simp only [hc, ne_eq, not_true_eq_false, if_false]
      have hmode : s.dev.mode = c.default := by rw [← hc]; exact hi.coherent (hc ▸ hdef)
      obtain ⟨h1, h2, h3⟩ := hk s hi
      exact ⟨s, hi, Or.inr ⟨hlv ▸ hmode, he ▸ h1, h2, by rw [h3, hl, hlv, hmode]⟩⟩
    · simp only [ne_eq, hc, not_false_eq_true, if_true]
      have hacq := acquirePrivF_inv hd hu faults c.default s hi
      cases hr : acquirePrivF c true faults c.default s with
      | mk e s1 =>
        rw [hr] at hacq
        cases e with
        | some e => exact ⟨s1, hacq.1, Or.inl ⟨by simp, rfl⟩⟩
        | none =>
          obtain ⟨hm, _⟩ := hacq.2 rfl
          obtain ⟨h1, h2, h3⟩ := hk s1 hacq.1
          simp only at hm
          exact ⟨s1, hacq.1, Or.inr ⟨hlv ▸ hm, he ▸ h1, h2, by rw [h3, hl, hlv, hm]⟩⟩
  have wt : ∀ (priv fb : Bytes) (k : Sess → Option Err × Sess) (e0 : Option Err) (ls : List Bytes),
      opLevel c op = (if priv = [] then fb else priv) → opErr op = e0 → opLines op = ls →
      (∀ s1, Inv c s1 → (k s1).1 = e0 ∧ Inv c (k s1).2 ∧
        (k s1).2.dev.log = s1.dev.log ++ ls.map fun l => (s1.dev.mode, l)) →
      ∃ s1, Inv c s1 ∧
        (((withTargetF c true faults priv fb s k).1 ≠ none ∧ (withTargetF c true faults priv fb s k).2 = s1) ∨
         PayloadAt c op s1 (withTargetF c true faults priv fb s k)) := by
    intro priv fb k e0 ls hlv he hl hk
    unfold withTargetF
    simp only
    have hacq := acquirePrivF_inv hd hu faults (if priv = [] then fb else priv) s hi
    cases hr : acquirePrivF c true faults (if priv = [] then fb else priv) s with
    | mk e s1 =>
      rw [hr] at hacq
      cases e with
      | some e => exact ⟨s1, hacq.1, Or.inl ⟨by simp, rfl⟩⟩
      | none =>
        obtain ⟨hm, _⟩ := hacq.2 rfl
        obtain ⟨h1, h2, h3⟩ := hk s1 hacq.1
        simp only at hm
        exact ⟨s1, hacq.1, Or.inr ⟨hlv ▸ hm, he ▸ h1, h2, by rw [h3, hl, hlv, hm]⟩⟩
  cases op with
  | sendCommand cmd =>
    exact wd _ none [cmd] rfl rfl rfl (fun s1 h1 => by
      obtain ⟨a, b, d⟩ := hsend s1 cmd h1 (hpl cmd (by simp [opLines])); exact ⟨a, b, by simpa using d⟩)
  | sendCommands cmds =>
    exact wd _ _ cmds rfl rfl rfl (fun s1 h1 => generic_payload h1 cmds hpl)
  | sendConfigs lines priv =>
    exact wt priv _ _ _ lines rfl rfl rfl (fun s1 h1 => generic_payload h1 lines hpl)
  | sendConfig cfg priv =>
    exact wt priv _ _ _ (splitLF cfg) rfl rfl rfl (fun s1 h1 => generic_payload h1 (splitLF cfg) hpl)
  | acquirePriv t =>
    have hacq := acquirePrivF_inv hd hu faults t s hi
    simp only [runOpF]
    cases hr : acquirePrivF c true faults t s with
    | mk e s1 =>
      rw [hr] at hacq
      cases e with
      | some e => exact ⟨s1, hacq.1, Or.inl ⟨by simp, rfl⟩⟩
      | none =>
        obtain ⟨hm, _⟩ := hacq.2 rfl
        exact ⟨s1, hacq.1, Or.inr ⟨hm, rfl, hacq.1, by simp [opLines]⟩⟩
  | sendInteractive inputs priv =>
    exact wt priv _ _ none inputs rfl rfl rfl (fun s1 h1 => by
      obtain ⟨a, b⟩ := payload_keeps_inv h1 inputs hpl
      refine ⟨?_, a, b⟩
      rw [sendLines_payload c inputs s1 h1.atPrompt hpl])

end Scrapli.Priv
