import ScrapliModel.Netconf.Store
/-! Helper lemmas for property C08: scanner facts (LF prefixes, append stability), the walk of the
read loop over one server message, and the store/fetch bookkeeping. -/
namespace Scrapli.Netconf.Store
open Scrapli

/-! ## generic byte-string facts -/

theorem hasPrefix_append_left {s p : Bytes} (x : Bytes) (h : hasPrefix s p = true) :
    hasPrefix (s ++ x) p = true := by
  induction s generalizing p with
  | nil => cases p with
    | nil => simp [hasPrefix]
    | cons b p => simp [hasPrefix] at h
  | cons a s ih => cases p with
    | nil => simp [hasPrefix]
    | cons b p =>
      simp only [hasPrefix, Bool.and_eq_true, List.cons_append] at h ⊢
      exact ⟨h.1, ih h.2⟩

theorem hasPrefix_length {s p : Bytes} (h : hasPrefix s p = true) : p.length ≤ s.length := by
  induction s generalizing p with
  | nil => cases p with
    | nil => simp
    | cons b p => simp [hasPrefix] at h
  | cons a s ih => cases p with
    | nil => simp
    | cons b p =>
      simp only [hasPrefix, Bool.and_eq_true] at h
      have := ih h.2
      simp only [List.length_cons]; omega

theorem isInfix_append_left {n a : Bytes} (b : Bytes) (h : isInfix n a = true) :
    isInfix n (a ++ b) = true := by
  induction a with
  | nil =>
    simp only [isInfix, List.isEmpty_iff] at h
    subst h
    cases b <;> simp [isInfix, hasPrefix]
  | cons c t ih =>
    simp only [isInfix, Bool.or_eq_true, List.cons_append] at h ⊢
    rcases h with h | h
    · exact Or.inl (hasPrefix_append_left b h)
    · exact Or.inr (ih h)

theorem allLF_append {a b : Bytes} : allLF (a ++ b) = (allLF a && allLF b) := by
  simp [allLF, List.all_append]

theorem allLF_cons {c : UInt8} {a : Bytes} : allLF (c :: a) = (c == LF && allLF a) := by
  simp [allLF]

theorem allLF_take {a : Bytes} (k : Nat) (h : allLF a = true) : allLF (a.take k) = true := by
  simp only [allLF, List.all_eq_true] at h ⊢
  exact fun x hx => h x (List.mem_of_mem_take hx)

theorem allLF_startsLF {a : Bytes} (h : allLF a = true) : startsLFOrEmpty a = true := by
  cases a with
  | nil => rfl
  | cons c t => simp only [allLF_cons, Bool.and_eq_true] at h; simpa [startsLFOrEmpty] using h.1

theorem startsLF_of_append {a b : Bytes} (h : startsLFOrEmpty (a ++ b) = true) :
    startsLFOrEmpty a = true := by
  cases a with
  | nil => rfl
  | cons c t => simpa [startsLFOrEmpty] using h

theorem startsLF_append {a b : Bytes} (ha : allLF a = true) (hb : startsLFOrEmpty b = true) :
    startsLFOrEmpty (a ++ b) = true := by
  cases a with
  | nil => simpa using hb
  | cons c t => simp only [allLF_cons, Bool.and_eq_true] at ha; simpa [startsLFOrEmpty] using ha.1

/-! ## `</rpc>` -/

theorem containsRpcClose_lf (x : Bytes) : containsRpcClose (LF :: x) = containsRpcClose x := by
  simp [containsRpcClose, isInfix, rpcCloseTag, hasPrefix, LF]

theorem containsRpcClose_lfs {lf : Bytes} (x : Bytes) (h : allLF lf = true) :
    containsRpcClose (lf ++ x) = containsRpcClose x := by
  induction lf with
  | nil => rfl
  | cons c t ih =>
    simp only [allLF_cons, Bool.and_eq_true, beq_iff_eq] at h
    rw [h.1, List.cons_append, containsRpcClose_lf, ih h.2]

theorem containsRpcClose_append {a : Bytes} (b : Bytes) (h : containsRpcClose a = true) :
    containsRpcClose (a ++ b) = true := isInfix_append_left b h

theorem containsRpcClose_prefix {a b : Bytes} (h : containsRpcClose (a ++ b) = false) :
    containsRpcClose a = false := by
  cases hc : containsRpcClose a with
  | false => rfl
  | true => rw [containsRpcClose_append b hc] at h; exact absurd h (by decide)

/-! ## delimiters -/

theorem delim10_eq : delim10 = [93, 93, 62, 93, 93, 62] := by decide

theorem hashLineHere_lf (x : Bytes) : hashLineHere (LF :: x) = false := by
  cases x <;> simp [hashLineHere, LF, HASH]

theorem delimMatch_nil (v : Ver) : delimMatch v [] = false := by
  cases v <;> simp [delimMatch, isInfix, delim10_eq, match11From]

theorem delimMatch_lf (v : Ver) (x : Bytes) : delimMatch v (LF :: x) = delimMatch v x := by
  cases v with
  | v10 => simp [delimMatch, isInfix, delim10_eq, hasPrefix, LF]
  | v11 => simp [delimMatch, match11From, hashLineHere_lf]

theorem delimMatch_lfs (v : Ver) {lf : Bytes} (x : Bytes) (h : allLF lf = true) :
    delimMatch v (lf ++ x) = delimMatch v x := by
  induction lf with
  | nil => rfl
  | cons c t ih =>
    simp only [allLF_cons, Bool.and_eq_true, beq_iff_eq] at h
    rw [h.1, List.cons_append, delimMatch_lf, ih h.2]

theorem delimMatch_allLF (v : Ver) {lf : Bytes} (h : allLF lf = true) : delimMatch v lf = false := by
  have := delimMatch_lfs v [] h
  simpa [delimMatch_nil] using this

theorem hashLineHere_append {b : Bytes} (x : Bytes) (hb : b ≠ []) (hx : startsLFOrEmpty x = true) :
    hashLineHere (b ++ x) = hashLineHere b := by
  match b, hb with
  | [a], _ =>
    cases x with
    | nil => rfl
    | cons d t =>
      simp only [startsLFOrEmpty, beq_iff_eq] at hx
      subst hx
      cases t <;> simp [hashLineHere, LF, HASH]
  | [a, c], _ =>
    cases x with
    | nil => rfl
    | cons d t =>
      simp only [startsLFOrEmpty, beq_iff_eq] at hx
      subst hx
      simp [hashLineHere]
  | a :: c :: d :: t, _ => simp [hashLineHere]

theorem match11From_append {ls : Bool} {b : Bytes} (x : Bytes) (hx : startsLFOrEmpty x = true)
    (h : match11From ls b = true) : match11From ls (b ++ x) = true := by
  induction b generalizing ls with
  | nil => simp [match11From] at h
  | cons c t ih =>
    simp only [match11From, Bool.or_eq_true, Bool.and_eq_true, List.cons_append] at h ⊢
    rcases h with h | h
    · left
      refine ⟨h.1, ?_⟩
      have := hashLineHere_append (b := c :: t) x (by simp) hx
      rw [List.cons_append] at this
      rw [this]; exact h.2
    · exact Or.inr (ih h)

theorem delimMatch_append {v : Ver} {b : Bytes} (x : Bytes)
    (hx : v = .v10 ∨ startsLFOrEmpty x = true) (h : delimMatch v b = true) :
    delimMatch v (b ++ x) = true := by
  cases v with
  | v10 => exact isInfix_append_left x h
  | v11 =>
    rcases hx with hx | hx
    · cases hx
    · exact match11From_append x hx h

theorem hasPrefix_of_append {s p : Bytes} (x : Bytes) (h : hasPrefix (s ++ x) p = true)
    (hl : p.length ≤ s.length) : hasPrefix s p = true := by
  induction s generalizing p with
  | nil => cases p with
    | nil => simp [hasPrefix]
    | cons b p => simp at hl
  | cons a s ih => cases p with
    | nil => simp [hasPrefix]
    | cons b p =>
      simp only [hasPrefix, Bool.and_eq_true, List.cons_append, List.length_cons] at h hl ⊢
      exact ⟨h.1, ih h.2 (by omega)⟩

theorem afterFirst_length {n b r : Bytes} (h : afterFirst n b = some r) : n.length ≤ b.length := by
  induction b with
  | nil =>
    simp only [afterFirst] at h
    split at h
    · rename_i hn; simp only [List.isEmpty_iff] at hn; subst hn; simp
    · cases h
  | cons c t ih =>
    simp only [afterFirst] at h
    split at h
    · rename_i hp; exact hasPrefix_length hp
    · have := ih h; simp only [List.length_cons]; omega

theorem afterFirst_append {n b r : Bytes} (x : Bytes) (h : afterFirst n b = some r) :
    afterFirst n (b ++ x) = some (r ++ x) := by
  induction b with
  | nil =>
    simp only [afterFirst] at h
    split at h
    · rename_i hn
      simp only [List.isEmpty_iff] at hn
      subst hn
      cases h
      cases x <;> simp [afterFirst, hasPrefix]
    · cases h
  | cons c t ih =>
    simp only [afterFirst, List.cons_append] at h ⊢
    split at h
    · rename_i hp
      have hp' := hasPrefix_append_left x hp
      rw [List.cons_append] at hp'
      rw [if_pos hp']
      cases h
      have hl := hasPrefix_length hp
      congr 1
      rw [← List.cons_append, List.drop_append_of_le_length hl]
    · rename_i hp
      have hlen := afterFirst_length h
      have hq : ¬ hasPrefix (c :: (t ++ x)) n = true := by
        intro hq
        rw [← List.cons_append] at hq
        exact hp (hasPrefix_of_append x hq (by simp only [List.length_cons]; omega))
      rw [if_neg hq]; exact ih h

theorem after11From_append {ls : Bool} {b r : Bytes} (x : Bytes) (hx : startsLFOrEmpty x = true)
    (h : after11From ls b = some r) : after11From ls (b ++ x) = some (r ++ x) := by
  induction b generalizing ls with
  | nil => simp [after11From] at h
  | cons c t ih =>
    have hh := hashLineHere_append (b := c :: t) x (by simp) hx
    rw [List.cons_append] at hh
    simp only [after11From, List.cons_append, hh] at h ⊢
    split at h
    · rename_i hc
      rw [if_pos hc]
      cases h
      congr 1
      -- the line is `##…`, so `t` is not empty
      cases t with
      | nil => simp [hashLineHere] at hc
      | cons d t' => simp
    · rename_i hc
      rw [if_neg hc]; exact ih h

theorem afterFirstOpt_lf (v : Ver) (x : Bytes) : afterFirstOpt v (LF :: x) = afterFirstOpt v x := by
  cases v with
  | v10 => simp [afterFirstOpt, afterFirst, delim10_eq, hasPrefix, LF]
  | v11 => simp [afterFirstOpt, after11From, hashLineHere_lf]

theorem afterFirstOpt_lfs (v : Ver) {lf : Bytes} (x : Bytes) (h : allLF lf = true) :
    afterFirstOpt v (lf ++ x) = afterFirstOpt v x := by
  induction lf with
  | nil => rfl
  | cons c t ih =>
    simp only [allLF_cons, Bool.and_eq_true, beq_iff_eq] at h
    rw [h.1, List.cons_append, afterFirstOpt_lf, ih h.2]

theorem afterFirstOpt_append {v : Ver} {b r : Bytes} (x : Bytes)
    (hx : v = .v10 ∨ startsLFOrEmpty x = true) (h : afterFirstOpt v b = some r) :
    afterFirstOpt v (b ++ x) = some (r ++ x) := by
  cases v with
  | v10 => exact afterFirst_append x h
  | v11 =>
    rcases hx with hx | hx
    · cases hx
    · exact after11From_append x hx h

/-! ## message-id -/

theorem idHere_lf (x : Bytes) : idHere (LF :: x) = none := by
  simp [idHere, midPrefix, dropFold, LF]

theorem firstId_lf (x : Bytes) : firstId (LF :: x) = firstId x := by
  simp [firstId, idHere_lf]

theorem firstId_lfs {lf : Bytes} (x : Bytes) (h : allLF lf = true) : firstId (lf ++ x) = firstId x := by
  induction lf with
  | nil => rfl
  | cons c t ih =>
    simp only [allLF_cons, Bool.and_eq_true, beq_iff_eq] at h
    rw [h.1, List.cons_append, firstId_lf, ih h.2]

theorem dropFold_append {p : List (UInt8 × UInt8)} {b r : Bytes} (x : Bytes)
    (h : dropFold p b = some r) : dropFold p (b ++ x) = some (r ++ x) := by
  induction p generalizing b with
  | nil => simp only [dropFold] at h ⊢; cases h; rfl
  | cons q p ih =>
    obtain ⟨lo, up⟩ := q
    cases b with
    | nil => simp [dropFold] at h
    | cons c t =>
      simp only [dropFold, List.cons_append] at h ⊢
      split at h
      · rename_i hc; rw [if_pos hc]; exact ih h
      · cases h

theorem dropWhile_append_of_stop {p : UInt8 → Bool} {l : Bytes} {q : UInt8} {r : Bytes} (x : Bytes)
    (h : l.dropWhile p = q :: r) :
    (l ++ x).dropWhile p = q :: (r ++ x) ∧ (l ++ x).takeWhile p = l.takeWhile p := by
  induction l with
  | nil => simp at h
  | cons a t ih =>
    by_cases ha : p a = true
    · simp only [List.dropWhile_cons, ha, if_true] at h
      have := ih h
      simp [ha, this.1, this.2]
    · simp only [List.dropWhile_cons, ha] at h
      simp only [Bool.false_eq_true, if_false] at h
      cases h
      simp [ha]

theorem dropFold_none_append_lf {p : List (UInt8 × UInt8)} {b : Bytes}
    (hp : ∀ q ∈ p, (LF == q.1 || LF == q.2) = false) (h : dropFold p b = none) :
    dropFold p (b ++ [LF]) = none := by
  induction p generalizing b with
  | nil => simp [dropFold] at h
  | cons q p ih =>
    obtain ⟨lo, up⟩ := q
    cases b with
    | nil =>
      have := hp (lo, up) (by simp)
      simp only at this
      simp [dropFold, this]
    | cons c t =>
      simp only [dropFold, List.cons_append] at h ⊢
      split at h
      · rename_i hc; rw [if_pos hc]; exact ih (fun q hq => hp q (by simp [hq])) h
      · rename_i hc; rw [if_neg hc]

theorem dropWhile_append_of_all {p : UInt8 → Bool} {l : Bytes} (a : UInt8) (ha : p a = false)
    (h : l.dropWhile p = []) : (l ++ [a]).dropWhile p = [a] := by
  induction l with
  | nil => simp [ha]
  | cons b t ih =>
    by_cases hb : p b = true
    · simp only [List.dropWhile_cons, hb, if_true] at h
      simp [hb, ih h]
    · simp [hb] at h

theorem dropWhile_append_of_all_true {p : UInt8 → Bool} {l : Bytes} (a : UInt8) (ha : p a = true)
    (h : l.dropWhile p = []) : (l ++ [a]).dropWhile p = [] := by
  induction l with
  | nil => simp [ha]
  | cons b t ih =>
    by_cases hb : p b = true
    · simp only [List.dropWhile_cons, hb, if_true] at h
      simp [hb, ih h]
    · simp [hb] at h

theorem idTail_append_lf (r0 : Bytes) : idTail (r0 ++ [LF]) = idTail r0 := by
  unfold idTail
  cases h1 : r0.dropWhile isWsB with
  | nil => rw [dropWhile_append_of_all_true LF (by decide) h1]
  | cons e r1 =>
    rw [(dropWhile_append_of_stop [LF] h1).1]
    simp only
    by_cases he : (e == EQ) = true
    · rw [if_pos he, if_pos he]
      cases h2 : r1.dropWhile isWsB with
      | nil => rw [dropWhile_append_of_all_true LF (by decide) h2]
      | cons q rest =>
        rw [(dropWhile_append_of_stop [LF] h2).1]
        simp only
        by_cases hq : isQuoteB q = true
        · rw [if_pos hq, if_pos hq]
          cases h3 : rest.dropWhile isDigit with
          | nil =>
            rw [dropWhile_append_of_all LF (by decide) h3]
            simp [LF, isQuoteB]
          | cons q2 t =>
            have := dropWhile_append_of_stop [LF] h3
            rw [this.1, this.2]
        · rw [if_neg hq, if_neg hq]
    · rw [if_neg he, if_neg he]

theorem idHere_append_lf (b : Bytes) : idHere (b ++ [LF]) = idHere b := by
  unfold idHere
  cases hd : dropFold midPrefix b with
  | none =>
    rw [dropFold_none_append_lf (by decide) hd]
  | some rest =>
    rw [dropFold_append [LF] hd]
    exact idTail_append_lf rest

theorem firstId_append_lf (b : Bytes) : firstId (b ++ [LF]) = firstId b := by
  induction b with
  | nil => simp [firstId, idHere_lf]
  | cons c t ih =>
    have := idHere_append_lf (c :: t)
    rw [List.cons_append] at this
    simp only [firstId, List.cons_append, this, ih]

theorem firstId_append_lfs (b : Bytes) {lf : Bytes} (h : allLF lf = true) :
    firstId (b ++ lf) = firstId b := by
  induction lf generalizing b with
  | nil => simp
  | cons c t ih =>
    simp only [allLF_cons, Bool.and_eq_true, beq_iff_eq] at h
    rw [h.1]
    have : b ++ LF :: t = (b ++ [LF]) ++ t := by simp
    rw [this, ih _ h.2, firstId_append_lf]

/-! ## the read loop walking over one server message -/

/-- no proper prefix of the framed message satisfies the delimiter matcher -/
def NoEarly (v : Ver) (body : Bytes) : Prop :=
  ∀ p s, body = p ++ s → s ≠ [] → delimMatch v p = false

theorem noEarly_of_bool {v : Ver} {body : Bytes} (h : noEarlyFire v body = true) : NoEarly v body := by
  intro p s hb hs
  simp only [noEarlyFire, List.all_eq_true, List.mem_range, Bool.not_eq_true'] at h
  have hlen : p.length < body.length := by
    rw [hb, List.length_append]
    have : 0 < s.length := List.length_pos_iff.mpr hs
    omega
  have := h p.length hlen
  rwa [hb, List.take_left'] at this
  rfl

theorem noEarly_lfs {v : Ver} {lf body : Bytes} (hlf : allLF lf = true) (h : NoEarly v body) :
    NoEarly v (lf ++ body) := by
  induction lf with
  | nil => simpa using h
  | cons c t ih =>
    simp only [allLF_cons, Bool.and_eq_true, beq_iff_eq] at hlf
    intro p s hb hs
    cases p with
    | nil => exact delimMatch_nil v
    | cons d p' =>
      simp only [List.cons_append, List.cons.injEq] at hb
      rw [← hb.1, hlf.1, delimMatch_lf]
      exact ih hlf.2 p' s hb.2 hs

theorem bufStep_nofire {v : Ver} {buf c : Bytes} (h : delimMatch v (buf ++ c) = false) :
    bufStep v buf c = (buf ++ c, none) := by
  simp [bufStep, h]

theorem filings_cons (v : Ver) (buf c : Bytes) (cs : List Bytes) :
    filings v buf (c :: cs) =
      ((bufStep v buf c).2.toList ++ (filings v (bufStep v buf c).1 cs).1,
       (filings v (bufStep v buf c).1 cs).2) := rfl

theorem filings_append (v : Ver) (buf : Bytes) (a b : List Bytes) :
    filings v buf (a ++ b) =
      ((filings v buf a).1 ++ (filings v (filings v buf a).2 b).1, (filings v (filings v buf a).2 b).2) := by
  induction a generalizing buf with
  | nil => simp [filings]
  | cons c cs ih =>
    simp only [List.cons_append, filings_cons, ih, List.append_assoc]

theorem allLF_of_flatten {cs : List Bytes} (h : allLF cs.flatten = true) : ∀ c ∈ cs, allLF c = true := by
  intro c hc
  simp only [allLF, List.all_eq_true] at h ⊢
  intro x hx
  exact h x (List.mem_flatten.mpr ⟨c, hc, hx⟩)

theorem filings_tail (v : Ver) {buf : Bytes} {cs : List Bytes} (hb : allLF buf = true)
    (hcs : ∀ c ∈ cs, allLF c = true) : filings v buf cs = ([], buf ++ cs.flatten) := by
  induction cs generalizing buf with
  | nil => simp [filings]
  | cons c cs ih =>
    have hbc : allLF (buf ++ c) = true := by
      rw [allLF_append, hb, hcs c (by simp)]; rfl
    rw [filings_cons, bufStep_nofire (delimMatch_allLF v hbc)]
    simp only [Option.toList, List.nil_append]
    rw [ih hbc (fun c' hc' => hcs c' (by simp [hc']))]
    simp

/-- what the read loop does with the chunk that completes a reply -/
theorem bufStep_reply {v : Ver} {r : Reply} {lf a : Bytes} (hr : goodReply v r = true)
    (hlf : allLF lf = true) (y : Bytes) (ht : r.tail = a ++ y) (buf c : Bytes)
    (hb : buf ++ c = (lf ++ r.body) ++ a) :
    bufStep v buf c = ([], some (r.to, lf ++ r.body ++ a)) := by
  simp only [goodReply, Bool.and_eq_true, Bool.not_eq_true', beq_iff_eq, bne_iff_ne, ne_eq,
    Bool.or_eq_true] at hr
  obtain ⟨⟨⟨⟨⟨⟨htl, hnc⟩, _⟩, hfire⟩, hid⟩, hne⟩, hstart⟩ := hr
  have ha : allLF a = true := by
    rw [ht, allLF_append, Bool.and_eq_true] at htl; exact htl.1
  have hfire' : delimMatch v ((lf ++ r.body) ++ a) = true := by
    rw [List.append_assoc, delimMatch_lfs v _ hlf]
    exact delimMatch_append a (Or.inr (allLF_startsLF ha)) hfire
  have hnc' : containsRpcClose ((lf ++ r.body) ++ a) = false := by
    rw [List.append_assoc, containsRpcClose_lfs _ hlf]
    apply containsRpcClose_prefix (b := y)
    rw [List.append_assoc, ← ht]; exact hnc
  have hid' : firstId ((lf ++ r.body) ++ a) = some r.to := by
    rw [List.append_assoc, firstId_lfs _ hlf, firstId_append_lfs _ ha]; exact hid
  simp only [bufStep, hb, hfire', hnc', hid', if_true, Bool.false_eq_true, if_false]
  simp [hne]

theorem walk_reply {v : Ver} {r : Reply} {lf : Bytes} (hr : goodReply v r = true)
    (hlf : allLF lf = true) :
    ∀ (cs : List Bytes) (x0 : Bytes), x0 ++ cs.flatten = (lf ++ r.body) ++ r.tail →
      ((∃ s, s ≠ [] ∧ lf ++ r.body = x0 ++ s) ∨ cs ≠ []) →
      ∃ j, filings v x0 cs = ([(r.to, lf ++ r.body ++ r.tail.take j)], r.tail.drop j) := by
  have hr' := hr
  simp only [goodReply, Bool.and_eq_true, Bool.not_eq_true', beq_iff_eq, bne_iff_ne, ne_eq,
    Bool.or_eq_true] at hr'
  obtain ⟨⟨⟨⟨⟨⟨htl, _⟩, hne0⟩, _⟩, _⟩, _⟩, _⟩ := hr'
  have hNE : NoEarly v (lf ++ r.body) := noEarly_lfs hlf (noEarly_of_bool hne0)
  intro cs
  induction cs with
  | nil =>
    intro x0 hx hs
    rcases hs with ⟨s, hs, hsplit⟩ | hs
    · exfalso
      simp only [List.flatten_nil, List.append_nil] at hx
      -- x0 = x0 ++ s ++ tail is impossible for s ≠ []
      have e1 := congrArg List.length hsplit
      have e2 := congrArg List.length hx
      simp only [List.length_append] at e1 e2
      have e3 : 0 < s.length := List.length_pos_iff.mpr hs
      omega
    · exact absurd rfl hs
  | cons c cs ih =>
    intro x0 hx _
    simp only [List.flatten_cons] at hx
    rw [← List.append_assoc] at hx
    rcases List.append_eq_append_iff.mp hx with ⟨a', h1, h2⟩ | ⟨c', h1, h2⟩
    · -- (lf ++ body) = (x0 ++ c) ++ a'
      by_cases ha' : a' = []
      · subst ha'
        simp only [List.append_nil] at h1 h2
        have := bufStep_reply hr hlf r.tail (a := []) (by simp) x0 c (by simpa using h1.symm)
        refine ⟨0, ?_⟩
        rw [filings_cons, this]
        simp only [Option.toList, List.take_zero, List.append_nil, List.drop_zero]
        have hcs : ∀ c ∈ cs, allLF c = true := allLF_of_flatten (by rw [h2]; exact htl)
        rw [filings_tail v (by rfl) hcs]
        simp [h2]
      · have hnf : delimMatch v (x0 ++ c) = false := hNE (x0 ++ c) a' h1 ha'
        rw [filings_cons, bufStep_nofire hnf]
        simp only [Option.toList, List.nil_append]
        have := ih (x0 ++ c) (by rw [h2, ← List.append_assoc, ← h1]) (Or.inl ⟨a', ha', h1⟩)
        exact this
    · -- x0 ++ c = (lf ++ body) ++ c' and tail = c' ++ cs.flatten
      have := bufStep_reply hr hlf cs.flatten (a := c') h2 x0 c h1
      refine ⟨c'.length, ?_⟩
      rw [filings_cons, this]
      have htl' := htl
      rw [h2, allLF_append, Bool.and_eq_true] at htl'
      have hcs : ∀ c ∈ cs, allLF c = true := allLF_of_flatten htl'.2
      rw [filings_tail v (by rfl) hcs]
      simp [h2]

/-- what the read loop does with the chunk that completes the echo of a request -/
theorem bufStep_echo {v : Ver} {e : Echo} {lf a : Bytes} (he : goodEcho v e = true)
    (hlf : allLF lf = true) (ha : v = .v10 ∨ startsLFOrEmpty a = true) (buf c : Bytes)
    (hb : buf ++ c = (lf ++ e.body) ++ a) : bufStep v buf c = (a, none) := by
  simp only [goodEcho, Bool.and_eq_true, beq_iff_eq] at he
  obtain ⟨⟨⟨⟨_, hc⟩, _⟩, hfire⟩, hafter⟩ := he
  have hfire' : delimMatch v ((lf ++ e.body) ++ a) = true := by
    rw [List.append_assoc, delimMatch_lfs v _ hlf]
    exact delimMatch_append a ha hfire
  have hc' : containsRpcClose ((lf ++ e.body) ++ a) = true := by
    rw [List.append_assoc, containsRpcClose_lfs _ hlf]
    exact containsRpcClose_append a hc
  have haf : afterFirstDelim v ((lf ++ e.body) ++ a) = a := by
    unfold afterFirstDelim
    rw [List.append_assoc, afterFirstOpt_lfs v _ hlf, afterFirstOpt_append a ha hafter]
    simp
  simp only [bufStep, hb, hfire', hc', haf, if_true]

theorem walk_echo {v : Ver} {e : Echo} {lf : Bytes} (he : goodEcho v e = true)
    (hlf : allLF lf = true) (rest : Bytes) (hrest : v = .v10 ∨ startsLFOrEmpty rest = true) :
    ∀ (cs : List Bytes) (x0 : Bytes), x0 ++ cs.flatten = (lf ++ e.body) ++ rest →
      (∃ s, s ≠ [] ∧ lf ++ e.body = x0 ++ s) →
      ∃ x pre c cs2, cs = pre ++ c :: cs2 ∧ c ≠ [] ∧ x ++ cs2.flatten = rest ∧
        filings v x0 cs = filings v x cs2 := by
  have he' := he
  simp only [goodEcho, Bool.and_eq_true, beq_iff_eq] at he'
  obtain ⟨⟨⟨⟨_, _⟩, hne0⟩, _⟩, _⟩ := he'
  have hNE : NoEarly v (lf ++ e.body) := noEarly_lfs hlf (noEarly_of_bool hne0)
  intro cs
  induction cs with
  | nil =>
    intro x0 hx ⟨s, hs, hsplit⟩
    exfalso
    simp only [List.flatten_nil, List.append_nil] at hx
    have e1 := congrArg List.length hsplit
    have e2 := congrArg List.length hx
    simp only [List.length_append] at e1 e2
    have e3 : 0 < s.length := List.length_pos_iff.mpr hs
    omega
  | cons c cs ih =>
    intro x0 hx ⟨s, hs, hsplit⟩
    simp only [List.flatten_cons] at hx
    rw [← List.append_assoc] at hx
    have hfireCase : ∀ c', x0 ++ c = (lf ++ e.body) ++ c' → rest = c' ++ cs.flatten →
        ∃ x pre c1 cs2, c :: cs = pre ++ c1 :: cs2 ∧ c1 ≠ [] ∧ x ++ cs2.flatten = rest ∧
          filings v x0 (c :: cs) = filings v x cs2 := by
      intro c' h1 h2
      have hc' : v = .v10 ∨ startsLFOrEmpty c' = true := by
        rcases hrest with h | h
        · exact Or.inl h
        · rw [h2] at h; exact Or.inr (startsLF_of_append h)
      have hstep := bufStep_echo he hlf hc' x0 c h1
      refine ⟨c', [], c, cs, rfl, ?_, h2.symm, ?_⟩
      · intro hcn
        subst hcn
        have e1 := congrArg List.length hsplit
        have e2 := congrArg List.length h1
        simp only [List.length_append, List.length_nil] at e1 e2
        have e3 : 0 < s.length := List.length_pos_iff.mpr hs
        omega
      · rw [filings_cons, hstep]; simp
    rcases List.append_eq_append_iff.mp hx with ⟨a', h1, h2⟩ | ⟨c', h1, h2⟩
    · by_cases ha' : a' = []
      · subst ha'
        simp only [List.append_nil] at h1
        exact hfireCase [] (by simpa using h1.symm) (by simpa using h2.symm)
      · have hnf : delimMatch v (x0 ++ c) = false := hNE (x0 ++ c) a' h1 ha'
        obtain ⟨x, pre, c1, cs2, hcs, hc1, hxr, hf⟩ :=
          ih (x0 ++ c) (by rw [h2, ← List.append_assoc, ← h1]) ⟨a', ha', h1⟩
        refine ⟨x, c :: pre, c1, cs2, by rw [hcs]; rfl, hc1, hxr, ?_⟩
        rw [filings_cons, bufStep_nofire hnf]
        simp only [Option.toList, List.nil_append]
        exact hf
    · exact hfireCase c' h1 h2

/-! ## deliveries -/

/-- the filed message is the reply itself (after line feeds left over from earlier messages, up to
some point of its trailing line feeds), filed under the id of the request it answers -/
def FiledFor (f : Nat × Bytes) (r : Reply) : Prop :=
  f.1 = r.to ∧ ∃ lf j, allLF lf = true ∧ f.2 = lf ++ r.body ++ r.tail.take j

/-- the list of filed messages matches the list of replies one to one, in order -/
inductive AllFiled : List (Nat × Bytes) → List Reply → Prop
  | nil : AllFiled [] []
  | cons {f r fs rs} : FiledFor f r → AllFiled fs rs → AllFiled (f :: fs) (r :: rs)

theorem AllFiled.append {f1 f2 r1 r2} (h1 : AllFiled f1 r1) (h2 : AllFiled f2 r2) :
    AllFiled (f1 ++ f2) (r1 ++ r2) := by
  induction h1 with
  | nil => exact h2
  | cons h _ ih => exact AllFiled.cons h ih

theorem AllFiled.mem {fs rs} (h : AllFiled fs rs) {f} (hf : f ∈ fs) : ∃ r ∈ rs, FiledFor f r := by
  induction h with
  | nil => simp at hf
  | cons h _ ih =>
    simp only [List.mem_cons] at hf
    rcases hf with hf | hf
    · subst hf; exact ⟨_, by simp, h⟩
    · obtain ⟨r, hr, hfr⟩ := ih hf
      exact ⟨r, by simp [hr], hfr⟩

theorem AllFiled.length {fs rs} (h : AllFiled fs rs) : fs.length = rs.length := by
  induction h with
  | nil => rfl
  | cons _ _ ih => simp [ih]

theorem goodReply_body_ne {v : Ver} {r : Reply} (hr : goodReply v r = true) : r.body ≠ [] := by
  simp only [goodReply, Bool.and_eq_true] at hr
  intro h
  have := hr.1.1.1.2
  rw [h, delimMatch_nil] at this
  exact absurd this (by decide)

theorem goodEcho_body_ne {v : Ver} {e : Echo} (he : goodEcho v e = true) : e.body ≠ [] := by
  simp only [goodEcho, Bool.and_eq_true] at he
  intro h
  have := he.1.2
  rw [h, delimMatch_nil] at this
  exact absurd this (by decide)

theorem goodReply_starts {v : Ver} {r : Reply} (hr : goodReply v r = true) :
    v = .v10 ∨ startsLFOrEmpty (r.body ++ r.tail) = true := by
  have hne := goodReply_body_ne hr
  simp only [goodReply, Bool.and_eq_true, Bool.or_eq_true, beq_iff_eq] at hr
  rcases hr.2 with h | h
  · exact Or.inl h
  · right
    cases hb : r.body with
    | nil => exact absurd hb hne
    | cons c t => rw [hb] at h; simpa [startsLFOrEmpty] using h

theorem walk_delivery {v : Ver} {d : Delivery} {lf0 : Bytes} (hd : d.valid v = true)
    (hlf : allLF lf0 = true) :
    ∃ fs lf', filings v lf0 d.chunks = (fs, lf') ∧ allLF lf' = true ∧
      AllFiled fs d.burst.replies := by
  obtain ⟨u, chunks⟩ := d
  simp only [Delivery.valid, Bool.and_eq_true, beq_iff_eq] at hd
  obtain ⟨⟨hgood, hflat⟩, hlast⟩ := hd
  cases u with
  | replyOnly r =>
    simp only [Burst.good] at hgood
    simp only [Burst.bytes] at hflat
    have htl : allLF r.tail = true := by
      simp only [goodReply, Bool.and_eq_true] at hgood; exact hgood.1.1.1.1.1.1
    obtain ⟨j, hj⟩ := walk_reply hgood hlf chunks lf0
      (by rw [hflat, List.append_assoc]) (Or.inl ⟨r.body, goodReply_body_ne hgood, rfl⟩)
    refine ⟨_, _, hj, ?_, ?_⟩
    · simp only [allLF, List.all_eq_true] at htl ⊢
      exact fun x hx => htl x (List.mem_of_mem_drop hx)
    · exact AllFiled.cons ⟨rfl, lf0, j, hlf, rfl⟩ AllFiled.nil
  | echoOnly e =>
    simp only [Burst.good] at hgood
    simp only [Burst.bytes] at hflat
    have htl : allLF e.tail = true := by
      simp only [goodEcho, Bool.and_eq_true] at hgood; exact hgood.1.1.1.1
    obtain ⟨x, pre, c, cs2, _, _, hxr, hf⟩ := walk_echo hgood hlf e.tail (Or.inr (allLF_startsLF htl))
      chunks lf0 (by rw [hflat, List.append_assoc]) ⟨e.body, goodEcho_body_ne hgood, rfl⟩
    have hall : allLF (x ++ cs2.flatten) = true := by rw [hxr]; exact htl
    rw [allLF_append, Bool.and_eq_true] at hall
    refine ⟨[], e.tail, ?_, htl, AllFiled.nil⟩
    rw [hf, filings_tail v hall.1 (allLF_of_flatten hall.2), hxr]
  | echoReply e r =>
    simp only [Burst.good, Bool.and_eq_true] at hgood
    simp only [Burst.bytes] at hflat
    obtain ⟨hge, hgr⟩ := hgood
    have htle : allLF e.tail = true := by
      simp only [goodEcho, Bool.and_eq_true] at hge; exact hge.1.1.1.1
    have htlr : allLF r.tail = true := by
      simp only [goodReply, Bool.and_eq_true] at hgr; exact hgr.1.1.1.1.1.1
    have hrest : v = .v10 ∨ startsLFOrEmpty (e.tail ++ (r.body ++ r.tail)) = true := by
      rcases goodReply_starts hgr with h | h
      · exact Or.inl h
      · exact Or.inr (startsLF_append htle h)
    obtain ⟨x, pre, c, cs2, hcs, hc, hxr, hf⟩ := walk_echo hge hlf (e.tail ++ (r.body ++ r.tail)) hrest
      chunks lf0 (by rw [hflat]; simp only [List.append_assoc])
      ⟨e.body, goodEcho_body_ne hge, rfl⟩
    have hcs2 : cs2 ≠ [] := by
      intro h
      subst h
      simp only at hlast
      rw [hcs, List.getLast?_append] at hlast
      simp at hlast
      exact hc hlast
    obtain ⟨j, hj⟩ := walk_reply hgr htle cs2 x (by rw [hxr]; simp only [List.append_assoc])
      (Or.inr hcs2)
    refine ⟨_, _, hf.trans hj, ?_, ?_⟩
    · simp only [allLF, List.all_eq_true] at htlr ⊢
      exact fun y hy => htlr y (List.mem_of_mem_drop hy)
    · exact AllFiled.cons ⟨rfl, e.tail, j, htle, rfl⟩ AllFiled.nil

theorem framing {v : Ver} : ∀ (ds : List Delivery) (lf0 : Bytes),
    (∀ d ∈ ds, d.valid v = true) → allLF lf0 = true →
    ∃ fs lf', filings v lf0 (ds.flatMap (·.chunks)) = (fs, lf') ∧ allLF lf' = true ∧
      AllFiled fs (ds.flatMap (·.burst.replies)) := by
  intro ds
  induction ds with
  | nil => intro lf0 _ hlf; exact ⟨[], lf0, rfl, hlf, AllFiled.nil⟩
  | cons d ds ih =>
    intro lf0 hv hlf
    obtain ⟨fs1, lf1, h1, hlf1, hF1⟩ := walk_delivery (hv d (by simp)) hlf
    obtain ⟨fs2, lf2, h2, hlf2, hF2⟩ := ih lf1 (fun d' hd' => hv d' (by simp [hd'])) hlf1
    refine ⟨fs1 ++ fs2, lf2, ?_, hlf2, ?_⟩
    · simp only [List.flatMap_cons, filings_append, h1, h2]
    · simp only [List.flatMap_cons]
      exact AllFiled.append hF1 hF2

theorem AllFiled.mem_right {fs rs} (h : AllFiled fs rs) {r} (hr : r ∈ rs) : ∃ f ∈ fs, FiledFor f r := by
  induction h with
  | nil => simp at hr
  | cons h _ ih =>
    simp only [List.mem_cons] at hr
    rcases hr with hr | hr
    · subst hr; exact ⟨_, by simp, h⟩
    · obtain ⟨f, hf, hfr⟩ := ih hr
      exact ⟨f, by simp [hf], hfr⟩

/-! ## store bookkeeping -/

theorem Store.mem_put {s : Store} {n : Nat} {b : Bytes} {p : Nat × Bytes} (h : p ∈ s.put n b) :
    p = (n, b) ∨ p ∈ s := by
  simp only [Store.put, List.mem_cons, List.mem_filter] at h
  rcases h with h | h
  · exact Or.inl h
  · exact Or.inr h.1

theorem Store.key_put {s : Store} (n : Nat) (b : Bytes) {k : Nat} (h : ∃ m, (k, m) ∈ s) :
    ∃ m, (k, m) ∈ s.put n b := by
  obtain ⟨m, hm⟩ := h
  by_cases hk : k = n
  · subst hk; exact ⟨b, by simp [Store.put]⟩
  · exact ⟨m, by simp [Store.put, hm, hk]⟩

theorem Store.mem_del {s : Store} {id : Nat} {p : Nat × Bytes} (h : p ∈ s.del id) : p ∈ s := by
  simp only [Store.del, List.mem_filter] at h; exact h.1

theorem Store.mem_del_of_ne {s : Store} {id k : Nat} {m : Bytes} (h : (k, m) ∈ s) (hk : k ≠ id) :
    (k, m) ∈ s.del id := by
  simp [Store.del, h, hk]

theorem Store.get_some {s : Store} {id : Nat} {m : Bytes} (h : s.get id = some m) : (id, m) ∈ s := by
  simp only [Store.get, Option.map_eq_some_iff] at h
  obtain ⟨p, hp, hm⟩ := h
  have h1 := List.find?_some hp
  have h2 := List.mem_of_find?_eq_some hp
  simp only [beq_iff_eq] at h1
  obtain ⟨a, b⟩ := p
  simp only at h1 hm
  subst h1; subst hm; exact h2

theorem Store.get_none {s : Store} {id : Nat} (h : s.get id = none) (m : Bytes) : (id, m) ∉ s := by
  simp only [Store.get, Option.map_eq_none_iff, List.find?_eq_none] at h
  intro hm
  exact h (id, m) hm (by simp)

theorem Store.get_of_key {s : Store} {id : Nat} (h : ∃ m, (id, m) ∈ s) : ∃ m, s.get id = some m := by
  cases hg : s.get id with
  | some m => exact ⟨m, rfl⟩
  | none => obtain ⟨m, hm⟩ := h; exact absurd hm (Store.get_none hg m)

/-! ## sessions -/

theorem readsOf_append (a b : List Ev) : readsOf (a ++ b) = readsOf a ++ readsOf b := by
  induction a with
  | nil => rfl
  | cons e t ih => cases e <;> simp [readsOf, ih]

/-- everything the read loop has filed so far, and its buffer, as a function of the reads alone -/
def hist (v : Ver) (evs : List Ev) : List (Nat × Bytes) × Bytes := filings v [] (readsOf evs)

theorem hist_snoc_read (v : Ver) (hs : List Ev) (ch : Bytes) :
    hist v (hs ++ [.read ch]) =
      ((hist v hs).1 ++ (bufStep v (hist v hs).2 ch).2.toList, (bufStep v (hist v hs).2 ch).1) := by
  simp [hist, readsOf_append, readsOf, filings_append, filings]

theorem hist_snoc_other (v : Ver) (hs : List Ev) (e : Ev) (he : ∀ ch, e ≠ .read ch) :
    hist v (hs ++ [e]) = hist v hs := by
  cases e with
  | read ch => exact absurd rfl (he ch)
  | _ => simp [hist, readsOf_append, readsOf]

structure Inv (v : Ver) (hs : List Ev) (c : Client) : Prop where
  buf : c.st.buf = (hist v hs).2
  store_sub : ∀ p ∈ c.st.store, p ∈ (hist v hs).1
  res_sub : ∀ id m, (id, some m) ∈ c.results → (id, m) ∈ (hist v hs).1
  keys : ∀ f ∈ (hist v hs).1, (∃ m, (f.1, m) ∈ c.st.store) ∨ (∃ m, (f.1, some m) ∈ c.results)
  ids : c.issued = List.range' Gen.Netconf.initialMessageID c.issued.length
  next : c.st.nextId = Gen.Netconf.initialMessageID + c.issued.length

theorem Inv.of_hist_eq {v : Ver} {hs hs' : List Ev} {c : Client} (he : hist v hs' = hist v hs)
    (h : Inv v hs c) : Inv v hs' c :=
  ⟨by rw [he]; exact h.buf, by rw [he]; exact h.store_sub, by rw [he]; exact h.res_sub,
   by rw [he]; exact h.keys, h.ids, h.next⟩

theorem inv_init (v : Ver) : Inv v [] init := by
  refine ⟨rfl, ?_, ?_, ?_, rfl, rfl⟩ <;> simp [init, hist, readsOf, filings]

theorem step_inv {v : Ver} {hs : List Ev} {c : Client} (e : Ev) (h : Inv v hs c) :
    Inv v (hs ++ [e]) (step v c e) := by
  cases e with
  | call =>
    apply Inv.of_hist_eq (hist_snoc_other v hs _ (by intro ch; simp))
    simp only [step]
    cases hp : c.pending with
    | some id => simp only; exact ⟨h.buf, h.store_sub, h.res_sub, h.keys, h.ids, h.next⟩
    | none =>
      simp only [buildRequest]
      refine ⟨h.buf, h.store_sub, h.res_sub, h.keys, ?_, ?_⟩
      · have hi := h.ids
        have hn := h.next
        simp only [Client.issued, hp, Option.toList, List.append_nil] at hi hn ⊢
        simp only [List.length_append, List.length_singleton, List.range'_concat, Nat.one_mul]
        rw [← hi, hn]
      · have hn := h.next
        simp only [Client.issued, hp, Option.toList, List.append_nil] at hn ⊢
        simp only [List.length_append, List.length_singleton]
        omega
  | read ch =>
    have hh : Inv v hs c := h
    refine ⟨?_, ?_, ?_, ?_, ?_, ?_⟩ <;> simp only [hist_snoc_read, step, readStep, ← h.buf]
    · intro p hp
      cases hf : (bufStep v c.st.buf ch).2 with
      | none =>
        simp only [hf, St.file] at hp
        simp [h.store_sub p hp]
      | some f =>
        obtain ⟨n, m⟩ := f
        simp only [hf, St.file] at hp
        rcases Store.mem_put hp with hp | hp
        · simp [hp]
        · simp [h.store_sub p hp]
    · intro id m hm
      simp [h.res_sub id m hm]
    · intro f hf
      simp only [List.mem_append] at hf
      rcases hf with hf | hf
      · rcases h.keys f hf with hk | hk
        · left
          cases hq : (bufStep v c.st.buf ch).2 with
          | none => simpa [St.file] using hk
          | some q => obtain ⟨n, m⟩ := q; exact Store.key_put n m hk
        · exact Or.inr hk
      · left
        cases hq : (bufStep v c.st.buf ch).2 with
        | none => simp [hq] at hf
        | some q =>
          obtain ⟨n, m⟩ := q
          simp only [hq, Option.toList, List.mem_singleton] at hf
          subst hf
          exact ⟨m, by simp [St.file, Store.put]⟩
    · exact h.ids
    · exact h.next
  | poll =>
    apply Inv.of_hist_eq (hist_snoc_other v hs _ (by intro ch; simp))
    simp only [step]
    cases hp : c.pending with
    | none => simp only; exact ⟨h.buf, h.store_sub, h.res_sub, h.keys, h.ids, h.next⟩
    | some id =>
      simp only [fetch]
      cases hg : c.st.store.get id with
      | none =>
        simp only
        refine ⟨h.buf, fun p hp' => h.store_sub p (Store.mem_del hp'), h.res_sub, ?_,
          by simpa [Client.issued, hp] using h.ids, by simpa [Client.issued, hp] using h.next⟩
        intro f hf
        rcases h.keys f hf with ⟨m, hm⟩ | hk
        · left
          refine ⟨m, Store.mem_del_of_ne hm ?_⟩
          intro hk; rw [hk] at hm; exact Store.get_none hg m hm
        · exact Or.inr hk
      | some m =>
        simp only
        have hmem := Store.get_some hg
        refine ⟨h.buf, fun p hp' => h.store_sub p (Store.mem_del hp'), ?_, ?_, ?_, ?_⟩
        · intro id' m' hm'
          simp only [List.mem_append, List.mem_singleton, Prod.mk.injEq, Option.some.injEq] at hm'
          rcases hm' with hm' | ⟨h1, h2⟩
          · exact h.res_sub id' m' hm'
          · subst h1; subst h2; exact h.store_sub _ hmem
        · intro f hf
          rcases h.keys f hf with ⟨m', hm'⟩ | ⟨m', hm'⟩
          · by_cases hk : f.1 = id
            · right; exact ⟨m, by simp [hk]⟩
            · left; exact ⟨m', Store.mem_del_of_ne hm' hk⟩
          · right; exact ⟨m', by simp [hm']⟩
        · have hi := h.ids
          simp only [Client.issued, hp, Option.toList] at hi ⊢
          simpa using hi
        · have hn := h.next
          simp only [Client.issued, hp, Option.toList] at hn ⊢
          simpa using hn
  | expire =>
    apply Inv.of_hist_eq (hist_snoc_other v hs _ (by intro ch; simp))
    simp only [step]
    cases hp : c.pending with
    | none => simp only; exact ⟨h.buf, h.store_sub, h.res_sub, h.keys, h.ids, h.next⟩
    | some id =>
      simp only
      refine ⟨h.buf, h.store_sub, ?_, ?_, ?_, ?_⟩
      · intro id' m' hm'
        simp only [List.mem_append, List.mem_singleton, Prod.mk.injEq] at hm'
        rcases hm' with hm' | ⟨_, h2⟩
        · exact h.res_sub id' m' hm'
        · cases h2
      · intro f hf
        rcases h.keys f hf with hk | ⟨m', hm'⟩
        · exact Or.inl hk
        · right; exact ⟨m', by simp [hm']⟩
      · have hi := h.ids
        simp only [Client.issued, hp, Option.toList] at hi ⊢
        simpa using hi
      · have hn := h.next
        simp only [Client.issued, hp, Option.toList] at hn ⊢
        simpa using hn

theorem run_inv {v : Ver} : ∀ (evs hs : List Ev) (c : Client), Inv v hs c →
    Inv v (hs ++ evs) (run v c evs) := by
  intro evs
  induction evs with
  | nil => intro hs c h; simpa [run] using h
  | cons e evs ih =>
    intro hs c h
    have := ih (hs ++ [e]) (step v c e) (step_inv e h)
    simpa [run] using this

theorem run_init_inv (v : Ver) (evs : List Ev) : Inv v evs (run v init evs) := by
  simpa using run_inv evs [] init (inv_init v)

/-! ## every filed message is keyed by the first id it carries (no hypotheses) -/

theorem bufStep_keyed {v : Ver} {buf c : Bytes} {f : Nat × Bytes} (h : (bufStep v buf c).2 = some f) :
    firstId f.2 = some f.1 ∧ f.1 ≠ 0 := by
  unfold bufStep at h
  simp only at h
  split at h
  · split at h
    · cases h
    · split at h
      · rename_i n hn
        split at h
        · rename_i hne
          simp only [Option.some.injEq] at h
          subst h
          exact ⟨hn, by simpa using hne⟩
        · cases h
      · cases h
  · cases h

theorem filings_keyed {v : Ver} : ∀ (cs : List Bytes) (buf : Bytes) (f : Nat × Bytes),
    f ∈ (filings v buf cs).1 → firstId f.2 = some f.1 ∧ f.1 ≠ 0 := by
  intro cs
  induction cs with
  | nil => intro buf f hf; simp [filings] at hf
  | cons c cs ih =>
    intro buf f hf
    rw [filings_cons] at hf
    simp only [List.mem_append] at hf
    rcases hf with hf | hf
    · cases hq : (bufStep v buf c).2 with
      | none => simp [hq] at hf
      | some q =>
        simp only [hq, Option.toList, List.mem_singleton] at hf
        subst hf
        exact bufStep_keyed hq
    · exact ih _ f hf

theorem filings_prefix_mem {v : Ver} {buf : Bytes} {a b : List Bytes} {f : Nat × Bytes}
    (h : f ∈ (filings v buf a).1) : f ∈ (filings v buf (a ++ b)).1 := by
  rw [filings_append]; simp [h]

end Scrapli.Netconf.Store
