import ScrapliModel.PrivScript
import ScrapliModel.Lemmas.PrivSession
/-!
# Lemmas about scripts: `GetPrompt`, refused operations, reconfiguration, undeterminable prompts
-/
namespace Scrapli.Priv
open Scrapli Scrapli.Forest

theorem getPrompt_eq (c : Cfg) (s : Sess) (haw : s.dev.awaiting = none) :
    getPrompt c s = (c.promptOf s.dev.mode,
      { s with dev := { s.dev with log := s.dev.log ++ [(s.dev.mode, [])] } }) := by
  simp [getPrompt, dev_bare c s.dev haw]

theorem getPrompt_inv {c : Cfg} {s : Sess} (hi : Inv c s) : Inv c (getPrompt c s).2 := by
  rw [getPrompt_eq c s hi.atPrompt]
  exact ⟨hi.atPrompt, hi.inLevel, hi.coherent, hi.tracked⟩

theorem determineCurrent_undeterminable {c : Cfg} {o : Orders} (ho : o.Valid) {m : Bytes}
    (h : undeterminable c m = true) : determineCurrent c.matchP o c.L (c.promptOf m) = [] := by
  simp only [undeterminable, List.all_eq_true, Bool.not_eq_true'] at h
  simp only [determineCurrent, List.map_eq_nil_iff, List.filter_eq_nil_iff]
  intro l hl
  rw [h l ((ho.2 _ _).1 hl)]
  simp

/-- a prompt no level accepts: `AcquirePriv` sends the one bare return that reads the prompt and
fails with a privilege error; nothing else is sent, the cache is not touched -/
theorem acquirePriv_undeterminable {c : Cfg} (ho : ∀ t, (c.orc t).Valid) (s : Sess) {tgt : Bytes}
    (haw : s.dev.awaiting = none) (ht : tgt ∈ names c.L)
    (h : undeterminable c s.dev.mode = true) :
    acquirePriv c tgt s = (some .privilege,
      { s with dev := { s.dev with log := s.dev.log ++ [(s.dev.mode, [])] }, tick := s.tick + 1 }) := by
  obtain ⟨l, hl⟩ := find?_isSome_of_mem ht
  unfold acquirePriv
  rw [hl]
  simp only [acquireLoop, getPrompt, dev_bare c s.dev haw]
  simp only [processAcquire, determineCurrent_undeterminable (ho s.tick) h]

theorem runOp_inv {c : Cfg} (hd : Dom c) (hdef : c.default ∈ names c.L) {s : Sess} (hi : Inv c s)
    (op : Op) (hpl : ∀ l ∈ opLines op, l = [] ∨ isPayload c.L l = true) :
    Inv c (runOp c s op).2 := by
  by_cases hlv : opLevel c op ∈ names c.L
  · obtain ⟨p, _, _, hrun⟩ := runOp_spec hd hi op hpl hlv
    rw [hrun]
    exact ⟨rfl, hlv, fun _ => rfl, fun _ => rfl⟩
  · have hsk : opSkips c s op = false := by
      cases op <;> simp only [opSkips, opLevel] at hlv ⊢
      all_goals
        apply beq_eq_false_iff_ne.2
        intro hc
        exact hlv hdef
    rw [runOp_unknown c s op hsk hlv]
    exact hi

/-- what a script must satisfy item by item: payload lines are not transition commands; a
reconfiguration yields a scenario inside the hypotheses in which the state still satisfies the
invariant (the level the device is in was not removed, a level added does not carry the name the
cache happens to hold, …) -/
def ScriptOK : Cfg → Sess → List Item → Prop
  | _, _, [] => True
  | c, s, it :: rest =>
    (match it with
     | .op o => ∀ l ∈ opLines o, l = [] ∨ isPayload c.L l = true
     | .reconfig c' => Dom c' ∧ c'.default ∈ names c'.L ∧ Inv c' s
     | _ => True) ∧
    ScriptOK (runItem c s it).2.1 (runItem c s it).2.2 rest

theorem runScript_inv : ∀ (items : List Item) (c : Cfg) (s : Sess), Dom c → c.default ∈ names c.L →
    Inv c s → ScriptOK c s items →
    Dom (runScript c s items).2.1 ∧ (runScript c s items).2.1.default ∈ names (runScript c s items).2.1.L ∧
    Inv (runScript c s items).2.1 (runScript c s items).2.2 := by
  intro items
  induction items with
  | nil => intro c s hd hdef hi _; exact ⟨hd, hdef, hi⟩
  | cons it rest ih =>
    intro c s hd hdef hi hok
    simp only [runScript]
    obtain ⟨hit, hrest⟩ := hok
    cases it with
    | op o =>
      exact ih c _ hd hdef (runOp_inv hd hdef hi o hit) hrest
    | getPrompt =>
      exact ih c _ hd hdef (getPrompt_inv hi) hrest
    | refused =>
      exact ih c s hd hdef hi hrest
    | reconfig c' =>
      exact ih c' s hit.1 hit.2.1 hit.2.2 hrest

end Scrapli.Priv
