import ScrapliModel.Telnet
/-!
Helper lemmas for C15: the generated protocol bytes have their RFC 854 values; one parser run per
token; the tokenizer is the inverse of `encode`.
-/
namespace Scrapli.Telnet
open Scrapli

/-! ### the generated constants are the RFC 854 values -/
theorem IAC_eq : IAC = 255 := by decide
theorem DONT_eq : DONT = 254 := by decide
theorem DO_eq : DO = 253 := by decide
theorem WONT_eq : WONT = 252 := by decide
theorem WILL_eq : WILL = 251 := by decide
theorem SGA_eq : SGA = 3 := by decide

theorem isVerb_iff (c : UInt8) : isVerb c = (verbOf c).isSome := by
  simp only [isVerb, DO_eq, DONT_eq, WILL_eq, WONT_eq, verbOf]
  by_cases h1 : c = 251 <;> by_cases h2 : c = 252 <;> by_cases h3 : c = 253 <;> by_cases h4 : c = 254 <;>
    simp [h1, h2, h3, h4]

theorem verbOf_code (v : Verb) : verbOf v.code = some v := by cases v <;> decide
theorem code_ne_iac (v : Verb) : v.code ≠ 255 := by cases v <;> decide

theorem verbOf_some {c : UInt8} {v : Verb} (h : verbOf c = some v) : c = v.code := by
  unfold verbOf at h
  split at h
  · cases h; assumption
  · split at h
    · cases h; assumption
    · split at h
      · cases h; assumption
      · split at h
        · cases h; assumption
        · cases h

theorem negotiate_append (s : St) (a b : Bytes) :
    negotiate s (a ++ b) = negotiate (negotiate s a) b := by
  simp [negotiate, List.foldl_append]

theorem negotiate_cons (s : St) (c : UInt8) (bs : Bytes) :
    negotiate s (c :: bs) = negotiate (step s c) bs := rfl

theorem negotiate_nil (s : St) : negotiate s [] = s := rfl

/-- three parser steps over `IAC verb opt` write exactly the demanded reply -/
theorem replyFor_code (v : Verb) (o : UInt8) : replyFor v.code o = (Tok.answer (.neg v o)).head? := by
  cases v <;> by_cases h : o = 3 <;>
    simp [replyFor, Tok.answer, Verb.code, DO_eq, DONT_eq, WILL_eq, WONT_eq, SGA_eq, IAC_eq, h]

theorem answer_neg_singleton (v : Verb) (o : UInt8) :
    ∃ r, Tok.answer (.neg v o) = [r] := by
  cases v <;> simp only [Tok.answer]
  · split <;> exact ⟨_, rfl⟩
  all_goals exact ⟨_, rfl⟩

/-- the parser run over one well-formed token, from the idle state -/
theorem negotiate_tok (s : St) (t : Tok) (hs : s.ctrl = []) (ht : t.wf = true) :
    negotiate s t.wire =
      { ctrl := [], data := s.data ++ t.delivered, replies := s.replies ++ t.answer } := by
  obtain ⟨ctrl, data, replies⟩ := s
  simp only at hs
  subst hs
  cases t with
  | data b =>
    have hb : b ≠ 255 := by simpa [Tok.wf] using ht
    simp [Tok.wire, Tok.delivered, Tok.answer, negotiate, step, IAC_eq, hb]
  | escIAC =>
    simp [Tok.wire, Tok.delivered, Tok.answer, negotiate, step, IAC_eq, isVerb,
      DO_eq, DONT_eq, WILL_eq, WONT_eq]
  | cmd c =>
    have hc : c ≠ 255 ∧ verbOf c = none := by simpa [Tok.wf] using ht
    have hv : isVerb c = false := by rw [isVerb_iff, hc.2]; rfl
    simp [Tok.wire, Tok.delivered, Tok.answer, negotiate, step, IAC_eq, hv, hc.1]
  | neg v o =>
    have hv : isVerb v.code = true := by rw [isVerb_iff, verbOf_code]; rfl
    obtain ⟨r, hr⟩ := answer_neg_singleton v o
    have hrf := replyFor_code v o
    rw [hr] at hrf
    simp only [List.head?_cons] at hrf
    simp [Tok.wire, Tok.delivered, negotiate, step, IAC_eq, hv, finish, hrf, hr]

/-- the parser run over a well-formed token stream, from any idle state -/
theorem negotiate_encode (ts : List Tok) (hts : ∀ t ∈ ts, t.wf = true) (s : St) (hs : s.ctrl = []) :
    negotiate s (encode ts) =
      { ctrl := [], data := s.data ++ delivered ts, replies := s.replies ++ answers ts } := by
  induction ts generalizing s with
  | nil =>
    obtain ⟨ctrl, data, replies⟩ := s
    simp only at hs
    subst hs
    simp [encode, delivered, answers, negotiate]
  | cons t ts ih =>
    have h1 : encode (t :: ts) = t.wire ++ encode ts := by simp [encode]
    rw [h1, negotiate_append, negotiate_tok s t hs (hts t (by simp))]
    rw [ih (fun t' h' => hts t' (by simp [h'])) _ rfl]
    simp [delivered, answers, List.append_assoc]

/-! ### tokenizer vs encoder -/

theorem tokenize_data (b : UInt8) (rest : Bytes) (hb : b ≠ 255) :
    tokenize (b :: rest) = push (.data b) (tokenize rest) := by
  rw [tokenize.eq_def]; simp [hb]

theorem tokenize_esc (rest : Bytes) :
    tokenize (255 :: 255 :: rest) = push .escIAC (tokenize rest) := by
  rw [tokenize.eq_def]; simp

theorem tokenize_cmd (c : UInt8) (rest : Bytes) (hc : c ≠ 255) (hv : verbOf c = none) :
    tokenize (255 :: c :: rest) = push (.cmd c) (tokenize rest) := by
  rw [tokenize.eq_def]; simp [hc, hv]

theorem tokenize_neg (c o : UInt8) (v : Verb) (rest : Bytes) (hc : c ≠ 255) (hv : verbOf c = some v) :
    tokenize (255 :: c :: o :: rest) = push (.neg v o) (tokenize rest) := by
  rw [tokenize.eq_def]; simp [hc, hv]

theorem tokenize_wire (t : Tok) (ht : t.wf = true) (rest : Bytes) :
    tokenize (t.wire ++ rest) = push t (tokenize rest) := by
  cases t with
  | data b =>
    have hb : b ≠ 255 := by simpa [Tok.wf] using ht
    simpa [Tok.wire] using tokenize_data b rest hb
  | escIAC => simpa [Tok.wire] using tokenize_esc rest
  | cmd c =>
    have hc : c ≠ 255 ∧ verbOf c = none := by simpa [Tok.wf] using ht
    simpa [Tok.wire] using tokenize_cmd c rest hc.1 hc.2
  | neg v o =>
    simpa [Tok.wire] using tokenize_neg v.code o v rest (code_ne_iac v) (verbOf_code v)

theorem tokenize_encode_append (ts : List Tok) (hts : ∀ t ∈ ts, t.wf = true) (rest : Bytes) :
    tokenize (encode ts ++ rest) = (ts ++ (tokenize rest).1, (tokenize rest).2) := by
  induction ts with
  | nil => simp [encode]
  | cons t ts ih =>
    have h1 : encode (t :: ts) ++ rest = t.wire ++ (encode ts ++ rest) := by simp [encode]
    rw [h1, tokenize_wire t (hts t (by simp)), ih (fun t' h' => hts t' (by simp [h']))]
    simp [push]

/-- shape of the incomplete sequence a byte stream can end in -/
def Pending (p : Bytes) : Prop := p = [] ∨ p = [255] ∨ ∃ v : Verb, p = [255, v.code]

/-- every byte stream IS a well-formed token stream followed by an incomplete sequence -/
theorem tokenize_sound (bs : Bytes) :
    bs = encode (tokenize bs).1 ++ (tokenize bs).2 ∧ (∀ t ∈ (tokenize bs).1, t.wf = true) ∧
      Pending (tokenize bs).2 := by
  fun_induction tokenize bs with
  | case1 => simp [encode, Pending]
  | case2 b rest hb ih =>
    obtain ⟨h1, h2, h3⟩ := ih
    refine ⟨?_, ?_, h3⟩
    · simp only [push, encode, List.flatMap_cons, Tok.wire, List.cons_append, List.nil_append]
      rw [List.cons.injEq]; exact ⟨rfl, h1⟩
    · intro t ht
      simp only [push, List.mem_cons] at ht
      rcases ht with rfl | ht
      · simpa [Tok.wf] using hb
      · exact h2 t ht
  | case3 b hb =>
    have : b = 255 := by simpa using hb
    subst this
    simp [encode, Pending]
  | case4 b hb rest'' ih =>
    have : b = 255 := by simpa using hb
    subst this
    obtain ⟨h1, h2, h3⟩ := ih
    refine ⟨?_, ?_, h3⟩
    · simp only [push, encode, List.flatMap_cons, Tok.wire, List.cons_append, List.nil_append]
      rw [List.cons.injEq, List.cons.injEq]; exact ⟨rfl, rfl, h1⟩
    · intro t ht
      simp only [push, List.mem_cons] at ht
      rcases ht with rfl | ht
      · rfl
      · exact h2 t ht
  | case5 b hb c rest'' hc hv ih =>
    have : b = 255 := by simpa using hb
    subst this
    obtain ⟨h1, h2, h3⟩ := ih
    refine ⟨?_, ?_, h3⟩
    · simp only [push, encode, List.flatMap_cons, Tok.wire, List.cons_append, List.nil_append]
      rw [List.cons.injEq, List.cons.injEq]; exact ⟨rfl, rfl, h1⟩
    · intro t ht
      simp only [push, List.mem_cons] at ht
      rcases ht with rfl | ht
      · simp [Tok.wf, hc, hv]
      · exact h2 t ht
  | case6 b hb c _hc v hv =>
    have : b = 255 := by simpa using hb
    subst this
    have := verbOf_some hv
    subst this
    simp only [encode, List.flatMap_nil, List.nil_append, true_and, List.not_mem_nil, false_imp_iff,
      implies_true]
    exact Or.inr (Or.inr ⟨v, rfl⟩)
  | case7 b hb c _hc v hv o rest'' ih =>
    have : b = 255 := by simpa using hb
    subst this
    have := verbOf_some hv
    subst this
    obtain ⟨h1, h2, h3⟩ := ih
    refine ⟨?_, ?_, h3⟩
    · simp only [push, encode, List.flatMap_cons, Tok.wire, List.cons_append, List.nil_append]
      rw [List.cons.injEq, List.cons.injEq, List.cons.injEq]; exact ⟨rfl, rfl, rfl, h1⟩
    · intro t ht
      simp only [push, List.mem_cons] at ht
      rcases ht with rfl | ht
      · rfl
      · exact h2 t ht

/-- the parser run over an incomplete sequence keeps it as `ctrlBuf` and does nothing else -/
theorem negotiate_pending (s : St) (hs : s.ctrl = []) (p : Bytes) (hp : Pending p) :
    negotiate s p = { s with ctrl := p } := by
  obtain ⟨ctrl, data, replies⟩ := s
  simp only at hs
  subst hs
  rcases hp with rfl | rfl | ⟨v, rfl⟩
  · rfl
  · simp [negotiate, step, IAC_eq]
  · have hv : isVerb v.code = true := by rw [isVerb_iff, verbOf_code]; rfl
    simp [negotiate, step, IAC_eq, hv]

end Scrapli.Telnet

namespace Scrapli.Telnet
open Scrapli

/-! ### bytes already in `initialBuf` are only ever appended to -/

theorem step_data_prefix (p : Bytes) (s : St) (c : UInt8) :
    step { s with data := p ++ s.data } c = { step s c with data := p ++ (step s c).data } := by
  obtain ⟨ctrl, data, replies⟩ := s
  match ctrl with
  | [] => by_cases h : c = IAC <;> simp [step, h]
  | [a] =>
    simp only [step]
    split
    · simp
    · split <;> simp
  | [a, cmd] =>
    simp only [step, finish]
    cases replyFor cmd c <;> simp
  | _ :: _ :: _ :: _ => simp [step]

theorem negotiate_data_prefix (p : Bytes) (s : St) (bs : Bytes) :
    negotiate { s with data := p ++ s.data } bs =
      { negotiate s bs with data := p ++ (negotiate s bs).data } := by
  induction bs generalizing s with
  | nil => rfl
  | cons c bs ih =>
    rw [negotiate_cons, negotiate_cons, step_data_prefix]
    exact ih (step s c)

end Scrapli.Telnet

namespace Scrapli.Telnet
open Scrapli

/-! ### `Read(n)`: nothing buffered is lost, for either correct treatment of `initialBuf` -/

theorem readsN_conserve (p : BufPolicy) (hp : p ≠ .dropRest) (n : Nat) (hn : 1 ≤ n) :
    ∀ (k : Nat) (t : Conn), t.size ≤ k →
      (Conn.readsN p n k t).flatten = t.initialBuf ++ t.sock.flatten := by
  intro k
  induction k with
  | zero =>
    intro t ht
    obtain ⟨buf, sock⟩ := t
    simp only [Conn.size, Nat.le_zero, Nat.add_eq_zero_iff, List.length_eq_zero_iff] at ht
    obtain ⟨hb, hs⟩ := ht
    subst hb
    cases sock with
    | nil => rfl
    | cons c cs => simp only [List.map_cons, List.sum_cons] at hs; omega
  | succ k ih =>
    intro t ht
    obtain ⟨buf, sock⟩ := t
    cases buf with
    | nil =>
      cases sock with
      | nil => simp [Conn.readsN, Conn.readN]
      | cons c cs =>
        simp only [Conn.size, List.length_nil, List.map_cons, List.sum_cons, Nat.zero_add] at ht
        by_cases hc : c.length ≤ n
        · have := ih ⟨[], cs⟩ (by simp only [Conn.size, List.length_nil, Nat.zero_add]; omega)
          simp only [Conn.readsN, Conn.readN, List.length_nil, Nat.lt_irrefl, if_false, hc, if_true,
            List.flatten_cons, this, List.nil_append]
        · have := ih ⟨[], c.drop n :: cs⟩ (by
            simp only [Conn.size, List.length_nil, Nat.zero_add, List.map_cons, List.sum_cons,
              List.length_drop]; omega)
          simp only [Conn.readsN, Conn.readN, List.length_nil, Nat.lt_irrefl, if_false, hc,
            List.flatten_cons, this, List.nil_append]
          rw [← List.append_assoc, List.take_append_drop]
    | cons x xs =>
      simp only [Conn.size, List.length_cons] at ht
      have hlen : (x :: xs).length > 0 := by simp
      cases p with
      | dropRest => exact absurd rfl hp
      | whole =>
        have := ih ⟨[], sock⟩ (by simp only [Conn.size, List.length_nil, Nat.zero_add]; omega)
        simp only [Conn.readsN, Conn.readN, hlen, if_true, List.flatten_cons, this, List.nil_append]
      | keepRest =>
        have := ih ⟨(x :: xs).drop n, sock⟩ (by
          simp only [Conn.size, List.length_drop, List.length_cons]; omega)
        simp only [Conn.readsN, Conn.readN, hlen, if_true, List.flatten_cons, this]
        rw [← List.append_assoc, List.take_append_drop]

end Scrapli.Telnet
