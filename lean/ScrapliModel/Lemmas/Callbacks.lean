import ScrapliModel.Callbacks
/-! Helper lemmas for the callback-send model (`firstIdx`, one step, quiet prefixes). -/
namespace Scrapli.Cb
open Scrapli

/-- bytes carried by a list of arrivals -/
def flat : List Arrival → Bytes
  | [] => []
  | a :: rest => a.data ++ flat rest

/-- time taken by a list of arrivals -/
def gaps : List Arrival → Nat
  | [] => 0
  | a :: rest => a.gap + gaps rest

theorem flat_append (p q : List Arrival) : flat (p ++ q) = flat p ++ flat q := by
  induction p with
  | nil => rfl
  | cons a p ih => simp [flat, ih]

theorem gaps_append (p q : List Arrival) : gaps (p ++ q) = gaps p + gaps q := by
  induction p with
  | nil => simp [gaps]
  | cons a p ih => simp [gaps, ih]; omega

/-- `i` is the first callback in list order whose predicate holds on `acc` -/
def IsFirst (chk : Callback → Bytes → Bool) (cbs : List Callback) (i : Nat) (acc : Bytes) : Prop :=
  ∃ cb, cbs[i]? = some cb ∧ chk cb acc = true ∧
    ∀ j cb', j < i → cbs[j]? = some cb' → chk cb' acc = false

theorem firstIdx_some {chk : Callback → Bytes → Bool} {acc : Bytes} :
    ∀ {cbs : List Callback} {i : Nat}, firstIdx chk acc cbs = some i → IsFirst chk cbs i acc := by
  intro cbs
  induction cbs with
  | nil => intro i h; simp [firstIdx] at h
  | cons c rest ih =>
    intro i h
    simp only [firstIdx] at h
    by_cases hc : chk c acc = true
    · simp only [hc, if_true, Option.some.injEq] at h
      subst h
      exact ⟨c, by simp, hc, by intro j _ hj; omega⟩
    · have hc' : chk c acc = false := by simpa using hc
      simp only [hc', Bool.false_eq_true, if_false] at h
      cases hr : firstIdx chk acc rest with
      | none => simp [hr] at h
      | some k =>
        simp only [hr, Option.map_some, Option.some.injEq] at h
        subst h
        obtain ⟨cb, hcb, hchk, hmin⟩ := ih hr
        refine ⟨cb, by simpa using hcb, hchk, ?_⟩
        intro j cb' hj hget
        cases j with
        | zero => simp at hget; subst hget; simpa using hc
        | succ j => exact hmin j cb' (by omega) (by simpa using hget)

theorem firstIdx_none {chk : Callback → Bytes → Bool} {acc : Bytes} :
    ∀ {cbs : List Callback}, firstIdx chk acc cbs = none ↔ ∀ cb ∈ cbs, chk cb acc = false := by
  intro cbs
  induction cbs with
  | nil => simp [firstIdx]
  | cons c rest ih =>
    simp only [firstIdx]
    by_cases hc : chk c acc = true
    · simp [hc]
    · have hc' : chk c acc = false := by simpa using hc
      simp [hc', ih]

/-- the first index is unique -/
theorem IsFirst.unique {chk : Callback → Bytes → Bool} {cbs : List Callback} {i j : Nat} {acc : Bytes}
    (hi : IsFirst chk cbs i acc) (hj : IsFirst chk cbs j acc) : i = j := by
  obtain ⟨ci, hci, hti, hmi⟩ := hi
  obtain ⟨cj, hcj, htj, hmj⟩ := hj
  rcases Nat.lt_trichotomy i j with h | h | h
  · have := hmj i ci h hci; simp [hti] at this
  · exact h
  · have := hmi j cj h hcj; simp [htj] at this

theorem firstIdx_eq_some_of_isFirst {chk : Callback → Bytes → Bool} {cbs : List Callback} {i : Nat}
    {acc : Bytes} (h : IsFirst chk cbs i acc) : firstIdx chk acc cbs = some i := by
  cases hf : firstIdx chk acc cbs with
  | none =>
    obtain ⟨cb, hcb, ht, _⟩ := h
    have := (firstIdx_none.mp hf) cb (List.mem_of_getElem? hcb)
    simp [ht] at this
  | some k => rw [IsFirst.unique (firstIdx_some hf) h]

theorem exists_isFirst_of_exists {chk : Callback → Bytes → Bool} {cbs : List Callback} {acc : Bytes}
    (h : ∃ cb ∈ cbs, chk cb acc = true) : ∃ i, IsFirst chk cbs i acc := by
  cases hf : firstIdx chk acc cbs with
  | none =>
    obtain ⟨cb, hm, ht⟩ := h
    have := (firstIdx_none.mp hf) cb hm
    simp [ht] at this
  | some k => exact ⟨k, firstIdx_some hf⟩

/-! ## check functions -/

theorem check_eq_trigger (cb : Callback) (b : Bytes) : check cb b = trigger cb b := by
  unfold check trigger positive forbidden
  cases h1 : (!cb.contains.isEmpty && isInfix cb.containsB (cb.view b)) <;>
  cases h2 : (cb.hasRe && cb.re (cb.view b)) <;>
  cases h3 : (!cb.notContains.isEmpty && isInfix cb.notContainsB (cb.view b)) <;> simp [h1, h2, h3]

theorem checkAsIs_unset (cb : Callback) (b : Bytes) (h : cb.notContains = []) :
    checkAsIs cb b = trigger cb b := by
  unfold checkAsIs trigger positive forbidden
  cases h1 : (!cb.contains.isEmpty && isInfix cb.containsB (cb.view b)) <;>
  cases h2 : (cb.hasRe && cb.re (cb.view b)) <;> simp [h, h1, h2]

theorem checkAsIs_set (cb : Callback) (b : Bytes) (h : cb.notContains ≠ []) :
    checkAsIs cb b = (positive cb b && isInfix cb.notContainsB (cb.view b)) := by
  have hne : cb.notContains.isEmpty = false := by
    cases hc : cb.notContains with
    | nil => exact absurd hc h
    | cons _ _ => rfl
  unfold checkAsIs positive
  cases h1 : (!cb.contains.isEmpty && isInfix cb.containsB (cb.view b)) <;>
  cases h2 : (cb.hasRe && cb.re (cb.view b)) <;>
  cases h3 : isInfix cb.notContainsB (cb.view b) <;> simp [hne, h1, h2, h3]

/-! ## one step -/

/-- the event a step produced -/
def StepRes.event : StepRes → Option Event
  | .cont _ ev => ev
  | .done _ ev _ => ev

theorem step_late (chk : Callback → Bytes → Bool) (cbs : List Callback) (s : St) (a : Arrival)
    (h : s.t ≤ s.el + a.gap) : step chk cbs s a = .done s.fired none .timeout := by
  simp [step, h]

theorem step_quiet (chk : Callback → Bytes → Bool) (cbs : List Callback) (s : St) (a : Arrival)
    (ht : s.el + a.gap < s.t) (hq : ∀ cb ∈ cbs, chk cb (s.acc ++ a.data) = false) :
    step chk cbs s a =
      .cont { s with el := s.el + a.gap, acc := s.acc ++ a.data, full := s.full ++ a.data } none := by
  have : ¬ s.t ≤ s.el + a.gap := by omega
  simp [step, this, firstIdx_none.mpr hq]

theorem step_fire (chk : Callback → Bytes → Bool) (cbs : List Callback) (s : St) (a : Arrival)
    (ht : s.el + a.gap < s.t) (i : Nat) (cb : Callback) (hcb : cbs[i]? = some cb)
    (hf : IsFirst chk cbs i (s.acc ++ a.data)) :
    step chk cbs s a = execute s i cb (s.acc ++ a.data) (s.full ++ a.data) := by
  have : ¬ s.t ≤ s.el + a.gap := by omega
  simp [step, this, firstIdx_eq_some_of_isFirst hf, hcb]

/-- the state after executing a non-completing callback -/
def nextSt (s : St) (i : Nat) (cb : Callback) (acc' full' : Bytes) : St :=
  { fired := if cb.once then i :: s.fired else s.fired,
    t := if cb.nextTimeout != 0 then cb.nextTimeout else s.t,
    el := 0,
    acc := if cb.resetOutput then [] else acc',
    full := full' }

/-- the four ways `executeCallback` can go -/
theorem execute_cases (s : St) (i : Nat) (cb : Callback) (acc' full' : Bytes) :
    (cb.once = true ∧ i ∈ s.fired ∧ execute s i cb acc' full' = .done s.fired none .onceError) ∨
    (¬(cb.once = true ∧ i ∈ s.fired) ∧ cb.fnErr = true ∧
      execute s i cb acc' full' = .done (nextSt s i cb acc' full').fired (some (i, acc')) .fnError) ∨
    (¬(cb.once = true ∧ i ∈ s.fired) ∧ cb.fnErr = false ∧ cb.complete = true ∧
      execute s i cb acc' full' =
        .done (nextSt s i cb acc' full').fired (some (i, acc')) (.complete full')) ∨
    (¬(cb.once = true ∧ i ∈ s.fired) ∧ cb.fnErr = false ∧ cb.complete = false ∧
      execute s i cb acc' full' = .cont (nextSt s i cb acc' full') (some (i, acc'))) := by
  by_cases ho : cb.once = true ∧ i ∈ s.fired
  · left; exact ⟨ho.1, ho.2, by simp [execute, ho.1, ho.2]⟩
  · right
    have hx : (cb.once && s.fired.contains i) = false := by
      cases hco : cb.once <;> simp_all
    cases hf : cb.fnErr
    · right
      cases hc : cb.complete
      · right; exact ⟨ho, rfl, rfl, by simp only [execute, hx, hf, hc, nextSt, Bool.false_eq_true, if_false]⟩
      · left; exact ⟨ho, rfl, rfl, by simp only [execute, hx, hf, hc, nextSt, Bool.false_eq_true, if_false, if_true]⟩
    · left; exact ⟨ho, rfl, by simp only [execute, hx, hf, nextSt, Bool.false_eq_true, if_false, if_true]⟩

/-- the three ways one arrival can go -/
theorem step_cases (chk : Callback → Bytes → Bool) (cbs : List Callback) (s : St) (a : Arrival) :
    (s.t ≤ s.el + a.gap ∧ step chk cbs s a = .done s.fired none .timeout) ∨
    (s.el + a.gap < s.t ∧ (∀ cb ∈ cbs, chk cb (s.acc ++ a.data) = false) ∧
      step chk cbs s a =
        .cont { s with el := s.el + a.gap, acc := s.acc ++ a.data, full := s.full ++ a.data } none) ∨
    (s.el + a.gap < s.t ∧ ∃ i cb, cbs[i]? = some cb ∧ IsFirst chk cbs i (s.acc ++ a.data) ∧
      step chk cbs s a = execute s i cb (s.acc ++ a.data) (s.full ++ a.data)) := by
  by_cases ht : s.t ≤ s.el + a.gap
  · left; exact ⟨ht, step_late chk cbs s a ht⟩
  · right
    have ht' : s.el + a.gap < s.t := by omega
    cases hf : firstIdx chk (s.acc ++ a.data) cbs with
    | none =>
      left
      exact ⟨ht', firstIdx_none.mp hf, step_quiet chk cbs s a ht' (firstIdx_none.mp hf)⟩
    | some i =>
      right
      have hfi := firstIdx_some hf
      obtain ⟨cb, hcb, _, _⟩ := hfi
      exact ⟨ht', i, cb, hcb, firstIdx_some hf, step_fire chk cbs s a ht' i cb hcb (firstIdx_some hf)⟩

/-- a step looks at the state only through the once flags, the stage timeout, the time of the
arrival and the two accumulations it produces -/
theorem step_congr (chk : Callback → Bytes → Bool) (cbs : List Callback) (s1 s2 : St) (a1 a2 : Arrival)
    (hf : s1.fired = s2.fired) (ht : s1.t = s2.t) (he : s1.el + a1.gap = s2.el + a2.gap)
    (ha : s1.acc ++ a1.data = s2.acc ++ a2.data) (hfu : s1.full ++ a1.data = s2.full ++ a2.data) :
    step chk cbs s1 a1 = step chk cbs s2 a2 := by
  unfold step execute
  simp only [hf, ht, he, ha, hfu]

theorem run_done {chk : Callback → Bytes → Bool} {cbs : List Callback} {s : St} {a : Arrival}
    {f : List Nat} {ev : Option Event} {o : Outcome} (l : List Arrival)
    (h : step chk cbs s a = .done f ev o) : run chk cbs s (a :: l) = ⟨ev.toList, o, f⟩ := by
  simp [run, h]

theorem run_cont {chk : Callback → Bytes → Bool} {cbs : List Callback} {s s' : St} {a : Arrival}
    {ev : Option Event} (l : List Arrival) (h : step chk cbs s a = .cont s' ev) :
    run chk cbs s (a :: l) =
      ⟨ev.toList ++ (run chk cbs s' l).events, (run chk cbs s' l).outcome, (run chk cbs s' l).fired⟩ := by
  simp [run, h]

end Scrapli.Cb
