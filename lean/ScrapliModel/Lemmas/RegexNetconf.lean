import ScrapliModel.Lemmas.RegexScan
import ScrapliModel.Netconf.Store
import ScrapliModel.Generated.Patterns
/-!
# RegexNetconf: the NETCONF read loop's scanners are the regex engine on the extracted patterns

`Netconf/Store.lean` models the three regular expressions of the read loop by byte-walking
scanners. Here each scanner is proved equal to the regex engine (`Rx.isMatch`, `Rx.split2`) run on
the `Rx.Re` term regenerated from the source pattern, via the least-offset search `firstFrom`.
-/
namespace Scrapli.Rx
open Scrapli Scrapli.Netconf.Store

/-! ## literal patterns -/

/-- one `lit` atom per byte, with the byte test it stands for -/
def litAtoms (bs : Bytes) : List (Re × (UInt8 → Bool)) :=
  bs.map fun b => (.lit b.toNat, fun c => c.toNat == b.toNat)

theorem litAtoms_byteAtom {bs : Bytes} (h : ∀ b ∈ bs, b.toNat < 128) :
    ∀ x ∈ litAtoms bs, ByteAtom x.1 x.2 (fun _ => True) := by
  intro x hx
  simp only [litAtoms, List.mem_map] at hx
  obtain ⟨b, hb, rfl⟩ := hx
  exact byteAtom_lit (h b hb) _

theorem suffixClosed_true : SuffixClosed (fun _ => True) := fun _ _ _ => trivial

theorem dropPred_litAtoms (bs : Bytes) : ∀ x : Bytes,
    dropPred ((litAtoms bs).map (·.2)) x = if hasPrefix x bs then some (x.drop bs.length) else none := by
  induction bs with
  | nil => intro x; cases x <;> simp [litAtoms, dropPred, hasPrefix]
  | cons b t ih =>
    intro x
    cases x with
    | nil => simp [litAtoms, dropPred, hasPrefix]
    | cons c r =>
      have e : (c.toNat == b.toNat) = (c == b) := by
        rw [Bool.eq_iff_iff]; simp [UInt8.toNat_inj]
      have ih' := ih r
      simp only [litAtoms, List.map_map] at ih' ⊢
      simp only [List.map_cons, dropPred, Function.comp, hasPrefix, e, List.length_cons,
        List.drop_succ_cons]
      by_cases hcb : (c == b) = true
      · simp only [hcb, if_true, Bool.true_and]; exact ih'
      · simp [hcb]

/-- the regex of a literal byte string, as the translator emits it -/
def litRe (bs : Bytes) : Re := seqRe ((litAtoms bs).map (·.1))

theorem matches_litRe {bs : Bytes} (h : ∀ b ∈ bs, b.toNat < 128) (p q : Pos) :
    Matches (litRe bs) p q ↔ hasPrefix p.after bs = true ∧ q = p.advance bs.length := by
  unfold litRe
  rw [matches_seqRe suffixClosed_true (litAtoms bs) (litAtoms_byteAtom h) p q trivial,
    dropPred_litAtoms]
  have hl : (litAtoms bs).length = bs.length := by simp [litAtoms]
  rw [hl]
  constructor
  · rintro ⟨h1, h2⟩
    split at h1
    · rename_i hp; exact ⟨hp, h2⟩
    · cases h1
  · rintro ⟨h1, h2⟩
    refine ⟨?_, h2⟩
    rw [if_pos h1, h2, Pos.advance_after]

theorem hasPrefix_length' {s p : Bytes} (h : hasPrefix s p = true) : p.length ≤ s.length := by
  induction p generalizing s with
  | nil => simp
  | cons b t ih =>
    cases s with
    | nil => simp [hasPrefix] at h
    | cons c r =>
      simp only [hasPrefix, Bool.and_eq_true] at h
      have := ih h.2
      simp only [List.length_cons]; omega

theorem hasPrefix_head {s : Bytes} {b : UInt8} {t : Bytes} (h : hasPrefix s (b :: t) = true) :
    ∃ r, s = b :: r := by
  cases s with
  | nil => simp [hasPrefix] at h
  | cons c r =>
    simp only [hasPrefix, Bool.and_eq_true] at h
    have : c = b := by simpa using h.1
    exact ⟨r, by rw [this]⟩

/-- **`find` of a non-empty ASCII literal is the first occurrence.** -/
theorem find_litRe {bs : Bytes} (h : ∀ b ∈ bs, b.toNat < 128) (hne : bs ≠ []) (s : Bytes) :
    (find (litRe bs) s).map (fun x => (x.1, x.2.1)) =
      (firstFrom (fun k => hasPrefix (s.drop k) bs) (s.length + 1) 0).map
        (fun k => (k, k + bs.length)) := by
  apply find_eq_firstFrom (fun k => hasPrefix (s.drop k) bs) (fun _ => bs.length)
  · intro p q hr hM
    have hp := hr.posOf (Pos.Of.start s)
    obtain ⟨h1, h2⟩ := (matches_litRe h p q).mp hM
    rw [hp.after_eq] at h1
    refine ⟨h1, ?_⟩
    rw [h2, Pos.advance_off]
    rw [hp.after_eq]; exact hasPrefix_length' h1
  · intro k hk hh
    refine ⟨Pos.at s k, (Pos.at s k).advance bs.length, ?_, Pos.at_off s hk, ?_⟩
    · apply runeReach_ascii s hk
      cases bs with
      | nil => exact absurd rfl hne
      | cons b t =>
        obtain ⟨r, hr⟩ := hasPrefix_head hh
        exact .inr ⟨b, r, hr, h b (by simp)⟩
    · exact (matches_litRe h _ _).mpr ⟨by rw [Pos.at_after]; exact hh, rfl⟩

/-! ## scanners for literals as least-offset searches -/

theorem firstFrom_shift (P : Nat → Bool) : ∀ (f lo : Nat),
    firstFrom P f (lo + 1) = (firstFrom (fun k => P (k + 1)) f lo).map (· + 1) := by
  intro f
  induction f with
  | zero => intro lo; rfl
  | succ f ih =>
    intro lo
    simp only [firstFrom]
    split
    · rfl
    · exact ih (lo + 1)

theorem isInfix_eq_firstFrom (n : Bytes) : ∀ b : Bytes,
    isInfix n b = (firstFrom (fun k => hasPrefix (b.drop k) n) (b.length + 1) 0).isSome := by
  intro b
  induction b with
  | nil => cases n <;> simp [isInfix, firstFrom, hasPrefix]
  | cons c t ih =>
    simp only [isInfix, List.length_cons]
    rw [firstFrom]
    simp only [List.drop_zero]
    by_cases hp : hasPrefix (c :: t) n = true
    · simp [hp]
    · have hp' : hasPrefix (c :: t) n = false := by simpa using hp
      rw [hp', Bool.false_or, if_neg (by simp), firstFrom_shift, ih]
      simp only [List.drop_succ_cons, Option.isSome_map]

theorem afterFirst_eq_firstFrom (n : Bytes) : ∀ b : Bytes,
    afterFirst n b = (firstFrom (fun k => hasPrefix (b.drop k) n) (b.length + 1) 0).map
      (fun k => b.drop (k + n.length)) := by
  intro b
  induction b with
  | nil => cases n <;> simp [afterFirst, firstFrom, hasPrefix]
  | cons c t ih =>
    simp only [afterFirst, List.length_cons]
    rw [firstFrom]
    simp only [List.drop_zero]
    by_cases hp : hasPrefix (c :: t) n = true
    · simp [hp]
    · rw [if_neg hp, if_neg hp, firstFrom_shift, ih]
      simp only [List.drop_succ_cons, Option.map_map]
      congr 1
      funext k
      simp only [Function.comp]
      have : k + 1 + n.length = (k + n.length) + 1 := by omega
      rw [this, List.drop_succ_cons]

/-! ## NETCONF 1.0: `]]>]]>` -/

theorem v1Dot0Delim_eq_litRe : Gen.Rx.Netconf.v1Dot0Delim = litRe delim10 := rfl

theorem delim10_ascii : ∀ b ∈ delim10, b.toNat < 128 := by decide

theorem delim10_ne : delim10 ≠ [] := by decide

theorem delimMatch_v10 (b : Bytes) : delimMatch .v10 b = isMatch Gen.Rx.Netconf.v1Dot0Delim b := by
  rw [v1Dot0Delim_eq_litRe,
    isMatch_eq_firstFrom _ _ (find_litRe delim10_ascii delim10_ne b)]
  exact isInfix_eq_firstFrom delim10 b

theorem afterFirstOpt_v10 (b : Bytes) :
    afterFirstOpt .v10 b = (split2 Gen.Rx.Netconf.v1Dot0Delim b).map (·.2) := by
  rw [v1Dot0Delim_eq_litRe,
    split2_eq_firstFrom _ _ (find_litRe delim10_ascii delim10_ne b), Option.map_map]
  exact afterFirst_eq_firstFrom delim10 b

/-! ## NETCONF 1.1: `(?m)^##$` -/

theorem hashLineHere_iff (x : Bytes) :
    hashLineHere x = true ↔ ∃ t, x = HASH :: HASH :: t ∧ LFish t := by
  unfold hashLineHere LFish
  match x with
  | [] => simp
  | [a] => simp
  | a :: c :: rest =>
    cases rest with
    | nil =>
      simp only [beq_iff_eq, Bool.and_true, Bool.and_eq_true, List.cons.injEq]
      constructor
      · rintro ⟨h1, h2⟩; exact ⟨[], ⟨h1, h2, rfl⟩, .inl rfl⟩
      · rintro ⟨t, ⟨h1, h2, _⟩, _⟩; exact ⟨h1, h2⟩
    | cons d r =>
      simp only [beq_iff_eq, Bool.and_eq_true, List.cons.injEq]
      constructor
      · rintro ⟨⟨h1, h2⟩, h3⟩; exact ⟨d :: r, ⟨h1, h2, rfl⟩, .inr ⟨r, by rw [h3]⟩⟩
      · rintro ⟨t, ⟨h1, h2, rfl⟩, h3⟩
        rcases h3 with h3 | ⟨t', h3⟩
        · cases h3
        · simp only [List.cons.injEq] at h3; exact ⟨⟨h1, h2⟩, h3.1⟩

/-- a match of the 1.1 delimiter: at a line start, the line is exactly `##` -/
theorem matches_v1Dot1Delim (p q : Pos) :
    Matches Gen.Rx.Netconf.v1Dot1Delim p q ↔
      p.atBol = true ∧ hashLineHere p.after = true ∧ q = p.advance 2 := by
  have hshape : Gen.Rx.Netconf.v1Dot1Delim = .cat .bol (.cat (litRe [HASH, HASH]) .eol) := rfl
  have hasc : ∀ b ∈ [HASH, HASH], b.toNat < 128 := by decide
  rw [hshape, hashLineHere_iff]
  constructor
  · intro h
    cases h with
    | cat h1 h2 =>
      cases h1 with
      | bol hb =>
        cases h2 with
        | cat h3 h4 =>
          cases h4 with
          | eol he =>
            obtain ⟨hp, hq⟩ := (matches_litRe hasc _ _).mp h3
            refine ⟨hb, ⟨q.after, ?_, (Pos.atEol_iff q).mp he⟩, hq⟩
            have hq' : q.after = p.after.drop 2 := by rw [hq, Pos.advance_after]; rfl
            rw [hq']
            match hpa : p.after, hp with
            | a :: c :: r, hp =>
              simp only [hasPrefix, Bool.and_eq_true, beq_iff_eq] at hp
              rw [hp.1, hp.2.1]; rfl
            | [], hp => simp [hasPrefix] at hp
            | [a], hp => simp [hasPrefix] at hp
  · rintro ⟨hb, ⟨t, hpa, ht⟩, hq⟩
    have hpre : hasPrefix p.after [HASH, HASH] = true := by rw [hpa]; simp [hasPrefix]
    have h3 : Matches (litRe [HASH, HASH]) p q := (matches_litRe hasc _ _).mpr ⟨hpre, hq⟩
    have hqa : q.after = t := by rw [hq, Pos.advance_after, hpa]; rfl
    exact .cat (.bol hb) (.cat h3 (.eol ((Pos.atEol_iff q).mpr (hqa ▸ ht))))

/-- "a `##` line starts at offset `k` of `s`" -/
def here11 (s : Bytes) (k : Nat) : Bool := (Pos.at s k).atBol && hashLineHere (s.drop k)

theorem find_v1Dot1Delim (s : Bytes) :
    (find Gen.Rx.Netconf.v1Dot1Delim s).map (fun x => (x.1, x.2.1)) =
      (firstFrom (here11 s) (s.length + 1) 0).map (fun k => (k, k + 2)) := by
  apply find_eq_firstFrom (here11 s) (fun _ => 2)
  · intro p q hr hM
    have hp := hr.posOf (Pos.Of.start s)
    obtain ⟨h1, h2, h3⟩ := (matches_v1Dot1Delim p q).mp hM
    refine ⟨?_, ?_⟩
    · unfold here11
      rw [← hp.eq_at, ← hp.after_eq, h1, h2]; rfl
    · rw [h3, Pos.advance_off]
      obtain ⟨t, ht, _⟩ := (hashLineHere_iff _).mp h2
      rw [ht]; simp
  · intro k hk hh
    unfold here11 at hh
    simp only [Bool.and_eq_true] at hh
    obtain ⟨t, ht, htl⟩ := (hashLineHere_iff _).mp hh.2
    refine ⟨Pos.at s k, (Pos.at s k).advance 2, ?_, Pos.at_off s hk, ?_⟩
    · exact runeReach_ascii s hk (.inr ⟨HASH, HASH :: t, ht, by decide⟩)
    · exact (matches_v1Dot1Delim _ _).mpr ⟨hh.1, by rw [Pos.at_after]; exact hh.2, rfl⟩

theorem at_atBol_snoc (pre : Bytes) (c : UInt8) (t : Bytes) :
    (Pos.at (pre ++ c :: t) (pre.length + 1)).atBol = (c == LF) := by
  unfold Pos.atBol
  rw [Pos.at_before]
  have : (pre ++ c :: t).take (pre.length + 1) = pre ++ [c] := by
    rw [List.take_append]
    simp [List.take_of_length_le]
  rw [this]; simp

theorem after11From_eq_firstFrom : ∀ (b pre : Bytes) (ls : Bool),
    ls = (Pos.at (pre ++ b) pre.length).atBol →
    after11From ls b = (firstFrom (here11 (pre ++ b)) (b.length + 1) pre.length).map
      (fun k => (pre ++ b).drop (k + 2)) := by
  intro b
  induction b with
  | nil =>
    intro pre ls _
    simp [after11From, firstFrom, here11, hashLineHere]
  | cons c t ih =>
    intro pre ls hls
    simp only [after11From, List.length_cons]
    rw [firstFrom]
    have hd : (pre ++ c :: t).drop pre.length = c :: t := by simp
    have hh : here11 (pre ++ c :: t) pre.length = (ls && hashLineHere (c :: t)) := by
      unfold here11; rw [hd, ← hls]
    rw [hh]
    by_cases hc : (ls && hashLineHere (c :: t)) = true
    · rw [if_pos hc, if_pos hc]
      simp only [Option.map_some, Option.some.injEq]
      have : (pre ++ c :: t).drop (pre.length + 2) = ((pre ++ c :: t).drop pre.length).drop 2 := by
        rw [List.drop_drop]
      rw [this, hd]; rfl
    · rw [if_neg hc, if_neg hc]
      have hs : pre ++ c :: t = (pre ++ [c]) ++ t := by simp
      have := ih (pre ++ [c]) (c == LF) (by
        rw [← hs]; simp only [List.length_append, List.length_singleton]
        exact (at_atBol_snoc pre c t).symm)
      rw [← hs] at this
      simp only [List.length_append, List.length_singleton] at this
      exact this

theorem match11From_eq_after (ls : Bool) (b : Bytes) :
    match11From ls b = (after11From ls b).isSome := by
  induction b generalizing ls with
  | nil => rfl
  | cons c t ih =>
    simp only [match11From, after11From]
    by_cases hc : (ls && hashLineHere (c :: t)) = true
    · simp [hc]
    · have : (ls && hashLineHere (c :: t)) = false := by simpa using hc
      rw [this, Bool.false_or, if_neg (by simp), ih]

theorem afterFirstOpt_v11 (b : Bytes) :
    afterFirstOpt .v11 b = (split2 Gen.Rx.Netconf.v1Dot1Delim b).map (·.2) := by
  rw [split2_eq_firstFrom _ _ (find_v1Dot1Delim b), Option.map_map]
  have := after11From_eq_firstFrom b [] true (by simp [Pos.at, Pos.start, Pos.advance, Pos.atBol])
  simp only [List.nil_append, List.length_nil] at this
  exact this

theorem delimMatch_v11 (b : Bytes) : delimMatch .v11 b = isMatch Gen.Rx.Netconf.v1Dot1Delim b := by
  have h1 : delimMatch .v11 b = (afterFirstOpt .v11 b).isSome := match11From_eq_after true b
  rw [h1, afterFirstOpt_v11]
  unfold split2 isMatch
  cases find Gen.Rx.Netconf.v1Dot1Delim b <;> rfl

end Scrapli.Rx
