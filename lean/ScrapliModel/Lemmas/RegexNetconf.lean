import ScrapliModel.Lemmas.RegexCaps
import ScrapliModel.Netconf.Store
import ScrapliModel.Generated.Patterns
/-!
# RegexNetconf: the NETCONF read loop's scanners are the regex engine on the extracted patterns

`Netconf/Store.lean` models the three regular expressions of the read loop by byte-walking
scanners. Here each scanner is proved equal to the regex engine (`Rx.isMatch`, `Rx.split2`) run on
the `Rx.Re` term regenerated from the source pattern, via the least-offset search `firstFrom`.
-/
namespace Scrapli.Rx
open Scrapli Scrapli.Netconf.Store

/-! ## literal patterns -/

/-- one `lit` atom per byte, with the byte test it stands for -/
def litAtoms (bs : Bytes) : List (Re × (UInt8 → Bool)) :=
  bs.map fun b => (.lit b.toNat, fun c => c.toNat == b.toNat)

theorem litAtoms_byteAtom {bs : Bytes} (h : ∀ b ∈ bs, b.toNat < 128) :
    ∀ x ∈ litAtoms bs, ByteAtom x.1 x.2 (fun _ => True) := by
  intro x hx
  simp only [litAtoms, List.mem_map] at hx
  obtain ⟨b, hb, rfl⟩ := hx
  exact byteAtom_lit (h b hb) _

theorem suffixClosed_true : SuffixClosed (fun _ => True) := fun _ _ _ => trivial

theorem dropPred_litAtoms (bs : Bytes) : ∀ x : Bytes,
    dropPred ((litAtoms bs).map (·.2)) x = if hasPrefix x bs then some (x.drop bs.length) else none := by
  induction bs with
  | nil => intro x; cases x <;> simp [litAtoms, dropPred, hasPrefix]
  | cons b t ih =>
    intro x
    cases x with
    | nil => simp [litAtoms, dropPred, hasPrefix]
    | cons c r =>
      have e : (c.toNat == b.toNat) = (c == b) := by
        rw [Bool.eq_iff_iff]; simp [UInt8.toNat_inj]
      have ih' := ih r
      simp only [litAtoms, List.map_map] at ih' ⊢
      simp only [List.map_cons, dropPred, Function.comp, hasPrefix, e, List.length_cons,
        List.drop_succ_cons]
      by_cases hcb : (c == b) = true
      · simp only [hcb, if_true, Bool.true_and]; exact ih'
      · simp [hcb]

/-- the regex of a literal byte string, as the translator emits it -/
def litRe (bs : Bytes) : Re := seqRe ((litAtoms bs).map (·.1))

theorem matches_litRe {bs : Bytes} (h : ∀ b ∈ bs, b.toNat < 128) (p q : Pos) :
    Matches (litRe bs) p q ↔ hasPrefix p.after bs = true ∧ q = p.advance bs.length := by
  unfold litRe
  rw [matches_seqRe suffixClosed_true (litAtoms bs) (litAtoms_byteAtom h) p q trivial,
    dropPred_litAtoms]
  have hl : (litAtoms bs).length = bs.length := by simp [litAtoms]
  rw [hl]
  constructor
  · rintro ⟨h1, h2⟩
    split at h1
    · rename_i hp; exact ⟨hp, h2⟩
    · cases h1
  · rintro ⟨h1, h2⟩
    refine ⟨?_, h2⟩
    rw [if_pos h1, h2, Pos.advance_after]

theorem hasPrefix_length' {s p : Bytes} (h : hasPrefix s p = true) : p.length ≤ s.length := by
  induction p generalizing s with
  | nil => simp
  | cons b t ih =>
    cases s with
    | nil => simp [hasPrefix] at h
    | cons c r =>
      simp only [hasPrefix, Bool.and_eq_true] at h
      have := ih h.2
      simp only [List.length_cons]; omega

theorem hasPrefix_head {s : Bytes} {b : UInt8} {t : Bytes} (h : hasPrefix s (b :: t) = true) :
    ∃ r, s = b :: r := by
  cases s with
  | nil => simp [hasPrefix] at h
  | cons c r =>
    simp only [hasPrefix, Bool.and_eq_true] at h
    have : c = b := by simpa using h.1
    exact ⟨r, by rw [this]⟩

/-- **`find` of a non-empty ASCII literal is the first occurrence.** -/
theorem find_litRe {bs : Bytes} (h : ∀ b ∈ bs, b.toNat < 128) (hne : bs ≠ []) (s : Bytes) :
    (find (litRe bs) s).map (fun x => (x.1, x.2.1)) =
      (firstFrom (fun k => hasPrefix (s.drop k) bs) (s.length + 1) 0).map
        (fun k => (k, k + bs.length)) := by
  apply find_eq_firstFrom (fun k => hasPrefix (s.drop k) bs) (fun _ => bs.length)
  · intro p q hr hM
    have hp := hr.posOf (Pos.Of.start s)
    obtain ⟨h1, h2⟩ := (matches_litRe h p q).mp hM
    rw [hp.after_eq] at h1
    refine ⟨h1, ?_⟩
    rw [h2, Pos.advance_off]
    rw [hp.after_eq]; exact hasPrefix_length' h1
  · intro k hk hh
    refine ⟨Pos.at s k, (Pos.at s k).advance bs.length, ?_, Pos.at_off s hk, ?_⟩
    · apply runeReach_ascii s hk
      cases bs with
      | nil => exact absurd rfl hne
      | cons b t =>
        obtain ⟨r, hr⟩ := hasPrefix_head hh
        exact .inr ⟨b, r, hr, h b (by simp)⟩
    · exact (matches_litRe h _ _).mpr ⟨by rw [Pos.at_after]; exact hh, rfl⟩

/-! ## scanners for literals as least-offset searches -/

theorem firstFrom_shift (P : Nat → Bool) : ∀ (f lo : Nat),
    firstFrom P f (lo + 1) = (firstFrom (fun k => P (k + 1)) f lo).map (· + 1) := by
  intro f
  induction f with
  | zero => intro lo; rfl
  | succ f ih =>
    intro lo
    simp only [firstFrom]
    split
    · rfl
    · exact ih (lo + 1)

theorem isInfix_eq_firstFrom (n : Bytes) : ∀ b : Bytes,
    isInfix n b = (firstFrom (fun k => hasPrefix (b.drop k) n) (b.length + 1) 0).isSome := by
  intro b
  induction b with
  | nil => cases n <;> simp [isInfix, firstFrom, hasPrefix]
  | cons c t ih =>
    simp only [isInfix, List.length_cons]
    rw [firstFrom]
    simp only [List.drop_zero]
    by_cases hp : hasPrefix (c :: t) n = true
    · simp [hp]
    · have hp' : hasPrefix (c :: t) n = false := by simpa using hp
      rw [hp', Bool.false_or, if_neg (by simp), firstFrom_shift, ih]
      simp only [List.drop_succ_cons, Option.isSome_map]

theorem afterFirst_eq_firstFrom (n : Bytes) : ∀ b : Bytes,
    afterFirst n b = (firstFrom (fun k => hasPrefix (b.drop k) n) (b.length + 1) 0).map
      (fun k => b.drop (k + n.length)) := by
  intro b
  induction b with
  | nil => cases n <;> simp [afterFirst, firstFrom, hasPrefix]
  | cons c t ih =>
    simp only [afterFirst, List.length_cons]
    rw [firstFrom]
    simp only [List.drop_zero]
    by_cases hp : hasPrefix (c :: t) n = true
    · simp [hp]
    · rw [if_neg hp, if_neg hp, firstFrom_shift, ih]
      simp only [List.drop_succ_cons, Option.map_map]
      congr 1
      funext k
      simp only [Function.comp]
      have : k + 1 + n.length = (k + n.length) + 1 := by omega
      rw [this, List.drop_succ_cons]

/-! ## NETCONF 1.0: `]]>]]>` -/

theorem v1Dot0Delim_eq_litRe : Gen.Rx.Netconf.v1Dot0Delim = litRe delim10 := rfl

theorem delim10_ascii : ∀ b ∈ delim10, b.toNat < 128 := by decide

theorem delim10_ne : delim10 ≠ [] := by decide

theorem delimMatch_v10 (b : Bytes) : delimMatch .v10 b = isMatch Gen.Rx.Netconf.v1Dot0Delim b := by
  rw [v1Dot0Delim_eq_litRe,
    isMatch_eq_firstFrom _ _ (find_litRe delim10_ascii delim10_ne b)]
  exact isInfix_eq_firstFrom delim10 b

theorem afterFirstOpt_v10 (b : Bytes) :
    afterFirstOpt .v10 b = (split2 Gen.Rx.Netconf.v1Dot0Delim b).map (·.2) := by
  rw [v1Dot0Delim_eq_litRe,
    split2_eq_firstFrom _ _ (find_litRe delim10_ascii delim10_ne b), Option.map_map]
  exact afterFirst_eq_firstFrom delim10 b

/-! ## NETCONF 1.1: `(?m)^##$` -/

theorem hashLineHere_iff (x : Bytes) :
    hashLineHere x = true ↔ ∃ t, x = HASH :: HASH :: t ∧ LFish t := by
  unfold hashLineHere LFish
  match x with
  | [] => simp
  | [a] => simp
  | a :: c :: rest =>
    cases rest with
    | nil =>
      simp only [beq_iff_eq, Bool.and_true, Bool.and_eq_true, List.cons.injEq]
      constructor
      · rintro ⟨h1, h2⟩; exact ⟨[], ⟨h1, h2, rfl⟩, .inl rfl⟩
      · rintro ⟨t, ⟨h1, h2, _⟩, _⟩; exact ⟨h1, h2⟩
    | cons d r =>
      simp only [beq_iff_eq, Bool.and_eq_true, List.cons.injEq]
      constructor
      · rintro ⟨⟨h1, h2⟩, h3⟩; exact ⟨d :: r, ⟨h1, h2, rfl⟩, .inr ⟨r, by rw [h3]⟩⟩
      · rintro ⟨t, ⟨h1, h2, rfl⟩, h3⟩
        rcases h3 with h3 | ⟨t', h3⟩
        · cases h3
        · simp only [List.cons.injEq] at h3; exact ⟨⟨h1, h2⟩, h3.1⟩

/-- a match of the 1.1 delimiter: at a line start, the line is exactly `##` -/
theorem matches_v1Dot1Delim (p q : Pos) :
    Matches Gen.Rx.Netconf.v1Dot1Delim p q ↔
      p.atBol = true ∧ hashLineHere p.after = true ∧ q = p.advance 2 := by
  have hshape : Gen.Rx.Netconf.v1Dot1Delim = .cat .bol (.cat (litRe [HASH, HASH]) .eol) := rfl
  have hasc : ∀ b ∈ [HASH, HASH], b.toNat < 128 := by decide
  rw [hshape, hashLineHere_iff]
  constructor
  · intro h
    cases h with
    | cat h1 h2 =>
      cases h1 with
      | bol hb =>
        cases h2 with
        | cat h3 h4 =>
          cases h4 with
          | eol he =>
            obtain ⟨hp, hq⟩ := (matches_litRe hasc _ _).mp h3
            refine ⟨hb, ⟨q.after, ?_, (Pos.atEol_iff q).mp he⟩, hq⟩
            have hq' : q.after = p.after.drop 2 := by rw [hq, Pos.advance_after]; rfl
            rw [hq']
            match hpa : p.after, hp with
            | a :: c :: r, hp =>
              simp only [hasPrefix, Bool.and_eq_true, beq_iff_eq] at hp
              rw [hp.1, hp.2.1]; rfl
            | [], hp => simp [hasPrefix] at hp
            | [a], hp => simp [hasPrefix] at hp
  · rintro ⟨hb, ⟨t, hpa, ht⟩, hq⟩
    have hpre : hasPrefix p.after [HASH, HASH] = true := by rw [hpa]; simp [hasPrefix]
    have h3 : Matches (litRe [HASH, HASH]) p q := (matches_litRe hasc _ _).mpr ⟨hpre, hq⟩
    have hqa : q.after = t := by rw [hq, Pos.advance_after, hpa]; rfl
    exact .cat (.bol hb) (.cat h3 (.eol ((Pos.atEol_iff q).mpr (hqa ▸ ht))))

/-- "a `##` line starts at offset `k` of `s`" -/
def here11 (s : Bytes) (k : Nat) : Bool := (Pos.at s k).atBol && hashLineHere (s.drop k)

theorem find_v1Dot1Delim (s : Bytes) :
    (find Gen.Rx.Netconf.v1Dot1Delim s).map (fun x => (x.1, x.2.1)) =
      (firstFrom (here11 s) (s.length + 1) 0).map (fun k => (k, k + 2)) := by
  apply find_eq_firstFrom (here11 s) (fun _ => 2)
  · intro p q hr hM
    have hp := hr.posOf (Pos.Of.start s)
    obtain ⟨h1, h2, h3⟩ := (matches_v1Dot1Delim p q).mp hM
    refine ⟨?_, ?_⟩
    · unfold here11
      rw [← hp.eq_at, ← hp.after_eq, h1, h2]; rfl
    · rw [h3, Pos.advance_off]
      obtain ⟨t, ht, _⟩ := (hashLineHere_iff _).mp h2
      rw [ht]; simp
  · intro k hk hh
    unfold here11 at hh
    simp only [Bool.and_eq_true] at hh
    obtain ⟨t, ht, htl⟩ := (hashLineHere_iff _).mp hh.2
    refine ⟨Pos.at s k, (Pos.at s k).advance 2, ?_, Pos.at_off s hk, ?_⟩
    · exact runeReach_ascii s hk (.inr ⟨HASH, HASH :: t, ht, by decide⟩)
    · exact (matches_v1Dot1Delim _ _).mpr ⟨hh.1, by rw [Pos.at_after]; exact hh.2, rfl⟩

theorem at_atBol_snoc (pre : Bytes) (c : UInt8) (t : Bytes) :
    (Pos.at (pre ++ c :: t) (pre.length + 1)).atBol = (c == LF) := by
  unfold Pos.atBol
  rw [Pos.at_before]
  have : (pre ++ c :: t).take (pre.length + 1) = pre ++ [c] := by
    rw [List.take_append]
    simp [List.take_of_length_le]
  rw [this]; simp

theorem after11From_eq_firstFrom : ∀ (b pre : Bytes) (ls : Bool),
    ls = (Pos.at (pre ++ b) pre.length).atBol →
    after11From ls b = (firstFrom (here11 (pre ++ b)) (b.length + 1) pre.length).map
      (fun k => (pre ++ b).drop (k + 2)) := by
  intro b
  induction b with
  | nil =>
    intro pre ls _
    simp [after11From, firstFrom, here11, hashLineHere]
  | cons c t ih =>
    intro pre ls hls
    simp only [after11From, List.length_cons]
    rw [firstFrom]
    have hd : (pre ++ c :: t).drop pre.length = c :: t := by simp
    have hh : here11 (pre ++ c :: t) pre.length = (ls && hashLineHere (c :: t)) := by
      unfold here11; rw [hd, ← hls]
    rw [hh]
    by_cases hc : (ls && hashLineHere (c :: t)) = true
    · rw [if_pos hc, if_pos hc]
      simp only [Option.map_some, Option.some.injEq]
      have : (pre ++ c :: t).drop (pre.length + 2) = ((pre ++ c :: t).drop pre.length).drop 2 := by
        rw [List.drop_drop]
      rw [this, hd]; rfl
    · rw [if_neg hc, if_neg hc]
      have hs : pre ++ c :: t = (pre ++ [c]) ++ t := by simp
      have := ih (pre ++ [c]) (c == LF) (by
        rw [← hs]; simp only [List.length_append, List.length_singleton]
        exact (at_atBol_snoc pre c t).symm)
      rw [← hs] at this
      simp only [List.length_append, List.length_singleton] at this
      exact this

theorem match11From_eq_after (ls : Bool) (b : Bytes) :
    match11From ls b = (after11From ls b).isSome := by
  induction b generalizing ls with
  | nil => rfl
  | cons c t ih =>
    simp only [match11From, after11From]
    by_cases hc : (ls && hashLineHere (c :: t)) = true
    · simp [hc]
    · have : (ls && hashLineHere (c :: t)) = false := by simpa using hc
      rw [this, Bool.false_or, if_neg (by simp), ih]

theorem afterFirstOpt_v11 (b : Bytes) :
    afterFirstOpt .v11 b = (split2 Gen.Rx.Netconf.v1Dot1Delim b).map (·.2) := by
  rw [split2_eq_firstFrom _ _ (find_v1Dot1Delim b), Option.map_map]
  have := after11From_eq_firstFrom b [] true (by simp [Pos.at, Pos.start, Pos.advance, Pos.atBol])
  simp only [List.nil_append, List.length_nil] at this
  exact this

theorem delimMatch_v11 (b : Bytes) : delimMatch .v11 b = isMatch Gen.Rx.Netconf.v1Dot1Delim b := by
  have h1 : delimMatch .v11 b = (afterFirstOpt .v11 b).isSome := match11From_eq_after true b
  rw [h1, afterFirstOpt_v11]
  unfold split2 isMatch
  cases find Gen.Rx.Netconf.v1Dot1Delim b <;> rfl

/-! ## `messageIDPattern = (?i)(?:message-id\s*=\s*["'](\d+)["'])` -/

theorem ByteAtom.congr {a : Re} {f f' : UInt8 → Bool} {G : Bytes → Prop} (h : ByteAtom a f G)
    (hf : ∀ b, f b = f' b) : ByteAtom a f' G := by
  have : f = f' := funext hf
  rw [← this]; exact h

theorem inRanges_digit (b : UInt8) : inRanges b.toNat [(48, 57)] = isDigit b := by
  simp only [inRanges, isDigit, Bool.or_false]
  rw [Bool.eq_iff_iff]
  simp [UInt8.le_iff_toNat_le]

theorem byteAtom_digit (G : Bytes → Prop) : ByteAtom (.cls [(48, 57)]) isDigit G :=
  (byteAtom_cls_ascii (rs := [(48, 57)]) (by
    intro r hr; simp only [inRanges, Bool.or_false, Bool.and_eq_true, decide_eq_true_eq] at hr; omega) G).congr
    inRanges_digit

theorem byteAtom_byte (c : UInt8) (hc : c.toNat < 128) (G : Bytes → Prop) :
    ByteAtom (.lit c.toNat) (fun b => b == c || b == c) G :=
  (byteAtom_lit hc G).congr (by
    intro b; rw [Bool.eq_iff_iff]; simp [UInt8.toNat_inj])

theorem byteAtom_cls2 (u l : UInt8) (hu : u.toNat < 128) (hl : l.toNat < 128) (G : Bytes → Prop) :
    ByteAtom (.cls [(u.toNat, u.toNat), (l.toNat, l.toNat)]) (fun c => c == l || c == u) G :=
  (byteAtom_cls_ascii (rs := [(u.toNat, u.toNat), (l.toNat, l.toNat)]) (by
    intro r hr
    simp only [inRanges, Bool.or_false, Bool.and_eq_true, Bool.or_eq_true, decide_eq_true_eq] at hr
    omega) G).congr (by
    intro b; rw [Bool.eq_iff_iff]
    simp only [inRanges, Bool.or_false, Bool.and_eq_true, Bool.or_eq_true, decide_eq_true_eq,
      beq_iff_eq, ← UInt8.toNat_inj]
    omega)

theorem decodeRune_383 {s : Bytes} {w : Nat} (h : decodeRune s = some (383, w)) :
    ∃ t, s = 0xC5 :: 0xBF :: t := by
  unfold decodeRune at h
  split at h
  · cases h
  · rename_i b0 t
    simp only at h
    repeat' split at h
    all_goals
      simp only [Option.some.injEq, Prod.mk.injEq] at h
      obtain ⟨h1, h2⟩ := h
      first
      | (exfalso; omega)
      | (exfalso; simp only [Bool.and_eq_true, decide_eq_true_eq, beq_iff_eq] at *; omega)
      | skip
    all_goals
      rename_i b1 tl hc
      simp only [Bool.and_eq_true, decide_eq_true_eq] at hc
      have e0 : b0 = 197 := UInt8.toNat_inj.mp (by show b0.toNat = 197; omega)
      have e1 : b1 = 191 := UInt8.toNat_inj.mp (by show b1.toNat = 191; omega)
      exact ⟨tl, by rw [e0, e1]⟩

/-- the text contains no `ſ` (U+017F, bytes C5 BF), which Go's `(?i)` folds onto `s` -/
def NoLongS (l : Bytes) : Prop := ∀ a t, l ≠ a ++ 0xC5 :: 0xBF :: t

theorem NoLongS.suffixClosed : SuffixClosed NoLongS := by
  intro b t h a t' e
  exact h (b :: a) t' (by rw [e]; rfl)

theorem NoLongS.drop {l : Bytes} (h : NoLongS l) (n : Nat) : NoLongS (l.drop n) := by
  intro a t e
  apply h (l.take n ++ a) t
  rw [List.append_assoc, ← e, List.take_append_drop]

theorem NoLongS.of_isInfix {l : Bytes} (h : isInfix [0xC5, 0xBF] l = false) : NoLongS l := by
  intro a t e
  have : ∀ a : Bytes, isInfix [0xC5, 0xBF] (a ++ 0xC5 :: 0xBF :: t) = true := by
    intro a
    induction a with
    | nil => simp [isInfix, hasPrefix]
    | cons c a ih => simp only [List.cons_append, isInfix, ih, Bool.or_true]
  rw [e, this a] at h; cases h

/-- `s`/`S` under `(?i)`: the class also contains `ſ`, excluded by `NoLongS` -/
theorem byteAtom_clsS :
    ByteAtom (.cls [(83, 83), (115, 115), (383, 383)]) (fun c => c == 115 || c == 83) NoLongS := by
  intro p q hg
  constructor
  · intro h
    cases h with
    | @cls _ _ r w hd hr =>
      simp only [inRanges, Bool.or_false, Bool.and_eq_true, Bool.or_eq_true, decide_eq_true_eq] at hr
      by_cases h3 : r = 383
      · subst h3
        obtain ⟨t, ht⟩ := decodeRune_383 hd
        exact absurd (by rw [ht]; rfl) (hg [] t)
      · obtain ⟨b, t, hs, hb, rfl⟩ := decodeRune_ascii hd (by omega)
        refine ⟨b, t, hs, ?_, rfl⟩
        simp only [Bool.or_eq_true, beq_iff_eq, ← UInt8.toNat_inj]
        have e1 : (115 : UInt8).toNat = 115 := rfl
        have e2 : (83 : UInt8).toNat = 83 := rfl
        omega
  · rintro ⟨b, t, hs, hb, rfl⟩
    simp only [Bool.or_eq_true, beq_iff_eq] at hb
    have hlt : b.toNat < 128 := by rcases hb with rfl | rfl <;> decide
    have := decodeRune_of_ascii t hlt
    rw [← hs] at this
    exact .cls this (by rcases hb with rfl | rfl <;> decide)

def foldPred (x : UInt8 × UInt8) : UInt8 → Bool := fun c => c == x.1 || c == x.2

theorem dropFold_eq_dropPred (ps : List (UInt8 × UInt8)) : ∀ b : Bytes,
    dropFold ps b = dropPred (ps.map foldPred) b := by
  induction ps with
  | nil => intro b; rfl
  | cons x ps ih =>
    intro b
    obtain ⟨lo, up⟩ := x
    cases b with
    | nil => rfl
    | cons c t =>
      simp only [dropFold, List.map_cons, dropPred]
      have e : foldPred (lo, up) c = (c == lo || c == up) := rfl
      rw [e]
      cases hc : (c == lo || c == up) <;> simp [ih]

theorem span_unique {f : UInt8 → Bool} : ∀ (n : Nat) (rest : Bytes) (c : UInt8) (t : Bytes),
    n ≤ rest.length → (∀ b ∈ rest.take n, f b = true) → rest.drop n = c :: t → f c = false →
    rest.takeWhile f = rest.take n ∧ rest.dropWhile f = c :: t := by
  intro n
  induction n with
  | zero =>
    intro rest c t _ _ hd hc
    simp only [List.drop_zero] at hd
    subst hd
    simp [List.takeWhile, List.dropWhile, hc]
  | succ n ih =>
    intro rest c t hn hall hd hc
    cases rest with
    | nil => simp at hn
    | cons b r =>
      have hb : f b = true := hall b (by simp)
      obtain ⟨h1, h2⟩ := ih r c t (by simpa using hn) (fun x hx => hall x (by simp [hx]))
        (by simpa using hd) hc
      simp [List.takeWhile, List.dropWhile, hb, h1, h2]

theorem span_canon {f : UInt8 → Bool} (rest : Bytes) :
    rest.take (rest.takeWhile f).length = rest.takeWhile f ∧
    rest.drop (rest.takeWhile f).length = rest.dropWhile f := by
  have h := List.takeWhile_append_dropWhile (p := f) (l := rest)
  have e1 : (rest.takeWhile f ++ rest.dropWhile f).take (rest.takeWhile f).length
      = rest.takeWhile f := List.take_left' rfl
  have e2 : (rest.takeWhile f ++ rest.dropWhile f).drop (rest.takeWhile f).length
      = rest.dropWhile f := List.drop_left' rfl
  rw [h] at e1 e2
  exact ⟨e1, e2⟩

theorem mem_takeWhile_true {f : UInt8 → Bool} {l : Bytes} {b : UInt8}
    (h : b ∈ l.takeWhile f) : f b = true := by
  induction l with
  | nil => simp at h
  | cons c t ih =>
    simp only [List.takeWhile] at h
    cases hc : f c with
    | false => rw [hc] at h; simp at h
    | true =>
      rw [hc] at h
      rcases List.mem_cons.mp h with rfl | h
      · exact hc
      · exact ih h


/-! ### one-byte atoms of the tail `\s*=\s*["'](\d+)["']` -/

def reWS : Re := .cls [(9, 10), (12, 13), (32, 32)]
def reQ : Re := .cls [(34, 34), (39, 39)]
def reD : Re := .cls [(48, 57)]

theorem byteAtom_ws (G : Bytes → Prop) : ByteAtom reWS isWsB G :=
  (byteAtom_cls_ascii (rs := [(9, 10), (12, 13), (32, 32)]) (by
    intro r hr
    simp only [inRanges, Bool.or_false, Bool.and_eq_true, Bool.or_eq_true, decide_eq_true_eq] at hr
    omega) G).congr (by
    intro b; rw [Bool.eq_iff_iff]
    simp only [inRanges, isWsB, Bool.or_false, Bool.and_eq_true, Bool.or_eq_true, decide_eq_true_eq,
      beq_iff_eq, ← UInt8.toNat_inj]
    have e1 : (9 : UInt8).toNat = 9 := rfl
    have e2 : (10 : UInt8).toNat = 10 := rfl
    have e3 : (12 : UInt8).toNat = 12 := rfl
    have e4 : (13 : UInt8).toNat = 13 := rfl
    have e5 : (32 : UInt8).toNat = 32 := rfl
    omega)

theorem byteAtom_quote (G : Bytes → Prop) : ByteAtom reQ isQuoteB G :=
  (byteAtom_cls2 34 39 (by decide) (by decide) G).congr (by
    intro b; simp only [isQuoteB]; exact Bool.or_comm _ _)

theorem byteAtom_eq (G : Bytes → Prop) : ByteAtom (.lit 61) (fun b => b == EQ) G :=
  (byteAtom_byte 61 (by decide) G).congr (by intro b; simp [EQ])

/-! ### stepping through a match from offsets of one base position -/

abbrev GT : Bytes → Prop := fun _ => True

theorem atom_step {a : Re} {f : UInt8 → Bool} (ha : ByteAtom a f GT) (p q : Pos) (k : Nat) :
    Matches a (p.advance k) q ↔
      ∃ c t, p.after.drop k = c :: t ∧ f c = true ∧ q = p.advance (k + 1) := by
  rw [ha _ _ trivial, Pos.advance_after]
  constructor
  · rintro ⟨c, t, hs, hc, rfl⟩
    have hk : k ≤ p.after.length := by
      have := congrArg List.length hs
      rw [List.length_drop, List.length_cons] at this; omega
    exact ⟨c, t, hs, hc, Pos.advance_advance _ _ _ hk⟩
  · rintro ⟨c, t, hs, hc, rfl⟩
    have hk : k ≤ p.after.length := by
      have := congrArg List.length hs
      rw [List.length_drop, List.length_cons] at this; omega
    exact ⟨c, t, hs, hc, (Pos.advance_advance _ _ _ hk).symm⟩

theorem star_step {a : Re} {f : UInt8 → Bool} (ha : ByteAtom a f GT) (g : Bool) (p q : Pos) (k : Nat)
    (hk : k ≤ p.after.length) :
    Matches (.star a g) (p.advance k) q ↔
      ∃ n, k + n ≤ p.after.length ∧ (∀ b ∈ (p.after.drop k).take n, f b = true) ∧
        q = p.advance (k + n) := by
  rw [matches_star_byteAtom g suffixClosed_true ha _ _ trivial, Pos.advance_after]
  constructor
  · rintro ⟨n, hn, hall, rfl⟩
    rw [List.length_drop] at hn
    exact ⟨n, by omega, hall, Pos.advance_advance _ _ _ hk⟩
  · rintro ⟨n, hn, hall, rfl⟩
    exact ⟨n, by rw [List.length_drop]; omega, hall, (Pos.advance_advance _ _ _ hk).symm⟩

theorem plus_step {a : Re} {f : UInt8 → Bool} (ha : ByteAtom a f GT) (g : Bool) (p q : Pos) (k : Nat)
    (hk : k ≤ p.after.length) :
    Matches (.plus a g) (p.advance k) q ↔
      ∃ n, 1 ≤ n ∧ k + n ≤ p.after.length ∧ (∀ b ∈ (p.after.drop k).take n, f b = true) ∧
        q = p.advance (k + n) := by
  rw [matches_plus_byteAtom g suffixClosed_true ha _ _ trivial, Pos.advance_after]
  constructor
  · rintro ⟨n, h1, hn, hall, rfl⟩
    rw [List.length_drop] at hn
    exact ⟨n, h1, by omega, hall, Pos.advance_advance _ _ _ hk⟩
  · rintro ⟨n, h1, hn, hall, rfl⟩
    exact ⟨n, h1, by rw [List.length_drop]; omega, hall, (Pos.advance_advance _ _ _ hk).symm⟩

/-- `x` decomposes as white space (`n1`), `=`, white space (`n2`), quote, digits (`d ≥ 1`), quote -/
def TailAt (x : Bytes) (n1 n2 d : Nat) : Prop :=
  (∀ b ∈ x.take n1, isWsB b = true) ∧ (∃ t, x.drop n1 = EQ :: t) ∧
  (∀ b ∈ (x.drop (n1 + 1)).take n2, isWsB b = true) ∧
  (∃ qa t, x.drop (n1 + 1 + n2) = qa :: t ∧ isQuoteB qa = true) ∧
  1 ≤ d ∧ (∀ b ∈ (x.drop (n1 + 1 + n2 + 1)).take d, isDigit b = true) ∧
  (∃ qb t, x.drop (n1 + 1 + n2 + 1 + d) = qb :: t ∧ isQuoteB qb = true)

/-- the regenerated tail of the message-id pattern -/
def reTail : Re :=
  .cat (.star reWS true) (.cat (.lit 61) (.cat (.star reWS true)
    (.cat reQ (.cat (.group 1 (.plus reD true)) reQ))))

theorem length_of_drop_cons {x : Bytes} {k : Nat} {c : UInt8} {t : Bytes} (h : x.drop k = c :: t) :
    k + 1 ≤ x.length := by
  have := congrArg List.length h
  rw [List.length_drop, List.length_cons] at this; omega

/-- the pieces of a tail match, from the pieces of the derivation -/
theorem tail_pieces {p a1 a2 a3 a4 a5 q : Pos}
    (h1 : Matches (.star reWS true) p a1) (h2 : Matches (.lit 61) a1 a2)
    (h3 : Matches (.star reWS true) a2 a3) (h4 : Matches reQ a3 a4)
    (h5 : Matches (.plus reD true) a4 a5) (h6 : Matches reQ a5 q) :
    ∃ n1 n2 d, TailAt p.after n1 n2 d ∧ a4 = p.advance (n1 + 1 + n2 + 1) ∧
      a5 = p.advance (n1 + 1 + n2 + 1 + d) ∧ q = p.advance (n1 + 1 + n2 + 1 + d + 1) := by
  have h1' : Matches (.star reWS true) (p.advance 0) a1 := h1
  obtain ⟨n1, hn1, w1, rfl⟩ := (star_step (byteAtom_ws GT) true p a1 0 (Nat.zero_le _)).mp h1'
  simp only [Nat.zero_add, List.drop_zero] at hn1 w1 h2
  obtain ⟨c, t, e1, hc, rfl⟩ := (atom_step (byteAtom_eq GT) p a2 n1).mp h2
  have hc' : c = EQ := by simpa using hc
  subst hc'
  have l1 := length_of_drop_cons e1
  obtain ⟨n2, hn2, w2, rfl⟩ := (star_step (byteAtom_ws GT) true p a3 (n1 + 1) l1).mp h3
  obtain ⟨qa, ta, e2, hqa, rfl⟩ := (atom_step (byteAtom_quote GT) p a4 (n1 + 1 + n2)).mp h4
  have l2 := length_of_drop_cons e2
  obtain ⟨d, hd1, hd, wd, rfl⟩ :=
    (plus_step (byteAtom_digit GT) true p a5 (n1 + 1 + n2 + 1) l2).mp h5
  obtain ⟨qb, tb, e3, hqb, rfl⟩ := (atom_step (byteAtom_quote GT) p q (n1 + 1 + n2 + 1 + d)).mp h6
  exact ⟨n1, n2, d, ⟨w1, ⟨t, e1⟩, w2, ⟨qa, ta, e2, hqa⟩, hd1, wd, ⟨qb, tb, e3, hqb⟩⟩, rfl, rfl, rfl⟩

theorem tail_matches (p q : Pos) :
    Matches reTail p q ↔
      ∃ n1 n2 d, TailAt p.after n1 n2 d ∧ q = p.advance (n1 + 1 + n2 + 1 + d + 1) := by
  unfold reTail
  constructor
  · intro h
    obtain ⟨a1, h1, h⟩ := matches_cat_iff.mp h
    obtain ⟨a2, h2, h⟩ := matches_cat_iff.mp h
    obtain ⟨a3, h3, h⟩ := matches_cat_iff.mp h
    obtain ⟨a4, h4, h⟩ := matches_cat_iff.mp h
    obtain ⟨a5, h5, h6⟩ := matches_cat_iff.mp h
    obtain ⟨n1, n2, d, ht, _, _, hq⟩ := tail_pieces h1 h2 h3 h4 (matches_group_iff.mp h5) h6
    exact ⟨n1, n2, d, ht, hq⟩
  · rintro ⟨n1, n2, d, ⟨w1, ⟨t, e1⟩, w2, ⟨qa, ta, e2, hqa⟩, hd1, wd, ⟨qb, tb, e3, hqb⟩⟩, rfl⟩
    have l1 := length_of_drop_cons e1
    have l2 := length_of_drop_cons e2
    have l3 := length_of_drop_cons e3
    refine matches_cat_iff.mpr ⟨p.advance n1, ?_, ?_⟩
    · have : Matches (.star reWS true) (p.advance 0) (p.advance n1) :=
        (star_step (byteAtom_ws GT) true p _ 0 (Nat.zero_le _)).mpr
          ⟨n1, by omega, by simpa using w1, by simp⟩
      exact this
    refine matches_cat_iff.mpr ⟨p.advance (n1 + 1), ?_, ?_⟩
    · exact (atom_step (byteAtom_eq GT) p _ n1).mpr ⟨EQ, t, e1, by simp, rfl⟩
    refine matches_cat_iff.mpr ⟨p.advance (n1 + 1 + n2), ?_, ?_⟩
    · exact (star_step (byteAtom_ws GT) true p _ (n1 + 1) l1).mpr ⟨n2, by omega, w2, rfl⟩
    refine matches_cat_iff.mpr ⟨p.advance (n1 + 1 + n2 + 1), ?_, ?_⟩
    · exact (atom_step (byteAtom_quote GT) p _ (n1 + 1 + n2)).mpr ⟨qa, ta, e2, hqa, rfl⟩
    refine matches_cat_iff.mpr ⟨p.advance (n1 + 1 + n2 + 1 + d), ?_, ?_⟩
    · exact matches_group_iff.mpr
        ((plus_step (byteAtom_digit GT) true p _ (n1 + 1 + n2 + 1) l2).mpr ⟨d, hd1, by omega, wd, rfl⟩)
    · exact (atom_step (byteAtom_quote GT) p _ (n1 + 1 + n2 + 1 + d)).mpr ⟨qb, tb, e3, hqb, rfl⟩


/-! ### the decomposition is forced; the scanner computes it -/

theorem isQuoteB_not {q : UInt8} (h : isQuoteB q = true) : isWsB q = false ∧ isDigit q = false := by
  simp only [isQuoteB, Bool.or_eq_true, beq_iff_eq] at h
  rcases h with rfl | rfl <;> exact ⟨by decide, by decide⟩

theorem drop_succ_of_drop_cons {x : Bytes} {k : Nat} {c : UInt8} {t : Bytes} (h : x.drop k = c :: t) :
    x.drop (k + 1) = t := by
  have : x.drop (k + 1) = (x.drop k).drop 1 := by rw [List.drop_drop]
  rw [this, h]; rfl

def tailW1 (x : Bytes) : Nat := (x.takeWhile isWsB).length
def tailW2 (x : Bytes) : Nat := ((x.drop (tailW1 x + 1)).takeWhile isWsB).length
def tailStart (x : Bytes) : Nat := tailW1 x + 1 + tailW2 x + 1
def tailD (x : Bytes) : Nat := ((x.drop (tailStart x)).takeWhile isDigit).length
/-- length of a match of the tail at the head of `x` -/
def idTailLen (x : Bytes) : Nat := tailStart x + tailD x + 1

theorem take_length_of_le {x : Bytes} {n : Nat} (h : n ≤ x.length) : (x.take n).length = n := by
  rw [List.length_take]; omega

theorem tailAt_unique {x : Bytes} {n1 n2 d : Nat} (h : TailAt x n1 n2 d) :
    n1 = tailW1 x ∧ n2 = tailW2 x ∧ d = tailD x := by
  obtain ⟨w1, ⟨t, e1⟩, w2, ⟨qa, ta, e2, hqa⟩, hd1, wd, ⟨qb, tb, e3, hqb⟩⟩ := h
  have l1 := length_of_drop_cons e1
  have l2 := length_of_drop_cons e2
  have l3 := length_of_drop_cons e3
  have u1 := (span_unique n1 x EQ t (by omega) w1 e1 (by decide)).1
  have c1 : n1 = tailW1 x := by unfold tailW1; rw [u1, take_length_of_le (by omega)]
  have e2' : (x.drop (n1 + 1)).drop n2 = qa :: ta := by rw [List.drop_drop]; exact e2
  have u2 := (span_unique n2 (x.drop (n1 + 1)) qa ta (by rw [List.length_drop]; omega) w2 e2'
    (isQuoteB_not hqa).1).1
  have c2 : n2 = tailW2 x := by
    unfold tailW2; rw [← c1, u2, take_length_of_le (by rw [List.length_drop]; omega)]
  have e3' : (x.drop (n1 + 1 + n2 + 1)).drop d = qb :: tb := by rw [List.drop_drop]; exact e3
  have u3 := (span_unique d (x.drop (n1 + 1 + n2 + 1)) qb tb (by rw [List.length_drop]; omega) wd e3'
    (isQuoteB_not hqb).2).1
  have c3 : d = tailD x := by
    unfold tailD tailStart; rw [← c1, ← c2, u3, take_length_of_le (by rw [List.length_drop]; omega)]
  exact ⟨c1, c2, c3⟩

theorem idTail_of_tailAt {x : Bytes} {n1 n2 d : Nat} (h : TailAt x n1 n2 d) :
    idTail x = some (atoiClamp ((x.drop (n1 + 1 + n2 + 1)).take d)) := by
  obtain ⟨w1, ⟨t, e1⟩, w2, ⟨qa, ta, e2, hqa⟩, hd1, wd, ⟨qb, tb, e3, hqb⟩⟩ := h
  have l1 := length_of_drop_cons e1
  have l2 := length_of_drop_cons e2
  have l3 := length_of_drop_cons e3
  have u1 := (span_unique n1 x EQ t (by omega) w1 e1 (by decide)).2
  have ht : t = x.drop (n1 + 1) := (drop_succ_of_drop_cons e1).symm
  have e2' : (x.drop (n1 + 1)).drop n2 = qa :: ta := by rw [List.drop_drop]; exact e2
  have u2 := (span_unique n2 (x.drop (n1 + 1)) qa ta (by rw [List.length_drop]; omega) w2 e2'
    (isQuoteB_not hqa).1).2
  have hta : ta = x.drop (n1 + 1 + n2 + 1) := (drop_succ_of_drop_cons e2).symm
  have e3' : (x.drop (n1 + 1 + n2 + 1)).drop d = qb :: tb := by rw [List.drop_drop]; exact e3
  have u3 := span_unique d (x.drop (n1 + 1 + n2 + 1)) qb tb (by rw [List.length_drop]; omega) wd e3'
    (isQuoteB_not hqb).2
  have hne : ((x.drop (n1 + 1 + n2 + 1)).take d).isEmpty = false := by
    have : ((x.drop (n1 + 1 + n2 + 1)).take d).length = d :=
      take_length_of_le (by rw [List.length_drop]; omega)
    cases hz : (x.drop (n1 + 1 + n2 + 1)).take d with
    | nil => rw [hz] at this; simp at this; omega
    | cons _ _ => rfl
  unfold idTail
  rw [u1]
  simp only [beq_self_eq_true, if_true]
  rw [ht, u2]
  simp only [hqa, if_true]
  rw [hta, u3.2]
  simp only [hqb, u3.1, hne, Bool.not_false, Bool.and_self, if_true]

theorem tailAt_of_idTail {x : Bytes} (h : (idTail x).isSome = true) : ∃ n1 n2 d, TailAt x n1 n2 d := by
  unfold idTail at h
  obtain ⟨c1, c2⟩ := span_canon (f := isWsB) x
  cases h1 : x.dropWhile isWsB with
  | nil => rw [h1] at h; cases h
  | cons e r1 =>
    rw [h1] at h
    simp only at h
    by_cases he : (e == EQ) = true
    · rw [if_pos he] at h
      have he' : e = EQ := by simpa using he
      subst he'
      rw [h1] at c2
      have hr1 : r1 = x.drop ((x.takeWhile isWsB).length + 1) := (drop_succ_of_drop_cons c2).symm
      obtain ⟨d1, d2⟩ := span_canon (f := isWsB) r1
      cases h2 : r1.dropWhile isWsB with
      | nil => rw [h2] at h; cases h
      | cons q rest =>
        rw [h2] at h
        simp only at h
        by_cases hq : isQuoteB q = true
        · rw [if_pos hq] at h
          rw [h2] at d2
          have hrest : rest = r1.drop ((r1.takeWhile isWsB).length + 1) :=
            (drop_succ_of_drop_cons d2).symm
          obtain ⟨f1, f2⟩ := span_canon (f := isDigit) rest
          cases h3 : rest.dropWhile isDigit with
          | nil => rw [h3] at h; cases h
          | cons q2 t =>
            rw [h3] at h
            simp only at h
            by_cases hc : (isQuoteB q2 && !(rest.takeWhile isDigit).isEmpty) = true
            · simp only [Bool.and_eq_true, Bool.not_eq_true'] at hc
              rw [h3] at f2
              refine ⟨(x.takeWhile isWsB).length, (r1.takeWhile isWsB).length,
                (rest.takeWhile isDigit).length, ?_, ⟨r1, c2⟩, ?_, ⟨q, rest, ?_, hq⟩, ?_, ?_,
                ⟨q2, t, ?_, hc.1⟩⟩
              · rw [c1]; intro b hb; exact mem_takeWhile_true hb
              · rw [← hr1, d1]; intro b hb; exact mem_takeWhile_true hb
              · rw [← List.drop_drop, ← hr1]; exact d2
              · cases hz : rest.takeWhile isDigit with
                | nil => rw [hz] at hc; simp at hc
                | cons _ _ => simp
              · have : x.drop ((x.takeWhile isWsB).length + 1 + (r1.takeWhile isWsB).length + 1)
                    = rest := by
                  rw [hrest, hr1, List.drop_drop]; rfl
                rw [this, f1]; intro b hb; exact mem_takeWhile_true hb
              · have : x.drop ((x.takeWhile isWsB).length + 1 + (r1.takeWhile isWsB).length + 1
                    + (rest.takeWhile isDigit).length) = rest.drop (rest.takeWhile isDigit).length := by
                  rw [hrest, hr1, List.drop_drop, List.drop_drop]; rfl
                rw [this]; exact f2
            · rw [if_neg hc] at h; cases h
        · rw [if_neg hq] at h; cases h
    · rw [if_neg he] at h; cases h

theorem idTail_isSome_iff (x : Bytes) :
    (idTail x).isSome = true ↔ TailAt x (tailW1 x) (tailW2 x) (tailD x) := by
  constructor
  · intro h
    obtain ⟨n1, n2, d, ht⟩ := tailAt_of_idTail h
    obtain ⟨rfl, rfl, rfl⟩ := tailAt_unique ht
    exact ht
  · intro h; rw [idTail_of_tailAt h]; rfl

theorem idTailLen_le {x : Bytes} (h : (idTail x).isSome = true) : idTailLen x ≤ x.length := by
  obtain ⟨_, _, _, _, _, _, ⟨qb, tb, e3, _⟩⟩ := (idTail_isSome_iff x).mp h
  have := length_of_drop_cons e3
  unfold idTailLen tailStart; omega

/-- a match of the tail: exactly when the scanner's `idTail` fires, and then its end is forced -/
theorem matches_reTail (p q : Pos) :
    Matches reTail p q ↔
      (idTail p.after).isSome = true ∧ q = p.advance (idTailLen p.after) := by
  rw [tail_matches, idTail_isSome_iff]
  constructor
  · rintro ⟨n1, n2, d, ht, rfl⟩
    obtain ⟨rfl, rfl, rfl⟩ := tailAt_unique ht
    exact ⟨ht, rfl⟩
  · rintro ⟨ht, rfl⟩
    exact ⟨_, _, _, ht, rfl⟩


/-! ### the whole pattern -/

/-- the regex atoms of the literal part `message-id`, in the order of `midPrefix` -/
def midRes : List Re :=
  [.cls [(77, 77), (109, 109)], .cls [(69, 69), (101, 101)], .cls [(83, 83), (115, 115), (383, 383)],
   .cls [(83, 83), (115, 115), (383, 383)], .cls [(65, 65), (97, 97)], .cls [(71, 71), (103, 103)],
   .cls [(69, 69), (101, 101)], .lit 45, .cls [(73, 73), (105, 105)], .cls [(68, 68), (100, 100)]]

def midAtoms : List (Re × (UInt8 → Bool)) := midRes.zip (midPrefix.map foldPred)

theorem midAtoms_snd : midAtoms.map (·.2) = midPrefix.map foldPred := rfl

/-- the exact shape of the regenerated term: the case-folded literal, then the tail -/
theorem messageID_shape :
    Gen.Rx.Netconf.messageID = .cat (seqRe (midAtoms.map (·.1))) reTail := rfl

theorem midAtoms_byteAtom : ∀ x ∈ midAtoms, ByteAtom x.1 x.2 NoLongS := by
  intro x hx
  simp only [midAtoms, midRes, midPrefix, List.map_cons, List.map_nil, List.zip_cons_cons,
    List.zip_nil_right, List.mem_cons, List.not_mem_nil, or_false] at hx
  rcases hx with rfl | rfl | rfl | rfl | rfl | rfl | rfl | rfl | rfl | rfl
  · exact byteAtom_cls2 77 109 (by decide) (by decide) _
  · exact byteAtom_cls2 69 101 (by decide) (by decide) _
  · exact byteAtom_clsS
  · exact byteAtom_clsS
  · exact byteAtom_cls2 65 97 (by decide) (by decide) _
  · exact byteAtom_cls2 71 103 (by decide) (by decide) _
  · exact byteAtom_cls2 69 101 (by decide) (by decide) _
  · exact byteAtom_byte 45 (by decide) _
  · exact byteAtom_cls2 73 105 (by decide) (by decide) _
  · exact byteAtom_cls2 68 100 (by decide) (by decide) _

theorem midAtoms_length : midAtoms.length = 10 := rfl

/-- length of the match of the message-id pattern that starts where `x` starts -/
def idLen (x : Bytes) : Nat := 10 + idTailLen (x.drop 10)

theorem dropFold_midPrefix {x r0 : Bytes} (h : dropFold midPrefix x = some r0) :
    x.length = 10 + r0.length ∧ r0 = x.drop 10 := by
  obtain ⟨hlen, hrest⟩ := dropPred_length (by rw [← dropFold_eq_dropPred]; exact h :
    dropPred (midPrefix.map foldPred) x = some r0)
  simp only [List.length_map] at hlen hrest
  have h10 : midPrefix.length = 10 := rfl
  rw [h10] at hlen hrest
  exact ⟨hlen, hrest⟩

theorem idHere_isSome_iff (x : Bytes) : (idHere x).isSome = true ↔
    ∃ r0, dropFold midPrefix x = some r0 ∧ (idTail r0).isSome = true := by
  unfold idHere
  cases dropFold midPrefix x with
  | none => simp
  | some r0 => simp

/-- a match of the message-id pattern at `p` (no `ſ` in the rest of the text): exactly when the
scanner's `idHere` fires, and then the end of the match is determined -/
theorem matches_messageID (p q : Pos) (hg : NoLongS p.after) :
    Matches Gen.Rx.Netconf.messageID p q ↔
      (idHere p.after).isSome = true ∧ idLen p.after ≤ p.after.length ∧
        q = p.advance (idLen p.after) := by
  rw [messageID_shape, idHere_isSome_iff, matches_cat_iff]
  have hseq := fun q1 => matches_seqRe NoLongS.suffixClosed midAtoms midAtoms_byteAtom p q1 hg
  simp only [midAtoms_snd, ← dropFold_eq_dropPred, midAtoms_length] at hseq
  constructor
  · rintro ⟨q1, h1, h2⟩
    obtain ⟨hd, rfl⟩ := (hseq q1).mp h1
    obtain ⟨hlen, hrest⟩ := dropFold_midPrefix hd
    obtain ⟨hs, hq⟩ := (matches_reTail _ _).mp h2
    have hle := idTailLen_le hs
    rw [hrest] at hq hle hlen
    refine ⟨⟨_, hd, hs⟩, by unfold idLen; omega, ?_⟩
    rw [hq, Pos.advance_advance _ _ _ (by omega)]; rfl
  · rintro ⟨⟨r0, hd, hs⟩, hle, rfl⟩
    obtain ⟨hlen, hrest⟩ := dropFold_midPrefix hd
    have ha10 : (p.advance 10).after = r0 := by rw [Pos.advance_after, hrest]
    refine ⟨p.advance 10, (hseq _).mpr ⟨by rw [ha10]; exact hd, rfl⟩, ?_⟩
    rw [matches_reTail, ha10]
    refine ⟨hs, ?_⟩
    rw [Pos.advance_advance _ _ _ (by omega), hrest]; rfl

theorem idLen_le {x : Bytes} (h : (idHere x).isSome = true) : idLen x ≤ x.length := by
  obtain ⟨r0, hd, hs⟩ := (idHere_isSome_iff x).mp h
  obtain ⟨hlen, hrest⟩ := dropFold_midPrefix hd
  have := idTailLen_le hs
  rw [hrest] at this hlen
  unfold idLen; omega

theorem idHere_asciiHead {x : Bytes} (h : (idHere x).isSome = true) : AsciiHead x := by
  obtain ⟨r0, hd, _⟩ := (idHere_isSome_iff x).mp h
  cases x with
  | nil => exact .inl rfl
  | cons c t =>
    right
    refine ⟨c, t, rfl, ?_⟩
    simp only [midPrefix, dropFold] at hd
    split at hd
    · rename_i hc
      simp only [Bool.or_eq_true, beq_iff_eq] at hc
      rcases hc with rfl | rfl <;> decide
    · cases hd

/-- "the message-id pattern matches at offset `k` of `s`", as the scanner decides it -/
def hereId (s : Bytes) (k : Nat) : Bool := (idHere (s.drop k)).isSome

theorem find_messageID (s : Bytes) (hs : NoLongS s) :
    (find Gen.Rx.Netconf.messageID s).map (fun x => (x.1, x.2.1)) =
      (firstFrom (hereId s) (s.length + 1) 0).map (fun k => (k, k + idLen (s.drop k))) := by
  apply find_eq_firstFrom (hereId s) (fun k => idLen (s.drop k))
  · intro p q hr hM
    have hp := hr.posOf (Pos.Of.start s)
    have hg : NoLongS p.after := by rw [hp.after_eq]; exact hs.drop _
    obtain ⟨h1, h2, h3⟩ := (matches_messageID p q hg).mp hM
    rw [hp.after_eq] at h1
    refine ⟨h1, ?_⟩
    rw [h3, Pos.advance_off _ _ h2, hp.after_eq]
  · intro k hk hh
    unfold hereId at hh
    have hg : NoLongS (Pos.at s k).after := by rw [Pos.at_after]; exact hs.drop _
    refine ⟨Pos.at s k, (Pos.at s k).advance (idLen (s.drop k)),
      runeReach_ascii s hk (idHere_asciiHead hh), Pos.at_off s hk, ?_⟩
    rw [matches_messageID _ _ hg, Pos.at_after]
    exact ⟨hh, idLen_le hh, rfl⟩

theorem firstId_eq_firstFrom : ∀ b : Bytes,
    firstId b = (firstFrom (hereId b) (b.length + 1) 0).bind (fun k => idHere (b.drop k)) := by
  intro b
  induction b with
  | nil => rfl
  | cons c t ih =>
    simp only [firstId, List.length_cons]
    rw [firstFrom]
    have h0 : hereId (c :: t) 0 = (idHere (c :: t)).isSome := rfl
    rw [h0]
    cases hi : idHere (c :: t) with
    | some n => simp [hi]
    | none =>
      simp only [Option.isSome_none, Bool.false_eq_true, if_false]
      rw [firstFrom_shift, ih]
      have : (fun k => hereId (c :: t) (k + 1)) = hereId t := by
        funext k; simp [hereId]
      rw [this]
      cases firstFrom (hereId t) (t.length + 1) 0 <;> simp

theorem firstId_isSome_eq_firstFrom (b : Bytes) :
    (firstId b).isSome = (firstFrom (hereId b) (b.length + 1) 0).isSome := by
  rw [firstId_eq_firstFrom]
  cases h : firstFrom (hereId b) (b.length + 1) 0 with
  | none => rfl
  | some k =>
    have := (firstFrom_some_iff.mp h).2.2.1
    simp only [Option.bind_some, Option.isSome_some]
    exact this


/-- `firstId` finds an id exactly when the message-id regex matches (texts without `ſ`). -/
theorem firstId_isSome (b : Bytes) (hb : NoLongS b) :
    (firstId b).isSome = isMatch Gen.Rx.Netconf.messageID b := by
  rw [isMatch_eq_firstFrom _ _ (find_messageID b hb), firstId_isSome_eq_firstFrom]

/-! ## the captured id -/

/-- the capture table the engine can report for the message-id pattern is forced: group 1 is the
maximal digit run between the quotes -/
theorem messageID_caps {p q : Pos} {c : Caps} (hg : NoLongS p.after)
    (h : MatchesC Gen.Rx.Netconf.messageID p [] q c) :
    ∃ r0, dropFold midPrefix p.after = some r0 ∧ TailAt r0 (tailW1 r0) (tailW2 r0) (tailD r0) ∧
      c = [(1, p.off + 10 + tailStart r0, p.off + 10 + tailStart r0 + tailD r0)] := by
  rw [messageID_shape] at h
  unfold reTail at h
  cases h with
  | cat hA hT =>
  cases hT with
  | cat h1 hT =>
  cases hT with
  | cat h2 hT =>
  cases hT with
  | cat h3 hT =>
  cases hT with
  | cat h4 hT =>
  cases hT with
  | cat hG h6 =>
  cases hG with
  | group h5 =>
    have eA := hA.noGroup_caps rfl
    have e1 := h1.noGroup_caps rfl
    have e2 := h2.noGroup_caps rfl
    have e3 := h3.noGroup_caps rfl
    have e4 := h4.noGroup_caps rfl
    have e5 := h5.noGroup_caps rfl
    have e6 := h6.noGroup_caps rfl
    have hseq := fun q1 => matches_seqRe NoLongS.suffixClosed midAtoms midAtoms_byteAtom p q1 hg
    simp only [midAtoms_snd, ← dropFold_eq_dropPred, midAtoms_length] at hseq
    obtain ⟨hd, hq1⟩ := (hseq _).mp hA.forget
    obtain ⟨hlen, hrest⟩ := dropFold_midPrefix hd
    obtain ⟨n1, n2, d, ht, ha4, ha5, _⟩ :=
      tail_pieces h1.forget h2.forget h3.forget h4.forget h5.forget h6.forget
    obtain ⟨rfl, rfl, rfl⟩ := tailAt_unique ht
    refine ⟨_, hd, ht, ?_⟩
    obtain ⟨_, _, _, _, _, _, ⟨qb, tb, e3', _⟩⟩ := ht
    have l3 := length_of_drop_cons e3'
    subst hq1
    have o1 : (p.advance 10).off = p.off + 10 := Pos.advance_off _ _ (by omega)
    have o4 := Pos.advance_off (tailW1 (p.advance 10).after + 1 + tailW2 (p.advance 10).after + 1)
      (p.advance 10) (by omega)
    have o5 := Pos.advance_off (tailW1 (p.advance 10).after + 1 + tailW2 (p.advance 10).after + 1
      + tailD (p.advance 10).after) (p.advance 10) (by omega)
    rw [e6, e5, e4, e3, e2, e1, eA, ha4, ha5, o4, o5, o1]
    unfold tailStart
    simp only [Nat.add_assoc]

theorem idHere_eq {x r0 : Bytes} (hd : dropFold midPrefix x = some r0)
    (ht : TailAt r0 (tailW1 r0) (tailW2 r0) (tailD r0)) :
    idHere x = some (atoiClamp ((r0.drop (tailStart r0)).take (tailD r0))) := by
  unfold idHere
  rw [hd]
  exact idTail_of_tailAt ht

/-- **The id `firstId` returns is the engine's capture group 1, read as a decimal** (texts
without `ſ`): leftmost match, forced decomposition, maximal digit run. -/
theorem firstId_eq_findGroup (b : Bytes) (hb : NoLongS b) :
    firstId b = (findGroup Gen.Rx.Netconf.messageID b 1).map atoiClamp := by
  have hfind := find_messageID b hb
  rw [firstId_eq_firstFrom]
  unfold findGroup
  cases hf : find Gen.Rx.Netconf.messageID b with
  | none =>
    rw [hf] at hfind
    cases hk : firstFrom (hereId b) (b.length + 1) 0 with
    | none => rfl
    | some k => rw [hk] at hfind; cases hfind
  | some x =>
    obtain ⟨a, e, c⟩ := x
    rw [hf] at hfind
    cases hk : firstFrom (hereId b) (b.length + 1) 0 with
    | none => rw [hk] at hfind; cases hfind
    | some k =>
      rw [hk] at hfind
      simp only [Option.map_some, Option.some.injEq, Prod.mk.injEq] at hfind
      obtain ⟨rfl, _⟩ := hfind
      obtain ⟨p, q, _, hp, _, hpa, _, hM⟩ := find_soundC hf
      have hg : NoLongS p.after := by rw [hp.after_eq]; exact hb.drop _
      obtain ⟨r0, hd, ht, hc⟩ := messageID_caps hg hM
      obtain ⟨_, hrest⟩ := dropFold_midPrefix hd
      rw [hp.after_eq, hpa] at hd hrest
      simp only [Option.bind_some]
      rw [idHere_eq hd ht, hc, hpa]
      simp only [Caps.get, beq_self_eq_true, if_true, Option.map_some, Option.some.injEq]
      congr 1
      have e1 : a + 10 + tailStart r0 + tailD r0 - (a + 10 + tailStart r0) = tailD r0 := by omega
      rw [e1, hrest, List.drop_drop, List.drop_drop]


end Scrapli.Rx
