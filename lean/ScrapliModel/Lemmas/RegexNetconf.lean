import ScrapliModel.Lemmas.RegexCaps
import ScrapliModel.Netconf.Store
import ScrapliModel.Generated.Patterns
/-!
# RegexNetconf: the NETCONF read loop's scanners are the regex engine on the extracted patterns

`Netconf/Store.lean` models the three regular expressions of the read loop by byte-walking
scanners. Here each scanner is proved equal to the regex engine (`Rx.isMatch`, `Rx.split2`) run on
the `Rx.Re` term regenerated from the source pattern, via the least-offset search `firstFrom`.
-/
namespace Scrapli.Rx
open Scrapli Scrapli.Netconf.Store

/-! ## literal patterns -/

/-- one `lit` atom per byte, with the byte test it stands for -/
def litAtoms (bs : Bytes) : List (Re × (UInt8 → Bool)) :=
  bs.map fun b => (.lit b.toNat, fun c => c.toNat == b.toNat)

theorem litAtoms_byteAtom {bs : Bytes} (h : ∀ b ∈ bs, b.toNat < 128) :
    ∀ x ∈ litAtoms bs, ByteAtom x.1 x.2 (fun _ => True) := by
  intro x hx
  simp only [litAtoms, List.mem_map] at hx
  obtain ⟨b, hb, rfl⟩ := hx
  exact byteAtom_lit (h b hb) _

theorem suffixClosed_true : SuffixClosed (fun _ => True) := fun _ _ _ => trivial

theorem dropPred_litAtoms (bs : Bytes) : ∀ x : Bytes,
    dropPred ((litAtoms bs).map (·.2)) x = if hasPrefix x bs then some (x.drop bs.length) else none := by
  induction bs with
  | nil => intro x; cases x <;> simp [litAtoms, dropPred, hasPrefix]
  | cons b t ih =>
    intro x
    cases x with
    | nil => simp [litAtoms, dropPred, hasPrefix]
    | cons c r =>
      have e : (c.toNat == b.toNat) = (c == b) := by
        rw [Bool.eq_iff_iff]; simp [UInt8.toNat_inj]
      have ih' := ih r
      simp only [litAtoms, List.map_map] at ih' ⊢
      simp only [List.map_cons, dropPred, Function.comp, hasPrefix, e, List.length_cons,
        List.drop_succ_cons]
      by_cases hcb : (c == b) = true
      · simp only [hcb, if_true, Bool.true_and]; exact ih'
      · simp [hcb]

/-- the regex of a literal byte string, as the translator emits it -/
def litRe (bs : Bytes) : Re := seqRe ((litAtoms bs).map (·.1))

theorem matches_litRe {bs : Bytes} (h : ∀ b ∈ bs, b.toNat < 128) (p q : Pos) :
    Matches (litRe bs) p q ↔ hasPrefix p.after bs = true ∧ q = p.advance bs.length := by
  unfold litRe
  rw [matches_seqRe suffixClosed_true (litAtoms bs) (litAtoms_byteAtom h) p q trivial,
    dropPred_litAtoms]
  have hl : (litAtoms bs).length = bs.length := by simp [litAtoms]
  rw [hl]
  constructor
  · rintro ⟨h1, h2⟩
    split at h1
    · rename_i hp; exact ⟨hp, h2⟩
    · cases h1
  · rintro ⟨h1, h2⟩
    refine ⟨?_, h2⟩
    rw [if_pos h1, h2, Pos.advance_after]

theorem hasPrefix_length' {s p : Bytes} (h : hasPrefix s p = true) : p.length ≤ s.length := by
  induction p generalizing s with
  | nil => simp
  | cons b t ih =>
    cases s with
    | nil => simp [hasPrefix] at h
    | cons c r =>
      simp only [hasPrefix, Bool.and_eq_true] at h
      have := ih h.2
      simp only [List.length_cons]; omega

theorem hasPrefix_head {s : Bytes} {b : UInt8} {t : Bytes} (h : hasPrefix s (b :: t) = true) :
    ∃ r, s = b :: r := by
  cases s with
  | nil => simp [hasPrefix] at h
  | cons c r =>
    simp only [hasPrefix, Bool.and_eq_true] at h
    have : c = b := by simpa using h.1
    exact ⟨r, by rw [this]⟩

/-- **`find` of a non-empty ASCII literal is the first occurrence.** -/
theorem find_litRe {bs : Bytes} (h : ∀ b ∈ bs, b.toNat < 128) (hne : bs ≠ []) (s : Bytes) :
    (find (litRe bs) s).map (fun x => (x.1, x.2.1)) =
      (firstFrom (fun k => hasPrefix (s.drop k) bs) (s.length + 1) 0).map
        (fun k => (k, k + bs.length)) := by
  apply find_eq_firstFrom (fun k => hasPrefix (s.drop k) bs) (fun _ => bs.length)
  · intro p q hr hM
    have hp := hr.posOf (Pos.Of.start s)
    obtain ⟨h1, h2⟩ := (matches_litRe h p q).mp hM
    rw [hp.after_eq] at h1
    refine ⟨h1, ?_⟩
    rw [h2, Pos.advance_off]
    rw [hp.after_eq]; exact hasPrefix_length' h1
  · intro k hk hh
    refine ⟨Pos.at s k, (Pos.at s k).advance bs.length, ?_, Pos.at_off s hk, ?_⟩
    · apply runeReach_ascii s hk
      cases bs with
      | nil => exact absurd rfl hne
      | cons b t =>
        obtain ⟨r, hr⟩ := hasPrefix_head hh
        exact .inr ⟨b, r, hr, h b (by simp)⟩
    · exact (matches_litRe h _ _).mpr ⟨by rw [Pos.at_after]; exact hh, rfl⟩

/-! ## scanners for literals as least-offset searches -/

theorem firstFrom_shift (P : Nat → Bool) : ∀ (f lo : Nat),
    firstFrom P f (lo + 1) = (firstFrom (fun k => P (k + 1)) f lo).map (· + 1) := by
  intro f
  induction f with
  | zero => intro lo; rfl
  | succ f ih =>
    intro lo
    simp only [firstFrom]
    split
    · rfl
    · exact ih (lo + 1)

theorem isInfix_eq_firstFrom (n : Bytes) : ∀ b : Bytes,
    isInfix n b = (firstFrom (fun k => hasPrefix (b.drop k) n) (b.length + 1) 0).isSome := by
  intro b
  induction b with
  | nil => cases n <;> simp [isInfix, firstFrom, hasPrefix]
  | cons c t ih =>
    simp only [isInfix, List.length_cons]
    rw [firstFrom]
    simp only [List.drop_zero]
    by_cases hp : hasPrefix (c :: t) n = true
    · simp [hp]
    · have hp' : hasPrefix (c :: t) n = false := by simpa using hp
      rw [hp', Bool.false_or, if_neg (by simp), firstFrom_shift, ih]
      simp only [List.drop_succ_cons, Option.isSome_map]

theorem afterFirst_eq_firstFrom (n : Bytes) : ∀ b : Bytes,
    afterFirst n b = (firstFrom (fun k => hasPrefix (b.drop k) n) (b.length + 1) 0).map
      (fun k => b.drop (k + n.length)) := by
  intro b
  induction b with
  | nil => cases n <;> simp [afterFirst, firstFrom, hasPrefix]
  | cons c t ih =>
    simp only [afterFirst, List.length_cons]
    rw [firstFrom]
    simp only [List.drop_zero]
    by_cases hp : hasPrefix (c :: t) n = true
    · simp [hp]
    · rw [if_neg hp, if_neg hp, firstFrom_shift, ih]
      simp only [List.drop_succ_cons, Option.map_map]
      congr 1
      funext k
      simp only [Function.comp]
      have : k + 1 + n.length = (k + n.length) + 1 := by omega
      rw [this, List.drop_succ_cons]

/-! ## NETCONF 1.0: `]]>]]>` -/

theorem v1Dot0Delim_eq_litRe : Gen.Rx.Netconf.v1Dot0Delim = litRe delim10 := rfl

theorem delim10_ascii : ∀ b ∈ delim10, b.toNat < 128 := by decide

theorem delim10_ne : delim10 ≠ [] := by decide

theorem delimMatch_v10 (b : Bytes) : delimMatch .v10 b = isMatch Gen.Rx.Netconf.v1Dot0Delim b := by
  rw [v1Dot0Delim_eq_litRe,
    isMatch_eq_firstFrom _ _ (find_litRe delim10_ascii delim10_ne b)]
  exact isInfix_eq_firstFrom delim10 b

theorem afterFirstOpt_v10 (b : Bytes) :
    afterFirstOpt .v10 b = (split2 Gen.Rx.Netconf.v1Dot0Delim b).map (·.2) := by
  rw [v1Dot0Delim_eq_litRe,
    split2_eq_firstFrom _ _ (find_litRe delim10_ascii delim10_ne b), Option.map_map]
  exact afterFirst_eq_firstFrom delim10 b

/-! ## NETCONF 1.1: `(?m)^##$` -/

theorem hashLineHere_iff (x : Bytes) :
    hashLineHere x = true ↔ ∃ t, x = HASH :: HASH :: t ∧ LFish t := by
  unfold hashLineHere LFish
  match x with
  | [] => simp
  | [a] => simp
  | a :: c :: rest =>
    cases rest with
    | nil =>
      simp only [beq_iff_eq, Bool.and_true, Bool.and_eq_true, List.cons.injEq]
      constructor
      · rintro ⟨h1, h2⟩; exact ⟨[], ⟨h1, h2, rfl⟩, .inl rfl⟩
      · rintro ⟨t, ⟨h1, h2, _⟩, _⟩; exact ⟨h1, h2⟩
    | cons d r =>
      simp only [beq_iff_eq, Bool.and_eq_true, List.cons.injEq]
      constructor
      · rintro ⟨⟨h1, h2⟩, h3⟩; exact ⟨d :: r, ⟨h1, h2, rfl⟩, .inr ⟨r, by rw [h3]⟩⟩
      · rintro ⟨t, ⟨h1, h2, rfl⟩, h3⟩
        rcases h3 with h3 | ⟨t', h3⟩
        · cases h3
        · simp only [List.cons.injEq] at h3; exact ⟨⟨h1, h2⟩, h3.1⟩

/-- a match of the 1.1 delimiter: at a line start, the line is exactly `##` -/
theorem matches_v1Dot1Delim (p q : Pos) :
    Matches Gen.Rx.Netconf.v1Dot1Delim p q ↔
      p.atBol = true ∧ hashLineHere p.after = true ∧ q = p.advance 2 := by
  have hshape : Gen.Rx.Netconf.v1Dot1Delim = .cat .bol (.cat (litRe [HASH, HASH]) .eol) := rfl
  have hasc : ∀ b ∈ [HASH, HASH], b.toNat < 128 := by decide
  rw [hshape, hashLineHere_iff]
  constructor
  · intro h
    cases h with
    | cat h1 h2 =>
      cases h1 with
      | bol hb =>
        cases h2 with
        | cat h3 h4 =>
          cases h4 with
          | eol he =>
            obtain ⟨hp, hq⟩ := (matches_litRe hasc _ _).mp h3
            refine ⟨hb, ⟨q.after, ?_, (Pos.atEol_iff q).mp he⟩, hq⟩
            have hq' : q.after = p.after.drop 2 := by rw [hq, Pos.advance_after]; rfl
            rw [hq']
            match hpa : p.after, hp with
            | a :: c :: r, hp =>
              simp only [hasPrefix, Bool.and_eq_true, beq_iff_eq] at hp
              rw [hp.1, hp.2.1]; rfl
            | [], hp => simp [hasPrefix] at hp
            | [a], hp => simp [hasPrefix] at hp
  · rintro ⟨hb, ⟨t, hpa, ht⟩, hq⟩
    have hpre : hasPrefix p.after [HASH, HASH] = true := by rw [hpa]; simp [hasPrefix]
    have h3 : Matches (litRe [HASH, HASH]) p q := (matches_litRe hasc _ _).mpr ⟨hpre, hq⟩
    have hqa : q.after = t := by rw [hq, Pos.advance_after, hpa]; rfl
    exact .cat (.bol hb) (.cat h3 (.eol ((Pos.atEol_iff q).mpr (hqa ▸ ht))))

/-- "a `##` line starts at offset `k` of `s`" -/
def here11 (s : Bytes) (k : Nat) : Bool := (Pos.at s k).atBol && hashLineHere (s.drop k)

theorem find_v1Dot1Delim (s : Bytes) :
    (find Gen.Rx.Netconf.v1Dot1Delim s).map (fun x => (x.1, x.2.1)) =
      (firstFrom (here11 s) (s.length + 1) 0).map (fun k => (k, k + 2)) := by
  apply find_eq_firstFrom (here11 s) (fun _ => 2)
  · intro p q hr hM
    have hp := hr.posOf (Pos.Of.start s)
    obtain ⟨h1, h2, h3⟩ := (matches_v1Dot1Delim p q).mp hM
    refine ⟨?_, ?_⟩
    · unfold here11
      rw [← hp.eq_at, ← hp.after_eq, h1, h2]; rfl
    · rw [h3, Pos.advance_off]
      obtain ⟨t, ht, _⟩ := (hashLineHere_iff _).mp h2
      rw [ht]; simp
  · intro k hk hh
    unfold here11 at hh
    simp only [Bool.and_eq_true] at hh
    obtain ⟨t, ht, htl⟩ := (hashLineHere_iff _).mp hh.2
    refine ⟨Pos.at s k, (Pos.at s k).advance 2, ?_, Pos.at_off s hk, ?_⟩
    · exact runeReach_ascii s hk (.inr ⟨HASH, HASH :: t, ht, by decide⟩)
    · exact (matches_v1Dot1Delim _ _).mpr ⟨hh.1, by rw [Pos.at_after]; exact hh.2, rfl⟩

theorem at_atBol_snoc (pre : Bytes) (c : UInt8) (t : Bytes) :
    (Pos.at (pre ++ c :: t) (pre.length + 1)).atBol = (c == LF) := by
  unfold Pos.atBol
  rw [Pos.at_before]
  have : (pre ++ c :: t).take (pre.length + 1) = pre ++ [c] := by
    rw [List.take_append]
    simp [List.take_of_length_le]
  rw [this]; simp

theorem after11From_eq_firstFrom : ∀ (b pre : Bytes) (ls : Bool),
    ls = (Pos.at (pre ++ b) pre.length).atBol →
    after11From ls b = (firstFrom (here11 (pre ++ b)) (b.length + 1) pre.length).map
      (fun k => (pre ++ b).drop (k + 2)) := by
  intro b
  induction b with
  | nil =>
    intro pre ls _
    simp [after11From, firstFrom, here11, hashLineHere]
  | cons c t ih =>
    intro pre ls hls
    simp only [after11From, List.length_cons]
    rw [firstFrom]
    have hd : (pre ++ c :: t).drop pre.length = c :: t := by simp
    have hh : here11 (pre ++ c :: t) pre.length = (ls && hashLineHere (c :: t)) := by
      unfold here11; rw [hd, ← hls]
    rw [hh]
    by_cases hc : (ls && hashLineHere (c :: t)) = true
    · rw [if_pos hc, if_pos hc]
      simp only [Option.map_some, Option.some.injEq]
      have : (pre ++ c :: t).drop (pre.length + 2) = ((pre ++ c :: t).drop pre.length).drop 2 := by
        rw [List.drop_drop]
      rw [this, hd]; rfl
    · rw [if_neg hc, if_neg hc]
      have hs : pre ++ c :: t = (pre ++ [c]) ++ t := by simp
      have := ih (pre ++ [c]) (c == LF) (by
        rw [← hs]; simp only [List.length_append, List.length_singleton]
        exact (at_atBol_snoc pre c t).symm)
      rw [← hs] at this
      simp only [List.length_append, List.length_singleton] at this
      exact this

theorem match11From_eq_after (ls : Bool) (b : Bytes) :
    match11From ls b = (after11From ls b).isSome := by
  induction b generalizing ls with
  | nil => rfl
  | cons c t ih =>
    simp only [match11From, after11From]
    by_cases hc : (ls && hashLineHere (c :: t)) = true
    · simp [hc]
    · have : (ls && hashLineHere (c :: t)) = false := by simpa using hc
      rw [this, Bool.false_or, if_neg (by simp), ih]

theorem afterFirstOpt_v11 (b : Bytes) :
    afterFirstOpt .v11 b = (split2 Gen.Rx.Netconf.v1Dot1Delim b).map (·.2) := by
  rw [split2_eq_firstFrom _ _ (find_v1Dot1Delim b), Option.map_map]
  have := after11From_eq_firstFrom b [] true (by simp [Pos.at, Pos.start, Pos.advance, Pos.atBol])
  simp only [List.nil_append, List.length_nil] at this
  exact this

theorem delimMatch_v11 (b : Bytes) : delimMatch .v11 b = isMatch Gen.Rx.Netconf.v1Dot1Delim b := by
  have h1 : delimMatch .v11 b = (afterFirstOpt .v11 b).isSome := match11From_eq_after true b
  rw [h1, afterFirstOpt_v11]
  unfold split2 isMatch
  cases find Gen.Rx.Netconf.v1Dot1Delim b <;> rfl

/-! ## `messageIDPattern = (?i)(?:message-id="(\d+)")` -/

theorem ByteAtom.congr {a : Re} {f f' : UInt8 → Bool} {G : Bytes → Prop} (h : ByteAtom a f G)
    (hf : ∀ b, f b = f' b) : ByteAtom a f' G := by
  have : f = f' := funext hf
  rw [← this]; exact h

theorem inRanges_digit (b : UInt8) : inRanges b.toNat [(48, 57)] = isDigit b := by
  simp only [inRanges, isDigit, Bool.or_false]
  rw [Bool.eq_iff_iff]
  simp [UInt8.le_iff_toNat_le]

theorem byteAtom_digit (G : Bytes → Prop) : ByteAtom (.cls [(48, 57)]) isDigit G :=
  (byteAtom_cls_ascii (rs := [(48, 57)]) (by
    intro r hr; simp only [inRanges, Bool.or_false, Bool.and_eq_true, decide_eq_true_eq] at hr; omega) G).congr
    inRanges_digit

theorem byteAtom_byte (c : UInt8) (hc : c.toNat < 128) (G : Bytes → Prop) :
    ByteAtom (.lit c.toNat) (fun b => b == c || b == c) G :=
  (byteAtom_lit hc G).congr (by
    intro b; rw [Bool.eq_iff_iff]; simp [UInt8.toNat_inj])

theorem byteAtom_cls2 (u l : UInt8) (hu : u.toNat < 128) (hl : l.toNat < 128) (G : Bytes → Prop) :
    ByteAtom (.cls [(u.toNat, u.toNat), (l.toNat, l.toNat)]) (fun c => c == l || c == u) G :=
  (byteAtom_cls_ascii (rs := [(u.toNat, u.toNat), (l.toNat, l.toNat)]) (by
    intro r hr
    simp only [inRanges, Bool.or_false, Bool.and_eq_true, Bool.or_eq_true, decide_eq_true_eq] at hr
    omega) G).congr (by
    intro b; rw [Bool.eq_iff_iff]
    simp only [inRanges, Bool.or_false, Bool.and_eq_true, Bool.or_eq_true, decide_eq_true_eq,
      beq_iff_eq, ← UInt8.toNat_inj]
    omega)

theorem decodeRune_383 {s : Bytes} {w : Nat} (h : decodeRune s = some (383, w)) :
    ∃ t, s = 0xC5 :: 0xBF :: t := by
  unfold decodeRune at h
  split at h
  · cases h
  · rename_i b0 t
    simp only at h
    repeat' split at h
    all_goals
      simp only [Option.some.injEq, Prod.mk.injEq] at h
      obtain ⟨h1, h2⟩ := h
      first
      | (exfalso; omega)
      | (exfalso; simp only [Bool.and_eq_true, decide_eq_true_eq, beq_iff_eq] at *; omega)
      | skip
    all_goals
      rename_i b1 tl hc
      simp only [Bool.and_eq_true, decide_eq_true_eq] at hc
      have e0 : b0 = 197 := UInt8.toNat_inj.mp (by show b0.toNat = 197; omega)
      have e1 : b1 = 191 := UInt8.toNat_inj.mp (by show b1.toNat = 191; omega)
      exact ⟨tl, by rw [e0, e1]⟩

/-- the text contains no `ſ` (U+017F, bytes C5 BF), which Go's `(?i)` folds onto `s` -/
def NoLongS (l : Bytes) : Prop := ∀ a t, l ≠ a ++ 0xC5 :: 0xBF :: t

theorem NoLongS.suffixClosed : SuffixClosed NoLongS := by
  intro b t h a t' e
  exact h (b :: a) t' (by rw [e]; rfl)

theorem NoLongS.drop {l : Bytes} (h : NoLongS l) (n : Nat) : NoLongS (l.drop n) := by
  intro a t e
  apply h (l.take n ++ a) t
  rw [List.append_assoc, ← e, List.take_append_drop]

theorem NoLongS.of_isInfix {l : Bytes} (h : isInfix [0xC5, 0xBF] l = false) : NoLongS l := by
  intro a t e
  have : ∀ a : Bytes, isInfix [0xC5, 0xBF] (a ++ 0xC5 :: 0xBF :: t) = true := by
    intro a
    induction a with
    | nil => simp [isInfix, hasPrefix]
    | cons c a ih => simp only [List.cons_append, isInfix, ih, Bool.or_true]
  rw [e, this a] at h; cases h

/-- `s`/`S` under `(?i)`: the class also contains `ſ`, excluded by `NoLongS` -/
theorem byteAtom_clsS :
    ByteAtom (.cls [(83, 83), (115, 115), (383, 383)]) (fun c => c == 115 || c == 83) NoLongS := by
  intro p q hg
  constructor
  · intro h
    cases h with
    | @cls _ _ r w hd hr =>
      simp only [inRanges, Bool.or_false, Bool.and_eq_true, Bool.or_eq_true, decide_eq_true_eq] at hr
      by_cases h3 : r = 383
      · subst h3
        obtain ⟨t, ht⟩ := decodeRune_383 hd
        exact absurd (by rw [ht]; rfl) (hg [] t)
      · obtain ⟨b, t, hs, hb, rfl⟩ := decodeRune_ascii hd (by omega)
        refine ⟨b, t, hs, ?_, rfl⟩
        simp only [Bool.or_eq_true, beq_iff_eq, ← UInt8.toNat_inj]
        have e1 : (115 : UInt8).toNat = 115 := rfl
        have e2 : (83 : UInt8).toNat = 83 := rfl
        omega
  · rintro ⟨b, t, hs, hb, rfl⟩
    simp only [Bool.or_eq_true, beq_iff_eq] at hb
    have hlt : b.toNat < 128 := by rcases hb with rfl | rfl <;> decide
    have := decodeRune_of_ascii t hlt
    rw [← hs] at this
    exact .cls this (by rcases hb with rfl | rfl <;> decide)

/-- the regex atoms of the literal part, in the order of `midPrefix` -/
def midRes : List Re :=
  [.cls [(77, 77), (109, 109)], .cls [(69, 69), (101, 101)], .cls [(83, 83), (115, 115), (383, 383)],
   .cls [(83, 83), (115, 115), (383, 383)], .cls [(65, 65), (97, 97)], .cls [(71, 71), (103, 103)],
   .cls [(69, 69), (101, 101)], .lit 45, .cls [(73, 73), (105, 105)], .cls [(68, 68), (100, 100)],
   .lit 61, .lit 34]

def foldPred (x : UInt8 × UInt8) : UInt8 → Bool := fun c => c == x.1 || c == x.2

def midAtoms : List (Re × (UInt8 → Bool)) := midRes.zip (midPrefix.map foldPred)

theorem midAtoms_snd : midAtoms.map (·.2) = midPrefix.map foldPred := rfl

theorem messageID_shape : Gen.Rx.Netconf.messageID =
    .cat (seqRe (midAtoms.map (·.1))) (.cat (.group 1 (.plus (.cls [(48, 57)]) true)) (.lit 34)) := rfl

theorem midAtoms_byteAtom : ∀ x ∈ midAtoms, ByteAtom x.1 x.2 NoLongS := by
  intro x hx
  simp only [midAtoms, midRes, midPrefix, List.map_cons, List.map_nil, List.zip_cons_cons,
    List.zip_nil_right, List.mem_cons, List.not_mem_nil, or_false] at hx
  rcases hx with rfl | rfl | rfl | rfl | rfl | rfl | rfl | rfl | rfl | rfl | rfl | rfl
  · exact byteAtom_cls2 77 109 (by decide) (by decide) _
  · exact byteAtom_cls2 69 101 (by decide) (by decide) _
  · exact byteAtom_clsS
  · exact byteAtom_clsS
  · exact byteAtom_cls2 65 97 (by decide) (by decide) _
  · exact byteAtom_cls2 71 103 (by decide) (by decide) _
  · exact byteAtom_cls2 69 101 (by decide) (by decide) _
  · exact byteAtom_byte 45 (by decide) _
  · exact byteAtom_cls2 73 105 (by decide) (by decide) _
  · exact byteAtom_cls2 68 100 (by decide) (by decide) _
  · exact byteAtom_byte 61 (by decide) _
  · exact byteAtom_byte 34 (by decide) _

theorem dropFold_eq_dropPred (ps : List (UInt8 × UInt8)) : ∀ b : Bytes,
    dropFold ps b = dropPred (ps.map foldPred) b := by
  induction ps with
  | nil => intro b; rfl
  | cons x ps ih =>
    intro b
    obtain ⟨lo, up⟩ := x
    cases b with
    | nil => rfl
    | cons c t =>
      simp only [dropFold, List.map_cons, dropPred]
      have e : foldPred (lo, up) c = (c == lo || c == up) := rfl
      rw [e]
      cases hc : (c == lo || c == up) <;> simp [ih]

theorem span_unique {f : UInt8 → Bool} : ∀ (n : Nat) (rest : Bytes) (c : UInt8) (t : Bytes),
    n ≤ rest.length → (∀ b ∈ rest.take n, f b = true) → rest.drop n = c :: t → f c = false →
    rest.takeWhile f = rest.take n ∧ rest.dropWhile f = c :: t := by
  intro n
  induction n with
  | zero =>
    intro rest c t _ _ hd hc
    simp only [List.drop_zero] at hd
    subst hd
    simp [List.takeWhile, List.dropWhile, hc]
  | succ n ih =>
    intro rest c t hn hall hd hc
    cases rest with
    | nil => simp at hn
    | cons b r =>
      have hb : f b = true := hall b (by simp)
      obtain ⟨h1, h2⟩ := ih r c t (by simpa using hn) (fun x hx => hall x (by simp [hx]))
        (by simpa using hd) hc
      simp [List.takeWhile, List.dropWhile, hb, h1, h2]

theorem span_canon {f : UInt8 → Bool} (rest : Bytes) :
    rest.take (rest.takeWhile f).length = rest.takeWhile f ∧
    rest.drop (rest.takeWhile f).length = rest.dropWhile f := by
  have h := List.takeWhile_append_dropWhile (p := f) (l := rest)
  have e1 : (rest.takeWhile f ++ rest.dropWhile f).take (rest.takeWhile f).length
      = rest.takeWhile f := List.take_left' rfl
  have e2 : (rest.takeWhile f ++ rest.dropWhile f).drop (rest.takeWhile f).length
      = rest.dropWhile f := List.drop_left' rfl
  rw [h] at e1 e2
  exact ⟨e1, e2⟩

/-- length of the match of the message-id pattern that starts where `x` starts -/
def idLen (x : Bytes) : Nat :=
  12 + (((dropFold midPrefix x).getD []).takeWhile isDigit).length + 1

theorem idHere_isSome_iff (x : Bytes) : (idHere x).isSome = true ↔
    ∃ rest t, dropFold midPrefix x = some rest ∧ rest.dropWhile isDigit = QUOTE :: t ∧
      rest.takeWhile isDigit ≠ [] := by
  unfold idHere
  cases hd : dropFold midPrefix x with
  | none => simp
  | some rest =>
    simp only
    cases hw : rest.dropWhile isDigit with
    | nil => simp [hw]
    | cons c t =>
      simp only
      by_cases hq : c = QUOTE
      · subst hq
        cases htw : rest.takeWhile isDigit with
        | nil => simp [hw, htw]
        | cons d ds => simp [hw, htw]
      · have : (c == QUOTE) = false := by simpa using hq
        simp [this, hq, hw]

theorem mem_takeWhile_true {f : UInt8 → Bool} {l : Bytes} {b : UInt8}
    (h : b ∈ l.takeWhile f) : f b = true := by
  induction l with
  | nil => simp at h
  | cons c t ih =>
    simp only [List.takeWhile] at h
    cases hc : f c with
    | false => rw [hc] at h; simp at h
    | true =>
      rw [hc] at h
      rcases List.mem_cons.mp h with rfl | h
      · exact hc
      · exact ih h

theorem midAtoms_length : midAtoms.length = 12 := rfl

theorem isDigit_quote : isDigit QUOTE = false := by decide

/-- a match of the message-id pattern at `p` (no `ſ` in the rest of the text): exactly when the
scanner's `idHere` fires, and then the end of the match is determined -/
theorem matches_messageID (p q : Pos) (hg : NoLongS p.after) :
    Matches Gen.Rx.Netconf.messageID p q ↔
      (idHere p.after).isSome = true ∧ idLen p.after ≤ p.after.length ∧
        q = p.advance (idLen p.after) := by
  rw [messageID_shape, idHere_isSome_iff, matches_cat_iff]
  have hseq := fun q1 => matches_seqRe NoLongS.suffixClosed midAtoms midAtoms_byteAtom p q1 hg
  simp only [midAtoms_snd, ← dropFold_eq_dropPred, midAtoms_length] at hseq
  constructor
  · rintro ⟨q1, h1, h2⟩
    obtain ⟨hd, rfl⟩ := (hseq q1).mp h1
    obtain ⟨hlen, hrest⟩ := dropPred_length (by rw [← dropFold_eq_dropPred]; exact hd :
      dropPred (midPrefix.map foldPred) p.after = some (p.advance 12).after)
    simp only [List.length_map] at hlen hrest
    have h12 : midPrefix.length = 12 := rfl
    rw [h12] at hlen hrest
    have hg1 : NoLongS (p.advance 12).after := by rw [hrest]; exact hg.drop 12
    obtain ⟨q2, h3, h4⟩ := matches_cat_iff.mp h2
    rw [matches_group_iff,
      matches_plus_byteAtom true NoLongS.suffixClosed (byteAtom_digit NoLongS) _ _ hg1] at h3
    obtain ⟨n, hn1, hn2, hall, rfl⟩ := h3
    have hg2 : NoLongS ((p.advance 12).advance n).after := by
      rw [Pos.advance_after]; exact hg1.drop n
    obtain ⟨c, t, hs, hc, rfl⟩ := (byteAtom_byte 34 (by decide) NoLongS _ _ hg2).mp h4
    have hcq : c = QUOTE := by
      have : c = 34 := by simpa using hc
      exact this
    subst hcq
    rw [Pos.advance_after] at hs
    obtain ⟨e1, e2⟩ := span_unique n (p.advance 12).after QUOTE t hn2 hall hs isDigit_quote
    have hlenId : idLen p.after = 12 + n + 1 := by
      unfold idLen
      rw [hd]
      simp only [Option.getD_some]
      rw [e1, List.length_take, Nat.min_eq_left hn2]
    have hn3 : n + 1 ≤ (p.advance 12).after.length := by
      have := congrArg List.length hs
      rw [List.length_drop, List.length_cons] at this
      omega
    refine ⟨⟨(p.advance 12).after, t, hd, e2, ?_⟩, ?_, ?_⟩
    · rw [e1]
      intro h0
      have := congrArg List.length h0
      rw [List.length_take, Nat.min_eq_left hn2] at this
      simp at this; omega
    · rw [hlenId]; omega
    · rw [hlenId, Pos.advance_advance _ _ _ (by omega), Pos.advance_advance _ _ _ (by omega)]
      rfl
  · rintro ⟨⟨rest, t, hd, hdw, htw⟩, hle, rfl⟩
    obtain ⟨hlen, hrest⟩ := dropPred_length (by rw [← dropFold_eq_dropPred]; exact hd :
      dropPred (midPrefix.map foldPred) p.after = some rest)
    simp only [List.length_map] at hlen hrest
    have h12 : midPrefix.length = 12 := rfl
    rw [h12] at hlen hrest
    have ha12 : (p.advance 12).after = rest := by rw [Pos.advance_after, hrest]
    have hg1 : NoLongS (p.advance 12).after := by rw [ha12, hrest]; exact hg.drop 12
    obtain ⟨c1, c2⟩ := span_canon (f := isDigit) rest
    have hlenId : idLen p.after = 12 + (rest.takeWhile isDigit).length + 1 := by
      unfold idLen; rw [hd]; rfl
    have hn2 : (rest.takeWhile isDigit).length ≤ rest.length := by
      have := congrArg List.length (List.takeWhile_append_dropWhile (p := isDigit) (l := rest))
      rw [List.length_append] at this; omega
    refine ⟨p.advance 12, (hseq _).mpr ⟨by rw [ha12]; exact hd, rfl⟩, ?_⟩
    refine matches_cat_iff.mpr ⟨(p.advance 12).advance (rest.takeWhile isDigit).length, ?_, ?_⟩
    · rw [matches_group_iff,
        matches_plus_byteAtom true NoLongS.suffixClosed (byteAtom_digit NoLongS) _ _ hg1]
      refine ⟨_, ?_, by rw [ha12]; exact hn2, ?_, rfl⟩
      · cases h0 : rest.takeWhile isDigit with
        | nil => exact absurd h0 htw
        | cons d ds => simp
      · rw [ha12, c1]
        intro b hb
        exact mem_takeWhile_true hb
    · have hg2 : NoLongS ((p.advance 12).advance (rest.takeWhile isDigit).length).after := by
        rw [Pos.advance_after]; exact hg1.drop _
      refine (byteAtom_byte 34 (by decide) NoLongS _ _ hg2).mpr ⟨QUOTE, t, ?_, by decide, ?_⟩
      · rw [Pos.advance_after, ha12, c2, hdw]
      · rw [hlenId, Pos.advance_advance _ _ _ (by rw [ha12]; exact hn2),
          Pos.advance_advance _ _ _ (by omega)]
        rfl

theorem idLen_le {x : Bytes} (h : (idHere x).isSome = true) : idLen x ≤ x.length := by
  obtain ⟨rest, t, hd, hdw, _⟩ := (idHere_isSome_iff x).mp h
  obtain ⟨hlen, _⟩ := dropPred_length (by rw [← dropFold_eq_dropPred]; exact hd :
    dropPred (midPrefix.map foldPred) x = some rest)
  simp only [List.length_map] at hlen
  have h12 : midPrefix.length = 12 := rfl
  have := congrArg List.length (List.takeWhile_append_dropWhile (p := isDigit) (l := rest))
  rw [List.length_append, hdw, List.length_cons] at this
  unfold idLen
  rw [hd]
  simp only [Option.getD_some]
  omega

theorem idHere_asciiHead {x : Bytes} (h : (idHere x).isSome = true) : AsciiHead x := by
  obtain ⟨rest, _, hd, _, _⟩ := (idHere_isSome_iff x).mp h
  cases x with
  | nil => exact .inl rfl
  | cons c t =>
    right
    refine ⟨c, t, rfl, ?_⟩
    simp only [midPrefix, dropFold] at hd
    split at hd
    · rename_i hc
      simp only [Bool.or_eq_true, beq_iff_eq] at hc
      rcases hc with rfl | rfl <;> decide
    · cases hd

/-- "the message-id pattern matches at offset `k` of `s`", as the scanner decides it -/
def hereId (s : Bytes) (k : Nat) : Bool := (idHere (s.drop k)).isSome

theorem find_messageID (s : Bytes) (hs : NoLongS s) :
    (find Gen.Rx.Netconf.messageID s).map (fun x => (x.1, x.2.1)) =
      (firstFrom (hereId s) (s.length + 1) 0).map (fun k => (k, k + idLen (s.drop k))) := by
  apply find_eq_firstFrom (hereId s) (fun k => idLen (s.drop k))
  · intro p q hr hM
    have hp := hr.posOf (Pos.Of.start s)
    have hg : NoLongS p.after := by rw [hp.after_eq]; exact hs.drop _
    obtain ⟨h1, h2, h3⟩ := (matches_messageID p q hg).mp hM
    rw [hp.after_eq] at h1
    refine ⟨h1, ?_⟩
    rw [h3, Pos.advance_off _ _ h2, hp.after_eq]
  · intro k hk hh
    unfold hereId at hh
    have hg : NoLongS (Pos.at s k).after := by rw [Pos.at_after]; exact hs.drop _
    refine ⟨Pos.at s k, (Pos.at s k).advance (idLen (s.drop k)),
      runeReach_ascii s hk (idHere_asciiHead hh), Pos.at_off s hk, ?_⟩
    rw [matches_messageID _ _ hg, Pos.at_after]
    exact ⟨hh, idLen_le hh, rfl⟩

theorem firstId_eq_firstFrom : ∀ b : Bytes,
    firstId b = (firstFrom (hereId b) (b.length + 1) 0).bind (fun k => idHere (b.drop k)) := by
  intro b
  induction b with
  | nil => rfl
  | cons c t ih =>
    simp only [firstId, List.length_cons]
    rw [firstFrom]
    have h0 : hereId (c :: t) 0 = (idHere (c :: t)).isSome := rfl
    rw [h0]
    cases hi : idHere (c :: t) with
    | some n => simp [hi]
    | none =>
      simp only [Option.isSome_none, Bool.false_eq_true, if_false]
      rw [firstFrom_shift, ih]
      have : (fun k => hereId (c :: t) (k + 1)) = hereId t := by
        funext k; simp [hereId]
      rw [this]
      cases firstFrom (hereId t) (t.length + 1) 0 <;> simp

theorem firstId_isSome_eq_firstFrom (b : Bytes) :
    (firstId b).isSome = (firstFrom (hereId b) (b.length + 1) 0).isSome := by
  rw [firstId_eq_firstFrom]
  cases h : firstFrom (hereId b) (b.length + 1) 0 with
  | none => rfl
  | some k =>
    have := (firstFrom_some_iff.mp h).2.2.1
    simp only [Option.bind_some, Option.isSome_some]
    exact this

/-- `firstId` finds an id exactly when the message-id regex matches (texts without `ſ`). -/
theorem firstId_isSome (b : Bytes) (hb : NoLongS b) :
    (firstId b).isSome = isMatch Gen.Rx.Netconf.messageID b := by
  rw [isMatch_eq_firstFrom _ _ (find_messageID b hb), firstId_isSome_eq_firstFrom]


/-! ## the captured id -/

theorem messageID_pieces {p q1 q2 q : Pos} (hg : NoLongS p.after)
    (h1 : Matches (seqRe (midAtoms.map (·.1))) p q1)
    (h3 : Matches (.plus (.cls [(48, 57)]) true) q1 q2) (h4 : Matches (.lit 34) q2 q) :
    ∃ rest, dropFold midPrefix p.after = some rest ∧ q1 = p.advance 12 ∧ 12 ≤ p.after.length ∧
      q1.after = rest ∧ q2 = q1.advance (rest.takeWhile isDigit).length ∧
      (rest.takeWhile isDigit).length ≤ rest.length := by
  have hseq := matches_seqRe NoLongS.suffixClosed midAtoms midAtoms_byteAtom p q1 hg
  simp only [midAtoms_snd, ← dropFold_eq_dropPred, midAtoms_length] at hseq
  obtain ⟨hd, rfl⟩ := hseq.mp h1
  obtain ⟨hlen, hrest⟩ := dropPred_length (by rw [← dropFold_eq_dropPred]; exact hd :
    dropPred (midPrefix.map foldPred) p.after = some (p.advance 12).after)
  simp only [List.length_map] at hlen hrest
  have h12 : midPrefix.length = 12 := rfl
  rw [h12] at hlen hrest
  have hg1 : NoLongS (p.advance 12).after := by rw [hrest]; exact hg.drop 12
  rw [matches_plus_byteAtom true NoLongS.suffixClosed (byteAtom_digit NoLongS) _ _ hg1] at h3
  obtain ⟨n, hn1, hn2, hall, rfl⟩ := h3
  have hg2 : NoLongS ((p.advance 12).advance n).after := by
    rw [Pos.advance_after]; exact hg1.drop n
  obtain ⟨c, t, hs, hc, rfl⟩ := (byteAtom_byte 34 (by decide) NoLongS _ _ hg2).mp h4
  have hcq : c = QUOTE := by
    have : c = 34 := by simpa using hc
    exact this
  subst hcq
  rw [Pos.advance_after] at hs
  obtain ⟨e1, _⟩ := span_unique n (p.advance 12).after QUOTE t hn2 hall hs isDigit_quote
  have hlen' : ((p.advance 12).after.takeWhile isDigit).length = n := by
    rw [e1, List.length_take, Nat.min_eq_left hn2]
  exact ⟨(p.advance 12).after, hd, rfl, by omega, rfl, by rw [hlen'], by rw [hlen']; exact hn2⟩

/-- the capture table the engine can report for the message-id pattern is forced: group 1 is the
maximal digit run after the literal part -/
theorem messageID_caps {p q : Pos} {c : Caps} (hg : NoLongS p.after)
    (h : MatchesC Gen.Rx.Netconf.messageID p [] q c) :
    ∃ rest, dropFold midPrefix p.after = some rest ∧ 12 ≤ p.after.length ∧
      rest = p.after.drop 12 ∧
      c = [(1, p.off + 12, p.off + 12 + (rest.takeWhile isDigit).length)] ∧
      (rest.takeWhile isDigit).length ≤ rest.length := by
  rw [messageID_shape] at h
  cases h with
  | cat hA hBC =>
    cases hBC with
    | cat hG hQ =>
      cases hG with
      | group hD =>
        have e1 := hA.noGroup_caps rfl
        have e2 := hD.noGroup_caps rfl
        have e3 := hQ.noGroup_caps rfl
        obtain ⟨rest, hd, hq1, h12, hra, hq2, hle⟩ :=
          messageID_pieces hg hA.forget hD.forget hQ.forget
        refine ⟨rest, hd, h12, ?_, ?_, hle⟩
        · rw [← hra, hq1, Pos.advance_after]
        · subst hq1
          have o1 := Pos.advance_off 12 p h12
          have o2 := Pos.advance_off (rest.takeWhile isDigit).length (p.advance 12)
            (by rw [hra]; exact hle)
          rw [e3, e2, e1, hq2, o2, o1]

theorem idHere_eq {x rest : Bytes} (hd : dropFold midPrefix x = some rest)
    (h : (idHere x).isSome = true) : idHere x = some (atoiClamp (rest.takeWhile isDigit)) := by
  obtain ⟨rest', t, hd', hdw, htw⟩ := (idHere_isSome_iff x).mp h
  rw [hd] at hd'
  cases hd'
  unfold idHere
  rw [hd]
  simp only [hdw]
  cases hz : rest.takeWhile isDigit with
  | nil => exact absurd hz htw
  | cons d ds => simp

/-- **The id `firstId` returns is the engine's capture group 1, read as a decimal** (texts
without `ſ`): leftmost match, forced decomposition, maximal digit run. -/
theorem firstId_eq_findGroup (b : Bytes) (hb : NoLongS b) :
    firstId b = (findGroup Gen.Rx.Netconf.messageID b 1).map atoiClamp := by
  have hfind := find_messageID b hb
  rw [firstId_eq_firstFrom]
  unfold findGroup
  cases hf : find Gen.Rx.Netconf.messageID b with
  | none =>
    rw [hf] at hfind
    cases hk : firstFrom (hereId b) (b.length + 1) 0 with
    | none => rfl
    | some k => rw [hk] at hfind; cases hfind
  | some x =>
    obtain ⟨a, e, c⟩ := x
    rw [hf] at hfind
    cases hk : firstFrom (hereId b) (b.length + 1) 0 with
    | none => rw [hk] at hfind; cases hfind
    | some k =>
      rw [hk] at hfind
      simp only [Option.map_some, Option.some.injEq, Prod.mk.injEq] at hfind
      obtain ⟨rfl, _⟩ := hfind
      obtain ⟨p, q, _, hp, _, hpa, _, hM⟩ := find_soundC hf
      have hg : NoLongS p.after := by rw [hp.after_eq]; exact hb.drop _
      obtain ⟨rest, hd, h12, hrest, hc, hle⟩ := messageID_caps hg hM
      have hsome := ((matches_messageID p q hg).mp hM.forget).1
      rw [hp.after_eq, hpa] at hd hsome hrest
      simp only [Option.bind_some]
      rw [idHere_eq hd hsome, hc, hpa]
      simp only [Caps.get, beq_self_eq_true, if_true, Option.map_some, Option.some.injEq]
      congr 1
      rw [List.drop_drop] at hrest
      have : a + 12 + (rest.takeWhile isDigit).length - (a + 12) = (rest.takeWhile isDigit).length := by
        omega
      rw [this, ← hrest]
      exact (span_canon rest).1.symm


end Scrapli.Rx
