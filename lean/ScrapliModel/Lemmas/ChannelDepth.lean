import ScrapliModel.Lemmas.Channel
import ScrapliModel.Lemmas.RegexLine
/-!
# ChannelDepth: helper lemmas for the depth-independence theorems of C01 (`Props/C01Depth.lean`)

* lines of a text (`splitLF`): the last line, lines of prefixes;
* a line pattern whose tail is `\s*$` (white space that *can* consume a line feed) matches the same
  texts as the pattern with the line feed removed from the class: a match can always be cut at the
  first line feed the white space would swallow;
* `bytes.Contains(·, needle)` for a needle without line feed looks at lines independently.
-/
namespace Scrapli
open Scrapli

/-- the last line of a text (`bytes.Split(s, "\n")` always has one) -/
def lastLine (s : Bytes) : Bytes := (splitLF s).getLastD []

theorem splitLF_cons_LF (t : Bytes) : splitLF (LF :: t) = [] :: splitLF t := by
  have := Rx.splitLF_append_LF [] t
  simpa [splitLF] using this

theorem lastLine_mem (s : Bytes) : lastLine s ∈ splitLF s := by
  unfold lastLine
  cases h : splitLF s with
  | nil => exact absurd h (Rx.splitLF_ne_nil' s)
  | cons a l =>
    rw [List.getLastD_eq_getLast?]
    have : (a :: l).getLast? = some ((a :: l).getLast (by simp)) := List.getLast?_eq_some_getLast (by simp)
    rw [this]
    exact List.getLast_mem _

theorem lastLine_append_LF (pre rest : Bytes) : lastLine (pre ++ LF :: rest) = lastLine rest := by
  unfold lastLine
  rw [Rx.splitLF_append_LF]
  cases h : splitLF rest with
  | nil => exact absurd h (Rx.splitLF_ne_nil' rest)
  | cons a l =>
    simp only [List.getLastD_eq_getLast?, List.getLast?_append]
    have : (a :: l).getLast? = some ((a :: l).getLast (by simp)) := List.getLast?_eq_some_getLast (by simp)
    rw [this]; rfl

theorem lastLine_noLF {l : Bytes} (h : ∀ b ∈ l, b ≠ LF) : lastLine l = l := by
  unfold lastLine; rw [Rx.splitLF_noLF h]; rfl

/-- lines of a suffix that starts at a line feed are lines of the text (plus one empty line) -/
theorem splitLF_cut (pre rest : Bytes) :
    splitLF (LF :: rest) = [] :: (splitLF (pre ++ LF :: rest)).drop (splitLF pre).length ∧
    0 < (splitLF pre).length ∧ (splitLF pre).length < (splitLF (pre ++ LF :: rest)).length := by
  rw [Rx.splitLF_append_LF, splitLF_cons_LF, List.drop_left' rfl]
  refine ⟨rfl, ?_, ?_⟩
  · exact List.length_pos_iff.mpr (Rx.splitLF_ne_nil' pre)
  · rw [List.length_append]
    have := List.length_pos_iff.mpr (Rx.splitLF_ne_nil' rest)
    omega

/-! ## predicates that look at lines independently -/

section LineLocal
variable {P : Bytes → Bool}

/-- a line-local predicate holds of a text iff it holds of one of its lines taken alone -/
theorem lineLocal_self {L : Bytes → Bool} (hL : ∀ s, P s = (splitLF s).any L) (s : Bytes) :
    P s = (splitLF s).any P := by
  have hline : ∀ l ∈ splitLF s, P l = L l := by
    intro l hl
    obtain ⟨_, _, _, hnl, _, _⟩ := Rx.splitLF_mem hl
    rw [hL l, Rx.splitLF_noLF hnl]; simp
  rw [hL s, Bool.eq_iff_iff, List.any_eq_true, List.any_eq_true]
  constructor
  · rintro ⟨l, hl, h⟩; exact ⟨l, hl, by rw [hline l hl]; exact h⟩
  · rintro ⟨l, hl, h⟩; exact ⟨l, hl, by rw [← hline l hl]; exact h⟩

theorem lineLocal_of_mem (hP : ∀ s, P s = (splitLF s).any P) {s l : Bytes} (hl : l ∈ splitLF s)
    (h : P l = true) : P s = true := by
  rw [hP s, List.any_eq_true]; exact ⟨l, hl, h⟩

theorem lineLocal_suffix (hP : ∀ s, P s = (splitLF s).any P) (h0 : P [] = false)
    (rest : Bytes) : P (LF :: rest) = P rest := by
  rw [hP (LF :: rest), splitLF_cons_LF, List.any_cons, h0, Bool.false_or, ← hP rest]

theorem lineLocal_append (hP : ∀ s, P s = (splitLF s).any P) (pre rest : Bytes) :
    P (pre ++ LF :: rest) = (P pre || P rest) := by
  rw [hP (pre ++ LF :: rest), Rx.splitLF_append_LF, List.any_append, ← hP pre, ← hP rest]

/-- when no line but the last satisfies a line-local predicate, the predicate's verdict on the text
is its verdict on the last line -/
theorem lineLocal_eq_last (hP : ∀ s, P s = (splitLF s).any P) (s : Bytes)
    (hout : ∀ l ∈ (splitLF s).dropLast, P l = false) : P s = P (lastLine s) := by
  have hne := Rx.splitLF_ne_nil' s
  have hl : lastLine s = (splitLF s).getLast hne := by
    unfold lastLine
    rw [List.getLastD_eq_getLast?, List.getLast?_eq_some_getLast hne]; rfl
  have hsplit := List.dropLast_concat_getLast hne
  have hfalse : (splitLF s).dropLast.any P = false := by
    rw [List.any_eq_false]; intro l hl; simp [hout l hl]
  conv => lhs; rw [hP s, ← hsplit, List.any_append, hfalse]
  simp [hl]

end LineLocal

/-! ## `bytes.Contains` with a needle free of line feeds -/

theorem isInfix_append_LF (n pre rest : Bytes) (hn : n ≠ []) (hlf : LF ∉ n) :
    isInfix n (pre ++ LF :: rest) = (isInfix n pre || isInfix n rest) := by
  rw [Bool.eq_iff_iff, Bool.or_eq_true, Chan.isInfix_iff, Chan.isInfix_iff, Chan.isInfix_iff]
  constructor
  · rintro ⟨a, b, h⟩
    -- where does the line feed fall: inside `a`, or inside `b` (it cannot be inside `n`)
    rw [List.append_assoc] at h
    rcases List.append_eq_append_iff.mp h with ⟨c, hc1, hc2⟩ | ⟨c, hc1, hc2⟩
    · -- a = pre ++ c, LF :: rest = c ++ (n ++ b)
      cases c with
      | nil =>
        simp only [List.nil_append] at hc2
        cases n with
        | nil => exact absurd rfl hn
        | cons x n' =>
          simp only [List.cons_append, List.cons.injEq] at hc2
          exact absurd (by rw [← hc2.1]; simp) hlf
      | cons x c' =>
        simp only [List.cons_append, List.cons.injEq] at hc2
        right; exact ⟨c', b, by rw [hc2.2, List.append_assoc]⟩
    · -- pre = a ++ c, n ++ b = c ++ LF :: rest
      rcases List.append_eq_append_iff.mp hc2 with ⟨e, he1, he2⟩ | ⟨e, he1, he2⟩
      · -- c = n ++ e
        left; exact ⟨a, e, by rw [hc1, he1, List.append_assoc]⟩
      · -- n = c ++ e, LF :: rest = e ++ b
        cases e with
        | nil =>
          simp only [List.append_nil] at he1
          simp only [List.nil_append] at he2
          left; exact ⟨a, [], by rw [hc1, he1]; simp⟩
        | cons x e' =>
          simp only [List.cons_append, List.cons.injEq] at he2
          exact absurd (by rw [he1, ← he2.1]; simp) hlf
  · rintro (⟨a, b, h⟩ | ⟨a, b, h⟩)
    · exact ⟨a, b ++ LF :: rest, by rw [h]; simp⟩
    · exact ⟨pre ++ LF :: a, b, by rw [h]; simp⟩

/-- `bytes.Contains(s, n)` for a needle without line feed holds iff one line of `s` contains it -/
theorem isInfix_lines (n : Bytes) (hn : n ≠ []) (hlf : LF ∉ n) :
    ∀ (k : Nat) (s : Bytes), s.length ≤ k → isInfix n s = (splitLF s).any (isInfix n) := by
  intro k
  induction k with
  | zero =>
    intro s hs
    have : s = [] := List.length_eq_zero_iff.mp (by omega)
    subst this; simp [splitLF]
  | succ k ih =>
    intro s hs
    by_cases hmem : LF ∈ s
    · obtain ⟨pre, rest, rfl⟩ := List.append_of_mem hmem
      rw [isInfix_append_LF n pre rest hn hlf, Rx.splitLF_append_LF, List.any_append]
      rw [List.length_append, List.length_cons] at hs
      rw [ih pre (by omega), ih rest (by omega)]
    · have : ∀ b ∈ s, b ≠ LF := fun b hb e => hmem (e ▸ hb)
      rw [Rx.splitLF_noLF this]; simp

namespace Rx

/-! ## a trailing `\s*$` can be cut at the first line feed -/

theorem Matches.star_cls_mono {ws ws' : List (Nat × Nat)} {g : Bool}
    (hsub : ∀ r, inRanges r ws' = true → inRanges r ws = true) {p q : Pos}
    (h : Matches (.star (.cls ws') g) p q) : Matches (.star (.cls ws) g) p q := by
  generalize hre : Re.star (.cls ws') g = re at h
  induction h with
  | starNil p => exact .starNil p
  | starCons h1 _ _ ih2 =>
    cases hre
    cases h1 with
    | cls hd hr => exact .starCons (.cls hd (hsub _ hr)) (ih2 rfl)
  | _ => cases hre

theorem Matches.star_cls_cut {ws ws' : List (Nat × Nat)} {g : Bool}
    (hcut : ∀ r, inRanges r ws = true → r ≠ 10 → inRanges r ws' = true) {p q : Pos}
    (h : Matches (.star (.cls ws) g) p q) (he : q.atEol = true) :
    ∃ q', Matches (.star (.cls ws') g) p q' ∧ q'.atEol = true := by
  generalize hre : Re.star (.cls ws) g = re at h
  induction h with
  | starNil p => exact ⟨p, .starNil p, he⟩
  | @starCons _ _ p _ _ h1 _ _ ih2 =>
    cases hre
    cases h1 with
    | @cls _ _ r w hd hr =>
      by_cases h10 : r = 10
      · subst h10
        obtain ⟨b, t, hs, hb, _⟩ := decodeRune_ascii hd (by decide)
        refine ⟨p, .starNil p, ?_⟩
        have : b = LF := UInt8.toNat_inj.mp (by rw [hb]; rfl)
        unfold Pos.atEol; rw [hs, this]; simp
      · obtain ⟨q', hM, hq'⟩ := ih2 he rfl
        exact ⟨q', .starCons (.cls hd (hcut _ hr h10)) hM, hq'⟩
  | _ => cases hre

/-- `(?m)^a b \s*$` (white space class `ws`, possibly containing the line feed) matches exactly the
texts `(?m)^(a b ws'*)$` matches, where `ws'` is `ws` without the line feed: the second pattern has
the `^body$` shape of `isMatch_line_iff`. -/
theorem isMatch_trailing_ws (a b : Re) (ws ws' : List (Nat × Nat)) (g : Bool)
    (hsub : ∀ r, inRanges r ws' = true → inRanges r ws = true)
    (hcut : ∀ r, inRanges r ws = true → r ≠ 10 → inRanges r ws' = true) (s : Bytes) :
    isMatch (.cat .bol (.cat a (.cat b (.cat (.star (.cls ws) g) .eol)))) s =
      isMatch (.cat .bol (.cat (.cat a (.cat b (.star (.cls ws') g))) .eol)) s := by
  rw [Bool.eq_iff_iff, isMatch_iff, isMatch_iff]
  constructor
  · rintro ⟨p, q, hr, hM⟩
    cases hM with
    | cat h1 h2 =>
      cases h1 with
      | bol hb =>
        cases h2 with
        | cat ha h3 =>
          cases h3 with
          | cat hb' h4 =>
            cases h4 with
            | cat hst h5 =>
              cases h5 with
              | eol he =>
                obtain ⟨q', hst', he'⟩ := hst.star_cls_cut hcut he
                exact ⟨p, q', hr, .cat (.bol hb) (.cat (.cat ha (.cat hb' hst')) (.eol he'))⟩
  · rintro ⟨p, q, hr, hM⟩
    cases hM with
    | cat h1 h2 =>
      cases h1 with
      | bol hb =>
        cases h2 with
        | cat h3 h5 =>
          cases h5 with
          | eol he =>
            cases h3 with
            | cat ha h4 =>
              cases h4 with
              | cat hb' hst =>
                exact ⟨p, q, hr, .cat (.bol hb) (.cat ha (.cat hb' (.cat (hst.star_cls_mono hsub) (.eol he))))⟩

end Rx
end Scrapli
