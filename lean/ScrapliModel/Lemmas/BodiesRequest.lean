import ScrapliModel.Lemmas.Request
import ScrapliModel.Lemmas.GoSem
import ScrapliModel.Generated.BodiesRequest
/-!
# The `range` loop of `ForceSelfClosingTags`, as translated from the source
(`Generated/BodiesRequest.lean`), against the statement-by-statement model `forceSelfClosingGo`
-/
open Scrapli Scrapli.Netconf

namespace Scrapli.Netconf.Req
/-- what `FindAllSubmatch` returns for one match: the full text and the three groups -/
def Match.groups (m : Match) : List Bytes := [m.full, m.name, m.attrs, m.cname]

theorem hasSuffix_slash (l : Bytes) :
    hasPrefix l.reverse (List.reverse ([47] : Bytes)) = (l.getLast? == some SLc) := by
  rw [List.getLast?_eq_head?_reverse]
  cases l.reverse with
  | nil => simp [hasPrefix]
  | cons a t => cases t <;> simp [hasPrefix, SLc]

theorem fsc_loop (ms : List Match) (b : Bytes) (i : Int) :
    Go.forRangeFrom (ρ := Option Bytes) (fun _ sm b => (
      if !(Go.idxOK (Go.len sm) (0 : Int)) then .ret none else
      let fullMatch := (Go.at sm (0 : Int))
      if !(Go.idxOK (Go.len sm) (1 : Int)) then .ret none else
      let openingTag := (Go.at sm (1 : Int))
      if !(Go.idxOK (Go.len sm) (2 : Int)) then .ret none else
      let openingTagContents := (Go.at sm (2 : Int))
      if !(Go.idxOK (Go.len sm) (3 : Int)) then .ret none else
      let closingTag := (Go.at sm (3 : Int))
      if ((!(openingTag == closingTag)) || (hasPrefix (List.reverse openingTagContents) (List.reverse ([47] : Bytes)))) then (
        .next b)
      else (
        let b := (Netconf.Req.replaceAll fullMatch (([60] : Bytes) ++ openingTag ++ openingTagContents ++ ([47,62] : Bytes)) (List.length b) b)
        .next b))) i (ms.map Match.groups) b
    = .fin (ms.foldl (fun b m => if Match.eligible m then replaceAll m.full m.closed b.length b else b) b) := by
  generalize hbody : (fun (_ : Int) (sm : List Bytes) (b : Bytes) => _) = body
  have hstep : ∀ (i : Int) (m : Match) (b : Bytes), body i m.groups b
      = .next (if Match.eligible m then replaceAll m.full m.closed b.length b else b) := by
    intro i m b
    subst hbody
    have h0 : Go.idxOK (Go.len m.groups) 0 = true := by simp [Match.groups, Go.idxOK, Go.len]
    have h1 : Go.idxOK (Go.len m.groups) 1 = true := by simp [Match.groups, Go.idxOK, Go.len]
    have h2 : Go.idxOK (Go.len m.groups) 2 = true := by simp [Match.groups, Go.idxOK, Go.len]
    have h3 : Go.idxOK (Go.len m.groups) 3 = true := by simp [Match.groups, Go.idxOK, Go.len]
    have a0 : Go.at m.groups 0 = m.full := by simp [Match.groups, Go.at]
    have a1 : Go.at m.groups 1 = m.name := by simp [Match.groups, Go.at]
    have a2 : Go.at m.groups 2 = m.attrs := by simp [Match.groups, Go.at]
    have a3 : Go.at m.groups 3 = m.cname := by simp [Match.groups, Go.at]
    have hcl : (([60] : Bytes) ++ m.name ++ m.attrs ++ ([47,62] : Bytes)) = m.closed := by
      simp [Match.closed, LTc, SLc, GTc]
    simp only [h0, h1, h2, h3, a0, a1, a2, a3, hcl, hasSuffix_slash, Bool.not_true, Bool.false_eq_true, if_false]
    by_cases he : m.eligible = true
    · have hc : ((!(m.name == m.cname)) || (m.attrs.getLast? == some SLc)) = false := by
        simp only [Match.eligible, Bool.and_eq_true, bne_iff_ne, ne_eq] at he
        simp [he.1]
        exact he.2
      simp only [hc, he, Bool.false_eq_true, if_false, if_true]
    · have hc : ((!(m.name == m.cname)) || (m.attrs.getLast? == some SLc)) = true := by
        simp only [Match.eligible, Bool.and_eq_true, bne_iff_ne, ne_eq, not_and, Decidable.not_not] at he
        by_cases hn : (m.name == m.cname) = true
        · simp [hn, he hn]
        · simp [hn]
      simp only [hc, he, if_true, Bool.false_eq_true, if_false]
  clear hbody
  induction ms generalizing b i with
  | nil => simp [Go.forRangeFrom]
  | cons m ms ih =>
    simp only [List.map_cons, Go.forRangeFrom, hstep, List.foldl_cons]
    exact ih _ _
end Scrapli.Netconf.Req

