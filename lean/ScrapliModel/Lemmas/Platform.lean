import ScrapliModel.Platform
/-!
# Lemmas about `mergeVariant` (property C17)

Each statement of `(*Platform).mergeVariant` is a record update with a conditional value; the
composition of the eight therefore equals the section-wise specification.
-/
namespace Scrapli.Platform
variable {L S O : Type}

theorem mDriverType_eq (v p : Sections L S O) : mDriverType v p =
    { p with driverType := if v.driverType != "" then v.driverType else p.driverType } := by
  unfold mDriverType; split <;> rfl
theorem mFailedWhen_eq (v p : Sections L S O) : mFailedWhen v p =
    { p with failedWhen := if v.failedWhen.length > 0 then v.failedWhen else p.failedWhen } := by
  unfold mFailedWhen; split <;> rfl
theorem mOnOpen_eq (v p : Sections L S O) : mOnOpen v p =
    { p with onOpen := if v.onOpen.isSome then v.onOpen else p.onOpen } := by
  unfold mOnOpen; split <;> rfl
theorem mOnClose_eq (v p : Sections L S O) : mOnClose v p =
    { p with onClose := if v.onClose.isSome then v.onClose else p.onClose } := by
  unfold mOnClose; split <;> rfl
theorem mLevels_eq (v p : Sections L S O) : mLevels v p =
    { p with levels := if v.levels.length > 0 then v.levels else p.levels } := by
  unfold mLevels; split <;> rfl
theorem mDefaultLevel_eq (v p : Sections L S O) : mDefaultLevel v p =
    { p with defaultLevel := if v.defaultLevel != "" then v.defaultLevel else p.defaultLevel } := by
  unfold mDefaultLevel; split <;> rfl
theorem mNetOnOpen_eq (v p : Sections L S O) : mNetOnOpen v p =
    { p with netOnOpen := if v.netOnOpen.isSome then v.netOnOpen else p.netOnOpen } := by
  unfold mNetOnOpen; split <;> rfl
theorem mNetOnClose_eq (v p : Sections L S O) : mNetOnClose v p =
    { p with netOnClose := if v.netOnClose.isSome then v.netOnClose else p.netOnClose } := by
  unfold mNetOnClose; split <;> rfl

/-- the section-wise specification of a variant merge: a section is the variant's when the
variant defines it (non-empty string / non-empty list / non-nil step list), else the base's;
`options` always stay the base's -/
def mergeSpec (p v : Sections L S O) : Sections L S O :=
  { driverType := if v.driverType != "" then v.driverType else p.driverType
    failedWhen := if v.failedWhen.length > 0 then v.failedWhen else p.failedWhen
    onOpen := if v.onOpen.isSome then v.onOpen else p.onOpen
    onClose := if v.onClose.isSome then v.onClose else p.onClose
    levels := if v.levels.length > 0 then v.levels else p.levels
    defaultLevel := if v.defaultLevel != "" then v.defaultLevel else p.defaultLevel
    netOnOpen := if v.netOnOpen.isSome then v.netOnOpen else p.netOnOpen
    netOnClose := if v.netOnClose.isSome then v.netOnClose else p.netOnClose
    options := p.options }

theorem mergeVariant_eq_mergeSpec (p v : Sections L S O) : mergeVariant p v = mergeSpec p v := by
  simp only [mergeVariant, mDriverType_eq, mFailedWhen_eq, mOnOpen_eq, mOnClose_eq, mLevels_eq,
    mDefaultLevel_eq, mNetOnOpen_eq, mNetOnClose_eq, mergeSpec]

/-- a definition whose map keys equal the level names and whose levels form a single tree cannot
trigger the nil-map panic of `buildPrivGraph` -/
theorem singleTree_graphBuildable (d : Def) (hk : keyEqName d = true) (ht : singleTree d = true) :
    graphBuildable d = true := by
  unfold singleTree at ht
  simp only [Bool.and_eq_true] at ht
  obtain ⟨⟨⟨_, hprev⟩, _⟩, _⟩ := ht
  unfold graphBuildable
  rw [List.all_eq_true] at hprev ⊢
  intro l hl
  have h := hprev l hl
  rw [Bool.or_eq_true] at h ⊢
  rcases h with h | h
  · exact Or.inl h
  · right
    unfold hasLevel at h
    rw [List.any_eq_true] at h ⊢
    obtain ⟨x, hx, hxk⟩ := h
    refine ⟨x, hx, ?_⟩
    unfold keyEqName at hk
    rw [List.all_eq_true] at hk
    have hkn := hk x hx
    rw [beq_iff_eq] at hkn hxk ⊢
    rw [← hkn]; exact hxk

end Scrapli.Platform
