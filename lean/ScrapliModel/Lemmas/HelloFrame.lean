import ScrapliModel.Lemmas.HelloOpen
/-!
After `Open`: both peers derive the same framing; the client's request bytes are exactly what a
strict decoder of that framing accepts.
-/
namespace Scrapli.Netconf.Hello
open Scrapli Scrapli.Chan

/-- RFC 6242 encoding of a message sent as one chunk -/
def frame11 (xml : Bytes) : Bytes :=
  LF :: HASH :: (decDigits xml.length ++ LF :: (xml ++ [LF, HASH, HASH, LF]))

theorem decodeOne11_frame11 (xml rest : Bytes) (hne : xml ≠ []) :
    decodeOne11 (frame11 xml ++ rest) = some (xml, rest) := by
  have hd := decDigits_all_digits xml.length
  have e : frame11 xml ++ rest
      = 10 :: 35 :: (decDigits xml.length ++ 10 :: (xml ++ 10 :: 35 :: 35 :: 10 :: rest)) := by
    simp [frame11, LF, HASH]
  rw [e]
  unfold decodeOne11
  simp only [takeWhile_all_append _ 10 _ hd (by decide), dropWhile_all_append _ 10 _ hd (by decide),
    parseDec_decDigits]
  have hpos : 0 < xml.length := List.length_pos_iff.mpr hne
  have h0 : (xml.length == 0) = false := by simp; omega
  have hl : ¬ (xml ++ 10 :: 35 :: 35 :: 10 :: rest).length < xml.length := by
    rw [List.length_append]; omega
  simp only [h0, Bool.false_or, decide_eq_true_eq, hl, if_false]
  simp

/-- 1.1: the bytes after the client hello (the hello's return, then each request with its two
returns) regroup into RFC 6242 frames, one per request, plus the line feed that will open the
next frame -/
theorem stream11_regroup (reqs : List Bytes) :
    [LF] ++ (reqs.map (requestWire .v11 [LF])).flatten = (reqs.map frame11).flatten ++ [LF] := by
  induction reqs with
  | nil => rfl
  | cons x xs ih =>
    simp only [List.map_cons, List.flatten_cons]
    have : [LF] ++ (requestWire .v11 [LF] x ++ (xs.map (requestWire .v11 [LF])).flatten)
        = frame11 x ++ ([LF] ++ (xs.map (requestWire .v11 [LF])).flatten) := by
      simp [requestWire, frame11]
    rw [this, ih, List.append_assoc]

/-- 1.0: every request is its XML followed by the end-of-message marker (and the return) -/
theorem stream10_shape (reqs : List Bytes) (ret : Bytes) :
    (reqs.map (requestWire .v10 ret)).flatten
      = (reqs.map fun x => x ++ Gen.Netconf.v1Dot0Delim ++ ret).flatten := rfl

theorem indexOf_first (D H rest : Bytes) (h : delimFirstAtEnd D H = true) :
    indexOf D (H ++ D ++ rest) = some H.length := by
  obtain ⟨i, hi, hidx⟩ := indexOf_le D H rest
  rw [hidx]
  -- i < H.length would put an occurrence inside a proper prefix of H ++ D
  by_cases hlt : i < H.length
  · exfalso
    have hk : i + D.length < H.length + D.length := by omega
    have hno := no_early_delim D H h (i + D.length) hk
    -- the occurrence at i lies within the first i + |D| bytes
    have hocc : ∀ (s : Bytes) (j : Nat), indexOf D s = some j →
        ∃ a b, s = a ++ D ++ b ∧ a.length = j := by
      intro s
      induction s with
      | nil =>
        intro j hj
        simp only [indexOf] at hj
        split at hj
        · rename_i he
          simp only [Option.some.injEq] at hj
          have : D = [] := by simpa using he
          exact ⟨[], [], by simp [this], by simpa using hj⟩
        · simp at hj
      | cons b t ih =>
        intro j hj
        simp only [indexOf] at hj
        split at hj
        · rename_i hp
          simp only [Option.some.injEq] at hj
          obtain ⟨r, hr⟩ := (hasPrefix_iff _ _).mp hp
          exact ⟨[], r, by simpa using hr, by simpa using hj⟩
        · cases ht : indexOf D t with
          | none => simp [ht] at hj
          | some j' =>
            simp only [ht, Option.map_some, Option.some.injEq] at hj
            obtain ⟨a, b', hab, hal⟩ := ih j' ht
            exact ⟨b :: a, b', by simp [hab], by simp [hal, hj]⟩
    obtain ⟨a, b, hab, hal⟩ := hocc _ _ hidx
    have : isInfix D ((H ++ D).take (i + D.length)) = true := by
      have e1 : (H ++ D ++ rest).take (i + D.length) = (H ++ D).take (i + D.length) := by
        rw [List.take_append_of_le_length (by rw [List.length_append]; omega)]
      have e2 : (H ++ D ++ rest).take (i + D.length) = a ++ D := by
        rw [hab, ← hal, ← List.length_append]
        exact List.take_left' rfl
      rw [← e1, e2]
      exact (isInfix_iff D _).mpr ⟨a, [], by simp⟩
    rw [this] at hno
    exact absurd hno (by simp)
  · congr 1; omega

theorem decodeOne10_frame (xml rest : Bytes)
    (h : delimFirstAtEnd Gen.Netconf.v1Dot0Delim (LF :: xml) = true) :
    decodeOne10 (LF :: (xml ++ Gen.Netconf.v1Dot0Delim ++ rest)) = some (xml.dropWhile (· == LF), rest) := by
  have := indexOf_first Gen.Netconf.v1Dot0Delim (LF :: xml) rest h
  simp only [List.cons_append, List.length_cons] at this
  unfold decodeOne10
  simp only [List.append_assoc] at this ⊢
  rw [this]
  have e : LF :: (xml ++ (Gen.Netconf.v1Dot0Delim ++ rest))
      = (LF :: xml ++ Gen.Netconf.v1Dot0Delim) ++ rest := by simp
  have hlen : (LF :: xml ++ Gen.Netconf.v1Dot0Delim).length
      = xml.length + 1 + Gen.Netconf.v1Dot0Delim.length := by
    rw [List.length_append, List.length_cons]
  have e2 : LF :: (xml ++ (Gen.Netconf.v1Dot0Delim ++ rest))
      = (LF :: xml) ++ (Gen.Netconf.v1Dot0Delim ++ rest) := by simp
  have hlen2 : (LF :: xml).length = xml.length + 1 := by simp
  simp only
  rw [show List.drop (xml.length + 1 + Gen.Netconf.v1Dot0Delim.length)
        (LF :: (xml ++ (Gen.Netconf.v1Dot0Delim ++ rest))) = rest from by
      rw [e, ← hlen]; exact List.drop_left' rfl]
  rw [show List.take (xml.length + 1) (LF :: (xml ++ (Gen.Netconf.v1Dot0Delim ++ rest))) = LF :: xml from by
      rw [e2, ← hlen2]; exact List.take_left' rfl]
  simp [List.dropWhile]

end Scrapli.Netconf.Hello
