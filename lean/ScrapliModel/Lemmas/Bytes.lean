import ScrapliModel.Bytes
/-! Helper lemmas about the byte-string functions (decimal round trip, trimming). -/
namespace Scrapli

theorem parseDecAux_append (acc : Nat) (a b : Bytes) :
    parseDecAux acc (a ++ b) = (parseDecAux acc a).bind (fun x => parseDecAux x b) := by
  induction a generalizing acc with
  | nil => simp [parseDecAux]
  | cons h t ih =>
    simp only [List.cons_append, parseDecAux]
    split
    · exact ih _
    · simp

theorem digit_lemma (d : Nat) (h : d < 10) :
    isDigit (digitByte d) = true ∧ digitVal (digitByte d) = d := by
  have : d = 0 ∨ d = 1 ∨ d = 2 ∨ d = 3 ∨ d = 4 ∨ d = 5 ∨ d = 6 ∨ d = 7 ∨ d = 8 ∨ d = 9 := by omega
  rcases this with h|h|h|h|h|h|h|h|h|h <;> subst h <;> decide

theorem parseDecAux_decDigits (acc n : Nat) :
    parseDecAux acc (decDigits n) = some (acc * 10 ^ (decDigits n).length + n) := by
  induction n using Nat.strongRecOn generalizing acc with
  | _ n ih =>
    unfold decDigits
    split
    · rename_i h
      have := digit_lemma n h
      simp [parseDecAux, this.1, this.2]
    · rename_i h
      have hd := digit_lemma (n % 10) (Nat.mod_lt _ (by omega))
      rw [parseDecAux_append, ih (n / 10) (by omega)]
      simp [parseDecAux, hd.1, hd.2, Nat.pow_succ]
      have := Nat.div_add_mod n 10
      rw [Nat.add_mul, Nat.mul_assoc]
      omega

theorem decDigits_ne_nil (n : Nat) : decDigits n ≠ [] := by
  unfold decDigits; split <;> simp

theorem parseDec_decDigits (n : Nat) : parseDec (decDigits n) = some n := by
  have h := parseDecAux_decDigits 0 n
  unfold parseDec
  split
  · rename_i heq; exact absurd heq (decDigits_ne_nil n)
  · simpa using h

theorem decDigits_all_digits (n : Nat) : ∀ b ∈ decDigits n, isDigit b = true := by
  induction n using Nat.strongRecOn with
  | _ n ih =>
    unfold decDigits
    split
    · rename_i h; intro b hb; simp at hb; subst hb; exact (digit_lemma n h).1
    · rename_i h; intro b hb
      simp only [List.mem_append, List.mem_singleton] at hb
      rcases hb with hb | hb
      · exact ih (n/10) (by omega) b hb
      · subst hb; exact (digit_lemma (n % 10) (Nat.mod_lt _ (by omega))).1

theorem decDigits_length_le_gen (k n : Nat) (hk : 0 < k) (h : n < 10 ^ k) :
    (decDigits n).length ≤ k := by
  induction k generalizing n with
  | zero => omega
  | succ k ih =>
    unfold decDigits
    split
    · simp
    · rename_i hn
      have hk0 : 0 < k := by
        cases k with
        | zero => simp at h; omega
        | succ k => omega
      have : n / 10 < 10 ^ k := by
        rw [Nat.pow_succ] at h
        exact Nat.div_lt_of_lt_mul (by rw [Nat.mul_comm]; exact h)
      have := ih (n / 10) hk0 this
      simp; omega

theorem isDigit_bounds (b : UInt8) (h : isDigit b = true) : 48 ≤ b.toNat ∧ b.toNat ≤ 57 := by
  unfold isDigit at h
  simp only [Bool.and_eq_true, decide_eq_true_eq] at h
  exact ⟨UInt8.le_iff_toNat_le.mp h.1, UInt8.le_iff_toNat_le.mp h.2⟩

theorem isDigit_ne (b c : UInt8) (h : isDigit b = true) (hc : c.toNat < 48 ∨ 57 < c.toNat) :
    (b == c) = false := by
  have := isDigit_bounds b h
  simp only [beq_eq_false_iff_ne, ne_eq]
  intro e; subst e; omega

/-! ## trimming -/
theorem dropWhile_dropWhile (p : UInt8 → Bool) (l : Bytes) :
    (l.dropWhile p).dropWhile p = l.dropWhile p := by
  induction l with
  | nil => rfl
  | cons a t ih =>
    simp only [List.dropWhile]
    split
    · exact ih
    · rename_i h; simp [List.dropWhile, h]

theorem dropWhile_all_append {p : UInt8 → Bool} (ws : Bytes) (x : UInt8) (r : Bytes)
    (hws : ∀ b ∈ ws, p b = true) (hx : p x = false) :
    (ws ++ x :: r).dropWhile p = x :: r := by
  induction ws with
  | nil => simp [List.dropWhile, hx]
  | cons w t ih =>
    have hw := hws w (by simp)
    simp only [List.cons_append, List.dropWhile, hw]
    exact ih (fun b hb => hws b (by simp [hb]))

theorem trimLeft_all_append {p : UInt8 → Bool} (ws : Bytes) (x : UInt8) (r : Bytes)
    (hws : ∀ b ∈ ws, p b = true) (hx : p x = false) :
    trimLeft p (ws ++ x :: r) = x :: r := dropWhile_all_append ws x r hws hx

theorem trimRight_append_all {p : UInt8 → Bool} (l : Bytes) (x : UInt8) (ws : Bytes)
    (hws : ∀ b ∈ ws, p b = true) (hx : p x = false) :
    trimRight p (l ++ x :: ws) = l ++ [x] := by
  unfold trimRight
  have : (l ++ x :: ws).reverse = ws.reverse ++ x :: l.reverse := by simp
  rw [this, dropWhile_all_append ws.reverse x l.reverse (fun b hb => hws b (by simpa using hb)) hx]
  simp

/-- trimming a string whose first and last bytes are not space, padded with space on both sides -/
theorem trimSpace_padded (ws1 ws2 m : Bytes) (a z : UInt8)
    (h1 : ∀ b ∈ ws1, isSpaceB b = true) (h2 : ∀ b ∈ ws2, isSpaceB b = true)
    (ha : isSpaceB a = false) (hz : isSpaceB z = false) :
    trimSpace (ws1 ++ (a :: (m ++ [z])) ++ ws2) = a :: (m ++ [z]) := by
  unfold trimSpace
  have e1 : ws1 ++ (a :: (m ++ [z])) ++ ws2 = ws1 ++ a :: (m ++ [z] ++ ws2) := by simp
  rw [e1, trimLeft_all_append ws1 a _ h1 ha]
  have e2 : a :: (m ++ [z] ++ ws2) = (a :: m) ++ z :: ws2 := by simp
  rw [e2, trimRight_append_all (a :: m) z ws2 h2 hz]
  simp

theorem dropWhile_sublist (p : UInt8 → Bool) (l : Bytes) : (l.dropWhile p).Sublist l :=
  List.dropWhile_sublist p

theorem trimRight_sublist (p : UInt8 → Bool) (l : Bytes) : (trimRight p l).Sublist l := by
  unfold trimRight
  have := List.dropWhile_sublist p (l := l.reverse)
  have := this.reverse
  simpa using this

theorem trimSpace_sublist (l : Bytes) : (trimSpace l).Sublist l := by
  unfold trimSpace trimLeft
  exact (trimRight_sublist _ _).trans (List.dropWhile_sublist _)

theorem trimPrefix_sublist (s p : Bytes) : (trimPrefix s p).Sublist s := by
  unfold trimPrefix; split
  · exact List.drop_sublist _ _
  · exact List.Sublist.refl _

theorem trimSuffix_sublist (s p : Bytes) : (trimSuffix s p).Sublist s := by
  unfold trimSuffix; split
  · exact List.take_sublist _ _
  · exact List.Sublist.refl _

theorem hasPrefix_append (p r : Bytes) : hasPrefix (p ++ r) p = true := by
  induction p with
  | nil => cases r <;> simp [hasPrefix]
  | cons a t ih => simp [hasPrefix, ih]

theorem trimSuffix_append (s p : Bytes) : trimSuffix (s ++ p) p = s := by
  unfold trimSuffix
  have : (s ++ p).reverse = p.reverse ++ s.reverse := by simp
  rw [this, hasPrefix_append]
  simp

end Scrapli
