import ScrapliModel.Failed
/-! Helper lemmas for the failure-marking model (C13). Core Lean only. -/
namespace Scrapli.Failed
open Scrapli

/-! ## substring search -/

theorem hasPrefix_iff (s p : Bytes) : hasPrefix s p = true ↔ p <+: s := by
  induction p generalizing s with
  | nil => cases s <;> simp [hasPrefix]
  | cons b p ih =>
    cases s with
    | nil => simp [hasPrefix]
    | cons a s =>
      simp only [hasPrefix, Bool.and_eq_true, beq_iff_eq, ih, List.cons_prefix_cons]
      constructor
      · rintro ⟨h1, h2⟩; exact ⟨h1.symm, h2⟩
      · rintro ⟨h1, h2⟩; exact ⟨h1.symm, h2⟩

/-- the executable substring test is `bytes.Contains`: `∃ pre post, s = pre ++ needle ++ post` -/
theorem isInfix_iff (needle s : Bytes) : isInfix needle s = true ↔ needle <:+: s := by
  induction s with
  | nil =>
    cases needle <;> simp [isInfix]
  | cons a t ih =>
    simp only [isInfix, Bool.or_eq_true, hasPrefix_iff, ih, List.infix_cons_iff]

theorem isInfix_nil (s : Bytes) : isInfix [] s = true := by
  rw [isInfix_iff]; exact List.nil_infix

theorem hasPrefix_nil_left (p : Bytes) (h : p ≠ []) : hasPrefix [] p = false := by
  cases p with
  | nil => exact absurd rfl h
  | cons _ _ => rfl

/-- a needle without LF cannot start before a joint and end after it -/
theorem hasPrefix_append_LF (a b s : Bytes) (h : LF ∉ s) :
    hasPrefix (a ++ LF :: b) s = hasPrefix a s := by
  induction a generalizing s with
  | nil =>
    cases s with
    | nil => simp [hasPrefix]
    | cons c s' =>
      have : (LF == c) = false := by
        simp only [beq_eq_false_iff_ne, ne_eq]
        intro e; exact h (by simp [e])
      simp [hasPrefix, this]
  | cons x a ih =>
    cases s with
    | nil => simp [hasPrefix]
    | cons c s' =>
      have h' : LF ∉ s' := fun hm => h (List.mem_cons_of_mem _ hm)
      simp only [List.cons_append, hasPrefix, ih s' h']

theorem isInfix_append_LF (a b s : Bytes) (hne : s ≠ []) (h : LF ∉ s) :
    isInfix s (a ++ LF :: b) = (isInfix s a || isInfix s b) := by
  induction a with
  | nil =>
    have e := hasPrefix_append_LF [] b s h
    simp only [List.nil_append] at e
    have hs : s.isEmpty = false := by cases s <;> simp_all
    simp [isInfix, e, hasPrefix_nil_left s hne, hs]
  | cons x a ih =>
    have e := hasPrefix_append_LF (x :: a) b s h
    simp only [List.cons_append] at e
    simp only [List.cons_append, isInfix, e, ih, Bool.or_assoc]

theorem isInfix_joinLF (outs : List Bytes) (s : Bytes) (hne : s ≠ []) (h : LF ∉ s) :
    isInfix s (joinLF outs) = outs.any (fun o => isInfix s o) := by
  induction outs with
  | nil =>
    have hs : s.isEmpty = false := by cases s <;> simp_all
    simp [joinLF, isInfix, hs]
  | cons o rest ih =>
    cases rest with
    | nil => simp [joinLF]
    | cons o2 rest' =>
      simp only [joinLF] at ih ⊢
      rw [isInfix_append_LF o _ s hne h, ih]
      simp [List.any_cons]

/-! ## `StringContainsAnySubStrs` -/

theorem firstSubStr_mem_or_nil (s : Bytes) (l : List Bytes) :
    firstSubStr s l = [] ∨ (firstSubStr s l ∈ l ∧ isInfix (firstSubStr s l) s = true) := by
  induction l with
  | nil => left; rfl
  | cons ss l ih =>
    simp only [firstSubStr]
    split
    · rename_i hc; right; exact ⟨List.mem_cons_self, hc⟩
    · rcases ih with h | h
      · left; exact h
      · right; exact ⟨List.mem_cons_of_mem _ h.1, h.2⟩

/-- in the domain (no empty failure string) the code's test is the specification's -/
theorem marks_eq_failedBy (strs : List Bytes) (out : Bytes) (h : NoEmpty strs) :
    marks strs out = failedBy strs out := by
  induction strs with
  | nil => simp [marks, failedBy, firstSubStr]
  | cons ss l ih =>
    have hl : NoEmpty l := fun s hs => h s (List.mem_cons_of_mem _ hs)
    have hss : ss ≠ [] := h ss List.mem_cons_self
    have ih' := ih hl
    simp only [marks, failedBy, firstSubStr, List.any_cons] at ih' ⊢
    split
    · rename_i hc
      have : ss.isEmpty = false := by cases ss <;> simp_all
      simp [hc, this]
    · rename_i hc
      simp only [Bool.not_eq_true] at hc
      simp [hc, ih']

/-- outside the domain the code can only *miss* failures, never invent them -/
theorem marks_imp_failedBy (strs : List Bytes) (out : Bytes) (h : marks strs out = true) :
    failedBy strs out = true := by
  unfold marks at h
  rcases firstSubStr_mem_or_nil out strs with e | ⟨hm, hi⟩
  · simp [e] at h
  · simp only [failedBy, List.any_eq_true]
    exact ⟨_, hm, hi⟩

theorem failedBy_iff (strs : List Bytes) (out : Bytes) :
    failedBy strs out = true ↔ ∃ s ∈ strs, s <:+: out := by
  simp only [failedBy, List.any_eq_true, isInfix_iff]

/-- an empty failure string hides every entry behind it -/
theorem firstSubStr_masked (out : Bytes) (pre post : List Bytes)
    (hpre : ∀ s ∈ pre, isInfix s out = false) :
    firstSubStr out (pre ++ [] :: post) = [] := by
  induction pre with
  | nil => simp [firstSubStr, isInfix_nil]
  | cons p pre ih =>
    have hp := hpre p List.mem_cons_self
    simp only [List.cons_append, firstSubStr, hp, Bool.false_eq_true, if_false]
    exact ih (fun s hs => hpre s (List.mem_cons_of_mem _ hs))

/-! ## responses -/

/-- the response `sendCommand` builds for command `c` answered by `b` under failure strings `eff` -/
def mkResp (eff : List Bytes) (c b : Bytes) : Resp := (newResponse c eff).record b

theorem mkResp_input (eff c b) : (mkResp eff c b).input = c := by
  unfold mkResp Resp.record newResponse; dsimp only; split <;> rfl
theorem mkResp_result (eff c b) : (mkResp eff c b).result = b := by
  unfold mkResp Resp.record newResponse; dsimp only; split <;> rfl
theorem mkResp_fwc (eff c b) : (mkResp eff c b).fwc = eff := by
  unfold mkResp Resp.record newResponse; dsimp only; split <;> rfl
theorem mkResp_failed (eff c b) :
    (mkResp eff c b).failed =
      if marks eff b then some (.op { input := c, output := b, errStr := firstSubStr b eff }) else none := by
  unfold mkResp Resp.record newResponse marks; dsimp only
  cases h : (firstSubStr b eff).isEmpty <;> simp
theorem mkResp_failed_isSome (eff c b) : (mkResp eff c b).failed.isSome = marks eff b := by
  rw [mkResp_failed]; cases marks eff b <;> simp

/-- the `*OperationError` a member carries, if any -/
def opOf (r : Resp) : Option OpErr :=
  match r.failed with
  | some (.op e) => some e
  | _ => none

def opErrs (rs : List Resp) : List OpErr := rs.filterMap opOf

/-- the aggregate `MultiResponse.Failed` must hold for members `rs` -/
def aggregate (rs : List Resp) : Option Failure :=
  if (opErrs rs).isEmpty then none else some (.multi (opErrs rs))

theorem append_aggregate (rs : List Resp) (r : Resp) :
    (Multi.mk rs (aggregate rs)).append r = Multi.mk (rs ++ [r]) (aggregate (rs ++ [r])) := by
  unfold Multi.append aggregate opErrs
  rw [List.filterMap_append]
  cases hf : r.failed with
  | none => simp [opOf, hf]
  | some f =>
    cases f with
    | multi es => simp [opOf, hf]
    | op e =>
      simp only [List.filterMap_cons, List.filterMap_nil, opOf, hf]
      cases hE : (List.filterMap opOf rs).isEmpty
      · simp
      · have : List.filterMap opOf rs = [] := by simpa using hE
        simp [this]

theorem foldl_append_aggregate (rs0 rs : List Resp) :
    rs.foldl Multi.append (Multi.mk rs0 (aggregate rs0)) = Multi.mk (rs0 ++ rs) (aggregate (rs0 ++ rs)) := by
  induction rs generalizing rs0 with
  | nil => simp
  | cons r rs ih =>
    simp only [List.foldl_cons, append_aggregate, ih]
    simp

theorem foldl_append_empty (rs : List Resp) :
    rs.foldl Multi.append Multi.empty = Multi.mk rs (aggregate rs) := by
  have := foldl_append_aggregate [] rs
  simpa [aggregate, opErrs, Multi.empty] using this

/-- members as `Record` produces them: not failed, or failed with an `*OperationError` -/
def Recorded (r : Resp) : Prop := ∀ es, r.failed ≠ some (.multi es)

theorem opErrs_map (rs : List Resp) (hrec : ∀ r ∈ rs, Recorded r) :
    (opErrs rs).map (fun e => some (Failure.op e)) = (rs.filter (·.failed.isSome)).map (·.failed) := by
  induction rs with
  | nil => simp [opErrs]
  | cons r rs ih =>
    have ih' := ih (fun x hx => hrec x (List.mem_cons_of_mem _ hx))
    have hr := hrec r List.mem_cons_self
    simp only [opErrs, List.filterMap_cons, List.filter_cons] at ih' ⊢
    cases hf : r.failed with
    | none => simp [opOf, hf, ih']
    | some f =>
      cases f with
      | multi es => exact absurd hf (hr es)
      | op e => simp [opOf, hf, ih']

/-! ## the send loop -/

theorem effective_idem (op drv : List Bytes) : effective (effective op drv) drv = effective op drv := by
  unfold effective
  split
  · split <;> rfl
  · simp

theorem sendCommand_eq {σ : Type} (dev : Dev σ) (drv : List Bytes) (op : Op) (s : Sess σ) (c : Bytes) :
    sendCommand dev drv op s c =
      (mkResp (effective op.fwc drv) c (dev s.dev c).2,
       { fwc := effective op.fwc drv, stop := op.stop },
       { dev := (dev s.dev c).1, log := s.log ++ [c] }) := by
  unfold sendCommand effective mkResp
  split <;> rfl

/-- the device state after a list of commands -/
def run {σ : Type} (dev : Dev σ) : σ → List Bytes → σ
  | d, [] => d
  | d, c :: cs => run dev (dev d c).1 cs

/-- the same loop without the special-cased last element -/
def sendUniform {σ : Type} (dev : Dev σ) (drv : List Bytes) :
    List Bytes → Op → Multi → Sess σ → Multi × Sess σ
  | [], _, m, s => (m, s)
  | c :: cs, op, m, s =>
    let (r, op', s') := sendCommand dev drv op s c
    let m' := m.append r
    if op'.stop && r.failed.isSome then (m', s') else sendUniform dev drv cs op' m' s'

/-- what `SendCommands` does with the loop's outcome: return early, or send the last element -/
def afterLoop {σ : Type} (dev : Dev σ) (drv : List Bytes) (last : Bytes)
    (x : Multi × Op × Sess σ × Bool) : Multi × Sess σ :=
  if x.2.2.2 then (x.1, x.2.2.1)
  else (x.1.append (sendCommand dev drv x.2.1 x.2.2.1 last).1, (sendCommand dev drv x.2.1 x.2.2.1 last).2.2)

theorem sendCommands_eq {σ : Type} (dev : Dev σ) (drv : List Bytes) (op : Op) (s : Sess σ)
    (cmds : List Bytes) :
    sendCommands dev drv op s cmds =
      match cmds.getLast? with
      | none => (none, s)
      | some last =>
        (some (afterLoop dev drv last (sendLoop dev drv cmds.dropLast op Multi.empty s)).1,
         (afterLoop dev drv last (sendLoop dev drv cmds.dropLast op Multi.empty s)).2) := by
  unfold sendCommands afterLoop
  cases cmds.getLast? with
  | none => rfl
  | some last =>
    dsimp only
    split <;> rfl

/-- special-casing the last element changes nothing -/
theorem sendLoop_then_last {σ : Type} (dev : Dev σ) (drv : List Bytes) (init : List Bytes) (last : Bytes)
    (op : Op) (m : Multi) (s : Sess σ) :
    afterLoop dev drv last (sendLoop dev drv init op m s) = sendUniform dev drv (init ++ [last]) op m s := by
  induction init generalizing op m s with
  | nil =>
    simp only [sendLoop, afterLoop, List.nil_append, sendUniform, sendCommand_eq, Bool.false_eq_true,
      if_false]
    split <;> rfl
  | cons c cs ih =>
    simp only [sendLoop, List.cons_append, sendUniform, sendCommand_eq]
    split
    · simp [afterLoop]
    · exact ih _ _ _

theorem firstTrue_le (l : List Bool) : firstTrue l ≤ l.length := by
  induction l with
  | nil => simp [firstTrue]
  | cons b t ih => cases b <;> simp [firstTrue] <;> omega

theorem sendUniform_spec {σ : Type} (dev : Dev σ) (drv : List Bytes) (cs : List Bytes)
    (op : Op) (m : Multi) (s : Sess σ) :
    sendUniform dev drv cs op m s =
      ((List.zipWith (mkResp (effective op.fwc drv))
          (cs.take (sentCount op.stop ((answers dev s.dev cs).map (marks (effective op.fwc drv)))))
          ((answers dev s.dev cs).take (sentCount op.stop ((answers dev s.dev cs).map (marks (effective op.fwc drv)))))).foldl
          Multi.append m,
       { dev := run dev s.dev (cs.take (sentCount op.stop ((answers dev s.dev cs).map (marks (effective op.fwc drv))))),
         log := s.log ++ cs.take (sentCount op.stop ((answers dev s.dev cs).map (marks (effective op.fwc drv)))) }) := by
  induction cs generalizing op m s with
  | nil => simp [sendUniform, answers, sentCount, run]
  | cons c cs ih =>
    simp only [sendUniform, sendCommand_eq, mkResp_failed_isSome, answers, List.map_cons]
    cases hstop : op.stop
    · -- stop-on-failed off: everything is sent
      simp only [Bool.false_and, Bool.false_eq_true, if_false]
      rw [ih]
      simp [sentCount, effective_idem, run, List.append_assoc]
    · cases hm : marks (effective op.fwc drv) (dev s.dev c).2
      · simp only [Bool.and_false, Bool.false_eq_true, if_false]
        rw [ih]
        have hle := firstTrue_le ((answers dev (dev s.dev c).1 cs).map (marks (effective op.fwc drv)))
        have e : sentCount true (false :: (answers dev (dev s.dev c).1 cs).map (marks (effective op.fwc drv)))
            = sentCount true ((answers dev (dev s.dev c).1 cs).map (marks (effective op.fwc drv))) + 1 := by
          simp only [sentCount, if_true, firstTrue, Bool.false_eq_true, if_false, List.length_cons]
          omega
        simp only [effective_idem, e, List.take_succ_cons, List.zipWith, List.foldl_cons, run,
          List.append_assoc, List.singleton_append]
      · have e : sentCount true (true :: (answers dev (dev s.dev c).1 cs).map (marks (effective op.fwc drv))) = 1 := by
          simp only [sentCount, if_true, firstTrue, List.length_cons]
          omega
        simp [e, run, List.zipWith]

theorem answers_length {σ : Type} (dev : Dev σ) (d : σ) (cs : List Bytes) :
    (answers dev d cs).length = cs.length := by
  induction cs generalizing d with
  | nil => rfl
  | cons c cs ih => simp [answers, ih]

theorem sentCount_le (stop : Bool) (flags : List Bool) : sentCount stop flags ≤ flags.length := by
  unfold sentCount; split <;> omega

theorem sentCount_pos (stop : Bool) (flags : List Bool) (h : flags ≠ []) : 0 < sentCount stop flags := by
  have : 0 < flags.length := List.length_pos_iff.mpr h
  unfold sentCount; split <;> omega

/-- `firstTrue` really is the first: nothing before it is set, and it is set when in range -/
theorem firstTrue_spec (l : List Bool) :
    (∀ i, i < firstTrue l → l[i]? = some false) ∧
    (firstTrue l < l.length → l[firstTrue l]? = some true) := by
  induction l with
  | nil => simp [firstTrue]
  | cons b t ih =>
    cases b
    · simp only [firstTrue, Bool.false_eq_true, if_false]
      constructor
      · intro i hi
        cases i with
        | zero => rfl
        | succ j => simpa using ih.1 j (by omega)
      · intro h
        simpa using ih.2 (by simpa using h)
    · simp [firstTrue]

/-- closed form of `SendCommands`: the first `sentCount` commands are transmitted, in order, and
exactly their responses are returned, aggregated -/
theorem sendCommands_char {σ : Type} (dev : Dev σ) (drv : List Bytes) (op : Op) (s : Sess σ)
    (cmds : List Bytes) (hne : cmds ≠ []) :
    sendCommands dev drv op s cmds =
      (some (Multi.mk
          (List.zipWith (mkResp (effective op.fwc drv))
            (cmds.take (sentCount op.stop ((answers dev s.dev cmds).map (marks (effective op.fwc drv)))))
            ((answers dev s.dev cmds).take (sentCount op.stop ((answers dev s.dev cmds).map (marks (effective op.fwc drv))))))
          (aggregate (List.zipWith (mkResp (effective op.fwc drv))
            (cmds.take (sentCount op.stop ((answers dev s.dev cmds).map (marks (effective op.fwc drv)))))
            ((answers dev s.dev cmds).take (sentCount op.stop ((answers dev s.dev cmds).map (marks (effective op.fwc drv)))))))),
       { dev := run dev s.dev (cmds.take (sentCount op.stop ((answers dev s.dev cmds).map (marks (effective op.fwc drv))))),
         log := s.log ++ cmds.take (sentCount op.stop ((answers dev s.dev cmds).map (marks (effective op.fwc drv)))) }) := by
  rw [sendCommands_eq]
  have hl : cmds.getLast? = some (cmds.getLast hne) := List.getLast?_eq_some_getLast hne
  have hd : cmds.dropLast ++ [cmds.getLast hne] = cmds := List.dropLast_concat_getLast hne
  rw [hl]
  simp only [sendLoop_then_last, hd, sendUniform_spec, Multi.empty]
  have := foldl_append_empty (List.zipWith (mkResp (effective op.fwc drv))
            (cmds.take (sentCount op.stop ((answers dev s.dev cmds).map (marks (effective op.fwc drv)))))
            ((answers dev s.dev cmds).take (sentCount op.stop ((answers dev s.dev cmds).map (marks (effective op.fwc drv))))))
  simp only [Multi.empty] at this
  rw [this]

theorem sendCommands_nil {σ : Type} (dev : Dev σ) (drv : List Bytes) (op : Op) (s : Sess σ) :
    sendCommands dev drv op s [] = (none, s) := rfl

theorem splitLF_ne_nil (b : Bytes) : splitLF b ≠ [] := by
  induction b with
  | nil => simp [splitLF]
  | cons x t ih =>
    simp only [splitLF]
    split
    · simp
    · split <;> simp

/-! ## the option loop -/

/-- what one option does to the record when nothing goes wrong -/
def updOp (o : Op) : OpOpt → Op
  | .fwc l => { o with fwc := l }
  | .stop => { o with stop := true }
  | _ => o

/-- under the good loop shape and without erroring options, the loop is a fold: every option is
visited, ignored ones leave the record alone -/
theorem run_good_eq_foldl (opts : List OpOpt) (o : Op) (h : OpOpt.bad ∉ opts) :
    OptLoop.run OptLoop.good applyOpOpt opts o = some (opts.foldl updOp o) := by
  induction opts generalizing o with
  | nil => rfl
  | cons x xs ih =>
    have hx : x ≠ .bad := fun e => h (by simp [e])
    have hxs : OpOpt.bad ∉ xs := fun hm => h (List.mem_cons_of_mem _ hm)
    cases x with
    | fwc l => simpa [OptLoop.run, applyOpOpt, OptLoop.good, updOp] using ih _ hxs
    | stop => simpa [OptLoop.run, applyOpOpt, OptLoop.good, updOp] using ih _ hxs
    | foreign => simpa [OptLoop.run, applyOpOpt, OptLoop.good, updOp] using ih _ hxs
    | bad => exact absurd rfl hx

theorem foldl_updOp (opts : List OpOpt) (o : Op) :
    (opts.foldl updOp o).fwc = (lastFwc opts).getD o.fwc ∧
    (opts.foldl updOp o).stop = (o.stop || hasStop opts) := by
  induction opts generalizing o with
  | nil => simp [lastFwc, hasStop]
  | cons x xs ih =>
    have := ih (updOp o x)
    cases x with
    | fwc l =>
      simp only [List.foldl_cons, lastFwc, hasStop, updOp] at this ⊢
      refine ⟨?_, this.2⟩
      rw [this.1]
      cases lastFwc xs <;> rfl
    | stop =>
      simp only [List.foldl_cons, lastFwc, hasStop, updOp] at this ⊢
      refine ⟨this.1, ?_⟩
      rw [this.2]; simp
    | foreign => simpa [lastFwc, hasStop, updOp] using this
    | bad => simpa [lastFwc, hasStop, updOp] using this

theorem lastFwc_filter_foreign (opts : List OpOpt) :
    lastFwc (opts.filter (· != .foreign)) = lastFwc opts := by
  induction opts with
  | nil => rfl
  | cons x xs ih =>
    cases x <;> simp [lastFwc, ih]

theorem hasStop_filter_foreign (opts : List OpOpt) :
    hasStop (opts.filter (· != .foreign)) = hasStop opts := by
  induction opts with
  | nil => rfl
  | cons x xs ih =>
    cases x <;> simp [hasStop, ih]

end Scrapli.Failed
