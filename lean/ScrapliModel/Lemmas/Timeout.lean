import ScrapliModel.Timeout
import ScrapliModel.Lemmas.Channel
namespace Scrapli.Timeout
open Scrapli Scrapli.Chan

/-! ## schedules -/

theorem bytesOf_append (a b : Sched) : bytesOf (a ++ b) = bytesOf a ++ bytesOf b := by
  induction a with
  | nil => rfl
  | cons e a ih => cases e <;> simp [bytesOf, ih]

theorem bytesOf_somes (cs : List Bytes) : bytesOf (cs.map some) = cs.flatten := by
  induction cs with
  | nil => rfl
  | cons c cs ih => simp [bytesOf, ih]

/-! ## the silent device -/

theorem idle_spec (d deadline : Nat) (hd : 0 < d) :
    ∀ f now, deadline ≤ now + f * d →
      deadline ≤ idle d deadline f now ∧ now ≤ idle d deadline f now ∧
      (now ≤ deadline → idle d deadline f now < deadline + d) ∧
      (deadline ≤ now → idle d deadline f now = now) := by
  intro f
  induction f with
  | zero =>
    intro now h
    have e : idle d deadline 0 now = now := rfl
    rw [e]
    refine ⟨by omega, by omega, by omega, fun _ => rfl⟩
  | succ f ih =>
    intro now h
    by_cases hn : deadline ≤ now
    · have e : idle d deadline (f + 1) now = now := by simp only [idle]; rw [if_pos hn]
      rw [e]
      refine ⟨hn, by omega, by omega, fun _ => rfl⟩
    · have e : idle d deadline (f + 1) now = idle d deadline f (now + d) := by
        simp only [idle]; rw [if_neg hn]
      rw [e]
      have h' : deadline ≤ now + d + f * d := by
        rw [Nat.succ_mul] at h; omega
      obtain ⟨a, b, c, e'⟩ := ih (now + d) h'
      refine ⟨a, by omega, ?_, fun hh => absurd hh hn⟩
      intro _
      by_cases hc : now + d ≤ deadline
      · exact c hc
      · have := e' (by omega); omega

theorem idleUntil_spec (d deadline now : Nat) (hd : 0 < d) :
    deadline ≤ idleUntil d deadline now ∧ now ≤ idleUntil d deadline now ∧
    (now ≤ deadline → idleUntil d deadline now < deadline + d) ∧
    (deadline ≤ now → idleUntil d deadline now = now) := by
  unfold idleUntil
  apply idle_spec d deadline hd
  by_cases h : deadline ≤ now
  · omega
  · have h1 : 1 ≤ d := hd
    have : (deadline - now) * 1 ≤ (deadline - now) * d := Nat.mul_le_mul_left _ h1
    omega

/-! ## one read loop -/

/-- when the loop returns: success strictly before the deadline, a deadline return inside
    `[deadline, deadline + d)` (or at once, if the loop was entered after its deadline) -/
theorem readUntilT_time (P : Bytes → Bool) (d D : Nat) (hd : 0 < d) :
    ∀ (s : Sched) (now : Nat) (rb : Bytes),
      now ≤ (readUntilT P d D s now rb).t ∧
      ((readUntilT P d D s now rb).ok = true → (readUntilT P d D s now rb).t < D) ∧
      ((readUntilT P d D s now rb).ok = false →
        D ≤ (readUntilT P d D s now rb).t ∧
        ((readUntilT P d D s now rb).t < D + d ∨ (readUntilT P d D s now rb).t = now)) := by
  intro s
  induction s with
  | nil =>
    intro now rb
    obtain ⟨a, b, c, e⟩ := idleUntil_spec d D now hd
    simp only [readUntilT]
    refine ⟨b, by simp, fun _ => ⟨a, ?_⟩⟩
    by_cases h : now ≤ D
    · exact Or.inl (c h)
    · exact Or.inr (e (by omega))
  | cons ev s ih =>
    intro now rb
    by_cases hn : D ≤ now
    · have e : readUntilT P d D (ev :: s) now rb = ⟨false, rb, now, ev :: s⟩ := by
        simp only [readUntilT]; rw [if_pos hn]
      rw [e]
      exact ⟨Nat.le_refl _, by simp, fun _ => ⟨hn, Or.inr rfl⟩⟩
    · cases ev with
      | none =>
        have e : readUntilT P d D (none :: s) now rb = readUntilT P d D s (now + d) rb := by
          simp only [readUntilT]; rw [if_neg hn]
        rw [e]
        obtain ⟨a, b, c⟩ := ih (now + d) rb
        refine ⟨by omega, b, fun h => ?_⟩
        obtain ⟨c1, c2⟩ := c h
        exact ⟨c1, by omega⟩
      | some c =>
        by_cases hp : P (rb ++ c) = true
        · have e : readUntilT P d D (some c :: s) now rb = ⟨true, rb ++ c, now, s⟩ := by
            simp only [readUntilT]; rw [if_neg hn]; simp only [hp, if_true]
          rw [e]
          exact ⟨Nat.le_refl _, fun _ => by show now < D; omega, by simp⟩
        · have e : readUntilT P d D (some c :: s) now rb = readUntilT P d D s now (rb ++ c) := by
            simp only [readUntilT]; rw [if_neg hn]; simp only [hp]; rfl
          rw [e]
          exact ih now (rb ++ c)

/-- conservation: what the loop consumed plus what it left is what there was -/
theorem readUntilT_conserve (P : Bytes → Bool) (d D : Nat) :
    ∀ (s : Sched) (now : Nat) (rb : Bytes),
      ∃ c, (readUntilT P d D s now rb).rb = rb ++ c ∧
        bytesOf s = c ++ bytesOf (readUntilT P d D s now rb).rest := by
  intro s
  induction s with
  | nil => intro now rb; exact ⟨[], by simp [readUntilT, bytesOf]⟩
  | cons ev s ih =>
    intro now rb
    simp only [readUntilT]
    by_cases hn : D ≤ now
    · simp only [hn, if_true]; exact ⟨[], by simp⟩
    · simp only [hn, if_false]
      cases ev with
      | none => simpa [bytesOf] using ih (now + d) rb
      | some c =>
        simp only
        by_cases hp : P (rb ++ c) = true
        · simp only [hp, if_true]; exact ⟨c, rfl, by simp [bytesOf]⟩
        · simp only [hp]
          obtain ⟨c', h1, h2⟩ := ih now (rb ++ c)
          exact ⟨c ++ c', by simp [h1], by simp [bytesOf, h2]⟩

/-- success only through the completion predicate -/
theorem readUntilT_sound (P : Bytes → Bool) (d D : Nat) :
    ∀ (s : Sched) (now : Nat) (rb : Bytes),
      (readUntilT P d D s now rb).ok = true → P (readUntilT P d D s now rb).rb = true := by
  intro s
  induction s with
  | nil => intro now rb h; simp [readUntilT] at h
  | cons ev s ih =>
    intro now rb
    simp only [readUntilT]
    by_cases hn : D ≤ now
    · simp [hn]
    · simp only [hn, if_false]
      cases ev with
      | none => exact ih (now + d) rb
      | some c =>
        simp only
        by_cases hp : P (rb ++ c) = true
        · simp [hp]
        · simp only [hp]; exact ih now (rb ++ c)

/-- if no prefix of what will ever arrive satisfies the predicate the loop cannot succeed -/
theorem readUntilT_never (P : Bytes → Bool) (d D : Nat) :
    ∀ (s : Sched) (now : Nat) (rb : Bytes),
      (∀ j, P (rb ++ (bytesOf s).take j) = false) → (readUntilT P d D s now rb).ok = false := by
  intro s
  induction s with
  | nil => intro now rb _; simp [readUntilT]
  | cons ev s ih =>
    intro now rb h
    simp only [readUntilT]
    by_cases hn : D ≤ now
    · simp [hn]
    · simp only [hn, if_false]
      cases ev with
      | none => exact ih (now + d) rb (by simpa [bytesOf] using h)
      | some c =>
        simp only
        have hc : P (rb ++ c) = false := by
          have := h c.length
          simpa [bytesOf] using this
        simp only [hc]
        apply ih now (rb ++ c)
        intro j
        have := h (c.length + j)
        have e : (c ++ bytesOf s).take (c.length + j) = c ++ (bytesOf s).take j := by
          rw [List.take_append]
          have : List.take (c.length + j) c = c := List.take_of_length_le (by omega)
          rw [this]; simp
        simpa [bytesOf, e, List.append_assoc] using this

/-- chunking and timing insensitivity: when the predicate first holds exactly at the end of the
    stream `S`, any schedule carrying `S` makes a successful loop return exactly `S`, leaving
    nothing but empty chunks and ticks -/
theorem readUntilT_exact (P : Bytes → Bool) (d D : Nat) (s : Sched) (now : Nat)
    (hE : ExactAt P (bytesOf s))
    (hok : (readUntilT P d D s now []).ok = true) :
    (readUntilT P d D s now []).rb = bytesOf s ∧ bytesOf (readUntilT P d D s now []).rest = [] := by
  obtain ⟨c, h1, h2⟩ := readUntilT_conserve P d D s now []
  have hs := readUntilT_sound P d D s now [] hok
  simp only [List.nil_append] at h1
  rw [h1] at hs
  have hlen : ¬ c.length < (bytesOf s).length := by
    intro hl
    have := hE.2 c.length hl
    rw [h2, List.take_left' rfl] at this
    rw [hs] at this; exact absurd this (by simp)
  have hl2 := congrArg List.length h2
  simp only [List.length_append] at hl2
  have hr : (bytesOf (readUntilT P d D s now []).rest).length = 0 := by omega
  have hr' := List.eq_nil_of_length_eq_zero hr
  refine ⟨?_, hr'⟩
  rw [h1, h2, hr']; simp

/-- a stalled stream: a proper prefix of a stream at whose end the predicate first holds has no
    prefix satisfying it -/
theorem noPrefix_of_exactAt (P : Bytes → Bool) (S : Bytes) (hE : ExactAt P S) (k : Nat)
    (hk : k < S.length) : ∀ j, P ((S.take k).take j) = false := by
  intro j
  rw [List.take_take]
  exact hE.2 _ (by omega)

/-- a device that delivers promptly (no silence) is read exactly as the untimed channel model
    reads it -/
theorem readUntilT_somes (P : Bytes → Bool) (d D : Nat) :
    ∀ (cs : List Bytes) (now : Nat) (rb : Bytes), now < D →
      readUntilT P d D (cs.map some) now rb =
        match readUntil P cs rb with
        | some (rb', q) => ⟨true, rb', now, q.map some⟩
        | none => ⟨false, rb ++ cs.flatten, idleUntil d D now, []⟩ := by
  intro cs
  induction cs with
  | nil => intro now rb _; simp [readUntilT, readUntil]
  | cons c cs ih =>
    intro now rb h
    have hn : ¬ D ≤ now := by omega
    simp only [List.map_cons, readUntilT, readUntil, hn, if_false]
    by_cases hp : P (rb ++ c) = true
    · simp [hp]
    · simp only [hp]
      rw [ih now (rb ++ c) h]
      simp [List.append_assoc]

/-! ## whole operations -/

/-- the bytes the device will still emit in reaction to the phases to come -/
def future (rs : List Sched) : Bytes := (rs.map bytesOf).flatten

theorem future_split (rs : List Sched) : future rs = bytesOf (rs.headD []) ++ future rs.tail := by
  cases rs with
  | nil => simp [future, bytesOf]
  | cons r rs => simp [future]

/-- unfolding of one phase -/
theorem run_io {α : Type} (d : Nat) (ws : List Bytes) (P : Bytes → Bool) (T : Option Nat)
    (k : Bytes → Prog α) (st : St) :
    run d (.io ws P T k) st =
      if (phaseRead d P T st).ok then run d (k (phaseRead d P T st).rb) (phaseSt d ws P T st)
      else (.timeout, phaseSt d ws P T st) := rfl

theorem now_le_phaseDeadline (T : Option Nat) (st : St) (h : st.now ≤ st.deadline) :
    st.now ≤ phaseDeadline T st := by
  cases T with
  | none => exact h
  | some T => exact Nat.le_add_right _ _

theorem phase_conserve (d : Nat) (ws : List Bytes) (P : Bytes → Bool) (T : Option Nat) (st : St) :
    (phaseSt d ws P T st).consumed ++ bytesOf (phaseSt d ws P T st).pend ++ future (phaseSt d ws P T st).rs
      = st.consumed ++ bytesOf st.pend ++ future st.rs := by
  obtain ⟨c, h1, h2⟩ := readUntilT_conserve P d (phaseDeadline T st) (st.pend ++ st.rs.headD []) st.now []
  rw [bytesOf_append] at h2
  simp only [List.nil_append] at h1
  show st.consumed ++ (phaseRead d P T st).rb ++ bytesOf (phaseRead d P T st).rest ++ future st.rs.tail = _
  unfold phaseRead
  rw [future_split st.rs, h1]
  simp only [List.append_assoc]
  rw [← List.append_assoc (bytesOf st.pend), h2]
  simp [List.append_assoc]

/-- conservation over a whole operation: every byte the device emits is either consumed by the
    operation before it returns, or is still pending / still to be emitted when it returns -/
theorem run_conserve {α : Type} (d : Nat) (prog : Prog α) :
    ∀ st : St, (run d prog st).2.consumed ++ bytesOf (run d prog st).2.pend ++ future (run d prog st).2.rs
      = st.consumed ++ bytesOf st.pend ++ future st.rs := by
  induction prog with
  | ret r => intro st; rfl
  | fail e => intro st; rfl
  | io ws P T k ih =>
    intro st
    rw [run_io]
    split
    · rw [ih]; exact phase_conserve d ws P T st
    · exact phase_conserve d ws P T st

/-- the operation has a deadline that is not already behind it: it starts by creating its own
    context / timer, or the one it inherits has not passed -/
def Fresh {α : Type} : Prog α → St → Prop
  | .io _ _ (some _) _, _ => True
  | _, st => st.now ≤ st.deadline

theorem fresh_of_le {α : Type} (prog : Prog α) (st : St) (h : st.now ≤ st.deadline) : Fresh prog st := by
  cases prog with
  | ret r => exact h
  | fail e => exact h
  | io ws P T k => cases T <;> first | exact h | trivial

theorem now_le_phaseDeadline' {α : Type} (ws : List Bytes) (P : Bytes → Bool) (T : Option Nat)
    (k : Bytes → Prog α) (st : St) (h : Fresh (.io ws P T k) st) : st.now ≤ phaseDeadline T st := by
  cases T with
  | none => exact h
  | some T => exact Nat.le_add_right _ _

/-- every timeout is returned inside `[deadline, deadline + d)` of the deadline in force, and
    every other return happens before it -/
theorem run_time {α : Type} (d : Nat) (hd : 0 < d) (prog : Prog α) :
    ∀ st : St, Fresh prog st →
      st.now ≤ (run d prog st).2.now ∧
      match (run d prog st).1 with
      | .timeout => (run d prog st).2.deadline ≤ (run d prog st).2.now ∧
                    (run d prog st).2.now < (run d prog st).2.deadline + d
      | _ => (run d prog st).2.now ≤ (run d prog st).2.deadline := by
  induction prog with
  | ret r => intro st h; exact ⟨Nat.le_refl _, h⟩
  | fail e => intro st h; exact ⟨Nat.le_refl _, h⟩
  | io ws P T k ih =>
    intro st h
    rw [run_io]
    have hle := now_le_phaseDeadline' ws P T k st h
    obtain ⟨a, b, c⟩ := readUntilT_time P d (phaseDeadline T st) hd (st.pend ++ st.rs.headD []) st.now []
    cases hok : (phaseRead d P T st).ok with
    | true =>
      simp only [if_true]
      have hlt : (phaseRead d P T st).t < phaseDeadline T st := b hok
      have hst : (phaseSt d ws P T st).now ≤ (phaseSt d ws P T st).deadline := Nat.le_of_lt hlt
      obtain ⟨i1, i2⟩ := ih (phaseRead d P T st).rb (phaseSt d ws P T st) (fresh_of_le _ _ hst)
      have a' : st.now ≤ (phaseSt d ws P T st).now := a
      exact ⟨Nat.le_trans a' i1, i2⟩
    | false =>
      simp only [Bool.false_eq_true, if_false]
      obtain ⟨c1, c2⟩ := c hok
      refine ⟨a, c1, ?_⟩
      show (phaseRead d P T st).t < phaseDeadline T st + d
      rcases c2 with c2 | c2
      · exact c2
      · have : (phaseRead d P T st).t = st.now := c2
        omega

/-- `Stalls prog pre streams`: against a device whose reactions carry the byte streams `streams`
    (with `pre` already pending), some phase of the operation can never complete: every earlier
    phase's predicate first holds exactly at the end of what that phase receives, and no prefix
    of what the stalled phase receives satisfies its predicate. -/
inductive Stalls {α : Type} : Prog α → Bytes → List Bytes → Prop where
  | here {ws P T k pre streams} (h : ∀ j, P ((pre ++ streams.headD []).take j) = false) :
      Stalls (.io ws P T k) pre streams
  | later {ws P T k pre streams} (hE : ExactAt P (pre ++ streams.headD []))
      (h : Stalls (k (pre ++ streams.headD [])) [] streams.tail) :
      Stalls (.io ws P T k) pre streams

theorem headD_map_bytesOf (rs : List Sched) : (rs.map bytesOf).headD [] = bytesOf (rs.headD []) := by
  cases rs <;> rfl

theorem tail_map_bytesOf (rs : List Sched) : (rs.map bytesOf).tail = rs.tail.map bytesOf := by
  cases rs <;> rfl

/-- a stalled operation ends in the deadline outcome, never in success -/
theorem run_stalls {α : Type} (d : Nat) (prog : Prog α) (pre : Bytes) (streams : List Bytes)
    (h : Stalls prog pre streams) :
    ∀ st : St, bytesOf st.pend = pre → st.rs.map bytesOf = streams →
      (run d prog st).1 = Out.timeout := by
  induction h with
  | @here ws P T k pre streams hno =>
    intro st hp hs
    rw [run_io]
    have hb : bytesOf (st.pend ++ st.rs.headD []) = pre ++ streams.headD [] := by
      rw [bytesOf_append, hp, ← hs, headD_map_bytesOf]
    have : (phaseRead d P T st).ok = false :=
      readUntilT_never P d (phaseDeadline T st) (st.pend ++ st.rs.headD []) st.now []
        (by intro j; rw [hb, List.nil_append]; exact hno j)
    rw [this]; rfl
  | @later ws P T k pre streams hE _ ih =>
    intro st hp hs
    rw [run_io]
    have hb : bytesOf (st.pend ++ st.rs.headD []) = pre ++ streams.headD [] := by
      rw [bytesOf_append, hp, ← hs, headD_map_bytesOf]
    cases hok : (phaseRead d P T st).ok with
    | false => rfl
    | true =>
      simp only [if_true]
      obtain ⟨e1, e2⟩ := readUntilT_exact P d (phaseDeadline T st) (st.pend ++ st.rs.headD []) st.now
        (hb ▸ hE) hok
      have e1' : (phaseRead d P T st).rb = pre ++ streams.headD [] := by rw [← hb]; exact e1
      rw [e1']
      apply ih
      · exact e2
      · show st.rs.tail.map bytesOf = streams.tail
        rw [← hs, tail_map_bytesOf]

/-- no phase of the program restarts the deadline -/
inductive NoRestart {α : Type} : Prog α → Prop where
  | ret (r : α) : NoRestart (.ret r)
  | fail (e : ErrClass) : NoRestart (.fail e)
  | io {ws P k} (h : ∀ rb, NoRestart (k rb)) : NoRestart (.io ws P none k)

theorem run_noRestart {α : Type} (d : Nat) (prog : Prog α) (h : NoRestart prog) :
    ∀ st : St, (run d prog st).2.deadline = st.deadline := by
  induction h with
  | ret r => intro st; rfl
  | fail e => intro st; rfl
  | @io ws P k _ ih =>
    intro st
    rw [run_io]
    split
    · rw [ih]; rfl
    · rfl

/-- one context for the whole operation: created with timeout `T` when the operation starts,
    never again -/
def SingleRestart {α : Type} (prog : Prog α) (T : Nat) : Prop :=
  ∃ ws P k, prog = .io ws P (some T) k ∧ ∀ rb, NoRestart (k rb)

theorem run_singleRestart {α : Type} (d : Nat) (prog : Prog α) (T : Nat)
    (h : SingleRestart prog T) (st : St) : (run d prog st).2.deadline = st.now + T := by
  obtain ⟨ws, P, k, rfl, hk⟩ := h
  rw [run_io]
  split
  · rw [run_noRestart d _ (hk _)]; rfl
  · rfl

/-- `Completes prog rbs r`: fed the per-phase read results `rbs`, the program ends in `r`, and
    every one of them satisfied its phase's completion predicate -/
inductive Completes {α : Type} : Prog α → List Bytes → α → Prop where
  | ret (r : α) : Completes (.ret r) [] r
  | io {ws P T k rb rbs r} (hP : P rb = true) (h : Completes (k rb) rbs r) :
      Completes (.io ws P T k) (rb :: rbs) r

theorem run_ok_completes {α : Type} (d : Nat) (prog : Prog α) :
    ∀ (st : St) (r : α), (run d prog st).1 = Out.ok r →
      ∃ rbs, Completes prog rbs r ∧ (run d prog st).2.consumed = st.consumed ++ rbs.flatten := by
  induction prog with
  | ret r0 =>
    intro st r h
    have : r0 = r := by simpa [run] using h
    subst this
    exact ⟨[], Completes.ret _, by simp [run]⟩
  | fail e => intro st r h; simp [run] at h
  | io ws P T k ih =>
    intro st r h
    rw [run_io] at h ⊢
    cases hok : (phaseRead d P T st).ok with
    | false => rw [hok] at h; simp at h
    | true =>
      rw [hok] at h
      simp only [if_true] at h ⊢
      obtain ⟨rbs, hc, hcons⟩ := ih _ _ r h
      have hs : P (phaseRead d P T st).rb = true :=
        readUntilT_sound P d (phaseDeadline T st) (st.pend ++ st.rs.headD []) st.now [] hok
      refine ⟨_ :: rbs, Completes.io hs hc, ?_⟩
      rw [hcons]
      show st.consumed ++ (phaseRead d P T st).rb ++ rbs.flatten = _
      simp [List.append_assoc]

/-- sequencing -/
theorem run_bind {α β : Type} (d : Nat) (p : Prog α) (f : α → Prog β) :
    ∀ st : St, run d (p.bind f) st =
      match run d p st with
      | (.ok r, st') => run d (f r) st'
      | (.timeout, st') => (.timeout, st')
      | (.err e, st') => (.err e, st') := by
  induction p with
  | ret r => intro st; rfl
  | fail e => intro st; rfl
  | io ws P T k ih =>
    intro st
    show run d (.io ws P T (fun rb => (k rb).bind f)) st = _
    rw [run_io, run_io]
    cases (phaseRead d P T st).ok with
    | true => simp only [if_true]; rw [ih]
    | false => rfl

/-! ## sequencing and stalls -/

/-- a program that stalls still stalls when something is sequenced after it -/
theorem stalls_bind_left {α β : Type} (f : α → Prog β) {p : Prog α} {pre : Bytes} {ss : List Bytes}
    (h : Stalls p pre ss) : Stalls (p.bind f) pre ss := by
  induction h with
  | here hno => exact Stalls.here hno
  | later hE _ ih => exact Stalls.later hE ih

/-- `Exactly p pre streams r`: every phase of `p` receives a stream at whose end its predicate
    first holds, the streams are used up, and `p` ends in `r` -/
inductive Exactly {α : Type} : Prog α → Bytes → List Bytes → α → Prop where
  | ret (r : α) : Exactly (.ret r) [] [] r
  | io {ws P T k pre s ss r} (hE : ExactAt P (pre ++ s)) (h : Exactly (k (pre ++ s)) [] ss r) :
      Exactly (.io ws P T k) pre (s :: ss) r

/-- a stall in what follows a program that completes exactly is a stall of the sequence -/
theorem stalls_bind_right {α β : Type} (f : α → Prog β) {p : Prog α} {pre : Bytes} {ss : List Bytes}
    {r : α} (h : Exactly p pre ss r) {rest : List Bytes} (hs : Stalls (f r) [] rest) :
    Stalls (p.bind f) pre (ss ++ rest) := by
  induction h with
  | ret r => exact hs
  | io hE _ ih => exact Stalls.later hE (ih hs)

theorem seqP_cons_cons (p q : Prog Bytes) (ps : List (Prog Bytes)) :
    seqP (p :: q :: ps) = p.bind fun _ => seqP (q :: ps) := rfl

/-- the head of a sequence stalls -/
theorem seqP_stalls_head {p : Prog Bytes} {pre : Bytes} {ss : List Bytes} (h : Stalls p pre ss)
    (rest : List (Prog Bytes)) : Stalls (seqP (p :: rest)) pre ss := by
  cases rest with
  | nil => exact h
  | cons q qs => rw [seqP_cons_cons]; exact stalls_bind_left _ h

/-- the head completes exactly, the remainder stalls -/
theorem seqP_stalls_later {p q : Prog Bytes} {ss ss' : List Bytes} {r : Bytes}
    (h : Exactly p [] ss r) (rest : List (Prog Bytes)) (hs : Stalls (seqP (q :: rest)) [] ss') :
    Stalls (seqP (p :: q :: rest)) [] (ss ++ ss') := by
  rw [seqP_cons_cons]; exact stalls_bind_right _ h hs

/-! ## bridge to the untimed channel model (C01) -/

/-- against a device that answers promptly, `SendInputB` in model time is the untimed
    `Chan.sendInput` -/
theorem run_sendInput_of_chan (d : Nat) (cfg : Cfg) (x : Exchange) (T : Nat) (hT : 0 < T)
    (s s' : Sess) (r : Bytes) (st : St)
    (hp : st.pend = s.q.map some) (hrs : st.rs = [x.echo.map some, x.resp.map some])
    (hw : st.writes = s.writes)
    (h : sendInput cfg s x = some (r, s')) :
    (run d (sendInputP cfg x.cmd T) st).1 = Out.ok r ∧
    (run d (sendInputP cfg x.cmd T) st).2.pend = s'.q.map some ∧
    (run d (sendInputP cfg x.cmd T) st).2.writes = s'.writes ∧
    (run d (sendInputP cfg x.cmd T) st).2.now = st.now := by
  unfold sendInput at h
  simp only at h
  cases h1 : readUntil (echoPred cfg x.cmd) (s.q ++ x.echo) [] with
  | none => simp [h1] at h
  | some p1 =>
    obtain ⟨rb1, q2⟩ := p1
    simp only [h1] at h
    cases h2 : readUntil (promptPred cfg) (q2 ++ x.resp) [] with
    | none => simp [h2] at h
    | some p2 =>
      obtain ⟨rb2, q3⟩ := p2
      simp only [h2, Option.some.injEq, Prod.mk.injEq] at h
      obtain ⟨hr, hs'⟩ := h
      have hlt : st.now < st.now + T := by omega
      have r1 : phaseRead d (echoPred cfg x.cmd) (some T) st = ⟨true, rb1, st.now, q2.map some⟩ := by
        unfold phaseRead phaseDeadline
        rw [hp, hrs]
        simp only [List.headD_cons, ← List.map_append]
        rw [readUntilT_somes _ _ _ _ _ _ hlt, h1]
      have st1now : (phaseSt d [x.cmd] (echoPred cfg x.cmd) (some T) st).now = st.now := by
        show (phaseRead _ _ _ st).t = _; rw [r1]
      have st1dl : (phaseSt d [x.cmd] (echoPred cfg x.cmd) (some T) st).deadline = st.now + T := rfl
      have st1pend : (phaseSt d [x.cmd] (echoPred cfg x.cmd) (some T) st).pend = q2.map some := by
        show (phaseRead _ _ _ st).rest = _; rw [r1]
      have st1rs : (phaseSt d [x.cmd] (echoPred cfg x.cmd) (some T) st).rs = [x.resp.map some] := by
        show st.rs.tail = _; rw [hrs]; rfl
      have r2 : phaseRead d (promptPred cfg) none (phaseSt d [x.cmd] (echoPred cfg x.cmd) (some T) st)
          = ⟨true, rb2, st.now, q3.map some⟩ := by
        unfold phaseRead phaseDeadline
        simp only [st1pend, st1rs, st1now, st1dl, List.headD_cons, ← List.map_append]
        rw [readUntilT_somes _ _ _ _ _ _ hlt, h2]
      unfold sendInputP
      rw [run_io, r1]
      simp only [if_true]
      rw [run_io, r2]
      simp only [if_true, run]
      subst hs'
      refine ⟨by rw [hr], ?_, ?_, ?_⟩
      · show (phaseRead d (promptPred cfg) none _).rest = _; rw [r2]
      · show (st.writes ++ [x.cmd]) ++ [cfg.ret] = _; rw [hw]
      · show (phaseRead d (promptPred cfg) none _).t = _; rw [r2]

/-- for the fuzzy matcher, with the whole buffer inside the search window, "first holds exactly
    at the end of `S`" is: the input is a subsequence of `S` and not of `S` without its last byte -/
theorem exactAt_echo_of_sublist (cfg : Cfg) (hfz : cfg.exact = false) (cmd S : Bytes)
    (hlen : S.length ≤ searchDepth cfg.mult cfg.depth cmd.length)
    (h1 : cmd.Sublist S) (h2 : ¬ cmd.Sublist S.dropLast) : ExactAt (echoPred cfg cmd) S := by
  have hw : ∀ X : Bytes, X.length ≤ S.length →
      echoPred cfg cmd X = roughlyContains cmd X := by
    intro X hX
    unfold echoPred
    simp only [hfz, Bool.false_eq_true, if_false]
    have : window X (searchDepth cfg.mult cfg.depth cmd.length) = X := by
      simp [window, Nat.le_trans hX hlen]
    rw [this]
  constructor
  · rw [hw S (Nat.le_refl _)]
    exact (roughlyContains_iff_sublist _ _).mpr h1
  · intro k hk
    rw [hw _ (by simp; omega)]
    cases hrc : roughlyContains cmd (List.take k S) with
    | false => rfl
    | true =>
      exfalso
      apply h2
      have hsub := (roughlyContains_iff_sublist _ _).mp hrc
      have : List.take k S = List.take k S.dropLast := by
        rw [List.dropLast_eq_take, List.take_take]
        congr 1; omega
      rw [this] at hsub
      exact hsub.trans (List.take_sublist _ _)

end Scrapli.Timeout
