import ScrapliModel.Lemmas.Loss
/-! Helper lemmas for C06, NETCONF part: `Driver.read` forwarding and `sendRPC`. -/
namespace Scrapli.Loss
open Scrapli Scrapli.Chan

theorem chRead_err_state (s s' : St) (e : Err) (h : chRead s = (.err e, s')) :
    s'.q = s.q ∧ s'.pending = s.pending ∧ s'.left = s.left ∧ s'.wleft = s.wleft := by
  unfold chRead at h
  split at h
  · simp at h; rw [← h.2]; exact ⟨rfl, rfl, rfl, rfl⟩
  · simp at h; rw [← h.2]; exact ⟨rfl, rfl, rfl, rfl⟩
  · split at h <;> simp at h

/-- invariant of an RPC whose reply the loss cuts short: the delimiter matcher fires on no prefix
    of the reply stream that can still be delivered (in particular when it first fires exactly at
    the end of the complete reply and fewer bytes than that can arrive, `ninv_of_exact`), and
    nothing is stored under the RPC's message-id -/
structure NInv (msgP : Bytes → Bool) (n : NSt) (r : Rpc) : Prop where
  nofire : ∀ j, j ≤ nbudget n → msgP ((nunread n r).take j) = false
  noreply : n.store.lookup r.mid = none

theorem ninv_of_exact (msgP : Bytes → Bool) (n : NSt) (r : Rpc) (he : ExactAt msgP (nunread n r))
    (hs : nbudget n < (nunread n r).length) (hn : n.store.lookup r.mid = none) : NInv msgP n r :=
  ⟨fun j hj => he.2 j (by omega), hn⟩

theorem ninv_rdr (msgP : Bytes → Bool) (n : NSt) (r : Rpc) (h : NInv msgP n r) :
    NInv msgP { n with ch := rstep n.ch } r := by
  have hu : nunread { n with ch := rstep n.ch } r = nunread n r := by
    simp only [nunread]
    rw [List.append_assoc n.nb, rstep_flat, ← List.append_assoc n.nb]
  have hb : nbudget { n with ch := rstep n.ch } = nbudget n := by
    have := rstep_budget n.ch
    simp only [nbudget]; omega
  exact ⟨by rw [hu, hb]; exact h.nofire, h.noreply⟩

theorem ninv_fwd (msgP : Bytes → Bool) (idOf : Bytes → Nat) (echoRest : Bytes → Option Bytes) (n : NSt) (r : Rpc) (h : NInv msgP n r) :
    NInv msgP (nstep msgP idOf echoRest n) r := by
  unfold nstep
  split
  · exact h
  · split
    · rename_i e s' hr
      obtain ⟨h1, h2, h3, _⟩ := chRead_err_state n.ch s' e hr
      have hu : nunread { n with ch := s', fwd := some e } r = nunread n r := by
        simp only [nunread, h1, h2]
      have hb : nbudget { n with ch := s', fwd := some e } = nbudget n := by
        simp only [nbudget, h1, h3]
      exact ⟨by rw [hu, hb]; exact h.nofire, h.noreply⟩
    · rename_i s' hr
      obtain ⟨h1, _, _⟩ := chRead_nil n.ch s' hr
      subst h1
      exact h
    · rename_i c s' hr
      obtain ⟨_, hq, hs'⟩ := chRead_data n.ch s' c hr
      have hu : nunread n r = (n.nb ++ c) ++ (s'.q.flatten ++ s'.pending.flatten ++
          (r.writes.map (·.2.flatten)).flatten) := by
        rw [hs']; simp [nunread, hq]
      have hl : s'.left = n.ch.left := by rw [hs']
      have hfalse : msgP (n.nb ++ c) = false := by
        have := h.nofire (n.nb ++ c).length (by
          simp only [nbudget, hq, List.flatten_cons, List.length_append]; omega)
        rw [hu, List.take_left' rfl] at this
        exact this
      rw [if_neg (by rw [hfalse]; simp)]
      have hu' : nunread { n with ch := s', nb := n.nb ++ c } r = nunread n r := by
        rw [hu]; simp [nunread]
      have hb : nbudget { n with ch := s', nb := n.nb ++ c } = nbudget n := by
        simp only [nbudget, hq, hl, List.flatten_cons, List.length_append]; omega
      exact ⟨by rw [hu', hb]; exact h.nofire, h.noreply⟩

theorem rpcStep_inl (p : Bool) (n n' : NSt) (r r' : Rpc) (h : rpcStep p n r = (n', .inl r')) :
    (∃ b react ws s', r.writes = (b, react) :: ws ∧ chWrite n.ch b react = (true, s') ∧
        n' = { n with ch := s' } ∧ r' = { r with writes := ws }) ∨
    (r.writes = [] ∧ n.fwd = none ∧ n' = n ∧ r' = r) := by
  unfold rpcStep at h
  split at h
  · rename_i b react ws hw
    split at h
    · simp at h
    · rename_i s' hc
      simp at h
      exact Or.inl ⟨b, react, ws, s', hw, hc, h.1.symm, h.2.symm⟩
  · rename_i hw
    split at h
    · simp at h
    · simp at h
    · split at h <;> simp at h
    · rename_i hf _
      simp at h
      exact Or.inr ⟨hw, hf, h.1.symm, h.2.symm⟩

theorem rpcStep_inr (p : Bool) (n n' : NSt) (r : Rpc) (res : Res) (h : rpcStep p n r = (n', .inr res)) :
    (∃ e, res = .error e) ∨ (r.writes = [] ∧ ∃ m, n.store.lookup r.mid = some m) := by
  unfold rpcStep at h
  split at h
  · split at h
    · simp at h; exact Or.inl ⟨_, h.2.symm⟩
    · simp at h
  · rename_i hw
    split at h
    · simp at h; exact Or.inl ⟨_, h.2.symm⟩
    · rename_i m _ hl; exact Or.inr ⟨hw, m, hl⟩
    · rename_i m _ hl; exact Or.inr ⟨hw, m, hl⟩
    · simp at h

theorem ninv_rpc (msgP : Bytes → Bool) (p : Bool) (n n' : NSt) (r r' : Rpc) (h : NInv msgP n r)
    (hs : rpcStep p n r = (n', .inl r')) : NInv msgP n' r' ∧ r'.mid = r.mid ∧
      r'.writes.length ≤ r.writes.length ∧ n'.fwd = n.fwd ∧ n'.ch.rd = n.ch.rd ∧ n'.ch.left = n.ch.left := by
  rcases rpcStep_inl p n n' r r' hs with ⟨b, react, ws, s', hw, hc, hn, hr⟩ | ⟨_, _, hn, hr⟩
  · obtain ⟨h1, h2, h3, h4, _⟩ := chWrite_ok n.ch s' b react hc
    subst hn; subst hr
    have hu : nunread { n with ch := s' } { r with writes := ws } = nunread n r := by
      simp [nunread, h1, h2, hw]
    have hb : nbudget { n with ch := s' } = nbudget n := by simp only [nbudget, h2, h3]
    exact ⟨⟨by rw [hu, hb]; exact h.nofire, h.noreply⟩, rfl, by simp [hw], rfl, h4, h3⟩
  · subst hn; subst hr
    exact ⟨h, rfl, Nat.le_refl _, rfl, rfl, rfl⟩

/-- under the invariant an RPC step can only return an error -/
theorem ninv_rpc_result (msgP : Bytes → Bool) (p : Bool) (n n' : NSt) (r : Rpc) (res : Res)
    (h : NInv msgP n r) (hs : rpcStep p n r = (n', .inr res)) : ∃ e, res = .error e := by
  rcases rpcStep_inr p n n' r res hs with he | ⟨_, m, hm⟩
  · exact he
  · rw [h.noreply] at hm; simp at hm

/-- what a run preserves while the RPC is in flight -/
theorem nrun_inv (msgP : Bytes → Bool) (idOf : Bytes → Nat) (echoRest : Bytes → Option Bytes) (sched : List NActor) (n n1 : NSt)
    (r r1 : Rpc) (h : NInv msgP n r) (hr : nrun msgP idOf echoRest sched n r = (n1, .inl r1)) :
    NInv msgP n1 r1 ∧ r1.writes.length ≤ r.writes.length ∧ (n.ch.left = 0 → n1.ch.left = 0) := by
  induction sched generalizing n r with
  | nil =>
    simp [nrun] at hr
    obtain ⟨h1, h2⟩ := hr
    subst h1; subst h2
    exact ⟨h, Nat.le_refl _, id⟩
  | cons a t ih =>
    cases a with
    | rdr =>
      simp only [nrun] at hr
      obtain ⟨a1, a2, a3⟩ := ih _ r (ninv_rdr msgP n r h) hr
      exact ⟨a1, a2, fun h0 => a3 (rstep_left_zero n.ch h0)⟩
    | fwd =>
      simp only [nrun] at hr
      obtain ⟨a1, a2, a3⟩ := ih _ r (ninv_fwd msgP idOf echoRest n r h) hr
      refine ⟨a1, a2, fun h0 => a3 ?_⟩
      unfold nstep
      split
      · exact h0
      · split
        · rename_i e s' hrd
          obtain ⟨_, _, h3, _⟩ := chRead_err_state n.ch s' e hrd
          simp only; rw [h3]; exact h0
        · rename_i s' hrd
          obtain ⟨h1, _, _⟩ := chRead_nil n.ch s' hrd
          subst h1; exact h0
        · rename_i c s' hrd
          obtain ⟨_, _, hs'⟩ := chRead_data n.ch s' c hrd
          have : s'.left = 0 := by rw [hs']; exact h0
          split
          · split <;> exact this
          · exact this
    | rpc p =>
      simp only [nrun] at hr
      rcases hs : rpcStep p n r with ⟨n2, r2 | res⟩
      · rw [hs] at hr
        simp only at hr
        obtain ⟨b1, _, b3, _, _, b6⟩ := ninv_rpc msgP p n n2 r r2 h hs
        obtain ⟨a1, a2, a3⟩ := ih n2 r2 b1 hr
        exact ⟨a1, by omega, fun h0 => a3 (by rw [b6]; exact h0)⟩
      · rw [hs] at hr
        simp at hr

/-- a run that returns: only an error is possible -/
theorem nrun_result (msgP : Bytes → Bool) (idOf : Bytes → Nat) (echoRest : Bytes → Option Bytes) (sched : List NActor) (n n' : NSt)
    (r : Rpc) (res : Res) (h : NInv msgP n r) (hr : nrun msgP idOf echoRest sched n r = (n', .inr res)) :
    ∃ e, res = .error e := by
  induction sched generalizing n r with
  | nil => simp [nrun] at hr
  | cons a t ih =>
    cases a with
    | rdr => simp only [nrun] at hr; exact ih _ r (ninv_rdr msgP n r h) hr
    | fwd => simp only [nrun] at hr; exact ih _ r (ninv_fwd msgP idOf echoRest n r h) hr
    | rpc p =>
      simp only [nrun] at hr
      rcases hs : rpcStep p n r with ⟨n2, r2 | res2⟩
      · rw [hs] at hr
        simp only at hr
        exact ih n2 r2 (ninv_rpc msgP p n n2 r r2 h hs).1 hr
      · rw [hs] at hr
        simp only at hr
        obtain ⟨_, h2⟩ := Prod.mk.inj hr
        have h3 : res2 = res := Sum.inr.inj h2
        subst h3
        exact ninv_rpc_result msgP p n n2 r res2 h hs

theorem nrun_append (msgP : Bytes → Bool) (idOf : Bytes → Nat) (echoRest : Bytes → Option Bytes) (l1 l2 : List NActor) (n : NSt) (r : Rpc) :
    nrun msgP idOf echoRest (l1 ++ l2) n r =
      match nrun msgP idOf echoRest l1 n r with
      | (n1, .inl r1) => nrun msgP idOf echoRest l2 n1 r1
      | (n1, .inr res) => (n1, .inr res) := by
  induction l1 generalizing n r with
  | nil => simp [nrun]
  | cons a t ih =>
    cases a with
    | rdr => simp only [List.cons_append, nrun]; exact ih _ _
    | fwd => simp only [List.cons_append, nrun]; exact ih _ _
    | rpc p =>
      simp only [List.cons_append, nrun]
      rcases hs : rpcStep p n r with ⟨n2, r2 | res⟩
      · simp only; exact ih _ _
      · simp only

def rpcCount : List NActor → Nat
  | [] => 0
  | .rpc _ :: t => rpcCount t + 1
  | _ :: t => rpcCount t

theorem rpcCount_append (a b : List NActor) : rpcCount (a ++ b) = rpcCount a + rpcCount b := by
  induction a with
  | nil => simp [rpcCount]
  | cons x t ih => cases x <;> simp [rpcCount, ih] <;> omega

theorem rpcCount_ntick (ord : Nat) : rpcCount (ntick ord) = 1 := by
  unfold ntick
  split <;> simp [rpcCount]

theorem rpcCount_nticks (ords : List Nat) : rpcCount (nticks ords) = ords.length := by
  induction ords with
  | nil => rfl
  | cons a t ih =>
    have : nticks (a :: t) = ntick a ++ nticks t := by simp [nticks]
    rw [this, rpcCount_append, rpcCount_ntick, ih]; simp; omega

/-- Once `Driver.read` holds an error for `d.errs`, `sendRPC` returns an error after its remaining
    writes plus one step, however the three goroutines interleave. -/
theorem fwdready_returns (msgP : Bytes → Bool) (idOf : Bytes → Nat) (echoRest : Bytes → Option Bytes) (sched : List NActor) (n : NSt)
    (r : Rpc) (h : NInv msgP n r) (hf : n.fwd.isSome = true) (hc : r.writes.length < rpcCount sched) :
    ∃ n' e, nrun msgP idOf echoRest sched n r = (n', .inr (.error e)) := by
  induction sched generalizing n r with
  | nil => simp [rpcCount] at hc
  | cons a t ih =>
    cases a with
    | rdr =>
      simp only [nrun]
      exact ih _ r (ninv_rdr msgP n r h) hf (by simpa [rpcCount] using hc)
    | fwd =>
      simp only [nrun]
      have : nstep msgP idOf echoRest n = n := by
        unfold nstep
        cases hfw : n.fwd with
        | none => rw [hfw] at hf; simp at hf
        | some e => rfl
      rw [this]
      exact ih n r h hf (by simpa [rpcCount] using hc)
    | rpc p =>
      simp only [nrun]
      rcases hs : rpcStep p n r with ⟨n2, r2 | res⟩
      · simp only
        obtain ⟨b1, _, _, b4, _⟩ := ninv_rpc msgP p n n2 r r2 h hs
        rcases rpcStep_inl p n n2 r r2 hs with ⟨b, react, ws, s', hw, _, _, hr2⟩ | ⟨_, hnone, _, _⟩
        · apply ih n2 r2 b1 (by rw [b4]; exact hf)
          subst hr2
          rw [hw] at hc
          simp only [List.length_cons, rpcCount] at hc ⊢
          omega
        · rw [hnone] at hf; simp at hf
      · simp only
        obtain ⟨e, he⟩ := ninv_rpc_result msgP p n n2 r res h hs
        exact ⟨n2, e, by rw [he]⟩

/-- the channel's read goroutine is armed or `Driver.read` already holds the error -/
def NArmed (n : NSt) : Prop := n.fwd.isSome = true ∨ Armed n.ch

theorem narmed_fwd (msgP : Bytes → Bool) (idOf : Bytes → Nat) (echoRest : Bytes → Option Bytes) (n : NSt) (h : NArmed n) :
    (nstep msgP idOf echoRest n).fwd.isSome = true := by
  unfold nstep
  cases hf : n.fwd with
  | some e => simp [hf]
  | none =>
    rcases h with h | h
    · rw [hf] at h; simp at h
    · obtain ⟨e, s', hr⟩ := chRead_armed n.ch h
      simp only [hr]
      rfl

theorem narmed_rdr (n : NSt) (h : NArmed n) : NArmed { n with ch := rstep n.ch } := by
  rcases h with h | h
  · exact Or.inl h
  · exact Or.inr (by rw [rstep_armed n.ch h]; exact h)

theorem narmed_rpc (msgP : Bytes → Bool) (p : Bool) (n n' : NSt) (r r' : Rpc) (hi : NInv msgP n r)
    (hs : rpcStep p n r = (n', .inl r')) (h : NArmed n) : NArmed n' := by
  obtain ⟨_, _, _, b4, b5, _⟩ := ninv_rpc msgP p n n' r r' hi hs
  unfold NArmed Armed at *
  rw [b4, b5]; exact h


theorem rstep_newly_lost (s : St) (h : (rstep s).lost = true) (h0 : s.lost = false) : Armed (rstep s) := by
  unfold rstep at h ⊢
  unfold Armed
  split
  · simp_all
  · simp_all
  · split
    · split <;> simp
    · split
      · simp_all
      · split <;> simp_all

theorem nstep_lost (msgP : Bytes → Bool) (idOf : Bytes → Nat) (echoRest : Bytes → Option Bytes) (n : NSt) :
    (nstep msgP idOf echoRest n).ch.lost = n.ch.lost := by
  unfold nstep
  split
  · rfl
  · split
    · rename_i e s' hr
      unfold chRead at hr
      split at hr
      · simp at hr; rw [← hr.2]
      · simp at hr; rw [← hr.2]
      · split at hr <;> simp at hr
    · rename_i s' hr
      obtain ⟨h1, _, _⟩ := chRead_nil n.ch s' hr
      subst h1; rfl
    · rename_i c s' hr
      obtain ⟨_, _, hs'⟩ := chRead_data n.ch s' c hr
      have : s'.lost = n.ch.lost := by rw [hs']
      split
      · split <;> exact this
      · exact this

/-- within one RPC: once a transport read has reported the loss, the error is on its way -/
def NLostArmed (n : NSt) : Prop := n.ch.lost = true → NArmed n

theorem nrun_lostArmed (msgP : Bytes → Bool) (idOf : Bytes → Nat) (echoRest : Bytes → Option Bytes) (sched : List NActor) (n n1 : NSt)
    (r r1 : Rpc) (h : NInv msgP n r) (hl : NLostArmed n)
    (hr : nrun msgP idOf echoRest sched n r = (n1, .inl r1)) : NLostArmed n1 := by
  induction sched generalizing n r with
  | nil =>
    simp [nrun] at hr
    obtain ⟨h1, _⟩ := hr
    subst h1; exact hl
  | cons a t ih =>
    cases a with
    | rdr =>
      simp only [nrun] at hr
      apply ih _ r (ninv_rdr msgP n r h) _ hr
      intro hlost
      simp only at hlost
      cases h0 : n.ch.lost with
      | true => exact narmed_rdr n (hl h0)
      | false => exact Or.inr (rstep_newly_lost n.ch hlost h0)
    | fwd =>
      simp only [nrun] at hr
      apply ih _ r (ninv_fwd msgP idOf echoRest n r h) _ hr
      intro hlost
      rw [nstep_lost] at hlost
      exact Or.inl (narmed_fwd msgP idOf echoRest n (hl hlost))
    | rpc p =>
      simp only [nrun] at hr
      rcases hs : rpcStep p n r with ⟨n2, r2 | res⟩
      · rw [hs] at hr
        simp only at hr
        apply ih n2 r2 (ninv_rpc msgP p n n2 r r2 h hs).1 _ hr
        intro hlost
        apply narmed_rpc msgP p n n2 r r2 h hs
        apply hl
        rcases rpcStep_inl p n n2 r r2 hs with ⟨b, react, ws, s', _, hc, hn, _⟩ | ⟨_, _, hn, _⟩
        · obtain ⟨_, _, _, _, h5, _⟩ := chWrite_ok n.ch s' b react hc
          subst hn
          simp only at hlost
          rw [← h5]; exact hlost
        · subst hn; exact hlost
      · rw [hs] at hr
        simp at hr

/-- From an armed state: one `Driver.read` step puts the error into `d.errs`' hand-off, after which
    `sendRPC` needs its remaining writes plus one step. -/
theorem narmed_returns (msgP : Bytes → Bool) (idOf : Bytes → Nat) (echoRest : Bytes → Option Bytes) (pre post : List NActor) (n : NSt)
    (r : Rpc) (h : NInv msgP n r) (ha : NArmed n) (hc : r.writes.length < rpcCount post) :
    ∃ n' e, nrun msgP idOf echoRest (pre ++ .fwd :: post) n r = (n', .inr (.error e)) := by
  induction pre generalizing n r with
  | nil =>
    simp only [List.nil_append, nrun]
    exact fwdready_returns msgP idOf echoRest post _ r (ninv_fwd msgP idOf echoRest n r h) (narmed_fwd msgP idOf echoRest n ha) hc
  | cons a t ih =>
    cases a with
    | rdr =>
      simp only [List.cons_append, nrun]
      exact ih _ r (ninv_rdr msgP n r h) (narmed_rdr n ha) hc
    | fwd =>
      simp only [List.cons_append, nrun]
      exact ih _ r (ninv_fwd msgP idOf echoRest n r h) (Or.inl (narmed_fwd msgP idOf echoRest n ha)) hc
    | rpc p =>
      simp only [List.cons_append, nrun]
      rcases hs : rpcStep p n r with ⟨n2, r2 | res⟩
      · simp only
        obtain ⟨b1, _, b3, _⟩ := ninv_rpc msgP p n n2 r r2 h hs
        exact ih n2 r2 b1 (narmed_rpc msgP p n n2 r r2 h hs ha) (by omega)
      · simp only
        obtain ⟨e, he⟩ := ninv_rpc_result msgP p n n2 r res h hs
        exact ⟨n2, e, by rw [he]⟩

/-- every NETCONF tick contains a `Driver.read` step -/
theorem ntick_split (ord : Nat) : ∃ a b, ntick ord = a ++ .fwd :: b ∧ rpcCount a + rpcCount b = 1 := by
  unfold ntick
  split
  · exact ⟨[.rdr], [.rpc _], rfl, by simp [rpcCount]⟩
  · exact ⟨[.rdr, .rpc _], [], rfl, by simp [rpcCount]⟩
  · exact ⟨[], [.rdr, .rpc _], rfl, by simp [rpcCount]⟩
  · exact ⟨[], [.rpc _, .rdr], rfl, by simp [rpcCount]⟩
  · exact ⟨[.rpc _, .rdr], [], rfl, by simp [rpcCount]⟩
  · exact ⟨[.rpc _], [.rdr], rfl, by simp [rpcCount]⟩


theorem nrun_narmed (msgP : Bytes → Bool) (idOf : Bytes → Nat) (echoRest : Bytes → Option Bytes) (sched : List NActor) (n n1 : NSt)
    (r r1 : Rpc) (h : NInv msgP n r) (ha : NArmed n)
    (hr : nrun msgP idOf echoRest sched n r = (n1, .inl r1)) : NArmed n1 := by
  induction sched generalizing n r with
  | nil =>
    simp [nrun] at hr
    obtain ⟨h1, _⟩ := hr
    subst h1; exact ha
  | cons a t ih =>
    cases a with
    | rdr =>
      simp only [nrun] at hr
      exact ih _ r (ninv_rdr msgP n r h) (narmed_rdr n ha) hr
    | fwd =>
      simp only [nrun] at hr
      exact ih _ r (ninv_fwd msgP idOf echoRest n r h) (Or.inl (narmed_fwd msgP idOf echoRest n ha)) hr
    | rpc p =>
      simp only [nrun] at hr
      rcases hs : rpcStep p n r with ⟨n2, r2 | res⟩
      · rw [hs] at hr
        simp only at hr
        exact ih n2 r2 (ninv_rpc msgP p n n2 r r2 h hs).1 (narmed_rpc msgP p n n2 r r2 h hs ha) hr
      · rw [hs] at hr
        simp at hr

/-- with a dead transport, any stretch of schedule in which the channel's read goroutine runs once
    leaves the error on its way -/
theorem nrun_arms (msgP : Bytes → Bool) (idOf : Bytes → Nat) (echoRest : Bytes → Option Bytes) (a b : List NActor) (n n1 : NSt)
    (r r1 : Rpc) (h : NInv msgP n r) (h0 : n.ch.left = 0)
    (hr : nrun msgP idOf echoRest (a ++ .rdr :: b) n r = (n1, .inl r1)) : NArmed n1 := by
  rw [nrun_append] at hr
  rcases ha : nrun msgP idOf echoRest a n r with ⟨n2, r2 | res⟩
  · rw [ha] at hr
    simp only [nrun] at hr
    obtain ⟨i1, _, i3⟩ := nrun_inv msgP idOf echoRest a n n2 r r2 h ha
    exact nrun_narmed msgP idOf echoRest b _ n1 r2 r1 (ninv_rdr msgP n2 r2 i1)
      (Or.inr (rstep_arms n2.ch (i3 h0))) hr
  · rw [ha] at hr
    simp at hr

theorem ntick_split_rdr (ord : Nat) : ∃ a b, ntick ord = a ++ .rdr :: b := by
  unfold ntick
  split
  · exact ⟨[], [.fwd, .rpc _], rfl⟩
  · exact ⟨[], [.rpc _, .fwd], rfl⟩
  · exact ⟨[.fwd], [.rpc _], rfl⟩
  · exact ⟨[.fwd, .rpc _], [], rfl⟩
  · exact ⟨[.rpc _], [.fwd], rfl⟩
  · exact ⟨[.rpc _, .fwd], [], rfl⟩

end Scrapli.Loss
