import ScrapliModel.FileLines
/-! Lemmas about the file-line model (C13 from-file variants). Core Lean only. -/
namespace Scrapli.FileLines
open Scrapli

theorem splitLF_ne_nil' (b : Bytes) : splitLF b ≠ [] := by
  induction b with
  | nil => simp [splitLF]
  | cons x t ih =>
    simp only [splitLF]
    split
    · simp
    · split <;> simp

/-- a line without LF, followed by LF, is the first element of the split -/
theorem splitLF_line (l rest : Bytes) (h : LF ∉ l) :
    splitLF (l ++ LF :: rest) = l :: splitLF rest := by
  induction l with
  | nil =>
    simp only [List.nil_append, splitLF]
    cases hs : splitLF rest with
    | nil => exact absurd hs (splitLF_ne_nil' rest)
    | cons a t => simp
  | cons x l ih =>
    have hx : (x == LF) = false := by
      simp only [beq_eq_false_iff_ne, ne_eq]
      intro e; exact h (by simp [e])
    have hl : LF ∉ l := fun hm => h (List.mem_cons_of_mem _ hm)
    simp only [List.cons_append, splitLF, ih hl, hx, Bool.false_eq_true, if_false]

theorem splitLF_writeLines (ls : List Bytes) (h : ∀ l ∈ ls, LF ∉ l) :
    splitLF (writeLines ls) = ls ++ [[]] := by
  induction ls with
  | nil => simp [writeLines, splitLF]
  | cons l t ih =>
    simp only [writeLines]
    rw [splitLF_line l _ (h l (by simp)), ih (fun x hx => h x (List.mem_cons_of_mem _ hx))]
    simp

theorem rawLines_writeLines (ls : List Bytes) (h : ∀ l ∈ ls, LF ∉ l) :
    rawLines (writeLines ls) = ls := by
  unfold rawLines
  simp [splitLF_writeLines ls h]

theorem fitting_all (lim : Nat) (ls : List Bytes) (h : ∀ l ∈ ls, l.length < lim) : fitting lim ls = ls := by
  induction ls with
  | nil => rfl
  | cons l t ih =>
    simp [fitting, h l (by simp), ih (fun x hx => h x (List.mem_cons_of_mem _ hx))]

theorem fitting_stops (lim : Nat) (pre : List Bytes) (l : Bytes) (post : List Bytes)
    (hpre : ∀ x ∈ pre, x.length < lim) (hl : lim ≤ l.length) :
    fitting lim (pre ++ l :: post) = pre := by
  induction pre with
  | nil => simp [fitting]; omega
  | cons p t ih =>
    simp [fitting, hpre p (by simp), ih (fun x hx => hpre x (List.mem_cons_of_mem _ hx))]

end Scrapli.FileLines
