import ScrapliModel.Loss
/-! Helper lemmas for C06: what each step of the read goroutine / the operation preserves. -/
namespace Scrapli.Loss
open Scrapli Scrapli.Chan

/-! ## the read goroutine -/

theorem rstep_flat (s : St) :
    (rstep s).q.flatten ++ (rstep s).pending.flatten = s.q.flatten ++ s.pending.flatten := by
  unfold rstep
  split
  · rfl
  · rfl
  · split
    · split <;> rfl
    · split
      · rfl
      · rename_i hp
        split
        · simp [hp]
        · simp [hp, List.append_assoc]
          rw [← List.append_assoc (List.take _ _), List.take_append_drop]

theorem rstep_budget (s : St) :
    (rstep s).left + (rstep s).q.flatten.length = s.left + s.q.flatten.length := by
  unfold rstep
  split
  · rfl
  · rfl
  · split
    · split <;> simp
    · split
      · rfl
      · split
        · simp; omega
        · simp; omega

theorem rstep_unread (s : St) (o : Op) : unread (rstep s) o = unread s o := by
  unfold unread
  rw [List.append_assoc, rstep_flat, ← List.append_assoc]

theorem rstep_wleft (s : St) : (rstep s).wleft = s.wleft := by
  unfold rstep
  split
  · rfl
  · rfl
  · split
    · split <;> rfl
    · split
      · rfl
      · split <;> rfl

theorem rstep_left_zero (s : St) (h : s.left = 0) : (rstep s).left = 0 := by
  unfold rstep
  split
  · exact h
  · exact h
  · simp [h]; split <;> rfl

/-- the goroutine is blocked handing over an error, or has exited: the next `Channel.Read` fails -/
def Armed (s : St) : Prop := s.rd = .handing ∨ s.rd = .exited

theorem rstep_armed (s : St) (h : Armed s) : rstep s = s := by
  unfold rstep
  rcases h with h | h <;> simp [h]

theorem rstep_arms (s : St) (h : s.left = 0) : Armed (rstep s) := by
  unfold rstep Armed
  split
  · right; assumption
  · left; assumption
  · simp [h]; split <;> simp

/-- within one operation: once the loss has been reported the goroutine stays armed -/
def LostArmed (s : St) : Prop := s.lost = true → Armed s

theorem rstep_lostArmed (s : St) (h : LostArmed s) : LostArmed (rstep s) := by
  unfold LostArmed Armed at *
  unfold rstep
  split
  · exact h
  · exact h
  · split
    · split <;> simp
    · split
      · exact h
      · split <;> exact h

theorem rstep_lost_mono (s : St) (h : s.lost = true) : (rstep s).lost = true := by
  unfold rstep
  split
  · exact h
  · exact h
  · split
    · split <;> rfl
    · split
      · exact h
      · split <;> exact h

theorem lost_left (s : St) : (s.lost = true → s.left = 0) → ((rstep s).lost = true → (rstep s).left = 0) := by
  intro h
  unfold rstep
  split
  · exact h
  · exact h
  · split
    · rename_i h0; split <;> (intro _; exact h0)
    · split
      · exact h
      · split
        · intro hl
          have := h hl
          simp_all
        · intro _; rfl

/-! ## prefixes and exactness -/

theorem exactAt_prefix (P : Bytes → Bool) (a b : Bytes) (h : ExactAt P (a ++ b)) (hp : P a = true) :
    b = [] := by
  by_cases hb : b = []
  · exact hb
  · have hlen : a.length < (a ++ b).length := by
      have : 0 < b.length := List.length_pos_iff.mpr hb
      simp; omega
    have := h.2 a.length hlen
    rw [List.take_left' rfl] at this
    rw [hp] at this
    exact absurd this (by simp)

theorem flatten_eq_nil_length (l : List Bytes) (h : l.flatten = []) : l.flatten.length = 0 := by
  rw [h]; rfl


/-! ## `Channel.Read` / `Channel.Write` -/

theorem chRead_nil (s s' : St) (h : chRead s = (.nil, s')) : s' = s ∧ s.rd = .running ∧ s.q = [] := by
  unfold chRead at h
  split at h
  · simp at h
  · simp at h
  · split at h
    · simp at h; exact ⟨h.symm, by assumption, by assumption⟩
    · simp at h

theorem chRead_data (s s' : St) (c : Bytes) (h : chRead s = (.data c, s')) :
    s.rd = .running ∧ s.q = c :: s'.q ∧ s' = { s with q := s'.q } := by
  unfold chRead at h
  split at h
  · simp at h
  · simp at h
  · split at h
    · simp at h
    · rename_i hq
      simp at h
      obtain ⟨hc, hs⟩ := h
      subst hs; subst hc
      exact ⟨by assumption, hq, rfl⟩

theorem chRead_err (s s' : St) (e : Err) (h : chRead s = (.err e, s')) : Armed s := by
  unfold chRead at h
  unfold Armed
  split at h
  · left; assumption
  · right; assumption
  · split at h <;> simp at h

theorem chRead_armed (s : St) (h : Armed s) : ∃ e s', chRead s = (.err e, s') := by
  unfold chRead
  rcases h with h | h <;> simp [h]

theorem chWrite_ok (s s' : St) (b : Bytes) (react : List Bytes) (h : chWrite s b react = (true, s')) :
    s'.pending = s.pending ++ react ∧ s'.q = s.q ∧ s'.left = s.left ∧ s'.rd = s.rd ∧
    s'.lost = s.lost ∧ s'.kind = s.kind ∧
    (∀ w, s.wleft = some w → b.length ≤ w ∧ s'.wleft = some (w - b.length)) := by
  unfold chWrite at h
  split at h
  · simp at h; subst h; simp_all
  · split at h
    · simp at h; subst h
      rename_i w hw hle
      refine ⟨rfl, rfl, rfl, rfl, rfl, rfl, ?_⟩
      intro w' hw'
      rw [hw] at hw'
      cases hw'
      exact ⟨hle, rfl⟩
    · simp at h

theorem chWrite_fail (s s' : St) (b : Bytes) (react : List Bytes) (h : chWrite s b react = (false, s')) :
    ∃ w, s.wleft = some w ∧ w < b.length := by
  unfold chWrite at h
  split at h
  · simp at h
  · split at h
    · simp at h
    · rename_i w hw hle
      exact ⟨w, hw, by omega⟩

/-! ## the operation's step -/

/-- the four ways a step can leave the operation in flight -/
theorem ostep_inl (s s' : St) (o o' : Op) (h : ostep s o = (s', .inl o')) :
    (∃ b react rest, o.prog = .write b react :: rest ∧ chWrite s b react = (true, s') ∧
        o' = { o with prog := rest }) ∨
    (∃ P rest, o.prog = .read P :: rest ∧ chRead s = (.nil, s') ∧ o' = o) ∨
    (∃ P rest c, o.prog = .read P :: rest ∧ chRead s = (.data c, s') ∧ P (o.rb ++ c) = true ∧
        o' = { prog := rest, rb := [], outs := o.outs ++ [o.rb ++ c] }) ∨
    (∃ P rest c, o.prog = .read P :: rest ∧ chRead s = (.data c, s') ∧ P (o.rb ++ c) = false ∧
        o' = { o with rb := o.rb ++ c }) := by
  unfold ostep at h
  split at h
  · simp at h
  · rename_i b react rest hp
    split at h
    · simp at h
    · rename_i s1 hw
      simp at h
      obtain ⟨h1, h2⟩ := h
      subst h1; subst h2
      exact Or.inl ⟨b, react, rest, hp, hw, rfl⟩
  · rename_i P rest hp
    split at h
    · simp at h
    · rename_i s1 hr
      simp at h
      obtain ⟨h1, h2⟩ := h
      subst h1; subst h2
      exact Or.inr (Or.inl ⟨P, rest, hp, hr, rfl⟩)
    · rename_i c s1 hr
      split at h
      · rename_i hP
        simp at h
        obtain ⟨h1, h2⟩ := h
        subst h1; subst h2
        exact Or.inr (Or.inr (Or.inl ⟨P, rest, c, hp, hr, hP, rfl⟩))
      · rename_i hP
        simp at h
        obtain ⟨h1, h2⟩ := h
        subst h1; subst h2
        exact Or.inr (Or.inr (Or.inr ⟨P, rest, c, hp, hr, by simpa using hP, rfl⟩))

/-- the ways a step can make the operation return -/
theorem ostep_inr (s s' : St) (o : Op) (r : Res) (h : ostep s o = (s', .inr r)) :
    (o.prog = [] ∧ r = .ok o.outs ∧ s' = s) ∨
    (∃ b react rest, o.prog = .write b react :: rest ∧ chWrite s b react = (false, s') ∧
        r = .error .write) ∨
    (∃ P rest e, o.prog = .read P :: rest ∧ chRead s = (.err e, s') ∧ r = .error e) := by
  unfold ostep at h
  split at h
  · rename_i hp
    simp at h
    exact Or.inl ⟨hp, h.2.symm, h.1.symm⟩
  · rename_i b react rest hp
    split at h
    · rename_i s1 hw
      simp at h
      obtain ⟨h1, h2⟩ := h
      subst h1; subst h2
      exact Or.inr (Or.inl ⟨b, react, rest, hp, hw, rfl⟩)
    · simp at h
  · rename_i P rest hp
    split at h
    · rename_i e s1 hr
      simp at h
      obtain ⟨h1, h2⟩ := h
      subst h1; subst h2
      exact Or.inr (Or.inr ⟨P, rest, e, hp, hr, rfl⟩)
    · simp at h
    · split at h <;> simp at h


/-! ## invariants of a step that leaves the operation in flight -/

/-- the loss strikes before the lossless run would have consumed what it needs -/
def Starved (s : St) (o : Op) : Prop := budget s o < need (unread s o).length o.prog

theorem ostep_summary (s s' : St) (o o' : Op) (hE : Exact (unread s o) o.prog)
    (hs : ostep s o = (s', .inl o')) :
    Exact (unread s' o') o'.prog ∧
    need (unread s' o').length o'.prog + budget s o = need (unread s o).length o.prog + budget s' o' ∧
    o'.outs ++ ideal (unread s' o') o'.prog = o.outs ++ ideal (unread s o) o.prog ∧
    s'.left = s.left ∧ s'.lost = s.lost ∧ s'.kind = s.kind ∧ (s.rd = .running → s'.rd = .running) := by
  rcases ostep_inl s s' o o' hs with ⟨b, react, rest, hp, hw, ho⟩ | ⟨P, rest, hp, hr, ho⟩ |
    ⟨P, rest, c, hp, hr, hP, ho⟩ | ⟨P, rest, c, hp, hr, hP, ho⟩
  · obtain ⟨h1, h2, h3, h4, h5, h6, _⟩ := chWrite_ok s s' b react hw
    have hu : unread s' o' = unread s o ++ react.flatten := by
      subst ho; simp [unread, h1, h2]
    have hb : budget s' o' = budget s o := by subst ho; simp [budget, h3, h2]
    refine ⟨?_, ?_, ?_, h3, h5, h6, fun h => by rw [h4]; exact h⟩
    · subst ho; rw [hu]; rw [hp] at hE; simpa [Exact] using hE
    · subst ho; rw [hu, hb, hp]; simp [need, List.length_append]
    · subst ho; rw [hu, hp]; simp [ideal]
  · obtain ⟨h1, _, _⟩ := chRead_nil s s' hr
    subst h1; subst ho
    exact ⟨hE, rfl, rfl, rfl, rfl, rfl, id⟩
  · obtain ⟨hrd, hq, hs'⟩ := chRead_data s s' c hr
    have hu : unread s o = (o.rb ++ c) ++ (s'.q.flatten ++ s'.pending.flatten) := by
      rw [hs']; simp [unread, hq]
    rw [hp, hu] at hE
    obtain ⟨hex, hrest⟩ := hE
    have hnil := exactAt_prefix P _ _ hex hP
    have hq0 : s'.q.flatten = [] := (List.append_eq_nil_iff.mp hnil).1
    have hp0 : s'.pending.flatten = [] := (List.append_eq_nil_iff.mp hnil).2
    have hu' : unread s' o' = [] := by subst ho; simp [unread, hq0, hp0]
    have hl : s'.left = s.left := by rw [hs']
    refine ⟨by subst ho; rw [hu']; exact hrest, ?_, ?_, hl, by rw [hs'], by rw [hs'], fun _ => by rw [hs']; exact hrd⟩
    · rw [hu, hu', hp]
      subst ho
      simp only [need, budget, hq, hl, hq0, hp0, List.flatten_cons, List.length_append,
        List.length_nil, List.append_nil]
      omega
    · rw [hu, hu', hp]
      subst ho
      simp [ideal, hq0, hp0]
  · obtain ⟨hrd, hq, hs'⟩ := chRead_data s s' c hr
    have hu : unread s' o' = unread s o := by
      subst ho; rw [hs']; simp [unread, hq]
    have hl : s'.left = s.left := by rw [hs']
    refine ⟨by subst ho; rw [hu]; exact hE, ?_, by subst ho; rw [hu], hl, by rw [hs'], by rw [hs'], fun _ => by rw [hs']; exact hrd⟩
    rw [hu]
    subst ho
    simp only [budget, hq, hl, List.flatten_cons, List.length_append]
    omega

theorem ostep_starved (s s' : St) (o o' : Op) (hE : Exact (unread s o) o.prog)
    (hJ : Starved s o) (hs : ostep s o = (s', .inl o')) : Starved s' o' := by
  obtain ⟨_, h, _⟩ := ostep_summary s s' o o' hE hs
  unfold Starved at *
  omega

theorem rstep_budget' (s : St) (o : Op) : budget (rstep s) o = budget s o := by
  have := rstep_budget s
  unfold budget; omega

theorem rstep_starved (s : St) (o : Op) (h : Starved s o) : Starved (rstep s) o := by
  unfold Starved at *
  rw [rstep_unread, rstep_budget']; exact h

/-- a starved operation never runs out of program: it cannot return `ok` -/
theorem starved_prog_ne (s : St) (o : Op) (h : Starved s o) : o.prog ≠ [] := by
  intro hp
  unfold Starved at h
  rw [hp] at h
  simp [need] at h

theorem ostep_lostArmed (s s' : St) (o o' : Op) (hs : ostep s o = (s', .inl o'))
    (h : LostArmed s) : LostArmed s' := by
  rcases ostep_inl s s' o o' hs with ⟨b, react, rest, hp, hw, ho⟩ | ⟨P, rest, hp, hr, ho⟩ |
    ⟨P, rest, c, hp, hr, hP, ho⟩ | ⟨P, rest, c, hp, hr, hP, ho⟩
  · obtain ⟨_, _, _, h4, h5, _⟩ := chWrite_ok s s' b react hw
    unfold LostArmed Armed at *
    rw [h4, h5]; exact h
  · obtain ⟨h1, _, _⟩ := chRead_nil s s' hr
    subst h1; exact h
  · obtain ⟨hrd, _, hs'⟩ := chRead_data s s' c hr
    unfold LostArmed Armed at *
    rw [hs']; simp only
    intro hl
    have := h hl
    rw [hrd] at this
    simp at this
  · obtain ⟨hrd, _, hs'⟩ := chRead_data s s' c hr
    unfold LostArmed Armed at *
    rw [hs']; simp only
    intro hl
    have := h hl
    rw [hrd] at this
    simp at this


/-! ## runs -/

theorem run_append (l1 l2 : List Actor) (s : St) (o : Op) :
    run (l1 ++ l2) s o =
      match run l1 s o with
      | (s1, .inl o1) => run l2 s1 o1
      | (s1, .inr r) => (s1, .inr r) := by
  induction l1 generalizing s o with
  | nil => simp [run]
  | cons a t ih =>
    cases a with
    | rdr => simp only [List.cons_append, run]; exact ih _ _
    | op =>
      simp only [List.cons_append, run]
      rcases hs : ostep s o with ⟨s1, o1 | r⟩
      · simp only; exact ih _ _
      · simp only

/-- what every prefix of a run preserves while the operation is still in flight -/
theorem run_inv (sched : List Actor) (s s1 : St) (o o1 : Op)
    (hE : Exact (unread s o) o.prog) (hr : run sched s o = (s1, .inl o1)) :
    Exact (unread s1 o1) o1.prog ∧
    (Starved s o → Starved s1 o1) ∧
    (LostArmed s → LostArmed s1) ∧
    (s.left = 0 → s1.left = 0) ∧
    o1.outs ++ ideal (unread s1 o1) o1.prog = o.outs ++ ideal (unread s o) o.prog ∧
    (∃ pre, o.prog = pre ++ o1.prog) := by
  induction sched generalizing s o with
  | nil =>
    simp [run] at hr
    obtain ⟨h1, h2⟩ := hr
    subst h1; subst h2
    exact ⟨hE, id, id, id, rfl, [], rfl⟩
  | cons a t ih =>
    cases a with
    | rdr =>
      simp only [run] at hr
      obtain ⟨a1, a2, a3, a4, a5, a6⟩ := ih (rstep s) o (by rw [rstep_unread]; exact hE) hr
      refine ⟨a1, fun h => a2 (rstep_starved s o h), fun h => a3 (rstep_lostArmed s h),
        fun h => a4 (rstep_left_zero s h), ?_, a6⟩
      rw [a5, rstep_unread]
    | op =>
      simp only [run] at hr
      rcases hs : ostep s o with ⟨s2, o2 | r⟩
      · rw [hs] at hr
        simp only at hr
        obtain ⟨b1, b2, b3, b4, _, _, _⟩ := ostep_summary s s2 o o2 hE hs
        obtain ⟨a1, a2, a3, a4, a5, a6⟩ := ih s2 o2 b1 hr
        refine ⟨a1, fun h => a2 (ostep_starved s s2 o o2 hE h hs),
          fun h => a3 (ostep_lostArmed s s2 o o2 hs h), fun h => a4 (by rw [b4]; exact h), ?_, ?_⟩
        · rw [a5, b3]
        · obtain ⟨pre, hpre⟩ := a6
          rcases ostep_inl s s2 o o2 hs with ⟨b, react, rest, hp, _, ho⟩ | ⟨P, rest, hp, _, ho⟩ |
            ⟨P, rest, c, hp, _, _, ho⟩ | ⟨P, rest, c, hp, _, _, ho⟩
          · subst ho; exact ⟨.write b react :: pre, by rw [hp]; simpa using hpre⟩
          · subst ho; exact ⟨pre, hpre⟩
          · subst ho; exact ⟨.read P :: pre, by rw [hp]; simpa using hpre⟩
          · subst ho; exact ⟨pre, hpre⟩
      · rw [hs] at hr
        simp at hr

/-- a run that ends with a result: the state and operation just before the returning step -/
theorem run_result (sched : List Actor) (s s' : St) (o : Op) (r : Res)
    (hE : Exact (unread s o) o.prog) (hr : run sched s o = (s', .inr r)) :
    ∃ s1 o1, Exact (unread s1 o1) o1.prog ∧ (Starved s o → Starved s1 o1) ∧
      o1.outs ++ ideal (unread s1 o1) o1.prog = o.outs ++ ideal (unread s o) o.prog ∧
      ostep s1 o1 = (s', .inr r) := by
  induction sched generalizing s o with
  | nil => simp [run] at hr
  | cons a t ih =>
    cases a with
    | rdr =>
      simp only [run] at hr
      obtain ⟨s1, o1, a1, a2, a3, a4⟩ := ih (rstep s) o (by rw [rstep_unread]; exact hE) hr
      exact ⟨s1, o1, a1, fun h => a2 (rstep_starved s o h), by rw [a3, rstep_unread], a4⟩
    | op =>
      simp only [run] at hr
      rcases hs : ostep s o with ⟨s2, o2 | r2⟩
      · rw [hs] at hr
        simp only at hr
        obtain ⟨b1, _, b3, _⟩ := ostep_summary s s2 o o2 hE hs
        obtain ⟨s1, o1, a1, a2, a3, a4⟩ := ih s2 o2 b1 hr
        exact ⟨s1, o1, a1, fun h => a2 (ostep_starved s s2 o o2 hE h hs), by rw [a3, b3], a4⟩
      · rw [hs] at hr
        simp only at hr
        obtain ⟨h1, h2⟩ := Prod.mk.inj hr
        have h3 : r2 = r := Sum.inr.inj h2
        subst h1; subst h3
        exact ⟨s, o, hE, id, rfl, hs⟩

/-! ## adjacent writes, operation steps in a schedule -/

def opCount : List Actor → Nat
  | [] => 0
  | .rdr :: t => opCount t
  | .op :: t => opCount t + 1

theorem opCount_append (a b : List Actor) : opCount (a ++ b) = opCount a + opCount b := by
  induction a with
  | nil => simp [opCount]
  | cons x t ih => cases x <;> simp [opCount, ih] <;> omega

theorem opCount_ticks (ord : List Bool) : opCount (ticks ord) = ord.length := by
  induction ord with
  | nil => rfl
  | cons b t ih =>
    have : ticks (b :: t) = (if b then [Actor.rdr, .op] else [.op, .rdr]) ++ ticks t := by
      simp [ticks]
    rw [this, opCount_append, ih]
    cases b <;> simp [opCount] <;> omega

theorem ticks_append (a b : List Bool) : ticks (a ++ b) = ticks a ++ ticks b := by
  simp [ticks]

theorem adjWrites_le_max (p : List Phase) : adjWrites p ≤ maxAdjWrites p := by
  cases p with
  | nil => simp [adjWrites, maxAdjWrites]
  | cons a t => cases a <;> simp [adjWrites, maxAdjWrites]; omega

theorem maxAdjWrites_suffix (pre p : List Phase) : maxAdjWrites p ≤ maxAdjWrites (pre ++ p) := by
  induction pre with
  | nil => simp
  | cons a t ih =>
    cases a with
    | write b r => simp only [List.cons_append, maxAdjWrites]; omega
    | read P => simp only [List.cons_append, maxAdjWrites]; exact ih

/-- Once the read goroutine is armed, the operation returns an error within
    `adjWrites + 1` of its own steps, however the two goroutines interleave. -/
theorem armed_returns (sched : List Actor) (s : St) (o : Op) (ha : Armed s)
    (hE : Exact (unread s o) o.prog) (hJ : Starved s o)
    (hc : adjWrites o.prog < opCount sched) :
    ∃ s' e, run sched s o = (s', .inr (.error e)) := by
  induction sched generalizing s o with
  | nil => simp [opCount] at hc
  | cons a t ih =>
    cases a with
    | rdr =>
      simp only [run, rstep_armed s ha]
      exact ih s o ha hE hJ (by simpa [opCount] using hc)
    | op =>
      simp only [run]
      have hne := starved_prog_ne s o hJ
      rcases hs : ostep s o with ⟨s2, o2 | r⟩
      · simp only
        rcases ostep_inl s s2 o o2 hs with ⟨b, react, rest, hp, hw, ho⟩ | ⟨P, rest, hp, hr, ho⟩ |
          ⟨P, rest, c, hp, hr, hP, ho⟩ | ⟨P, rest, c, hp, hr, hP, ho⟩
        · obtain ⟨_, _, _, h4, _⟩ := chWrite_ok s s2 b react hw
          obtain ⟨b1, _⟩ := ostep_summary s s2 o o2 hE hs
          apply ih s2 o2 (by unfold Armed at *; rw [h4]; exact ha) b1
            (ostep_starved s s2 o o2 hE hJ hs)
          subst ho
          rw [hp] at hc
          simp only [adjWrites, opCount] at hc ⊢
          omega
        · obtain ⟨_, hrd, _⟩ := chRead_nil s s2 hr
          unfold Armed at ha; rw [hrd] at ha; simp at ha
        · obtain ⟨hrd, _, _⟩ := chRead_data s s2 c hr
          unfold Armed at ha; rw [hrd] at ha; simp at ha
        · obtain ⟨hrd, _, _⟩ := chRead_data s s2 c hr
          unfold Armed at ha; rw [hrd] at ha; simp at ha
      · simp only
        rcases ostep_inr s s2 o r hs with ⟨hp, _, _⟩ | ⟨b, react, rest, _, _, hr⟩ | ⟨P, rest, e, _, _, hr⟩
        · exact absurd hp hne
        · exact ⟨s2, .write, by rw [hr]⟩
        · exact ⟨s2, e, by rw [hr]⟩


/-! ## write errors -/

/-- the transport stops accepting bytes before the operation has written all it has to write -/
def WStarved (s : St) (o : Op) : Prop := ∃ w, s.wleft = some w ∧ w < wneed o.prog

theorem rstep_wstarved (s : St) (o : Op) (h : WStarved s o) : WStarved (rstep s) o := by
  unfold WStarved at *
  rw [rstep_wleft]; exact h

theorem ostep_wstarved (s s' : St) (o o' : Op) (hs : ostep s o = (s', .inl o'))
    (h : WStarved s o) : WStarved s' o' := by
  obtain ⟨w, hw, hlt⟩ := h
  rcases ostep_inl s s' o o' hs with ⟨b, react, rest, hp, hwr, ho⟩ | ⟨P, rest, hp, hr, ho⟩ |
    ⟨P, rest, c, hp, hr, hP, ho⟩ | ⟨P, rest, c, hp, hr, hP, ho⟩
  · obtain ⟨_, _, _, _, _, _, h7⟩ := chWrite_ok s s' b react hwr
    obtain ⟨hle, hw'⟩ := h7 w hw
    subst ho
    rw [hp] at hlt
    simp only [wneed] at hlt
    exact ⟨w - b.length, hw', by simp only; omega⟩
  · obtain ⟨h1, _, _⟩ := chRead_nil s s' hr
    subst h1; subst ho
    exact ⟨w, hw, hlt⟩
  · obtain ⟨_, _, hs'⟩ := chRead_data s s' c hr
    subst ho
    rw [hp] at hlt
    exact ⟨w, by rw [hs']; exact hw, by simpa [wneed] using hlt⟩
  · obtain ⟨_, _, hs'⟩ := chRead_data s s' c hr
    subst ho
    exact ⟨w, by rw [hs']; exact hw, hlt⟩

theorem wstarved_prog_ne (s : St) (o : Op) (h : WStarved s o) : o.prog ≠ [] := by
  intro hp
  obtain ⟨w, _, hlt⟩ := h
  rw [hp] at hlt
  simp [wneed] at hlt

theorem wstarved_never_ok (sched : List Actor) (s s' : St) (o : Op) (outs : List Bytes)
    (h : WStarved s o) : run sched s o ≠ (s', .inr (.ok outs)) := by
  induction sched generalizing s o with
  | nil => simp [run]
  | cons a t ih =>
    cases a with
    | rdr => simp only [run]; exact ih _ _ (rstep_wstarved s o h)
    | op =>
      simp only [run]
      rcases hs : ostep s o with ⟨s2, o2 | r⟩
      · simp only; exact ih _ _ (ostep_wstarved s s2 o o2 hs h)
      · simp only
        intro heq
        obtain ⟨h1, h2⟩ := Prod.mk.inj heq
        have h3 : r = .ok outs := Sum.inr.inj h2
        subst h3
        rcases ostep_inr s s2 o _ hs with ⟨hp, _, _⟩ | ⟨_, _, _, _, _, hr⟩ | ⟨_, _, _, _, _, hr⟩
        · exact wstarved_prog_ne s o h hp
        · simp at hr
        · simp at hr

theorem chWrite_fail_sticky (s s' : St) (b : Bytes) (react : List Bytes)
    (h : chWrite s b react = (false, s')) : s'.wleft = some 0 := by
  unfold chWrite at h
  split at h
  · simp at h
  · split at h
    · simp at h
    · simp at h; rw [← h]

end Scrapli.Loss
