import ScrapliModel.Netconf.Decode
import ScrapliModel.Lemmas.Bytes
namespace Scrapli.Netconf
open Scrapli

theorem parseSize_decDigits (n : Nat) (h : 0 < n) : parseSize (decDigits n) = some n := by
  have hne := decDigits_ne_nil n
  have hdig := decDigits_all_digits n
  cases hd : decDigits n with
  | nil => exact absurd hd hne
  | cons d0 dt =>
    have hd0 : isDigit d0 = true := hdig d0 (by simp [hd])
    have hb := isDigit_bounds d0 hd0
    have hne43 : d0 ≠ 43 := by intro e; subst e; simp at hb
    have hp := parseDec_decDigits n
    rw [hd] at hp
    unfold parseSize
    split
    · rename_i heq; simp at heq
    · rename_i ds heq; simp at heq; exact absurd heq.1 hne43
    · simp [hp]; omega

theorem takeHeader_digits (ds rest : Bytes) (k : Nat) (hd : ∀ b ∈ ds, isDigit b = true)
    (hk : ds.length ≤ k) : takeHeader k (ds ++ LF :: rest) = some (ds, rest) := by
  induction ds generalizing k with
  | nil => cases k <;> simp [takeHeader]
  | cons d t ih =>
    have hdl : (d == LF) = false := isDigit_ne d LF (hd d (by simp)) (by decide)
    cases k with
    | zero => simp at hk
    | succ k =>
      simp only [List.cons_append, takeHeader, hdl]
      rw [ih k (fun b hb => hd b (by simp [hb])) (by simpa using hk)]
      simp

theorem decodeLoop_chunk (k f : Nat) (c rest acc : Bytes) (hc0 : c ≠ []) (hc : c.length < 10 ^ k)
    (hk : 0 < k) :
    decodeLoop k (f + 2) (chunk c ++ rest) acc = decodeLoop k f rest (acc ++ c) := by
  have hne : decDigits c.length ≠ [] := decDigits_ne_nil _
  have hdig := decDigits_all_digits c.length
  have hpos : 0 < c.length := by cases c with | nil => exact absurd rfl hc0 | cons _ _ => simp
  obtain ⟨d0, dt, hd⟩ : ∃ d0 dt, decDigits c.length = d0 :: dt := by
    cases h : decDigits c.length with
    | nil => exact absurd h hne
    | cons a b => exact ⟨a, b, rfl⟩
  have hd0 : isDigit d0 = true := hdig d0 (by simp [hd])
  have hd0h : (d0 == HASH) = false := isDigit_ne d0 HASH hd0 (by decide)
  have hth : takeHeader k (decDigits c.length ++ LF :: (c ++ rest)) =
      some (decDigits c.length, c ++ rest) :=
    takeHeader_digits _ _ k hdig (decDigits_length_le_gen k _ hk hc)
  unfold chunk
  simp only [List.append_assoc, List.cons_append, List.nil_append]
  have h1 : (HASH == LF) = false := by decide
  have h2 : (HASH != HASH) = false := by decide
  have h0 : (LF == LF) = true := by decide
  rw [hd] at hth
  simp only [List.cons_append] at hth
  rw [hd]
  simp only [List.cons_append]
  show decodeLoop k (f + 1 + 1) (LF :: HASH :: d0 :: (dt ++ LF :: (c ++ rest))) acc = _
  simp only [decodeLoop, h0, h1, h2, hd0h, if_true, hth, Bool.false_eq_true, if_false]
  rw [← hd, parseSize_decDigits _ hpos]
  simp
  intro h; omega

theorem decodeLoop_frame (k : Nat) (hk : 0 < k) (cs : List Bytes) (f : Nat) (acc tail : Bytes)
    (hcs : ∀ c ∈ cs, c ≠ [] ∧ c.length < 10 ^ k) (hf : 2 * cs.length + 2 ≤ f) :
    decodeLoop k f ((cs.map chunk).flatten ++ LF :: HASH :: HASH :: tail) acc
      = .ok (acc ++ cs.flatten) := by
  induction cs generalizing f acc with
  | nil =>
    obtain ⟨f', rfl⟩ : ∃ f', f = f' + 2 := ⟨f - 2, by simp at hf; omega⟩
    simp [decodeLoop, LF, HASH]
  | cons c cs ih =>
    obtain ⟨f', rfl⟩ : ∃ f', f = f' + 2 := ⟨f - 2, by simp at hf; omega⟩
    simp only [List.map_cons, List.flatten_cons, List.append_assoc]
    rw [decodeLoop_chunk k f' c _ acc (hcs c (by simp)).1 (hcs c (by simp)).2 hk]
    rw [ih f' (acc ++ c) (fun x hx => hcs x (by simp [hx])) (by simp at hf; omega)]
    simp

theorem chunk_length (c : Bytes) : 4 ≤ (chunk c).length + 0 ∨ True := Or.inr trivial

theorem chunk_length' (c : Bytes) : 3 ≤ (chunk c).length := by
  unfold chunk
  have := decDigits_ne_nil c.length
  cases h : decDigits c.length with
  | nil => exact absurd h this
  | cons a b => simp

theorem frame_body_length (cs : List Bytes) : 3 * cs.length ≤ ((cs.map chunk).flatten).length := by
  induction cs with
  | nil => simp
  | cons c cs ih =>
    have h := chunk_length' c
    rw [List.map_cons, List.flatten_cons, List.length_append, List.length_cons]
    omega

/-- the decode loop only ever outputs bytes taken, in order, from its input -/
theorem decodeLoop_sublist (k f : Nat) (d acc r : Bytes) (h : decodeLoop k f d acc = .ok r) :
    ∃ s, s.Sublist d ∧ r = acc ++ s := by
  induction f generalizing d acc with
  | zero => simp [decodeLoop] at h
  | succ f ih =>
    cases d with
    | nil => simp [decodeLoop] at h
    | cons b t =>
      simp only [decodeLoop] at h
      split at h
      · obtain ⟨s, hs, hr⟩ := ih t acc h
        exact ⟨s, hs.trans (List.sublist_cons_self _ _), hr⟩
      · split at h
        · simp at h
        · split at h
          · simp at h
          · rename_i b2 t2
            split at h
            · simp only [Except.ok.injEq] at h
              exact ⟨[], List.nil_sublist _, by simp [h]⟩
            · split at h
              · simp at h
              · rename_i hd rest hth
                split at h
                · simp at h
                · rename_i n _
                  split at h
                  · simp at h
                  · obtain ⟨s, hs, hr⟩ := ih _ _ h
                    have hrest : rest.Sublist (b2 :: t2) := by
                      clear h hs hr ih
                      have : ∀ (k : Nat) (l hd rest : Bytes), takeHeader k l = some (hd, rest) →
                          rest.Sublist l := by
                        intro k
                        induction k with
                        | zero =>
                          intro l hd rest hh
                          cases l with
                          | nil => simp [takeHeader] at hh
                          | cons x xs =>
                            simp only [takeHeader] at hh
                            split at hh
                            · simp at hh; rw [← hh.2]; exact List.sublist_cons_self _ _
                            · simp at hh
                        | succ k ihk =>
                          intro l hd rest hh
                          cases l with
                          | nil => simp [takeHeader] at hh
                          | cons x xs =>
                            simp only [takeHeader] at hh
                            split at hh
                            · simp at hh; rw [← hh.2]; exact List.sublist_cons_self _ _
                            · simp only [Option.map_eq_some_iff] at hh
                              obtain ⟨⟨h', r'⟩, hh1, hh2⟩ := hh
                              simp at hh2
                              rw [← hh2.2]
                              exact (ihk xs h' r' hh1).trans (List.sublist_cons_self _ _)
                      exact this _ _ _ _ hth
                    refine ⟨rest.take n ++ s, ?_, by simp [hr]⟩
                    have h1 : (rest.take n ++ s).Sublist (rest.take n ++ rest.drop n) :=
                      List.Sublist.append (List.Sublist.refl _) hs
                    rw [List.take_append_drop] at h1
                    exact h1.trans (hrest.trans (List.sublist_cons_self _ _))

/-! ## rpc-error message scan -/

theorem hasPrefix_eq_append : ∀ (s p : Bytes), hasPrefix s p = true → s = p ++ s.drop p.length
  | _, [], _ => by simp
  | [], _ :: _, h => by simp [hasPrefix] at h
  | a :: s, b :: p, h => by
    simp only [hasPrefix, Bool.and_eq_true, beq_iff_eq] at h
    obtain ⟨hab, hp⟩ := h
    subst hab
    have := hasPrefix_eq_append s p hp
    simp only [List.cons_append, List.length_cons, List.drop_succ_cons]
    exact congrArg _ this

/-- `findTag` splits its subject at one of the tags -/
theorem findTag_split (tags : List Bytes) (s : Bytes) : ∀ (pre tg rest : Bytes),
    findTag tags s = some (pre, tg, rest) → s = pre ++ tg ++ rest ∧ tg ∈ tags := by
  induction s with
  | nil => intro pre tg rest h; simp [findTag] at h
  | cons b t ih =>
    intro pre tg rest h
    simp only [findTag] at h
    split at h
    · rename_i tg' hf
      simp only [Option.some.injEq, Prod.mk.injEq] at h
      obtain ⟨rfl, rfl, rfl⟩ := h
      have hp : hasPrefix (b :: t) tg' = true := by simpa using List.find?_some hf
      have hm := List.mem_of_find?_eq_some hf
      exact ⟨by simpa using hasPrefix_eq_append _ _ hp, hm⟩
    · cases hr : findTag tags t with
      | none => simp [hr] at h
      | some x =>
        obtain ⟨pre', tg', rest'⟩ := x
        simp only [hr, Option.map_some, Option.some.injEq, Prod.mk.injEq] at h
        obtain ⟨rfl, rfl, rfl⟩ := h
        have := ih _ _ _ hr
        exact ⟨by rw [List.cons_append, List.cons_append, ← this.1], this.2⟩

/-- every block the scan reports is an opening tag, some bytes and a closing tag, and it is a
contiguous piece of the subject -/
theorem errorBlocks_spec (f : Nat) : ∀ (s m : Bytes), m ∈ errorBlocks f s →
    (∃ a b, s = a ++ m ++ b) ∧
    ∃ o body c, o ∈ errOpenTags ∧ c ∈ errCloseTags ∧ m = o ++ body ++ c := by
  induction f with
  | zero => intro s m hm; simp [errorBlocks] at hm
  | succ f ih =>
    intro s m hm
    simp only [errorBlocks] at hm
    split at hm
    · simp at hm
    · rename_i pre otag rest ho
      split at hm
      · simp at hm
      · rename_i body ctag rest' hc
        obtain ⟨hs, hot⟩ := findTag_split _ _ _ _ _ ho
        obtain ⟨hr, hct⟩ := findTag_split _ _ _ _ _ hc
        simp only [List.mem_cons] at hm
        rcases hm with rfl | hm
        · exact ⟨⟨pre, rest', by rw [hs, hr]; simp⟩, otag, body, ctag, hot, hct, rfl⟩
        · obtain ⟨⟨a, b, hab⟩, hshape⟩ := ih rest' m hm
          exact ⟨⟨pre ++ otag ++ body ++ ctag ++ a, b, by rw [hs, hr, hab]; simp⟩, hshape⟩

end Scrapli.Netconf
