import ScrapliModel.Lemmas.HelloRender
/-!
`Open` over arbitrary read segmentations: the read-until-delimiter step returns the stream up to
the first chunk boundary at or after the end of the delimiter.
-/
namespace Scrapli.Netconf.Hello
open Scrapli Scrapli.Chan

theorem readUntil_at_first (P : Bytes → Bool) (pre : List Bytes) (c : Bytes) (rest : List Bytes)
    (acc : Bytes)
    (hpre : ∀ k, 0 < k → k ≤ pre.length → P (acc ++ (pre.take k).flatten) = false)
    (hc : P (acc ++ pre.flatten ++ c) = true) :
    readUntil P (pre ++ c :: rest) acc = some (acc ++ pre.flatten ++ c, rest) := by
  induction pre generalizing acc with
  | nil =>
    simp only [List.flatten_nil, List.append_nil] at hc
    simp [readUntil, hc]
  | cons x xs ih =>
    have h1 : P (acc ++ x) = false := by
      have := hpre 1 (by omega) (by simp)
      simpa using this
    simp only [List.cons_append, readUntil, h1, Bool.false_eq_true, if_false]
    rw [ih (acc ++ x)]
    · simp
    · intro k hk hk2
      have := hpre (k + 1) (by omega) (by simp; omega)
      simpa [List.append_assoc] using this
    · simpa [List.append_assoc] using hc

/-- every segmentation of a stream of at least `n > 0` bytes has a first chunk boundary at or
after `n` -/
theorem first_boundary (chunks : List Bytes) (n : Nat) (hn : 0 < n) (hlen : n ≤ chunks.flatten.length) :
    ∃ pre c rest, chunks = pre ++ c :: rest ∧
      (∀ k, k ≤ pre.length → (pre.take k).flatten.length < n) ∧
      n ≤ (pre.flatten ++ c).length := by
  induction chunks generalizing n with
  | nil => simp at hlen; omega
  | cons x xs ih =>
    by_cases hx : n ≤ x.length
    · refine ⟨[], x, xs, rfl, ?_, by simpa using hx⟩
      intro k _
      simpa using hn
    · have hx' : x.length < n := by omega
      simp only [List.flatten_cons, List.length_append] at hlen
      obtain ⟨pre, c, rest, he, hp, hc⟩ := ih (n - x.length) (by omega) (by omega)
      refine ⟨x :: pre, c, rest, by simp [he], ?_, ?_⟩
      · intro k hk
        cases k with
        | zero => simpa using hn
        | succ k =>
          have := hp k (by simpa using hk)
          simp only [List.take_succ_cons, List.flatten_cons, List.length_append]
          omega
      · simp only [List.flatten_cons, List.append_assoc, List.length_append] at hc ⊢
        omega

theorem flatten_take_prefix (pre : List Bytes) (k : Nat) :
    (pre.take k).flatten = pre.flatten.take (pre.take k).flatten.length := by
  induction pre generalizing k with
  | nil => simp
  | cons x xs ih =>
    cases k with
    | zero => simp
    | succ k =>
      simp only [List.take_succ_cons, List.flatten_cons, List.length_append]
      rw [List.take_append]
      simp only [Nat.le_add_right, List.take_of_length_le, Nat.add_sub_cancel_left]
      rw [← ih k]

/-- reading a segmented stream `S`: if `P` is false on every prefix shorter than `n` and true on
every prefix of length at least `n`, the read returns the prefix of `S` ending at the first chunk
boundary at or after `n` -/
theorem readUntil_stream (P : Bytes → Bool) (chunks : List Bytes) (S : Bytes) (n : Nat)
    (hS : chunks.flatten = S) (hn : 0 < n) (hlen : n ≤ S.length)
    (hfalse : ∀ k, k < n → P (S.take k) = false)
    (htrue : ∀ k, n ≤ k → k ≤ S.length → P (S.take k) = true) :
    ∃ m q, n ≤ m ∧ m ≤ S.length ∧ readUntil P chunks [] = some (S.take m, q) := by
  subst hS
  obtain ⟨pre, c, rest, he, hp, hc⟩ := first_boundary chunks n hn hlen
  have hflat : chunks.flatten = (pre.flatten ++ c) ++ rest.flatten := by rw [he]; simp
  have hflat2 : chunks.flatten = pre.flatten ++ (c ++ rest.flatten) := by rw [he]; simp
  have hle : (pre.flatten ++ c).length ≤ chunks.flatten.length := by
    have := congrArg List.length hflat
    rw [List.length_append] at this
    omega
  have htake : chunks.flatten.take (pre.flatten ++ c).length = pre.flatten ++ c := by
    rw [hflat]; exact List.take_left' rfl
  refine ⟨(pre.flatten ++ c).length, rest, hc, hle, ?_⟩
  rw [htake]
  have hgoal : readUntil P (pre ++ c :: rest) [] = some ([] ++ pre.flatten ++ c, rest) := by
    apply readUntil_at_first
    · intro k hk hk2
      have hlt := hp k hk2
      have h1 := flatten_take_prefix pre k
      have h2 : (pre.take k).flatten.length ≤ pre.flatten.length := by
        have := congrArg List.length h1
        rw [List.length_take] at this
        omega
      have h3 : (pre.take k).flatten = chunks.flatten.take (pre.take k).flatten.length := by
        rw [hflat2, List.take_append_of_le_length h2]
        exact h1
      rw [List.nil_append, h3]
      exact hfalse _ hlt
    · rw [List.nil_append, ← htake]
      exact htrue _ hc hle
  rw [he, hgoal]
  simp

/-! ## the delimiter predicate on prefixes of the stream -/

theorem window_suffix (rb : Bytes) (d : Nat) : ∃ a, rb = a ++ window rb d := by
  unfold window
  split
  · exact ⟨[], rfl⟩
  · simp only
    split
    · split
      · rename_i i _ _
        refine ⟨rb.take (rb.length - d) ++ (rb.drop (rb.length - d)).take i, ?_⟩
        rw [List.append_assoc, List.take_append_drop, List.take_append_drop]
      · exact ⟨rb.take (rb.length - d), (List.take_append_drop _ _).symm⟩
    · exact ⟨rb.take (rb.length - d), (List.take_append_drop _ _).symm⟩

theorem isInfix_of_suffix (n a b : Bytes) (h : isInfix n b = true) : isInfix n (a ++ b) = true := by
  obtain ⟨x, y, hxy⟩ := (isInfix_iff n b).mp h
  exact (isInfix_iff n _).mpr ⟨a ++ x, y, by simp [hxy]⟩

theorem isInfix_window (n rb : Bytes) (d : Nat) (h : isInfix n (window rb d) = true) :
    isInfix n rb = true := by
  obtain ⟨a, ha⟩ := window_suffix rb d
  rw [ha]
  exact isInfix_of_suffix n a _ h

/-- `indexOf` finds the leftmost occurrence -/
theorem indexOf_le (n : Bytes) : ∀ (a r : Bytes), ∃ i, i ≤ a.length ∧ indexOf n (a ++ n ++ r) = some i := by
  intro a
  induction a with
  | nil =>
    intro r
    refine ⟨0, Nat.le_refl _, ?_⟩
    have hp : hasPrefix (n ++ r) n = true := hasPrefix_append n r
    simp only [List.nil_append]
    generalize n ++ r = s at hp
    cases s with
    | nil =>
      cases n with
      | nil => simp [indexOf]
      | cons => simp [hasPrefix] at hp
    | cons b t => simp [indexOf, hp]
  | cons x xs ih =>
    intro r
    obtain ⟨i, hi, hidx⟩ := ih r
    simp only [List.cons_append, indexOf]
    split
    · exact ⟨0, Nat.zero_le _, rfl⟩
    · refine ⟨i + 1, by simp; omega, ?_⟩
      simp only [List.append_assoc] at hidx
      simp [hidx]

theorem no_early_delim (D H : Bytes) (h : delimFirstAtEnd D H = true) (k : Nat)
    (hk : k < H.length + D.length) : isInfix D ((H ++ D).take k) = false := by
  cases hinf : isInfix D ((H ++ D).take k) with
  | false => rfl
  | true =>
    exfalso
    obtain ⟨a, b, hab⟩ := (isInfix_iff D _).mp hinf
    have hfull : H ++ D = a ++ D ++ (b ++ (H ++ D).drop k) := by
      have := List.take_append_drop k (H ++ D)
      rw [hab, List.append_assoc (a ++ D) b] at this
      exact this.symm
    obtain ⟨i, hi, hidx⟩ := indexOf_le D a (b ++ (H ++ D).drop k)
    rw [← hfull] at hidx
    simp only [delimFirstAtEnd, beq_iff_eq] at h
    rw [h] at hidx
    simp only [Option.some.injEq] at hidx
    have hlen := congrArg List.length hab
    rw [List.length_take, List.length_append, List.length_append, List.length_append] at hlen
    omega

theorem take_stream (H D suffix : Bytes) (m : Nat) (hm : H.length + D.length ≤ m) :
    (H ++ D ++ suffix).take m = H ++ (D ++ suffix.take (m - (H.length + D.length))) := by
  rw [List.take_append, List.length_append]
  rw [List.take_of_length_le (by rw [List.length_append]; exact hm)]
  simp

/-! ## `Open` on a rendered hello over any segmentation -/

theorem delim_facts : Gen.Netconf.v1Dot0Delim ≠ [] ∧ (∀ b ∈ Gen.Netconf.v1Dot0Delim, b ≠ 60) := by
  decide

/-- once the read of the first message has returned a rendered hello followed by `<`-free text,
`Open` yields what the property demands -/
theorem openSession_of_read (pf : Bool) (delimP : Bytes → Bool) (depth : Nat) (ret pref : Bytes)
    (L : Layout) (s1 : Bytes) (chunks q : List Bytes)
    (hL : L.ok = true) (hpf : pf = false → L.pfx = [])
    (hs1 : ∀ b ∈ Gen.Netconf.v1Dot0Delim ++ s1, b ≠ 60)
    (hread : readUntil (fun rb => delimP (window rb depth)) chunks []
      = some (render L ++ (Gen.Netconf.v1Dot0Delim ++ s1), q)) :
    openSession (parseHelloScan pf) delimP depth ret pref chunks
      = specOpen (L.caps.map Prod.fst) L.sid pref ret q := by
  have hOK := L.ok_OK hL
  unfold openSession
  rw [hread]
  simp only [parseHelloScan, hasHelloScan_render L _ hOK, capsScan_render L _ hOK hs1,
    sidScan_render pf L _ hOK hs1 hpf, specOpen]
  simp only [Bool.not_true, Bool.false_eq_true, if_false]

theorem openSession_render (pf : Bool) (delimP : Bytes → Bool) (depth : Nat) (ret pref : Bytes)
    (L : Layout) (suffix : Bytes) (chunks : List Bytes)
    (hdelim : ∀ s, delimP s = isInfix Gen.Netconf.v1Dot0Delim s)
    (hL : L.ok = true) (hpf : pf = false → L.pfx = []) (hsuf : noLT suffix = true)
    (hchunks : chunks.flatten = render L ++ Gen.Netconf.v1Dot0Delim ++ suffix)
    (hearly : delimFirstAtEnd Gen.Netconf.v1Dot0Delim (render L) = true)
    (hwin : windowOK Gen.Netconf.v1Dot0Delim depth (render L) suffix = true) :
    ∃ q, openSession (parseHelloScan pf) delimP depth ret pref chunks
        = specOpen (L.caps.map Prod.fst) L.sid pref ret q := by
  have hOK := L.ok_OK hL
  obtain ⟨hDne, hDlt⟩ := delim_facts
  generalize hD : Gen.Netconf.v1Dot0Delim = D at *
  have hDpos : 0 < D.length := List.length_pos_iff.mpr hDne
  have hSlen : ((render L) ++ D ++ suffix).length = (render L).length + D.length + suffix.length := by
    rw [List.length_append, List.length_append]
  obtain ⟨m, q, hm1, hm2, hread⟩ := readUntil_stream (fun rb => delimP (window rb depth)) chunks
    (render L ++ D ++ suffix) ((render L).length + D.length) hchunks (by omega) (by omega)
    (by
      intro k hk
      simp only [hdelim]
      cases hw : isInfix D (window ((render L ++ D ++ suffix).take k) depth) with
      | false => rfl
      | true =>
        have h1 := isInfix_window _ _ _ hw
        rw [List.take_append_of_le_length (by rw [List.length_append]; omega)] at h1
        rw [no_early_delim D (render L) hearly k hk] at h1
        exact absurd h1 (by simp))
    (by
      intro k hk1 hk2
      simp only [hdelim]
      simp only [windowOK, List.all_eq_true, List.mem_range] at hwin
      have := hwin (k - ((render L).length + D.length)) (by omega)
      have e : (render L).length + D.length + (k - ((render L).length + D.length)) = k := by omega
      rw [e] at this
      exact this)
  refine ⟨q, ?_⟩
  have htail : ∀ b ∈ D ++ suffix.take (m - ((render L).length + D.length)), b ≠ 60 := by
    intro b hb
    simp only [List.mem_append] at hb
    rcases hb with hb | hb
    · exact hDlt b hb
    · exact (noLT_iff suffix).mp hsuf b (List.mem_of_mem_take hb)
  unfold openSession
  rw [hread, take_stream _ _ _ _ hm1]
  simp only [parseHelloScan, hasHelloScan_render L _ hOK, capsScan_render L _ hOK htail,
    sidScan_render pf L _ hOK htail hpf, specOpen]
  simp only [Bool.not_true, Bool.false_eq_true, if_false]

theorem isInfix_take_stream (H D suffix : Bytes) (k : Nat) (hk : H.length + D.length ≤ k) :
    isInfix D ((H ++ D ++ suffix).take k) = true := by
  rw [take_stream H D suffix k hk]
  exact (isInfix_iff D _).mpr ⟨H, suffix.take (k - (H.length + D.length)), by simp⟩

/-- `Open` through in-channel authentication, over every segmentation of what arrives after the
password: the login loop hands the hello over as one chunk, and the negotiation is what the
property demands -/
theorem openSessionAuth_render (pf : Bool) (delimP : Bytes → Bool) (depth : Nat) (ret pref : Bytes)
    (L : Layout) (suffix : Bytes) (chunks : List Bytes)
    (hdelim : ∀ s, delimP s = isInfix Gen.Netconf.v1Dot0Delim s)
    (hL : L.ok = true) (hpf : pf = false → L.pfx = []) (hsuf : noLT suffix = true)
    (hchunks : chunks.flatten = render L ++ Gen.Netconf.v1Dot0Delim ++ suffix)
    (hearly : delimFirstAtEnd Gen.Netconf.v1Dot0Delim (render L) = true)
    (hwin : windowOK Gen.Netconf.v1Dot0Delim depth (render L) suffix = true) :
    ∃ q, openSessionAuth (parseHelloScan pf) delimP depth ret pref chunks
        = specOpen (L.caps.map Prod.fst) L.sid pref ret q := by
  obtain ⟨hDne, hDlt⟩ := delim_facts
  generalize hD : Gen.Netconf.v1Dot0Delim = D at *
  have hDpos : 0 < D.length := List.length_pos_iff.mpr hDne
  have hSlen : ((render L) ++ D ++ suffix).length = (render L).length + D.length + suffix.length := by
    rw [List.length_append, List.length_append]
  obtain ⟨m, q, hm1, hm2, hread⟩ := readUntil_stream delimP chunks
    (render L ++ D ++ suffix) ((render L).length + D.length) hchunks (by omega) (by omega)
    (by
      intro k hk
      rw [hdelim, List.take_append_of_le_length (by rw [List.length_append]; omega)]
      exact no_early_delim D (render L) hearly k hk)
    (by
      intro k hk1 _
      rw [hdelim]
      exact isInfix_take_stream _ _ _ k hk1)
  refine ⟨q, ?_⟩
  have htail : ∀ b ∈ D ++ suffix.take (m - ((render L).length + D.length)), b ≠ 60 := by
    intro b hb
    simp only [List.mem_append] at hb
    rcases hb with hb | hb
    · exact hDlt b hb
    · exact (noLT_iff suffix).mp hsuf b (List.mem_of_mem_take hb)
  unfold openSessionAuth authTail
  rw [hread]
  simp only
  subst hD
  apply openSession_of_read pf delimP depth ret pref L _ _ q hL hpf htail
  have hw : delimP (window ((render L ++ Gen.Netconf.v1Dot0Delim ++ suffix).take m) depth) = true := by
    rw [hdelim]
    simp only [windowOK, List.all_eq_true, List.mem_range] at hwin
    have := hwin (m - ((render L).length + Gen.Netconf.v1Dot0Delim.length)) (by omega)
    have e : (render L).length + Gen.Netconf.v1Dot0Delim.length
        + (m - ((render L).length + Gen.Netconf.v1Dot0Delim.length)) = m := by omega
    rw [e] at this
    exact this
  rw [← take_stream _ _ _ _ hm1]
  simp only [readUntil, List.nil_append, hw, if_true]

end Scrapli.Netconf.Hello
