import ScrapliModel.Priv
import ScrapliModel.Generated.C04Operation
/-!
# PrivOptions: `network.NewOperation` — which privilege level an operation asks for

`SendConfig(s)` / `SendConfigsFromFile` / `SendInteractive` pass ALL their options to
`network.NewOperation`; options of the generic driver or the channel (`WithStopOnFailed`,
`WithTimeoutOps`, `WithNoStripPrompt`, …) answer `ErrIgnoredOption` there, and
`opoptions.WithPrivilegeLevel x` sets `PrivilegeLevel`. What one pass of the loop does per kind of
`err` is regenerated from the source (`Generated/C04Operation.lean`).
-/
namespace Scrapli.Priv
open Scrapli

/-- one operation option as `network.NewOperation` sees it -/
inductive Opt
  | level (l : Bytes)   -- `opoptions.WithPrivilegeLevel l`: sets the field, returns nil
  | ignored             -- an option of another layer: returns `ErrIgnoredOption`
  | bad                 -- an option that returns a real error
deriving DecidableEq, Repr

inductive LoopStep | next | brk | retErr | retOk | unknown
deriving DecidableEq, Repr

def stepOf (s : String) : LoopStep :=
  if s == "next" then .next else if s == "break" then .brk else if s == "return-error" then .retErr
  else if s == "return-ok" then .retOk else .unknown

structure LoopTable where
  onNil : LoopStep
  onIgnored : LoopStep
  onReal : LoopStep
deriving DecidableEq, Repr

/-- the loop of `NewOperation` over a table of per-outcome steps; `lvl` = `o.PrivilegeLevel` -/
def newOperationWith (t : LoopTable) : List Opt → Bytes → Except Unit Bytes
  | [], lvl => .ok lvl
  | o :: os, lvl =>
    let lvl' := match o with
      | .level x => x
      | _ => lvl
    let step := match o with
      | .level _ => t.onNil
      | .ignored => t.onIgnored
      | .bad => t.onReal
    match step with
    | .next => newOperationWith t os lvl'
    | .brk => .ok lvl'
    | .retOk => .ok lvl'
    | .retErr => .error ()
    | .unknown => .error ()

/-- the table as the source reads now -/
def sourceTable : LoopTable :=
  { onNil := stepOf Gen.C04Operation.onNil, onIgnored := stepOf Gen.C04Operation.onIgnored,
    onReal := stepOf Gen.C04Operation.onReal }

/-- `network.NewOperation(opts...).PrivilegeLevel` -/
def newOperation (opts : List Opt) : Except Unit Bytes := newOperationWith sourceTable opts []

end Scrapli.Priv
