import ScrapliModel.Options
/-!
# OptionsSpec: the declarative reading of the constructors (definitions only, no proofs)

`spec*` compute every field of the constructed driver on its own from the options that name it
(`fieldAfter`); `Props/C19.lean` proves `construct = specConfig` for every valid option list. The
model driver evaluates both (`model` vs `spec`), and the decidable hypothesis checkers
(`allValidB`, `compatB`).
-/
namespace Scrapli.Options
open Scrapli Scrapli.Gen.Options

/-- every option (no failing option among them) -/
def AllValid (opts : List OptInst) : Prop := ∀ o ∈ opts, errOf (spec o.opt) o = none


/-- result of one pass when nothing fails -/
def afterPass (T : Target) (opts : List OptInst) (c : Config) : Config :=
  fun f => fieldAfter T opts f (c f)

def afterPasses (ts : List Target) (opts : List OptInst) (c : Config) : Config :=
  ts.foldl (fun c T => afterPass T opts c) c


/-- the objects `generic.NewDriver` builds (depends on the transport type / custom transport the options select) -/
def genericReached (opts : List OptInst) (c : Config) : List Target :=
  [.generic_Driver, .transport_Args] ++
    transportTargets (afterPass .transport_Args opts
      (fillLogger .generic_Driver_Logger (afterPass .generic_Driver opts c))) ++ [.channel_Channel]


/-- decidable form of `Compat` (used by the model driver to evaluate the hypothesis per case) -/
def compatB (a b : OptInst) : Bool :=
  disjointKeys a b &&
    (match errOf (spec a.opt) a, errOf (spec b.opt) b with
     | some x, some y => x == y
     | _, _ => true)


def pairwiseB {α : Type} (r : α → α → Bool) : List α → Bool
  | [] => true
  | a :: l => l.all (r a) && pairwiseB r l


def allValidB (opts : List OptInst) : Bool := opts.all fun o => (errOf (spec o.opt) o).isNone


/-- `generic.NewDriver`, declaratively: each field is computed on its own -/
def specGeneric (opts : List OptInst) (c : Config) : Config := fun f =>
  if f = .generic_Driver_Logger then
    fillLogger .generic_Driver_Logger (afterPass .generic_Driver opts c) .generic_Driver_Logger
  else if f.target ∈ genericReached opts c then fieldAfter f.target opts f (c f) else c f


/-- `network.NewDriver`, declaratively -/
def specNetwork (opts : List OptInst) (c : Config) : Except Err Config :=
  let dp := fieldAfter .network_Driver opts .network_Driver_DefaultDesiredPriv (c .network_Driver_DefaultDesiredPriv)
  let pl := fieldAfter .network_Driver opts .network_Driver_PrivilegeLevels (c .network_Driver_PrivilegeLevels)
  if dp == [[]] || pl.isEmpty then .error .badOption
  else .ok fun f =>
    if f = .channel_Channel_PromptPattern then pl.map privPattern
    else if f.target = .network_Driver then fieldAfter .network_Driver opts f (c f)
    else specGeneric opts c f


/-- `netconf.NewDriver`, declaratively (options = the caller's followed by `withNetconfConnection(true)`) -/
def specNetconf (opts : List OptInst) (c : Config) : Config :=
  let opts' := opts ++ [netconfConnectionOpt]
  let g := specGeneric opts' c
  fun f =>
    if f = .channel_Channel_PromptPattern then [Gen.Netconf.v1Dot0Delim]
    else if f = .netconf_Driver_TransportType then
      fieldAfter .netconf_Driver opts' f (g .generic_Driver_TransportType)
    else if f = .netconf_Driver_Logger then
      (let v := fieldAfter .netconf_Driver opts' f (g .generic_Driver_Logger)
       if v == [tokNil] then [tokNoopLogger] else v)
    else if f.target = .netconf_Driver then fieldAfter .netconf_Driver opts' f (c f)
    else g f


/-- what the property demands of one element of the `options:` block: a value of the documented
type is accepted (whatever Go dynamic types the code happens to assert) -/
def platformOptSpec (name : Bytes) (v : YVal) : Option OptInst :=
  match findEntry name with
  | none => none
  | some e =>
    match e.opt with
    | none => none
    | some o =>
      if e.documented == "" then some { opt := o, args := [] }
      else if documentedGoType e.documented == some v.goType then some { opt := o, args := [renderY v e.conv] }
      else none

/-- `Platform.AsOptions` as the property demands it; `none` = some value is not of its documented
type or some name is not recognised (outside the property's quantifier) -/
def platformAsOptionsSpec (p : PlatformDef) : Option (List OptInst) := do
  let block ← p.options.mapM (fun nv => platformOptSpec nv.1 nv.2)
  some ((if p.failedWhenContains.isEmpty then [] else [{ opt := .WithFailedWhenContains, args := [p.failedWhenContains] }])
    ++ optOfTok .WithOnOpen p.onOpen ++ optOfTok .WithOnClose p.onClose
    ++ [{ opt := .WithPrivilegeLevels, args := [p.privilegeLevels] }, { opt := .WithDefaultDesiredPriv, args := [[p.defaultDesiredPriv]] }]
    ++ optOfTok .WithNetworkOnOpen p.networkOnOpen ++ optOfTok .WithNetworkOnClose p.networkOnClose
    ++ block)

/-- the declarative reading of each constructor -/
def specConfig (k : Ctor) (opts : List OptInst) (c : Config) : Except Err Config :=
  match k with
  | .generic => .ok (specGeneric opts c)
  | .network => specNetwork opts c
  | .netconf => .ok (specNetconf opts c)
  | .logging => .ok (afterPass .logging_Instance opts c)

/-- the options a constructor really applies (NETCONF adds its connection flag) -/
def effective (k : Ctor) (opts : List OptInst) : List OptInst :=
  match k with
  | .netconf => opts ++ [netconfConnectionOpt]
  | _ => opts

end Scrapli.Options
