import ScrapliModel.Options
import ScrapliModel.SshCfg
/-!
# OptionsSpec: the declarative reading of the constructors (definitions only, no proofs)

`spec*` compute every field of the constructed driver on its own from the options that name it
(`fieldAfter`); `Props/C19.lean` proves `construct = specConfig` for every valid option list. The
model driver evaluates both (`model` vs `spec`), and the decidable hypothesis checkers
(`allValidB`, `compatB`).
-/
namespace Scrapli.Options
open Scrapli Scrapli.Gen.Options

/-- every option (no failing option among them) -/
def AllValid (opts : List OptInst) : Prop := ∀ o ∈ opts, errOf (spec o.opt) o = none


/-- result of one pass when nothing fails -/
def afterPass (T : Target) (opts : List OptInst) (c : Config) : Config :=
  fun f => fieldAfter T opts f (c f)

def afterPasses (ts : List Target) (opts : List OptInst) (c : Config) : Config :=
  ts.foldl (fun c T => afterPass T opts c) c


/-- the objects `generic.NewDriver` builds (depends on the transport type / custom transport the options select) -/
def genericReached (opts : List OptInst) (c : Config) : List Target :=
  [.generic_Driver, .transport_Args] ++
    transportTargets (afterPass .transport_Args opts
      (fillLogger .generic_Driver_Logger (afterPass .generic_Driver opts c))) ++ [.channel_Channel]


/-- no option fails on any object of the given types: options that would fail only on an object
that is never built do not count (they are ignored there) -/
def ValidOn (ts : List Target) (opts : List OptInst) : Prop :=
  ∀ T ∈ ts, ∀ o ∈ opts, failsOn T o = none

def validOnB (ts : List Target) (opts : List OptInst) : Bool :=
  ts.all fun T => opts.all fun o => (failsOn T o).isNone

/-- the objects a constructor builds for this option list -/
def reached (k : Ctor) (opts : List OptInst) (c : Config) : List Target :=
  match k with
  | .generic => genericReached opts c
  | .network => genericReached opts c ++ [.network_Driver]
  | .netconf => genericReached (opts ++ [netconfConnectionOpt]) c ++ [.netconf_Driver]
  | .logging => [.logging_Instance]

/-- decidable form of `Compat` (used by the model driver to evaluate the hypothesis per case) -/
def compatB (a b : OptInst) : Bool :=
  disjointKeys a b &&
    (match errOf (spec a.opt) a, errOf (spec b.opt) b with
     | some x, some y => x == y
     | _, _ => true)


def pairwiseB {α : Type} (r : α → α → Bool) : List α → Bool
  | [] => true
  | a :: l => l.all (r a) && pairwiseB r l


def allValidB (opts : List OptInst) : Bool := opts.all fun o => (errOf (spec o.opt) o).isNone


/-- `generic.NewDriver`, declaratively: each field is computed on its own -/
def specGeneric (opts : List OptInst) (c : Config) : Config := fun f =>
  if f = .generic_Driver_Logger then
    fillLogger .generic_Driver_Logger (afterPass .generic_Driver opts c) .generic_Driver_Logger
  else if f.target ∈ genericReached opts c then fieldAfter f.target opts f (c f) else c f


/-- `network.NewDriver`, declaratively -/
def specNetwork (opts : List OptInst) (c : Config) : Except Err Config :=
  let dp := fieldAfter .network_Driver opts .network_Driver_DefaultDesiredPriv (c .network_Driver_DefaultDesiredPriv)
  let pl := fieldAfter .network_Driver opts .network_Driver_PrivilegeLevels (c .network_Driver_PrivilegeLevels)
  if dp == [[]] || pl.isEmpty then .error .badOption
  else .ok fun f =>
    if f = .channel_Channel_PromptPattern then pl.map privPattern
    else if f.target = .network_Driver then fieldAfter .network_Driver opts f (c f)
    else specGeneric opts c f


/-- `netconf.NewDriver`, declaratively (options = the caller's followed by `withNetconfConnection(true)`) -/
def specNetconf (opts : List OptInst) (c : Config) : Config :=
  let opts' := opts ++ [netconfConnectionOpt]
  let g := specGeneric opts' c
  fun f =>
    if f = .channel_Channel_PromptPattern then [Gen.Netconf.v1Dot0Delim]
    else if f = .netconf_Driver_TransportType then
      fieldAfter .netconf_Driver opts' f (g .generic_Driver_TransportType)
    else if f = .netconf_Driver_Logger then
      (let v := fieldAfter .netconf_Driver opts' f (g .generic_Driver_Logger)
       if v == [tokNil] then [tokNoopLogger] else v)
    else if f.target = .netconf_Driver then fieldAfter .netconf_Driver opts' f (c f)
    else g f


/-- what the property demands of one element of the `options:` block: a value of the documented
type is accepted (whatever Go dynamic types the code happens to assert) -/
def platformOptSpec (name : Bytes) (v : YVal) : Option OptInst :=
  match findEntry name with
  | none => none
  | some e =>
    match e.opt with
    | none => none
    | some o =>
      if e.documented == "" then some { opt := o, args := [] }
      else if documentedGoType e.documented == some v.goType then some { opt := o, args := [renderY v e.conv] }
      else none

/-- `Platform.AsOptions` as the property demands it; `none` = some value is not of its documented
type or some name is not recognised (outside the property's quantifier) -/
def platformAsOptionsSpec (p : PlatformDef) : Option (List OptInst) := do
  let block ← p.options.mapM (fun nv => platformOptSpec nv.1 nv.2)
  some ((if p.failedWhenContains.isEmpty then [] else [{ opt := .WithFailedWhenContains, args := [p.failedWhenContains] }])
    ++ optOfTok .WithOnOpen p.onOpen ++ optOfTok .WithOnClose p.onClose
    ++ [{ opt := .WithPrivilegeLevels, args := [p.privilegeLevels] }, { opt := .WithDefaultDesiredPriv, args := [[p.defaultDesiredPriv]] }]
    ++ optOfTok .WithNetworkOnOpen p.networkOnOpen ++ optOfTok .WithNetworkOnClose p.networkOnClose
    ++ block)

/-- the declarative reading of each constructor -/
def specConfig (k : Ctor) (opts : List OptInst) (c : Config) : Except Err Config :=
  match k with
  | .generic => .ok (specGeneric opts c)
  | .network => specNetwork opts c
  | .netconf => .ok (specNetconf opts c)
  | .logging => .ok (afterPass .logging_Instance opts c)

/-- the options a constructor really applies (NETCONF adds its connection flag) -/
def effective (k : Ctor) (opts : List OptInst) : List OptInst :=
  match k with
  | .netconf => opts ++ [netconfConnectionOpt]
  | _ => opts


/-! ## the expected rows of the regenerated tables (what every option is documented to do) -/

/-- For every option: the field(s) it assigns, replacing or appending, and where the value comes
from. `.param i` = the caller's i-th argument VERBATIM (only a Go type conversion such as
`[]byte(s)` in between); `.const` for the flag options; `.derived 0` for the three documented
normalisations (ssh config / known-hosts paths are resolved to an existing file, the log level is
lower-cased); `.fresh` for the values created inside (default logger, system default files). -/
def expectedRows : List (Opt × List Write) := [
  (.WithAuthBypass, [⟨.channel_Channel_AuthBypass, .set, .const [116,114,117,101]⟩]),
  (.WithAuthNoStrictKey, [⟨.transport_SSHArgs_StrictKey, .set, .const [102,97,108,115,101]⟩]),
  (.WithAuthPassphrase, [⟨.transport_SSHArgs_PrivateKeyPassPhrase, .set, .param 0⟩]),
  (.WithAuthPassword, [⟨.transport_Args_Password, .set, .param 0⟩]),
  (.WithAuthPrivateKey, [⟨.transport_SSHArgs_PrivateKeyPath, .set, .param 0⟩, ⟨.transport_SSHArgs_PrivateKeyPassPhrase, .set, .param 1⟩]),
  (.WithAuthSecondary, [⟨.network_Driver_AuthSecondary, .set, .param 0⟩]),
  (.WithAuthUsername, [⟨.transport_Args_User, .set, .param 0⟩]),
  (.WithChannelLog, [⟨.channel_Channel_ChannelLog, .set, .param 0⟩]),
  (.WithCustomTransport, [⟨.transport_Args_UserImplementation, .set, .param 0⟩]),
  (.WithDefaultDesiredPriv, [⟨.network_Driver_DefaultDesiredPriv, .set, .param 0⟩]),
  (.WithDefaultLogger, [⟨.generic_Driver_Logger, .set, .fresh⟩]),
  (.WithFailedWhenContains, [⟨.generic_Driver_FailedWhenContains, .set, .param 0⟩]),
  (.WithFileTransportFile, [⟨.transport_File_F, .set, .param 0⟩]),
  (.WithLogger, [⟨.generic_Driver_Logger, .set, .param 0⟩]),
  (.WithNetconfExcludeHeader, [⟨.netconf_Driver_ExcludeHeader, .set, .const [116,114,117,101]⟩]),
  (.WithNetconfForceSelfClosingTags, [⟨.netconf_Driver_ForceSelfClosingTags, .set, .const [116,114,117,101]⟩]),
  (.WithNetconfPreferredVersion, [⟨.netconf_Driver_PreferredVersion, .set, .param 0⟩]),
  (.WithNetworkOnClose, [⟨.network_Driver_OnClose, .set, .param 0⟩]),
  (.WithNetworkOnOpen, [⟨.network_Driver_OnOpen, .set, .param 0⟩]),
  (.WithOnClose, [⟨.generic_Driver_OnClose, .set, .param 0⟩]),
  (.WithOnOpen, [⟨.generic_Driver_OnOpen, .set, .param 0⟩]),
  (.WithPassphrasePattern, [⟨.channel_Channel_PassphrasePattern, .set, .param 0⟩]),
  (.WithPasswordPattern, [⟨.channel_Channel_PasswordPattern, .set, .param 0⟩]),
  (.WithPort, [⟨.transport_Args_Port, .set, .param 0⟩]),
  (.WithPrivilegeLevels, [⟨.network_Driver_PrivilegeLevels, .set, .param 0⟩]),
  (.WithPromptPattern, [⟨.channel_Channel_PromptPattern, .set, .param 0⟩]),
  (.WithPromptSearchDepth, [⟨.channel_Channel_PromptSearchDepth, .set, .param 0⟩]),
  (.WithReadDelay, [⟨.channel_Channel_ReadDelay, .set, .param 0⟩]),
  (.WithReturnChar, [⟨.channel_Channel_ReturnChar, .set, .param 0⟩]),
  (.WithSSHConfigFile, [⟨.transport_SSHArgs_ConfigFile, .set, .derived 0⟩]),
  (.WithSSHConfigFileSystem, [⟨.transport_SSHArgs_ConfigFile, .set, .fresh⟩]),
  (.WithSSHKnownHostsFile, [⟨.transport_SSHArgs_KnownHostsFile, .set, .derived 0⟩]),
  (.WithSSHKnownHostsFileSystem, [⟨.transport_SSHArgs_KnownHostsFile, .set, .fresh⟩]),
  (.WithStandardTransportExtraCiphers, [⟨.transport_Standard_ExtraCiphers, .set, .param 0⟩]),
  (.WithStandardTransportExtraKexs, [⟨.transport_Standard_ExtraKexs, .set, .param 0⟩]),
  (.WithSystemTransportOpenArgs, [⟨.transport_System_ExtraArgs, .append, .param 0⟩]),
  (.WithSystemTransportOpenArgsOverride, [⟨.transport_System_OpenArgs, .set, .param 0⟩]),
  (.WithSystemTransportOpenBin, [⟨.transport_System_OpenBin, .set, .param 0⟩]),
  (.WithTermHeight, [⟨.transport_Args_TermHeight, .set, .param 0⟩]),
  (.WithTermWidth, [⟨.transport_Args_TermWidth, .set, .param 0⟩]),
  (.WithTimeoutOps, [⟨.channel_Channel_TimeoutOps, .set, .param 0⟩]),
  (.WithTimeoutSocket, [⟨.transport_Args_TimeoutSocket, .set, .param 0⟩]),
  (.WithTransportReadSize, [⟨.transport_Args_ReadSize, .set, .param 0⟩]),
  (.WithTransportType, [⟨.generic_Driver_TransportType, .set, .param 0⟩]),
  (.WithUsernamePattern, [⟨.channel_Channel_UsernamePattern, .set, .param 0⟩]),
  (.logging_WithFormatter, [⟨.logging_Instance_Formatter, .set, .param 0⟩]),
  (.logging_WithLevel, [⟨.logging_Instance_Level, .set, .derived 0⟩]),
  (.logging_WithLogger, [⟨.logging_Instance_Loggers, .append, .param 0⟩]),
  (.withNetconfConnection, [⟨.transport_SSHArgs_NetconfConnection, .set, .param 0⟩])]

open Scrapli.Gen.PlatformOptions in
/-- For every platform option name: the option function it builds, the documented value type and
the ONLY conversion that may be applied to the YAML value on its way to the option. -/
def expectedPlatformRows : List (String × Opt × String × Conv) := [
  ("port", .WithPort, "an int", .direct),
  ("auth-bypass", .WithAuthBypass, "", .none),
  ("auth-strict-key", .WithAuthNoStrictKey, "", .none),
  ("prompt-pattern", .WithPromptPattern, "a string", .regexp),
  ("username-pattern", .WithUsernamePattern, "a string", .regexp),
  ("password-pattern", .WithPasswordPattern, "a string", .regexp),
  ("passphrase-pattern", .WithPassphrasePattern, "a string", .regexp),
  ("return-char", .WithReturnChar, "a string", .direct),
  ("read-delay", .WithReadDelay, "a float", .seconds),
  ("timeout-ops", .WithTimeoutOps, "a float", .seconds),
  ("transport-type", .WithTransportType, "a string", .direct),
  ("read-size", .WithTransportReadSize, "an int", .direct),
  ("transport-pty-height", .WithTermHeight, "an int", .direct),
  ("transport-pty-width", .WithTermWidth, "an int", .direct),
  ("transport-system-open-args", .WithSystemTransportOpenArgs, "an array of strings", .direct)]

/-- options whose regenerated row differs from the expected one (the correspondence directs its
search at these) -/
def changedOptionRows : List Opt :=
  (expectedRows.filter fun p => (spec p.1).writes != p.2).map (·.1)

open Scrapli.Gen.PlatformOptions in
/-- platform option names whose regenerated row differs from the expected one, or is missing -/
def changedPlatformRows : List String :=
  (expectedPlatformRows.filter fun p =>
    !(entries.any fun e => e.nameS == p.1 && e.opt == some p.2.1 && e.documented == p.2.2.1 && e.conv == p.2.2.2)).map (·.1)


/-! ## effect of the configuration where it acts: the argv of the system transport -/

def valStr (v : Val) : Bytes := match v with | [s] => s | _ => []

def valNat (v : Val) : Nat := (parseDec (valStr v)).getD 0

/-- decimal text (optional leading '-') → Int -/
def valInt (v : Val) : Int :=
  match valStr v with
  | 45 :: d => -((parseDec d).getD 0 : Nat)
  | d => ((parseDec d).getD 0 : Nat)

/-- What `(*System).Open` spawns for a constructed driver: the configuration's settings mapped
onto the C14 model of `buildOpenArgs` / `open` / `openNetconf` (`SshCfg.systemArgv`). -/
def argvOfConfig (host : Bytes) (c : Config) : List Bytes :=
  SshCfg.systemArgv
    { host := host, port := valInt (c .transport_Args_Port), user := valStr (c .transport_Args_User),
      password := valStr (c .transport_Args_Password), timeoutNs := valInt (c .transport_Args_TimeoutSocket) }
    { ssh := { strictKey := c .transport_SSHArgs_StrictKey == [tokTrue]
               privateKeyPath := valStr (c .transport_SSHArgs_PrivateKeyPath)
               privateKeyPassPhrase := valStr (c .transport_SSHArgs_PrivateKeyPassPhrase)
               configFile := valStr (c .transport_SSHArgs_ConfigFile)
               knownHostsFile := valStr (c .transport_SSHArgs_KnownHostsFile)
               netconf := c .transport_SSHArgs_NetconfConnection == [tokTrue] }
      extra := c .transport_System_ExtraArgs
      bin := valStr (c .transport_System_OpenBin)
      override := c .transport_System_OpenArgs }

end Scrapli.Options
