import ScrapliModel.Bytes
import ScrapliModel.Generated.Consts
import ScrapliModel.Generated.C13OptionLoops
/-!
# Failed: failure marking, aggregation and stop-on-failed (model for C13)

Mirrors, statement by statement,

* `util.StringContainsAnySubStrs`            (`util/strings.go`)            → `firstSubStr`
* `response.NewResponse` / `Response.Record` (`response/response.go`)       → `newResponse`, `Resp.record`
* `MultiResponse.AppendResponse`             (`response/multi.go`)          → `Multi.append`
* `generic.Driver.sendCommand`               (`driver/generic/sendcommand.go`)  → `sendCommand`
* `generic.Driver.SendCommands`              (`driver/generic/sendcommands.go`) → `sendLoop`, `sendCommands`
  (including the special-cased last element, which is sent outside the loop and is *not* followed
  by a stop-on-failed test)
* `network.Driver.SendConfig`                (`driver/network/sendconfig.go`)   → `collapse`, `sendConfig`

The device is a parameter: a deterministic causal transducer `Dev σ = σ → cmd → σ × output` with an
arbitrary state type, so "the answer to a command" may depend on everything sent before it. The
session state carries the device state and the log of transmitted commands (what the device
simulator's line log observes). Privilege navigation done by `network.Driver` before it delegates
to the generic driver is C04's subject and is not modelled here; the harness strips it from the
observed line log.

Core Lean only.
-/
namespace Scrapli.Failed
open Scrapli

/-- `response.OperationError` -/
structure OpErr where
  input : Bytes
  output : Bytes
  errStr : Bytes
deriving DecidableEq, Repr

/-- the dynamic type held by the `Failed error` field: `*OperationError` or `*MultiOperationError` -/
inductive Failure where
  | op (e : OpErr)
  | multi (es : List OpErr)
deriving DecidableEq, Repr

/-- `response.Response` (the fields the property talks about) -/
structure Resp where
  input : Bytes
  result : Bytes
  fwc : List Bytes
  failed : Option Failure
deriving DecidableEq, Repr

/-- `response.MultiResponse` -/
structure Multi where
  responses : List Resp
  failed : Option Failure
deriving DecidableEq, Repr

/-- `util.StringContainsAnySubStrs(s, l)`: the first element of `l` that is a substring of `s`,
or the empty string. (An empty string in `l` is a substring of everything, so it is "found" and
returned — and is indistinguishable from "nothing found".) -/
def firstSubStr (s : Bytes) : List Bytes → Bytes
  | [] => []
  | ss :: l => if isInfix ss s then ss else firstSubStr s l

/-- the specification-level predicate: does the output contain one of the failure strings -/
def failedBy (strs : List Bytes) (out : Bytes) : Bool := strs.any fun s => isInfix s out

/-- what the code marks: `StringContainsAnySubStrs(...) != ""` -/
def marks (strs : List Bytes) (out : Bytes) : Bool := !(firstSubStr out strs).isEmpty

/-- `response.NewResponse` -/
def newResponse (input : Bytes) (fwc : List Bytes) : Resp :=
  { input := input, result := [], fwc := fwc, failed := none }

/-- `(*Response).Record` -/
def Resp.record (r : Resp) (b : Bytes) : Resp :=
  let s := firstSubStr b r.fwc
  if s.isEmpty then { r with result := b }
  else { r with result := b, failed := some (.op { input := r.input, output := b, errStr := s }) }

/-- `response.NewMultiResponse` -/
def Multi.empty : Multi := { responses := [], failed := none }

/-- `(*MultiResponse).AppendResponse` -/
def Multi.append (m : Multi) (r : Resp) : Multi :=
  match r.failed with
  | some (.op re) =>
    -- `if mr.Failed == nil { mr.Failed = &MultiOperationError{} }`
    let f : Failure := match m.failed with
      | none => .multi []
      | some f => f
    -- `e, ok := mr.Failed.(*MultiOperationError); if ok { e.Operations = append(e.Operations, re) }`
    let f' : Failure := match f with
      | .multi es => .multi (es ++ [re])
      | other => other
    { responses := m.responses ++ [r], failed := some f' }
  | _ => { m with responses := m.responses ++ [r] }

/-! ## device and session -/

/-- a deterministic causal device: state × command ↦ new state × output -/
abbrev Dev (σ : Type) := σ → Bytes → σ × Bytes

/-- session: device state and the log of transmitted commands -/
structure Sess (σ : Type) where
  dev : σ
  log : List Bytes

/-- `generic.OperationOptions` -/
structure Op where
  fwc : List Bytes
  stop : Bool
deriving DecidableEq, Repr

/-- `generic.NewOperation(opts...)` for the two options the property names:
`opoptions.WithFailedWhenContains` (absent = `none`) and `opoptions.WithStopOnFailed`. -/
def newOperation (opFwc : Option (List Bytes)) (withStop : Bool) : Op :=
  let o : Op := { fwc := [], stop := Gen.Generic.defaultStopOnFailed }
  let o := match opFwc with
    | some l => { o with fwc := l }
    | none => o
  if withStop then { o with stop := true } else o

/-- one entry of the variadic operation-option list of a send call, as `generic.NewOperation`
sees it -/
inductive OpOpt where
  | fwc (l : List Bytes)  -- `opoptions.WithFailedWhenContains(l)`
  | stop                  -- `opoptions.WithStopOnFailed()`
  | foreign               -- an operation option of another layer (channel: `WithNoStripPrompt`,
                          -- `WithTimeoutOps`, …; network: `WithPrivilegeLevel`; netconf: `WithFilterType`, …):
                          -- answers `util.ErrIgnoredOption` on `*generic.OperationOptions`
  | bad                   -- an option that returns a real error
deriving DecidableEq, Repr

/-- applying one option to `*generic.OperationOptions` -/
def applyOpOpt : OpOpt → Op → OptLoop.Outcome Op
  | .fwc l, o => .ok { o with fwc := l }
  | .stop, o => .ok { o with stop := true }
  | .foreign, _ => .ignored
  | .bad, _ => .err

/-- `generic.NewOperation(opts...)` on the whole option list, with the loop as the source reads now
(`Gen.C13OptionLoops.generic`); `none` = an error is returned -/
def newOperationL (opts : List OpOpt) : Option Op :=
  OptLoop.run Gen.C13OptionLoops.generic applyOpOpt opts
    { fwc := [], stop := Gen.Generic.defaultStopOnFailed }

/-- what the caller asked for: the list of the last `WithFailedWhenContains` in the call, if any -/
def lastFwc : List OpOpt → Option (List Bytes)
  | [] => none
  | .fwc l :: xs => (match lastFwc xs with | some l' => some l' | none => some l)
  | _ :: xs => lastFwc xs

/-- what the caller asked for: is there a `WithStopOnFailed` in the call -/
def hasStop : List OpOpt → Bool
  | [] => false
  | .stop :: _ => true
  | _ :: xs => hasStop xs

/-- the failure strings in force: the operation's list when non-empty, otherwise the driver's -/
def effective (opStrs drvStrs : List Bytes) : List Bytes :=
  if opStrs.length == 0 then drvStrs else opStrs

/-- `(*generic.Driver).sendCommand`: note that it *updates* the shared operation options. -/
def sendCommand {σ : Type} (dev : Dev σ) (drv : List Bytes) (op : Op) (s : Sess σ) (cmd : Bytes) :
    Resp × Op × Sess σ :=
  let op' : Op := if op.fwc.length == 0 then { op with fwc := drv } else op
  let r := newResponse cmd op'.fwc
  -- `d.Channel.SendInput(command)`: the command is transmitted, the device answers
  let (d', b) := dev s.dev cmd
  (r.record b, op', { dev := d', log := s.log ++ [cmd] })

/-- the `for _, input := range commands[:len(commands)-1]` loop; the `Bool` says whether the
function returned from inside the loop (stop-on-failed hit) -/
def sendLoop {σ : Type} (dev : Dev σ) (drv : List Bytes) :
    List Bytes → Op → Multi → Sess σ → Multi × Op × Sess σ × Bool
  | [], op, m, s => (m, op, s, false)
  | c :: cs, op, m, s =>
    let (r, op', s') := sendCommand dev drv op s c
    let m' := m.append r
    if op'.stop && r.failed.isSome then (m', op', s', true)
    else sendLoop dev drv cs op' m' s'

/-- `(*generic.Driver).SendCommands`; `none` = `ErrNoOp` (empty command list) -/
def sendCommands {σ : Type} (dev : Dev σ) (drv : List Bytes) (op : Op) (s : Sess σ)
    (cmds : List Bytes) : Option Multi × Sess σ :=
  match cmds.getLast? with
  | none => (none, s)
  | some last =>
    let (m, op', s', early) := sendLoop dev drv cmds.dropLast op Multi.empty s
    if early then (some m, s')
    else
      let (r, _, s'') := sendCommand dev drv op' s' last
      (some (m.append r), s'')

/-- the collapsing part of `(*network.Driver).SendConfig` -/
def collapse (config : Bytes) (m : Multi) : Resp :=
  { input := config
    result := joinLF (m.responses.map (·.result))
    fwc := match m.responses with
      | r :: _ => r.fwc
      | [] => []   -- unreachable: Go would panic on `m.Responses[0]`; SendCommands never returns an empty multi
    failed := m.failed }

/-- `(*network.Driver).SendConfig` after privilege acquisition: split on LF, send, collapse -/
def sendConfig {σ : Type} (dev : Dev σ) (drv : List Bytes) (op : Op) (s : Sess σ)
    (config : Bytes) : Option Resp × Sess σ :=
  match sendCommands dev drv op s (splitLF config) with
  | (some m, s') => (some (collapse config m), s')
  | (none, s') => (none, s')

/-! ## specification side (used by the theorems and evaluated independently by the driver) -/

/-- the device's answers if *every* command of the list were sent in order -/
def answers {σ : Type} (dev : Dev σ) : σ → List Bytes → List Bytes
  | _, [] => []
  | d, c :: cs => (dev d c).2 :: answers dev (dev d c).1 cs

/-- index of the first `true` (length if none) -/
def firstTrue : List Bool → Nat
  | [] => 0
  | b :: t => if b then 0 else firstTrue t + 1

/-- how many commands the property allows to be transmitted -/
def sentCount (stop : Bool) (flags : List Bool) : Nat :=
  if stop then min flags.length (firstTrue flags + 1) else flags.length

/-- domain of the property: no empty failure string in force -/
def NoEmpty (strs : List Bytes) : Prop := ∀ s ∈ strs, s ≠ []

instance (strs : List Bytes) : Decidable (NoEmpty strs) := by unfold NoEmpty; infer_instance

/-- failure strings that cannot straddle a line joint -/
def NoLF (strs : List Bytes) : Prop := ∀ s ∈ strs, LF ∉ s

instance (strs : List Bytes) : Decidable (NoLF strs) := by unfold NoLF; infer_instance

end Scrapli.Failed
