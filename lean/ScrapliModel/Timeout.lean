import ScrapliModel.Channel
/-!
# Timeouts: a discrete-time semantics of the blocking operations

Sources: channel/channel.go (`GetTimeout`), channel/read.go (`ReadUntil*`), channel/sendinput.go,
channel/sendinteractive.go, channel/getprompt.go, channel/auth.go, driver/generic/sendwithcallbacks.go,
driver/netconf/rpc.go, driver/netconf/capabilities.go, driver/network/sendcommand.go.

Real time is not modelled. What is modelled is the logic every blocking loop follows:

* the deadline is tested at the head of every iteration (`select { case <-ctx.Done(): … default: }`);
* an iteration then either consumes one available chunk (`Channel.Read` returned bytes) and tests
  the completion predicate, or finds nothing and sleeps one read delay (`time.Sleep(c.ReadDelay)`),
  which advances the clock by one tick of `d` time units;
* the only way to leave the loop with success is the completion predicate.

A device emission is a *schedule*: a list of events, `some c` = the chunk `c` is available at this
iteration, `none` = nothing is available (one tick passes). After the end of the list the device
is silent for ever (it *stalled*). Every segmentation of the byte stream into reads and every
timing of the arrivals is some schedule, so quantifying over schedules quantifies over both.

A blocking operation is a `Prog`: a sequence of phases "write these bytes, then read until this
predicate holds", where what comes next may depend on what was read (interactive events, login
prompts, callbacks). The device reacts to the writes of a phase with the next schedule of the list
`St.rs` (the device is causal: nothing of that reaction exists before the write).
-/
namespace Scrapli.Timeout
open Scrapli Scrapli.Chan

/-- `Channel.GetTimeout` (durations are signed integers: nanoseconds): `-1` selects the
    connection-wide `TimeoutOps`, `0` the maximum, anything else is taken as it is. -/
def getTimeout (ops maxT t : Int) : Int :=
  if t = -1 then ops else if t = 0 then maxT else t

abbrev Sched := List (Option Bytes)

/-- the byte stream a schedule carries -/
def bytesOf : Sched → Bytes
  | [] => []
  | none :: s => bytesOf s
  | some c :: s => c ++ bytesOf s

/-- the chunks a schedule carries -/
def chunksOf : Sched → List Bytes
  | [] => []
  | none :: s => chunksOf s
  | some c :: s => c :: chunksOf s

/-- the device is silent: each iteration tests the deadline, finds the queue empty and sleeps one
    tick; returns the time at which the deadline test fires -/
def idle (d deadline : Nat) : Nat → Nat → Nat
  | 0, now => now
  | f + 1, now => if deadline ≤ now then now else idle d deadline f (now + d)

def idleUntil (d deadline now : Nat) : Nat := idle d deadline (deadline - now) now

/-- result of one `ReadUntil*`: `ok` = the predicate held, otherwise the deadline fired; `rb` = the
    bytes consumed so far, `t` = the time of return, `rest` = what the loop did not look at -/
structure RRes where
  ok : Bool
  rb : Bytes
  t : Nat
  rest : Sched

/-- `ReadUntilFuzzy / ReadUntilExplicit / ReadUntilPrompt / ReadUntilAnyPrompt` with their context:
    deadline test at the loop head, then one `Read`; a chunk is appended and the predicate tested,
    an empty read sleeps one tick. -/
def readUntilT (P : Bytes → Bool) (d deadline : Nat) : Sched → Nat → Bytes → RRes
  | [], now, rb => ⟨false, rb, idleUntil d deadline now, []⟩
  | ev :: s, now, rb =>
    if deadline ≤ now then ⟨false, rb, now, ev :: s⟩
    else match ev with
      | none => readUntilT P d deadline s (now + d) rb
      | some c =>
        if P (rb ++ c) then ⟨true, rb ++ c, now, s⟩ else readUntilT P d deadline s now (rb ++ c)

/-- canonical error classes (`util.Err*`) -/
inductive ErrClass where
  | timeout | connection | auth | privilege | netconf | operation | other
  deriving DecidableEq, Repr

/-- A blocking operation: `io ws P T k` writes `ws`, optionally restarts the deadline at
    `now + T` (a fresh `context.WithTimeout` / timer), reads until `P` holds of what this phase
    read, and continues with `k rb`. -/
inductive Prog (α : Type) where
  | ret (r : α) : Prog α
  | fail (e : ErrClass) : Prog α
  | io (ws : List Bytes) (P : Bytes → Bool) (T : Option Nat) (k : Bytes → Prog α) : Prog α

def Prog.bind {α β : Type} : Prog α → (α → Prog β) → Prog β
  | .ret r, f => f r
  | .fail e, _ => .fail e
  | .io ws P T k, f => .io ws P T (fun rb => (k rb).bind f)

inductive Out (α : Type) where
  | ok (r : α) : Out α
  | timeout : Out α
  | err (e : ErrClass) : Out α

/-- session state in model time -/
structure St where
  now : Nat := 0
  deadline : Nat := 0
  /-- emitted by the device, not yet consumed by any operation (in flight or queued) -/
  pend : Sched := []
  /-- the device's reactions to the phases still to come -/
  rs : List Sched := []
  writes : List Bytes := []
  consumed : Bytes := []

/-- the deadline in force during a phase: a fresh one when the phase creates a context / timer -/
def phaseDeadline (T : Option Nat) (st : St) : Nat :=
  match T with
  | some T => st.now + T
  | none => st.deadline

/-- the read loop of a phase: the device's reaction to the phase's writes joins what is pending -/
def phaseRead (d : Nat) (P : Bytes → Bool) (T : Option Nat) (st : St) : RRes :=
  readUntilT P d (phaseDeadline T st) (st.pend ++ st.rs.headD []) st.now []

/-- the state a phase leaves -/
def phaseSt (d : Nat) (ws : List Bytes) (P : Bytes → Bool) (T : Option Nat) (st : St) : St :=
  { now := (phaseRead d P T st).t, deadline := phaseDeadline T st, pend := (phaseRead d P T st).rest,
    rs := st.rs.tail, writes := st.writes ++ ws, consumed := st.consumed ++ (phaseRead d P T st).rb }

/-- run an operation: each phase writes, the device's reaction joins what is pending, the phase's
    read loop runs against that until its predicate or the deadline -/
def run {α : Type} (d : Nat) : Prog α → St → Out α × St
  | .ret r, st => (.ok r, st)
  | .fail e, st => (.err e, st)
  | .io ws P T k, st =>
    if (phaseRead d P T st).ok then run d (k (phaseRead d P T st).rb) (phaseSt d ws P T st)
    else (.timeout, phaseSt d ws P T st)

/-! ## the operations -/

/-- `Channel.SendInputB` (non-eager, no interim prompts, non-empty input) -/
def sendInputP (cfg : Cfg) (cmd : Bytes) (T : Nat) : Prog Bytes :=
  .io [cmd] (echoPred cfg cmd) (some T) fun _ =>
  .io [cfg.ret] (promptPred cfg) none fun rb =>
  .ret (processOut cfg rb)

/-- `Channel.GetPrompt` (`find` = `PromptPattern.Find`) -/
def getPromptP (cfg : Cfg) (find : Bytes → Bytes) (T : Nat) : Prog Bytes :=
  .io [cfg.ret] (promptPred cfg) (some T) fun rb => .ret (find rb)

/-- `ReadUntilAnyPrompt`'s predicate -/
def anyPromptPred (cfg : Cfg) (ps : List (Bytes → Bool)) (rb : Bytes) : Bool :=
  ps.any fun p => p (window rb cfg.depth)

structure Event where
  input : Bytes
  /-- compiled `ChannelResponse`; `none` = the empty string (then the channel prompt is used) -/
  resp : Option (Bytes → Bool)
  hidden : Bool

/-- `Channel.sendInteractive`; `T` is `some` only for the first phase (the context is created
    once); `b` accumulates what the events read -/
def interactiveP (cfg : Cfg) (complete : List (Bytes → Bool)) :
    List Event → Option Nat → Bytes → Prog Bytes
  | [], _, b => .ret (processOut { cfg with strip := false } b)
  | e :: es, T, b =>
    let prompts := complete ++ [e.resp.getD cfg.promptP]
    let afterRet (ws : List Bytes) (T : Option Nat) (b : Bytes) : Prog Bytes :=
      .io ws (anyPromptPred cfg prompts) T fun pb =>
        if !es.isEmpty && !complete.isEmpty && complete.any (fun p => p pb) then
          .ret (processOut { cfg with strip := false } (b ++ pb))
        else interactiveP cfg complete es none (b ++ pb)
    if e.resp.isSome && !e.hidden then
      .io [e.input] (echoPred cfg e.input) T fun nb => afterRet [cfg.ret] none (b ++ nb)
    else afterRet [e.input, cfg.ret] T b

/-- `Channel.authenticateTelnet` under `AuthenticateTelnet`'s timer. `ws` = what the previous
    iteration decided to send (user name / password, each followed by the return). -/
def authTelnetP (cfg : Cfg) (userP passP : Bytes → Bool) (u p : Bytes) (umax pmax : Nat) :
    Nat → List Bytes → Nat → Nat → Bytes → Option Nat → Prog Bytes
  | 0, _, _, _, _, _ => .fail .other
  | f + 1, ws, uc, pc, b, T =>
    .io ws (anyPromptPred cfg [cfg.promptP, userP, passP]) T fun nb =>
      let b' := b ++ nb
      if cfg.promptP b' then .ret b'
      else if userP b' then
        (if uc + 1 > umax then .fail .auth
         else authTelnetP cfg userP passP u p umax pmax f [u, cfg.ret] (uc + 1) pc [] none)
      else if passP b' then
        (if pc + 1 > pmax then .fail .auth
         else authTelnetP cfg userP passP u p umax pmax f [p, cfg.ret] uc (pc + 1) [] none)
      else authTelnetP cfg userP passP u p umax pmax f [] uc pc b' none

/-- `Channel.SendInputB` with its options: interim prompt patterns (`ReadUntilAnyPrompt` over the
    channel prompt and the interim ones instead of `ReadUntilPrompt`) and eager (no read after the
    return; the return itself is then not a phase of its own). -/
def sendInputXP (cfg : Cfg) (cmd : Bytes) (T : Nat) (interim : List (Bytes → Bool)) (eager : Bool) :
    Prog Bytes :=
  .io [cmd] (echoPred cfg cmd) (some T) fun _ =>
    if eager then .ret (processOut cfg [])
    else
      .io [cfg.ret]
        (if interim.isEmpty then promptPred cfg else anyPromptPred cfg (cfg.promptP :: interim)) none
        fun rb => .ret (processOut cfg rb)

/-- `Channel.authenticateSSH` under `AuthenticateSSH`'s timer: one read loop over the whole buffer
    `b` (no search window), which is reset whenever a secret has been sent. `sshErr` =
    `sshMessageHandler` found an error text, `passP` / `ppP` = password / passphrase prompt. -/
def authSSHP (cfg : Cfg) (sshErr passP ppP : Bytes → Bool) (p pp : Bytes) (pmax ppmax : Nat) :
    Nat → List Bytes → Nat → Nat → Option Nat → Prog Bytes
  | 0, _, _, _, _ => .fail .other
  | f + 1, ws, pc, ppc, T =>
    .io ws (fun b => sshErr b || cfg.promptP b || passP b || ppP b) T fun b =>
      if sshErr b then .fail .connection
      else if cfg.promptP b then .ret b
      else if passP b then
        (if pc + 1 > pmax then .fail .auth
         else authSSHP cfg sshErr passP ppP p pp pmax ppmax f [p, cfg.ret] (pc + 1) ppc none)
      else if ppP b then
        (if ppc + 1 > ppmax then .fail .auth
         else authSSHP cfg sshErr passP ppP p pp pmax ppmax f [pp, cfg.ret] pc (ppc + 1) none)
      else .fail .other

/-- `netconf.Driver.getServerCapabilities`: one read until the 1.0 delimiter, nothing written -/
def helloP (cfg : Cfg) (T : Nat) : Prog Bytes :=
  .io [] (promptPred cfg) (some T) fun rb => .ret rb

/-- `netconf.Driver.sendRPC`: the framed request is written, the caller waits on its timer until
    the session read loop has stored the reply carrying its message-id (`replyDone` of what the
    read loop consumed since the request; the read loop's buffer is empty at operation
    boundaries) -/
def rpcP (frame : List Bytes) (replyDone : Bytes → Bool) (T : Nat) : Prog Bytes :=
  .io frame replyDone (some T) fun rb => .ret rb

/-- Where the `*OperationOptions` handed to `sendRPC` comes from. Every public NETCONF operation
    (Get, GetConfig, EditConfig, CopyConfig, DeleteConfig, Lock, Unlock, Validate, Commit, Discard,
    RPC, EstablishPeriodicSubscription) is `sendRPC(message, options)`; they differ in the message
    and in how `options` was built. -/
inductive OptSource where
  /-- `NewOperation(opts...)`: `Timeout` starts as `defaultTimeout` and is overwritten by a
      `WithTimeoutOps t` among the options -/
  | newOperation (perOp : Option Int) : OptSource
  /-- a struct literal `&OperationOptions{…}`: `Timeout` is what the literal says (0 when absent) -/
  | literal (timeout : Int) : OptSource

/-- `op.Timeout` as `sendRPC` sees it (`dflt` = the package constant `defaultTimeout`) -/
def optTimeout (dflt : Int) : OptSource → Int
  | .newOperation none => dflt
  | .newOperation (some t) => t
  | .literal t => t

/-- the timer of `sendRPC`: `d.Channel.GetTimeout(op.Timeout)` -/
def rpcTimeout (ops maxT dflt : Int) (src : OptSource) : Int :=
  getTimeout ops maxT (optTimeout dflt src)

/-- a NETCONF operation of ANY kind: its framed message, its reply predicate, and the timeout its
    options source yields -/
def rpcOpP (frame : List Bytes) (replyDone : Bytes → Bool) (ops maxT dflt : Int) (src : OptSource) :
    Prog Bytes :=
  rpcP frame replyDone (rpcTimeout ops maxT dflt src).toNat

structure Callback where
  trig : Bytes → Bool
  complete : Bool
  reset : Bool
  /-- what the callback function writes -/
  send : List Bytes
  /-- `NextTimeout` (`none` = 0 = keep) -/
  next : Option Nat

/-- `generic.Driver.handleCallbacks / executeCallback` (as repaired: the caller waits for its
    reader goroutine): every stage restarts the deadline -/
def callbacksP (cbs : List Callback) : Nat → List Bytes → Bytes → Bytes → Nat → Prog Bytes
  | 0, _, _, _, _ => .fail .other
  | f + 1, ws, b, fb, T =>
    .io ws (fun rb => cbs.any fun cb => cb.trig (b ++ rb)) (some T) fun rb =>
      match cbs.find? (fun cb => cb.trig (b ++ rb)) with
      | none => .fail .other
      | some cb =>
        if cb.complete then .ret (fb ++ rb)
        else callbacksP cbs f cb.send (if cb.reset then [] else b ++ rb) (fb ++ rb) (cb.next.getD T)

/-- `network.Driver.AcquirePriv` reduced to two levels: read the prompt, stop when it is the
    target's, otherwise send the escalation command and look again -/
def acquireP (cfg : Cfg) (find : Bytes → Bytes) (isTarget : Bytes → Bool) (escalate : Bytes)
    (T : Nat) : Nat → Prog Unit
  | 0 => .fail .privilege
  | f + 1 =>
    (getPromptP cfg find T).bind fun p =>
      if isTarget p then .ret ()
      else (sendInputP cfg escalate T).bind fun _ => acquireP cfg find isTarget escalate T f

/-- operations run one after the other, each with its own context (the navigation steps of
    `AcquirePriv` — `GetPrompt`, escalate / de-escalate `SendInput` — followed by the payload
    sends); the result is the last one's -/
def seqP : List (Prog Bytes) → Prog Bytes
  | [] => .ret []
  | [p] => p
  | p :: q :: ps => p.bind fun _ => seqP (q :: ps)

/-! ## error mapping at the public boundary -/

/-- what a worker goroutine hands back to the waiting caller -/
inductive Worker (α : Type) where
  | ok (r : α) : Worker α
  | deadlineExceeded : Worker α
  | canceled : Worker α
  | err (e : ErrClass) : Worker α

/-- `SendInputB`, `SendInteractive`, `GetPrompt`, `getServerCapabilities`: the caller blocks on the
    worker's single result and maps `context.DeadlineExceeded` to the timeout error -/
def mapCtx {α : Type} : Worker α → Except ErrClass α
  | .ok r => .ok r
  | .deadlineExceeded => .error .timeout
  | .canceled => .error .other
  | .err e => .error e

/-- which arm of the caller's `select` fired -/
inductive Race (α : Type) where
  | worker (w : Worker α) : Race α
  | timer : Race α
  | errs (e : ErrClass) : Race α
  | closed : Race α

/-- `AuthenticateTelnet / AuthenticateSSH`: worker result or timer -/
def mapAuth {α : Type} : Race α → Except ErrClass α
  | .worker w => mapCtx w
  | .errs e => .error e
  | _ => .error .timeout

/-- `sendRPC`: transport error, timer, or reply -/
def mapRPC {α : Type} : Race α → Except ErrClass α
  | .worker w => mapCtx w
  | .errs e => .error e
  | _ => .error .timeout

/-- `handleCallbacks` (repaired): reader result, context done, or reader already gone -/
def mapCallbacks {α : Type} : Race α → Except ErrClass α
  | .worker w => mapCtx w
  | .errs e => .error e
  | .timer => .error .timeout
  | .closed => .error .timeout

/-- `network.Driver.SendCommand`: whatever made the implicit `AcquirePriv` fail is reported as a
    privilege error -/
def wrapAcquire {α : Type} (acq : Except ErrClass Unit) (cmd : Except ErrClass α) : Except ErrClass α :=
  match acq with
  | .error _ => .error .privilege
  | .ok _ => cmd

inductive OpKind where
  | sendInput | sendInteractive | getPrompt | auth | rpc | hello | callbacks
  deriving DecidableEq, Repr

/-- the model outcome seen through the operation's own error mapping: a deadline is
    `DeadlineExceeded` from the worker for the context-driven operations and the timer arm for the
    racing ones -/
def toPublic {α : Type} (kind : OpKind) (o : Out α) : Except ErrClass α :=
  match kind, o with
  | _, .ok r => .ok r
  | .auth, .timeout => mapAuth (.timer : Race α)
  | .rpc, .timeout => mapRPC (.timer : Race α)
  | .callbacks, .timeout => mapCallbacks (.timer : Race α)
  | _, .timeout => mapCtx (.deadlineExceeded : Worker α)
  | _, .err e => .error e

/-- `network.Driver.SendCommand` in model time: implicit acquire, then the command -/
def networkSendCommand (d : Nat) (acq : Prog Unit) (cmd : Prog Bytes) (st : St) :
    Except ErrClass Bytes × St :=
  match run d acq st with
  | (.ok _, st1) =>
    let r := run d cmd st1
    (wrapAcquire (.ok ()) (toPublic .sendInput r.1), r.2)
  | (o, st1) => (wrapAcquire (toPublic .getPrompt o) (.error .other), st1)

/-! ## the defect that was repaired (kept as a model of the code before the fix) -/

/-- `handleCallbacks` before the repair: the caller returned as soon as its context was done
    without waiting for the reader goroutine; a reader that had already passed its own
    `ctx.Done()` test (`late = true`) still performed one `Channel.Read` afterwards, taking the
    next available chunk away from whatever operation came next. Returns what is left pending
    after that late read. -/
def lateReaderAsIs (late : Bool) (pend : Sched) : Sched :=
  if late then
    match pend with
    | some _ :: s => s
    | s => s
  else pend

end Scrapli.Timeout
