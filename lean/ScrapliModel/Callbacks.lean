import ScrapliModel.Bytes
/-!
# Callback sends (driver/generic/sendwithcallbacks.go, driver/opoptions/callback.go)

`SendWithCallbacks` writes the input and then runs `handleCallbacks`: a reader goroutine polls
`Channel.Read`, appends what it got (possibly nothing) to the accumulated output `b` and to the
full output `fb`, and scans the callback list in order with `Callback.check`; the first callback
whose check holds is handed to `executeCallback`, which does the `Once` bookkeeping, calls the
user function with `string(b)`, returns `fb` when the callback is `Complete`, otherwise resets `b`
when `ResetOutput` is set, picks the next timeout and recurses into `handleCallbacks` (a new stage
with a fresh deadline). A stage that sees no triggering arrival before its deadline ends the
operation with a timeout error.

Modelling conventions.
* The **arrival history** is an input: a list of `Arrival`s, each the result of one poll that
  matters (`data = []` is a poll that found the queue empty: the code still re-scans the callbacks
  on the unchanged accumulation) together with the time `gap` since the previous arrival of the
  same stage (since the stage began, for the first one). A callback's side effect on the device
  (it usually writes a reply) shows up as later arrivals. Running out of arrivals means the device
  stays silent for ever: the stage deadline fires.
* The user regex (`ContainsRe.Match`) is an abstract predicate `re : Bytes → Bool`; `hasRe` says
  whether `ContainsRe != nil`.
* `bytes.ToLower` is modelled as a function of the WHOLE text (`fold`), faithful on ASCII, two-byte
  Latin-1 letters, caseless three-byte characters and truncated sequences (`inFoldAlphabet`); other
  texts are outside the correspondence domain. The trigger looks at `fold acc` of the complete
  accumulation, never at a concatenation of per-read folds.
* The check function is a parameter of `step`/`run`, so the same loop is instantiated with
  `check` (the code with the repaired not-contains guard), `checkAsIs` (the code as it stands,
  DESIGN §6 F10) and `trigger` (the property's wording).
-/
namespace Scrapli.Cb
open Scrapli

/-- ASCII `unicode.ToLower` on one byte -/
def toLowerByte (b : UInt8) : UInt8 :=
  if 65 ≤ b.toNat && b.toNat ≤ 90 then UInt8.ofNat (b.toNat + 32) else b

/-- UTF-8 continuation byte -/
def isCont (b : UInt8) : Bool := 128 ≤ b.toNat && b.toNat ≤ 191

/-- second byte of `C3 xx` = U+00C0…U+00FF: the upper-case letters À…Ö, Ø…Þ (not ×) map to +0x20 -/
def lowerLatin1 (x : UInt8) : UInt8 :=
  if 128 ≤ x.toNat && x.toNat ≤ 158 && x.toNat != 151 then UInt8.ofNat (x.toNat + 32) else x

/-- the replacement character U+FFFD as `bytes.Map` writes it for every invalid byte -/
def runeError : Bytes := [239, 191, 189]

/-- one decoding step of `bytes.Map(unicode.ToLower, ·)`: how many bytes the first rune takes and
what is written for it -/
def foldHead (b : UInt8) (rest : Bytes) : Nat × Bytes :=
  if b.toNat < 128 then (1, [toLowerByte b])
  else match rest with
    | x :: rest' =>
      if b.toNat == 195 && isCont x then (2, [b, lowerLatin1 x])
      else match rest' with
        | y :: _ =>
          if 227 ≤ b.toNat && b.toNat ≤ 233 && isCont x && isCont y then (3, [b, x, y])
          else (1, runeError)
        | [] => (1, runeError)
    | [] => (1, runeError)

/-- rune by rune, fuel = number of bytes -/
def foldAux : Nat → Bytes → Bytes
  | 0, _ => []
  | _, [] => []
  | n + 1, b :: rest =>
    let (w, out) := foldHead b rest
    out ++ foldAux n ((b :: rest).drop w)

/-- `bytes.ToLower` of a WHOLE text, as Go computes it (`bytes.Map(unicode.ToLower, ·)`: decode rune
by rune, an undecodable byte becomes U+FFFD), faithful on the byte alphabet `inFoldAlphabet`:
ASCII, the two-byte Latin-1 letters `C3 xx` (É/é, Ü/ü, …), the caseless three-byte characters
U+3000…U+9FFF (`E3..E9 xx xx`: kana, CJK) and stray / truncated bytes. Folding is NOT a byte map and
NOT a homomorphism for concatenation: a character cut in two folds to two U+FFFD, which is why the
trigger must be evaluated on the fold of the whole accumulated output. -/
def fold (l : Bytes) : Bytes := foldAux l.length l

/-- bytes on which `fold` is `bytes.ToLower`: no lead byte other than `C3`, `E3…E9` -/
def inFoldAlphabet (b : Bytes) : Bool :=
  b.all fun x => x.toNat < 192 || x.toNat == 195 || (227 ≤ x.toNat && x.toNat ≤ 233)

/-- `generic.Callback` (the user function is reduced to "does it return an error") -/
structure Callback where
  contains : Bytes            -- Contains ("" = unset)
  notContains : Bytes         -- NotContains ("" = unset)
  hasRe : Bool                -- ContainsRe != nil
  re : Bytes → Bool           -- ContainsRe.Match
  insensitive : Bool          -- Insensitive (NewCallback default: true)
  resetOutput : Bool          -- ResetOutput (NewCallback default: true)
  once : Bool                 -- Once
  complete : Bool             -- Complete
  nextTimeout : Nat           -- NextTimeout (0 = keep the current one)
  fnErr : Bool                -- the user function returns an error

/-- the text the comparisons look at: `b = bytes.ToLower(b)` when `Insensitive` -/
def Callback.view (cb : Callback) (b : Bytes) : Bytes := if cb.insensitive then fold b else b
/-- `Callback.contains()` -/
def Callback.containsB (cb : Callback) : Bytes := if cb.insensitive then fold cb.contains else cb.contains
/-- `Callback.notContains()` -/
def Callback.notContainsB (cb : Callback) : Bytes :=
  if cb.insensitive then fold cb.notContains else cb.notContains

/-- positive half of the trigger as the property words it: contains the text or matches the
    pattern (on the folded output unless the callback is case sensitive) -/
def positive (cb : Callback) (acc : Bytes) : Bool :=
  (!cb.contains.isEmpty && isInfix cb.containsB (cb.view acc)) || (cb.hasRe && cb.re (cb.view acc))

/-- the output contains the not-contains text -/
def forbidden (cb : Callback) (acc : Bytes) : Bool :=
  !cb.notContains.isEmpty && isInfix cb.notContainsB (cb.view acc)

/-- THE TRIGGER AS THE PROPERTY STATES IT: contains its text (case-folded by default) or its
    pattern matches the (folded) text, and does not contain its not-contains text. -/
def trigger (cb : Callback) (acc : Bytes) : Bool := positive cb acc && !forbidden cb acc

/-- `Callback.check` **as the source computes it today** (F10): the guard reads
    `!(NotContains != "" && !bytes.Contains(b, notContains()))`. -/
def checkAsIs (cb : Callback) (b : Bytes) : Bool :=
  let b := cb.view b
  if (!cb.contains.isEmpty && isInfix cb.containsB b) &&
      !(!cb.notContains.isEmpty && !isInfix cb.notContainsB b) then true
  else if (cb.hasRe && cb.re b) &&
      !(!cb.notContains.isEmpty && !isInfix cb.notContainsB b) then true
  else false

/-- `Callback.check` with the repaired guard `!(NotContains != "" && bytes.Contains(b, notContains()))`,
    same statement structure as the source -/
def check (cb : Callback) (b : Bytes) : Bool :=
  let b := cb.view b
  if (!cb.contains.isEmpty && isInfix cb.containsB b) &&
      !(!cb.notContains.isEmpty && isInfix cb.notContainsB b) then true
  else if (cb.hasRe && cb.re b) &&
      !(!cb.notContains.isEmpty && isInfix cb.notContainsB b) then true
  else false

/-- `for i, cb := range callbacks { if cb.check(b) { … return } }`: index of the first callback
    whose check holds -/
def firstIdx (chk : Callback → Bytes → Bool) (acc : Bytes) : List Callback → Option Nat
  | [] => none
  | cb :: rest => if chk cb acc then some 0 else (firstIdx chk acc rest).map (· + 1)

/-- one poll result -/
structure Arrival where
  gap : Nat        -- time since the previous arrival of this stage / since the stage began
  data : Bytes     -- what `Channel.Read` returned (`[]`: nothing queued)

/-- how the operation ends -/
inductive Outcome
  | complete (full : Bytes)   -- a `Complete` callback ran: `Response.Result` source bytes = `fb`
  | onceError                 -- ErrOperationError: once-callback triggered again
  | fnError                   -- the user function's own error
  | timeout                   -- ErrTimeoutError
  deriving Repr, DecidableEq

/-- loop state between polls -/
structure St where
  fired : List Nat    -- indices of `Once` callbacks whose `triggered` flag is set
  t : Nat             -- timeout of the current stage
  el : Nat            -- time already spent in the current stage
  acc : Bytes         -- `b`: output accumulated since the last reset
  full : Bytes        -- `fb`: output since the start of the operation

/-- an executed callback: index in the list and the argument its function received -/
abbrev Event := Nat × Bytes

inductive StepRes
  | cont (s : St) (ev : Option Event)        -- keep polling (after running a callback, or not)
  | done (fired : List Nat) (ev : Option Event) (o : Outcome)   -- the operation returns

/-- `executeCallback` for callback `i` (`cb`) with accumulated `acc'` / full `full'` -/
def execute (s : St) (i : Nat) (cb : Callback) (acc' full' : Bytes) : StepRes :=
  if cb.once && s.fired.contains i then .done s.fired none .onceError
  else
    -- the `triggered` flag is set before the function runs, also when it errors / completes
    let fired' := if cb.once then i :: s.fired else s.fired
    if cb.fnErr then .done fired' (some (i, acc')) .fnError
    else if cb.complete then .done fired' (some (i, acc')) (.complete full')
    else .cont { fired := fired',
                 t := if cb.nextTimeout != 0 then cb.nextTimeout else s.t,
                 el := 0,
                 acc := if cb.resetOutput then [] else acc',
                 full := full' } (some (i, acc'))

/-- one arrival: deadline test, append, scan, execute the first triggered callback -/
def step (chk : Callback → Bytes → Bool) (cbs : List Callback) (s : St) (a : Arrival) : StepRes :=
  if s.t ≤ s.el + a.gap then .done s.fired none .timeout
  else
    let acc' := s.acc ++ a.data
    let full' := s.full ++ a.data
    match firstIdx chk acc' cbs with
    | none => .cont { s with el := s.el + a.gap, acc := acc', full := full' } none
    | some i =>
      match cbs[i]? with
      | none => .done s.fired none .timeout   -- unreachable: firstIdx returns a valid index
      | some cb => execute s i cb acc' full'

structure Run where
  events : List Event
  outcome : Outcome
  fired : List Nat      -- `triggered` flags left behind in the callback objects

/-- the whole operation over an arrival history -/
def run (chk : Callback → Bytes → Bool) (cbs : List Callback) : St → List Arrival → Run
  | s, [] => ⟨[], .timeout, s.fired⟩
  | s, a :: rest =>
    match step chk cbs s a with
    | .done f ev o => ⟨ev.toList, o, f⟩
    | .cont s' ev =>
      let r := run chk cbs s' rest
      ⟨ev.toList ++ r.events, r.outcome, r.fired⟩

/-- initial state of `SendWithCallbacks(input, callbacks, timeout)`; `fired` carries the
    `triggered` flags the callback objects already have (they survive across operations) -/
def St.init (fired : List Nat) (timeout : Nat) : St :=
  { fired := fired, t := timeout, el := 0, acc := [], full := [] }

/-! ## the whole `SendWithCallbacks` operation, with the faults it can meet

`SendWithCallbacks(input, callbacks, timeout, opts…)`: `NewOperation(opts…)` may fail (an option
returned an error other than "ignored") → that error, nothing is written; a non-empty input is
written with a return, a failing write → that error, no callback loop; then the loop. In the loop a
poll may return an error instead of bytes (`Channel.Read`: transport error, or the read loop has
exited after EOF) → the operation returns that error at once. -/

/-- the loop state after the whole history if the operation is still polling then (`none`: it has
    returned while consuming the history) -/
def finalState (chk : Callback → Bytes → Bool) (cbs : List Callback) : St → List Arrival → Option St
  | s, [] => some s
  | s, a :: rest =>
    match step chk cbs s a with
    | .done _ _ _ => none
    | .cont s' _ => finalState chk cbs s' rest

inductive OpOutcome
  | loop (o : Outcome)     -- the callback loop decided (complete / once / fn / timeout)
  | optionError            -- NewOperation refused an option
  | writeError             -- writing the input failed
  | readError              -- a poll returned an error
  deriving Repr, DecidableEq

structure OpRun where
  events : List Event
  outcome : OpOutcome
  fired : List Nat
  wrote : Bool            -- the input (and its return) reached the device

structure OpFaults where
  optErr : Bool           -- an operation option returns a non-"ignored" error
  writeFails : Bool       -- the transport refuses the input write
  readErr : Option Nat    -- after the arrival history a poll returns an error, `gap` later

/-- `SendWithCallbacks` -/
def sendOp (chk : Callback → Bytes → Bool) (cbs : List Callback) (fired : List Nat) (timeout : Nat)
    (input : Bytes) (f : OpFaults) (arrivals : List Arrival) : OpRun :=
  if f.optErr then ⟨[], .optionError, fired, false⟩
  else if !input.isEmpty && f.writeFails then ⟨[], .writeError, fired, false⟩
  else
    let r := run chk cbs (St.init fired timeout) arrivals
    let wrote := !input.isEmpty
    match f.readErr, finalState chk cbs (St.init fired timeout) arrivals with
    | some gap, some s' =>
      if s'.t ≤ s'.el + gap then ⟨r.events, .loop r.outcome, r.fired, wrote⟩
      else ⟨r.events, .readError, r.fired, wrote⟩
    | _, _ => ⟨r.events, .loop r.outcome, r.fired, wrote⟩

end Scrapli.Cb
