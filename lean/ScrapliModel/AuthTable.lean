import ScrapliModel.Auth
import ScrapliModel.Generated.SshErrors
/-!
# `sshMessageHandler` as a function of the extracted table

The Go function is a `switch` over `bytes.Contains(bytes.ToLower(b), literal)` tests. The FIRST case
whose test holds is taken, and only that one; it produces an error iff the message it builds is not
empty. The "no matching" case sets no message of its own: it relies on a nested switch and on the
text appended when the `offeredOptions` pattern matches, so a buffer that contains "no matching"
but none of the three nested substrings and no "their offer:" yields NO error — and masks every
later case. The model keeps that behaviour.
-/
namespace Scrapli.Auth
open Scrapli

/-- ASCII part of `bytes.ToLower` (the dialogues of the property are ASCII) -/
def lowerByte : UInt8 → UInt8
  | 65 => 97 | 66 => 98 | 67 => 99 | 68 => 100 | 69 => 101 | 70 => 102 | 71 => 103 | 72 => 104
  | 73 => 105 | 74 => 106 | 75 => 107 | 76 => 108 | 77 => 109 | 78 => 110 | 79 => 111 | 80 => 112
  | 81 => 113 | 82 => 114 | 83 => 115 | 84 => 116 | 85 => 117 | 86 => 118 | 87 => 119 | 88 => 120
  | 89 => 121 | 90 => 122
  | b => b

def toLowerAscii (b : Bytes) : Bytes := b.map lowerByte

/-- does the selected row build a non-empty message? `rx name b` = the named pattern matches `b` -/
def rowErrs (rx : String → Bytes → Bool) (r : Gen.SshErrors.Row) (nb b : Bytes) : Bool :=
  !r.msg.isEmpty ||
  (match r.sub.find? (fun s => isInfix s.1 nb) with
   | some s => !s.2.isEmpty
   | none => false) ||
  (match r.appendRx with
   | some name => rx name b
   | none => false)

/-- `sshMessageHandler(b) != nil` for a given table -/
def sshErrOf (table : List Gen.SshErrors.Row) (lowered : Bool) (rx : String → Bytes → Bool)
    (b : Bytes) : Bool :=
  let nb := if lowered then toLowerAscii b else b
  match table.find? (fun r => r.triggers.any (fun t => isInfix t nb)) with
  | none => false
  | some r => rowErrs rx r nb b

/-- with the table extracted from the source -/
def sshErrGen (rx : String → Bytes → Bool) (b : Bytes) : Bool :=
  sshErrOf Gen.SshErrors.table Gen.SshErrors.lowered rx b

end Scrapli.Auth
