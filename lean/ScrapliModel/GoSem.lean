import ScrapliModel.Bytes
/-!
# GoSem: the few Go run-time notions the body translator (`go/facts/gobody.go`) renders into

The translator turns a Go function body (a small subset, see the header of `gobody.go`) into a
pure Lean term. Everything it needs beyond core Lean lives here, so the trusted reading of a
generated body is: *core `if / let / match`, the model functions named in the library table, and
the definitions below*.

Conventions
* Go `int` / `time.Duration` → `Int` (unbounded: machine overflow is not modelled).
* `[]byte`, `string` → `Bytes`; `[][]byte`, `[]string` → `List Bytes`; `byte` → `UInt8`.
* `error` → `Go.Error = Option String`: `nil` is `none`; `fmt.Errorf("%w: …", util.ErrX)` is
  `some "ErrX"` (only the wrapped sentinel is kept).
* Indexing and slicing are total here (`Go.at`, `Go.slice` clamp), and every generated body tests
  the Go bounds (`Go.idxOK`, `Go.sliceOK`, against the *length*, which is stricter than Go's
  capacity rule for slices) before the statement that indexes: a failed test makes the body return
  `none` (= run-time panic). So a body that indexes has result type `Option _`.
* Functions whose `FnSpec` has a fault mode (`util.Queue`) return `Except fault _` instead: a
  failed bounds test is the panic fault, blocking for ever the deadlock fault.
* `for … range` is `Go.forRange`: the body maps (index, element, state) to a `Go.Ctl`
  (`next` = fell off the end / `continue`, `brk` = `break`, `ret` = `return` from the function).
-/
namespace Scrapli.Go

abbrev Error := Option String

/-- `len(x)` -/
def len {α : Type} (l : List α) : Int := (l.length : Nat)

/-- bounds test of `x[i]` for `len(x) = n` -/
def idxOK (n i : Int) : Bool := decide (0 ≤ i) && decide (i < n)

/-- bounds test of `x[lo:hi]` for `len(x) = n` -/
def sliceOK (n lo hi : Int) : Bool := decide (0 ≤ lo) && decide (lo ≤ hi) && decide (hi ≤ n)

/-- `x[i]` (meaningful when `idxOK`) -/
def «at» {α : Type} [Inhabited α] (l : List α) (i : Int) : α := l.getD i.toNat default

/-- `x[lo:hi]` (meaningful when `sliceOK`) -/
def slice {α : Type} (l : List α) (lo hi : Int) : List α := (l.take hi.toNat).drop lo.toNat

/-- `x[i] = v` (meaningful when `idxOK`) -/
def set {α : Type} (l : List α) (i : Int) (x : α) : List α := l.set i.toNat x

/-- `copy(dst, src)`: the new value of `dst` -/
def copy {α : Type} (dst src : List α) : List α := src.take dst.length ++ dst.drop src.length

/-- `%d` of `fmt.Sprintf` -/
def fmtInt (n : Int) : Bytes := if n < 0 then 45 :: decDigits (-n).toNat else decDigits n.toNat

/-- the `int` a Go search function returns: `-1` = not found -/
def optIdx : Option Nat → Int
  | some i => (i : Nat)
  | none => -1

/-- how one iteration of a loop body ends -/
inductive Ctl (σ ρ : Type) where
  | next (s : σ)   -- fell off the end of the body, or `continue`
  | brk (s : σ)    -- `break`
  | ret (r : ρ)    -- `return r` from the enclosing function

/-- how a loop ends: `fin s` = exhausted or `break`, in state `s`; `ret r` = the function returned
    `r` from inside the loop -/
inductive Done (σ ρ : Type) where
  | fin (s : σ)
  | ret (r : ρ)

/-- `for i, x := range xs { body }` started at index `i`; the range expression is evaluated once.
-/
def forRangeFrom {α σ ρ : Type} (body : Int → α → σ → Ctl σ ρ) : Int → List α → σ → Done σ ρ
  | _, [], s => .fin s
  | i, x :: xs, s =>
    match body i x s with
    | .next s' => forRangeFrom body (i + 1) xs s'
    | .brk s' => .fin s'
    | .ret r => .ret r

/-- how a fuel-bounded loop ends: like `Done`, or `out` = the fuel ran out before the loop ended -/
inductive Loop (σ ρ : Type) where
  | fin (s : σ)
  | ret (r : ρ)
  | out

/-- `for ; cond; post { body }`: `step` tests the condition (`brk` when it fails) and runs the body;
    `post` runs after a body that fell off its end or hit `continue`. One unit of fuel per iteration. -/
def forLoop {σ ρ : Type} (step : σ → Ctl σ ρ) (post : σ → σ) : Nat → σ → Loop σ ρ
  | 0, _ => .out
  | fuel + 1, s =>
    match step s with
    | .next s' => forLoop step post fuel (post s')
    | .brk s' => .fin s'
    | .ret r => .ret r

def maxInt64 : Nat := 9223372036854775807

/-- `strconv.Atoi` (64-bit `int`): optional sign, one or more decimal digits (no underscores);
    a value out of range is clamped to the nearest bound and reported as the range error. -/
def atoi : Bytes → Int × Error
  | 43 :: ds => match parseDec ds with
    | some n => if n ≤ maxInt64 then ((n : Nat), none) else ((maxInt64 : Nat), some "strconv.ErrRange")
    | none => (0, some "strconv.ErrSyntax")
  | 45 :: ds => match parseDec ds with
    | some n => if n ≤ maxInt64 + 1 then (-((n : Nat) : Int), none)
                else (-((maxInt64 + 1 : Nat) : Int), some "strconv.ErrRange")
    | none => (0, some "strconv.ErrSyntax")
  | ds => match parseDec ds with
    | some n => if n ≤ maxInt64 then ((n : Nat), none) else ((maxInt64 : Nat), some "strconv.ErrRange")
    | none => (0, some "strconv.ErrSyntax")

def forRange {α σ ρ : Type} (xs : List α) (s : σ) (body : Int → α → σ → Ctl σ ρ) : Done σ ρ :=
  forRangeFrom body 0 xs s

end Scrapli.Go
