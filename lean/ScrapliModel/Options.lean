import ScrapliModel.Generated.Consts
import ScrapliModel.Generated.Options
import ScrapliModel.Generated.PlatformOptions
/-!
# Options: option application and driver construction as record updates (property C19)

Mirrors `driver/options/*.go` (through the regenerated table `Gen.Options.spec`),
`generic.NewDriver`, `transport.NewTransport` / `NewArgs` / `NewSSHArgs` / `NewTelnetArgs`,
`channel.NewChannel`, `network.NewDriver`, `netconf.NewDriver`, `platform.Platform.AsOptions` and
`platform.optionDefinitions.asOptions`.

A configuration maps every exported setting field of every object the constructors build to its
rendered value (a list of byte strings: scalars are singletons, `[]string` fields are their
elements, opaque values are identity tokens chosen by the caller).
-/
namespace Scrapli.Options
open Scrapli Scrapli.Gen.Options

abbrev Val := List Bytes
abbrev Config := Field → Val

/-- rendering of a nil func / interface / pointer -/
def tokNil : Bytes := [60,110,105,108,62]               -- "<nil>"
/-- rendering of a default that is not a compile-time value (compared with a no-option construction) -/
def tokDefault : Bytes := [60,100,101,102,97,117,108,116,62]   -- "<default>"
/-- the logging instance without loggers the constructors create when no logger was given -/
def tokNoopLogger : Bytes := [60,110,111,111,112,45,108,111,103,103,101,114,62]  -- "<noop-logger>"
def tokTrue : Bytes := [116,114,117,101]

/-- non-ignored option errors: `util.ErrBadOption`, anything else -/
inductive Err where | badOption | other
  deriving DecidableEq, Repr

/-- One option as the caller passes it: the `WithX`, its rendered arguments, and what the
environment contributes (value of a `fresh` assignment such as the resolved system ssh config
path; whether path resolution / instance creation succeeds). -/
structure OptInst where
  opt : Opt
  args : List Val
  env : Val := []
  envOk : Bool := true
  deriving DecidableEq, Repr

def defaults : Config := fun f => (Field.default f).getD [tokDefault]

/-- value a write assigns -/
def valueOf (o : OptInst) (w : Write) : Val :=
  match w.src with
  | .param i => o.args.getD i []
  | .const v => [v]
  | .derived i => o.args.getD i []
  | .fresh => o.env

/-- is the first argument one of the values the option's `switch` accepts -/
def argValid (s : Spec) (o : OptInst) : Bool :=
  match s.valid with
  | some vs => match o.args with
    | [v] :: _ => vs.contains v
    | _ => false
  | none => true

/-- the non-ignored error the option returns when it reaches its checks -/
def errOf (s : Spec) (o : OptInst) : Option Err :=
  if !argValid s o then (if s.badOption then some .badOption else some .other)
  else if !o.envOk then (if s.badOption && s.valid.isNone then some .badOption else if s.otherErr then some .other else none)
  else none

def applyWrite (o : OptInst) (c : Config) (w : Write) : Config :=
  fun f => if f = w.field then
      (match w.mode with
       | .set => valueOf o w
       | .append => c f ++ valueOf o w)
    else c f

def applyWrites (o : OptInst) (ws : List Write) (c : Config) : Config := ws.foldl (applyWrite o) c

/-- does option `o`, applied to an object of type `T`, get past the type assertion -/
def applies (T : Target) (o : OptInst) : Bool := (spec o.opt).targets.contains T

/-- the error `o` returns on an object of type `T`, if any (`ErrIgnoredOption` is not an error) -/
def failsOn (T : Target) (o : OptInst) : Option Err :=
  let s := spec o.opt
  if s.validateFirst || applies T o then errOf s o else none

/-- one option closure called on one object of type `T` -/
def applyOpt (T : Target) (c : Config) (o : OptInst) : Except Err Config :=
  match failsOn T o with
  | some e => .error e
  | none => if applies T o then .ok (applyWrites o (spec o.opt).writes c) else .ok c

/-- `for _, option := range opts { err = option(obj); if err != nil && !ignored { return err } }` -/
def pass (T : Target) (opts : List OptInst) (c : Config) : Except Err Config :=
  opts.foldlM (applyOpt T) c

def passes (ts : List Target) (opts : List OptInst) (c : Config) : Except Err Config :=
  ts.foldlM (fun c T => pass T opts c) c

def setField (c : Config) (f : Field) (v : Val) : Config := fun g => if g = f then v else c g

/-- `transport.NewTransport`: which further objects are built after `Args` -/
def transportTargets (c : Config) : List Target :=
  if c .transport_Args_UserImplementation != [tokNil] then []
  else
    let tt := c .generic_Driver_TransportType
    if tt == [Gen.Transport.SystemTransport] then [.transport_SSHArgs, .transport_System]
    else if tt == [Gen.Transport.StandardTransport] then [.transport_SSHArgs, .transport_Standard]
    else if tt == [Gen.Transport.TelnetTransport] then [.transport_TelnetArgs, .transport_Telnet]
    else if tt == [Gen.Transport.FileTransport] then [.transport_File]
    else []

/-- `if d.Logger == nil { d.Logger = logging.NewInstance() }` -/
def fillLogger (f : Field) (c : Config) : Config :=
  if c f == [tokNil] then setField c f [tokNoopLogger] else c

/-- `generic.NewDriver` -/
def constructGeneric (opts : List OptInst) (c : Config) : Except Err Config := do
  let c ← pass .generic_Driver opts c
  let c := fillLogger .generic_Driver_Logger c
  let c ← pass .transport_Args opts c
  let c ← passes (transportTargets c) opts c
  pass .channel_Channel opts c

/-- the pattern part of a rendered privilege level `name 0x00 pattern` -/
def privPattern (e : Bytes) : Bytes := (e.dropWhile (· != 0)).drop 1

/-- `network.NewDriver`; the joined prompt pattern is rendered as the list of its alternatives -/
def constructNetwork (opts : List OptInst) (c : Config) : Except Err Config := do
  let c ← constructGeneric opts c
  let c ← pass .network_Driver opts c
  if c .network_Driver_DefaultDesiredPriv == [[]] || (c .network_Driver_PrivilegeLevels).isEmpty then
    .error .badOption
  else
    .ok (setField c .channel_Channel_PromptPattern ((c .network_Driver_PrivilegeLevels).map privPattern))

def netconfConnectionOpt : OptInst := { opt := .withNetconfConnection, args := [[tokTrue]] }

/-- `netconf.NewDriver` (with the driver's logger taken from the generic driver it is built from) -/
def constructNetconf (opts : List OptInst) (c : Config) : Except Err Config := do
  let opts := opts ++ [netconfConnectionOpt]
  let c ← constructGeneric opts c
  let c := setField c .netconf_Driver_TransportType (c .generic_Driver_TransportType)
  let c := setField c .netconf_Driver_Logger (c .generic_Driver_Logger)
  let c ← pass .netconf_Driver opts c
  let c := fillLogger .netconf_Driver_Logger c
  .ok (setField c .channel_Channel_PromptPattern [Gen.Netconf.v1Dot0Delim])

/-- `logging.NewInstance` -/
def constructLogging (opts : List OptInst) (c : Config) : Except Err Config :=
  pass .logging_Instance opts c

inductive Ctor where | generic | network | netconf | logging
  deriving DecidableEq, Repr

def construct (k : Ctor) (opts : List OptInst) (c : Config := defaults) : Except Err Config :=
  match k with
  | .generic => constructGeneric opts c
  | .network => constructNetwork opts c
  | .netconf => constructNetconf opts c
  | .logging => constructLogging opts c

/-! ## per-field reading of a pass (what the property calls "the setting it names") -/

/-- the writes option `o` performs on field `f` of an object of type `T`, in order -/
def writesTo (T : Target) (f : Field) (o : OptInst) : List (Mode × Val) :=
  if applies T o then ((spec o.opt).writes.filter (·.field = f)).map (fun w => (w.mode, valueOf o w)) else []

def stepVal (acc : Val) (mv : Mode × Val) : Val :=
  match mv.1 with
  | .set => mv.2
  | .append => acc ++ mv.2

/-- value of field `f` after the options were applied in order to an object of type `T` -/
def fieldAfter (T : Target) (opts : List OptInst) (f : Field) (v0 : Val) : Val :=
  (opts.flatMap (writesTo T f)).foldl stepVal v0

/-- fields an option may write -/
def keys (o : OptInst) : List Field := (spec o.opt).writes.map (·.field)

def disjointKeys (a b : OptInst) : Bool := (keys a).all fun f => !(keys b).contains f

/-! ## platform definitions -/
open Scrapli.Gen.PlatformOptions in
/-- a YAML scalar / sequence as `yaml.v3` decodes it into `interface{}` -/
inductive YVal where
  | int (dec : Bytes)            -- decimal text
  | str (s : Bytes)
  | flt (neg : Bool) (eighths : Nat)   -- the float ±n/8 (exactly representable, so seconds→ns is exact)
  | lst (xs : List Bytes)        -- sequence of strings
  | bool (b : Bool)
  | null
  deriving DecidableEq, Repr

/-- Go dynamic type `yaml.v3` gives the decoded value -/
def YVal.goType : YVal → String
  | .int _ => "int"
  | .str _ => "string"
  | .flt _ _ => "float64"
  | .lst _ => "[]interface{}"
  | .bool _ => "bool"
  | .null => "<nil>"

/-- Go dynamic type `yaml.v3` produces for a value of the documented type (text of the panic message) -/
def documentedGoType (d : String) : Option String :=
  if d == "an int" then some "int"
  else if d == "a string" then some "string"
  else if d == "a float" then some "float64"
  else if d == "an array of strings" then some "[]interface{}"
  else none

open Scrapli.Gen.PlatformOptions in
def renderY (v : YVal) (conv : Conv) : Val :=
  match v, conv with
  | .flt neg n, .seconds => [(if neg && n != 0 then [45] else []) ++ decDigits (n * 125000000)]
  | .int d, _ => [d]
  | .str s, _ => [s]
  | .flt neg n, _ => [(if neg then [45] else []) ++ decDigits n]
  | .lst xs, _ => xs
  | .bool b, _ => [if b then tokTrue else [102,97,108,115,101]]
  | .null, _ => []

open Scrapli.Gen.PlatformOptions in
def findEntry (name : Bytes) : Option Entry := entries.find? (·.name == name)

/-- one element of the `options:` block → option; `none` = the code panics -/
def platformOpt (name : Bytes) (v : YVal) : Option OptInst :=
  match findEntry name with
  | none => none                       -- unknown name: a nil option function is called later
  | some e =>
    match e.opt with
    | none => none
    | some o =>
      if e.documented == "" then some { opt := o, args := [] }
      else if e.asserted.contains v.goType then some { opt := o, args := [renderY v e.conv] }
      else none

/-- the part of a platform definition that becomes options -/
structure PlatformDef where
  failedWhenContains : Val := []
  onOpen : Option Bytes := none        -- token of the function built from `on-open`
  onClose : Option Bytes := none
  privilegeLevels : Val := []
  defaultDesiredPriv : Bytes := []
  networkOnOpen : Option Bytes := none
  networkOnClose : Option Bytes := none
  options : List (Bytes × YVal) := []

/-- `Platform.mergeVariant` (`NewPlatformVariant`): a variant replaces the parts of the default
definition it sets (a non-empty list / map / name, a present on-X block); the `options:` block of
a variant is NOT merged — the default's options stay. -/
def mergeVariant (p v : PlatformDef) : PlatformDef :=
  { failedWhenContains := if v.failedWhenContains.isEmpty then p.failedWhenContains else v.failedWhenContains
    onOpen := if v.onOpen.isSome then v.onOpen else p.onOpen
    onClose := if v.onClose.isSome then v.onClose else p.onClose
    privilegeLevels := if v.privilegeLevels.isEmpty then p.privilegeLevels else v.privilegeLevels
    defaultDesiredPriv := if v.defaultDesiredPriv.isEmpty then p.defaultDesiredPriv else v.defaultDesiredPriv
    networkOnOpen := if v.networkOnOpen.isSome then v.networkOnOpen else p.networkOnOpen
    networkOnClose := if v.networkOnClose.isSome then v.networkOnClose else p.networkOnClose
    options := p.options }

def optOfTok (o : Opt) : Option Bytes → List OptInst
  | some t => [{ opt := o, args := [[t]] }]
  | none => []

/-- `Platform.AsOptions`; `none` = panic while translating the options block -/
def platformAsOptions (p : PlatformDef) : Option (List OptInst) := do
  let block ← p.options.mapM (fun nv => platformOpt nv.1 nv.2)
  some ((if p.failedWhenContains.isEmpty then [] else [{ opt := .WithFailedWhenContains, args := [p.failedWhenContains] }])
    ++ optOfTok .WithOnOpen p.onOpen ++ optOfTok .WithOnClose p.onClose
    ++ [{ opt := .WithPrivilegeLevels, args := [p.privilegeLevels] }, { opt := .WithDefaultDesiredPriv, args := [[p.defaultDesiredPriv]] }]
    ++ optOfTok .WithNetworkOnOpen p.networkOnOpen ++ optOfTok .WithNetworkOnClose p.networkOnClose
    ++ block)

/-- `platform.NewPlatform(def, host, userOpts...)`: platform options first, user options after -/
def constructPlatform (k : Ctor) (p : PlatformDef) (user : List OptInst) (c : Config := defaults) :
    Option (Except Err Config) := do
  let po ← platformAsOptions p
  some (construct k (po ++ user) c)

end Scrapli.Options
