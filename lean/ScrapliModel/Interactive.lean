import ScrapliModel.Channel
/-!
# Interactive dialogues (channel/sendinteractive.go, channel/sendinput.go,
# driver/network/acquirepriv.go `escalate`)

`Channel.sendInteractive` per event: write the input (redacted when hidden); when the event has an
expected response and is not hidden, `ReadUntilFuzzy/Explicit` the input (the echo); write the
return; `ReadUntilAnyPrompt(CompletePatterns ++ [ChannelResponse | PromptPattern])`; and, before the
last event, stop when a complete pattern matches what that read returned.

The model runs against a **causal device**: a state machine `dev : σ → Bytes → σ × List Bytes` that,
for every write, says which chunks (already cut into reads, already normalised) it emits in
reaction. Theorems quantify over `σ`, `dev`, the initial queue and all patterns, so they hold for
every dialogue and every segmentation. The observable is the **trace**: the interleaving of
`write` events and `deliver` events (a chunk handed to the operation by `Channel.Read`).
Regular expressions are parameters (`Bytes → Bool`); `Driver/C12.lean` instantiates them with the
regex engine running terms generated from the Go pattern sources.
-/
namespace Scrapli.Inter
open Scrapli Scrapli.Chan

/-- one observable step of an operation -/
inductive Ev
  | deliver (b : Bytes)                    -- `Channel.Read` handed this chunk to the operation
  | write (b : Bytes) (redacted : Bool)    -- `Channel.Write(b, redacted)`
  deriving Repr, DecidableEq

/-- a causal device together with a segmentation of its output: the chunks emitted in reaction to
    one write -/
abbrev Dev (σ : Type) := σ → Bytes → σ × List Bytes

/-- the read queue and the device state -/
structure St (σ : Type) where
  q : List Bytes
  d : σ

/-- `Channel.Write`: the device reacts at once; what it emits is appended to the queue -/
def St.write {σ : Type} (dev : Dev σ) (s : St σ) (b : Bytes) : St σ :=
  { q := s.q ++ (dev s.d b).2, d := (dev s.d b).1 }

/-- the loop of every `ReadUntil*` (same as `Chan.readUntil`, see `readC_eq_readUntil`), returning
    also which chunks it dequeued: `(found, consumed, left)`. `found = false`: the queue ran dry
    (the real loop polls until its deadline and returns a timeout). -/
def readC (P : Bytes → Bool) : List Bytes → Bytes → Bool × List Bytes × List Bytes
  | [], _ => (false, [], [])
  | c :: q, rb =>
    if P (rb ++ c) then (true, [c], q)
    else
      let r := readC P q (rb ++ c)
      (r.1, c :: r.2.1, r.2.2)

/-- `SendInteractiveEvent`; `resp = none` ⇔ `ChannelResponse == ""` -/
structure Event where
  input : Bytes
  resp : Option (Bytes → Bool)
  hidden : Bool

/-- what happened for one event: the trace of the event in structured form -/
structure Seg where
  input : Bytes
  hidden : Bool
  echo : List Bytes      -- chunks dequeued by the echo read (no echo read: `[]`)
  ret : Option Bytes     -- the return that was written (`none`: the echo read never completed)
  resp : List Bytes      -- chunks dequeued by the read after the return
  deriving Repr, DecidableEq

def dels (cs : List Bytes) : List Ev := cs.map Ev.deliver

def Seg.trace (g : Seg) : List Ev :=
  Ev.write g.input g.hidden :: (dels g.echo ++
    match g.ret with
    | none => []
    | some r => Ev.write r false :: dels g.resp)

/-- the predicate of `ReadUntilAnyPrompt`: some pattern matches the search window -/
def anyPred (ps : List (Bytes → Bool)) (cfg : Cfg) (rb : Bytes) : Bool :=
  ps.any fun p => p (window rb cfg.depth)

/-- `e.ChannelResponse != "" && !e.HideInput` -/
def echoAwaited (e : Event) : Bool := e.resp.isSome && !e.hidden

/-- `ReadUntilFuzzy` and `ReadUntilExplicit` return at once, reading nothing, for an empty input
    (`ReadUntilExplicit` only since the repair of finding C01-empty-command-exact; the matching mode
    no longer enters) -/
def echoImmediate (_cfg : Cfg) (input : Bytes) : Bool := input.isEmpty

/-- the echo read of an operation: `(completed, consumed, left)` -/
def echoRead (cfg : Cfg) (input : Bytes) (q : List Bytes) : Bool × List Bytes × List Bytes :=
  if echoImmediate cfg input then (true, [], q) else readC (echoPred cfg input) q []

/-- the echo read of one interactive event: performed only when the event has an expected response
    and is not hidden -/
def eventEcho (cfg : Cfg) (e : Event) (q : List Bytes) : Bool × List Bytes × List Bytes :=
  if echoAwaited e then echoRead cfg e.input q else (true, [], q)

inductive Outcome | fail | cont | done
  deriving Repr, DecidableEq

structure StepOut (σ : Type) where
  out : Outcome
  seg : Seg
  st : St σ
  b : Bytes            -- what this iteration appended to the operation's buffer `b`

/-- one iteration of the `for i, e := range events` loop; `last` ⇔ `i == len(events)-1` -/
def stepEvent {σ : Type} (cfg : Cfg) (complete : List (Bytes → Bool)) (dev : Dev σ) (last : Bool)
    (e : Event) (s : St σ) : StepOut σ :=
  let prompts := complete ++ [e.resp.getD cfg.promptP]
  let s1 := s.write dev e.input
  let er := eventEcho cfg e s1.q
  if !er.1 then
    { out := .fail, b := [], st := { s1 with q := er.2.2 },
      seg := { input := e.input, hidden := e.hidden, echo := er.2.1, ret := none, resp := [] } }
  else
    let s2 := St.write dev { s1 with q := er.2.2 } cfg.ret
    let rr := readC (anyPred prompts cfg) s2.q []
    let seg : Seg :=
      { input := e.input, hidden := e.hidden, echo := er.2.1, ret := some cfg.ret, resp := rr.2.1 }
    let s3 : St σ := { s2 with q := rr.2.2 }
    if !rr.1 then { out := .fail, b := [], st := s3, seg := seg }
    else
      let pb := rr.2.1.flatten
      let nb := er.2.1.flatten
      if !last && !complete.isEmpty && complete.any (fun p => p pb) then
        { out := .done, b := nb ++ pb, st := s3, seg := seg }
      else
        { out := .cont, b := nb ++ pb, st := s3, seg := seg }

/-- result of an operation: `res = none` is the error return (a read ran dry = timeout) -/
structure Run (σ : Type) where
  res : Option Bytes
  segs : List Seg
  st : St σ

def Run.trace {σ : Type} (r : Run σ) : List Ev := r.segs.flatMap Seg.trace

/-- the event loop of `Channel.sendInteractive` with its buffer `b` -/
def loop {σ : Type} (cfg : Cfg) (complete : List (Bytes → Bool)) (dev : Dev σ) :
    List Event → St σ → Bytes → Run σ
  | [], s, b => { res := some b, segs := [], st := s }
  | e :: es, s, b =>
    let o := stepEvent cfg complete dev es.isEmpty e s
    match o.out with
    | .fail => { res := none, segs := [o.seg], st := o.st }
    | .done => { res := some (b ++ o.b), segs := [o.seg], st := o.st }
    | .cont =>
      let r := loop cfg complete dev es o.st (b ++ o.b)
      { res := r.res, segs := o.seg :: r.segs, st := r.st }

/-- `processOut(b, false)` -/
def outCfg (cfg : Cfg) : Cfg := { cfg with strip := false }

/-- `Channel.SendInteractive(events, WithCompletePatterns(complete))` -/
def sendInteractive {σ : Type} (cfg : Cfg) (complete : List (Bytes → Bool)) (dev : Dev σ)
    (evs : List Event) (s : St σ) : Run σ :=
  let r := loop cfg complete dev evs s []
  { r with res := r.res.map (processOut (outCfg cfg)) }

/-- `Channel.SendInputB` as a trace: the echo is read (and discarded) in every mode, the return is
    written after it, and unless `eager` the prompt (or an interim prompt) is awaited -/
def sendInput {σ : Type} (cfg : Cfg) (eager : Bool) (interim : List (Bytes → Bool)) (dev : Dev σ)
    (s : St σ) (cmd : Bytes) : Run σ :=
  let s1 := s.write dev cmd
  let er := echoRead cfg cmd s1.q
  if !er.1 then
    { res := none, st := { s1 with q := er.2.2 },
      segs := [{ input := cmd, hidden := false, echo := er.2.1, ret := none, resp := [] }] }
  else
    let s2 := St.write dev { s1 with q := er.2.2 } cfg.ret
    if eager then
      { res := some (processOut cfg []), st := s2,
        segs := [{ input := cmd, hidden := false, echo := er.2.1, ret := some cfg.ret, resp := [] }] }
    else
      let rr := readC (anyPred (cfg.promptP :: interim) cfg) s2.q []
      { res := if rr.1 then some (processOut cfg rr.2.1.flatten) else none,
        st := { s2 with q := rr.2.2 },
        segs := [{ input := cmd, hidden := false, echo := er.2.1, ret := some cfg.ret,
                   resp := rr.2.1 }] }

/-- the fields of `network.PrivilegeLevel` that `escalate` uses. `pattern` is both
    `patternRe.Match` and the compiled `Pattern` string given as `ChannelResponse` (assumed
    non-empty); `escalatePrompt = none` ⇔ `EscalatePrompt == ""`. -/
structure Level where
  pattern : Bytes → Bool
  escalate : Bytes
  escalateAuth : Bool
  escalatePrompt : Option (Bytes → Bool)

/-- the two events `escalate` builds -/
def escalateEvents (target : Level) (secret : Bytes) : List Event :=
  [ { input := target.escalate, resp := target.escalatePrompt, hidden := false },
    { input := secret, resp := some target.pattern, hidden := true } ]

/-- `CompletePatterns = [PrivilegeLevels[p.PreviousPriv].patternRe, p.patternRe]` -/
def escalateComplete (prev target : Level) : List (Bytes → Bool) := [prev.pattern, target.pattern]

/-- both branches of `escalate` run with default operation options -/
def escCfg (cfg : Cfg) : Cfg := { cfg with exact := false, strip := true }

/-- `network.Driver.escalate(target)`; `secret` = `AuthSecondary` -/
def escalate {σ : Type} (cfg : Cfg) (prev target : Level) (secret : Bytes) (dev : Dev σ)
    (s : St σ) : Run σ :=
  if !target.escalateAuth || secret.isEmpty then
    sendInput (escCfg cfg) false [] dev s target.escalate
  else
    sendInteractive (escCfg cfg) (escalateComplete prev target) dev
      (escalateEvents target secret) s

/-- `network.Driver.SendInteractive(events, WithPrivilegeLevel(l))`: `AcquirePriv` of the requested
    (or default desired) level first — here any operation `acquire` on the session — and only when
    that returned no error the generic driver's `SendInteractive`, on the session state it left.
    An error of the acquisition is returned as it is. -/
def netSendInteractive {σ : Type} (acquire : St σ → Run σ) (cfg : Cfg)
    (complete : List (Bytes → Bool)) (dev : Dev σ) (evs : List Event) (s : St σ) : Run σ :=
  let a := acquire s
  match a.res with
  | none => a
  | some _ =>
    let r := sendInteractive cfg complete dev evs a.st
    { res := r.res, segs := a.segs ++ r.segs, st := r.st }

/-- everything written, in order -/
def writesOf : List Ev → List Bytes
  | [] => []
  | .write b _ :: t => b :: writesOf t
  | .deliver _ :: t => writesOf t

/-- everything delivered, concatenated -/
def deliveredOf : List Ev → Bytes
  | [] => []
  | .deliver b :: t => b ++ deliveredOf t
  | .write _ _ :: t => deliveredOf t

/-- the device that plays a fixed script: the k-th write is answered by the k-th chunk list -/
def scriptDev : Dev (List (List Bytes)) := fun st _ =>
  match st with
  | [] => ([], [])
  | r :: rs => (rs, r)

end Scrapli.Inter
