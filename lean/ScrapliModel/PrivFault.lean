import ScrapliModel.Priv
/-!
# PrivFault: navigation steps that FAIL after the device has moved

A device that is slow once executes an escalate / de-escalate command (its mode HAS changed) but
withholds the prompt, so the client's read times out and `AcquirePriv` returns the error from
inside the loop. What matters then is what `CurrentPriv` holds: the source resets it to `UNKNOWN`
in `processAcquirePriv`, i.e. BEFORE the command is sent (`resetBefore = true`); the variant that
resets only after the step succeeded (`resetBefore = false`) leaves the previously verified level
cached while the device is elsewhere. `faults t` = the step issued in loop iteration number `t`
(the session's global tick) fails in that way. Everything else is `Priv.lean` unchanged.
-/
namespace Scrapli.Priv
open Scrapli

def acquireLoopF (c : Cfg) (resetBefore : Bool) (faults : Nat → Bool) (tgt : Bytes) :
    Nat → Nat → Sess → Option Err × Sess
  | 0, _, s => (some .privilege, s)
  | fuel + 1, count, s =>
    let (prompt, s1) := getPrompt c s
    let s1 := { s1 with tick := s1.tick + 1 }
    match processAcquire c.matchP (c.orc s.tick) c.L s1.cache tgt prompt with
    | .error e => (some e, s1)
    | .ok st =>
      match st.action with
      | .noAction => (none, { s1 with cache := st.cache })
      | .escalate =>
        match escalate c (if resetBefore then { s1 with cache := st.cache } else s1) st.next with
        | (some e, s3) => (some e, s3)
        | (none, s3) =>
          if faults s.tick then (some .timeout, s3)
          else
            let s3 := if resetBefore then s3 else { s3 with cache := unknownPriv }
            if count + 1 > 2 * c.L.length then (some .privilege, s3)
            else acquireLoopF c resetBefore faults tgt fuel (count + 1) s3
      | .deescalate =>
        match deescalate c (if resetBefore then { s1 with cache := st.cache } else s1) st.next with
        | (some e, s3) => (some e, s3)
        | (none, s3) =>
          if faults s.tick then (some .timeout, s3)
          else
            let s3 := if resetBefore then s3 else { s3 with cache := unknownPriv }
            if count + 1 > 2 * c.L.length then (some .privilege, s3)
            else acquireLoopF c resetBefore faults tgt fuel (count + 1) s3

def acquirePrivF (c : Cfg) (rb : Bool) (faults : Nat → Bool) (tgt : Bytes) (s : Sess) : Option Err × Sess :=
  match find? c.L tgt with
  | none => (some .privilege, s)
  | some _ => acquireLoopF c rb faults tgt (2 * c.L.length + 2) 0 s

def withDefaultF (c : Cfg) (rb : Bool) (faults : Nat → Bool) (s : Sess)
    (k : Sess → Option Err × Sess) : Option Err × Sess :=
  if s.cache ≠ c.default then
    match acquirePrivF c rb faults c.default s with
    | (some _, s1) => (some .privilege, s1)
    | (none, s1) => k s1
  else k s

def withTargetF (c : Cfg) (rb : Bool) (faults : Nat → Bool) (priv fallback : Bytes) (s : Sess)
    (k : Sess → Option Err × Sess) : Option Err × Sess :=
  let tgt := if priv = [] then fallback else priv
  match acquirePrivF c rb faults tgt s with
  | (some e, s1) => (some e, s1)
  | (none, s1) => k s1

def runOpF (c : Cfg) (rb : Bool) (faults : Nat → Bool) (s : Sess) : Op → Option Err × Sess
  | .sendCommand cmd => withDefaultF c rb faults s fun s => sendInput c s cmd
  | .sendCommands cmds => withDefaultF c rb faults s (genericSendCommands c cmds)
  | .sendConfigs lines priv =>
    withTargetF c rb faults priv Gen.Network.defaultConfigurationPrivLevel s (genericSendCommands c lines)
  | .sendConfig cfg priv =>
    withTargetF c rb faults priv Gen.Network.defaultConfigurationPrivLevel s
      (genericSendCommands c (splitLF cfg))
  | .acquirePriv tgt => acquirePrivF c rb faults tgt s
  | .sendInteractive inputs priv => withTargetF c rb faults priv c.default s (sendLines c inputs)

def runOpsF (c : Cfg) (rb : Bool) (faults : Nat → Bool) : Sess → List Op → List (Option Err) × Sess
  | s, [] => ([], s)
  | s, op :: ops =>
    let (e, s1) := runOpF c rb faults s op
    let (es, s2) := runOpsF c rb faults s1 ops
    (e :: es, s2)

/-- every level's prompt is unambiguous -/
def allUnamb (c : Cfg) : Bool := c.L.all fun m => unambB c m.name

end Scrapli.Priv
