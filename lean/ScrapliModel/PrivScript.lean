import ScrapliModel.Priv
/-!
# PrivScript: what else happens between the five operations of a `network.Driver` session

* `GetPrompt` (promoted from the generic driver): one bare return, no navigation, no cache change.
* an operation REFUSED before anything is sent: an option that returns a real error
  (`NewOperation` fails), or `SendConfigsFromFile` on an unreadable file.
  (`SendCommandsFromFile` on an unreadable file acquires the default level first and then fails:
  that is `sendCommands []`.)
* a RECONFIGURATION between operations: the user edits `PrivilegeLevels` and calls
  `UpdatePrivileges` (levels added, removed, re-patterned), assigns `DefaultDesiredPriv`, or changes
  the secondary secret: the static scenario `Cfg` is replaced, the session state stays.
-/
namespace Scrapli.Priv
open Scrapli

inductive Item
  | op (o : Op)
  | getPrompt
  | refused
  | reconfig (c' : Cfg)

def runItem (c : Cfg) (s : Sess) : Item → Option Err × Cfg × Sess
  | .op o => ((runOp c s o).1, c, (runOp c s o).2)
  | .getPrompt => (none, c, (getPrompt c s).2)
  | .refused => (some .noop, c, s)
  | .reconfig c' => (none, c', s)

def runScript : Cfg → Sess → List Item → List (Option Err) × Cfg × Sess
  | c, s, [] => ([], c, s)
  | c, s, it :: rest =>
    let r := runItem c s it
    let r' := runScript r.2.1 r.2.2 rest
    (r.1 :: r'.1, r'.2)

/-- no level's matcher accepts the prompt the device shows in mode `m` -/
def undeterminable (c : Cfg) (m : Bytes) : Bool := c.L.all fun l => !c.matchP l (c.promptOf m)

end Scrapli.Priv
