import ScrapliModel.Bytes
/-!
# Regex: a model of Go `regexp` (RE2 syntax, leftmost-first semantics) for the extracted patterns

The translator parses every pattern with Go's own `regexp/syntax` (`Parse(p, Perl).Simplify()`)
and emits the simplified tree as an `Re` term, so flags (`(?i)`, `(?m)`, `(?s)`, `(?U)`), bounded
repeats, Perl classes and case folding are already resolved by Go's parser: what is left is
literals, rune classes, `.`, anchors, word boundaries, captures, `* + ?` (greedy or not),
concatenation and alternation.

The matcher is a backtracking matcher with priorities (left alternative first, greedy = longer
first), which yields Perl's leftmost-first match, the semantics Go's `regexp` documents. Input is a
byte string decoded rune by rune as UTF-8 (invalid bytes are U+FFFD of width 1, as in Go).
Recursion is by fuel so the kernel can evaluate it (`decide +kernel`).
-/
namespace Scrapli.Rx
open Scrapli

inductive Re
  | empty
  | lit (r : Nat)                              -- one rune
  | cls (ranges : List (Nat × Nat))            -- rune class (inclusive ranges)
  | anyNL                                      -- any rune incl. newline  (`(?s).`)
  | anyNoNL                                    -- any rune except newline (`.`)
  | bol | eol                                  -- `(?m)^`  `(?m)$`
  | bot | eot                                  -- `\A` / `^` without m ; `\z` / `$` without m
  | wordB | noWordB
  | cat (a b : Re)
  | alt (a b : Re)
  | star (r : Re) (greedy : Bool)
  | plus (r : Re) (greedy : Bool)
  | quest (r : Re) (greedy : Bool)
  | group (idx : Nat) (r : Re)
  | fail                                       -- OpNoMatch
  deriving Repr, Inhabited

def Re.size : Re → Nat
  | .cat a b => a.size + b.size + 1
  | .alt a b => a.size + b.size + 1
  | .star r _ => r.size + 1
  | .plus r _ => r.size + 1
  | .quest r _ => r.size + 1
  | .group _ r => r.size + 1
  | _ => 1

/-- UTF-8 decoding of the first rune: (rune, width); invalid → (0xFFFD, 1) like Go. -/
def decodeRune : Bytes → Option (Nat × Nat)
  | [] => none
  | b0 :: t =>
    let n0 := b0.toNat
    if n0 < 0x80 then some (n0, 1)
    else if n0 < 0xC2 then some (0xFFFD, 1)
    else if n0 < 0xE0 then
      match t with
      | b1 :: _ =>
        let n1 := b1.toNat
        if 0x80 ≤ n1 && n1 < 0xC0 then some ((n0 - 0xC0) * 64 + (n1 - 0x80), 2) else some (0xFFFD, 1)
      | _ => some (0xFFFD, 1)
    else if n0 < 0xF0 then
      match t with
      | b1 :: b2 :: _ =>
        let n1 := b1.toNat
        let n2 := b2.toNat
        let lo := if n0 == 0xE0 then 0xA0 else 0x80
        let hi := if n0 == 0xED then 0xA0 else 0xC0
        if lo ≤ n1 && n1 < hi && 0x80 ≤ n2 && n2 < 0xC0 then
          some ((n0 - 0xE0) * 4096 + (n1 - 0x80) * 64 + (n2 - 0x80), 3)
        else some (0xFFFD, 1)
      | _ => some (0xFFFD, 1)
    else if n0 < 0xF5 then
      match t with
      | b1 :: b2 :: b3 :: _ =>
        let n1 := b1.toNat
        let n2 := b2.toNat
        let n3 := b3.toNat
        let lo := if n0 == 0xF0 then 0x90 else 0x80
        let hi := if n0 == 0xF4 then 0x90 else 0xC0
        if lo ≤ n1 && n1 < hi && 0x80 ≤ n2 && n2 < 0xC0 && 0x80 ≤ n3 && n3 < 0xC0 then
          some ((n0 - 0xF0) * 262144 + (n1 - 0x80) * 4096 + (n2 - 0x80) * 64 + (n3 - 0x80), 4)
        else some (0xFFFD, 1)
      | _ => some (0xFFFD, 1)
    else some (0xFFFD, 1)

def inRanges (r : Nat) : List (Nat × Nat) → Bool
  | [] => false
  | (lo, hi) :: t => (lo ≤ r && r ≤ hi) || inRanges r t

def isWordByte (b : UInt8) : Bool :=
  (48 ≤ b && b ≤ 57) || (65 ≤ b && b ≤ 90) || (97 ≤ b && b ≤ 122) || b == 95

/-- a position in the subject: bytes before (reversed), bytes after, absolute offset -/
structure Pos where
  before : Bytes
  after : Bytes
  off : Nat
  deriving Repr

def Pos.start (s : Bytes) : Pos := ⟨[], s, 0⟩

def Pos.advance (p : Pos) : Nat → Pos
  | 0 => p
  | n+1 => match p.after with
    | [] => p
    | b :: t => Pos.advance ⟨b :: p.before, t, p.off + 1⟩ n

/-- capture table: (group index, start, end); later entries override earlier ones -/
abbrev Caps := List (Nat × Nat × Nat)

def Caps.get (c : Caps) (i : Nat) : Option (Nat × Nat) :=
  match c with
  | [] => none
  | (j, s, e) :: t => if i == j then some (s, e) else Caps.get t i

def atWordBoundary (p : Pos) : Bool :=
  let l := match p.before with | [] => false | b :: _ => isWordByte b
  let r := match p.after with | [] => false | b :: _ => isWordByte b
  l != r

/-- backtracking matcher in continuation-passing style; `none` = no match along this path -/
def m : Nat → Re → Pos → Caps → (Pos → Caps → Option (Pos × Caps)) → Option (Pos × Caps)
  | 0, _, _, _, _ => none
  | f+1, re, p, c, k =>
    match re with
    | .empty => k p c
    | .fail => none
    | .lit r =>
      match decodeRune p.after with
      | some (r', w) => if r' == r then k (p.advance w) c else none
      | none => none
    | .cls rs =>
      match decodeRune p.after with
      | some (r', w) => if inRanges r' rs then k (p.advance w) c else none
      | none => none
    | .anyNL =>
      match decodeRune p.after with
      | some (_, w) => k (p.advance w) c
      | none => none
    | .anyNoNL =>
      match decodeRune p.after with
      | some (r', w) => if r' == 10 then none else k (p.advance w) c
      | none => none
    | .bol => (match p.before with | [] => k p c | b :: _ => if b == LF then k p c else none)
    | .eol => (match p.after with | [] => k p c | b :: _ => if b == LF then k p c else none)
    | .bot => (match p.before with | [] => k p c | _ :: _ => none)
    | .eot => (match p.after with | [] => k p c | _ :: _ => none)
    | .wordB => if atWordBoundary p then k p c else none
    | .noWordB => if atWordBoundary p then none else k p c
    | .cat a b => m f a p c (fun p' c' => m f b p' c' k)
    | .alt a b =>
      match m f a p c k with
      | some r => some r
      | none => m f b p c k
    | .group i r => m f r p c (fun p' c' => k p' ((i, p.off, p'.off) :: c'))
    | .quest r greedy =>
      if greedy then
        match m f r p c k with
        | some x => some x
        | none => k p c
      else
        match k p c with
        | some x => some x
        | none => m f r p c k
    | .star r greedy =>
      let loop := m f r p c (fun p' c' => if p'.off == p.off then none else m f (.star r greedy) p' c' k)
      if greedy then
        match loop with
        | some x => some x
        | none => k p c
      else
        match k p c with
        | some x => some x
        | none => loop
    | .plus r greedy => m f (.cat r (.star r greedy)) p c k

def fuelFor (re : Re) (s : Bytes) : Nat := (re.size + 2) * (s.length + 2) * 4 + 64

/-- match anchored at position `p` -/
def matchAt (re : Re) (fuel : Nat) (p : Pos) : Option (Pos × Caps) :=
  m fuel re p [] (fun p' c' => some (p', c'))

/-- leftmost match starting the search at `p`: (start offset, end position, captures) -/
def searchFrom (re : Re) (fuel : Nat) : Nat → Pos → Option (Nat × Pos × Caps)
  | 0, _ => none
  | n+1, p =>
    match matchAt re fuel p with
    | some (e, c) => some (p.off, e, c)
    | none =>
      match decodeRune p.after with
      | none => none
      | some (_, w) => searchFrom re fuel n (p.advance w)

def find (re : Re) (s : Bytes) : Option (Nat × Nat × Caps) :=
  (searchFrom re (fuelFor re s) (s.length + 1) (Pos.start s)).map fun (a, e, c) => (a, e.off, c)

/-- `Regexp.Match` -/
def isMatch (re : Re) (s : Bytes) : Bool := (find re s).isSome

/-- `Regexp.Find` -/
def findBytes (re : Re) (s : Bytes) : Option Bytes :=
  (find re s).map fun (a, e, _) => (s.drop a).take (e - a)

/-- `Regexp.FindSubmatch` group `i` (`none` when there is no match or the group did not take part) -/
def findGroup (re : Re) (s : Bytes) (i : Nat) : Option Bytes :=
  match find re s with
  | none => none
  | some (_, _, c) => (Caps.get c i).map fun (a, e) => (s.drop a).take (e - a)

/-- all successive non-overlapping matches, with Go's rule for empty matches
    (an empty match abutting the previous match is skipped; after an empty match move one rune) -/
def findAllAux (re : Re) (fuel : Nat) : Nat → Pos → Option Nat → List (Nat × Nat × Caps)
  | 0, _, _ => []
  | n+1, p, prevEnd =>
    match searchFrom re fuel (p.after.length + 1) p with
    | none => []
    | some (a, e, c) =>
      if e.off == a then
        -- empty match
        let next := match decodeRune e.after with
          | none => none
          | some (_, w) => some (e.advance w)
        let rest := match next with
          | none => []
          | some np => findAllAux re fuel n np (some e.off)
        if prevEnd == some a then rest else (a, e.off, c) :: rest
      else (a, e.off, c) :: findAllAux re fuel n e (some e.off)

def findAll (re : Re) (s : Bytes) : List (Nat × Nat × Caps) :=
  findAllAux re (fuelFor re s) (s.length + 2) (Pos.start s) none

/-- `Regexp.ReplaceAll(s, repl)` for a replacement without `$` expansions -/
def replaceAll (re : Re) (s : Bytes) (repl : Bytes) : Bytes :=
  let ms := findAll re s
  let rec go (ms : List (Nat × Nat × Caps)) (cur : Nat) : Bytes :=
    match ms with
    | [] => s.drop cur
    | (a, e, _) :: t => (s.drop cur).take (a - cur) ++ repl ++ go t e
  go ms 0

/-- `FindAllSubmatch(s, -1)` projected to group `i` (missing groups give the empty string) -/
def findAllGroup (re : Re) (s : Bytes) (i : Nat) : List Bytes :=
  (findAll re s).map fun (_, _, c) =>
    match Caps.get c i with
    | some (a, e) => (s.drop a).take (e - a)
    | none => []

/-- `Regexp.Split(s, 2)`: text before the first match and text after it (`none` when no match) -/
def split2 (re : Re) (s : Bytes) : Option (Bytes × Bytes) :=
  match find re s with
  | none => none
  | some (a, e, _) => some (s.take a, s.drop e)

end Scrapli.Rx
